/-
  Helper lemmas for C09 / C10 (the overlay presents the union of its layers; whiteouts).

  * names and paths: `stripWo`, `marker p = "/.whiteout" ++ p ++ "_wo"`, the three path
    computations of the overlay (`whiteout_path`, `write_path`, `layer.join(&path[1..])`) on
    canonical paths, `dirPrefixes` of a canonical path;
  * `Mem.mkdirs`: `create_dir_all` as a pure function on a memory map, and what it computes on
    a chain of ancestor directories (`fillDirs`);
  * `OW w u l mu ml`: the setting — a world whose leaves `u ≠ l` are memory leaves holding the
    maps `mu` (upper layer) and `ml` (lower layer); `layers2 u l idu idl` the two layer roots;
  * the union view `view mu ml p` and the `run_*` lemmas: every building block of the overlay
    (`read_path`, `exists`, `ensure_has_parent`, the whiteout bookkeeping, listings) computes a
    pure function of the two maps.
  * after the fix of O11 (`OverlayFS::create_dir` clears the whiteout also when the write layer
    answers `DirectoryExists`): `pCreateTail` is the pure function of the part of `create_dir`
    after the overlay's `exists` said no (`pCreateDir` / `pCreateDirN` use it); it equals the old
    "create, then clear" whenever the write layer does not hold the path
    (`pCreateTail_eq_andThen`, `pCreateTail_of_not_dirExists`), and `pCreateTail_snd` describes its
    map in every case; `run_clearWhiteoutT`: over a memory layer the tolerant clearing computes
    the same `pClear` as the old one (a marker that exists is removable).
-/
import VfsModel.Proofs.AltrootLemmas
import VfsModel.Proofs.MemRun
import VfsModel.Props.C05
set_option linter.unusedSimpArgs false
set_option linter.unusedVariables false
namespace Vfs
open Overlay

/-! ### names -/

theorem goodComp_woDir : GoodComp woDir := by decide

theorem woSuffix_length : woSuffix.length = 3 := rfl

theorem goodComp_wo {c : Str} (h : GoodComp c) : GoodComp (c ++ woSuffix) := by
  obtain ⟨h1, h2, _, _⟩ := h
  refine ⟨by simp [woSuffix], ?_, ?_, ?_⟩
  · simp only [List.mem_append, not_or]
    exact ⟨h2, by decide⟩
  · intro e
    have := congrArg List.length e
    simp [woSuffix] at this
  · intro e
    have := congrArg List.length e
    simp [woSuffix] at this

theorem stripWo_append (n : Str) : stripWo (n ++ woSuffix) = some n := by
  unfold stripWo
  have hs : woSuffix.isSuffixOf (n ++ woSuffix) = true := by
    rw [List.isSuffixOf_iff_suffix]; exact List.suffix_append _ _
  rw [if_pos hs]
  congr 1
  apply List.take_left'
  simp [woSuffix]

theorem stripWo_some_iff (m n : Str) : stripWo m = some n ↔ m = n ++ woSuffix := by
  constructor
  · intro h
    unfold stripWo at h
    split at h
    · rename_i hs
      rw [List.isSuffixOf_iff_suffix] at hs
      obtain ⟨t, rfl⟩ := hs
      injection h with h
      have : List.take ((t ++ woSuffix).length - 3) (t ++ woSuffix) = t := by
        apply List.take_left'; simp [woSuffix]
      rw [this] at h
      rw [h]
    · cases h
  · rintro rfl; exact stripWo_append n

theorem stripWo_none (m : Str) (h : ¬ woSuffix <:+ m) : stripWo m = none := by
  unfold stripWo
  rw [if_neg]
  rw [List.isSuffixOf_iff_suffix]; exact h

/-! ### markers -/

/-- the whiteout marker of `p`: `"/.whiteout" ++ p ++ "_wo"` -/
def marker (p : Str) : Str := '/' :: (woDir ++ p ++ woSuffix)

/-- the bookkeeping directory that holds the markers of the children of `p`: "/.whiteout" ++ p -/
def woDirOf (p : Str) : Str := '/' :: (woDir ++ p)

/-- the marker tested by `exists("")`: "/.whiteout/_wo" -/
def rootMarker : Str := '/' :: (woDir ++ '/' :: woSuffix)

theorem marker_injective (p q : Str) (h : marker p = marker q) : p = q := by
  unfold marker at h
  simp only [List.cons.injEq, true_and, List.append_assoc] at h
  exact List.append_cancel_right (List.append_cancel_left h)

theorem marker_renderC (ds : List Str) (n : Str) :
    marker (renderC (ds ++ [n])) = renderC (woDir :: (ds ++ [n ++ woSuffix])) := by
  simp [marker, List.append_assoc]

theorem woDirOf_renderC (cs : List Str) : woDirOf (renderC cs) = renderC (woDir :: cs) := by
  simp [woDirOf]

theorem marker_child (p n : Str) :
    marker (p ++ '/' :: n) = woDirOf p ++ '/' :: (n ++ woSuffix) := by
  simp [marker, woDirOf, List.append_assoc]

theorem good_snoc {ds : List Str} {n : Str} (hds : ∀ c ∈ ds, GoodComp c) (hn : GoodComp n) :
    ∀ c ∈ ds ++ [n], GoodComp c := by
  intro c hc
  rcases List.mem_append.1 hc with h | h
  · exact hds c h
  · simp at h; subst h; exact hn

theorem good_of_snoc {ds : List Str} {n : Str} (h : ∀ c ∈ ds ++ [n], GoodComp c) :
    (∀ c ∈ ds, GoodComp c) ∧ GoodComp n :=
  ⟨fun c hc => h c (by simp [hc]), h n (by simp)⟩

theorem good_markerComps {ds : List Str} {n : Str} (hds : ∀ c ∈ ds, GoodComp c)
    (hn : GoodComp n) : ∀ c ∈ woDir :: (ds ++ [n ++ woSuffix]), GoodComp c := by
  intro c hc
  rcases List.mem_cons.1 hc with rfl | hc
  · exact goodComp_woDir
  · exact good_snoc hds (goodComp_wo hn) c hc

/-- the marker of a canonical path is a canonical path -/
theorem marker_canon (ds : List Str) (n : Str) (hds : ∀ c ∈ ds, GoodComp c) (hn : GoodComp n) :
    Canon (marker (renderC (ds ++ [n]))) :=
  ⟨_, good_markerComps hds hn, marker_renderC ds n⟩

/-- … whose parent is "/.whiteout" ++ parent -/
theorem marker_parent (ds : List Str) (n : Str) (hds : ∀ c ∈ ds, GoodComp c) (hn : GoodComp n) :
    parentInternal (marker (renderC (ds ++ [n]))) = woDirOf (renderC ds) := by
  rw [marker_renderC, woDirOf_renderC,
    parentInternal_renderC _ (good_noSlash (good_markerComps hds hn))]
  rw [show woDir :: (ds ++ [n ++ woSuffix]) = (woDir :: ds) ++ [n ++ woSuffix] from rfl,
    List.dropLast_concat]

theorem parent_snoc (ds : List Str) (n : Str) (hds : ∀ c ∈ ds, GoodComp c) (hn : GoodComp n) :
    parentInternal (renderC (ds ++ [n])) = renderC ds := by
  rw [parentInternal_renderC _ (good_noSlash (good_snoc hds hn)), List.dropLast_concat]

/-- two strings that agree up to their first '/' -/
theorem first_slash_split (x y s t : Str) (hx : '/' ∉ x) (hy : '/' ∉ y)
    (hs : s = [] ∨ s.head? = some '/') (he : x ++ s = y ++ '/' :: t) : x = y := by
  induction x generalizing y with
  | nil =>
    cases y with
    | nil => rfl
    | cons d ds =>
      simp at he hy
      rcases hs with rfl | hs
      · simp at he
      · subst he; simp at hs; exact absurd hs.symm hy.1
  | cons a as ih =>
    cases y with
    | nil =>
      simp at he hx
      exact absurd he.1.symm hx.1
    | cons d ds =>
      simp at he hx hy
      obtain ⟨rfl, he⟩ := he
      rw [ih ds hx.2 hy.2 he]

/-- a canonical path and a marker coincide only inside the ".whiteout" namespace -/
theorem renderC_eq_marker_head (cs : List Str) (q : Str) (hcs : ∀ c ∈ cs, '/' ∉ c)
    (h : renderC cs = marker q) (hq : q.head? = some '/') : cs.head? = some woDir := by
  cases cs with
  | nil => simp [marker] at h
  | cons c cs =>
    cases q with
    | nil => simp at hq
    | cons a q' =>
      simp at hq; subst hq
      simp only [renderC_cons, marker, List.cons_append, List.cons.injEq, true_and,
        List.append_assoc] at h
      have hc : '/' ∉ c := hcs c (by simp)
      have hs : renderC cs = [] ∨ (renderC cs).head? = some '/' := by cases cs <;> simp
      have := first_slash_split c woDir _ _ hc (by decide) hs h
      simp [this]

/-! ### the path computations of the overlay on canonical paths -/

theorem tail1_renderC_cons (c : Str) (cs : List Str) : tail1 (renderC (c :: cs)) = c ++ renderC cs := by
  simp [tail1]

/-- `layer.join(&path[1..])` for a layer root -/
theorem join_root_tail1 (l : VPath) (hl : l.path = []) (cs : List Str) (hne : cs ≠ [])
    (hcs : ∀ c ∈ cs, GoodComp c) : l.join (tail1 (renderC cs)) = .ok (l.withStr (renderC cs)) := by
  cases cs with
  | nil => exact absurd rfl hne
  | cons c cs =>
    rw [tail1_renderC_cons]
    unfold VPath.join
    rw [hl]
    have := joinInternal_good [] c cs (by simp) (hcs c (by simp)) (fun x hx => hcs x (by simp [hx]))
    simp only [renderC_nil, List.nil_append] at this
    rw [this]; rfl

/-- `layer.join(actual_path)` of `read_dir` (the root included) -/
theorem join_root_actual (l : VPath) (hl : l.path = []) (cs : List Str)
    (hcs : ∀ c ∈ cs, GoodComp c) :
    l.join (if renderC cs ≠ [] then tail1 (renderC cs) else renderC cs)
      = .ok (l.withStr (renderC cs)) := by
  cases cs with
  | nil =>
    simp only [renderC_nil, ne_eq, not_true_eq_false, if_false]
    unfold VPath.join joinInternal
    rw [hl]; rfl
  | cons c cs =>
    rw [if_pos (by simp)]
    exact join_root_tail1 l hl _ (by simp) hcs

theorem writePath_canon (layers : List VPath) (hw : (writeLayer layers).path = [])
    (cs : List Str) (hne : cs ≠ []) (hcs : ∀ c ∈ cs, GoodComp c) :
    writePath layers (renderC cs) = .ok ((writeLayer layers).withStr (renderC cs)) := by
  unfold writePath
  rw [if_neg (by cases cs with | nil => exact absurd rfl hne | cons c cs => simp)]
  exact join_root_tail1 _ hw cs hne hcs

theorem writePath_root (layers : List VPath) : writePath layers [] = .ok (writeLayer layers) := rfl

theorem whiteoutPath_canon (layers : List VPath) (hw : (writeLayer layers).path = [])
    (ds : List Str) (n : Str) (hds : ∀ c ∈ ds, GoodComp c) (hn : GoodComp n) :
    whiteoutPath layers (renderC (ds ++ [n]))
      = .ok ((writeLayer layers).withStr (marker (renderC (ds ++ [n])))) := by
  unfold whiteoutPath
  rw [if_neg (by cases ds <;> simp)]
  have harg : woDir ++ '/' :: (tail1 (renderC (ds ++ [n])) ++ woSuffix)
      = woDir ++ renderC (ds ++ [n ++ woSuffix]) := by
    cases ds with
    | nil => simp [tail1]
    | cons d ds => simp [tail1, List.append_assoc]
  rw [harg]
  unfold VPath.join
  rw [hw]
  have := joinInternal_good [] woDir (ds ++ [n ++ woSuffix]) (by simp) goodComp_woDir
    (good_snoc hds (goodComp_wo hn))
  simp only [renderC_nil, List.nil_append] at this
  rw [this, marker_renderC]; rfl

theorem whiteoutPath_root (layers : List VPath) (hw : (writeLayer layers).path = []) :
    whiteoutPath layers [] = .ok ((writeLayer layers).withStr rootMarker) := by
  unfold whiteoutPath
  rw [if_pos rfl]
  unfold VPath.join
  rw [hw]
  have : joinInternal [] (woDir ++ '/' :: woSuffix) = .ok rootMarker := by decide
  rw [this]; rfl

/-- the directory of markers consulted by `read_dir(p)`: ".whiteout" ++ p -/
theorem woDir_join_canon (layers : List VPath) (hw : (writeLayer layers).path = [])
    (cs : List Str) (hcs : ∀ c ∈ cs, GoodComp c) :
    (writeLayer layers).join (woDir ++ renderC cs)
      = .ok ((writeLayer layers).withStr (woDirOf (renderC cs))) := by
  unfold VPath.join
  rw [hw]
  have := joinInternal_good [] woDir cs (by simp) goodComp_woDir hcs
  simp only [renderC_nil, List.nil_append] at this
  rw [this, woDirOf_renderC]; rfl

/-! ### `dirPrefixes` of a canonical path: the chain of its ancestors and itself -/

/-- all prefixes ending at the end of the string or just before a '/' (the empty one included) -/
def cuts : Str → List Str
  | [] => [[]]
  | y :: s => (if y = '/' then [[]] else []) ++ (cuts s).map (y :: ·)

theorem range_filter_map_succ {β} (n : Nat) (P : Nat → Bool) (f : Nat → β) :
    ((List.range (n + 1)).filter P).map f
      = (if P 0 then [f 0] else []) ++
        ((List.range n).filter (fun e => P (e + 1))).map (fun e => f (e + 1)) := by
  rw [List.range_succ_eq_map]
  simp only [List.filter_cons, List.filter_map]
  split <;> simp [Function.comp_def]

/-- `cuts` as positions -/
def cutsR (s : Str) : List Str :=
  ((List.range (s.length + 1)).filter
      (fun e => decide (e = s.length ∨ s[e]? = some '/'))).map (fun e => s.take e)

theorem cutsR_cons (y : Char) (s : Str) :
    cutsR (y :: s) = (if y = '/' then [[]] else []) ++ (cutsR s).map (y :: ·) := by
  unfold cutsR
  rw [List.length_cons, range_filter_map_succ]
  congr 1
  · by_cases hy : y = '/' <;> simp [hy]
  · rw [List.map_map]
    have hf : (List.range (s.length + 1)).filter
          (fun e => decide (e + 1 = s.length + 1 ∨ (y :: s)[e + 1]? = some '/'))
        = (List.range (s.length + 1)).filter
          (fun e => decide (e = s.length ∨ s[e]? = some '/')) := by
      apply List.filter_congr
      intro e _
      simp
    rw [hf]
    apply List.map_congr_left
    intro e _
    simp

theorem cuts_eq_cutsR (s : Str) : cuts s = cutsR s := by
  induction s with
  | nil => decide
  | cons y s ih => rw [cuts, cutsR_cons, ih]

theorem dirPrefixes_cons (x : Char) (s : Str) :
    VPath.dirPrefixes (x :: s) = (cuts s).map (x :: ·) := by
  rw [cuts_eq_cutsR]
  unfold VPath.dirPrefixes cutsR
  rw [List.length_cons, range_filter_map_succ, List.map_map]
  have h0 : decide (1 ≤ 0 ∧ (0 = s.length + 1 ∨ (x :: s)[0]? = some '/')) = false := by simp
  rw [h0]
  simp only [Bool.false_eq_true, if_false, List.nil_append]
  have hf : (List.range (s.length + 1)).filter
        (fun e => decide (1 ≤ e + 1 ∧ (e + 1 = s.length + 1 ∨ (x :: s)[e + 1]? = some '/')))
      = (List.range (s.length + 1)).filter
        (fun e => decide (e = s.length ∨ s[e]? = some '/')) := by
    apply List.filter_congr
    intro e _
    simp
  rw [hf]
  apply List.map_congr_left
  intro e _
  simp

theorem cuts_append_noSlash (c s : Str) (hc : '/' ∉ c) : cuts (c ++ s) = (cuts s).map (c ++ ·) := by
  induction c with
  | nil => simp
  | cons y c ih =>
    simp at hc
    rw [List.cons_append, cuts, if_neg (fun h => hc.1 h.symm), ih hc.2]
    simp [Function.comp_def]

/-- the ancestors chain: `pre/c1`, `pre/c1/c2`, … -/
def chain (pre : List Str) : List Str → List Str
  | [] => []
  | c :: cs => renderC (pre ++ [c]) :: chain (pre ++ [c]) cs

theorem cuts_renderC (pre cs : List Str) (hcs : ∀ c ∈ cs, '/' ∉ c) :
    (cuts (renderC cs)).map (renderC pre ++ ·) = renderC pre :: chain pre cs := by
  induction cs generalizing pre with
  | nil => simp [cuts, chain]
  | cons c cs ih =>
    have hc := hcs c (by simp)
    rw [renderC_cons, List.cons_append, cuts, if_pos rfl,
      cuts_append_noSlash c _ hc]
    simp only [List.map_cons, List.append_nil, List.map_map,
      List.singleton_append, chain]
    congr 1
    have := ih (pre ++ [c]) (fun x hx => hcs x (by simp [hx]))
    rw [← this]
    apply List.map_congr_left
    intro a _
    simp

theorem dirPrefixes_renderC (cs : List Str) (hcs : ∀ c ∈ cs, '/' ∉ c) :
    VPath.dirPrefixes (renderC cs) = chain [] cs := by
  cases cs with
  | nil => decide
  | cons c cs =>
    rw [renderC_cons, List.cons_append, dirPrefixes_cons, cuts_append_noSlash c _ (hcs c (by simp))]
    have := cuts_renderC [c] cs (fun x hx => hcs x (by simp [hx]))
    simp only [List.map_map, chain, List.nil_append]
    have h2 : (fun x => '/' :: x) ∘ (fun x => c ++ x) = (renderC [c] ++ ·) := by
      funext x; simp
    rw [h2, this]

theorem mem_chain (pre cs : List Str) (k : Str) :
    k ∈ chain pre cs ↔ ∃ j, 1 ≤ j ∧ j ≤ cs.length ∧ k = renderC (pre ++ cs.take j) := by
  induction cs generalizing pre with
  | nil => simp [chain]; intro j h1 h2; omega
  | cons c cs ih =>
    simp only [chain, List.mem_cons, ih, List.length_cons]
    constructor
    · rintro (rfl | ⟨j, h1, h2, rfl⟩)
      · exact ⟨1, by omega, by omega, by simp⟩
      · exact ⟨j + 1, by omega, by omega, by simp [List.append_assoc]⟩
    · rintro ⟨j, h1, h2, rfl⟩
      by_cases hj : j = 1
      · subst hj; left; simp
      · right
        refine ⟨j - 1, by omega, by omega, ?_⟩
        obtain ⟨i, rfl⟩ : ∃ i, j = i + 1 := ⟨j - 1, by omega⟩
        simp [List.append_assoc]

/-! ### `create_dir_all` on a memory map -/

namespace Mem

/-- the loop of `create_dir_all` over a list of prefixes, on a memory map -/
def mkdirs (m : FMap) : List Str → Res Unit × FMap
  | [] => (.ok (), m)
  | d :: rest =>
    match Mem.createDir m d with
    | (.ok _, m') => mkdirs m' rest
    | (.err .dirExists _, m') => mkdirs m' rest
    | (.err k _, m') => (.err k (some d), m')
    | (.panic, m') => (.panic, m')

end Mem

theorem run_createDirAllLoop {w : World} {i : Nat} {m : FMap} (h : MemLeafAt w i m) (id : Nat)
    (q : Str) (ds : List Str) :
    VPath.createDirAllLoop { fs := leafFS i, fsId := id, path := q } ds w =
      ((Mem.mkdirs m ds).1, w.setLeafFiles i (Mem.mkdirs m ds).2) := by
  induction ds generalizing w m with
  | nil => simp [VPath.createDirAllLoop, Mem.mkdirs, h.same, Pure.pure, M.pure]
  | cons d rest ih =>
    unfold VPath.createDirAllLoop Mem.mkdirs
    simp only [run_createDir h]
    cases hc : Mem.createDir m d with
    | mk r m' =>
      have h' := h.set m'
      cases r with
      | ok a => simp only [ih h', World.setLeafFiles_twice]
      | err k pth =>
        cases k <;> simp only [ih h', World.setLeafFiles_twice]
      | panic => rfl

/-- add a fresh directory entry at every listed key that is absent -/
def fillDirs (m : FMap) : List Str → FMap
  | [] => m
  | k :: ks => fillDirs (if m.contains k then m else m.insert k dirEntryNow) ks

theorem find?_fillDirs (m : FMap) (ks : List Str) (q : Str) :
    (fillDirs m ks).find? q = (m.find? q).or (if q ∈ ks then some dirEntryNow else none) := by
  induction ks generalizing m with
  | nil => simp [fillDirs]
  | cons k ks ih =>
    rw [fillDirs, ih]
    by_cases hk : m.contains k = true
    · rw [if_pos hk]
      by_cases hq : q = k
      · subst hq
        obtain ⟨e, he⟩ := (FMap.contains_iff m q).1 hk
        simp [he]
      · simp [hq]
    · rw [if_neg hk, FMap.find?_insert]
      by_cases hq : q = k
      · subst hq
        have : m.find? q = none := by
          unfold FMap.contains at hk
          cases hf : m.find? q <;> simp_all
        simp [this]
      · simp [hq]

theorem contains_fillDirs_of_contains (m : FMap) (ks : List Str) (q : Str)
    (h : m.contains q = true) : (fillDirs m ks).contains q = true := by
  obtain ⟨e, he⟩ := (FMap.contains_iff m q).1 h
  rw [FMap.contains_iff]
  exact ⟨e, by rw [find?_fillDirs, he]; rfl⟩

theorem find?_fillDirs_not_mem (m : FMap) (ks : List Str) (q : Str) (h : q ∉ ks) :
    (fillDirs m ks).find? q = m.find? q := by
  rw [find?_fillDirs, if_neg h]; simp

/- ADAPTED (ensure_has_parent fix): the starting point `renderC pre` must now be an existing
DIRECTORY (it used to be enough that it exists), since `ensureHasParent` checks the type. -/
theorem mkdirs_chain (m : FMap) (pre cs : List Str) (hpre : ∀ c ∈ pre, '/' ∉ c)
    (hcs : ∀ c ∈ cs, '/' ∉ c)
    (hroot : ∃ e, m.find? (renderC pre) = some e ∧ e.ftype = .dir)
    (hdirs : ∀ k ∈ chain pre cs, ∀ e, m.find? k = some e → e.ftype = .dir) :
    Mem.mkdirs m (chain pre cs) = (.ok (), fillDirs m (chain pre cs)) := by
  induction cs generalizing pre m with
  | nil => rfl
  | cons c cs ih =>
    have hc := hcs c (by simp)
    have hpre' : ∀ x ∈ pre ++ [c], '/' ∉ x := by
      intro x hx; simp at hx; rcases hx with hx | rfl
      · exact hpre x hx
      · exact hc
    have hpar : parentInternal (renderC (pre ++ [c])) = renderC pre := by
      rw [parentInternal_renderC _ hpre', List.dropLast_concat]
    have hsl : '/' ∈ renderC (pre ++ [c]) := slash_mem_renderC (by simp)
    have hen : Mem.ensureHasParent m (renderC (pre ++ [c])) = .ok () := by
      obtain ⟨e0, he0, hd0⟩ := hroot
      unfold Mem.ensureHasParent
      simp only [if_pos hsl, hpar, he0, hd0, ↓reduceIte]
    simp only [chain, Mem.mkdirs, fillDirs]
    unfold Mem.createDir
    rw [hen]
    rcases Option.eq_none_or_eq_some (m.find? (renderC (pre ++ [c]))) with hf | ⟨e, hf⟩
    · have hnc : ¬ m.contains (renderC (pre ++ [c])) = true := by
        unfold FMap.contains; rw [hf]; simp
      simp only [hf, if_neg hnc]
      apply ih _ (pre ++ [c]) hpre' (fun x hx => hcs x (by simp [hx]))
      · exact ⟨dirEntryNow, FMap.find?_insert_self _ _ _, rfl⟩
      · intro k hk e he
        rw [FMap.find?_insert] at he
        split at he
        · injection he with he; subst he; rfl
        · exact hdirs k (by simp [chain, hk]) e he
    · have hd : e.ftype = .dir := hdirs _ (by simp [chain]) e hf
      have hcn : m.contains (renderC (pre ++ [c])) = true := by
        unfold FMap.contains; rw [hf]; rfl
      simp only [hf, hd, if_pos hcn, fail]
      simp only [show (FType.dir = FType.file) = False from by simp, if_false]
      apply ih _ (pre ++ [c]) hpre' (fun x hx => hcs x (by simp [hx])) ⟨e, hf, hd⟩
      intro k hk e' he'
      exact hdirs k (by simp [chain, hk]) e' he'

/-! ### the setting: two memory leaves, the two layer roots -/

/-- leaves `u ≠ l` of the world are memory leaves holding `mu` (upper) and `ml` (lower) -/
structure OW (w : World) (u l : Nat) (mu ml : FMap) : Prop where
  hu : MemLeafAt w u mu
  hl : MemLeafAt w l ml
  ne : u ≠ l

theorem OW.setU {w : World} {u l : Nat} {mu ml : FMap} (h : OW w u l mu ml) (m' : FMap) :
    OW (w.setLeafFiles u m') u l m' ml :=
  ⟨h.hu.set m', by
    unfold MemLeafAt; rw [World.leaf?_setLeafFiles_ne w u l m' h.ne]; exact h.hl, h.ne⟩

theorem OW.setL {w : World} {u l : Nat} {mu ml : FMap} (h : OW w u l mu ml) (m' : FMap) :
    OW (w.setLeafFiles l m') u l mu m' :=
  ⟨by unfold MemLeafAt; rw [World.leaf?_setLeafFiles_ne w l u m' (fun e => h.ne e.symm)]; exact h.hu,
    h.hl.set m', h.ne⟩

/-- the two layers of the overlay: the roots of the leaf filesystems `u` (upper) and `l` -/
def layers2 (u l idu idl : Nat) : List VPath :=
  [{ fs := leafFS u, fsId := idu, path := [] }, { fs := leafFS l, fsId := idl, path := [] }]

/-- the union view: nothing where a marker sits, otherwise the first layer that has the path -/
def view (mu ml : FMap) (p : Str) : Option Entry :=
  if mu.contains (marker p) then none else (mu.find? p).or (ml.find? p)

/-! ### how the path-layer observers run on a memory leaf -/

section runv
variable {w : World} {i : Nat} {m : FMap} (h : MemLeafAt w i m)
include h

theorem run_vexists (id : Nat) (p : Str) :
    VPath.exists_ { fs := leafFS i, fsId := id, path := p } w = (.ok (m.contains p), w) :=
  run_exists h p

theorem run_vmetadata (id : Nat) (p : Str) :
    VPath.metadata { fs := leafFS i, fsId := id, path := p } w
      = ((Mem.metadata m p).withPath p, w) := by
  unfold VPath.metadata M.withPath
  simp only [run_metadata h]

theorem run_visDir (id : Nat) (p : Str) :
    VPath.isDir { fs := leafFS i, fsId := id, path := p } w =
      (.ok (match m.find? p with
            | some e => decide (e.ftype = .dir)
            | none => false), w) := by
  unfold VPath.isDir
  rcases Option.eq_none_or_eq_some (m.find? p) with hf | ⟨e, hf⟩
  · simp [hf, bind, M.bind, run_vexists h, FMap.contains, Pure.pure, M.pure]
  · simp [hf, bind, M.bind, run_vexists h, run_vmetadata h, FMap.contains, Mem.metadata,
      Pure.pure, M.pure, Res.withPath, Entry.meta]

theorem run_visFile (id : Nat) (p : Str) :
    VPath.isFile { fs := leafFS i, fsId := id, path := p } w =
      (.ok (match m.find? p with
            | some e => decide (e.ftype = .file)
            | none => false), w) := by
  unfold VPath.isFile
  rcases Option.eq_none_or_eq_some (m.find? p) with hf | ⟨e, hf⟩
  · simp [hf, bind, M.bind, run_vexists h, FMap.contains, Pure.pure, M.pure]
  · simp [hf, bind, M.bind, run_vexists h, run_vmetadata h, FMap.contains, Mem.metadata,
      Pure.pure, M.pure, Res.withPath, Entry.meta]

end runv

/-- sequencing of pure state functions on a map (mirrors `M.bind`) -/
def andThen {α β} (x : Res α × FMap) (f : α → FMap → Res β × FMap) : Res β × FMap :=
  match x with
  | (.ok a, m) => f a m
  | (.err k p, m) => (.err k p, m)
  | (.panic, m) => (.panic, m)

/-- `create_file()?` immediately dropped: an empty file is published -/
def Mem.pTouch (m : FMap) (k : Str) : Res Unit × FMap :=
  if Mem.parentOk m k then
    match Mem.createFile m k with
    | (.ok _, m') => (.ok (), memPublish m' k [])
    | (.err e pth, m') => ((Res.err e pth : Res Unit).withPath k, m')
    | (.panic, m') => (.panic, m')
  else (.err .other (some k), m)

section run1
variable {w : World} {i : Nat} {m : FMap} (h : MemLeafAt w i m)
include h

theorem run_createDirAll (id : Nat) (ds : List Str) (hds : ∀ c ∈ ds, GoodComp c) :
    VPath.createDirAll { fs := leafFS i, fsId := id, path := renderC ds } w =
      ((Mem.mkdirs m (chain [] ds)).1, w.setLeafFiles i (Mem.mkdirs m (chain [] ds)).2) := by
  unfold VPath.createDirAll
  cases ds with
  | nil => simp [chain, Mem.mkdirs, Pure.pure, M.pure, h.same]
  | cons d ds =>
    rw [if_neg (by simp)]
    show VPath.createDirAllLoop _ (VPath.dirPrefixes (renderC (d :: ds))) w = _
    rw [dirPrefixes_renderC _ (good_noSlash hds), run_createDirAllLoop h]

theorem run_pTouch (id : Nat) (k : Str) :
    (do let hd ← VPath.createFile { fs := leafFS i, fsId := id, path := k }
        hd.drop : M Unit) w =
      ((Mem.pTouch m k).1, w.setLeafFiles i (Mem.pTouch m k).2) := by
  unfold VPath.createFile Mem.pTouch
  simp only [bind, M.bind, run_getParent h]
  by_cases hp : Mem.parentOk m k = true
  · simp only [hp, ↓reduceIte, M.withPath, run_createFile h]
    cases hc : Mem.createFile m k with
    | mk r m' =>
      cases r with
      | ok u =>
        have h' : MemLeafAt (w.setLeafFiles i m') i m' := h.set m'
        simp only [Res.map, Res.withPath, WHandle.drop, WHandle.flush]
        unfold MemLeafAt at h'
        simp only [h', World.setLeafFiles_twice]
      | err k pth => simp [Res.map, Res.withPath]
      | panic => simp [Res.map, Res.withPath]
  · simp only [hp, Bool.false_eq_true, ↓reduceIte, h.same]

end run1

/-! ### listings -/

/-- the prefix scan lists exactly the bare names `n` such that `p/n` is a key -/
theorem mem_children (m : FMap) (p n : Str) :
    n ∈ m.keys.filterMap (childName p) ↔ ('/' ∉ n ∧ m.contains (p ++ '/' :: n) = true) := by
  rw [mem_filterMap_childName, FMap.contains_iff]
  constructor
  · rintro ⟨k, e, hk, hs, hp, ha⟩
    have := (split_last '/' k hs)
    unfold parentInternal at hp
    rw [hp, ha] at this
    exact ⟨this.2, e, by rw [← this.1]; exact hk⟩
  · rintro ⟨hn, e, he⟩
    exact ⟨p ++ '/' :: n, e, he, by simp, parent_of_child p n hn,
      afterLast_append_delim '/' p n hn⟩

/-- the names a layer contributes to the merged listing of `p`: its children if `p` is a
directory there, nothing otherwise -/
def layerNames (m : FMap) (p : Str) : List Str :=
  match m.find? p with
  | some e => if e.ftype = .dir then m.keys.filterMap (childName p) else []
  | none => []

/-- the `HashSet` insertions of `read_dir` -/
def mergeStep (acc names : List Str) : List Str :=
  names.foldl (fun a n => if n ∈ a then a else a ++ [n]) acc

theorem mergeStep_nil (acc : List Str) : mergeStep acc [] = acc := rfl

/-- the names of the children paths handed back by `VfsPath::read_dir` -/
theorem filenames_of_children (fs : FS) (id : Nat) (p : Str) (names : List Str)
    (hn : ∀ n ∈ names, '/' ∉ n) :
    (names.map (fun n => (VPath.withStr { fs := fs, fsId := id, path := p } (p ++ '/' :: n)))).map
      (fun c => filenameInternal c.path) = names := by
  rw [List.map_map]
  conv => rhs; rw [← List.map_id names]
  apply List.map_congr_left
  intro n hm
  simp only [Function.comp, VPath.withStr, _root_.id]
  exact afterLast_append_delim '/' p n (hn n hm)

theorem children_noSlash (m : FMap) (p : Str) : ∀ n ∈ m.keys.filterMap (childName p), '/' ∉ n :=
  fun n hn => ((mem_children m p n).1 hn).1

theorem run_vreadDir {w : World} {i : Nat} {m : FMap} (h : MemLeafAt w i m) (id : Nat) (p : Str)
    (e : Entry) (hf : m.find? p = some e) (hd : e.ftype = .dir) :
    VPath.readDir { fs := leafFS i, fsId := id, path := p } w =
      (.ok ((m.keys.filterMap (childName p)).map
        (fun n => VPath.withStr { fs := leafFS i, fsId := id, path := p } (p ++ '/' :: n))), w) := by
  unfold VPath.readDir
  simp [bind, M.bind, M.withPath, run_readDir h, Mem.readDir, hf, hd, Res.withPath, Pure.pure,
    M.pure]

theorem run_vreadDir_file {w : World} {i : Nat} {m : FMap} (h : MemLeafAt w i m) (id : Nat)
    (p : Str) (e : Entry) (hf : m.find? p = some e) (hd : e.ftype = .file) :
    VPath.readDir { fs := leafFS i, fsId := id, path := p } w = (.err .other (some p), w) := by
  unfold VPath.readDir
  simp [bind, M.bind, M.withPath, run_readDir h, Mem.readDir, hf, hd, Res.withPath, fail]

theorem contains_of_find {m : FMap} {k : Str} {e : Entry} (h : m.find? k = some e) :
    m.contains k = true := by unfold FMap.contains; rw [h]; rfl

theorem contains_of_none {m : FMap} {k : Str} (h : m.find? k = none) :
    m.contains k = false := by unfold FMap.contains; rw [h]; rfl

/-- one layer's contribution to `mergeListings` -/
theorem run_mergeLayer {w : World} {i : Nat} {m : FMap} (h : MemLeafAt w i m) (id : Nat) (p : Str)
    (acc : List Str) {β} (k : List Str → M β) :
    (do let isd ← VPath.isDir { fs := leafFS i, fsId := id, path := p }
        if isd then do
          let cs ← VPath.readDir { fs := leafFS i, fsId := id, path := p }
          k ((cs.map fun c => filenameInternal c.path).foldl
              (fun a n => if n ∈ a then a else a ++ [n]) acc)
        else k acc : M β) w = k (mergeStep acc (layerNames m p)) w := by
  simp only [bind, M.bind, run_visDir h]
  unfold layerNames
  rcases Option.eq_none_or_eq_some (m.find? p) with hf | ⟨e, hf⟩
  · simp [hf, mergeStep]
  · by_cases hd : e.ftype = .dir
    · simp only [hf, hd, decide_true, if_true, M.bind, run_vreadDir h id p e hf hd,
        filenames_of_children _ _ _ _ (children_noSlash m p)]
      rfl
    · simp [hf, hd, mergeStep]

/-! ### handles and transfers on a memory leaf -/

theorem cursorWrite_nil (bs : Bytes) : cursorWrite [] 0 bs = bs := by
  simp [cursorWrite, padTo]

theorem cursorWrite_end (b bs : Bytes) : cursorWrite b b.length bs = b ++ bs := by
  simp [cursorWrite, padTo]

theorem Mem.openFile_some (m : FMap) (p : Str) (e : Entry) (hf : m.find? p = some e) :
    Mem.openFile m p =
      (if e.ftype ≠ .file then fail .other else .ok { content := e.content, pos := 0 },
        m.insert p { e with accessed := .now }) := by
  unfold Mem.openFile Mem.setAccessed
  simp only [hf, FMap.find?_insert_self]
  split <;> rfl

theorem Mem.openFile_none (m : FMap) (p : Str) (hf : m.find? p = none) :
    Mem.openFile m p = (fail .fileNotFound, m) := by
  unfold Mem.openFile Mem.setAccessed
  simp only [hf, fail]

theorem run_vopenFile {w : World} {i : Nat} {m : FMap} (h : MemLeafAt w i m) (id : Nat) (p : Str) :
    VPath.openFile { fs := leafFS i, fsId := id, path := p } w =
      ((Mem.openFile m p).1.withPath p, w.setLeafFiles i (Mem.openFile m p).2) := by
  unfold VPath.openFile M.withPath
  simp only [run_openFile h]

theorem run_writeAllAndDrop {w : World} {i : Nat} {m : FMap} (h : MemLeafAt w i m) (key : Str)
    (buf : Bytes) (pos : Nat) (bs : Bytes) :
    WHandle.writeAllAndDrop { leaf := i, key := key, kind := .memFile, buf := buf, pos := pos } bs w
      = (.ok (), w.setLeafFiles i (memPublish m key (cursorWrite buf pos bs))) := by
  unfold MemLeafAt at h
  simp only [WHandle.writeAllAndDrop, bind, M.bind, WHandle.write, WHandle.drop, WHandle.flush, h]

theorem run_copyFile_mem {w : World} {i : Nat} {m : FMap} (h : MemLeafAt w i m) (s d : Str) :
    (leafFS i).copyFile s d w = (fail .notSupported, w) := by
  show onLeaf i _ w = _
  rw [run_onLeaf h]; simp [h.same]

theorem parentOk_contains {m : FMap} {p : Str} (h : Mem.parentOk m p = true) :
    m.contains (parentInternal p) = true := by
  obtain ⟨pe, hpe, _⟩ := Mem.parentOk_spec m p h
  exact contains_of_find hpe

/- ADAPTED (ensure_has_parent fix): the parent must be an existing DIRECTORY (`parentOk`), no
longer just an existing entry. -/
theorem Mem.createFile_fresh (m : FMap) (p : Str) (hs : '/' ∈ p)
    (hpar : Mem.parentOk m p = true) (hf : m.find? p = none) :
    Mem.createFile m p = (.ok (), m.insert p fileEntryNow) := by
  obtain ⟨pe, hpe, hpd⟩ := Mem.parentOk_spec m p hpar
  unfold Mem.createFile Mem.ensureHasParent
  simp only [hs, hpe, hpd, if_true, hf, ↓reduceIte]

theorem run_ioCopyAndDrop {w : World} {i : Nat} {m : FMap} (h : MemLeafAt w i m) (content : Bytes)
    (key sp : Str) :
    VPath.ioCopyAndDrop { content := content, pos := 0 }
        { leaf := i, key := key, kind := .memFile, buf := [], pos := 0 } sp w
      = (.ok (), w.setLeafFiles i (memPublish m key content)) := by
  unfold MemLeafAt at h
  simp [VPath.ioCopyAndDrop, bind, M.bind, M.withPath, M.ret, RHandle.readToEnd, Res.withPath,
    WHandle.write, WHandle.drop, WHandle.flush, h, cursorWrite_nil]

/-! ### the overlay's building blocks on the two-leaf world -/

section run2
variable {w : World} {u l idu idl : Nat} {mu ml : FMap} (h : OW w u l mu ml)

theorem writeLayer_layers2 (u l idu idl : Nat) :
    writeLayer (layers2 u l idu idl) = { fs := leafFS u, fsId := idu, path := [] } := rfl

theorem writeLayer_layers2_path (u l idu idl : Nat) :
    (writeLayer (layers2 u l idu idl)).path = [] := rfl

include h

omit h in
theorem join_leafRoot (i id : Nat) (cs : List Str) (hne : cs ≠ []) (hcs : ∀ c ∈ cs, GoodComp c) :
    ({ fs := leafFS i, fsId := id, path := [] } : VPath).join (tail1 (renderC cs))
      = .ok { fs := leafFS i, fsId := id, path := renderC cs } :=
  join_root_tail1 _ rfl cs hne hcs

theorem run_firstExisting (cs : List Str) (hne : cs ≠ []) (hcs : ∀ c ∈ cs, GoodComp c) :
    firstExisting (renderC cs) (layers2 u l idu idl) w =
      (.ok (if mu.contains (renderC cs) then
              some { fs := leafFS u, fsId := idu, path := renderC cs }
            else if ml.contains (renderC cs) then
              some { fs := leafFS l, fsId := idl, path := renderC cs }
            else none), w) := by
  unfold layers2 firstExisting firstExisting firstExisting
  rw [join_leafRoot u idu cs hne hcs, join_leafRoot l idl cs hne hcs]
  by_cases h1 : mu.contains (renderC cs) = true
  · simp [h1, bind, M.bind, M.ret, run_vexists h.hu, Pure.pure, M.pure]
  · by_cases h2 : ml.contains (renderC cs) = true
    · simp [h1, h2, bind, M.bind, M.ret, run_vexists h.hu, run_vexists h.hl, Pure.pure, M.pure]
    · simp [h1, h2, bind, M.bind, M.ret, run_vexists h.hu, run_vexists h.hl, Pure.pure, M.pure]

omit h in
theorem renderC_ne_nil {cs : List Str} (hne : cs ≠ []) : renderC cs ≠ [] := by
  cases cs with
  | nil => exact absurd rfl hne
  | cons c cs => simp

omit h in
theorem whiteoutPath_layers2 (cs : List Str) (hne : cs ≠ []) (hcs : ∀ c ∈ cs, GoodComp c) :
    whiteoutPath (layers2 u l idu idl) (renderC cs)
      = .ok { fs := leafFS u, fsId := idu, path := marker (renderC cs) } := by
  rcases List.eq_nil_or_concat cs with rfl | ⟨ds, n, rfl⟩
  · exact absurd rfl hne
  · rw [List.concat_eq_append] at hcs ⊢
    obtain ⟨hds, hn⟩ := good_of_snoc hcs
    exact whiteoutPath_canon _ rfl ds n hds hn

omit h in
theorem writePath_layers2 (cs : List Str) (hne : cs ≠ []) (hcs : ∀ c ∈ cs, GoodComp c) :
    writePath (layers2 u l idu idl) (renderC cs)
      = .ok { fs := leafFS u, fsId := idu, path := renderC cs } :=
  writePath_canon _ rfl cs hne hcs

/-- `read_path` on a canonical non-root path -/
theorem run_readPath (cs : List Str) (hne : cs ≠ []) (hcs : ∀ c ∈ cs, GoodComp c) :
    readPath (layers2 u l idu idl) (renderC cs) w =
      (if mu.contains (marker (renderC cs)) then .err .fileNotFound none
       else if mu.contains (renderC cs) then
         .ok { fs := leafFS u, fsId := idu, path := renderC cs }
       else if ml.contains (renderC cs) then
         .ok { fs := leafFS l, fsId := idl, path := renderC cs }
       else .err .fileNotFound none, w) := by
  unfold readPath
  rw [if_neg (renderC_ne_nil hne), whiteoutPath_layers2 cs hne hcs, writeLayer_layers2,
    join_leafRoot u idu cs hne hcs]
  by_cases hm : mu.contains (marker (renderC cs)) = true
  · simp [hm, bind, M.bind, M.ret, run_vexists h.hu, M.failK, fail]
  · by_cases h1 : mu.contains (renderC cs) = true
    · simp [hm, h1, bind, M.bind, M.ret, run_vexists h.hu, run_firstExisting h cs hne hcs,
        Pure.pure, M.pure]
    · by_cases h2 : ml.contains (renderC cs) = true
      · simp [hm, h1, h2, bind, M.bind, M.ret, run_vexists h.hu, run_firstExisting h cs hne hcs,
          Pure.pure, M.pure]
      · simp [hm, h1, h2, bind, M.bind, M.ret, run_vexists h.hu, run_firstExisting h cs hne hcs,
          Pure.pure, M.pure, M.failK, fail]

omit h in
theorem view_isSome (mu ml : FMap) (p : Str) :
    (view mu ml p).isSome = (!mu.contains (marker p) && (mu.contains p || ml.contains p)) := by
  unfold view FMap.contains
  cases (mu.find? (marker p)).isSome <;> cases mu.find? p <;> cases ml.find? p <;> simp

/-- `exists` on a canonical non-root path is "the union view has an entry" -/
theorem run_oexists (cs : List Str) (hne : cs ≠ []) (hcs : ∀ c ∈ cs, GoodComp c) :
    Overlay.exists_ (layers2 u l idu idl) (renderC cs) w
      = (.ok (view mu ml (renderC cs)).isSome, w) := by
  unfold Overlay.exists_
  rw [whiteoutPath_layers2 cs hne hcs, view_isSome]
  by_cases hm : mu.contains (marker (renderC cs)) = true
  · simp [hm, bind, M.bind, M.ret, run_vexists h.hu, Pure.pure, M.pure]
  · by_cases h1 : mu.contains (renderC cs) = true
    · simp [hm, h1, bind, M.bind, M.ret, run_vexists h.hu, run_readPath h cs hne hcs]
    · by_cases h2 : ml.contains (renderC cs) = true
      · simp [hm, h1, h2, bind, M.bind, M.ret, run_vexists h.hu, run_vexists h.hl,
          run_readPath h cs hne hcs]
      · simp [hm, h1, h2, bind, M.bind, M.ret, run_vexists h.hu, run_readPath h cs hne hcs]

/-- `exists("")`: the root of the upper layer, unless "/.whiteout/_wo" exists -/
theorem run_oexists_root :
    Overlay.exists_ (layers2 u l idu idl) [] w
      = (.ok (!mu.contains rootMarker && mu.contains []), w) := by
  unfold Overlay.exists_
  rw [whiteoutPath_root _ rfl, writeLayer_layers2]
  by_cases hm : mu.contains rootMarker = true
  · simp [hm, bind, M.bind, M.ret, VPath.withStr, run_vexists h.hu, Pure.pure, M.pure]
  · simp [hm, bind, M.bind, M.ret, VPath.withStr, run_vexists h.hu, readPath, Pure.pure, M.pure,
      writeLayer_layers2]

/-- the pure value of `exists` on a canonical path, the root included -/
def pexists (mu ml : FMap) (p : Str) : Bool :=
  if p = [] then (!mu.contains rootMarker && mu.contains []) else (view mu ml p).isSome

theorem run_oexists_any (cs : List Str) (hcs : ∀ c ∈ cs, GoodComp c) :
    Overlay.exists_ (layers2 u l idu idl) (renderC cs) w
      = (.ok (pexists mu ml (renderC cs)), w) := by
  unfold pexists
  by_cases hne : cs = []
  · subst hne; simp only [renderC_nil, if_true]; exact run_oexists_root h
  · rw [if_neg (renderC_ne_nil hne)]; exact run_oexists h cs hne hcs

omit h in
theorem writePath_layers2_any (ds : List Str) (hds : ∀ c ∈ ds, GoodComp c) :
    writePath (layers2 u l idu idl) (renderC ds)
      = .ok { fs := leafFS u, fsId := idu, path := renderC ds } := by
  by_cases hne : ds = []
  · subst hne; rfl
  · exact writePath_layers2 ds hne hds

/-- the type test of `ensure_has_parent` (`read_path(parent)?.is_dir()?`) on a canonical path:
the entry of the union view (the root: of the upper layer) is a directory -/
def pIsDir (mu ml : FMap) (p : Str) : Bool :=
  match (if p = [] then mu.find? [] else view mu ml p) with
  | some e => decide (e.ftype = .dir)
  | none => false

/-- `read_path(p)?.is_dir()?` on a canonical path that exists: the world is unchanged, the
answer is `pIsDir` -/
theorem run_readPath_isDir (ds : List Str) (hds : ∀ c ∈ ds, GoodComp c)
    (hex : pexists mu ml (renderC ds) = true) :
    (do let rp ← readPath (layers2 u l idu idl) (renderC ds)
        rp.isDir : M Bool) w = (.ok (pIsDir mu ml (renderC ds)), w) := by
  unfold pIsDir
  by_cases hne : ds = []
  · subst hne
    simp only [renderC_nil, ↓reduceIte, bind, M.bind, readPath, Pure.pure, M.pure,
      writeLayer_layers2, run_visDir h.hu]
  · unfold pexists at hex
    rw [if_neg (renderC_ne_nil hne)] at hex ⊢
    simp only [bind, M.bind, run_readPath h ds hne hds]
    unfold view at hex ⊢
    by_cases hm : mu.contains (marker (renderC ds)) = true
    · rw [if_pos hm] at hex; cases hex
    · rw [if_neg hm] at hex ⊢
      rcases Option.eq_none_or_eq_some (mu.find? (renderC ds)) with hc | ⟨e, hc⟩
      · rcases Option.eq_none_or_eq_some (ml.find? (renderC ds)) with hc' | ⟨e', hc'⟩
        · rw [hc, hc'] at hex; cases hex
        · simp only [hm, Bool.false_eq_true, if_false, contains_of_none hc, contains_of_find hc',
            if_true, run_visDir h.hl, hc', hc, Option.or]
      · simp only [hm, Bool.false_eq_true, if_false, contains_of_find hc, if_true,
          run_visDir h.hu, hc, Option.or]

/-- `ensure_has_parent` as a function of the maps; `ds` are the components of the parent.
The parent has to exist in the union view AND be a directory there; otherwise the call fails
and the upper map is unchanged (a parent that is a FILE used to get shadowed by directories
created in the upper layer). -/
def pEnsure (mu ml : FMap) (ds : List Str) : Res Unit × FMap :=
  if pexists mu ml (renderC ds) then
    if pIsDir mu ml (renderC ds) then Mem.mkdirs mu (chain [] ds) else (.err .other none, mu)
  else (.err .other none, mu)

theorem run_ensureHasParent (cs : List Str) (hne : cs ≠ []) (hcs : ∀ c ∈ cs, GoodComp c) :
    ensureHasParent (layers2 u l idu idl) (renderC cs) w =
      ((pEnsure mu ml cs.dropLast).1, w.setLeafFiles u (pEnsure mu ml cs.dropLast).2) := by
  have hds : ∀ c ∈ cs.dropLast, GoodComp c := fun c hc => hcs c (List.dropLast_subset _ hc)
  unfold ensureHasParent pEnsure
  rw [if_pos (slash_mem_renderC hne), parentInternal_renderC cs (good_noSlash hcs),
    writePath_layers2_any _ hds]
  by_cases hex : pexists mu ml (renderC cs.dropLast) = true
  · have hrd := run_readPath_isDir (idu := idu) (idl := idl) h cs.dropLast hds hex
    simp only [bind, M.bind] at hrd
    by_cases hd : pIsDir mu ml (renderC cs.dropLast) = true
    · rw [hd] at hrd
      simp only [bind, M.bind, run_oexists_any h _ hds, hex, if_true] at hrd ⊢
      split at hrd
      · rename_i rp w1 hrp
        rw [hrd]
        simp [hd, M.ret, M.bind, run_createDirAll h.hu idu _ hds]
      · cases hrd
      · cases hrd
    · have hd' : pIsDir mu ml (renderC cs.dropLast) = false := by simpa using hd
      rw [hd'] at hrd
      simp only [bind, M.bind, run_oexists_any h _ hds, hex, if_true] at hrd ⊢
      split at hrd
      · rename_i rp w1 hrp
        rw [hrd]
        simp [hd', M.failK, fail, h.hu.same]
      · cases hrd
      · cases hrd
  · simp [hex, bind, M.bind, M.ret, run_oexists_any h _ hds, M.failK, fail, h.hu.same]

/-- the removal of the marker by `create_dir` / `create_file` -/
def pClear (mu : FMap) (p : Str) : Res Unit × FMap :=
  if mu.contains (marker p) then Mem.pRemoveFile mu (marker p) else (.ok (), mu)

theorem run_clearWhiteout (cs : List Str) (hne : cs ≠ []) (hcs : ∀ c ∈ cs, GoodComp c) :
    clearWhiteout (layers2 u l idu idl) (renderC cs) w =
      ((pClear mu (renderC cs)).1, w.setLeafFiles u (pClear mu (renderC cs)).2) := by
  unfold clearWhiteout pClear
  rw [whiteoutPath_layers2 cs hne hcs]
  by_cases hm : mu.contains (marker (renderC cs)) = true
  · simp [hm, bind, M.bind, M.ret, run_vexists h.hu, run_pRemoveFile h.hu]
  · simp [hm, bind, M.bind, M.ret, run_vexists h.hu, Pure.pure, M.pure, h.hu.same]

omit h in
/-- on a memory map the removal of a key that is present never answers `FileNotFound` -/
theorem Mem.pRemoveFile_not_nf {m : FMap} {k : Str} (hc : m.contains k = true) (pth : Option Str) :
    (Mem.pRemoveFile m k).1 ≠ .err .fileNotFound pth := by
  unfold Mem.pRemoveFile Mem.removeFile
  unfold FMap.contains at hc
  rcases Option.eq_none_or_eq_some (m.find? k) with hf | ⟨e, hf⟩
  · rw [hf] at hc; cases hc
  · simp only [hf]
    split <;> simp [fail, Res.withPath]

/-- the tolerant removal of the marker by `create_dir` (fix of O11): over a memory layer a marker
that exists is removable, so it computes the same function `pClear` -/
theorem run_clearWhiteoutT (cs : List Str) (hne : cs ≠ []) (hcs : ∀ c ∈ cs, GoodComp c) :
    clearWhiteoutT (layers2 u l idu idl) (renderC cs) w =
      ((pClear mu (renderC cs)).1, w.setLeafFiles u (pClear mu (renderC cs)).2) := by
  unfold clearWhiteoutT pClear
  rw [whiteoutPath_layers2 cs hne hcs]
  by_cases hm : mu.contains (marker (renderC cs)) = true
  · simp only [hm, bind, M.bind, M.ret, run_vexists h.hu, run_pRemoveFile h.hu, if_true]
    have hnf := Mem.pRemoveFile_not_nf hm
    cases hr : Mem.pRemoveFile mu (marker (renderC cs)) with
    | mk r m' =>
      rw [hr] at hnf
      cases r with
      | ok a => rfl
      | err k pth => cases k <;> first | rfl | exact absurd rfl (hnf pth)
      | panic => rfl
  · simp [hm, bind, M.bind, M.ret, run_vexists h.hu, Pure.pure, M.pure, h.hu.same]

/-- the creation of the marker by `remove_file` / `remove_dir` -/
def pAddWhiteout (mu : FMap) (cs : List Str) : Res Unit × FMap :=
  andThen (Mem.mkdirs mu (chain [] (woDir :: cs.dropLast)))
    (fun _ m1 => Mem.pTouch m1 (marker (renderC cs)))

theorem run_addWhiteout (cs : List Str) (hne : cs ≠ []) (hcs : ∀ c ∈ cs, GoodComp c) :
    addWhiteout (layers2 u l idu idl) (renderC cs) w =
      ((pAddWhiteout mu cs).1, w.setLeafFiles u (pAddWhiteout mu cs).2) := by
  have hds : ∀ c ∈ woDir :: cs.dropLast, GoodComp c := by
    intro c hc
    rcases List.mem_cons.1 hc with rfl | hc
    · exact goodComp_woDir
    · exact hcs c (List.dropLast_subset _ hc)
  have hpar : parentInternal (marker (renderC cs)) = renderC (woDir :: cs.dropLast) := by
    rcases List.eq_nil_or_concat cs with rfl | ⟨ds, n, rfl⟩
    · exact absurd rfl hne
    · rw [List.concat_eq_append] at hcs ⊢
      obtain ⟨hd, hn⟩ := good_of_snoc hcs
      rw [marker_parent ds n hd hn, woDirOf_renderC, List.dropLast_concat]
  unfold addWhiteout pAddWhiteout
  rw [whiteoutPath_layers2 cs hne hcs]
  simp only [bind, M.bind, M.ret, VPath.parent, VPath.withStr, hpar,
    run_createDirAll h.hu idu _ hds]
  cases hmk : Mem.mkdirs mu (chain [] (woDir :: cs.dropLast)) with
  | mk r m1 =>
    cases r with
    | ok a =>
      have := run_pTouch (h.hu.set m1) idu (marker (renderC cs))
      simp only [bind, M.bind] at this
      simp only [andThen, this, World.setLeafFiles_twice]
    | err k pth => simp [andThen]
    | panic => simp [andThen]

omit h in
theorem ret_ok_bind {α β} (x : α) (f : α → M β) : (M.ret (.ok x) >>= f) = f x := rfl

theorem run_mergeListings (cs : List Str) (hcs : ∀ c ∈ cs, GoodComp c) :
    mergeListings (if renderC cs ≠ [] then tail1 (renderC cs) else renderC cs)
        (layers2 u l idu idl) [] w =
      (.ok (mergeStep (mergeStep [] (layerNames mu (renderC cs))) (layerNames ml (renderC cs))),
        w) := by
  unfold layers2
  rw [mergeListings, join_root_actual _ rfl cs hcs, ret_ok_bind]
  simp only [VPath.withStr]
  rw [run_mergeLayer h.hu]
  rw [mergeListings, join_root_actual _ rfl cs hcs, ret_ok_bind]
  simp only [VPath.withStr]
  rw [run_mergeLayer h.hl]
  rfl

/-- the part of `read_dir` after the checks on the read path -/
def readDirTail (layers : List VPath) (p : Str) : M (List Str) := do
  let entries ← mergeListings (if p ≠ [] then tail1 p else p) layers []
  let wp ← M.ret ((writeLayer layers).join (woDir ++ p))
  let wex ← wp.exists_
  if wex then do
    let marks ← wp.readDir
    pure ((if p = [] then entries.filter (fun n => n ≠ woDir) else entries).filter
      fun n => n ∉ marks.filterMap fun m => stripWo (filenameInternal m.path))
  else pure (if p = [] then entries.filter (fun n => n ≠ woDir) else entries)

omit h in
theorem readDir_eq_tail (layers : List VPath) (p : Str) :
    Overlay.readDir layers p = (do
      let rp ← readPath layers p
      let ex ← rp.exists_
      if !ex then M.failK .fileNotFound
      else do
        let isd ← rp.isDir
        if !isd then M.failK .other
        else readDirTail layers p) := rfl

/-- the names with a marker among the children of "/.whiteout" ++ p -/
def markedNames (mu : FMap) (p : Str) : List Str :=
  if mu.contains (woDirOf p) then (mu.keys.filterMap (childName (woDirOf p))).filterMap stripWo
  else []

/-- the listing `read_dir` computes: merged children, minus the bookkeeping directory at the
root, minus the marked names -/
def pListing (mu ml : FMap) (p : Str) : List Str :=
  ((if p = [] then
      (mergeStep (mergeStep [] (layerNames mu p)) (layerNames ml p)).filter (fun n => n ≠ woDir)
    else mergeStep (mergeStep [] (layerNames mu p)) (layerNames ml p)).filter
    fun n => n ∉ markedNames mu p)

omit h in
theorem filter_not_mem_nil (l : List Str) : l.filter (fun n => n ∉ ([] : List Str)) = l := by
  simp

omit h in
theorem woDir_join_layers2 (cs : List Str) (hcs : ∀ c ∈ cs, GoodComp c) :
    ({ fs := leafFS u, fsId := idu, path := [] } : VPath).join (woDir ++ renderC cs)
      = .ok { fs := leafFS u, fsId := idu, path := woDirOf (renderC cs) } :=
  woDir_join_canon (layers2 u 0 idu 0) rfl cs hcs

theorem run_readDirTail (cs : List Str) (hcs : ∀ c ∈ cs, GoodComp c)
    (hwo : ∀ e, mu.find? (woDirOf (renderC cs)) = some e → e.ftype = .dir) :
    readDirTail (layers2 u l idu idl) (renderC cs) w = (.ok (pListing mu ml (renderC cs)), w) := by
  unfold readDirTail pListing markedNames
  simp only [bind, M.bind, run_mergeListings h cs hcs, M.ret,
    writeLayer_layers2, woDir_join_layers2 cs hcs, run_vexists h.hu]
  rcases Option.eq_none_or_eq_some (mu.find? (woDirOf (renderC cs))) with hf | ⟨e, hf⟩
  · simp only [contains_of_none hf, Bool.false_eq_true, if_false, Pure.pure, M.pure,
      filter_not_mem_nil]
  · have hd := hwo e hf
    have hfn := filenames_of_children (leafFS u) idu (woDirOf (renderC cs)) _
      (children_noSlash mu (woDirOf (renderC cs)))
    simp only [contains_of_find hf, if_true, Pure.pure, M.pure]
    have hmarks : ∀ names : List Str, (∀ n ∈ names, '/' ∉ n) →
        (names.map (fun n => VPath.withStr (⟨leafFS u, idu, woDirOf (renderC cs)⟩ : VPath)
            (woDirOf (renderC cs) ++ '/' :: n))).filterMap
          (fun m => stripWo (filenameInternal m.path)) = names.filterMap stripWo := by
      intro names
      induction names with
      | nil => intro _; rfl
      | cons n names ih =>
        intro hn
        simp only [List.map_cons, List.filterMap_cons, VPath.withStr]
        rw [show filenameInternal (woDirOf (renderC cs) ++ '/' :: n) = n from
          afterLast_append_delim '/' _ n (hn n (by simp))]
        have := ih (fun x hx => hn x (by simp [hx]))
        simp only [VPath.withStr] at this
        rw [this]
    simp only [M.bind, run_vreadDir h.hu idu _ e hf hd,
      hmarks _ (children_noSlash mu (woDirOf (renderC cs)))]
    rfl

/-- the entry `read_dir(p)` inspects: the root of the upper layer, or the view of `p` -/
def dirEntry? (mu ml : FMap) (p : Str) : Option Entry :=
  if p = [] then mu.find? [] else view mu ml p

omit h in
theorem view_marked {mu ml : FMap} {p : Str} (hm : mu.contains (marker p) = true) :
    view mu ml p = none := by unfold view; rw [if_pos hm]

omit h in
theorem view_upper {mu ml : FMap} {p : Str} {e : Entry} (hm : mu.contains (marker p) = false)
    (hf : mu.find? p = some e) : view mu ml p = some e := by
  unfold view; rw [hm, hf]; rfl

omit h in
theorem view_lower {mu ml : FMap} {p : Str} (hm : mu.contains (marker p) = false)
    (hf : mu.find? p = none) : view mu ml p = ml.find? p := by
  unfold view; rw [hm, hf]; simp

/-- the outcome of `read_dir(p)` -/
def pReadDir (mu ml : FMap) (p : Str) : Res (List Str) :=
  match dirEntry? mu ml p with
  | none => .err .fileNotFound none
  | some e => if e.ftype = .dir then .ok (pListing mu ml p) else .err .other none

/-- `read_dir` on a canonical path (the root included), provided "/.whiteout" ++ p is not a
file of the upper layer -/
theorem run_oreadDir (cs : List Str) (hcs : ∀ c ∈ cs, GoodComp c)
    (hwo : ∀ e, mu.find? (woDirOf (renderC cs)) = some e → e.ftype = .dir) :
    Overlay.readDir (layers2 u l idu idl) (renderC cs) w =
      (pReadDir mu ml (renderC cs), w) := by
  rw [readDir_eq_tail]
  unfold pReadDir dirEntry?
  by_cases hne : cs = []
  · subst hne
    have hrp : readPath (layers2 u l idu idl) (renderC []) = pure (writeLayer (layers2 u l idu idl)) := rfl
    rw [hrp, writeLayer_layers2]
    have htail := run_readDirTail (idu := idu) (idl := idl) h [] hcs hwo
    simp only [renderC_nil] at htail ⊢
    rcases Option.eq_none_or_eq_some (mu.find? []) with hf | ⟨e, hf⟩
    · simp [hf, bind, M.bind, Pure.pure, M.pure, run_vexists h.hu, contains_of_none hf, M.failK,
        fail]
    · by_cases hd : e.ftype = .dir
      · simp [hf, hd, bind, M.bind, Pure.pure, M.pure, run_vexists h.hu, contains_of_find hf,
          run_visDir h.hu, htail]
      · simp [hf, hd, bind, M.bind, Pure.pure, M.pure, run_vexists h.hu, contains_of_find hf,
          run_visDir h.hu, M.failK, fail]
  · rw [if_neg (renderC_ne_nil hne)]
    have htail := run_readDirTail (idu := idu) (idl := idl) h cs hcs hwo
    by_cases hm : mu.contains (marker (renderC cs)) = true
    · simp [view_marked hm, hm, bind, M.bind, run_readPath h cs hne hcs]
    · have hm' : mu.contains (marker (renderC cs)) = false := by simpa using hm
      rcases Option.eq_none_or_eq_some (mu.find? (renderC cs)) with hf | ⟨e, hf⟩
      · rw [view_lower hm' hf]
        rcases Option.eq_none_or_eq_some (ml.find? (renderC cs)) with hg | ⟨e, hg⟩
        · simp [hm', hg, bind, M.bind, run_readPath h cs hne hcs, contains_of_none hf,
            contains_of_none hg]
        · by_cases hd : e.ftype = .dir
          · simp [hm', hg, hd, bind, M.bind, run_readPath h cs hne hcs, contains_of_none hf,
              contains_of_find hg, run_vexists h.hl, run_visDir h.hl, htail]
          · simp [hm', hg, hd, bind, M.bind, run_readPath h cs hne hcs, contains_of_none hf,
              contains_of_find hg, run_vexists h.hl, run_visDir h.hl, M.failK, fail]
      · rw [view_upper hm' hf]
        by_cases hd : e.ftype = .dir
        · simp [hm', hf, hd, bind, M.bind, run_readPath h cs hne hcs,
            contains_of_find hf, run_vexists h.hu, run_visDir h.hu, htail]
        · simp [hm', hf, hd, bind, M.bind, run_readPath h cs hne hcs,
            contains_of_find hf, run_vexists h.hu, run_visDir h.hu, M.failK, fail]

/-- `read_path(p)?.metadata()` followed by anything -/
theorem run_readPath_metadata {β} (cs : List Str) (hne : cs ≠ []) (hcs : ∀ c ∈ cs, GoodComp c)
    (k : Meta → M β) :
    (do let q ← readPath (layers2 u l idu idl) (renderC cs)
        let md ← q.metadata
        k md : M β) w =
      (match view mu ml (renderC cs) with
       | some e => k e.meta w
       | none => (.err .fileNotFound none, w)) := by
  by_cases hm : mu.contains (marker (renderC cs)) = true
  · simp [view_marked hm, hm, bind, M.bind, run_readPath h cs hne hcs]
  · have hm' : mu.contains (marker (renderC cs)) = false := by simpa using hm
    rcases Option.eq_none_or_eq_some (mu.find? (renderC cs)) with hf | ⟨e, hf⟩
    · rw [view_lower hm' hf]
      rcases Option.eq_none_or_eq_some (ml.find? (renderC cs)) with hg | ⟨e, hg⟩
      · simp [hm', hg, bind, M.bind, run_readPath h cs hne hcs, contains_of_none hf,
          contains_of_none hg]
      · simp [hm', hg, bind, M.bind, run_readPath h cs hne hcs, contains_of_none hf,
          contains_of_find hg, run_vmetadata h.hl, Mem.metadata, Res.withPath]
    · rw [view_upper hm' hf]
      simp [hm', hf, bind, M.bind, run_readPath h cs hne hcs, contains_of_find hf,
        run_vmetadata h.hu, Mem.metadata, Res.withPath]

/-! #### the mutating methods as functions of the maps -/

/-- what `create_dir` does once the overlay's `exists` has said no: the directory is created in the
write layer and the marker cleared; when the write layer answers `DirectoryExists` (it holds the
directory although the path is hidden by a marker: the state a concurrent `create_dir` leaves between
its two steps) the marker is cleared as well before the error is returned (fix of O11) -/
def pCreateTail (mu1 : FMap) (p : Str) : Res Unit × FMap :=
  match Mem.pCreateDir mu1 p with
  | (.ok _, mu2) => pClear mu2 p
  | (.err .dirExists pth, mu2) =>
    match pClear mu2 p with
    | (.ok _, mu3) => (.err .dirExists pth, mu3)
    | (.err k pth', mu3) => (.err k pth', mu3)
    | (.panic, mu3) => (.panic, mu3)
  | (.err k pth, mu2) => (.err k pth, mu2)
  | (.panic, mu2) => (.panic, mu2)

omit h in
/-- the new branch is taken only when the write layer answers `DirectoryExists` -/
theorem pCreateTail_of_not_dirExists {mu1 : FMap} {p : Str}
    (hn : ∀ pth, (Mem.pCreateDir mu1 p).1 ≠ .err .dirExists pth) :
    pCreateTail mu1 p = andThen (Mem.pCreateDir mu1 p) fun _ mu2 => pClear mu2 p := by
  unfold pCreateTail andThen
  cases hC : Mem.pCreateDir mu1 p with
  | mk r m2 =>
    rw [hC] at hn
    cases r with
    | ok a => rfl
    | err k pth => cases k <;> first | rfl | exact absurd rfl (hn pth)
    | panic => rfl

omit h in
theorem Mem.pCreateDir_not_dirExists {mu1 : FMap} {p : Str} (hf : mu1.find? p = none)
    (pth : Option Str) : (Mem.pCreateDir mu1 p).1 ≠ .err .dirExists pth := by
  have hE : Mem.ensureHasParent mu1 p = .ok () ∨ Mem.ensureHasParent mu1 p = .err .other none := by
    unfold Mem.ensureHasParent
    repeat' split
    all_goals simp [fail]
  unfold Mem.pCreateDir Mem.createDir
  split
  · rcases hE with hE | hE <;> simp [hE, hf, Res.withPath]
  · simp

omit h in
/-- when the write layer does not hold the path (every sequentially reachable state in which the
overlay's `exists` says no) the new branch is not taken: create, then clear -/
theorem pCreateTail_eq_andThen {mu1 : FMap} {p : Str} (hf : mu1.find? p = none) :
    pCreateTail mu1 p = andThen (Mem.pCreateDir mu1 p) fun _ mu2 => pClear mu2 p :=
  pCreateTail_of_not_dirExists (Mem.pCreateDir_not_dirExists hf)

omit h in
/-- the map after the tail of `create_dir`: that of the write layer's `create_dir`, possibly with
the marker cleared -/
theorem pCreateTail_snd (mu1 : FMap) (p : Str) :
    (pCreateTail mu1 p).2 = (Mem.pCreateDir mu1 p).2 ∨
    (pCreateTail mu1 p).2 = (pClear (Mem.pCreateDir mu1 p).2 p).2 := by
  unfold pCreateTail
  cases hC : Mem.pCreateDir mu1 p with
  | mk r m2 =>
    cases r with
    | ok a => exact Or.inr rfl
    | err k pth =>
      cases k <;> try exact Or.inl rfl
      refine Or.inr ?_
      dsimp only
      cases hP : pClear m2 p with
      | mk r3 m3 => cases r3 <;> rfl
    | panic => exact Or.inl rfl

/-- `create_dir` -/
def pCreateDir (mu ml : FMap) (cs : List Str) : Res Unit × FMap :=
  andThen (pEnsure mu ml cs.dropLast) fun _ mu1 =>
    match view mu1 ml (renderC cs) with
    | some e => (.err (if e.ftype = .file then .fileExists else .dirExists) none, mu1)
    | none => pCreateTail mu1 (renderC cs)

theorem run_ocreateDir (cs : List Str) (hne : cs ≠ []) (hcs : ∀ c ∈ cs, GoodComp c) :
    Overlay.createDir (layers2 u l idu idl) (renderC cs) w =
      ((pCreateDir mu ml cs).1, w.setLeafFiles u (pCreateDir mu ml cs).2) := by
  unfold Overlay.createDir pCreateDir
  simp only [bind, M.bind, run_ensureHasParent h cs hne hcs]
  cases hE : pEnsure mu ml cs.dropLast with
  | mk r mu1 =>
    cases r with
    | err k pth => rfl
    | panic => rfl
    | ok a =>
      have h1 := h.setU mu1
      have hmeta := run_readPath_metadata (idu := idu) (idl := idl) h1 cs hne hcs
        (fun md => (M.failK (if md.ftype = .file then .fileExists else .dirExists) : M Unit))
      simp only [bind, M.bind, M.failK, fail, Entry.meta] at hmeta
      simp only [andThen, run_oexists h1 cs hne hcs]
      rcases Option.eq_none_or_eq_some (view mu1 ml (renderC cs)) with hv | ⟨e, hv⟩
      · simp only [hv, Option.isSome_none, Bool.false_eq_true, if_false, M.ret, M.bind,
          writePath_layers2 cs hne hcs, run_pCreateDir h1.hu]
        unfold pCreateTail
        cases hC : Mem.pCreateDir mu1 (renderC cs) with
        | mk r2 mu2 =>
          cases r2 with
          | err k pth =>
            cases k <;> try simp only [World.setLeafFiles_twice]
            simp only [run_clearWhiteoutT (h.setU mu2) cs hne hcs, World.setLeafFiles_twice]
            cases hP : pClear mu2 (renderC cs) with
            | mk r3 mu3 => cases r3 <;> rfl
          | panic => simp only [World.setLeafFiles_twice]
          | ok a2 =>
            simp only [run_clearWhiteoutT (h.setU mu2) cs hne hcs, World.setLeafFiles_twice]
      · rw [hv] at hmeta
        simp only [hv, Option.isSome_some, if_true, M.bind, M.failK, fail]
        exact hmeta

/-- the type check of `create_file` -/
def pRefuse (mu ml : FMap) (p : Str) : Res Unit :=
  match view mu ml p with
  | some e => if e.ftype = .dir then .err .other none else .ok ()
  | none => .ok ()

theorem run_refuseDir (cs : List Str) (hne : cs ≠ []) (hcs : ∀ c ∈ cs, GoodComp c) :
    refuseDir (layers2 u l idu idl) (renderC cs) w = (pRefuse mu ml (renderC cs), w) := by
  unfold refuseDir pRefuse
  have hmeta := run_readPath_metadata (idu := idu) (idl := idl) h cs hne hcs
    (fun md => (if md.ftype = .dir then M.failK .other else pure () : M Unit))
  simp only [bind, M.bind] at hmeta
  simp only [bind, M.bind, run_oexists h cs hne hcs]
  rcases Option.eq_none_or_eq_some (view mu ml (renderC cs)) with hv | ⟨e, hv⟩
  · simp [hv, Pure.pure, M.pure]
  · simp only [hv, Option.isSome_some, if_true, M.bind, hmeta, Entry.meta]
    by_cases hd : e.ftype = .dir
    · simp [hd, M.failK, fail]
    · simp [hd, Pure.pure, M.pure]

/-- `VfsPath::create_file` on the upper layer, without the write session -/
def Mem.pOpenW (m : FMap) (p : Str) : Res Unit × FMap :=
  if Mem.parentOk m p then ((Mem.createFile m p).1.withPath p, (Mem.createFile m p).2)
  else (.err .other (some p), m)

omit h in
theorem run_pOpenW {w : World} {i : Nat} {m : FMap} (h : MemLeafAt w i m) (id : Nat) (p : Str) :
    VPath.createFile { fs := leafFS i, fsId := id, path := p } w =
      ((Mem.pOpenW m p).1.map
        (fun _ => ({ leaf := i, key := p, kind := .memFile, buf := [], pos := 0 } : WHandle)),
        w.setLeafFiles i (Mem.pOpenW m p).2) := by
  unfold VPath.createFile Mem.pOpenW
  simp only [bind, M.bind, run_getParent h]
  by_cases hp : Mem.parentOk m p = true
  · simp only [hp, ↓reduceIte, M.withPath, run_createFile h]
    cases (Mem.createFile m p).1 <;> rfl
  · simp only [hp, Bool.false_eq_true, ↓reduceIte, h.same]; rfl

/-- `create_file` (the handle aside) -/
def pCreateFile (mu ml : FMap) (cs : List Str) : Res Unit × FMap :=
  andThen (pEnsure mu ml cs.dropLast) fun _ mu1 =>
    andThen (pRefuse mu1 ml (renderC cs), mu1) fun _ _ =>
      andThen (Mem.pOpenW mu1 (renderC cs)) fun _ mu2 => pClear mu2 (renderC cs)

theorem run_ocreateFile (cs : List Str) (hne : cs ≠ []) (hcs : ∀ c ∈ cs, GoodComp c) :
    Overlay.createFile (layers2 u l idu idl) (renderC cs) w =
      ((pCreateFile mu ml cs).1.map
        (fun _ => ({ leaf := u, key := renderC cs, kind := .memFile, buf := [], pos := 0 } : WHandle)),
        w.setLeafFiles u (pCreateFile mu ml cs).2) := by
  unfold Overlay.createFile pCreateFile
  simp only [bind, M.bind, run_ensureHasParent h cs hne hcs]
  cases hE : pEnsure mu ml cs.dropLast with
  | mk r mu1 =>
    cases r with
    | err k pth => rfl
    | panic => rfl
    | ok a =>
      have h1 := h.setU mu1
      simp only [andThen, run_refuseDir h1 cs hne hcs]
      cases hR : pRefuse mu1 ml (renderC cs) with
      | err k pth => rfl
      | panic => rfl
      | ok a1 =>
        simp only [M.ret, M.bind, writePath_layers2 cs hne hcs, run_pOpenW h1.hu]
        cases hC : Mem.pOpenW mu1 (renderC cs) with
        | mk r2 mu2 =>
          cases r2 with
          | err k pth => simp only [Res.map, World.setLeafFiles_twice]
          | panic => simp only [Res.map, World.setLeafFiles_twice]
          | ok a2 =>
            simp only [Res.map, World.setLeafFiles_twice,
              run_clearWhiteout (h.setU mu2) cs hne hcs]
            cases hP : pClear mu2 (renderC cs) with
            | mk r3 mu3 => cases r3 <;> rfl

/-- `remove_file` -/
def pRemoveFile (mu ml : FMap) (cs : List Str) : Res Unit × FMap :=
  match view mu ml (renderC cs) with
  | none => (.err .fileNotFound none, mu)
  | some _ =>
    andThen (if mu.contains (renderC cs) then Mem.pRemoveFile mu (renderC cs) else (.ok (), mu))
      fun _ m1 => pAddWhiteout m1 cs

theorem run_readPath_then {β} (cs : List Str) (hne : cs ≠ []) (hcs : ∀ c ∈ cs, GoodComp c)
    (k : M β) :
    (do let _ ← readPath (layers2 u l idu idl) (renderC cs)
        k : M β) w =
      (match view mu ml (renderC cs) with
       | some _ => k w
       | none => (.err .fileNotFound none, w)) := by
  by_cases hm : mu.contains (marker (renderC cs)) = true
  · simp [view_marked hm, hm, bind, M.bind, run_readPath h cs hne hcs]
  · have hm' : mu.contains (marker (renderC cs)) = false := by simpa using hm
    rcases Option.eq_none_or_eq_some (mu.find? (renderC cs)) with hf | ⟨e, hf⟩
    · rw [view_lower hm' hf]
      rcases Option.eq_none_or_eq_some (ml.find? (renderC cs)) with hg | ⟨e, hg⟩
      · simp [hm', hg, bind, M.bind, run_readPath h cs hne hcs, contains_of_none hf,
          contains_of_none hg]
      · simp [hm', hg, bind, M.bind, run_readPath h cs hne hcs, contains_of_none hf,
          contains_of_find hg]
    · rw [view_upper hm' hf]
      simp [hm', hf, bind, M.bind, run_readPath h cs hne hcs, contains_of_find hf]

theorem run_oremoveFile (cs : List Str) (hne : cs ≠ []) (hcs : ∀ c ∈ cs, GoodComp c) :
    Overlay.removeFile (layers2 u l idu idl) (renderC cs) w =
      ((pRemoveFile mu ml cs).1, w.setLeafFiles u (pRemoveFile mu ml cs).2) := by
  unfold Overlay.removeFile pRemoveFile
  rw [run_readPath_then h cs hne hcs]
  rcases Option.eq_none_or_eq_some (view mu ml (renderC cs)) with hv | ⟨e, hv⟩
  · simp only [hv, h.hu.same]
  · simp only [hv, bind, M.bind, M.ret, writePath_layers2 cs hne hcs, run_vexists h.hu]
    by_cases hc : mu.contains (renderC cs) = true
    · simp only [hc, if_true, run_pRemoveFile h.hu]
      cases hR : Mem.pRemoveFile mu (renderC cs) with
      | mk r m1 =>
        cases r with
        | err k pth => rfl
        | panic => rfl
        | ok a =>
          simp only [andThen, World.setLeafFiles_twice, run_addWhiteout (h.setU m1) cs hne hcs]
    · simp only [hc, Bool.false_eq_true, if_false, Pure.pure, M.pure, andThen,
        run_addWhiteout h cs hne hcs]

/-- `remove_dir` -/
def pRemoveDir (mu ml : FMap) (cs : List Str) : Res Unit × FMap :=
  match view mu ml (renderC cs) with
  | none => (.err .fileNotFound none, mu)
  | some _ =>
    match pReadDir mu ml (renderC cs) with
    | .ok l =>
      if l ≠ [] then (.err .other none, mu)
      else
        andThen (if mu.contains (renderC cs) then Mem.pRemoveDir mu (renderC cs) else (.ok (), mu))
          fun _ m1 => pAddWhiteout m1 cs
    | .err k pth => (.err k pth, mu)
    | .panic => (.panic, mu)

theorem run_oremoveDir (cs : List Str) (hne : cs ≠ []) (hcs : ∀ c ∈ cs, GoodComp c)
    (hwo : ∀ e, mu.find? (woDirOf (renderC cs)) = some e → e.ftype = .dir) :
    Overlay.removeDir (layers2 u l idu idl) (renderC cs) w =
      ((pRemoveDir mu ml cs).1, w.setLeafFiles u (pRemoveDir mu ml cs).2) := by
  unfold Overlay.removeDir pRemoveDir
  rw [run_readPath_then h cs hne hcs]
  rcases Option.eq_none_or_eq_some (view mu ml (renderC cs)) with hv | ⟨e, hv⟩
  · simp only [hv, h.hu.same]
  · simp only [hv, bind, M.bind, run_oreadDir h cs hcs hwo]
    cases hL : pReadDir mu ml (renderC cs) with
    | err k pth => simp only [h.hu.same]
    | panic => simp only [h.hu.same]
    | ok lst =>
      by_cases hl : lst ≠ []
      · simp only [hl, ne_eq, not_false_eq_true, if_true, M.failK, fail, h.hu.same]
      · simp only [hl, if_false, M.ret, M.bind, writePath_layers2 cs hne hcs, run_vexists h.hu]
        by_cases hc : mu.contains (renderC cs) = true
        · simp only [hc, if_true, run_pRemoveDir h.hu]
          cases hR : Mem.pRemoveDir mu (renderC cs) with
          | mk r m1 =>
            cases r with
            | err k pth => rfl
            | panic => rfl
            | ok a =>
              simp only [andThen, World.setLeafFiles_twice, run_addWhiteout (h.setU m1) cs hne hcs]
        · simp only [hc, Bool.false_eq_true, if_false, Pure.pure, M.pure, andThen,
            run_addWhiteout h cs hne hcs]

/-- `copy_file` from the lower layer's file `p` to the absent upper path `q` -/
theorem run_vcopyFile_up (p q : Str) (e : Entry) (hl0 : ml.find? p = some e)
    (hfile : e.ftype = .file) (hq : mu.find? q = none) (hs : '/' ∈ q)
    (hpar : Mem.parentOk mu q = true) :
    ∃ w', VPath.copyFile { fs := leafFS l, fsId := idl, path := p }
        { fs := leafFS u, fsId := idu, path := q } w = (.ok (), w') ∧
      OW w' u l (memPublish (mu.insert q fileEntryNow) q e.content)
        (ml.insert p { e with accessed := .now }) := by
  have hopen := Mem.openFile_some ml p e hl0
  rw [if_neg (by simp [hfile])] at hopen
  have h2 := h.setL (ml.insert p { e with accessed := .now })
  have hcreate : Mem.pOpenW mu q = (.ok (), mu.insert q fileEntryNow) := by
    unfold Mem.pOpenW
    rw [if_pos hpar, Mem.createFile_fresh mu q hs hpar hq]; rfl
  have h3 := h2.setU (mu.insert q fileEntryNow)
  refine ⟨_, ?_, (h2.setU (memPublish (mu.insert q fileEntryNow) q e.content))⟩
  unfold VPath.copyFile
  by_cases hid : idl = idu
  · simp [hid, bind, M.bind, M.withPath, M.attempt, M.ret, run_vexists h.hu, contains_of_none hq,
      run_copyFile_mem h.hl, fail, run_vopenFile h.hl, hopen, Res.withPath,
      run_pOpenW h2.hu, hcreate, Res.map, run_ioCopyAndDrop h3.hu, World.setLeafFiles_twice]
  · simp [hid, bind, M.bind, M.withPath, M.attempt, M.ret, run_vexists h.hu, contains_of_none hq,
      fail, run_vopenFile h.hl, hopen, Res.withPath, Pure.pure, M.pure,
      run_pOpenW h2.hu, hcreate, Res.map, run_ioCopyAndDrop h3.hu, World.setLeafFiles_twice]

omit h in
/- ADAPTED (publish fix): publishing only happens while a FILE sits at the key, so that is now
a hypothesis. -/
theorem find?_memPublish_self (m : FMap) (k : Str) (buf : Bytes) (e0 : Entry)
    (h0 : m.find? k = some e0) (hf0 : e0.ftype = .file) :
    ∃ e, (memPublish m k buf).find? k = some e ∧ e.ftype = .file ∧ e.content = buf := by
  unfold memPublish
  simp only [h0, hf0, ↓reduceIte]
  exact ⟨_, FMap.find?_insert_self _ _ _, rfl, rfl⟩

omit h in
theorem find?_memPublish_ne (m : FMap) (k k' : Str) (buf : Bytes) (hk : k' ≠ k) :
    (memPublish m k buf).find? k' = m.find? k' := by
  unfold memPublish
  split
  · split
    · exact FMap.find?_insert_ne _ _ _ _ hk
    · rfl
  · rfl

/-- `append_file` on a path that only the lower layer has (as a file): the copy-up, then the
append handle on the upper copy -/
theorem run_oappendFile_copyUp (cs : List Str) (hne : cs ≠ []) (hcs : ∀ c ∈ cs, GoodComp c)
    (mu1 : FMap) (hE : pEnsure mu ml cs.dropLast = (.ok (), mu1))
    (hc0 : mu.find? (renderC cs) = none)
    (hm1 : mu1.contains (marker (renderC cs)) = false) (hf1 : mu1.find? (renderC cs) = none)
    (hpar : Mem.parentOk mu1 (renderC cs) = true)
    (e : Entry) (hl0 : ml.find? (renderC cs) = some e) (hfile : e.ftype = .file) :
    ∃ w', Overlay.appendFile (layers2 u l idu idl) (renderC cs) w =
        (.ok { leaf := u, key := renderC cs, kind := .memFile, buf := e.content,
               pos := e.content.length }, w') ∧
      OW w' u l (memPublish (mu1.insert (renderC cs) fileEntryNow) (renderC cs) e.content)
        (ml.insert (renderC cs) { e with accessed := .now }) := by
  have h1 := h.setU mu1
  obtain ⟨w', hcp, hw'⟩ := run_vcopyFile_up (idu := idu) (idl := idl) h1 (renderC cs) (renderC cs) e
    hl0 hfile hf1 (slash_mem_renderC hne) hpar
  refine ⟨w', ?_, hw'⟩
  obtain ⟨e', he', hft, hct⟩ := find?_memPublish_self (mu1.insert (renderC cs) fileEntryNow)
    (renderC cs) e.content fileEntryNow (FMap.find?_insert_self _ _ _) rfl
  have happ : Mem.appendFile (memPublish (mu1.insert (renderC cs) fileEntryNow) (renderC cs)
      e.content) (renderC cs) = .ok e.content := by
    unfold Mem.appendFile
    rw [he']; simp [hft, hct]
  unfold Overlay.appendFile copyUp
  simp [bind, M.bind, M.ret, writePath_layers2 cs hne hcs, run_vexists h.hu,
    contains_of_none hc0, run_ensureHasParent h cs hne hcs, hE,
    run_readPath h1 cs hne hcs, hm1, contains_of_none hf1, contains_of_find hl0,
    run_visFile h1.hl, hl0, hfile, hcp, VPath.appendFile, M.withPath, run_appendFile hw'.hu,
    happ, Res.map, Res.withPath]

end run2

/-! ### the listing is the set of children of the union view -/

/-- children of `p` in `m` only exist when `p` is a directory of `m` (a consequence of `WF m`) -/
def ChildrenHaveDir (m : FMap) (p : Str) : Prop :=
  ∀ n, '/' ∉ n → m.contains (p ++ '/' :: n) = true → ∃ e, m.find? p = some e ∧ e.ftype = .dir

theorem WF.childrenHaveDir {m : FMap} (h : WF m) (p : Str) : ChildrenHaveDir m p := by
  intro n hn hc
  obtain ⟨e, he⟩ := (FMap.contains_iff _ _).1 hc
  obtain ⟨_, pe, h1, h2⟩ := h.2 _ e he (by simp)
  rw [parent_of_child p n hn] at h1
  exact ⟨pe, h1, h2⟩

theorem mem_layerNames (m : FMap) (p n : Str) (hm : ChildrenHaveDir m p) :
    n ∈ layerNames m p ↔ ('/' ∉ n ∧ m.contains (p ++ '/' :: n) = true) := by
  unfold layerNames
  rcases Option.eq_none_or_eq_some (m.find? p) with hf | ⟨e, hf⟩
  · simp only [hf, List.not_mem_nil, false_iff, not_and]
    intro hn hc
    obtain ⟨e, he, _⟩ := hm n hn hc
    rw [hf] at he; cases he
  · by_cases hd : e.ftype = .dir
    · simp only [hf, hd, if_true]; exact mem_children m p n
    · simp only [hf, hd, if_false, List.not_mem_nil, false_iff, not_and]
      intro hn hc
      obtain ⟨e', he', hd'⟩ := hm n hn hc
      rw [hf] at he'; injection he' with he'; subst he'; exact absurd hd' hd

theorem mem_mergeStep (acc names : List Str) (x : Str) :
    x ∈ mergeStep acc names ↔ x ∈ acc ∨ x ∈ names := C05.merge_mem names acc x

theorem nodup_mergeStep (acc names : List Str) (h : acc.Nodup) : (mergeStep acc names).Nodup :=
  C05.merge_nodup names acc h

theorem mem_markedNames (mu : FMap) (p n : Str) (hn : '/' ∉ n)
    (hwo : mu.contains (marker (p ++ '/' :: n)) = true → mu.contains (woDirOf p) = true) :
    n ∈ markedNames mu p ↔ mu.contains (marker (p ++ '/' :: n)) = true := by
  have hnw : '/' ∉ n ++ woSuffix := by
    simp only [List.mem_append, not_or]; exact ⟨hn, by decide⟩
  unfold markedNames
  constructor
  · intro h
    split at h
    · rw [List.mem_filterMap] at h
      obtain ⟨k, hk, hs⟩ := h
      rw [stripWo_some_iff] at hs
      subst hs
      rw [marker_child]
      exact ((mem_children mu _ _).1 hk).2
    · cases h
  · intro h
    rw [if_pos (hwo h)]
    rw [List.mem_filterMap]
    refine ⟨n ++ woSuffix, ?_, stripWo_append n⟩
    rw [mem_children]
    rw [marker_child] at h
    exact ⟨hnw, h⟩

/-- **the listing is the union**: a name is listed iff it is a bare name, the union view has an
entry at `p/name`, and it is not the bookkeeping directory at the root -/
theorem mem_pListing (mu ml : FMap) (p n : Str) (hmu : ChildrenHaveDir mu p)
    (hml : ChildrenHaveDir ml p) (hwo : ChildrenHaveDir mu (woDirOf p)) :
    n ∈ pListing mu ml p ↔
      ('/' ∉ n ∧ (view mu ml (p ++ '/' :: n)).isSome = true ∧ (p = [] → n ≠ woDir)) := by
  have hmem : n ∈ mergeStep (mergeStep [] (layerNames mu p)) (layerNames ml p) ↔
      ('/' ∉ n ∧ (mu.contains (p ++ '/' :: n) = true ∨ ml.contains (p ++ '/' :: n) = true)) := by
    rw [mem_mergeStep, mem_mergeStep, mem_layerNames mu p n hmu, mem_layerNames ml p n hml]
    simp only [List.not_mem_nil, false_or]
    constructor
    · rintro (⟨a, b⟩ | ⟨a, b⟩)
      · exact ⟨a, Or.inl b⟩
      · exact ⟨a, Or.inr b⟩
    · rintro ⟨a, b | b⟩
      · exact Or.inl ⟨a, b⟩
      · exact Or.inr ⟨a, b⟩
  have hmark : '/' ∉ n → (n ∈ markedNames mu p ↔ mu.contains (marker (p ++ '/' :: n)) = true) := by
    intro hn
    apply mem_markedNames mu p n hn
    intro hc
    rw [marker_child] at hc
    obtain ⟨e, he, _⟩ := hwo (n ++ woSuffix)
      (by simp only [List.mem_append, not_or]; exact ⟨hn, by decide⟩) hc
    exact contains_of_find he
  unfold pListing
  rw [view_isSome]
  by_cases hp : p = []
  · simp only [hp, if_true, List.mem_filter, decide_eq_true_eq, ne_eq] at hmem hmark ⊢
    rw [hmem]
    constructor
    · rintro ⟨⟨⟨hn, hc⟩, hw⟩, hk⟩
      rw [hmark hn] at hk
      refine ⟨hn, ?_, fun _ => hw⟩
      simp only [Bool.and_eq_true, Bool.not_eq_true', Bool.or_eq_true]
      exact ⟨by simpa using hk, hc⟩
    · rintro ⟨hn, hv, hw⟩
      simp only [Bool.and_eq_true, Bool.not_eq_true', Bool.or_eq_true] at hv
      refine ⟨⟨⟨hn, hv.2⟩, hw trivial⟩, ?_⟩
      rw [hmark hn]; simpa using hv.1
  · simp only [hp, if_false, List.mem_filter, decide_eq_true_eq, false_implies, and_true]
    rw [hmem]
    constructor
    · rintro ⟨⟨hn, hc⟩, hk⟩
      rw [hmark hn] at hk
      refine ⟨hn, ?_⟩
      simp only [Bool.and_eq_true, Bool.not_eq_true', Bool.or_eq_true]
      exact ⟨by simpa using hk, hc⟩
    · rintro ⟨hn, hv⟩
      simp only [Bool.and_eq_true, Bool.not_eq_true', Bool.or_eq_true] at hv
      refine ⟨⟨hn, hv.2⟩, ?_⟩
      rw [hmark hn]; simp [hv.1]

theorem nodup_pListing (mu ml : FMap) (p : Str) : (pListing mu ml p).Nodup := by
  unfold pListing
  have := nodup_mergeStep (mergeStep [] (layerNames mu p)) (layerNames ml p)
    (nodup_mergeStep [] (layerNames mu p) List.nodup_nil)
  apply List.Nodup.sublist List.filter_sublist
  split
  · exact List.Nodup.sublist List.filter_sublist this
  · exact this

/-- the bookkeeping directory is never listed at the root -/
theorem woDir_not_listed (mu ml : FMap) : woDir ∉ pListing mu ml [] := by
  unfold pListing
  simp

/-! ### `ensure_has_parent` does not change the union view -/

/-- every proper ancestor directory `/d1`, `/d1/d2`, … is a directory of the union view -/
def AncDirs (mu ml : FMap) (ds : List Str) : Prop :=
  ∀ j, 1 ≤ j → j ≤ ds.length → ∃ e, view mu ml (renderC (ds.take j)) = some e ∧ e.ftype = .dir

/-- the root of the upper layer is a directory and the root marker "/.whiteout/_wo" is absent -/
structure RootOk (mu : FMap) : Prop where
  root : ∃ e, mu.find? [] = some e ∧ e.ftype = .dir
  noMark : mu.contains rootMarker = false

/-- an entry up to the timestamps (and the meaningless content) of directories -/
def dirBlind (e : Entry) : Entry := if e.ftype = .dir then dirEntryNow else e

theorem dirBlind_ftype (e : Entry) : (dirBlind e).ftype = e.ftype := by
  unfold dirBlind; split
  · rename_i h; rw [h]; rfl
  · rfl

theorem dirBlind_file (e : Entry) (h : e.ftype = .file) : dirBlind e = e := by
  unfold dirBlind; rw [if_neg (by rw [h]; simp)]

theorem view_some_cases {mu ml : FMap} {p : Str} {e : Entry} (h : view mu ml p = some e) :
    mu.contains (marker p) = false ∧
      (mu.find? p = some e ∨ (mu.find? p = none ∧ ml.find? p = some e)) := by
  unfold view at h
  split at h
  · cases h
  · rename_i hm
    refine ⟨by simpa using hm, ?_⟩
    rcases Option.eq_none_or_eq_some (mu.find? p) with hf | ⟨e', hf⟩
    · right; rw [hf] at h; simp at h; exact ⟨hf, h⟩
    · left; rw [hf] at h; simp at h; rw [hf, h]

theorem pexists_of_anc {mu ml : FMap} {ds : List Str} (hroot : RootOk mu)
    (hanc : AncDirs mu ml ds) : pexists mu ml (renderC ds) = true := by
  unfold pexists
  by_cases hne : ds = []
  · subst hne
    obtain ⟨e, he, _⟩ := hroot.root
    simp [hroot.noMark, contains_of_find he]
  · rw [if_neg (renderC_ne_nil hne)]
    have hl : 1 ≤ ds.length := by
      cases ds with
      | nil => exact absurd rfl hne
      | cons d ds => simp
    obtain ⟨e, he, _⟩ := hanc ds.length hl (Nat.le_refl _)
    rw [List.take_length] at he
    rw [he]; rfl

/-- when the proper ancestors are directories of the view, so is the parent itself: the type
test of `ensure_has_parent` succeeds -/
theorem pIsDir_of_anc {mu ml : FMap} {ds : List Str} (hroot : RootOk mu)
    (hanc : AncDirs mu ml ds) : pIsDir mu ml (renderC ds) = true := by
  unfold pIsDir
  by_cases hne : ds = []
  · subst hne
    obtain ⟨e, he, hd⟩ := hroot.root
    simp [he, hd]
  · rw [if_neg (renderC_ne_nil hne)]
    have hl : 1 ≤ ds.length := by
      cases ds with
      | nil => exact absurd rfl hne
      | cons d ds => simp
    obtain ⟨e, he, hd⟩ := hanc ds.length hl (Nat.le_refl _)
    rw [List.take_length] at he
    simp [he, hd]

theorem chain_dirs_of_anc {mu ml : FMap} {ds : List Str} (hanc : AncDirs mu ml ds) :
    ∀ k ∈ chain [] ds, ∀ e, mu.find? k = some e → e.ftype = .dir := by
  intro k hk e he
  obtain ⟨j, h1, h2, rfl⟩ := (mem_chain [] ds k).1 hk
  obtain ⟨e', hv, hd⟩ := hanc j h1 h2
  simp only [List.nil_append] at he
  obtain ⟨_, hc | ⟨hc, _⟩⟩ := view_some_cases hv
  · rw [he] at hc; injection hc with hc; subst hc; exact hd
  · rw [he] at hc; cases hc

/-- under the hypotheses, `ensure_has_parent` succeeds and only fills in missing directories -/
theorem pEnsure_ok {mu ml : FMap} {ds : List Str} (hroot : RootOk mu)
    (hds : ∀ c ∈ ds, GoodComp c) (hanc : AncDirs mu ml ds) :
    pEnsure mu ml ds = (.ok (), fillDirs mu (chain [] ds)) := by
  unfold pEnsure
  rw [if_pos (pexists_of_anc hroot hanc), if_pos (pIsDir_of_anc hroot hanc)]
  exact mkdirs_chain mu [] ds (by simp) (good_noSlash hds) hroot.root
    (chain_dirs_of_anc hanc)

/-- the parent is a FILE of the union view (in whichever layer): `ensure_has_parent` fails with
`Other` and the upper map is unchanged — the pure counterpart of the fix -/
theorem pEnsure_file {mu ml : FMap} {ds : List Str} (hne : ds ≠ []) {e : Entry}
    (hv : view mu ml (renderC ds) = some e) (hf : e.ftype = .file) :
    pEnsure mu ml ds = (.err .other none, mu) := by
  unfold pEnsure pexists pIsDir
  simp [renderC_ne_nil hne, hv, hf]

/-- in a well-formed upper map nothing sits below a path that the view shows as a file -/
theorem upper_child_absent_of_view_file {mu ml : FMap} {ds : List Str} {n : Str} (hwf : WF mu)
    (hds : ∀ c ∈ ds, GoodComp c) (hn : GoodComp n) {e : Entry}
    (hv : view mu ml (renderC ds) = some e) (hf : e.ftype = .file) :
    mu.find? (renderC (ds ++ [n])) = none := by
  rcases Option.eq_none_or_eq_some (mu.find? (renderC (ds ++ [n]))) with hc | ⟨ce, hc⟩
  · exact hc
  · exfalso
    obtain ⟨_, pe, hp, hpd⟩ := hwf.2 _ ce hc (renderC_ne_nil (by simp))
    rw [parent_snoc ds n hds hn] at hp
    obtain ⟨_, hu | ⟨hu, _⟩⟩ := view_some_cases hv
    · rw [hp] at hu; injection hu with hu; subst hu; rw [hf] at hpd; cases hpd
    · rw [hp] at hu; cases hu

theorem marker_not_in_chain {ds : List Str} (hds : ∀ c ∈ ds, GoodComp c)
    (hhead : ds.head? ≠ some woDir) (q : Str) (hq : q.head? = some '/') :
    marker q ∉ chain [] ds := by
  intro hk
  obtain ⟨j, h1, h2, he⟩ := (mem_chain [] ds _).1 hk
  simp only [List.nil_append] at he
  have := renderC_eq_marker_head (ds.take j) q
    (fun c hc => (hds c (List.mem_of_mem_take hc)).noSlash) he.symm hq
  apply hhead
  cases ds with
  | nil => simp at h2; omega
  | cons d ds =>
    obtain ⟨i, rfl⟩ : ∃ i, j = i + 1 := ⟨j - 1, by omega⟩
    simpa using this

theorem snoc_not_in_chain {ds : List Str} {n : Str} (hds : ∀ c ∈ ds, GoodComp c)
    (hn : GoodComp n) (rest : Str) (hr : rest = [] ∨ rest.head? = some '/') :
    renderC (ds ++ [n]) ++ rest ∉ chain [] ds := by
  intro hk
  obtain ⟨j, h1, h2, he⟩ := (mem_chain [] ds _).1 hk
  simp only [List.nil_append] at he
  -- compare lengths: the left side is strictly longer than every prefix of `renderC ds`
  have hlen : ∀ (a : List Str), (renderC (a.take j)).length ≤ (renderC a).length := by
    intro a
    conv => rhs; rw [← List.take_append_drop j a, renderC_append]
    simp
  have := congrArg List.length he
  have h3 := hlen ds
  simp only [renderC_append, renderC_cons, renderC_nil, List.length_append, List.length_cons,
    List.append_nil] at this
  omega

theorem contains_marker_fillDirs {mu : FMap} {ds : List Str} (hds : ∀ c ∈ ds, GoodComp c)
    (hhead : ds.head? ≠ some woDir) (q : Str) (hq : q.head? = some '/') :
    (fillDirs mu (chain [] ds)).contains (marker q) = mu.contains (marker q) := by
  unfold FMap.contains
  rw [find?_fillDirs_not_mem _ _ _ (marker_not_in_chain hds hhead q hq)]

/-- **`ensure_has_parent` leaves the union view unchanged** (up to the timestamps of the
directories it materialises in the upper layer) -/
theorem view_fillDirs {mu ml : FMap} {ds : List Str} (hds : ∀ c ∈ ds, GoodComp c)
    (hanc : AncDirs mu ml ds) (hhead : ds.head? ≠ some woDir) (q : Str)
    (hq : q.head? = some '/') :
    (view (fillDirs mu (chain [] ds)) ml q).map dirBlind = (view mu ml q).map dirBlind := by
  unfold view
  rw [contains_marker_fillDirs hds hhead q hq]
  by_cases hm : mu.contains (marker q) = true
  · simp [hm]
  · simp only [hm, Bool.false_eq_true, if_false]
    rw [find?_fillDirs]
    rcases Option.eq_none_or_eq_some (mu.find? q) with hf | ⟨e, hf⟩
    · by_cases hk : q ∈ chain [] ds
      · obtain ⟨j, h1, h2, he⟩ := (mem_chain [] ds _).1 hk
        simp only [List.nil_append] at he
        obtain ⟨e', hv, hd⟩ := hanc j h1 h2
        rw [← he] at hv
        obtain ⟨_, hc | ⟨_, hc⟩⟩ := view_some_cases hv
        · rw [hf] at hc; cases hc
        · simp [hf, hk, hc, dirBlind, hd, dirEntryNow]
      · simp [hf, hk]
    · simp [hf]

theorem find?_snoc_fillDirs {mu : FMap} {ds : List Str} {n : Str} (hds : ∀ c ∈ ds, GoodComp c)
    (hn : GoodComp n) (rest : Str) (hr : rest = [] ∨ rest.head? = some '/') :
    (fillDirs mu (chain [] ds)).find? (renderC (ds ++ [n]) ++ rest)
      = mu.find? (renderC (ds ++ [n]) ++ rest) :=
  find?_fillDirs_not_mem _ _ _ (snoc_not_in_chain hds hn rest hr)

/-- after the chain of directories has been filled in, the parent of `ds/n` is a directory -/
theorem parentOk_fillDirs_gen {m : FMap} {ds : List Str} {n : Str}
    (hrootdir : ∃ e, m.find? [] = some e ∧ e.ftype = .dir)
    (hds : ∀ c ∈ ds, GoodComp c) (hn : GoodComp n)
    (hdirs : ∀ k ∈ chain [] ds, ∀ e, m.find? k = some e → e.ftype = .dir) :
    Mem.parentOk (fillDirs m (chain [] ds)) (renderC (ds ++ [n])) = true := by
  unfold Mem.parentOk
  rw [parent_snoc ds n hds hn, find?_fillDirs]
  by_cases hne : ds = []
  · subst hne
    obtain ⟨e, he, hd⟩ := hrootdir
    simp [he, hd]
  · have hl : 1 ≤ ds.length := by
      cases ds with
      | nil => exact absurd rfl hne
      | cons d ds => simp
    have hk : renderC ds ∈ chain [] ds :=
      (mem_chain [] ds _).2 ⟨ds.length, hl, Nat.le_refl _, by simp⟩
    rcases Option.eq_none_or_eq_some (m.find? (renderC ds)) with hf | ⟨e, hf⟩
    · simp [hf, hk, dirEntryNow]
    · have := hdirs _ hk e hf
      simp [hf, this]

/-- after `ensure_has_parent` the parent is a directory of the upper layer -/
theorem parentOk_fillDirs {mu ml : FMap} {ds : List Str} {n : Str} (hroot : RootOk mu)
    (hds : ∀ c ∈ ds, GoodComp c) (hn : GoodComp n) (hanc : AncDirs mu ml ds) :
    Mem.parentOk (fillDirs mu (chain [] ds)) (renderC (ds ++ [n])) = true :=
  parentOk_fillDirs_gen hroot.root hds hn (chain_dirs_of_anc hanc)

/-! ### what the upper-layer primitives keep -/

theorem contains_insert_of_contains {m : FMap} {k k' : Str} {v : Entry}
    (h : m.contains k = true) : (m.insert k' v).contains k = true := by
  unfold FMap.contains at *
  rw [FMap.find?_insert]
  split
  · rfl
  · exact h

theorem contains_erase_ne {m : FMap} {k k' : Str} (hne : k ≠ k') :
    (m.erase k').contains k = m.contains k := by
  unfold FMap.contains
  rw [FMap.find?_erase_ne _ _ _ hne]

theorem Mem.createDir_keeps {m : FMap} {k : Str} (d : Str) (h : m.contains k = true) :
    (Mem.createDir m d).2.contains k = true := by
  unfold Mem.createDir
  split
  · split
    · exact h
    · exact contains_insert_of_contains h
  · exact h
  · exact h

theorem mkdirs_keeps {m : FMap} {k : Str} (ds : List Str) (h : m.contains k = true) :
    (Mem.mkdirs m ds).2.contains k = true := by
  induction ds generalizing m with
  | nil => exact h
  | cons d rest ih =>
    unfold Mem.mkdirs
    have := Mem.createDir_keeps d h
    cases hc : Mem.createDir m d with
    | mk r m' =>
      rw [hc] at this
      cases r with
      | ok a => exact ih this
      | err e pth => cases e <;> first | exact ih this | exact this
      | panic => exact this

theorem Mem.createFile_keeps {m : FMap} {k : Str} (p : Str) (h : m.contains k = true) :
    (Mem.createFile m p).2.contains k = true := by
  unfold Mem.createFile
  split
  · split
    · split
      · exact h
      · exact contains_insert_of_contains h
    · exact contains_insert_of_contains h
  · exact h
  · exact h

theorem memPublish_keeps {m : FMap} {k : Str} (p : Str) (buf : Bytes) (h : m.contains k = true) :
    (memPublish m p buf).contains k = true := by
  unfold memPublish
  split
  · split
    · exact contains_insert_of_contains h
    · exact h
  · exact h

theorem Mem.pTouch_keeps {m : FMap} {k : Str} (p : Str) (h : m.contains k = true) :
    (Mem.pTouch m p).2.contains k = true := by
  unfold Mem.pTouch
  split
  · have := Mem.createFile_keeps p h
    cases hc : Mem.createFile m p with
    | mk r m' =>
      rw [hc] at this
      cases r with
      | ok a => exact memPublish_keeps _ _ this
      | err e pth => exact this
      | panic => exact this
  · exact h

theorem Mem.pOpenW_keeps {m : FMap} {k : Str} (p : Str) (h : m.contains k = true) :
    (Mem.pOpenW m p).2.contains k = true := by
  unfold Mem.pOpenW
  split
  · exact Mem.createFile_keeps p h
  · exact h

theorem Mem.pCreateDir_keeps {m : FMap} {k : Str} (p : Str) (h : m.contains k = true) :
    (Mem.pCreateDir m p).2.contains k = true := by
  unfold Mem.pCreateDir
  split
  · exact Mem.createDir_keeps p h
  · exact h

theorem Mem.pRemoveFile_keeps {m : FMap} {k : Str} (p : Str) (hne : k ≠ p)
    (h : m.contains k = true) : (Mem.pRemoveFile m p).2.contains k = true := by
  unfold Mem.pRemoveFile Mem.removeFile
  split
  · exact h
  · split
    · exact h
    · show (m.erase p).contains k = true
      rw [contains_erase_ne hne]; exact h

theorem Mem.pRemoveDir_keeps {m : FMap} {k : Str} (p : Str) (hne : k ≠ p)
    (h : m.contains k = true) : (Mem.pRemoveDir m p).2.contains k = true := by
  unfold Mem.pRemoveDir Mem.removeDir
  split
  · split
    · exact h
    · split
      · show (m.erase p).contains k = true
        rw [contains_erase_ne hne]; exact h
      · exact h
  · exact h
  · exact h

theorem andThen_keeps {α β} {k : Str} (x : Res α × FMap) (f : α → FMap → Res β × FMap)
    (hx : x.2.contains k = true) (hf : ∀ a m, m.contains k = true → (f a m).2.contains k = true) :
    (andThen x f).2.contains k = true := by
  obtain ⟨r, m⟩ := x
  cases r with
  | ok a => exact hf a m hx
  | err e pth => exact hx
  | panic => exact hx

theorem pEnsure_keeps {mu ml : FMap} {k : Str} (ds : List Str) (h : mu.contains k = true) :
    (pEnsure mu ml ds).2.contains k = true := by
  unfold pEnsure
  split
  · split
    · exact mkdirs_keeps _ h
    · exact h
  · exact h

theorem pClear_keeps {mu : FMap} {k : Str} (q : Str) (hne : k ≠ marker q)
    (h : mu.contains k = true) : (pClear mu q).2.contains k = true := by
  unfold pClear
  split
  · exact Mem.pRemoveFile_keeps _ hne h
  · exact h

/-- `clearWhiteout q` touches nothing but `marker q` -/
theorem pClear_frame (mu : FMap) (q k : Str) (hne : k ≠ marker q) :
    (pClear mu q).2.find? k = mu.find? k := by
  unfold pClear
  split
  · unfold Mem.pRemoveFile Mem.removeFile
    split
    · rfl
    · split
      · rfl
      · exact FMap.find?_erase_ne _ _ _ hne
  · rfl

theorem pAddWhiteout_keeps {mu : FMap} {k : Str} (cs : List Str) (h : mu.contains k = true) :
    (pAddWhiteout mu cs).2.contains k = true := by
  unfold pAddWhiteout
  exact andThen_keeps _ _ (mkdirs_keeps _ h) (fun _ m hm => Mem.pTouch_keeps _ hm)

theorem pCreateTail_keeps {mu : FMap} {k : Str} (q : Str) (hne : k ≠ marker q)
    (h : mu.contains k = true) : (pCreateTail mu q).2.contains k = true := by
  rcases pCreateTail_snd mu q with he | he <;> rw [he]
  · exact Mem.pCreateDir_keeps _ h
  · exact pClear_keeps _ hne (Mem.pCreateDir_keeps _ h)

/-- `create_dir(q)` keeps every key of the upper layer except `marker q` -/
theorem pCreateDir_keeps {mu ml : FMap} {k : Str} (cs : List Str) (hne : k ≠ marker (renderC cs))
    (h : mu.contains k = true) : (pCreateDir mu ml cs).2.contains k = true := by
  unfold pCreateDir
  apply andThen_keeps _ _ (pEnsure_keeps _ h)
  intro _ m hm
  split
  · exact hm
  · exact pCreateTail_keeps _ hne hm

/-- `create_file(q)` keeps every key of the upper layer except `marker q` -/
theorem pCreateFile_keeps {mu ml : FMap} {k : Str} (cs : List Str) (hne : k ≠ marker (renderC cs))
    (h : mu.contains k = true) : (pCreateFile mu ml cs).2.contains k = true := by
  unfold pCreateFile
  apply andThen_keeps _ _ (pEnsure_keeps _ h)
  intro _ m hm
  apply andThen_keeps _ _ hm
  intro _ _ _
  exact andThen_keeps _ _ (Mem.pOpenW_keeps _ hm) (fun _ m2 hm2 => pClear_keeps _ hne hm2)

/-- `remove_file(q)` keeps every key of the upper layer except `q` -/
theorem pRemoveFile_keeps {mu ml : FMap} {k : Str} (cs : List Str) (hne : k ≠ renderC cs)
    (h : mu.contains k = true) : (pRemoveFile mu ml cs).2.contains k = true := by
  unfold pRemoveFile
  split
  · exact h
  · apply andThen_keeps
    · split
      · exact Mem.pRemoveFile_keeps _ hne h
      · exact h
    · intro _ m hm; exact pAddWhiteout_keeps _ hm

/-- `remove_dir(q)` keeps every key of the upper layer except `q` -/
theorem pRemoveDir_keeps {mu ml : FMap} {k : Str} (cs : List Str) (hne : k ≠ renderC cs)
    (h : mu.contains k = true) : (pRemoveDir mu ml cs).2.contains k = true := by
  unfold pRemoveDir
  split
  · exact h
  · split
    · split
      · exact h
      · apply andThen_keeps
        · split
          · exact Mem.pRemoveDir_keeps _ hne h
          · exact h
        · intro _ m hm; exact pAddWhiteout_keeps _ hm
    · exact h
    · exact h

/-! ### the marker written by `remove_file` / `remove_dir` -/

/-- a successful `create_file` leaves the fresh, empty file at the path -/
theorem Mem.createFile_ok_find {m m' : FMap} {k : Str} {a : Unit}
    (h : Mem.createFile m k = (.ok a, m')) : m'.find? k = some fileEntryNow := by
  unfold Mem.createFile at h
  split at h
  · split at h
    · split at h
      · simp [fail] at h
      · simp only [Prod.mk.injEq] at h
        rw [← h.2]; exact FMap.find?_insert_self _ _ _
    · simp only [Prod.mk.injEq] at h
      rw [← h.2]; exact FMap.find?_insert_self _ _ _
  · simp at h
  · simp at h

theorem Mem.pTouch_ok {m m' : FMap} {k : Str} (h : Mem.pTouch m k = (.ok (), m')) :
    ∃ e, m'.find? k = some e ∧ e.ftype = .file ∧ e.content = [] := by
  unfold Mem.pTouch at h
  split at h
  · cases hc : Mem.createFile m k with
    | mk r m'' =>
      rw [hc] at h
      cases r with
      | ok a =>
        simp only [Prod.mk.injEq, true_and] at h
        subst h
        exact find?_memPublish_self _ _ _ fileEntryNow (Mem.createFile_ok_find hc) rfl
      | err e pth => simp [Res.withPath] at h
      | panic => simp at h
  · simp at h

theorem andThen_ok {α β} {x : Res α × FMap} {f : α → FMap → Res β × FMap} {b : β} {m' : FMap}
    (h : andThen x f = (.ok b, m')) : ∃ a m, x = (.ok a, m) ∧ f a m = (.ok b, m') := by
  obtain ⟨r, m⟩ := x
  cases r with
  | ok a => exact ⟨a, m, rfl, h⟩
  | err e pth => simp [andThen] at h
  | panic => simp [andThen] at h

theorem pAddWhiteout_ok {mu m' : FMap} {cs : List Str} (h : pAddWhiteout mu cs = (.ok (), m')) :
    ∃ e, m'.find? (marker (renderC cs)) = some e ∧ e.ftype = .file ∧ e.content = [] := by
  unfold pAddWhiteout at h
  obtain ⟨_, m1, _, h2⟩ := andThen_ok h
  exact Mem.pTouch_ok h2

theorem pRemoveFile_ok {mu ml m' : FMap} {cs : List Str}
    (h : pRemoveFile mu ml cs = (.ok (), m')) :
    ∃ e, m'.find? (marker (renderC cs)) = some e ∧ e.ftype = .file ∧ e.content = [] := by
  unfold pRemoveFile at h
  split at h
  · simp at h
  · obtain ⟨_, m1, _, h2⟩ := andThen_ok h
    exact pAddWhiteout_ok h2

theorem pRemoveDir_ok {mu ml m' : FMap} {cs : List Str}
    (h : pRemoveDir mu ml cs = (.ok (), m')) :
    ∃ e, m'.find? (marker (renderC cs)) = some e ∧ e.ftype = .file ∧ e.content = [] := by
  unfold pRemoveDir at h
  split at h
  · simp at h
  · split at h
    · split at h
      · simp at h
      · obtain ⟨_, m1, _, h2⟩ := andThen_ok h
        exact pAddWhiteout_ok h2
    · simp at h
    · simp at h

end Vfs
