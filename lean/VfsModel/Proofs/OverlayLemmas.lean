/-
  Helper lemmas for C09 / C10 (the overlay presents the union of its layers; whiteouts).

  * names and paths: `stripWo`, `marker p = "/.whiteout" ++ p ++ "_wo"`, the three path
    computations of the overlay (`whiteout_path`, `write_path`, `layer.join(&path[1..])`) on
    canonical paths, `dirPrefixes` of a canonical path;
  * `Mem.mkdirs`: `create_dir_all` as a pure function on a memory map, and what it computes on
    a chain of ancestor directories (`fillDirs`);
  * `OW w u l mu ml`: the setting — a world whose leaves `u ≠ l` are memory leaves holding the
    maps `mu` (upper layer) and `ml` (lower layer); `layers2 u l idu idl` the two layer roots;
  * the union view `view mu ml p` and the `run_*` lemmas: every building block of the overlay
    (`read_path`, `exists`, `ensure_has_parent`, the whiteout bookkeeping, listings) computes a
    pure function of the two maps.
-/
import VfsModel.Proofs.AltrootLemmas
import VfsModel.Proofs.MemRun
import VfsModel.Props.C05
namespace Vfs
open Overlay

/-! ### names -/

theorem goodComp_woDir : GoodComp woDir := by decide

theorem woSuffix_length : woSuffix.length = 3 := rfl

theorem goodComp_wo {c : Str} (h : GoodComp c) : GoodComp (c ++ woSuffix) := by
  obtain ⟨h1, h2, _, _⟩ := h
  refine ⟨by simp [woSuffix], ?_, ?_, ?_⟩
  · simp only [List.mem_append, not_or]
    exact ⟨h2, by decide⟩
  · intro e
    have := congrArg List.length e
    simp [woSuffix] at this
  · intro e
    have := congrArg List.length e
    simp [woSuffix] at this

theorem stripWo_append (n : Str) : stripWo (n ++ woSuffix) = some n := by
  unfold stripWo
  have hs : woSuffix.isSuffixOf (n ++ woSuffix) = true := by
    rw [List.isSuffixOf_iff_suffix]; exact List.suffix_append _ _
  rw [if_pos hs]
  congr 1
  apply List.take_left'
  simp [woSuffix]

theorem stripWo_some_iff (m n : Str) : stripWo m = some n ↔ m = n ++ woSuffix := by
  constructor
  · intro h
    unfold stripWo at h
    split at h
    · rename_i hs
      rw [List.isSuffixOf_iff_suffix] at hs
      obtain ⟨t, rfl⟩ := hs
      injection h with h
      have : List.take ((t ++ woSuffix).length - 3) (t ++ woSuffix) = t := by
        apply List.take_left'; simp [woSuffix]
      rw [this] at h
      rw [h]
    · cases h
  · rintro rfl; exact stripWo_append n

theorem stripWo_none (m : Str) (h : ¬ woSuffix <:+ m) : stripWo m = none := by
  unfold stripWo
  rw [if_neg]
  rw [List.isSuffixOf_iff_suffix]; exact h

/-! ### markers -/

/-- the whiteout marker of `p`: `"/.whiteout" ++ p ++ "_wo"` -/
def marker (p : Str) : Str := '/' :: (woDir ++ p ++ woSuffix)

/-- the bookkeeping directory that holds the markers of the children of `p`: "/.whiteout" ++ p -/
def woDirOf (p : Str) : Str := '/' :: (woDir ++ p)

/-- the marker tested by `exists("")`: "/.whiteout/_wo" -/
def rootMarker : Str := '/' :: (woDir ++ '/' :: woSuffix)

theorem marker_injective (p q : Str) (h : marker p = marker q) : p = q := by
  unfold marker at h
  simp only [List.cons.injEq, true_and, List.append_assoc] at h
  exact List.append_cancel_right (List.append_cancel_left h)

theorem marker_renderC (ds : List Str) (n : Str) :
    marker (renderC (ds ++ [n])) = renderC (woDir :: (ds ++ [n ++ woSuffix])) := by
  simp [marker, List.append_assoc]

theorem woDirOf_renderC (cs : List Str) : woDirOf (renderC cs) = renderC (woDir :: cs) := by
  simp [woDirOf]

theorem marker_child (p n : Str) :
    marker (p ++ '/' :: n) = woDirOf p ++ '/' :: (n ++ woSuffix) := by
  simp [marker, woDirOf, List.append_assoc]

theorem good_snoc {ds : List Str} {n : Str} (hds : ∀ c ∈ ds, GoodComp c) (hn : GoodComp n) :
    ∀ c ∈ ds ++ [n], GoodComp c := by
  intro c hc
  rcases List.mem_append.1 hc with h | h
  · exact hds c h
  · simp at h; subst h; exact hn

theorem good_of_snoc {ds : List Str} {n : Str} (h : ∀ c ∈ ds ++ [n], GoodComp c) :
    (∀ c ∈ ds, GoodComp c) ∧ GoodComp n :=
  ⟨fun c hc => h c (by simp [hc]), h n (by simp)⟩

theorem good_markerComps {ds : List Str} {n : Str} (hds : ∀ c ∈ ds, GoodComp c)
    (hn : GoodComp n) : ∀ c ∈ woDir :: (ds ++ [n ++ woSuffix]), GoodComp c := by
  intro c hc
  rcases List.mem_cons.1 hc with rfl | hc
  · exact goodComp_woDir
  · exact good_snoc hds (goodComp_wo hn) c hc

/-- the marker of a canonical path is a canonical path -/
theorem marker_canon (ds : List Str) (n : Str) (hds : ∀ c ∈ ds, GoodComp c) (hn : GoodComp n) :
    Canon (marker (renderC (ds ++ [n]))) :=
  ⟨_, good_markerComps hds hn, marker_renderC ds n⟩

/-- … whose parent is "/.whiteout" ++ parent -/
theorem marker_parent (ds : List Str) (n : Str) (hds : ∀ c ∈ ds, GoodComp c) (hn : GoodComp n) :
    parentInternal (marker (renderC (ds ++ [n]))) = woDirOf (renderC ds) := by
  rw [marker_renderC, woDirOf_renderC,
    parentInternal_renderC _ (good_noSlash (good_markerComps hds hn))]
  rw [show woDir :: (ds ++ [n ++ woSuffix]) = (woDir :: ds) ++ [n ++ woSuffix] from rfl,
    List.dropLast_concat]

theorem parent_snoc (ds : List Str) (n : Str) (hds : ∀ c ∈ ds, GoodComp c) (hn : GoodComp n) :
    parentInternal (renderC (ds ++ [n])) = renderC ds := by
  rw [parentInternal_renderC _ (good_noSlash (good_snoc hds hn)), List.dropLast_concat]

/-- two strings that agree up to their first '/' -/
theorem first_slash_split (x y s t : Str) (hx : '/' ∉ x) (hy : '/' ∉ y)
    (hs : s = [] ∨ s.head? = some '/') (he : x ++ s = y ++ '/' :: t) : x = y := by
  induction x generalizing y with
  | nil =>
    cases y with
    | nil => rfl
    | cons d ds =>
      simp at he hy
      rcases hs with rfl | hs
      · simp at he
      · subst he; simp at hs; exact absurd hs.symm hy.1
  | cons a as ih =>
    cases y with
    | nil =>
      simp at he hx
      exact absurd he.1.symm hx.1
    | cons d ds =>
      simp at he hx hy
      obtain ⟨rfl, he⟩ := he
      rw [ih ds hx.2 hy.2 he]

/-- a canonical path and a marker coincide only inside the ".whiteout" namespace -/
theorem renderC_eq_marker_head (cs : List Str) (q : Str) (hcs : ∀ c ∈ cs, GoodComp c)
    (h : renderC cs = marker q) (hq : q.head? = some '/') : cs.head? = some woDir := by
  cases cs with
  | nil => simp [marker] at h
  | cons c cs =>
    cases q with
    | nil => simp at hq
    | cons a q' =>
      simp at hq; subst hq
      simp only [renderC_cons, marker, List.cons_append, List.cons.injEq, true_and,
        List.append_assoc] at h
      have hc : '/' ∉ c := (hcs c (by simp)).2.1
      have hs : renderC cs = [] ∨ (renderC cs).head? = some '/' := by cases cs <;> simp
      have := first_slash_split c woDir _ _ hc (by decide) hs h
      simp [this]

end Vfs
