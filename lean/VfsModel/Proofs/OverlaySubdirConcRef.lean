/-
  Transfer of rely-guarantee specifications (`wpR`, Proofs/OverlayConcCalc.lean) from programs over
  the ROOTS of re-rooted memory leaves to programs over SUB-DIRECTORY paths of the real leaves.

  * `absW spec w`: the world in which every leaf `i` with `spec i = some P` holds the sub-map
    `sub P m` (Proofs/SubtreeSim.lean) of its map `m`; `absW_mem`, `absW_set`, `absW_own`;
  * `Ref spec ls u bu V t t'`: the program `t` (concrete: calls at keys `P ++ k`) refines `t'`
    (abstract: the same calls at keys `k`), call for call, except that `t` may in addition call
    `create_dir` of the write leaf `u` at a non-empty prefix of the write base `bu` (`stutter`:
    answered `DirectoryExists`, nothing changes); outcomes are related by `RR V` (same constructor,
    same error kind, error-path labels ignored, values related by `V`); `Ref.bindR`, `Ref.bind`;
  * `RC`: the concrete rely/guarantee — only leaf `u` changes, its sub-map below the base by
    `Evolve`, nothing outside the base's subtree (`Out`); `CInv`: the ancestors of the base and the
    base are directories; reflexive, transitive;
  * `transfer`: `Ref t t'` and `wpR RelW t' Q' (absW w)` give `wpR RC t (∃ r', RR r r' ∧ Q' r' ∘ absW) w`.
-/
import VfsModel.Proofs.SubtreeSim
import VfsModel.Proofs.OverlayConcThread
set_option linter.unusedVariables false
set_option linter.unusedSimpArgs false
set_option linter.unusedSectionVars false
namespace Vfs.SConc
open Vfs Vfs.Overlay Vfs.OConc Vfs.OConc.Prog

/-! ### the re-rooted world -/

def absLeaf (spec : Nat → Option Str) (i : Nat) (l : Leaf) : Leaf :=
  match spec i with
  | some P => { l with files := sub P l.files }
  | none => l

/-- re-root the leaves listed by `spec` -/
def absW (spec : Nat → Option Str) (w : World) : World :=
  { w with leaves := w.leaves.mapIdx (absLeaf spec) }

theorem absW_leaf (spec : Nat → Option Str) (w : World) (i : Nat) :
    (absW spec w).leaf? i = (w.leaf? i).map (absLeaf spec i) := by
  simp [absW, World.leaf?, List.getElem?_mapIdx]

theorem absW_mem {spec : Nat → Option Str} {w : World} {i : Nat} {M : FMap} {P : Str}
    (h : MemLeafAt w i M) (hs : spec i = some P) : MemLeafAt (absW spec w) i (sub P M) := by
  unfold MemLeafAt at *
  rw [absW_leaf, h]
  simp [absLeaf, hs]

theorem absW_set {spec : Nat → Option Str} (w : World) {i : Nat} {P : Str} (M' : FMap)
    (hs : spec i = some P) :
    absW spec (w.setLeafFiles i M') = (absW spec w).setLeafFiles i (sub P M') := by
  unfold absW World.setLeafFiles
  simp only
  congr 1
  apply List.ext_getElem?
  intro j
  simp only [List.getElem?_mapIdx, List.getElem?_modify]
  by_cases hij : i = j
  · subst hij
    cases w.leaves[i]? <;> simp [absLeaf, hs]
  · cases w.leaves[j]? <;> simp [hij]

/-- the sub-maps of the lower layers -/
def subMs (bs : List (List Str)) (Ms : List FMap) : List FMap :=
  List.zipWith (fun b M => sub (renderC b) M) bs Ms

/-- `spec` sends the leaves `is` to the bases `bs` -/
inductive SpecFor (spec : Nat → Option Str) : List Nat → List (List Str) → Prop
  | nil : SpecFor spec [] []
  | cons {i : Nat} {b : List Str} {is : List Nat} {bs : List (List Str)} :
      spec i = some (renderC b) → SpecFor spec is bs → SpecFor spec (i :: is) (b :: bs)

theorem absW_own {spec : Nat → Option Str} {w : World} :
    ∀ {is ids : List Nat} {Ms : List FMap} {bs : List (List Str)}, OWN w is ids Ms →
      SpecFor spec is bs → OWN (absW spec w) is ids (subMs bs Ms) := by
  intro is ids Ms bs h
  induction h generalizing bs with
  | nil =>
    intro hs
    cases hs
    exact .nil
  | cons h0 hni _ ih =>
    intro hs
    cases hs with
    | cons hb hrest => exact .cons (absW_mem h0 hb) hni (ih hrest)

theorem own_mem {w : World} : ∀ {is ids : List Nat} {ms : List FMap}, OWN w is ids ms →
    ∀ i ∈ is, ∃ m, MemLeafAt w i m := by
  intro is ids ms h
  induction h with
  | nil => intro i hi; cases hi
  | cons h0 _ _ ih =>
    intro i hi
    rcases List.mem_cons.1 hi with rfl | hi
    · exact ⟨_, h0⟩
    · exact ih i hi

/-! ### related outcomes, refinement of programs -/

/-- same constructor, same error kind (labels ignored), related values -/
def RR {α} (V : α → α → Prop) : Res α → Res α → Prop
  | .ok a, .ok a' => V a a'
  | .err k _, .err k' _ => k = k'
  | .panic, .panic => True
  | _, _ => False

/-- equality, as a named relation (kept opaque to `simp`) -/
def EqV {α : Type} : α → α → Prop := fun a b => a = b

theorem EqV.rfl {α : Type} {a : α} : EqV a a := Eq.refl a

theorem RR.eq_refl {α} (r : Res α) : RR EqV r r := by
  cases r <;> simp [RR, EqV]

/-- `t` (calls at `P ++ k`) refines `t'` (calls at `k`) -/
inductive Ref (spec : Nat → Option Str) (ls : List Nat) (u : Nat) (bu : List Str) {α : Type}
    (V : α → α → Prop) : Prog α → Prog α → Prop
  | done {r r' : Res α} : RR V r r' → Ref spec ls u bu V (.done r) (.done r')
  | exists_ {i : Nat} {P k : Str} {K K' : Res Bool → Prog α} : i ∈ ls → spec i = some P → Rooted k →
      (∀ r, Ref spec ls u bu V (K r) (K' r)) →
      Ref spec ls u bu V (.exists_ (leafFS i) (P ++ k) K) (.exists_ (leafFS i) k K')
  | metadata {i : Nat} {P k : Str} {K K' : Res Meta → Prog α} : i ∈ ls → spec i = some P → Rooted k →
      (∀ r, Ref spec ls u bu V (K r) (K' r)) →
      Ref spec ls u bu V (.metadata (leafFS i) (P ++ k) K) (.metadata (leafFS i) k K')
  | createDir {k : Str} {K K' : Res Unit → Prog α} : Canon k → k ≠ [] →
      (∀ r, Ref spec ls u bu V (K r) (K' r)) →
      Ref spec ls u bu V (.createDir (leafFS u) (renderC bu ++ k) K) (.createDir (leafFS u) k K')
  | removeFile {k : Str} {K K' : Res Unit → Prog α} : Rooted k →
      (∀ r, Ref spec ls u bu V (K r) (K' r)) →
      Ref spec ls u bu V (.removeFile (leafFS u) (renderC bu ++ k) K) (.removeFile (leafFS u) k K')
  | stutter {j : Nat} {K : Res Unit → Prog α} {t' : Prog α} : 1 ≤ j → j ≤ bu.length →
      Ref spec ls u bu V (K (.err .dirExists none)) t' →
      Ref spec ls u bu V (.createDir (leafFS u) (renderC (bu.take j)) K) t'

section ref
variable {spec : Nat → Option Str} {ls : List Nat} {u : Nat} {bu : List Str}

theorem Ref.bindR {α β} {V : α → α → Prop} {W : β → β → Prop} {m m' : Prog α}
    {f f' : Res α → Prog β} (hm : Ref spec ls u bu V m m')
    (hf : ∀ r r', RR V r r' → Ref spec ls u bu W (f r) (f' r')) :
    Ref spec ls u bu W (m.bindR f) (m'.bindR f') := by
  induction hm with
  | done h => exact hf _ _ h
  | exists_ hi hs hk _ ih => exact .exists_ hi hs hk ih
  | metadata hi hs hk _ ih => exact .metadata hi hs hk ih
  | createDir hk hne _ ih => exact .createDir hk hne ih
  | removeFile hk _ ih => exact .removeFile hk ih
  | stutter h1 h2 _ ih => exact .stutter h1 h2 ih

theorem Ref.lift {α β} {V : α → α → Prop} {W : β → β → Prop} {f f' : α → Prog β}
    (hf : ∀ a a', V a a' → Ref spec ls u bu W (f a) (f' a')) (r r' : Res α) (h : RR V r r') :
    Ref spec ls u bu W (Prog.lift f r) (Prog.lift f' r') := by
  cases r <;> cases r' <;> simp only [RR] at h
  · exact hf _ _ h
  · exact .done (by simpa [RR] using h)
  · exact .done (by simp [RR])

theorem Ref.bind {α β} {V : α → α → Prop} {W : β → β → Prop} {m m' : Prog α}
    {f f' : α → Prog β} (hm : Ref spec ls u bu V m m')
    (hf : ∀ a a', V a a' → Ref spec ls u bu W (f a) (f' a')) :
    Ref spec ls u bu W (m >>= f) (m' >>= f') :=
  Ref.bindR hm (Ref.lift hf)

theorem Ref.pure {α} {V : α → α → Prop} {a a' : α} (h : V a a') :
    Ref spec ls u bu V (pure a) (pure a') := .done (by simpa [RR] using h)

theorem Ref.failK {α} {V : α → α → Prop} (k : ErrKind) :
    Ref spec ls u bu V (Prog.failK k) (Prog.failK k) := .done (by simp [RR, fail])

end ref

/-! ### the concrete rely / guarantee -/

/-- the proper ancestors of the base and the base are directories -/
def CInv (bu : List Str) (Mu : FMap) : Prop := AncOK (renderC bu) Mu ∧ IsDirU Mu (renderC bu)

/-- nothing outside the subtree at the base changes -/
def Out (bu : List Str) (Mu Mu' : FMap) : Prop :=
  ∀ k, stripP (renderC bu) k = none → Mu'.find? k = Mu.find? k

section rc
variable (u idu : Nat) (is ids : List Nat) (Ms : List FMap) (bu : List Str)
  (paths : List (List Str))

/-- only leaf `u` changes: below the base by `Evolve` (on the re-rooted map), not outside it -/
def RC (w w' : World) : Prop :=
  ∀ Mu, OWN w (u :: is) (idu :: ids) (Mu :: Ms) →
    ∃ Mu', w' = w.setLeafFiles u Mu' ∧
      Evolve paths (sub (renderC bu) Mu) (sub (renderC bu) Mu') ∧ Out bu Mu Mu'

variable {u idu is ids Ms bu paths}

theorem RC.refl (w : World) : RC u idu is ids Ms bu paths w w :=
  fun Mu h => ⟨Mu, (OWN.hu h).same.symm, Evolve.refl _, fun _ _ => rfl⟩

theorem RC.trans (hp : PathsOK paths) (a b c : World) (h1 : RC u idu is ids Ms bu paths a b)
    (h2 : RC u idu is ids Ms bu paths b c) : RC u idu is ids Ms bu paths a c := by
  intro Mu hown
  obtain ⟨M1, rfl, he1, ho1⟩ := h1 Mu hown
  obtain ⟨M2, rfl, he2, ho2⟩ := h2 M1 (hown.setHead M1)
  exact ⟨M2, World.setLeafFiles_twice _ _ _ _, he1.trans hp he2,
    fun k hk => (ho2 k hk).trans (ho1 k hk)⟩

theorem stripP_anc_none (ps : List Str) (j : Nat) (hj : j < ps.length) :
    stripP (renderC ps) (renderC (ps.take j)) = none := by
  cases h : stripP (renderC ps) (renderC (ps.take j)) with
  | none => rfl
  | some q =>
    exfalso
    obtain ⟨h1, _⟩ := stripP_some h
    have h2 := renderC_take_length_lt ps j hj
    have h3 := congrArg List.length h1
    simp only [List.length_append] at h3
    omega

theorem find?_sub_nil (P : Str) (m : FMap) : (sub P m).find? [] = m.find? P := by
  rw [find?_sub P m [] (Or.inl rfl), List.append_nil]

theorem CInv.step {Mu Mu' : FMap} (h : CInv bu Mu)
    (he : Evolve paths (sub (renderC bu) Mu) (sub (renderC bu) Mu')) (ho : Out bu Mu Mu') :
    CInv bu Mu' := by
  refine ⟨?_, ?_⟩
  · intro ps hps hP j hj
    obtain ⟨e, he', hd⟩ := h.1 ps hps hP j hj
    refine ⟨e, ?_, hd⟩
    rw [ho _ (by rw [hP]; exact stripP_anc_none ps j hj)]
    exact he'
  · have h0 : IsDirU (sub (renderC bu) Mu) [] := by
      obtain ⟨e, he', hd⟩ := h.2
      exact ⟨e, by rw [find?_sub_nil]; exact he', hd⟩
    obtain ⟨e, he', hd⟩ := he.isDir_root h0
    exact ⟨e, by rw [← find?_sub_nil]; exact he', hd⟩

/-- `create_dir` at a non-empty prefix of the base: `DirectoryExists`, nothing changes -/
theorem createDir_base {Mu : FMap} (hbu : ∀ c ∈ bu, GoodComp c) (h : CInv bu Mu) (j : Nat)
    (h1 : 1 ≤ j) (h2 : j ≤ bu.length) :
    Mem.createDir Mu (renderC (bu.take j)) = (.err .dirExists none, Mu) := by
  have hself : IsDirU Mu (renderC (bu.take j)) := by
    by_cases hj : j = bu.length
    · rw [hj, List.take_length]; exact h.2
    · exact h.1 bu hbu rfl j (by omega)
  have hne : bu.take j ≠ [] := take_ne_nil h1 h2
  have hpar : parentInternal (renderC (bu.take j)) = renderC (bu.take (j - 1)) := by
    rw [parentInternal_renderC _ (good_noSlash (fun c hc => hbu c (List.mem_of_mem_take hc))),
      List.dropLast_eq_take, List.length_take, List.take_take]
    congr 2
    omega
  obtain ⟨pe, hpe, hpd⟩ : IsDirU Mu (renderC (bu.take (j - 1))) :=
    h.1 bu hbu rfl (j - 1) (by omega)
  obtain ⟨e, he, hd⟩ := hself
  unfold Mem.createDir Mem.ensureHasParent
  simp only [slash_mem_renderC hne, ↓reduceIte, hpar, hpe, hpd, he, hd, fail]
  simp

end rc

/-! ### the transfer -/

section transfer
variable {spec : Nat → Option Str} {u idu : Nat} {is ids : List Nat} {Ms : List FMap}
  {bu : List Str} {bs : List (List Str)} {paths : List (List Str)}

/-- the abstract rely -/
abbrev RA (u idu : Nat) (is ids : List Nat) (Ms : List FMap) (bs : List (List Str))
    (paths : List (List Str)) : World → World → Prop :=
  RelW u idu is ids (subMs bs Ms) (Evolve paths)

variable (hspecu : spec u = some (renderC bu)) (hspec : SpecFor spec is bs)

include hspecu hspec in
theorem abs_st {w : World} {Mu : FMap} (h : OWN w (u :: is) (idu :: ids) (Mu :: Ms)) :
    St u idu is ids (subMs bs Ms) (absW spec w) (sub (renderC bu) Mu) := by
  have := absW_own (spec := spec) (bs := bu :: bs) h (SpecFor.cons hspecu hspec)
  simpa [subMs, St] using this

include hspecu hspec in
/-- a concrete rely step is an abstract rely step of the re-rooted worlds -/
theorem RC.abs {w w1 : World} {Mu : FMap} (hown : OWN w (u :: is) (idu :: ids) (Mu :: Ms))
    (h : RC u idu is ids Ms bu paths w w1) :
    RA u idu is ids Ms bs paths (absW spec w) (absW spec w1) := by
  intro mu hst
  have := St.unique hst (abs_st hspecu hspec hown)
  subst this
  obtain ⟨M1, rfl, he, _⟩ := h Mu hown
  exact ⟨_, absW_set w M1 hspecu, he⟩

include hspecu hspec in
theorem abs_evolve {w1 : World} {M1 M2 : FMap} (hown : OWN w1 (u :: is) (idu :: ids) (M1 :: Ms))
    (h : RA u idu is ids Ms bs paths (absW spec w1) (absW spec (w1.setLeafFiles u M2))) :
    Evolve paths (sub (renderC bu) M1) (sub (renderC bu) M2) := by
  obtain ⟨mu', hw, he⟩ := h _ (abs_st hspecu hspec hown)
  have h2 : St u idu is ids (subMs bs Ms) (absW spec (w1.setLeafFiles u M2)) (sub (renderC bu) M2) :=
    abs_st hspecu hspec (hown.setHead M2)
  have h3 : St u idu is ids (subMs bs Ms) (absW spec (w1.setLeafFiles u M2)) mu' := by
    rw [hw]; exact (abs_st hspecu hspec hown).set mu'
  rw [St.unique h2 h3]
  exact he

include hspecu hspec in
/-- a concrete step of leaf `u` whose re-rooted image is an abstract rely step -/
theorem RC.of_abs {w1 : World} {M1 M2 : FMap} (hown : OWN w1 (u :: is) (idu :: ids) (M1 :: Ms))
    (ho : Out bu M1 M2)
    (h : RA u idu is ids Ms bs paths (absW spec w1) (absW spec (w1.setLeafFiles u M2))) :
    RC u idu is ids Ms bu paths w1 (w1.setLeafFiles u M2) := by
  intro Mu hown'
  have := St.unique hown hown'
  subst this
  exact ⟨M2, rfl, abs_evolve hspecu hspec hown h, ho⟩

include hspecu hspec in
/-- **transfer**: a specification of the abstract program on the re-rooted world is one of the
concrete program on the real world -/
theorem transfer (hp : PathsOK paths) (hbu : ∀ c ∈ bu, GoodComp c) {α} {V : α → α → Prop}
    {t t' : Prog α} (h : Ref spec (u :: is) u bu V t t') (Q' : Res α → World → Prop) :
    ∀ (w : World) (Mu : FMap), OWN w (u :: is) (idu :: ids) (Mu :: Ms) → CInv bu Mu →
      wpR (RA u idu is ids Ms bs paths) t' Q' (absW spec w) →
      wpR (RC u idu is ids Ms bu paths) t
        (fun r w1 => ∃ r', RR V r r' ∧ Q' r' (absW spec w1)) w := by
  have hT : ∀ a b c, RA u idu is ids Ms bs paths a b → RA u idu is ids Ms bs paths b c →
      RA u idu is ids Ms bs paths a c := RelW_trans (fun _ _ _ => Evolve.trans hp)
  induction h with
  | done hrr =>
    intro w Mu hown hinv habs w1 hRC
    exact ⟨_, hrr, habs _ (RC.abs hspecu hspec hown hRC)⟩
  | @exists_ i P k K K' hi hs hk _ ih =>
    intro w Mu hown hinv habs w1 hRC
    obtain ⟨M1, rfl, he, ho⟩ := hRC Mu hown
    have hown1 := hown.setHead M1
    have hinv1 := hinv.step he ho
    obtain ⟨Mi, hMi⟩ := own_mem hown1 i hi
    have ha := habs _ (RC.abs hspecu hspec hown (fun Mu' h' => by
      have := St.unique hown h'; subst this; exact ⟨M1, rfl, he, ho⟩))
    rw [run_exists (absW_mem hMi hs) k, contains_sub P Mi k hk] at ha
    rw [run_exists hMi (P ++ k)]
    exact ⟨RC.refl _, ih _ _ M1 hown1 hinv1 ha.2⟩
  | @metadata i P k K K' hi hs hk _ ih =>
    intro w Mu hown hinv habs w1 hRC
    obtain ⟨M1, rfl, he, ho⟩ := hRC Mu hown
    have hown1 := hown.setHead M1
    have hinv1 := hinv.step he ho
    obtain ⟨Mi, hMi⟩ := own_mem hown1 i hi
    have ha := habs _ (RC.abs hspecu hspec hown (fun Mu' h' => by
      have := St.unique hown h'; subst this; exact ⟨M1, rfl, he, ho⟩))
    rw [run_metadata (absW_mem hMi hs) k, metadata_shift P Mi hk] at ha
    rw [run_metadata hMi (P ++ k)]
    exact ⟨RC.refl _, ih _ _ M1 hown1 hinv1 ha.2⟩
  | @createDir k K K' hk hne _ ih =>
    intro w Mu hown hinv habs w1 hRC
    obtain ⟨M1, rfl, he, ho⟩ := hRC Mu hown
    have hown1 := hown.setHead M1
    have hinv1 := hinv.step he ho
    have ha := habs _ (RC.abs hspecu hspec hown (fun Mu' h' => by
      have := St.unique hown h'; subst this; exact ⟨M1, rfl, he, ho⟩))
    rw [Vfs.run_createDir (absW_mem (OWN.hu hown1) hspecu) k,
      createDir_shift (renderC bu) M1 hk hne] at ha
    simp only at ha
    rw [← absW_set _ _ hspecu] at ha
    rw [Vfs.run_createDir (OWN.hu hown1) (renderC bu ++ k)]
    have ho2 : Out bu M1 (Mem.createDir M1 (renderC bu ++ k)).2 := by
      intro k' hk'
      exact touch_createDir M1 _ k' (by
        intro h'; rw [h', stripP_append _ _ hk.rooted] at hk'; cases hk')
    have hstep := RC.of_abs hspecu hspec hown1 ho2 ha.1
    have he2 := abs_evolve hspecu hspec hown1 ha.1
    exact ⟨hstep, ih _ _ _ (hown1.setHead _) (hinv1.step he2 ho2) ha.2⟩
  | @removeFile k K K' hk _ ih =>
    intro w Mu hown hinv habs w1 hRC
    obtain ⟨M1, rfl, he, ho⟩ := hRC Mu hown
    have hown1 := hown.setHead M1
    have hinv1 := hinv.step he ho
    have ha := habs _ (RC.abs hspecu hspec hown (fun Mu' h' => by
      have := St.unique hown h'; subst this; exact ⟨M1, rfl, he, ho⟩))
    rw [Vfs.run_removeFile (absW_mem (OWN.hu hown1) hspecu) k,
      removeFile_shift (renderC bu) M1 hk] at ha
    simp only at ha
    rw [← absW_set _ _ hspecu] at ha
    rw [Vfs.run_removeFile (OWN.hu hown1) (renderC bu ++ k)]
    have ho2 : Out bu M1 (Mem.removeFile M1 (renderC bu ++ k)).2 := by
      intro k' hk'
      exact touch_removeFile M1 _ k' (by
        intro h'; rw [h', stripP_append _ _ hk] at hk'; cases hk')
    have hstep := RC.of_abs hspecu hspec hown1 ho2 ha.1
    have he2 := abs_evolve hspecu hspec hown1 ha.1
    exact ⟨hstep, ih _ _ _ (hown1.setHead _) (hinv1.step he2 ho2) ha.2⟩
  | @stutter j K t' h1 h2 _ ih =>
    intro w Mu hown hinv habs w1 hRC
    obtain ⟨M1, rfl, he, ho⟩ := hRC Mu hown
    have hown1 := hown.setHead M1
    have hinv1 := hinv.step he ho
    have hR' := RC.abs hspecu hspec hown (fun Mu' h' => by
      have := St.unique hown h'; subst this; exact ⟨M1, rfl, he, ho⟩)
    rw [Vfs.run_createDir (OWN.hu hown1) (renderC (bu.take j)), createDir_base hbu hinv1 j h1 h2]
    simp only
    rw [(OWN.hu hown1).same]
    exact ⟨RC.refl _, ih _ M1 hown1 hinv1 (wpR_stable hT _ _ _ _ habs hR')⟩

end transfer
end Vfs.SConc
