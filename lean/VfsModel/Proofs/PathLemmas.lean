/-
  Helper lemmas about the path algebra (used by Props/C06, C07, C05).
-/
import VfsModel.Path
namespace Vfs

/-- a canonical component: non-empty, no '/', not "." and not ".." -/
def GoodComp (c : Str) : Prop := c ≠ [] ∧ '/' ∉ c ∧ c ≠ ['.'] ∧ c ≠ ['.', '.']

instance (c : Str) : Decidable (GoodComp c) := by unfold GoodComp; exact inferInstance

/-- canonical path strings: `""` or `/c1/c2/…` with canonical components -/
def Canon (p : Str) : Prop := ∃ cs : List Str, (∀ c ∈ cs, GoodComp c) ∧ p = renderC cs

theorem splitOnC_ne_nil (d : Char) (s : Str) : splitOnC d s ≠ [] := by
  induction s with
  | nil => simp [splitOnC]
  | cons c cs ih =>
    unfold splitOnC
    split
    · simp
    · split <;> simp

theorem splitOnC_no_delim (d : Char) (s : Str) : ∀ c ∈ splitOnC d s, d ∉ c := by
  induction s with
  | nil => simp [splitOnC]
  | cons c cs ih =>
    unfold splitOnC
    split
    · intro x hx
      simp at hx
      rcases hx with rfl | hx
      · simp
      · exact ih x hx
    · rename_i hne
      split
      · intro x hx; simp at hx; subst hx; simp; exact fun h => hne h.symm
      · rename_i h t heq
        intro x hx
        simp at hx
        rcases hx with rfl | hx
        · have := ih h (by rw [heq]; simp)
          simp; exact ⟨fun h' => hne h'.symm, this⟩
        · exact ih x (by rw [heq]; simp [hx])

@[simp] theorem renderC_nil : renderC [] = [] := rfl
@[simp] theorem renderC_cons (c : Str) (cs : List Str) : renderC (c :: cs) = '/' :: c ++ renderC cs := by
  simp [renderC]
@[simp] theorem renderC_append (a b : List Str) : renderC (a ++ b) = renderC a ++ renderC b := by
  simp [renderC]

theorem slash_mem_renderC {cs : List Str} (h : cs ≠ []) : '/' ∈ renderC cs := by
  cases cs with
  | nil => exact absurd rfl h
  | cons c cs => simp

theorem beforeLast_append_delim (d : Char) (a b : Str) (hb : d ∉ b) :
    beforeLast d (a ++ d :: b) = a := by
  induction a with
  | nil => simp [beforeLast, hb]
  | cons c cs ih => simp [beforeLast, ih]

theorem afterLast_append_delim (d : Char) (a b : Str) (hb : d ∉ b) :
    afterLast d (a ++ d :: b) = b := by
  induction a with
  | nil => simp [afterLast, hb]
  | cons c cs ih => simp [afterLast, ih]

theorem beforeLast_no_delim (d : Char) (s : Str) (h : d ∉ s) : beforeLast d s = [] := by
  cases s with
  | nil => rfl
  | cons c cs => simp at h; simp [beforeLast, h.2]

theorem afterLast_no_delim (d : Char) (s : Str) (h : d ∉ s) : afterLast d s = s := by
  cases s with
  | nil => rfl
  | cons c cs =>
    simp at h
    simp [afterLast, h.2]
    intro hc; exact absurd hc.symm h.1

theorem renderC_snoc (cs : List Str) (c : Str) : renderC (cs ++ [c]) = renderC cs ++ '/' :: c := by
  simp

/-- key lemma: the parent of a rendered component list is the rendered list without its last
component (components must be slash-free). -/
theorem parentInternal_renderC (cs : List Str) (h : ∀ c ∈ cs, '/' ∉ c) :
    parentInternal (renderC cs) = renderC cs.dropLast := by
  rcases List.eq_nil_or_concat cs with rfl | ⟨l, c, rfl⟩
  · rfl
  · simp only [List.concat_eq_append] at h ⊢
    rw [List.dropLast_concat]
    unfold parentInternal
    have : renderC (l ++ [c]) = renderC l ++ '/' :: c := by simp
    rw [this]
    exact beforeLast_append_delim _ _ _ (h c (by simp))

theorem filenameInternal_renderC_snoc (cs : List Str) (c : Str) (h : '/' ∉ c) :
    filenameInternal (renderC (cs ++ [c])) = c := by
  unfold filenameInternal
  have : renderC (cs ++ [c]) = renderC cs ++ '/' :: c := by simp
  rw [this]
  exact afterLast_append_delim _ _ _ h

/-- the obvious stack machine: "" and "." are skipped, ".." pops (or stays at the root),
anything else is pushed -/
def resolve (stack : List Str) : List Str → List Str
  | [] => stack
  | comp :: rest =>
    if comp = ['.'] ∨ comp = [] then resolve stack rest
    else if comp = ['.', '.'] then resolve stack.dropLast rest
    else resolve (stack ++ [comp]) rest

theorem resolve_append (s : List Str) (a b : List Str) :
    resolve s (a ++ b) = resolve (resolve s a) b := by
  induction a generalizing s with
  | nil => rfl
  | cons c cs ih =>
    simp only [List.cons_append, resolve]
    split
    · exact ih _
    · split <;> exact ih _

/-- the loop of join_internal computes `resolve`, whenever the base is a rendered list -/
theorem joinLoop_resolve (bs new comps : List Str) (hbs : ∀ c ∈ bs, '/' ∉ c) :
    ∃ bs' new', joinLoop (renderC bs) new comps = (renderC bs', new') ∧
      (∀ c ∈ bs', '/' ∉ c) ∧ bs' ++ new' = resolve (bs ++ new) comps := by
  induction comps generalizing bs new with
  | nil => exact ⟨bs, new, rfl, hbs, rfl⟩
  | cons comp rest ih =>
    simp only [joinLoop, resolve]
    split
    · exact ih bs new hbs
    · split
      · split
        · rename_i hne
          obtain ⟨b', n', h1, h2, h3⟩ := ih bs new.dropLast hbs
          refine ⟨b', n', h1, h2, ?_⟩
          rw [h3, List.dropLast_append_of_ne_nil hne]
        · rename_i hne
          have hnil : new = [] := by simpa using hne
          subst hnil
          rw [parentInternal_renderC bs hbs]
          obtain ⟨b', n', h1, h2, h3⟩ := ih bs.dropLast []
            (fun c hc => hbs c (List.dropLast_subset _ hc))
          refine ⟨b', n', h1, h2, ?_⟩
          simpa using h3
      · obtain ⟨b', n', h1, h2, h3⟩ := ih bs (new ++ [comp]) hbs
        refine ⟨b', n', h1, h2, ?_⟩
        simpa [List.append_assoc] using h3

theorem resolve_good (stack comps : List Str) (hs : ∀ c ∈ stack, GoodComp c)
    (hc : ∀ c ∈ comps, '/' ∉ c) : ∀ c ∈ resolve stack comps, GoodComp c := by
  induction comps generalizing stack with
  | nil => exact hs
  | cons comp rest ih =>
    have hrest : ∀ c ∈ rest, '/' ∉ c := fun c h => hc c (by simp [h])
    simp only [resolve]
    split
    · exact ih stack hs hrest
    · rename_i h1
      split
      · exact ih _ (fun c h => hs c (List.dropLast_subset _ h)) hrest
      · rename_i h2
        refine ih _ ?_ hrest
        intro c hcm
        simp at hcm
        rcases hcm with hcm | rfl
        · exact hs c hcm
        · simp at h1
          exact ⟨h1.2, hc c (by simp), h1.1, h2⟩

end Vfs
