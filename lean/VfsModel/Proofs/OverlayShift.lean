/-
  Overlays whose layers are SUB-DIRECTORY PATHS of memory filesystems, used directly
  (`OverlayFS::new(&[root_a.join("up")?, root_b.join("lo")?])`), versus overlays over the ROOTS of
  memory filesystems holding the sub-maps.

  Part I  — the overlay adapter is parametric in an ABSTRACT relation `V` between layer paths: all
            the overlay needs from a pair of related layer paths is collected in `LayerOps`
            (joining a canonical relative argument stays related; each `VfsPath` operation the
            overlay issues is a simulation; `read_dir` in continuation form, names only).
            `Overlay.sim_fs_abs : LayerOps … V NR → ListRel V l1 l2 → SimFS … (fs l1) (fs l2)`.
            Unlike `Overlay.sim_fs` (Proofs/Sim.lean) the two sides may use DIFFERENT path strings
            below the layers.
  Part II — the instance: `VShift spec a b` : `a = ⟨leafFS i, _, P ++ q⟩`, `b = ⟨leafFS i, _, q⟩` with
            `spec i = .sub P`, `q` canonical. `layerOps_shift : LayerOps (RSub spec) PTrue (HSub spec)
            (VShift spec) NRShift`. The `create_dir_all` case is where the invariant `AncOK` of
            Proofs/SubtreeSim.lean (the ancestors of `P` are directories) is used: on the left
            `create_dir_all` first walks the prefixes of `P`, each answering `DirExists`.
            `overlay_subdir_sim` : the resulting `SimFS`.

  Error-path labels are not related here (`PTrue`): the two sides label errors with different
  strings (`P ++ q` versus `q`).

  NOT PROVED: layers on physical leaves; sub-directory layers of nested overlays / altroots.
-/
import VfsModel.Proofs.SubtreeSim
set_option linter.unusedVariables false
set_option linter.unusedSectionVars false
set_option linter.unusedSimpArgs false
namespace Vfs

/-! ## Part I: the overlay over abstractly related layers -/

/-- a canonical relative argument `c1/c2/…` (at least one component) -/
def GoodArg (arg : Str) : Prop :=
  ∃ c cs, GoodComp c ∧ (∀ x ∈ cs, GoodComp x) ∧ arg = c ++ renderC cs

/-- the file name of a child path -/
abbrev nameOf (c : VPath) : Str := filenameInternal c.path

/-- what the overlay needs from related layer paths (`NR`: "not the layer's own root") -/
structure LayerOps (R : World → World → Prop) (PR : Option Str → Option Str → Prop)
    (H : WHandle → WHandle → Prop) (V NR : VPath → VPath → Prop) : Prop where
  join : ∀ {a b : VPath} {arg : Str}, V a b → GoodArg arg →
    RelRes PR (fun a' b' => V a' b' ∧ NR a' b') (a.join arg) (b.join arg)
  parent : ∀ {a b : VPath}, V a b → NR a b → V a.parent b.parent
  exists_ : ∀ {a b : VPath}, V a b → SimM R PR (· = ·) a.exists_ b.exists_
  metadata : ∀ {a b : VPath}, V a b → SimM R PR (· = ·) a.metadata b.metadata
  openFile : ∀ {a b : VPath}, V a b → SimM R PR (· = ·) a.openFile b.openFile
  readDirK : ∀ {a b : VPath}, V a b → ∀ {γ δ : Type} (Q' : γ → δ → Prop) (F : List Str → M γ)
    (G : List Str → M δ), (∀ n, (∀ x ∈ n, GoodComp x) → SimM R PR Q' (F n) (G n)) →
    SimM R PR Q' (a.readDir >>= fun cs => F (cs.map nameOf)) (b.readDir >>= fun cs => G (cs.map nameOf))
  createDirAll : ∀ {a b : VPath}, V a b → SimM R PR (· = ·) a.createDirAll b.createDirAll
  createDir : ∀ {a b : VPath}, V a b → NR a b → SimM R PR (· = ·) a.createDir b.createDir
  createFile : ∀ {a b : VPath}, V a b → SimM R PR H a.createFile b.createFile
  appendFile : ∀ {a b : VPath}, V a b → SimM R PR H a.appendFile b.appendFile
  removeFile : ∀ {a b : VPath}, V a b → SimM R PR (· = ·) a.removeFile b.removeFile
  removeDir : ∀ {a b : VPath}, V a b → NR a b → SimM R PR (· = ·) a.removeDir b.removeDir
  setCreationTime : ∀ {a b : VPath}, V a b → ∀ t,
    SimM R PR (· = ·) (a.setCreationTime t) (b.setCreationTime t)
  setModificationTime : ∀ {a b : VPath}, V a b → ∀ t,
    SimM R PR (· = ·) (a.setModificationTime t) (b.setModificationTime t)
  setAccessTime : ∀ {a b : VPath}, V a b → ∀ t,
    SimM R PR (· = ·) (a.setAccessTime t) (b.setAccessTime t)
  copyFile : ∀ {a b c d : VPath}, V a b → V c d → SimM R PR (· = ·) (a.copyFile c) (b.copyFile d)

theorem VPath.join_nil (a : VPath) : a.join [] = .ok a := by
  cases a; rfl

namespace Overlay
section abs
variable {R : World → World → Prop} {PR : Option Str → Option Str → Prop}
  {H : WHandle → WHandle → Prop} {V NR : VPath → VPath → Prop} [ReflPR PR]
  (ops : LayerOps R PR H V NR)
include ops

theorem abs_isDir {a b : VPath} (h : V a b) : SimM R PR (· = ·) a.isDir b.isDir := by
  unfold VPath.isDir
  refine SimM.bind_eq (ops.exists_ h) fun c => ?_
  refine SimM.ite (fun _ => SimM.pure rfl) (fun _ => ?_)
  exact SimM.bind_eq (ops.metadata h) fun md => SimM.pure rfl

theorem abs_isFile {a b : VPath} (h : V a b) : SimM R PR (· = ·) a.isFile b.isFile := by
  unfold VPath.isFile
  refine SimM.bind_eq (ops.exists_ h) fun c => ?_
  refine SimM.ite (fun _ => SimM.pure rfl) (fun _ => ?_)
  exact SimM.bind_eq (ops.metadata h) fun md => SimM.pure rfl

/-- joining the tail of a canonical path (or nothing, for the root) -/
theorem abs_join_tail {a b : VPath} (h : V a b) {p : Str} (hp : Canon p) (hpn : p ≠ []) :
    RelRes PR (fun a' b' => V a' b' ∧ NR a' b') (a.join (tail1 p)) (b.join (tail1 p)) := by
  obtain ⟨cs, hcs, rfl⟩ := hp
  cases cs with
  | nil => exact absurd rfl hpn
  | cons c cs =>
    rw [tail1_renderC_cons]
    exact ops.join h ⟨c, cs, hcs c (by simp), fun x hx => hcs x (by simp [hx]), rfl⟩

variable {l1 l2 : List VPath} (hL : ListRel V l1 l2) (hne : l1 ≠ [])
include hL hne

omit ops [ReflPR PR] in
theorem abs_writeLayer : V (writeLayer l1) (writeLayer l2) := by
  cases hL with
  | nil => exact absurd rfl hne
  | cons hxy _ => exact hxy

theorem abs_whiteoutPath {p : Str} (hp : Canon p) :
    RelRes PR (fun a' b' => V a' b' ∧ NR a' b') (whiteoutPath l1 p) (whiteoutPath l2 p) := by
  have hw := abs_writeLayer hL hne
  unfold whiteoutPath
  obtain ⟨cs, hcs, rfl⟩ := hp
  rcases List.eq_nil_or_concat cs with rfl | ⟨ds, n, rfl⟩
  · rw [if_pos renderC_nil, if_pos renderC_nil]
    exact ops.join hw ⟨woDir, [woSuffix], goodComp_woDir, by decide, by simp⟩
  · have hne' : renderC (ds.concat n) ≠ [] := by cases ds <;> simp
    rw [if_neg hne', if_neg hne']
    have hds : ∀ c ∈ ds, GoodComp c := fun c hc => hcs c (by simp [hc])
    have hn : GoodComp n := hcs n (by simp)
    have harg : woDir ++ '/' :: (tail1 (renderC (ds.concat n)) ++ woSuffix)
        = woDir ++ renderC (ds ++ [n ++ woSuffix]) := by
      cases ds with
      | nil => simp [tail1]
      | cons d ds => simp [tail1, List.append_assoc]
    rw [harg]
    exact ops.join hw ⟨woDir, ds ++ [n ++ woSuffix], goodComp_woDir,
      good_snoc hds (goodComp_wo hn), rfl⟩

theorem abs_writePath {p : Str} (hp : Canon p) :
    RelRes PR (fun a' b' => V a' b' ∧ (p ≠ [] → NR a' b')) (writePath l1 p) (writePath l2 p) := by
  have hw := abs_writeLayer hL hne
  unfold writePath
  by_cases hpn : p = []
  · rw [if_pos hpn, if_pos hpn]
    exact .ok ⟨hw, fun h => absurd hpn h⟩
  · rw [if_neg hpn, if_neg hpn]
    exact (abs_join_tail ops hw hp hpn).mono fun _ _ h => ⟨h.1, fun _ => h.2⟩

theorem abs_firstExisting {p : Str} (hp : Canon p) (hpn : p ≠ []) {a b : List VPath}
    (hab : ListRel V a b) :
    SimM R PR (OptRel V) (firstExisting p a) (firstExisting p b) := by
  induction hab with
  | nil => unfold firstExisting; exact SimM.pure trivial
  | @cons x y a b hxy _ ih =>
    unfold firstExisting
    refine SimM.bind (SimM.ret (abs_join_tail ops hxy hp hpn)) fun lp1 lp2 hlp => ?_
    refine SimM.bind_eq (ops.exists_ hlp.1) fun c => ?_
    exact SimM.ite (fun _ => SimM.pure (show OptRel _ (some lp1) (some lp2) from hlp.1))
      (fun _ => ih)

theorem abs_readPath {p : Str} (hp : Canon p) : SimM R PR V (readPath l1 p) (readPath l2 p) := by
  unfold readPath
  refine SimM.ite (fun _ => SimM.pure (abs_writeLayer hL hne)) (fun hpn => ?_)
  refine SimM.bind (SimM.ret (abs_whiteoutPath ops hL hne hp)) fun wo1 wo2 hwo => ?_
  refine SimM.bind_eq (ops.exists_ hwo.1) fun marked => ?_
  refine SimM.ite (fun _ => SimM.failK _) (fun _ => ?_)
  refine SimM.bind (abs_firstExisting ops hL hne hp hpn hL) fun f1 f2 hf => ?_
  cases f1 with
  | none =>
    cases f2 with
    | some _ => exact absurd hf id
    | none =>
      dsimp only
      refine SimM.bind (SimM.ret (abs_join_tail ops (abs_writeLayer hL hne) hp hpn))
        fun rp1 rp2 hrp => ?_
      refine SimM.bind_eq (ops.exists_ hrp.1) fun ex => ?_
      exact SimM.ite (fun _ => SimM.failK _) (fun _ => SimM.pure hrp.1)
  | some a1 =>
    cases f2 with
    | none => exact absurd hf id
    | some a2 => exact SimM.pure hf

theorem abs_exists {p : Str} (hp : Canon p) : SimM R PR (· = ·) (exists_ l1 p) (exists_ l2 p) := by
  unfold exists_
  refine SimM.bind (SimM.ret (abs_whiteoutPath ops hL hne hp)) fun wo1 wo2 hwo => ?_
  refine SimM.bind_eq (ops.exists_ hwo.1) fun marked => ?_
  refine SimM.ite (fun _ => SimM.pure rfl) (fun _ => ?_)
  intro w1 w2 hr
  dsimp only
  rcases e1 : readPath l1 p w1 with ⟨r1, w1'⟩
  rcases e2 : readPath l2 p w2 with ⟨r2, w2'⟩
  obtain ⟨hres, hr'⟩ := (abs_readPath ops hL hne hp).run hr e1 e2
  cases hres with
  | ok hq => exact ops.exists_ hq w1' w2' hr'
  | panic => exact ⟨.panic, hr'⟩
  | @err k p1 p2 hp' =>
    cases k <;> first | exact ⟨.ok rfl, hr'⟩ | exact ⟨.err hp', hr'⟩

theorem abs_ensureHasParent {p : Str} (hp : Canon p) :
    SimM R PR (· = ·) (ensureHasParent l1 p) (ensureHasParent l2 p) := by
  have hpp := C06.parent_canonical p hp
  unfold ensureHasParent
  refine SimM.ite (fun _ => ?_) (fun _ => SimM.failK _)
  refine SimM.bind_eq (abs_exists ops hL hne hpp) fun ex => ?_
  refine SimM.ite (fun _ => ?_) (fun _ => SimM.failK _)
  refine SimM.bind (abs_readPath ops hL hne hpp) fun rp1 rp2 hrp => ?_
  refine SimM.bind_eq (abs_isDir ops hrp) fun isd => ?_
  refine SimM.ite (fun _ => ?_) (fun _ => SimM.failK _)
  refine SimM.bind (SimM.ret (abs_writePath ops hL hne hpp)) fun wp1 wp2 hwp => ?_
  exact ops.createDirAll hwp.1

theorem abs_mergeListings {p : Str} (hp : Canon p) {a b : List VPath} (hab : ListRel V a b)
    (acc : List Str) (hacc : ∀ n ∈ acc, GoodComp n) :
    SimM R PR NamesRel (mergeListings (if p ≠ [] then tail1 p else p) a acc)
      (mergeListings (if p ≠ [] then tail1 p else p) b acc) := by
  induction hab generalizing acc with
  | nil => unfold mergeListings; exact SimM.pure ⟨rfl, hacc⟩
  | @cons x y a b hxy _ ih =>
    unfold mergeListings
    have hj : RelRes PR V (x.join (if p ≠ [] then tail1 p else p))
        (y.join (if p ≠ [] then tail1 p else p)) := by
      by_cases hpn : p = []
      · subst hpn
        simp only [ne_eq, not_true_eq_false, if_false]
        rw [VPath.join_nil, VPath.join_nil]
        exact .ok hxy
      · rw [if_pos hpn]
        exact (abs_join_tail ops hxy hp hpn).mono fun _ _ h => h.1
    refine SimM.bind (SimM.ret hj) fun lp1 lp2 hlp => ?_
    refine SimM.bind_eq (abs_isDir ops hlp) fun isd => ?_
    refine SimM.ite (fun _ => ?_) (fun _ => ih acc hacc)
    exact ops.readDirK hlp NamesRel
      (fun n => mergeListings (if p ≠ [] then tail1 p else p) a
        (n.foldl (fun a n => if n ∈ a then a else a ++ [n]) acc))
      (fun n => mergeListings (if p ≠ [] then tail1 p else p) b
        (n.foldl (fun a n => if n ∈ a then a else a ++ [n]) acc))
      (fun n hn => ih _ (foldl_names_good n acc hn hacc))

theorem abs_clearWhiteout {p : Str} (hp : Canon p) :
    SimM R PR (· = ·) (clearWhiteout l1 p) (clearWhiteout l2 p) := by
  unfold clearWhiteout
  refine SimM.bind (SimM.ret (abs_whiteoutPath ops hL hne hp)) fun wo1 wo2 hwo => ?_
  refine SimM.bind_eq (ops.exists_ hwo.1) fun ex => ?_
  exact SimM.ite (fun _ => ops.removeFile hwo.1) (fun _ => SimM.pure rfl)

/-- `clear_whiteout` of `create_dir` (fix of O11): related removals fail with the same kind, so
both sides swallow `FileNotFound` together -/
theorem abs_clearWhiteoutT {p : Str} (hp : Canon p) :
    SimM R PR (· = ·) (clearWhiteoutT l1 p) (clearWhiteoutT l2 p) := by
  unfold clearWhiteoutT
  refine SimM.bind (SimM.ret (abs_whiteoutPath ops hL hne hp)) fun wo1 wo2 hwo => ?_
  refine SimM.bind_eq (ops.exists_ hwo.1) fun ex => ?_
  refine SimM.ite (fun _ => ?_) (fun _ => SimM.pure rfl)
  intro w1 w2 hr
  dsimp only
  rcases e1 : wo1.removeFile w1 with ⟨r1, w1'⟩
  rcases e2 : wo2.removeFile w2 with ⟨r2, w2'⟩
  obtain ⟨hres, hr'⟩ := (ops.removeFile hwo.1).run hr e1 e2
  cases hres with
  | ok hq => exact ⟨.ok hq, hr'⟩
  | panic => exact ⟨.panic, hr'⟩
  | @err k p1 p2 hp =>
    cases k <;> first | exact ⟨.ok rfl, hr'⟩ | exact ⟨.err hp, hr'⟩

theorem abs_addWhiteout (hh : SimHandles R PR H) {p : Str} (hp : Canon p) :
    SimM R PR (· = ·) (addWhiteout l1 p) (addWhiteout l2 p) := by
  unfold addWhiteout
  refine SimM.bind (SimM.ret (abs_whiteoutPath ops hL hne hp)) fun wo1 wo2 hwo => ?_
  refine SimM.bind_eq (ops.createDirAll (ops.parent hwo.1 hwo.2)) fun _ => ?_
  refine SimM.bind (ops.createFile hwo.1) fun h1 h2 hh' => ?_
  exact hh.drop _ _ hh'

theorem abs_readDir {p : Str} (hp : Canon p) : SimM R PR NamesRel (readDir l1 p) (readDir l2 p) := by
  unfold readDir
  refine SimM.bind (abs_readPath ops hL hne hp) fun rp1 rp2 hrp => ?_
  refine SimM.bind_eq (ops.exists_ hrp) fun ex => ?_
  refine SimM.ite (fun _ => SimM.failK _) (fun _ => ?_)
  refine SimM.bind_eq (abs_isDir ops hrp) fun isd => ?_
  refine SimM.ite (fun _ => SimM.failK _) (fun _ => ?_)
  refine SimM.bind (abs_mergeListings ops hL hne hp hL [] (by simp)) fun en1 en2 hen => ?_
  obtain ⟨rfl, hg⟩ := hen
  have hwj : RelRes PR (fun a' b' => V a' b' ∧ NR a' b') ((writeLayer l1).join (woDir ++ p))
      ((writeLayer l2).join (woDir ++ p)) := by
    obtain ⟨cs, hcs, rfl⟩ := hp
    exact ops.join (abs_writeLayer hL hne) ⟨woDir, cs, goodComp_woDir, hcs, rfl⟩
  refine SimM.bind (SimM.ret hwj) fun wp1 wp2 hwp => ?_
  refine SimM.bind_eq (ops.exists_ hwp.1) fun wex => ?_
  have hbase : ∀ n ∈ (if p = [] then en1.filter (fun n => n ≠ woDir) else en1), GoodComp n := by
    intro n hn
    split at hn
    · exact hg n (List.mem_filter.1 hn).1
    · exact hg n hn
  refine SimM.ite (fun _ => ?_) (fun _ => SimM.pure ⟨rfl, hbase⟩)
  have e : ∀ marks : List VPath, (marks.filterMap fun m => stripWo (filenameInternal m.path))
      = (marks.map nameOf).filterMap stripWo := by
    intro marks; rw [List.filterMap_map]; rfl
  simp only [e]
  exact ops.readDirK hwp.1 NamesRel
    (fun n => pure ((if p = [] then en1.filter (fun n => n ≠ woDir) else en1).filter
      fun x => x ∉ n.filterMap stripWo))
    (fun n => pure ((if p = [] then en1.filter (fun n => n ≠ woDir) else en1).filter
      fun x => x ∉ n.filterMap stripWo))
    (fun n _ => SimM.pure ⟨rfl, fun x hx => hbase x (List.mem_filter.1 hx).1⟩)

theorem abs_createDir {p : Str} (hp : Canon p) (hpn : p ≠ []) :
    SimM R PR (· = ·) (createDir l1 p) (createDir l2 p) := by
  unfold createDir
  refine SimM.bind_eq (abs_ensureHasParent ops hL hne hp) fun _ => ?_
  refine SimM.bind_eq (abs_exists ops hL hne hp) fun ex => ?_
  refine SimM.ite (fun _ => ?_) (fun _ => ?_)
  · refine SimM.bind (abs_readPath ops hL hne hp) fun q1 q2 hq => ?_
    exact SimM.bind_eq (ops.metadata hq) fun md => SimM.failK _
  · refine SimM.bind (SimM.ret (abs_writePath ops hL hne hp)) fun wp1 wp2 hwp => ?_
    -- related answers of the write layers select the same branch
    intro w1 w2 hr
    dsimp only
    rcases e1 : wp1.createDir w1 with ⟨r1, w1'⟩
    rcases e2 : wp2.createDir w2 with ⟨r2, w2'⟩
    obtain ⟨hres, hr'⟩ := (ops.createDir hwp.1 (hwp.2 hpn)).run hr e1 e2
    cases hres with
    | @ok a b hq => cases a; cases b; exact abs_clearWhiteoutT ops hL hne hp w1' w2' hr'
    | panic => exact ⟨.panic, hr'⟩
    | @err k p1 p2 hpp =>
      cases k <;> try exact ⟨.err hpp, hr'⟩
      dsimp only
      rcases e3 : clearWhiteoutT l1 p w1' with ⟨r3, w1''⟩
      rcases e4 : clearWhiteoutT l2 p w2' with ⟨r4, w2''⟩
      obtain ⟨hres2, hr''⟩ := (abs_clearWhiteoutT ops hL hne hp).run hr' e3 e4
      cases hres2 with
      | @ok a b hq => cases a; cases b; exact ⟨.err hpp, hr''⟩
      | panic => exact ⟨.panic, hr''⟩
      | @err k2 p3 p4 hp2 => exact ⟨.err hp2, hr''⟩

theorem abs_refuseDir {p : Str} (hp : Canon p) :
    SimM R PR (· = ·) (refuseDir l1 p) (refuseDir l2 p) := by
  unfold refuseDir
  refine SimM.bind_eq (abs_exists ops hL hne hp) fun ex => ?_
  refine SimM.ite (fun _ => ?_) (fun _ => SimM.pure rfl)
  refine SimM.bind (abs_readPath ops hL hne hp) fun q1 q2 hq => ?_
  refine SimM.bind_eq (ops.metadata hq) fun md => ?_
  exact SimM.ite (fun _ => SimM.failK _) (fun _ => SimM.pure rfl)

theorem abs_createFile {p : Str} (hp : Canon p) :
    SimM R PR H (createFile l1 p) (createFile l2 p) := by
  unfold createFile
  refine SimM.bind_eq (abs_ensureHasParent ops hL hne hp) fun _ => ?_
  refine SimM.bind_eq (abs_refuseDir ops hL hne hp) fun _ => ?_
  refine SimM.bind (SimM.ret (abs_writePath ops hL hne hp)) fun wp1 wp2 hwp => ?_
  refine SimM.bind (ops.createFile hwp.1) fun h1 h2 hh' => ?_
  exact SimM.bind_eq (abs_clearWhiteout ops hL hne hp) fun _ => SimM.pure hh'

theorem abs_copyUp {p : Str} (hp : Canon p) {wp1 wp2 : VPath} (hwp : V wp1 wp2) :
    SimM R PR (· = ·) (copyUp l1 p wp1) (copyUp l2 p wp2) := by
  unfold copyUp
  refine SimM.bind_eq (ops.exists_ hwp) fun ex => ?_
  refine SimM.ite (fun _ => ?_) (fun _ => SimM.pure rfl)
  refine SimM.bind_eq (abs_ensureHasParent ops hL hne hp) fun _ => ?_
  refine SimM.bind (abs_readPath ops hL hne hp) fun rp1 rp2 hrp => ?_
  refine SimM.bind_eq (abs_isFile ops hrp) fun isf => ?_
  refine SimM.ite (fun _ => SimM.failK _) (fun _ => ?_)
  exact ops.copyFile hrp hwp

theorem abs_appendFile {p : Str} (hp : Canon p) :
    SimM R PR H (appendFile l1 p) (appendFile l2 p) := by
  unfold appendFile
  refine SimM.bind (SimM.ret (abs_writePath ops hL hne hp)) fun wp1 wp2 hwp => ?_
  refine SimM.bind_eq (abs_copyUp ops hL hne hp hwp.1) fun _ => ?_
  exact ops.appendFile hwp.1

theorem abs_removeFile (hh : SimHandles R PR H) {p : Str} (hp : Canon p) :
    SimM R PR (· = ·) (removeFile l1 p) (removeFile l2 p) := by
  unfold removeFile
  refine SimM.bind (abs_readPath ops hL hne hp) fun _ _ _ => ?_
  refine SimM.bind (SimM.ret (abs_writePath ops hL hne hp)) fun wp1 wp2 hwp => ?_
  refine SimM.bind_eq (ops.exists_ hwp.1) fun ex => ?_
  refine SimM.bind_eq (SimM.ite (fun _ => ops.removeFile hwp.1) (fun _ => SimM.pure rfl))
    fun _ => ?_
  exact abs_addWhiteout ops hL hne hh hp

theorem abs_removeDir (hh : SimHandles R PR H) {p : Str} (hp : Canon p) (hpn : p ≠ []) :
    SimM R PR (· = ·) (removeDir l1 p) (removeDir l2 p) := by
  unfold removeDir
  refine SimM.bind (abs_readPath ops hL hne hp) fun _ _ _ => ?_
  refine SimM.bind (abs_readDir ops hL hne hp) fun n1 n2 hn => ?_
  obtain ⟨rfl, _⟩ := hn
  refine SimM.ite (fun _ => SimM.failK _) (fun _ => ?_)
  refine SimM.bind (SimM.ret (abs_writePath ops hL hne hp)) fun wp1 wp2 hwp => ?_
  refine SimM.bind_eq (ops.exists_ hwp.1) fun ex => ?_
  refine SimM.bind_eq (SimM.ite (fun _ => ops.removeDir hwp.1 (hwp.2 hpn))
    (fun _ => SimM.pure rfl)) fun _ => ?_
  exact abs_addWhiteout ops hL hne hh hp

/-- **the overlay adapter over abstractly related layers** -/
theorem sim_fs_abs (hh : SimHandles R PR H) : SimFS R PR H (fs l1) (fs l2) := by
  refine SimFS.of_strong hh ?_ (fun _ _ _ _ => SimM.failK _)
  exact {
    readDir := fun p hp => abs_readDir ops hL hne hp
    createDir := fun p hp hpn => abs_createDir ops hL hne hp hpn
    openFile := fun p hp =>
      SimM.bind (abs_readPath ops hL hne hp) fun q1 q2 hq => ops.openFile hq
    createFile := fun p hp => abs_createFile ops hL hne hp
    appendFile := fun p hp => abs_appendFile ops hL hne hp
    metadata := fun p hp =>
      SimM.bind (abs_readPath ops hL hne hp) fun q1 q2 hq => ops.metadata hq
    setCreationTime := fun p t hp =>
      SimM.bind (SimM.ret (abs_writePath ops hL hne hp)) fun _ _ hwp => ops.setCreationTime hwp.1 t
    setModificationTime := fun p t hp =>
      SimM.bind (SimM.ret (abs_writePath ops hL hne hp)) fun _ _ hwp =>
        ops.setModificationTime hwp.1 t
    setAccessTime := fun p t hp =>
      SimM.bind (SimM.ret (abs_writePath ops hL hne hp)) fun _ _ hwp => ops.setAccessTime hwp.1 t
    exists_ := fun p hp => abs_exists ops hL hne hp
    removeFile := fun p hp => abs_removeFile ops hL hne hh hp
    removeDir := fun p hp hpn => abs_removeDir ops hL hne hh hp hpn
    moveFile := fun _ _ _ _ => SimM.failK _
    moveDir := fun _ _ _ _ => SimM.failK _ }

end abs
end Overlay
end Vfs

/-! ## Part II: sub-directory paths of memory leaves -/
namespace Vfs

theorem M.bind_assoc' {α β γ : Type} (m : M α) (f : α → M β) (g : β → M γ) :
    ((m >>= f) >>= g) = (m >>= fun x => f x >>= g) := by
  funext w
  show M.bind (M.bind m f) g w = M.bind m (fun x => M.bind (f x) g) w
  unfold M.bind
  rcases m w with ⟨r, w'⟩
  cases r <;> rfl

theorem M.pure_bind' {α β : Type} (a : α) (f : α → M β) : ((Pure.pure a : M α) >>= f) = f a := rfl

theorem SimM.withPath_right_true {α β : Type} {R : World → World → Prop} {Q : α → β → Prop}
    {PR : Option Str → Option Str → Prop} {m1 : M α} {m2 : M β} (p2 : Str)
    (h : SimM R PR Q m1 m2) : SimM R PTrue Q m1 (M.withPath p2 m2) := by
  intro w1 w2 hr
  obtain ⟨h1, h2⟩ := h w1 w2 hr
  unfold M.withPath
  rcases hm1 : m1 w1 with ⟨r1, w1'⟩
  rcases hm2 : m2 w2 with ⟨r2, w2'⟩
  rw [hm1, hm2] at h1 h2
  refine ⟨?_, h2⟩
  cases h1 with
  | ok h => exact .ok h
  | err h => exact .err trivial
  | panic => exact .panic

theorem SimM.toTrue {α β : Type} {R : World → World → Prop} {Q : α → β → Prop}
    {PR : Option Str → Option Str → Prop} {m1 : M α} {m2 : M β} (h : SimM R PR Q m1 m2) :
    SimM R PTrue Q m1 m2 := h.monoPR (fun _ _ _ => trivial)

/-- `a` is the path `P ++ q` of memory leaf `i`, `b` the path `q` of the same leaf index, where the
relation re-roots leaf `i` at `P` -/
def VShift (spec : Nat → Role) (a b : VPath) : Prop :=
  ∃ i P q, spec i = .sub P ∧ Canon P ∧ Canon q ∧ a.fs = leafFS i ∧ b.fs = leafFS i ∧
    a.path = P ++ q ∧ b.path = q

/-- not the re-rooted root itself -/
def NRShift (_a b : VPath) : Prop := b.path ≠ []

theorem VShift.mk' {spec : Nat → Role} {i : Nat} {P q : Str} (hi : spec i = .sub P) (hP : Canon P)
    (hq : Canon q) (ida idb : Nat) :
    VShift spec { fs := leafFS i, fsId := ida, path := P ++ q }
      { fs := leafFS i, fsId := idb, path := q } :=
  ⟨i, P, q, hi, hP, hq, rfl, rfl, rfl, rfl⟩

theorem VShift.destruct {spec : Nat → Role} {a b : VPath} (h : VShift spec a b) :
    ∃ i P q ida idb, spec i = .sub P ∧ Canon P ∧ Canon q ∧
      a = { fs := leafFS i, fsId := ida, path := P ++ q } ∧
      b = { fs := leafFS i, fsId := idb, path := q } := by
  obtain ⟨i, P, q, hi, hP, hq, e1, e2, e3, e4⟩ := h
  cases a; cases b
  simp only at e1 e2 e3 e4
  subst e1 e2 e3 e4
  exact ⟨i, P, _, _, _, hi, hP, hq, rfl, rfl⟩

/-! ### `create_dir_all` -/

theorem chain_append (pre xs ys : List Str) :
    chain pre (xs ++ ys) = chain pre xs ++ chain (pre ++ xs) ys := by
  induction xs generalizing pre with
  | nil => simp [chain]
  | cons x xs ih => simp [chain, ih, List.append_assoc]

theorem chain_shift (ps pre cs : List Str) :
    chain (ps ++ pre) cs = (chain pre cs).map (renderC ps ++ ·) := by
  induction cs generalizing pre with
  | nil => rfl
  | cons c cs ih =>
    simp only [chain, List.map_cons]
    rw [List.append_assoc, ih (pre ++ [c])]
    simp

theorem createDir_existing_dir (m : FMap) (k : Str) (hs : '/' ∈ k) (ep e : Entry)
    (hp : m.find? (parentInternal k) = some ep) (hpd : ep.ftype = .dir)
    (he : m.find? k = some e) (hd : e.ftype = .dir) : Mem.createDir m k = (fail .dirExists, m) := by
  unfold Mem.createDir Mem.ensureHasParent
  rw [if_pos hs, hp]
  simp only [hpd, if_true, he, hd]
  rfl

theorem loop_skip (a : VPath) (l rest : List Str) (w : World)
    (h : ∀ d ∈ l, ∃ x, a.fs.createDir d w = (.err .dirExists x, w)) :
    VPath.createDirAllLoop a (l ++ rest) w = VPath.createDirAllLoop a rest w := by
  induction l with
  | nil => rfl
  | cons d l ih =>
    obtain ⟨x, hx⟩ := h d (by simp)
    rw [List.cons_append]
    have : VPath.createDirAllLoop a (d :: (l ++ rest)) w = VPath.createDirAllLoop a (l ++ rest) w := by
      conv => lhs; unfold VPath.createDirAllLoop
      simp only [hx]
    rw [this]
    exact ih (fun d' hd' => h d' (by simp [hd']))

section shift
variable {spec : Nat → Role}

theorem loop_shift {i : Nat} {P : Str} (hi : spec i = .sub P) (a b : VPath) (ha : a.fs = leafFS i)
    (hb : b.fs = leafFS i) (l : List Str) (hl : ∀ d ∈ l, Canon d ∧ d ≠ []) :
    SimM (RSub spec) PTrue (· = ·) (VPath.createDirAllLoop a (l.map (P ++ ·)))
      (VPath.createDirAllLoop b l) := by
  induction l with
  | nil => unfold VPath.createDirAllLoop; exact SimM.pure rfl
  | cons d rest ih =>
    have ih' := ih (fun x hx => hl x (by simp [hx]))
    intro w1 w2 hr
    rw [List.map_cons]
    unfold VPath.createDirAllLoop
    rw [ha, hb]
    have hd := leaf_createDir hi (hl d (by simp)).1 (hl d (by simp)).2
    rcases e1 : (leafFS i).createDir (P ++ d) w1 with ⟨r1, w1'⟩
    rcases e2 : (leafFS i).createDir d w2 with ⟨r2, w2'⟩
    obtain ⟨hres, hr'⟩ := hd.run hr e1 e2
    cases hres with
    | ok _ => exact ih' w1' w2' hr'
    | panic => exact ⟨.panic, hr'⟩
    | @err k p1 p2 hp =>
      cases k <;> first | exact ih' w1' w2' hr' | exact ⟨.err trivial, hr'⟩

theorem createDirAll_shift {i : Nat} {P q : Str} (hi : spec i = .sub P) (hP : Canon P)
    (hq : Canon q) (ida idb : Nat) :
    SimM (RSub spec) PTrue (· = ·)
      (VPath.createDirAll { fs := leafFS i, fsId := ida, path := P ++ q })
      (VPath.createDirAll { fs := leafFS i, fsId := idb, path := q }) := by
  intro w1 w2 hr
  obtain ⟨m1, h1, h2, hinv⟩ := hr.leafAt hi
  have hanc := hr.ancAt hi h1
  obtain ⟨ps, hps, rfl⟩ := hP
  obtain ⟨qs, hqs, rfl⟩ := hq
  -- the prefixes of `P` all answer `DirExists` and change nothing
  have hskip : ∀ d ∈ chain [] ps, ∃ x, (leafFS i).createDir d w1 = (.err .dirExists x, w1) := by
    intro d hd
    rw [mem_chain] at hd
    obtain ⟨j, hj1, hj2, rfl⟩ := hd
    simp only [List.nil_append]
    obtain ⟨j', rfl⟩ : ∃ j', j = j' + 1 := ⟨j - 1, by omega⟩
    have hpar : parentInternal (renderC (ps.take (j' + 1))) = renderC (ps.take j') := by
      have e : (ps.take (j' + 1)).dropLast = ps.take j' := by
        rw [List.take_add_one, List.getElem?_eq_getElem (by omega : j' < ps.length)]
        show (List.take j' ps ++ [ps[j']]).dropLast = _
        exact List.dropLast_concat
      rw [parentInternal_renderC _ (fun c hc => (hps c (List.take_subset _ _ hc)).noSlash), e]
    obtain ⟨ep, hep, hepd⟩ := hanc ps hps rfl j' (by omega)
    have hself : ∃ e, m1.find? (renderC (ps.take (j' + 1))) = some e ∧ e.ftype = .dir := by
      by_cases hlt : j' + 1 < ps.length
      · exact hanc ps hps rfl (j' + 1) hlt
      · have : ps.take (j' + 1) = ps := List.take_of_length_le (by omega)
        rw [this]
        obtain ⟨e, he, hd⟩ := hinv.1
        rw [find?_sub _ m1 [] (Or.inl rfl), List.append_nil] at he
        exact ⟨e, he, hd⟩
    obtain ⟨e, he, hed⟩ := hself
    have hsl : '/' ∈ renderC (ps.take (j' + 1)) := by
      apply slash_mem_renderC
      intro h
      have := congrArg List.length h
      rw [List.length_take] at this
      simp only [List.length_nil] at this
      omega
    refine ⟨none, ?_⟩
    rw [run_createDir h1, createDir_existing_dir m1 _ hsl ep e (by rw [hpar]; exact hep) hepd he hed,
      h1.same]
    rfl
  have hpre : VPath.dirPrefixes (renderC ps ++ renderC qs)
      = chain [] ps ++ (chain [] qs).map (renderC ps ++ ·) := by
    rw [← renderC_append, dirPrefixes_renderC _ (good_noSlash (good_append hps hqs)), chain_append,
      List.nil_append]
    congr 1
    have := chain_shift ps [] qs
    rw [List.append_nil] at this
    exact this
  unfold VPath.createDirAll
  dsimp only
  by_cases hqn : renderC qs = []
  · -- the right side does nothing; the left side walks the prefixes of `P`
    rw [if_pos hqn]
    by_cases hPn : renderC ps ++ renderC qs = []
    · rw [if_pos hPn]; exact ⟨.ok rfl, hr⟩
    · rw [if_neg hPn, hpre]
      have hq0 : qs = [] := by
        cases qs with
        | nil => rfl
        | cons c cs => simp at hqn
      subst hq0
      simp only [chain, List.map_nil]
      rw [loop_skip _ _ [] w1 hskip]
      unfold VPath.createDirAllLoop
      exact ⟨.ok trivial, hr⟩
  · have hPn : renderC ps ++ renderC qs ≠ [] := by
      intro h; exact hqn (List.append_eq_nil_iff.1 h).2
    rw [if_neg hqn, if_neg hPn, hpre, loop_skip _ _ _ w1 hskip,
      dirPrefixes_renderC _ (good_noSlash hqs)]
    refine loop_shift hi _ _ rfl rfl (chain [] qs) ?_ w1 w2 hr
    intro d hd
    have := VPath.dirPrefixes_canon (p := renderC qs) ⟨qs, hqs, rfl⟩
      (by rw [dirPrefixes_renderC _ (good_noSlash hqs)]; exact hd)
    exact this

/-! ### the single-call operations -/

theorem relres_true_withPath {α β : Type} {Q : α → β → Prop} {PR : Option Str → Option Str → Prop}
    {r1 : Res α} {r2 : Res β} (p1 p2 : Str) (h : RelRes PR Q r1 r2) :
    RelRes PTrue Q (r1.withPath p1) (r2.withPath p2) := by
  cases h with
  | ok h => exact .ok h
  | err h => exact .err trivial
  | panic => exact .panic

theorem createDir_shift_v {i : Nat} {P q : Str} (hi : spec i = .sub P) (hP : Canon P) (hq : Canon q)
    (hne : q ≠ []) (ida idb : Nat) :
    SimM (RSub spec) PTrue (· = ·)
      (VPath.createDir { fs := leafFS i, fsId := ida, path := P ++ q })
      (VPath.createDir { fs := leafFS i, fsId := idb, path := q }) := by
  intro w1 w2 hr
  obtain ⟨m1, h1, h2, hinv⟩ := hr.leafAt hi
  have hsl : '/' ∈ q := slash_mem_canon hq hne
  rw [vcreateDir_eq h1 ida _ (Or.inl (by simp [hsl])), vcreateDir_eq h2 idb _ (Or.inl hsl)]
  obtain ⟨a, b⟩ := leaf_createDir hi hq hne w1 w2 hr
  exact ⟨relres_true_withPath _ _ a, b⟩

theorem createFile_shift_v {i : Nat} {P q : Str} (hi : spec i = .sub P) (hP : Canon P) (hq : Canon q)
    (ida idb : Nat) :
    SimM (RSub spec) PTrue (HSub spec)
      (VPath.createFile { fs := leafFS i, fsId := ida, path := P ++ q })
      (VPath.createFile { fs := leafFS i, fsId := idb, path := q }) := by
  intro w1 w2 hr
  obtain ⟨m1, h1, h2, hinv⟩ := hr.leafAt hi
  have hp2 : '/' ∈ q ∨ Mem.parentOk (sub P m1) q = true := by
    by_cases hne : q = []
    · right
      subst hne
      obtain ⟨e, he, hd⟩ := hinv.1
      unfold Mem.parentOk
      rw [show parentInternal ([] : Str) = [] from rfl, he]
      simp [hd]
    · left; exact slash_mem_canon hq hne
  rw [vcreateFile_eq h1 ida _ (root_probe_ok hi hP hinv hq), vcreateFile_eq h2 idb _ hp2]
  by_cases hne : q = []
  · subst hne
    obtain ⟨e, he, hd⟩ := hinv.1
    have he1 := he
    rw [find?_sub P m1 [] (Or.inl rfl)] at he1
    rw [run_createFile h1, run_createFile h2, createFile_on_dir m1 _ e he1 hd,
      createFile_on_dir (sub P m1) [] e he hd]
    exact ⟨.err trivial, hr.set hi _ _ rfl hinv (hr.ancAt hi h1)⟩
  · obtain ⟨a, b⟩ := leaf_createFile hi hq hne w1 w2 hr
    exact ⟨relres_true_withPath _ _ a, b⟩

/-! ### `copy_file` between sub-directory paths of (possibly different) memory leaves -/

theorem run_copy_mem2 {w : World} {i j : Nat} {mi mj : FMap} (hi : MemLeafAt w i mi)
    (hj : MemLeafAt w j mj) (ida idc : Nat) (a c : Str) :
    VPath.copyFile { fs := leafFS i, fsId := ida, path := a } { fs := leafFS j, fsId := idc, path := c } w
      = M.withPath a (if mj.contains c = true then M.failAt .other a
          else copyFB { fs := leafFS i, fsId := ida, path := a }
            { fs := leafFS j, fsId := idc, path := c }) w := by
  rw [copyFile_unfold]
  have e1 : ∀ (f : Bool → M Unit),
      ((VPath.exists_ { fs := leafFS j, fsId := idc, path := c }) >>= f) w = f (mj.contains c) w :=
    fun f => bind_run_ok (run_exists hj c)
  unfold M.withPath
  dsimp only
  rw [e1]
  cases mj.contains c with
  | true => rfl
  | false =>
    simp only [Bool.false_eq_true, if_false]
    by_cases hid : ida = idc
    · rw [if_pos hid, bind_run_ok (attempt_copy_mem hi a c), copyK_ns]
    · rw [if_neg hid, M.pure_bind', copyK_ns]

theorem sim_copyFB_shift2 {i j : Nat} {Pi Pj s d : Str} (hi : spec i = .sub Pi) (hj : spec j = .sub Pj)
    (hPi : Canon Pi) (hPj : Canon Pj) (hs : Canon s) (hd : Canon d) (ida idc idb idd : Nat) :
    SimM (RSub spec) PTrue (· = ·)
      (copyFB { fs := leafFS i, fsId := ida, path := Pi ++ s }
        { fs := leafFS j, fsId := idc, path := Pj ++ d })
      (copyFB { fs := leafFS i, fsId := idb, path := s }
        { fs := leafFS j, fsId := idd, path := d }) := by
  unfold copyFB
  refine SimM.bind_eq (SimM.withPath_lr_true _ _ (leaf_openFile hi hs)) fun r => ?_
  refine SimM.bind (createFile_shift_v hj hPj hd idc idd) fun w1 w2 hw => ?_
  unfold VPath.ioCopyAndDrop
  refine SimM.bind_eq (SimM.withPath_lr_true (PR := PTrue) _ _
    (SimM.ret_refl (fun _ => rfl) _)) fun bytes => ?_
  refine SimM.bind ((simHandles_sub spec).write w1 w2 bytes hw) fun r1 r2 hr => ?_
  obtain ⟨n1, h1'⟩ := r1
  obtain ⟨n2, h2'⟩ := r2
  exact (simHandles_sub spec).drop _ _ hr.2

theorem copyFile_shift {i j : Nat} {Pi Pj s d : Str} (hi : spec i = .sub Pi) (hj : spec j = .sub Pj)
    (hPi : Canon Pi) (hPj : Canon Pj) (hs : Canon s) (hd : Canon d) (ida idc idb idd : Nat) :
    SimM (RSub spec) PTrue (· = ·)
      (VPath.copyFile { fs := leafFS i, fsId := ida, path := Pi ++ s }
        { fs := leafFS j, fsId := idc, path := Pj ++ d })
      (VPath.copyFile { fs := leafFS i, fsId := idb, path := s }
        { fs := leafFS j, fsId := idd, path := d }) := by
  intro w1 w2 hr
  obtain ⟨mi, hi1, hi2, _⟩ := hr.leafAt hi
  obtain ⟨mj, hj1, hj2, hinvj⟩ := hr.leafAt hj
  rw [run_copy_mem2 hi1 hj1, run_copy_mem2 hi2 hj2, contains_sub Pj mj d hd.rooted]
  have key : SimM (RSub spec) PTrue (· = ·)
      (if mj.contains (Pj ++ d) = true then M.failAt .other (Pi ++ s)
        else copyFB { fs := leafFS i, fsId := ida, path := Pi ++ s }
          { fs := leafFS j, fsId := idc, path := Pj ++ d })
      (if mj.contains (Pj ++ d) = true then M.failAt .other s
        else copyFB { fs := leafFS i, fsId := idb, path := s }
          { fs := leafFS j, fsId := idd, path := d }) := by
    by_cases hc : mj.contains (Pj ++ d) = true
    · rw [if_pos hc, if_pos hc]
      exact fun _ _ hr' => ⟨.err trivial, hr'⟩
    · rw [if_neg hc, if_neg hc]
      exact sim_copyFB_shift2 hi hj hPi hPj hs hd ida idc idb idd
  exact (SimM.withPath_lr_true _ _ key) w1 w2 hr

/-! ### `read_dir`, names only, in continuation form -/

theorem readDirK_shift {i : Nat} {P q : Str} (hi : spec i = .sub P) (hq : Canon q) (ida idb : Nat)
    {γ δ : Type} (Q' : γ → δ → Prop) (F : List Str → M γ) (G : List Str → M δ)
    (hFG : ∀ n, (∀ x ∈ n, GoodComp x) → SimM (RSub spec) PTrue Q' (F n) (G n)) :
    SimM (RSub spec) PTrue Q'
      ((VPath.readDir { fs := leafFS i, fsId := ida, path := P ++ q }) >>= fun cs => F (cs.map nameOf))
      ((VPath.readDir { fs := leafFS i, fsId := idb, path := q }) >>= fun cs => G (cs.map nameOf)) := by
  unfold VPath.readDir
  rw [M.bind_assoc', M.bind_assoc']
  refine SimM.bind (SimM.withPath_lr_true _ _ (leaf_readDir hi hq)) fun n1 n2 hn => ?_
  obtain ⟨rfl, hg⟩ := hn
  rw [M.pure_bind', M.pure_bind', List.map_map, List.map_map]
  have e1 : n1.map (nameOf ∘ fun n => VPath.withStr { fs := leafFS i, fsId := ida, path := P ++ q }
      ((P ++ q) ++ '/' :: n)) = n1 := by
    conv => rhs; rw [← List.map_id n1]
    apply List.map_congr_left
    intro n hn
    exact filename_child _ n (hg n hn).noSlash
  have e2 : n1.map (nameOf ∘ fun n => VPath.withStr { fs := leafFS i, fsId := idb, path := q }
      (q ++ '/' :: n)) = n1 := by
    conv => rhs; rw [← List.map_id n1]
    apply List.map_congr_left
    intro n hn
    exact filename_child _ n (hg n hn).noSlash
  rw [e1, e2]
  exact hFG n1 hg

/-! ### the instance -/

theorem layerOps_shift (spec : Nat → Role) :
    LayerOps (RSub spec) PTrue (HSub spec) (VShift spec) NRShift where
  join := by
    intro a b arg h harg
    obtain ⟨i, P, q, ida, idb, hi, hP, hq, rfl, rfl⟩ := h.destruct
    obtain ⟨c, cs, hc, hcs, rfl⟩ := harg
    obtain ⟨ps, hps, rfl⟩ := hP
    obtain ⟨qs, hqs, rfl⟩ := hq
    unfold VPath.join
    dsimp only
    rw [← renderC_append,
      joinInternal_good (ps ++ qs) c cs (good_noSlash (good_append hps hqs)) hc hcs,
      joinInternal_good qs c cs (good_noSlash hqs) hc hcs]
    have hq' : Canon (renderC (qs ++ c :: cs)) :=
      ⟨_, good_append hqs (fun x hx => by
        rcases List.mem_cons.1 hx with rfl | hx
        · exact hc
        · exact hcs x hx), rfl⟩
    refine .ok ⟨?_, ?_⟩
    · have := VShift.mk' hi ⟨ps, hps, rfl⟩ hq' ida idb
      simp only [Res.map, VPath.withStr]
      rw [List.append_assoc, renderC_append]
      exact this
    · show renderC (qs ++ c :: cs) ≠ []
      simp
  parent := by
    intro a b h hnr
    obtain ⟨i, P, q, ida, idb, hi, hP, hq, rfl, rfl⟩ := h.destruct
    have hne : q ≠ [] := hnr
    obtain ⟨e1, _, _, _⟩ := parent_shift P hq hne
    unfold VPath.parent VPath.withStr
    dsimp only
    rw [e1]
    exact VShift.mk' hi hP (C06.parent_canonical q hq) ida idb
  exists_ := by
    intro a b h
    obtain ⟨i, P, q, ida, idb, hi, hP, hq, rfl, rfl⟩ := h.destruct
    exact (leaf_exists hi hq).toTrue
  metadata := by
    intro a b h
    obtain ⟨i, P, q, ida, idb, hi, hP, hq, rfl, rfl⟩ := h.destruct
    exact SimM.withPath_lr_true _ _ (leaf_metadata hi hq)
  openFile := by
    intro a b h
    obtain ⟨i, P, q, ida, idb, hi, hP, hq, rfl, rfl⟩ := h.destruct
    exact SimM.withPath_lr_true _ _ (leaf_openFile hi hq)
  readDirK := by
    intro a b h γ δ Q' F G hFG
    obtain ⟨i, P, q, ida, idb, hi, hP, hq, rfl, rfl⟩ := h.destruct
    exact readDirK_shift hi hq ida idb Q' F G hFG
  createDirAll := by
    intro a b h
    obtain ⟨i, P, q, ida, idb, hi, hP, hq, rfl, rfl⟩ := h.destruct
    exact createDirAll_shift hi hP hq ida idb
  createDir := by
    intro a b h hnr
    obtain ⟨i, P, q, ida, idb, hi, hP, hq, rfl, rfl⟩ := h.destruct
    exact createDir_shift_v hi hP hq hnr ida idb
  createFile := by
    intro a b h
    obtain ⟨i, P, q, ida, idb, hi, hP, hq, rfl, rfl⟩ := h.destruct
    exact createFile_shift_v hi hP hq ida idb
  appendFile := by
    intro a b h
    obtain ⟨i, P, q, ida, idb, hi, hP, hq, rfl, rfl⟩ := h.destruct
    exact SimM.withPath_lr_true _ _ (leaf_appendFile hi hq)
  removeFile := by
    intro a b h
    obtain ⟨i, P, q, ida, idb, hi, hP, hq, rfl, rfl⟩ := h.destruct
    exact SimM.withPath_lr_true _ _ (leaf_removeFile hi hq)
  removeDir := by
    intro a b h hnr
    obtain ⟨i, P, q, ida, idb, hi, hP, hq, rfl, rfl⟩ := h.destruct
    exact SimM.withPath_lr_true _ _ (leaf_removeDir hi hq hnr)
  setCreationTime := by
    intro a b h t
    obtain ⟨i, P, q, ida, idb, hi, hP, hq, rfl, rfl⟩ := h.destruct
    exact SimM.withPath_lr_true _ _ (leaf_setCreationTime hi hq t)
  setModificationTime := by
    intro a b h t
    obtain ⟨i, P, q, ida, idb, hi, hP, hq, rfl, rfl⟩ := h.destruct
    exact SimM.withPath_lr_true _ _ (leaf_setModificationTime hi hq t)
  setAccessTime := by
    intro a b h t
    obtain ⟨i, P, q, ida, idb, hi, hP, hq, rfl, rfl⟩ := h.destruct
    exact SimM.withPath_lr_true _ _ (leaf_setAccessTime hi hq t)
  copyFile := by
    intro a b c d h h'
    obtain ⟨i, Pi, s, ida, idb, hi, hPi, hs, rfl, rfl⟩ := h.destruct
    obtain ⟨j, Pj, t, idc, idd, hj, hPj, ht, rfl, rfl⟩ := h'.destruct
    exact copyFile_shift hi hj hPi hPj hs ht ida idc idb idd

/-- **overlays over sub-directory paths of memory leaves.** `l1` : layer paths `⟨leafFS i_k, _,
P_k⟩` on the left world; `l2` : the roots `⟨leafFS i_k, _, ""⟩` on the right world (where leaf
`i_k` holds the sub-map below `P_k`). The two overlays are related filesystems: every trait
method, called with the same canonical path (`create_dir` / `remove_dir`: not ""), has the same
outcome (same error kind) and related effects. -/
theorem overlay_subdir_sim {l1 l2 : List VPath} (hL : ListRel (VShift spec) l1 l2) (hne : l1 ≠ []) :
    SimFS (RSub spec) PTrue (HSub spec) (Overlay.fs l1) (Overlay.fs l2) :=
  Overlay.sim_fs_abs (layerOps_shift spec) hL hne (simHandles_sub spec)

end shift
end Vfs
