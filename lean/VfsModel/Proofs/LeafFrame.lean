/-
  Frame facts about leaves of the world: a leaf filesystem touches only its own leaf.
-/
import VfsModel.Proofs.Hoare
import VfsModel.Proofs.FMapLemmas
namespace Vfs

theorem World.leaf?_setLeafFiles_ne (w : World) (i j : Nat) (f : FMap) (h : i ≠ j) :
    (w.setLeafFiles i f).leaf? j = w.leaf? j := by
  unfold World.setLeafFiles World.leaf?
  exact List.getElem?_modify_ne _ _ h

/-- `I` depends only on leaves other than `i` (and on nothing the leaf operations touch) -/
def IgnoresLeaf (I : World → Prop) (i : Nat) : Prop :=
  ∀ w f, I w → I (w.setLeafFiles i f)

theorem onLeaf_pres {α} {I : World → Prop} (i : Nat) (hI : IgnoresLeaf I i)
    (f : Leaf → Res α × FMap) : Preserves I (onLeaf i f) := by
  refine ⟨fun w hw => ?_⟩
  unfold onLeaf
  split
  · exact hw
  · exact hI w _ hw

theorem handle_ok_of_leaf {I : World → Prop} (i : Nat) (hI : IgnoresLeaf I i) (h : WHandle)
    (hl : h.leaf = i) : HandleOK I h := by
  intro buf pos
  constructor
  · intro bs
    refine ⟨fun w hw => ?_⟩
    unfold WHandle.write
    dsimp only
    cases h.kind <;> dsimp only
    · exact hw
    · split
      · split
        · rw [hl]; exact hI w _ hw
        · exact hw
      · exact hw
    · split
      · split
        · rw [hl]; exact hI w _ hw
        · exact hw
      · exact hw
  · refine ⟨fun w hw => ?_⟩
    unfold WHandle.flush
    dsimp only
    cases h.kind <;> dsimp only
    · split
      · rw [hl]; exact hI w _ hw
      · exact hw
    · exact hw
    · exact hw

theorem onLeaf_ret {α} (i : Nat) (f : Leaf → Res α × FMap) (Q : α → Prop)
    (h : ∀ l a, (f l).1 = .ok a → Q a) : Returns (onLeaf i f) Q := by
  refine ⟨fun w a he => ?_⟩
  unfold onLeaf at he
  split at he
  · cases he
  · rename_i l _; exact h l a he

/-- a leaf filesystem preserves every invariant that ignores its leaf -/
theorem leafFS_all_preserve {I : World → Prop} (i : Nat) (hI : IgnoresLeaf I i) :
    (leafFS i).AllPreserve I where
  readDir _ := onLeaf_pres i hI _
  createDir _ := onLeaf_pres i hI _
  openFile _ := onLeaf_pres i hI _
  createFile _ := onLeaf_pres i hI _
  appendFile _ := onLeaf_pres i hI _
  metadata _ := onLeaf_pres i hI _
  setCreationTime _ _ := onLeaf_pres i hI _
  setModificationTime _ _ := onLeaf_pres i hI _
  setAccessTime _ _ := onLeaf_pres i hI _
  exists_ _ := onLeaf_pres i hI _
  removeFile _ := onLeaf_pres i hI _
  removeDir _ := onLeaf_pres i hI _
  copyFile _ _ := onLeaf_pres i hI _
  moveFile _ _ := onLeaf_pres i hI _
  moveDir _ _ := onLeaf_pres i hI _
  createHandle p := by
    apply onLeaf_ret
    intro l a he
    apply handle_ok_of_leaf i hI
    cases hk : l.kind <;> simp only [hk] at he
    · cases hc : (Mem.createFile l.files p).1 <;> simp [hc, Res.map] at he
      rw [← he]
    · cases hc : (Phys.createFile l.files p).1 <;> simp [hc, Res.map] at he
      rw [← he]
  appendHandle p := by
    apply onLeaf_ret
    intro l a he
    apply handle_ok_of_leaf i hI
    cases hk : l.kind <;> simp only [hk] at he
    · cases hc : Mem.appendFile l.files p <;> simp [hc, Res.map] at he
      rw [← he]
    · cases hc : Phys.appendFile l.files p <;> simp [hc, Res.map] at he
      rw [← he]

end Vfs

namespace Vfs

/-- an entry without its access time -/
def stripAcc (e : Entry) : Entry := { e with accessed := .unset }

/-- leaf `j` holds the same entries as `m0`, up to access times (reading a file stamps its
access time inside the backend, as the OS does for a physical file) -/
def SameLeaf (j : Nat) (kind : LeafKind) (m0 : FMap) (w : World) : Prop :=
  ∃ l, w.leaf? j = some l ∧ l.kind = kind ∧
    ∀ k, (l.files.find? k).map stripAcc = (m0.find? k).map stripAcc

theorem SameLeaf.ignores (j i : Nat) (kind : LeafKind) (m0 : FMap) (h : i ≠ j) :
    IgnoresLeaf (SameLeaf j kind m0) i := by
  intro w f ⟨l, h1, h2, h3⟩
  exact ⟨l, by rw [World.leaf?_setLeafFiles_ne w i j f h]; exact h1, h2, h3⟩

theorem World.setLeafFiles_same (w : World) (j : Nat) (l : Leaf) (f : FMap) (h : w.leaf? j = some l) :
    (w.setLeafFiles j f).leaf? j = some { l with files := f } := by
  unfold World.setLeafFiles World.leaf? at *
  rw [List.getElem?_modify]
  simp [h]

/-- an `onLeaf` action that returns files equal to the old ones up to access times -/
theorem onLeaf_same {α} (j : Nat) (kind : LeafKind) (m0 : FMap) (f : Leaf → Res α × FMap)
    (hf : ∀ l k, ((f l).2.find? k).map stripAcc = (l.files.find? k).map stripAcc) :
    Preserves (SameLeaf j kind m0) (onLeaf j f) := by
  refine ⟨fun w ⟨l, h1, h2, h3⟩ => ?_⟩
  unfold onLeaf
  rw [h1]
  refine ⟨{ l with files := (f l).2 }, World.setLeafFiles_same w j l _ h1, h2, ?_⟩
  intro k
  rw [← h3 k]
  exact hf l k

theorem Mem.setAccessed_same (m : FMap) (p : Str) (t : TS) (k : Str) :
    ((Mem.setAccessed m p t).2.find? k).map stripAcc = (m.find? k).map stripAcc := by
  unfold Mem.setAccessed
  cases h : m.find? p with
  | none => rfl
  | some e =>
    dsimp only
    rw [FMap.find?_insert]
    split
    · rename_i hk; subst hk; simp [h, stripAcc]
    · rfl

theorem Mem.openFile_same (m : FMap) (p : Str) (k : Str) :
    ((Mem.openFile m p).2.find? k).map stripAcc = (m.find? k).map stripAcc := by
  have := Mem.setAccessed_same m p .now k
  unfold Mem.openFile
  cases hs : Mem.setAccessed m p .now with
  | mk r m' =>
    rw [hs] at this
    cases r with
    | ok _ =>
      dsimp only
      split
      · exact this
      · split <;> exact this
    | err _ _ => exact this
    | panic => exact this

/-- the observers of a leaf keep that leaf's entries, up to access times -/
theorem leafFS_obs_same (j : Nat) (kind : LeafKind) (m0 : FMap) :
    (leafFS j).ObsPreserve (SameLeaf j kind m0) where
  readDir p := by
    apply onLeaf_same
    intro l k
    cases l.kind <;> rfl
  openFile p := by
    apply onLeaf_same
    intro l k
    cases l.kind
    · exact Mem.openFile_same l.files p k
    · rfl
  metadata p := by
    apply onLeaf_same
    intro l k
    cases l.kind <;> rfl
  exists_ p := by
    apply onLeaf_same
    intro l k
    cases l.kind <;> rfl

end Vfs
