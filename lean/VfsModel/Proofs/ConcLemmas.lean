/-
  Helper lemmas about the concurrency model VfsModel/Conc.lean (used by Props/C16, Props/C17):
  * `regionFiles` — the map after one lock region, as an explicit function of the program point;
  * `Mem.createDir` / `Mem.createFile` keep the invariant `WF` on EVERY path (the parent check
    is made inside the region), `region_wf`;
  * bookkeeping of `step` / `run` on the thread list.
-/
import VfsModel.Conc
import VfsModel.Proofs.MemPath
namespace Vfs.Conc
open Vfs

/-! ### the map after one region -/

/-- the shared map after the region at program point `pt` has run on `m` -/
def regionFiles (m : FMap) : Pt → FMap
  | .cdCreate p => (Mem.createDir m p).2
  | .cfCreate p _ => (Mem.createFile m p).2
  | .flush h => memPublish m h.key h.buf
  | .rmFile p => (Mem.removeFile m p).2
  | .rmDir p => (Mem.removeDir m p).2
  | .obsOpen p => (Mem.openFile m p).2
  | .cdaLoop (d :: _) => (Mem.createDir m d).2
  | _ => m

theorem region_files (m : FMap) (pt : Pt) : (region m pt).files = regionFiles m pt := by
  cases pt with
  | cdaLoop l =>
    cases l with
    | nil => rfl
    | cons d rest => simp only [region, regionFiles]; split <;> simp_all
  | gpExists p f s => simp only [region, regionFiles]; split <;> rfl
  | gpMeta p f s =>
    simp only [region, regionFiles]
    split
    · split <;> rfl
    · rfl
  | cfCreate p s =>
    simp only [region, regionFiles]
    split
    · split <;> simp_all
    · simp_all
  | apOpen p s =>
    simp only [region, regionFiles]
    split
    · split <;> rfl
    · rfl
  | obsMeta p => simp only [region, regionFiles]; split <;> rfl
  | obsReadDir p => simp only [region, regionFiles]; split <;> rfl
  | flush h => rfl
  | obsExists p => rfl
  | cdCreate p => simp only [region, regionFiles]; split <;> simp_all
  | rmFile p => simp only [region, regionFiles]; split <;> simp_all
  | rmDir p => simp only [region, regionFiles]; split <;> simp_all
  | obsOpen p => simp only [region, regionFiles]; split <;> simp_all

/-! ### `create_dir` / `create_file` check the parent inside the region -/

theorem ensureHasParent_spec (m : FMap) (p : Str) (u : Unit) (h : Mem.ensureHasParent m p = .ok u) :
    '/' ∈ p ∧ ∃ pe, m.find? (parentInternal p) = some pe ∧ pe.ftype = .dir := by
  unfold Mem.ensureHasParent at h
  split at h
  · rename_i hs
    refine ⟨hs, ?_⟩
    split at h
    · rename_i e he
      split at h
      · rename_i hd; exact ⟨e, he, hd⟩
      · simp [fail] at h
    · simp [fail] at h
  · simp [fail] at h

theorem ensureHasParent_no_panic (m : FMap) (p : Str) : Mem.ensureHasParent m p ≠ .panic := by
  unfold Mem.ensureHasParent
  split
  · split
    · split <;> simp [fail]
    · simp [fail]
  · simp [fail]

/-- `MemoryFS::create_dir` keeps the tree well-formed on EVERY path: the parent is checked to be
a directory under the same lock as the insertion -/
theorem _root_.Vfs.WF.createDir_any {m : FMap} (h : WF m) (p : Str) : WF (Mem.createDir m p).2 := by
  unfold Mem.createDir
  split
  · rename_i u hen
    obtain ⟨hs, pe, hpe, hpd⟩ := ensureHasParent_spec m p u hen
    split
    · exact h
    · exact h.insert_dir p dirEntryNow rfl hs pe hpe hpd
  · exact h
  · exact h

/-- `MemoryFS::create_file` keeps the tree well-formed on EVERY path -/
theorem _root_.Vfs.WF.createFile_any {m : FMap} (h : WF m) (p : Str) : WF (Mem.createFile m p).2 := by
  unfold Mem.createFile
  split
  · rename_i u hen
    obtain ⟨hs, pe, hpe, hpd⟩ := ensureHasParent_spec m p u hen
    split
    · rename_i e he
      split
      · exact h
      · rename_i hnd
        have hfile : e.ftype = .file := by cases hft : e.ftype <;> simp_all
        apply h.insert_leaf
        · intro e' he'; rw [he] at he'; injection he' with he'; subst he'; exact hfile
        · intro hn; rw [hn] at he; cases he
    · rename_i he
      apply h.insert_leaf
      · intro e' he'; rw [he] at he'; cases he'
      · intro _; exact ⟨rfl, hs, pe, hpe, hpd⟩
  · exact h
  · exact h

theorem _root_.Vfs.WF.removeFile_any {m : FMap} (h : WF m) (p : Str) : WF (Mem.removeFile m p).2 :=
  h.pRemoveFile p

theorem _root_.Vfs.WF.removeDir_nonroot {m : FMap} (h : WF m) (p : Str) (hp : p ≠ []) :
    WF (Mem.removeDir m p).2 :=
  h.pRemoveDir p hp

/-- program points other than "remove_dir of the root" -/
def PtOk : Pt → Prop
  | .rmDir p => p ≠ []
  | _ => True

/-- every region keeps the tree well-formed (removal of the root itself aside) -/
theorem region_wf {m : FMap} (h : WF m) (pt : Pt) (hpt : PtOk pt) : WF (region m pt).files := by
  rw [region_files]
  cases pt with
  | cdaLoop l =>
    cases l with
    | nil => exact h
    | cons d rest => exact h.createDir_any d
  | cdCreate p => exact h.createDir_any p
  | cfCreate p s => exact h.createFile_any p
  | flush wh => exact h.memPublish_any wh.key wh.buf
  | rmFile p => exact h.removeFile_any p
  | rmDir p => exact h.removeDir_nonroot p hpt
  | obsOpen p => exact h.openFile p
  | gpExists p f s => exact h
  | gpMeta p f s => exact h
  | apOpen p s => exact h
  | obsExists p => exact h
  | obsMeta p => exact h
  | obsReadDir p => exact h

/-! ### `stepThread`, `step`, `run` -/

/-- install the handle slot written by a region -/
def withHandle (t : Thread) : Option (Option WH) → Thread
  | some h => { t with handle := h }
  | none => t

@[simp] theorem withHandle_calls (t : Thread) (h) : (withHandle t h).calls = t.calls := by
  cases h <;> rfl
@[simp] theorem withHandle_cur (t : Thread) (h) : (withHandle t h).cur = t.cur := by
  cases h <;> rfl
@[simp] theorem withHandle_results (t : Thread) (h) : (withHandle t h).results = t.results := by
  cases h <;> rfl
@[simp] theorem withHandle_labels (t : Thread) (h) : (withHandle t h).labels = t.labels := by
  cases h <;> rfl

/-- the thread after its region at `pt` has run, before the outcome is looked at -/
def afterRegion (m : FMap) (t0 : Thread) (pt : Pt) : Thread :=
  withHandle { t0 with labels := t0.labels ++ [pt.label] } (region m pt).handle

@[simp] theorem afterRegion_calls (m t0 pt) : (afterRegion m t0 pt).calls = t0.calls := by
  simp [afterRegion]
@[simp] theorem afterRegion_results (m t0 pt) : (afterRegion m t0 pt).results = t0.results := by
  simp [afterRegion]

theorem stepThread_idle (m : FMap) (t : Thread)
    (h : (settle (t.calls.length + 1) t).cur = none) :
    stepThread m t = (m, settle (t.calls.length + 1) t) := by
  unfold stepThread
  simp only [h]

theorem stepThread_inl (m : FMap) (t : Thread) (pt pt' : Pt)
    (h : (settle (t.calls.length + 1) t).cur = some pt) (hn : (region m pt).next = .inl pt') :
    stepThread m t = ((region m pt).files,
      { afterRegion m (settle (t.calls.length + 1) t) pt with cur := some pt' }) := by
  unfold stepThread
  simp only [h, hn, afterRegion]
  cases (region m pt).handle <;> rfl

theorem stepThread_inr (m : FMap) (t : Thread) (pt : Pt) (r : CRes)
    (h : (settle (t.calls.length + 1) t).cur = some pt) (hn : (region m pt).next = .inr r) :
    stepThread m t = ((region m pt).files,
      settle ((afterRegion m (settle (t.calls.length + 1) t) pt).calls.length + 1)
        { afterRegion m (settle (t.calls.length + 1) t) pt with
          cur := none
          results := (afterRegion m (settle (t.calls.length + 1) t) pt).results ++ [r] }) := by
  unfold stepThread
  simp only [h, hn, afterRegion]
  cases (region m pt).handle <;> rfl

/-- the three ways a scheduled thread can move: nothing left to do; a region that continues the
call; a region that completes the call (then the thread is brought to its next acquisition) -/
theorem stepThread_cases (m : FMap) (t : Thread) :
    ((settle (t.calls.length + 1) t).cur = none ∧
      stepThread m t = (m, settle (t.calls.length + 1) t)) ∨
    (∃ pt, (settle (t.calls.length + 1) t).cur = some pt ∧
      ((∃ pt', (region m pt).next = .inl pt' ∧
          stepThread m t = ((region m pt).files,
            { afterRegion m (settle (t.calls.length + 1) t) pt with cur := some pt' })) ∨
       (∃ r, (region m pt).next = .inr r ∧
          stepThread m t = ((region m pt).files,
            settle ((afterRegion m (settle (t.calls.length + 1) t) pt).calls.length + 1)
              { afterRegion m (settle (t.calls.length + 1) t) pt with
                cur := none
                results := (afterRegion m (settle (t.calls.length + 1) t) pt).results ++ [r] })))) := by
  cases hc : (settle (t.calls.length + 1) t).cur with
  | none => left; exact ⟨rfl, stepThread_idle m t hc⟩
  | some pt =>
    right
    refine ⟨pt, rfl, ?_⟩
    cases hn : (region m pt).next with
    | inl pt' => left; exact ⟨pt', rfl, stepThread_inl m t pt pt' hc hn⟩
    | inr r => right; exact ⟨r, rfl, stepThread_inr m t pt r hc hn⟩

/-! ### `callAtomic` one region at a time; the parent probe of `get_parent` -/

/-- the handle slot after a region -/
def newHandle (h : Option WH) : Option (Option WH) → Option WH
  | some x => x
  | none => h

theorem withHandle_handle (t : Thread) (o : Option (Option WH)) :
    (withHandle t o).handle = newHandle t.handle o := by
  cases o <;> rfl

theorem afterRegion_handle (m : FMap) (t0 : Thread) (pt : Pt) :
    (afterRegion m t0 pt).handle = newHandle t0.handle (region m pt).handle := by
  simp [afterRegion, withHandle_handle]

theorem go_inr (fuel : Nat) (m : FMap) (h : Option WH) (pt : Pt) (r : CRes)
    (hn : (region m pt).next = .inr r) :
    callAtomic.go (fuel + 1) m h pt =
      ((region m pt).files, newHandle h (region m pt).handle, r) := by
  simp only [callAtomic.go, hn, newHandle]
  cases (region m pt).handle <;> rfl

theorem go_inl (fuel : Nat) (m : FMap) (h : Option WH) (pt pt' : Pt)
    (hn : (region m pt).next = .inl pt') :
    callAtomic.go (fuel + 1) m h pt =
      callAtomic.go fuel (region m pt).files (newHandle h (region m pt).handle) pt' := by
  simp only [callAtomic.go, hn, newHandle]
  cases (region m pt).handle <;> rfl

theorem callAtomic_inl (fuel : Nat) (m : FMap) (h : Option WH) (c : COp) (pt : Pt)
    (hs : start h c = .inl pt) : callAtomic fuel m h c = callAtomic.go fuel m h pt := by
  simp only [callAtomic, hs]

theorem callAtomic_inr (fuel : Nat) (m : FMap) (h : Option WH) (c : COp) (r : CRes)
    (hs : start h c = .inr r) : callAtomic fuel m h c = (m, h, r) := by
  simp only [callAtomic, hs]

/-- a `Res Unit` as a call result -/
def toC : Res Unit → CRes
  | .ok _ => .ok .unit
  | _ => .err

/-- the parent of `p` is an existing directory: what `get_parent` probes in two regions and
`ensure_has_parent` checks again inside the region of the update -/
def ParentDir (m : FMap) (p : Str) : Prop :=
  ∃ pe, m.find? (parentInternal p) = some pe ∧ pe.ftype = .dir

theorem region_cdCreate (m : FMap) (p : Str) :
    region m (.cdCreate p) =
      { files := (Mem.createDir m p).2, next := .inr (toC (Mem.createDir m p).1) } := by
  cases hc : Mem.createDir m p with
  | mk r m' => cases r <;> simp [region, hc, toC, okUnit]

/-- the handle slot written by `create_file`: a fresh write handle on success -/
def cfHandle (p : Str) : Res Unit → Option (Option WH)
  | .ok _ => some (some { key := p, buf := [], pos := 0 })
  | _ => none

theorem region_cfCreate_none (m : FMap) (p : Str) :
    region m (.cfCreate p none) =
      { files := (Mem.createFile m p).2, next := .inr (toC (Mem.createFile m p).1),
        handle := cfHandle p (Mem.createFile m p).1 } := by
  cases hc : Mem.createFile m p with
  | mk r m' => cases r <;> simp [region, hc, toC, okUnit, cfHandle]

theorem createDir_noparent (m : FMap) (p : Str) (h : ¬ ParentDir m p) :
    Mem.createDir m p = ((Mem.createDir m p).1, m) ∧ toC (Mem.createDir m p).1 = .err := by
  unfold Mem.createDir
  split
  · rename_i u hen
    exact absurd (ensureHasParent_spec m p u hen).2 h
  · exact ⟨rfl, rfl⟩
  · exact ⟨rfl, rfl⟩

theorem createFile_noparent (m : FMap) (p : Str) (h : ¬ ParentDir m p) :
    Mem.createFile m p = ((Mem.createFile m p).1, m) ∧ toC (Mem.createFile m p).1 = .err ∧
      cfHandle p (Mem.createFile m p).1 = none := by
  unfold Mem.createFile
  split
  · rename_i u hen
    exact absurd (ensureHasParent_spec m p u hen).2 h
  · exact ⟨rfl, rfl, rfl⟩
  · exact ⟨rfl, rfl, rfl⟩

/-- the parent is a directory: both probes of `get_parent` pass, nothing changes -/
theorem gp_ok (m : FMap) (p : Str) (f : Bool) (s : Option Bytes) (h : ParentDir m p) :
    region m (.gpExists p f s) = { files := m, next := .inl (.gpMeta p f s) } ∧
    region m (.gpMeta p f s) =
      { files := m, next := .inl (if f then .cfCreate p s else .cdCreate p) } := by
  obtain ⟨pe, hpe, hpd⟩ := h
  simp [region, FMap.contains, hpe, Mem.metadata, Entry.meta, hpd]

/-- the parent is not a directory: the second probe fails (the first one fails if the parent
does not exist at all), nothing changes -/
theorem gp_fail (m : FMap) (p : Str) (f : Bool) (s : Option Bytes) (h : ¬ ParentDir m p) :
    (region m (.gpExists p f s) = { files := m, next := .inr .err } ∨
     region m (.gpExists p f s) = { files := m, next := .inl (.gpMeta p f s) }) ∧
    region m (.gpMeta p f s) = { files := m, next := .inr .err } := by
  cases hf : m.find? (parentInternal p) with
  | none => simp [region, FMap.contains, hf, Mem.metadata, fail]
  | some e =>
    have : ¬ e.ftype = .dir := fun hd => h ⟨e, hf, hd⟩
    simp [region, FMap.contains, hf, Mem.metadata, Entry.meta, this]

theorem atomic_gp_ok (n : Nat) (m : FMap) (h : Option WH) (p : Str) (f : Bool) (s : Option Bytes)
    (hp : ParentDir m p) :
    callAtomic.go (n + 2) m h (.gpExists p f s) =
      callAtomic.go n m h (if f then .cfCreate p s else .cdCreate p) := by
  obtain ⟨h1, h2⟩ := gp_ok m p f s hp
  rw [go_inl (n + 1) m h _ (.gpMeta p f s) (by rw [h1]), h1]
  simp only [newHandle]
  rw [go_inl n m h _ _ (by rw [h2]), h2]
  simp only [newHandle]

theorem atomic_gp_fail (n : Nat) (m : FMap) (h : Option WH) (p : Str) (f : Bool) (s : Option Bytes)
    (hp : ¬ ParentDir m p) :
    callAtomic.go (n + 2) m h (.gpExists p f s) = (m, h, .err) ∧
    callAtomic.go (n + 1) m h (.gpMeta p f s) = (m, h, .err) := by
  obtain ⟨h1, h2⟩ := gp_fail m p f s hp
  have hmeta : ∀ k, callAtomic.go (k + 1) m h (.gpMeta p f s) = (m, h, .err) := by
    intro k
    rw [go_inr k m h _ .err (by rw [h2]), h2]
    simp only [newHandle]
  refine ⟨?_, hmeta n⟩
  rcases h1 with h1 | h1
  · rw [go_inr (n + 1) m h _ .err (by rw [h1]), h1]
    simp only [newHandle]
  · rw [go_inl (n + 1) m h _ (.gpMeta p f s) (by rw [h1]), h1]
    simp only [newHandle]
    exact hmeta n

theorem step_of_none (s : Sys) (tid : Nat) (h : s.threads[tid]? = none) : step s tid = s := by
  simp [step, h]

theorem step_of_some (s : Sys) (tid : Nat) (t : Thread) (h : s.threads[tid]? = some t) :
    step s tid = { files := (stepThread s.files t).1,
                   threads := s.threads.set tid (stepThread s.files t).2 } := by
  simp [step, h]

@[simp] theorem run_nil (s : Sys) : run s [] = s := rfl
@[simp] theorem run_cons (s : Sys) (tid : Nat) (rest : List Nat) :
    run s (tid :: rest) = run (step s tid) rest := rfl
theorem run_append (s : Sys) (a b : List Nat) : run s (a ++ b) = run (run s a) b := by
  simp [run, List.foldl_append]

/-- an invariant of `step` is an invariant of `run` -/
theorem run_invariant (P : Sys → Prop) (hstep : ∀ s tid, P s → P (step s tid)) (s : Sys)
    (h : P s) (schedule : List Nat) : P (run s schedule) := by
  induction schedule generalizing s with
  | nil => exact h
  | cons tid rest ih => exact ih (step s tid) (hstep s tid h)

end Vfs.Conc
