/-
  Lemmas for Props/C17AltrootConc.lean: `create_dir_all` on a path of an `AltrootFS` whose root is
  a directory `/p1/…/pn` of ONE in-memory filesystem, as a small-step program of
  VfsModel/OverlayConc.lean, and ONE thread of it under interference.

  * `altMk root d` = `AltrootFS::create_dir(d)` (`self.path(d)?.create_dir()`, Adapters.lean
    `Altroot.fs root |>.createDir`) written in `Prog`; `altCreateDirAll root p` =
    `VfsPath::create_dir_all` over it (`cdaWith`); `run_altMk`, `run_altCreateDirAll`: all calls one
    after the other are the shallow definitions (arbitrary `root`, no hypothesis);
  * `ReqA ps paths k`: `k` is the leaf key `/p1/…/pn/c1/…/cj` (j ≥ 1) of a non-empty prefix of a
    requested path; `GrowA ps paths mu mu'` (rely = guarantee of every thread): every entry of the
    leaf's map persists unchanged, new entries are directories at `ReqA` keys, well-formedness
    (`WF`) is kept.  Reflexive, transitive, established by `MemoryFS::create_dir` at a `ReqA` key;
  * `GIA`: no file at a `ReqA` key (stable);
  * `sp_vCreateDirA`, `sp_altLoop`, `sp_altCreateDirAll`: the thread specification in the
    rely-guarantee calculus `WP` of Proofs/OverlayConcCalc.lean (instantiated with no lower layers).
  Nothing here is about more than one leaf; no `sorry`, no axioms beyond the three standard ones.
-/
import VfsModel.Proofs.OverlayConcThread
set_option linter.unusedVariables false
set_option linter.unusedSimpArgs false
namespace Vfs.AConc
open Vfs Vfs.OConc Vfs.OConc.Prog

/-! ### the programs -/

/-- `AltrootFS::create_dir(d)`: `self.path(d)?.create_dir()` (altroot.rs; Adapters.lean
`(Altroot.fs root).createDir`), the inner `VfsPath::create_dir` in small steps -/
def altMk (root : VPath) (d : Str) : Prog Unit := do
  let q ← Prog.ret (Altroot.path root d)
  vCreateDir q

/-- `VfsPath::create_dir_all` on the path `p` of `AltrootFS::new(root)` -/
def altCreateDirAll (root : VPath) (p : Str) : Prog Unit := cdaWith (altMk root) p

theorem run_altMk (root : VPath) (d : Str) :
    (altMk root d).run = (Altroot.fs root).createDir d := by
  unfold altMk
  rw [Prog.run_bind, Prog.run_ret]
  show _ = (M.ret (Altroot.path root d) >>= fun q => q.createDir)
  exact mbind_congr _ fun q => run_vCreateDir q

/-- all calls of the small-step program one after the other = the shallow `create_dir_all` on the
altroot path; arbitrary root, every path string -/
theorem run_altCreateDirAll (root : VPath) (id : Nat) (p : Str) :
    (altCreateDirAll root p).run
      = VPath.createDirAll { fs := Altroot.fs root, fsId := id, path := p } :=
  run_cdaWith (altMk root) { fs := Altroot.fs root, fsId := id, path := p }
    (fun d => run_altMk root d)

/-- the system whose thread `i` calls `create_dir_all(paths[i])` on the altroot -/
def altInitSys (root : VPath) (w : World) (paths : List Str) : Sys :=
  { world := w, threads := paths.map (altCreateDirAll root) }

/-! ### how the leaf's map evolves -/

/-- `k` is the leaf key of a non-empty prefix of a requested path -/
def ReqA (ps : List Str) (paths : List (List Str)) (k : Str) : Prop :=
  ∃ cs ∈ paths, ∃ j, 1 ≤ j ∧ j ≤ cs.length ∧ k = renderC (ps ++ cs.take j)

/-- entries persist unchanged; new entries are directories at requested prefixes below the root;
well-formedness is kept -/
structure GrowA (ps : List Str) (paths : List (List Str)) (mu mu' : FMap) : Prop where
  keeps : ∀ k e, mu.find? k = some e → mu'.find? k = some e
  news : ∀ k e, mu'.find? k = some e → mu.find? k = some e ∨ (e.ftype = .dir ∧ ReqA ps paths k)
  wf : WF mu → WF mu'

section grow
variable {ps : List Str} {paths : List (List Str)}

theorem GrowA.refl (mu : FMap) : GrowA ps paths mu mu :=
  ⟨fun _ _ h => h, fun _ _ h => Or.inl h, id⟩

theorem GrowA.trans {a b c : FMap} (h1 : GrowA ps paths a b) (h2 : GrowA ps paths b c) :
    GrowA ps paths a c := by
  refine ⟨fun k e he => h2.keeps k e (h1.keeps k e he), ?_, fun h => h2.wf (h1.wf h)⟩
  intro k e he
  rcases h2.news k e he with hb | hb
  · exact h1.news k e hb
  · exact Or.inr hb

theorem gR : ∀ m, GrowA ps paths m m := GrowA.refl
theorem gT : ∀ a b c, GrowA ps paths a b → GrowA ps paths b c → GrowA ps paths a c :=
  fun _ _ _ => GrowA.trans

theorem _root_.Vfs.OConc.IsDirU.grow {k : Str} {mu mu' : FMap} (hd : IsDirU mu k) (h : GrowA ps paths mu mu') :
    IsDirU mu' k := by
  obtain ⟨e, he, hd⟩ := hd
  exact ⟨e, h.keeps k e he, hd⟩

theorem wf_createDirA {m : FMap} (h : WF m) (d : Str) : WF (Mem.createDir m d).2 := by
  unfold Mem.createDir
  cases hen : Mem.ensureHasParent m d with
  | ok u =>
    have hs := Mem.ensureHasParent_ok m d hen
    unfold Mem.ensureHasParent at hen
    rw [if_pos hs] at hen
    dsimp only
    split
    · exact h
    · cases hpar : m.find? (parentInternal d) with
      | none => rw [hpar] at hen; simp [fail] at hen
      | some pe =>
        rw [hpar] at hen
        by_cases hpd : pe.ftype = .dir
        · exact h.insert_dir d dirEntryNow rfl hs pe hpar hpd
        · simp [hpd, fail] at hen
  | err k pth => exact h
  | panic => exact h

/-- `MemoryFS::create_dir` at a requested key is a `GrowA` step, whatever it answers -/
theorem growA_createDir (mu : FMap) {q : Str} (hq : ReqA ps paths q) :
    GrowA ps paths mu (Mem.createDir mu q).2 := by
  refine ⟨?_, ?_, fun h => wf_createDirA h q⟩
  · intro k e hk
    unfold Mem.createDir
    split
    · split
      · exact hk
      · rename_i hnone
        rw [FMap.find?_insert]
        split
        · rename_i hkq; rw [hkq, hnone] at hk; cases hk
        · exact hk
    · exact hk
    · exact hk
  · intro k e hk
    unfold Mem.createDir at hk
    split at hk
    · split at hk
      · exact Or.inl hk
      · rw [FMap.find?_insert] at hk
        split at hk
        · rename_i hkq
          injection hk with hk
          subst hk; subst hkq
          exact Or.inr ⟨rfl, hq⟩
        · exact Or.inl hk
    · exact Or.inl hk
    · exact Or.inl hk

/-- no file sits at a requested key -/
def GIA (ps : List Str) (paths : List (List Str)) (mu : FMap) : Prop :=
  ∀ q, ReqA ps paths q → ∀ e, mu.find? q = some e → e.ftype = .dir

theorem GIA.grow {mu mu' : FMap} (g : GIA ps paths mu) (h : GrowA ps paths mu mu') :
    GIA ps paths mu' := by
  intro q hq e he
  rcases h.news q e he with h0 | ⟨hd, _⟩
  · exact g q hq e h0
  · exact hd

end grow

/-! ### one thread under interference -/

section thread
variable {u idu : Nat} {ps : List Str} {paths : List (List Str)}

/-- `WP` of Proofs/OverlayConcCalc.lean for ONE memory leaf (no lower layers) and `GrowA` -/
abbrev WA (u idu : Nat) (ps : List Str) (paths : List (List Str)) {α}
    (t : Prog α) (Q : Res α → FMap → Prop) (mu : FMap) : Prop :=
  WP u idu [] [] [] (GrowA ps paths) t Q mu

/-- **`VfsPath::create_dir` on the leaf key `/ds/n`, under interference**: when `/ds` is a
directory of the leaf and no file sits at `/ds/n`, the three calls (`exists(parent)`,
`metadata(parent)`, `create_dir`) end with `Ok` or `DirectoryExists`, and from then on `/ds/n` is a
directory -/
theorem sp_vCreateDirA (id : Nat) (ds : List Str) (n : Str) (hds : ∀ c ∈ ds, GoodComp c)
    (hn : GoodComp n) (hq : ReqA ps paths (renderC (ds ++ [n]))) (mu : FMap)
    (g : GIA ps paths mu) (hd : IsDirU mu (renderC ds)) :
    WA u idu ps paths (vCreateDir { fs := leafFS u, fsId := id, path := renderC (ds ++ [n]) })
      (fun r mu' => (r = .ok () ∨ r = .err .dirExists (some (renderC (ds ++ [n])))) ∧
        IsDirU mu' (renderC (ds ++ [n]))) mu := by
  have hpi := parent_snoc ds n hds hn
  unfold vCreateDir vGetParent
  simp only [VPath.parent, VPath.withStr, hpi]
  rw [Prog.bind_def, Prog.bind_def]
  show WA u idu ps paths (((vExists _).bindR _).bindR _) _ _
  refine WP_exists_u gR _ _ _ _ (fun mu1 h1 => ?_)
  obtain ⟨e1, he1, _⟩ := hd.grow h1
  rw [contains_of_find he1]
  simp only [Prog.bindR, Prog.lift, Bool.not_true, Bool.false_eq_true, ↓reduceIte]
  show WA u idu ps paths (Prog.metadata _ _ _) _ _
  refine WP_metadata_u gR _ _ _ _ (fun mu2 h2 => ?_)
  have hd2 := (hd.grow h1).grow h2
  obtain ⟨e2, he2, hdd2⟩ := hd2
  have hmd : Mem.metadata mu2 (renderC ds) = .ok e2.meta := by simp [Mem.metadata, he2]
  rw [hmd]
  simp only [Prog.bindR, Prog.lift, Res.withPath, Entry.meta, hdd2, ne_eq, not_true_eq_false,
    ↓reduceIte]
  show WA u idu ps paths (Prog.createDir _ _ _) _ _
  refine WP_createDir_u _ _ _ _ (fun mu3 h3 => ?_)
  have g3 := ((g.grow h1).grow h2).grow h3
  have hd3 : IsDirU mu3 (renderC ds) := IsDirU.grow ⟨e2, he2, hdd2⟩ h3
  obtain ⟨hres, hnow⟩ := createDir_spec mu3 (renderC (ds ++ [n])) (slash_mem_renderC (by simp))
    (by rw [hpi]; exact hd3) (g3 _ hq)
  refine ⟨growA_createDir mu3 hq, ?_⟩
  refine WP_done _ _ _ (fun mu4 h4 => ⟨?_, hnow.grow h4⟩)
  rcases hres with hres | hres <;> rw [hres] <;> simp [Res.withPath]

variable (idr : Nat) (hps : ∀ c ∈ ps, GoodComp c)
  (hpaths : ∀ cs ∈ paths, ∀ c ∈ cs, GoodComp c)

/-- the prefixes of `cs` up to length `k` (the root itself for 0) are directories of the leaf -/
def DirUpTo (ps cs : List Str) (k : Nat) (mu : FMap) : Prop :=
  ∀ j, j ≤ k → IsDirU mu (renderC (ps ++ cs.take j))

theorem DirUpTo.grow {cs : List Str} {k : Nat} {mu mu' : FMap} (h : DirUpTo ps cs k mu)
    (he : GrowA ps paths mu mu') : DirUpTo ps cs k mu' :=
  fun j hj => (h j hj).grow he

include hps hpaths in
/-- `AltrootFS::create_dir` on the next prefix of a requested path is `VfsPath::create_dir` on the
leaf key below the root -/
theorem altMk_prefix (cs : List Str) (hcs : cs ∈ paths) (k : Nat) (hlt : k < cs.length) :
    altMk { fs := leafFS u, fsId := idr, path := renderC ps } (renderC (cs.take k ++ [cs[k]]))
      = vCreateDir { fs := leafFS u, fsId := idr, path := renderC ((ps ++ cs.take k) ++ [cs[k]]) } := by
  have hgood := hpaths cs hcs
  have hg' : ∀ c ∈ cs.take k ++ [cs[k]], GoodComp c :=
    good_snoc (fun c hc => hgood c (List.mem_of_mem_take hc)) (hgood _ (List.getElem_mem hlt))
  unfold altMk
  rw [Altroot.path_renderC _ ps _ rfl hps hg', OConc.ret_ok_bind]
  simp only [VPath.withStr, List.append_assoc]

include hps hpaths in
/-- the loop of `create_dir_all` over the prefixes `k+1 …` of a requested path -/
theorem sp_altLoop (cs : List Str) (hcs : cs ∈ paths) : ∀ (n k : Nat) (mu : FMap),
    cs.length - k = n → k ≤ cs.length → GIA ps paths mu → DirUpTo ps cs k mu →
    WA u idu ps paths
      (cdaLoop (altMk { fs := leafFS u, fsId := idr, path := renderC ps })
        (chain (cs.take k) (cs.drop k)))
      (fun r mu' => r = .ok () ∧ DirUpTo ps cs cs.length mu') mu := by
  intro n
  induction n with
  | zero =>
    intro k mu hn hk g hv
    have hkl : k = cs.length := by omega
    subst hkl
    simp only [List.drop_length, chain, cdaLoop]
    exact WP_done _ _ _ (fun mu1 h1 => ⟨rfl, hv.grow h1⟩)
  | succ n ih =>
    intro k mu hn hk g hv
    have hlt : k < cs.length := by omega
    have hgood := hpaths cs hcs
    rw [List.drop_eq_getElem_cons hlt]
    simp only [chain, cdaLoop]
    have htk := take_succ_snoc' cs k hlt
    rw [altMk_prefix idr hps hpaths cs hcs k hlt]
    have hq : ReqA ps paths (renderC ((ps ++ cs.take k) ++ [cs[k]])) :=
      ⟨cs, hcs, k + 1, by omega, by omega, by rw [htk, List.append_assoc]⟩
    have hdsg : ∀ c ∈ ps ++ cs.take k, GoodComp c :=
      good_append hps (fun c hc => hgood c (List.mem_of_mem_take hc))
    refine WP_bindR gR gT _ _ _ _ _
      (sp_vCreateDirA idr (ps ++ cs.take k) cs[k] hdsg (hgood _ (List.getElem_mem hlt)) hq mu g
        (hv k (Nat.le_refl _))) ?_
    rintro r mu1 h1 ⟨hr, hnow⟩
    have hnext : WA u idu ps paths
        (cdaLoop (altMk { fs := leafFS u, fsId := idr, path := renderC ps })
          (chain (cs.take k ++ [cs[k]]) (cs.drop (k + 1))))
        (fun r mu' => r = .ok () ∧ DirUpTo ps cs cs.length mu') mu1 := by
      rw [← htk]
      refine ih (k + 1) mu1 (by omega) (by omega) (g.grow h1) ?_
      intro j hj
      by_cases hjk : j ≤ k
      · exact (hv j hjk).grow h1
      · have : j = k + 1 := by omega
        subst this
        rw [htk, ← List.append_assoc]; exact hnow
    rcases hr with rfl | rfl
    · exact hnext
    · exact hnext

include hps hpaths in
/-- **one thread under interference**: `create_dir_all(p)` on the altroot, `p` a requested path,
started where the root is a directory and no file sits at a requested key, with all threads
changing the leaf only by `GrowA`: returns `Ok`, and from then on the root and every prefix of
`p` below it is a directory of the leaf -/
theorem sp_altCreateDirAll (cs : List Str) (hcs : cs ∈ paths) (mu : FMap) (g : GIA ps paths mu)
    (hroot : IsDirU mu (renderC ps)) :
    WA u idu ps paths
      (altCreateDirAll { fs := leafFS u, fsId := idr, path := renderC ps } (renderC cs))
      (fun r mu' => r = .ok () ∧ DirUpTo ps cs cs.length mu') mu := by
  have h0 : DirUpTo ps cs 0 mu := by
    intro j hj
    have : j = 0 := by omega
    subst this
    simpa using hroot
  unfold altCreateDirAll cdaWith
  by_cases hne : cs = []
  · subst hne
    simp only [renderC_nil, ↓reduceIte]
    exact WP_done _ _ _ (fun mu1 h1 => ⟨rfl, h0.grow h1⟩)
  · rw [if_neg (renderC_ne_nil hne), dirPrefixes_renderC cs (good_noSlash (hpaths cs hcs))]
    have := sp_altLoop (u := u) (idu := idu) idr hps hpaths cs hcs cs.length 0 mu (by omega)
      (by omega) g h0
    simpa using this

end thread
end Vfs.AConc
