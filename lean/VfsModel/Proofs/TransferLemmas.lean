/-
  Helpers for property C11 (create_dir_all / remove_dir_all / copy_* / move_*):
  * generic unfolding lemmas of the `VfsPath` layer over ARBITRARY filesystems (existing
    destination refused, absent path removed, the generic read/write route when the fast path is
    not taken),
  * where the '/' are in a rendered component list (`dirPrefixes (renderC cs)`),
  * the pure loop of `create_dir_all` on a memory map and its exact effect,
  * the generic route of copy_file / move_file on memory leaves (same leaf or two leaves),
  * the fast path on a physical leaf (`Phys.copyFile`, `Phys.rename` of a file),
  * `remove_dir_all` on a memory leaf: exactly the subtree goes,
  * copy_dir / move_dir of an empty directory.
-/
import VfsModel.Proofs.MemRun
import VfsModel.Proofs.PhysPath
namespace Vfs

/-! ### 1. generic: the existence probe comes first -/

section generic
variable (src dst : VPath) (w : World)

theorem copyFile_refused (h : dst.exists_ w = (.ok true, w)) :
    src.copyFile dst w = (.err .other (some src.path), w) := by
  unfold VPath.copyFile
  simp [M.withPath, bind, M.bind, h, M.failAt, Res.withPath]

theorem moveFile_refused (h : dst.exists_ w = (.ok true, w)) :
    src.moveFile dst w = (.err .other (some src.path), w) := by
  unfold VPath.moveFile
  simp [M.withPath, bind, M.bind, h, M.failAt, Res.withPath]

theorem copyDir_refused (fuel : Nat) (h : dst.exists_ w = (.ok true, w)) :
    src.copyDir fuel dst w = (.err .other (some src.path), w) := by
  unfold VPath.copyDir
  simp [M.withPath, bind, M.bind, h, M.failAt, Res.withPath]

theorem moveDir_refused (fuel : Nat) (h : dst.exists_ w = (.ok true, w)) :
    src.moveDir fuel dst w = (.err .other (some src.path), w) := by
  unfold VPath.moveDir
  simp [M.withPath, bind, M.bind, h, M.failAt, Res.withPath]

theorem removeDirAll_absent' (fuel : Nat) (p : VPath) (h : p.exists_ w = (.ok false, w)) :
    VPath.removeDirAll (fuel + 1) p w = (.ok (), w) := by
  unfold VPath.removeDirAll
  simp [bind, M.bind, h, pure, M.pure]

end generic

/-! ### 2. `create_dir_all`: the prefixes of a rendered component list -/

/-- appending one slash-free component adds exactly one visited prefix: the whole path -/
theorem dirPrefixes_snoc (a c : Str) (hc : '/' ∉ c) :
    VPath.dirPrefixes (a ++ '/' :: c) = VPath.dirPrefixes a ++ [a ++ '/' :: c] := by
  unfold VPath.dirPrefixes
  have hlen : (a ++ '/' :: c).length + 1 = (a.length + 1) + (c.length + 1) := by
    simp [List.length_append]; omega
  rw [hlen, List.range_add, List.filter_append, List.map_append]
  congr 1
  · -- the positions up to |a|
    have hf : (List.range (a.length + 1)).filter
          (fun e => decide (1 ≤ e ∧ (e = (a ++ '/' :: c).length ∨ (a ++ '/' :: c)[e]? = some '/')))
        = (List.range (a.length + 1)).filter
          (fun e => decide (1 ≤ e ∧ (e = a.length ∨ a[e]? = some '/'))) := by
      apply List.filter_congr
      intro e he
      rw [List.mem_range] at he
      by_cases h1 : e = a.length
      · subst h1; simp
      · have h2 : e < a.length := by omega
        have h3 : e ≠ a.length + (c.length + 1) := by omega
        simp [List.getElem?_append_left h2, h1, h3]
    rw [hf]
    apply List.map_congr_left
    intro e he
    rw [List.mem_filter, List.mem_range] at he
    exact List.take_append_of_le_length (by omega)
  · -- the positions inside the last component: only the end
    rw [List.range_succ, List.map_append, List.filter_append]
    have h1 : (List.map (fun x => a.length + 1 + x) (List.range c.length)).filter
        (fun e => decide (1 ≤ e ∧ (e = (a ++ '/' :: c).length ∨ (a ++ '/' :: c)[e]? = some '/'))) = [] := by
      rw [List.filter_eq_nil_iff]
      intro e he
      rw [List.mem_map] at he
      obtain ⟨x, hx, rfl⟩ := he
      rw [List.mem_range] at hx
      have h3 : a.length + 1 + x ≠ (a ++ '/' :: c).length := by simp [List.length_append]; omega
      have h4 : (a ++ '/' :: c)[a.length + 1 + x]? = c[x]? := by
        rw [List.getElem?_append_right (by omega)]
        have : a.length + 1 + x - a.length = x + 1 := by omega
        rw [this, List.getElem?_cons_succ]
      simp only [h3, h4, false_or, decide_eq_true_eq, not_and]
      intro _ hx'
      exact hc (List.mem_of_getElem? hx')
    rw [h1]
    have h6 : 1 ≤ a.length + (c.length + 1) := by omega
    have h7 : a.length + 1 + c.length = a.length + (c.length + 1) := by omega
    simp [h6, h7]
    rw [List.take_of_length_le (by simp [List.length_append])]


/-- the ancestor chain of `/c1/…/cn`: `/c1`, `/c1/c2`, …, `/c1/…/cn` -/
def chain (cs : List Str) : List Str := (List.range cs.length).map (fun k => renderC (cs.take (k + 1)))

@[simp] theorem chain_nil : chain [] = [] := rfl

theorem chain_snoc (cs : List Str) (c : Str) : chain (cs ++ [c]) = chain cs ++ [renderC (cs ++ [c])] := by
  unfold chain
  rw [List.length_append, List.length_singleton, List.range_succ, List.map_append]
  congr 1
  · apply List.map_congr_left
    intro k hk
    rw [List.mem_range] at hk
    rw [List.take_append_of_le_length (by omega)]
  · have : List.take (cs.length + 1) (cs ++ [c]) = cs ++ [c] :=
      List.take_of_length_le (by simp)
    simp [this]

/-- induction from the right on lists -/
theorem snoc_induction {α} {P : List α → Prop} (hnil : P [])
    (hsnoc : ∀ l a, P l → P (l ++ [a])) : ∀ l, P l := by
  intro l
  have : ∀ n (l : List α), l.length = n → P l := by
    intro n
    induction n with
    | zero => intro l hl; rw [List.eq_nil_of_length_eq_zero hl]; exact hnil
    | succ n ih =>
      intro l hl
      rcases List.eq_nil_or_concat l with rfl | ⟨l', a, rfl⟩
      · exact hnil
      · rw [List.concat_eq_append] at hl ⊢
        exact hsnoc l' a (ih l' (by simp at hl; exact hl))
  exact this l.length l rfl

/-- (a) the prefixes visited by `create_dir_all` on `/c1/…/cn` are exactly the ancestor chain -/
theorem dirPrefixes_renderC (cs : List Str) (h : ∀ c ∈ cs, '/' ∉ c) :
    VPath.dirPrefixes (renderC cs) = chain cs := by
  revert h
  refine snoc_induction (P := fun cs => (∀ c ∈ cs, '/' ∉ c) → VPath.dirPrefixes (renderC cs) = chain cs)
    ?_ ?_ cs
  · intro _; decide
  · intro l c ih h
    rw [renderC_snoc, dirPrefixes_snoc _ _ (h c (by simp)), chain_snoc, renderC_snoc,
      ih (fun x hx => h x (by simp [hx]))]

theorem mem_chain (cs : List Str) (q : Str) :
    q ∈ chain cs ↔ ∃ k, k < cs.length ∧ q = renderC (cs.take (k + 1)) := by
  unfold chain
  simp only [List.mem_map, List.mem_range]
  constructor
  · rintro ⟨k, hk, rfl⟩; exact ⟨k, hk, rfl⟩
  · rintro ⟨k, hk, rfl⟩; exact ⟨k, hk, rfl⟩

theorem renderC_take_length_le (cs : List Str) (k : Nat) :
    (renderC (cs.take k)).length ≤ (renderC cs).length := by
  conv => rhs; rw [← List.take_append_drop k cs, renderC_append]
  simp [List.length_append]

theorem chain_length_le (cs : List Str) (q : Str) (h : q ∈ chain cs) :
    q.length ≤ (renderC cs).length := by
  obtain ⟨k, _, rfl⟩ := (mem_chain cs q).1 h
  exact renderC_take_length_le cs (k + 1)

theorem snoc_not_mem_chain (cs : List Str) (c : Str) : renderC (cs ++ [c]) ∉ chain cs := by
  intro h
  have := chain_length_le cs _ h
  simp [List.length_append] at this
  omega


theorem chain_append_exists (x y : List Str) : ∃ rest, chain (x ++ y) = chain x ++ rest := by
  refine snoc_induction (P := fun y => ∃ rest, chain (x ++ y) = chain x ++ rest) ?_ ?_ y
  · exact ⟨[], by simp⟩
  · intro l c ⟨rest, hr⟩
    refine ⟨rest ++ [renderC (x ++ l ++ [c])], ?_⟩
    rw [← List.append_assoc, chain_snoc, hr, List.append_assoc]

theorem renderC_mem_chain (cs : List Str) (h : cs ≠ []) : renderC cs ∈ chain cs := by
  rw [mem_chain]
  have hl : 0 < cs.length := by
    cases cs with
    | nil => exact absurd rfl h
    | cons _ _ => simp
  refine ⟨cs.length - 1, by omega, ?_⟩
  have : cs.length - 1 + 1 = cs.length := by omega
  rw [this, List.take_length]

/-! ### the loop of `create_dir_all` on a memory map -/

namespace Mem

/-- the loop of `create_dir_all` over MemoryFS (the trait's `create_dir`, no parent probe) -/
def createDirAllLoop (m : FMap) : List Str → Res Unit × FMap
  | [] => (.ok (), m)
  | d :: rest =>
    match createDir m d with
    | (.ok _, m') => createDirAllLoop m' rest
    | (.err .dirExists _, m') => createDirAllLoop m' rest
    | (.err k _, m') => (.err k (some d), m')
    | (.panic, m') => (.panic, m')

/-- `VfsPath::create_dir_all` over MemoryFS -/
def pCreateDirAll (m : FMap) (p : Str) : Res Unit × FMap :=
  if p = [] then (.ok (), m) else createDirAllLoop m (VPath.dirPrefixes p)

theorem createDir_fresh (m : FMap) (d : Str) (hs : '/' ∈ d)
    (hp : m.contains (parentInternal d) = true) (hd : m.find? d = none) :
    createDir m d = (.ok (), m.insert d dirEntryNow) := by
  simp [createDir, ensureHasParent, hs, hp, hd]

theorem createDir_present (m : FMap) (d : Str) (e : Entry) (hs : '/' ∈ d)
    (hp : m.contains (parentInternal d) = true) (hd : m.find? d = some e) :
    createDir m d = (if e.ftype = .file then fail .fileExists else fail .dirExists, m) := by
  simp [createDir, ensureHasParent, hs, hp, hd]

theorem createDirAllLoop_append (m : FMap) (a b : List Str)
    (h : (createDirAllLoop m a).1 = .ok ()) :
    createDirAllLoop m (a ++ b) = createDirAllLoop (createDirAllLoop m a).2 b := by
  induction a generalizing m with
  | nil => rfl
  | cons d rest ih =>
    simp only [List.cons_append, createDirAllLoop] at h ⊢
    cases hc : createDir m d with
    | mk r m' =>
      rw [hc] at h
      cases r with
      | ok u => exact ih m' h
      | err k pth => cases k <;> first | exact ih m' h | cases h
      | panic => cases h

end Mem

theorem run_createDirAllLoop {i : Nat} (id : Nat) (p : Str) (ds : List Str) :
    ∀ {w : World} {m : FMap}, MemLeafAt w i m →
    VPath.createDirAllLoop { fs := leafFS i, fsId := id, path := p } ds w =
      ((Mem.createDirAllLoop m ds).1, w.setLeafFiles i (Mem.createDirAllLoop m ds).2) := by
  induction ds with
  | nil => intro w m h; simp [VPath.createDirAllLoop, Mem.createDirAllLoop, pure, M.pure, h.same]
  | cons d rest ih =>
    intro w m h
    simp only [VPath.createDirAllLoop, Mem.createDirAllLoop, run_createDir h]
    cases hc : Mem.createDir m d with
    | mk r m' =>
      have h' : MemLeafAt (w.setLeafFiles i m') i m' := h.set m'
      cases r with
      | ok u => simp only [ih h', World.setLeafFiles_twice]
      | err k pth =>
        cases k <;> simp only [ih h', World.setLeafFiles_twice]
      | panic => rfl

theorem run_pCreateDirAll {w : World} {i : Nat} {m : FMap} (h : MemLeafAt w i m) (id : Nat) (p : Str) :
    VPath.createDirAll { fs := leafFS i, fsId := id, path := p } w =
      ((Mem.pCreateDirAll m p).1, w.setLeafFiles i (Mem.pCreateDirAll m p).2) := by
  unfold VPath.createDirAll Mem.pCreateDirAll
  by_cases hp : p = []
  · simp [hp, pure, M.pure, h.same]
  · simp only [hp, ↓reduceIte, run_createDirAllLoop id p _ h]


/-- `m'` is `m` plus exactly the chain of directories of `/c1/…/cn` -/
structure ChainMade (m m' : FMap) (cs : List Str) : Prop where
  wf : WF m'
  /-- every prefix is a directory afterwards -/
  dirs : ∀ q ∈ chain cs, ∃ e, m'.find? q = some e ∧ e.ftype = .dir
  /-- every entry that was there is unchanged -/
  keeps : ∀ k e, m.find? k = some e → m'.find? k = some e
  /-- no key outside the chain was touched -/
  frame : ∀ k, k ∉ chain cs → m'.find? k = m.find? k
  /-- the missing prefixes are fresh directories -/
  fresh : ∀ q ∈ chain cs, m.find? q = none → m'.find? q = some dirEntryNow

theorem ChainMade.refl_nil {m : FMap} (h : WF m) : ChainMade m m [] :=
  ⟨h, by simp, fun _ _ h => h, fun _ _ => rfl, by simp⟩

/-- the parent of the next prefix is there after the shorter prefixes have been made -/
theorem ChainMade.parent_contained {m m' : FMap} {l : List Str} (h : ChainMade m m' l) :
    m'.contains (renderC l) = true := by
  rw [FMap.contains_iff]
  by_cases hl : l = []
  · subst hl
    obtain ⟨e, he, _⟩ := h.wf.1
    exact ⟨e, he⟩
  · obtain ⟨e, he, _⟩ := h.dirs _ (renderC_mem_chain l hl)
    exact ⟨e, he⟩

theorem ChainMade.parent_dir {m m' : FMap} {l : List Str} (h : ChainMade m m' l) :
    ∃ e, m'.find? (renderC l) = some e ∧ e.ftype = .dir := by
  by_cases hl : l = []
  · subst hl; exact h.wf.1
  · exact h.dirs _ (renderC_mem_chain l hl)

/-- (b) no prefix is a file: the loop succeeds and makes exactly the chain -/
theorem createDirAllLoop_chain (m : FMap) (hm : WF m) (cs : List Str) :
    (∀ c ∈ cs, '/' ∉ c) →
    (∀ q ∈ chain cs, ∀ e, m.find? q = some e → e.ftype = .dir) →
    (Mem.createDirAllLoop m (chain cs)).1 = .ok () ∧
      ChainMade m (Mem.createDirAllLoop m (chain cs)).2 cs := by
  refine snoc_induction (P := fun cs => (∀ c ∈ cs, '/' ∉ c) →
    (∀ q ∈ chain cs, ∀ e, m.find? q = some e → e.ftype = .dir) →
    (Mem.createDirAllLoop m (chain cs)).1 = .ok () ∧
      ChainMade m (Mem.createDirAllLoop m (chain cs)).2 cs) ?_ ?_ cs
  · intro _ _; exact ⟨rfl, ChainMade.refl_nil hm⟩
  · intro l c ih hsl hnf
    have hc : '/' ∉ c := hsl c (by simp)
    obtain ⟨hok, hmade⟩ := ih (fun x hx => hsl x (by simp [hx]))
      (fun q hq => hnf q (by rw [chain_snoc]; simp [hq]))
    rw [chain_snoc, Mem.createDirAllLoop_append m _ _ hok]
    generalize (Mem.createDirAllLoop m (chain l)).2 = m1 at hmade
    have hd : renderC (l ++ [c]) = renderC l ++ '/' :: c := renderC_snoc l c
    have hs : '/' ∈ renderC (l ++ [c]) := by rw [hd]; simp
    have hpar : parentInternal (renderC (l ++ [c])) = renderC l := by
      rw [hd]; exact parent_of_child _ _ hc
    have hcont : m1.contains (parentInternal (renderC (l ++ [c]))) = true := by
      rw [hpar]; exact hmade.parent_contained
    have hsame : m1.find? (renderC (l ++ [c])) = m.find? (renderC (l ++ [c])) :=
      hmade.frame _ (snoc_not_mem_chain l c)
    cases hf : m.find? (renderC (l ++ [c])) with
    | none =>
      rw [hf] at hsame
      simp only [Mem.createDirAllLoop, Mem.createDir_fresh m1 _ hs hcont hsame, true_and]
      obtain ⟨pe, hpe, hpd⟩ := hmade.parent_dir
      refine ⟨hmade.wf.insert_dir _ _ rfl hs pe (by rw [hpar]; exact hpe) hpd, ?_, ?_, ?_, ?_⟩
      · intro q hq
        rw [List.mem_append, List.mem_singleton] at hq
        rw [FMap.find?_insert]
        split
        · exact ⟨_, rfl, rfl⟩
        · rcases hq with hq | hq
          · exact hmade.dirs q hq
          · rename_i hne; exact absurd hq hne
      · intro k e hk
        rw [FMap.find?_insert]
        split
        · rename_i hkd; rw [hkd, hf] at hk; cases hk
        · exact hmade.keeps k e hk
      · intro k hk
        rw [List.mem_append, List.mem_singleton, not_or] at hk
        rw [FMap.find?_insert, if_neg hk.2]
        exact hmade.frame k hk.1
      · intro q hq hqn
        rw [List.mem_append, List.mem_singleton] at hq
        rw [FMap.find?_insert]
        split
        · rfl
        · rcases hq with hq | hq
          · exact hmade.fresh q hq hqn
          · rename_i hne; exact absurd hq hne
    | some e =>
      rw [hf] at hsame
      have hdir : e.ftype = .dir := hnf _ (by rw [chain_snoc]; simp) e hf
      have hnotfile : ¬ e.ftype = .file := by rw [hdir]; decide
      simp only [Mem.createDirAllLoop, Mem.createDir_present m1 _ e hs hcont hsame, hnotfile,
        ↓reduceIte, fail, true_and]
      refine ⟨hmade.wf, ?_, hmade.keeps, ?_, ?_⟩
      · intro q hq
        rw [List.mem_append, List.mem_singleton] at hq
        rcases hq with hq | hq
        · exact hmade.dirs q hq
        · subst hq; exact ⟨e, hsame, hdir⟩
      · intro k hk
        rw [List.mem_append, List.mem_singleton, not_or] at hk
        exact hmade.frame k hk.1
      · intro q hq hqn
        rw [List.mem_append, List.mem_singleton] at hq
        rcases hq with hq | hq
        · exact hmade.fresh q hq hqn
        · subst hq; rw [hf] at hqn; cases hqn

/-- (c) the first prefix that is a file stops the loop with `FileExists` naming that prefix; the
shorter prefixes HAVE been created (create_dir_all is not atomic) -/
theorem createDirAllLoop_file (m : FMap) (hm : WF m) (a b : List Str) (c : Str) (e : Entry)
    (hsl : ∀ x ∈ a ++ [c], '/' ∉ x)
    (hbefore : ∀ q ∈ chain a, ∀ e, m.find? q = some e → e.ftype = .dir)
    (hfile : m.find? (renderC (a ++ [c])) = some e) (hft : e.ftype = .file) :
    Mem.createDirAllLoop m (chain (a ++ c :: b)) =
      (.err .fileExists (some (renderC (a ++ [c]))), (Mem.createDirAllLoop m (chain a)).2) ∧
    ChainMade m (Mem.createDirAllLoop m (chain a)).2 a := by
  obtain ⟨hok, hmade⟩ := createDirAllLoop_chain m hm a (fun x hx => hsl x (by simp [hx])) hbefore
  refine ⟨?_, hmade⟩
  obtain ⟨rest, hrest⟩ := chain_append_exists (a ++ [c]) b
  have hcs : a ++ c :: b = (a ++ [c]) ++ b := by simp
  rw [hcs, hrest, chain_snoc, List.append_assoc, Mem.createDirAllLoop_append m _ _ hok]
  generalize (Mem.createDirAllLoop m (chain a)).2 = m1 at hmade
  have hc : '/' ∉ c := hsl c (by simp)
  have hd : renderC (a ++ [c]) = renderC a ++ '/' :: c := renderC_snoc a c
  have hs : '/' ∈ renderC (a ++ [c]) := by rw [hd]; simp
  have hpar : parentInternal (renderC (a ++ [c])) = renderC a := by
    rw [hd]; exact parent_of_child _ _ hc
  have hcont : m1.contains (parentInternal (renderC (a ++ [c]))) = true := by
    rw [hpar]; exact hmade.parent_contained
  have hsame : m1.find? (renderC (a ++ [c])) = some e := by
    rw [hmade.frame _ (snoc_not_mem_chain a c)]; exact hfile
  simp only [List.singleton_append, Mem.createDirAllLoop, Mem.createDir_present m1 _ e hs hcont hsame,
    hft, ↓reduceIte, fail]

/-- visiting directories that all exist changes nothing at all -/
theorem createDirAllLoop_existing (m : FMap) (hm : WF m) (ds : List Str)
    (h : ∀ d ∈ ds, d ≠ [] ∧ ∃ e, m.find? d = some e ∧ e.ftype = .dir) :
    Mem.createDirAllLoop m ds = (.ok (), m) := by
  induction ds with
  | nil => rfl
  | cons d rest ih =>
    obtain ⟨hne, e, he, hd⟩ := h d (by simp)
    obtain ⟨hs, pe, hpe, _⟩ := hm.2 d e he hne
    have hcont : m.contains (parentInternal d) = true := (FMap.contains_iff _ _).2 ⟨pe, hpe⟩
    have hnotfile : ¬ e.ftype = .file := by rw [hd]; decide
    simp only [Mem.createDirAllLoop, Mem.createDir_present m d e hs hcont he, hnotfile, ↓reduceIte, fail]
    exact ih (fun x hx => h x (by simp [hx]))

end Vfs
