/-
  Helpers for property C11 (create_dir_all / remove_dir_all / copy_* / move_*):
  * generic unfolding lemmas of the `VfsPath` layer over ARBITRARY filesystems (existing
    destination refused, absent path removed, the generic read/write route when the fast path is
    not taken),
  * where the '/' are in a rendered component list (`dirPrefixes (renderC cs)`),
  * the pure loop of `create_dir_all` on a memory map and its exact effect,
  * the generic route of copy_file / move_file on memory leaves (same leaf or two leaves),
  * the fast path on a physical leaf (`Phys.copyFile`, `Phys.rename` of a file),
  * `remove_dir_all` on a memory leaf: exactly the subtree goes,
  * copy_dir / move_dir of an empty directory.
-/
import VfsModel.Proofs.MemRun
import VfsModel.Proofs.PhysPath
import VfsModel.Props.C06
namespace Vfs

/-! ### 1. generic: the existence probe comes first -/

section generic
variable (src dst : VPath) (w : World)

theorem copyFile_refused (h : dst.exists_ w = (.ok true, w)) :
    src.copyFile dst w = (.err .other (some src.path), w) := by
  unfold VPath.copyFile
  simp [M.withPath, bind, M.bind, h, M.failAt, Res.withPath]

theorem moveFile_refused (h : dst.exists_ w = (.ok true, w)) :
    src.moveFile dst w = (.err .other (some src.path), w) := by
  unfold VPath.moveFile
  simp [M.withPath, bind, M.bind, h, M.failAt, Res.withPath]

theorem copyDir_refused (fuel : Nat) (h : dst.exists_ w = (.ok true, w)) :
    src.copyDir fuel dst w = (.err .other (some src.path), w) := by
  unfold VPath.copyDir
  simp [M.withPath, bind, M.bind, h, M.failAt, Res.withPath]

theorem moveDir_refused (fuel : Nat) (h : dst.exists_ w = (.ok true, w)) :
    src.moveDir fuel dst w = (.err .other (some src.path), w) := by
  unfold VPath.moveDir
  simp [M.withPath, bind, M.bind, h, M.failAt, Res.withPath]

theorem removeDirAll_absent' (fuel : Nat) (p : VPath) (h : p.exists_ w = (.ok false, w)) :
    VPath.removeDirAll (fuel + 1) p w = (.ok (), w) := by
  unfold VPath.removeDirAll
  simp [bind, M.bind, h, pure, M.pure]

end generic

/-! ### 2. `create_dir_all`: the prefixes of a rendered component list -/

/-- appending one slash-free component adds exactly one visited prefix: the whole path -/
theorem dirPrefixes_snoc (a c : Str) (hc : '/' ∉ c) :
    VPath.dirPrefixes (a ++ '/' :: c) = VPath.dirPrefixes a ++ [a ++ '/' :: c] := by
  unfold VPath.dirPrefixes
  have hlen : (a ++ '/' :: c).length + 1 = (a.length + 1) + (c.length + 1) := by
    simp [List.length_append]; omega
  rw [hlen, List.range_add, List.filter_append, List.map_append]
  congr 1
  · -- the positions up to |a|
    have hf : (List.range (a.length + 1)).filter
          (fun e => decide (1 ≤ e ∧ (e = (a ++ '/' :: c).length ∨ (a ++ '/' :: c)[e]? = some '/')))
        = (List.range (a.length + 1)).filter
          (fun e => decide (1 ≤ e ∧ (e = a.length ∨ a[e]? = some '/'))) := by
      apply List.filter_congr
      intro e he
      rw [List.mem_range] at he
      by_cases h1 : e = a.length
      · subst h1; simp
      · have h2 : e < a.length := by omega
        have h3 : e ≠ a.length + (c.length + 1) := by omega
        simp [List.getElem?_append_left h2, h1, h3]
    rw [hf]
    apply List.map_congr_left
    intro e he
    rw [List.mem_filter, List.mem_range] at he
    exact List.take_append_of_le_length (by omega)
  · -- the positions inside the last component: only the end
    rw [List.range_succ, List.map_append, List.filter_append]
    have h1 : (List.map (fun x => a.length + 1 + x) (List.range c.length)).filter
        (fun e => decide (1 ≤ e ∧ (e = (a ++ '/' :: c).length ∨ (a ++ '/' :: c)[e]? = some '/'))) = [] := by
      rw [List.filter_eq_nil_iff]
      intro e he
      rw [List.mem_map] at he
      obtain ⟨x, hx, rfl⟩ := he
      rw [List.mem_range] at hx
      have h3 : a.length + 1 + x ≠ (a ++ '/' :: c).length := by simp [List.length_append]; omega
      have h4 : (a ++ '/' :: c)[a.length + 1 + x]? = c[x]? := by
        rw [List.getElem?_append_right (by omega)]
        have : a.length + 1 + x - a.length = x + 1 := by omega
        rw [this, List.getElem?_cons_succ]
      simp only [h3, h4, false_or, decide_eq_true_eq, not_and]
      intro _ hx'
      exact hc (List.mem_of_getElem? hx')
    rw [h1]
    have h6 : 1 ≤ a.length + (c.length + 1) := by omega
    have h7 : a.length + 1 + c.length = a.length + (c.length + 1) := by omega
    simp [h6, h7]
    rw [List.take_of_length_le (by simp [List.length_append])]


/-- the ancestor ancChain of `/c1/…/cn`: `/c1`, `/c1/c2`, …, `/c1/…/cn` -/
def ancChain (cs : List Str) : List Str := (List.range cs.length).map (fun k => renderC (cs.take (k + 1)))

@[simp] theorem ancChain_nil : ancChain [] = [] := rfl

theorem ancChain_snoc (cs : List Str) (c : Str) : ancChain (cs ++ [c]) = ancChain cs ++ [renderC (cs ++ [c])] := by
  unfold ancChain
  rw [List.length_append, List.length_singleton, List.range_succ, List.map_append]
  congr 1
  · apply List.map_congr_left
    intro k hk
    rw [List.mem_range] at hk
    rw [List.take_append_of_le_length (by omega)]
  · have : List.take (cs.length + 1) (cs ++ [c]) = cs ++ [c] :=
      List.take_of_length_le (by simp)
    simp [this]

/-- induction from the right on lists -/
theorem snoc_induction {α} {P : List α → Prop} (hnil : P [])
    (hsnoc : ∀ l a, P l → P (l ++ [a])) : ∀ l, P l := by
  intro l
  have : ∀ n (l : List α), l.length = n → P l := by
    intro n
    induction n with
    | zero => intro l hl; rw [List.eq_nil_of_length_eq_zero hl]; exact hnil
    | succ n ih =>
      intro l hl
      rcases List.eq_nil_or_concat l with rfl | ⟨l', a, rfl⟩
      · exact hnil
      · rw [List.concat_eq_append] at hl ⊢
        exact hsnoc l' a (ih l' (by simp at hl; exact hl))
  exact this l.length l rfl

/-- (a) the prefixes visited by `create_dir_all` on `/c1/…/cn` are exactly the ancestor ancChain -/
theorem dirPrefixes_renderC (cs : List Str) (h : ∀ c ∈ cs, '/' ∉ c) :
    VPath.dirPrefixes (renderC cs) = ancChain cs := by
  revert h
  refine snoc_induction (P := fun cs => (∀ c ∈ cs, '/' ∉ c) → VPath.dirPrefixes (renderC cs) = ancChain cs)
    ?_ ?_ cs
  · intro _; decide
  · intro l c ih h
    rw [renderC_snoc, dirPrefixes_snoc _ _ (h c (by simp)), ancChain_snoc, renderC_snoc,
      ih (fun x hx => h x (by simp [hx]))]

theorem mem_ancChain (cs : List Str) (q : Str) :
    q ∈ ancChain cs ↔ ∃ k, k < cs.length ∧ q = renderC (cs.take (k + 1)) := by
  unfold ancChain
  simp only [List.mem_map, List.mem_range]
  constructor
  · rintro ⟨k, hk, rfl⟩; exact ⟨k, hk, rfl⟩
  · rintro ⟨k, hk, rfl⟩; exact ⟨k, hk, rfl⟩

theorem renderC_take_length_le (cs : List Str) (k : Nat) :
    (renderC (cs.take k)).length ≤ (renderC cs).length := by
  conv => rhs; rw [← List.take_append_drop k cs, renderC_append]
  simp [List.length_append]

theorem ancChain_length_le (cs : List Str) (q : Str) (h : q ∈ ancChain cs) :
    q.length ≤ (renderC cs).length := by
  obtain ⟨k, _, rfl⟩ := (mem_ancChain cs q).1 h
  exact renderC_take_length_le cs (k + 1)

theorem snoc_not_mem_ancChain (cs : List Str) (c : Str) : renderC (cs ++ [c]) ∉ ancChain cs := by
  intro h
  have := ancChain_length_le cs _ h
  simp [List.length_append] at this
  omega


theorem ancChain_append_exists (x y : List Str) : ∃ rest, ancChain (x ++ y) = ancChain x ++ rest := by
  refine snoc_induction (P := fun y => ∃ rest, ancChain (x ++ y) = ancChain x ++ rest) ?_ ?_ y
  · exact ⟨[], by simp⟩
  · intro l c ⟨rest, hr⟩
    refine ⟨rest ++ [renderC (x ++ l ++ [c])], ?_⟩
    rw [← List.append_assoc, ancChain_snoc, hr, List.append_assoc]

theorem renderC_mem_ancChain (cs : List Str) (h : cs ≠ []) : renderC cs ∈ ancChain cs := by
  rw [mem_ancChain]
  have hl : 0 < cs.length := by
    cases cs with
    | nil => exact absurd rfl h
    | cons _ _ => simp
  refine ⟨cs.length - 1, by omega, ?_⟩
  have : cs.length - 1 + 1 = cs.length := by omega
  rw [this, List.take_length]

/-! ### the loop of `create_dir_all` on a memory map -/

namespace Mem

/-- the loop of `create_dir_all` over MemoryFS (the trait's `create_dir`, no parent probe) -/
def createDirAllLoop (m : FMap) : List Str → Res Unit × FMap
  | [] => (.ok (), m)
  | d :: rest =>
    match createDir m d with
    | (.ok _, m') => createDirAllLoop m' rest
    | (.err .dirExists _, m') => createDirAllLoop m' rest
    | (.err k _, m') => (.err k (some d), m')
    | (.panic, m') => (.panic, m')

/-- `VfsPath::create_dir_all` over MemoryFS -/
def pCreateDirAll (m : FMap) (p : Str) : Res Unit × FMap :=
  if p = [] then (.ok (), m) else createDirAllLoop m (VPath.dirPrefixes p)

/- ADAPTED (ensure_has_parent now requires the parent to be an existing DIRECTORY): the
hypothesis `m.contains (parentInternal d)` of the next two lemmas became "the parent is a
directory"; with a file as parent `create_dir` now fails with `Other`. -/
theorem createDir_fresh (m : FMap) (d : Str) (hs : '/' ∈ d)
    (hp : ∃ pe, m.find? (parentInternal d) = some pe ∧ pe.ftype = .dir) (hd : m.find? d = none) :
    createDir m d = (.ok (), m.insert d dirEntryNow) := by
  obtain ⟨pe, hpe, hpd⟩ := hp
  simp [createDir, ensureHasParent, hs, hpe, hpd, hd]

theorem createDir_present (m : FMap) (d : Str) (e : Entry) (hs : '/' ∈ d)
    (hp : ∃ pe, m.find? (parentInternal d) = some pe ∧ pe.ftype = .dir) (hd : m.find? d = some e) :
    createDir m d = (if e.ftype = .file then fail .fileExists else fail .dirExists, m) := by
  obtain ⟨pe, hpe, hpd⟩ := hp
  simp [createDir, ensureHasParent, hs, hpe, hpd, hd]

theorem createDirAllLoop_append (m : FMap) (a b : List Str)
    (h : (createDirAllLoop m a).1 = .ok ()) :
    createDirAllLoop m (a ++ b) = createDirAllLoop (createDirAllLoop m a).2 b := by
  induction a generalizing m with
  | nil => rfl
  | cons d rest ih =>
    simp only [List.cons_append, createDirAllLoop] at h ⊢
    cases hc : createDir m d with
    | mk r m' =>
      rw [hc] at h
      cases r with
      | ok u => exact ih m' h
      | err k pth => cases k <;> first | exact ih m' h | cases h
      | panic => cases h

end Mem

theorem run_createDirAllLoop {i : Nat} (id : Nat) (p : Str) (ds : List Str) :
    ∀ {w : World} {m : FMap}, MemLeafAt w i m →
    VPath.createDirAllLoop { fs := leafFS i, fsId := id, path := p } ds w =
      ((Mem.createDirAllLoop m ds).1, w.setLeafFiles i (Mem.createDirAllLoop m ds).2) := by
  induction ds with
  | nil => intro w m h; simp [VPath.createDirAllLoop, Mem.createDirAllLoop, pure, M.pure, h.same]
  | cons d rest ih =>
    intro w m h
    simp only [VPath.createDirAllLoop, Mem.createDirAllLoop, run_createDir h]
    cases hc : Mem.createDir m d with
    | mk r m' =>
      have h' : MemLeafAt (w.setLeafFiles i m') i m' := h.set m'
      cases r with
      | ok u => simp only [ih h', World.setLeafFiles_twice]
      | err k pth =>
        cases k <;> simp only [ih h', World.setLeafFiles_twice]
      | panic => rfl

theorem run_pCreateDirAll {w : World} {i : Nat} {m : FMap} (h : MemLeafAt w i m) (id : Nat) (p : Str) :
    VPath.createDirAll { fs := leafFS i, fsId := id, path := p } w =
      ((Mem.pCreateDirAll m p).1, w.setLeafFiles i (Mem.pCreateDirAll m p).2) := by
  unfold VPath.createDirAll Mem.pCreateDirAll
  by_cases hp : p = []
  · simp [hp, pure, M.pure, h.same]
  · simp only [hp, ↓reduceIte, run_createDirAllLoop id p _ h]


/-- `m'` is `m` plus exactly the ancChain of directories of `/c1/…/cn` -/
structure ChainMade (m m' : FMap) (cs : List Str) : Prop where
  wf : WF m'
  /-- every prefix is a directory afterwards -/
  dirs : ∀ q ∈ ancChain cs, ∃ e, m'.find? q = some e ∧ e.ftype = .dir
  /-- every entry that was there is unchanged -/
  keeps : ∀ k e, m.find? k = some e → m'.find? k = some e
  /-- no key outside the ancChain was touched -/
  frame : ∀ k, k ∉ ancChain cs → m'.find? k = m.find? k
  /-- the missing prefixes are fresh directories -/
  fresh : ∀ q ∈ ancChain cs, m.find? q = none → m'.find? q = some dirEntryNow

theorem ChainMade.refl_nil {m : FMap} (h : WF m) : ChainMade m m [] :=
  ⟨h, by simp, fun _ _ h => h, fun _ _ => rfl, by simp⟩

/-- the parent of the next prefix is there after the shorter prefixes have been made -/
theorem ChainMade.parent_contained {m m' : FMap} {l : List Str} (h : ChainMade m m' l) :
    m'.contains (renderC l) = true := by
  rw [FMap.contains_iff]
  by_cases hl : l = []
  · subst hl
    obtain ⟨e, he, _⟩ := h.wf.1
    exact ⟨e, he⟩
  · obtain ⟨e, he, _⟩ := h.dirs _ (renderC_mem_ancChain l hl)
    exact ⟨e, he⟩

theorem ChainMade.parent_dir {m m' : FMap} {l : List Str} (h : ChainMade m m' l) :
    ∃ e, m'.find? (renderC l) = some e ∧ e.ftype = .dir := by
  by_cases hl : l = []
  · subst hl; exact h.wf.1
  · exact h.dirs _ (renderC_mem_ancChain l hl)

/-- (b) no prefix is a file: the loop succeeds and makes exactly the ancChain -/
theorem createDirAllLoop_chain (m : FMap) (hm : WF m) (cs : List Str) :
    (∀ c ∈ cs, '/' ∉ c) →
    (∀ q ∈ ancChain cs, ∀ e, m.find? q = some e → e.ftype = .dir) →
    (Mem.createDirAllLoop m (ancChain cs)).1 = .ok () ∧
      ChainMade m (Mem.createDirAllLoop m (ancChain cs)).2 cs := by
  refine snoc_induction (P := fun cs => (∀ c ∈ cs, '/' ∉ c) →
    (∀ q ∈ ancChain cs, ∀ e, m.find? q = some e → e.ftype = .dir) →
    (Mem.createDirAllLoop m (ancChain cs)).1 = .ok () ∧
      ChainMade m (Mem.createDirAllLoop m (ancChain cs)).2 cs) ?_ ?_ cs
  · intro _ _; exact ⟨rfl, ChainMade.refl_nil hm⟩
  · intro l c ih hsl hnf
    have hc : '/' ∉ c := hsl c (by simp)
    obtain ⟨hok, hmade⟩ := ih (fun x hx => hsl x (by simp [hx]))
      (fun q hq => hnf q (by rw [ancChain_snoc]; simp [hq]))
    rw [ancChain_snoc, Mem.createDirAllLoop_append m _ _ hok]
    generalize (Mem.createDirAllLoop m (ancChain l)).2 = m1 at hmade
    have hd : renderC (l ++ [c]) = renderC l ++ '/' :: c := renderC_snoc l c
    have hs : '/' ∈ renderC (l ++ [c]) := by rw [hd]; simp
    have hpar : parentInternal (renderC (l ++ [c])) = renderC l := by
      rw [hd]; exact parent_of_child _ _ hc
    have hcont : ∃ pe, m1.find? (parentInternal (renderC (l ++ [c]))) = some pe ∧ pe.ftype = .dir := by
      rw [hpar]; exact hmade.parent_dir
    have hsame : m1.find? (renderC (l ++ [c])) = m.find? (renderC (l ++ [c])) :=
      hmade.frame _ (snoc_not_mem_ancChain l c)
    cases hf : m.find? (renderC (l ++ [c])) with
    | none =>
      rw [hf] at hsame
      simp only [Mem.createDirAllLoop, Mem.createDir_fresh m1 _ hs hcont hsame, true_and]
      obtain ⟨pe, hpe, hpd⟩ := hmade.parent_dir
      refine ⟨hmade.wf.insert_dir _ _ rfl hs pe (by rw [hpar]; exact hpe) hpd, ?_, ?_, ?_, ?_⟩
      · intro q hq
        rw [ancChain_snoc, List.mem_append, List.mem_singleton] at hq
        rw [FMap.find?_insert]
        split
        · exact ⟨_, rfl, rfl⟩
        · rcases hq with hq | hq
          · exact hmade.dirs q hq
          · rename_i hne; exact absurd hq hne
      · intro k e hk
        rw [FMap.find?_insert]
        split
        · rename_i hkd; rw [hkd, hf] at hk; cases hk
        · exact hmade.keeps k e hk
      · intro k hk
        rw [ancChain_snoc, List.mem_append, List.mem_singleton, not_or] at hk
        rw [FMap.find?_insert, if_neg hk.2]
        exact hmade.frame k hk.1
      · intro q hq hqn
        rw [ancChain_snoc, List.mem_append, List.mem_singleton] at hq
        rw [FMap.find?_insert]
        split
        · rfl
        · rcases hq with hq | hq
          · exact hmade.fresh q hq hqn
          · rename_i hne; exact absurd hq hne
    | some e =>
      rw [hf] at hsame
      have hdir : e.ftype = .dir := hnf _ (by rw [ancChain_snoc]; simp) e hf
      have hnotfile : ¬ e.ftype = .file := by rw [hdir]; decide
      simp only [Mem.createDirAllLoop, Mem.createDir_present m1 _ e hs hcont hsame, hnotfile,
        ↓reduceIte, fail, true_and]
      refine ⟨hmade.wf, ?_, hmade.keeps, ?_, ?_⟩
      · intro q hq
        rw [ancChain_snoc, List.mem_append, List.mem_singleton] at hq
        rcases hq with hq | hq
        · exact hmade.dirs q hq
        · subst hq; exact ⟨e, hsame, hdir⟩
      · intro k hk
        rw [ancChain_snoc, List.mem_append, List.mem_singleton, not_or] at hk
        exact hmade.frame k hk.1
      · intro q hq hqn
        rw [ancChain_snoc, List.mem_append, List.mem_singleton] at hq
        rcases hq with hq | hq
        · exact hmade.fresh q hq hqn
        · subst hq; rw [hf] at hqn; cases hqn

/-- (c) the first prefix that is a file stops the loop with `FileExists` naming that prefix; the
shorter prefixes HAVE been created (create_dir_all is not atomic) -/
theorem createDirAllLoop_file (m : FMap) (hm : WF m) (a b : List Str) (c : Str) (e : Entry)
    (hsl : ∀ x ∈ a ++ [c], '/' ∉ x)
    (hbefore : ∀ q ∈ ancChain a, ∀ e, m.find? q = some e → e.ftype = .dir)
    (hfile : m.find? (renderC (a ++ [c])) = some e) (hft : e.ftype = .file) :
    Mem.createDirAllLoop m (ancChain (a ++ c :: b)) =
      (.err .fileExists (some (renderC (a ++ [c]))), (Mem.createDirAllLoop m (ancChain a)).2) ∧
    ChainMade m (Mem.createDirAllLoop m (ancChain a)).2 a := by
  obtain ⟨hok, hmade⟩ := createDirAllLoop_chain m hm a (fun x hx => hsl x (by simp [hx])) hbefore
  refine ⟨?_, hmade⟩
  obtain ⟨rest, hrest⟩ := ancChain_append_exists (a ++ [c]) b
  have hcs : a ++ c :: b = (a ++ [c]) ++ b := by simp
  rw [hcs, hrest, ancChain_snoc, List.append_assoc, Mem.createDirAllLoop_append m _ _ hok]
  generalize (Mem.createDirAllLoop m (ancChain a)).2 = m1 at hmade
  have hc : '/' ∉ c := hsl c (by simp)
  have hd : renderC (a ++ [c]) = renderC a ++ '/' :: c := renderC_snoc a c
  have hs : '/' ∈ renderC (a ++ [c]) := by rw [hd]; simp
  have hpar : parentInternal (renderC (a ++ [c])) = renderC a := by
    rw [hd]; exact parent_of_child _ _ hc
  have hcont : ∃ pe, m1.find? (parentInternal (renderC (a ++ [c]))) = some pe ∧ pe.ftype = .dir := by
    rw [hpar]; exact hmade.parent_dir
  have hsame : m1.find? (renderC (a ++ [c])) = some e := by
    rw [hmade.frame _ (snoc_not_mem_ancChain a c)]; exact hfile
  simp only [List.singleton_append, Mem.createDirAllLoop, Mem.createDir_present m1 _ e hs hcont hsame,
    hft, ↓reduceIte, fail]

/-- visiting directories that all exist changes nothing at all -/
theorem createDirAllLoop_existing (m : FMap) (hm : WF m) (ds : List Str)
    (h : ∀ d ∈ ds, d ≠ [] ∧ ∃ e, m.find? d = some e ∧ e.ftype = .dir) :
    Mem.createDirAllLoop m ds = (.ok (), m) := by
  induction ds with
  | nil => rfl
  | cons d rest ih =>
    obtain ⟨hne, e, he, hd⟩ := h d (by simp)
    obtain ⟨hs, pe, hpe, hpd⟩ := hm.2 d e he hne
    have hcont : ∃ pe, m.find? (parentInternal d) = some pe ∧ pe.ftype = .dir := ⟨pe, hpe, hpd⟩
    have hnotfile : ¬ e.ftype = .file := by rw [hd]; decide
    simp only [Mem.createDirAllLoop, Mem.createDir_present m d e hs hcont he, hnotfile, ↓reduceIte, fail]
    exact ih (fun x hx => h x (by simp [hx]))

/-! ### 3. copy_file / move_file: the generic read/write route on memory leaves -/

theorem cursorWrite_nil (bs : Bytes) : cursorWrite [] 0 bs = bs := by
  simp [cursorWrite, padTo]

theorem MemLeafAt.set_ne {w : World} {i j : Nat} {m : FMap} (h : MemLeafAt w j m) (hij : i ≠ j)
    (f : FMap) : MemLeafAt (w.setLeafFiles i f) j m := by
  unfold MemLeafAt at *
  rw [World.leaf?_setLeafFiles_ne w i j f hij]; exact h

/-- `open_file` stamps the access time -/
def touched (e : Entry) : Entry := { e with accessed := .now }

/-- the entry a completed copy leaves at a fresh destination -/
def copiedEntry (bs : Bytes) : Entry :=
  { ftype := .file, content := bs, created := .now, modified := .now, accessed := .now }

theorem Mem.openFile_file (m : FMap) (s : Str) (e : Entry) (hs : m.find? s = some e)
    (hf : e.ftype = .file) :
    Mem.openFile m s = (.ok { content := e.content, pos := 0 }, m.insert s (touched e)) := by
  simp [Mem.openFile, Mem.setAccessed, hs, hf, touched]

theorem ioCopyAndDrop_fresh (c : Bytes) (h : WHandle) (p : Str) :
    VPath.ioCopyAndDrop { content := c, pos := 0 } h p = h.writeAllAndDrop c := by
  funext w
  simp [VPath.ioCopyAndDrop, WHandle.writeAllAndDrop, bind, M.bind, M.withPath, M.ret,
    RHandle.readToEnd, Res.withPath]

theorem run_copyFile_mem {w : World} {i : Nat} {m : FMap} (h : MemLeafAt w i m) (s d : Str) :
    (leafFS i).copyFile s d w = (fail .notSupported, w) := by
  show onLeaf i _ w = _
  rw [run_onLeaf h]; simp [h.same]

theorem run_moveFile_mem {w : World} {i : Nat} {m : FMap} (h : MemLeafAt w i m) (s d : Str) :
    (leafFS i).moveFile s d w = (fail .notSupported, w) := by
  show onLeaf i _ w = _
  rw [run_onLeaf h]; simp [h.same]

theorem run_moveDir_mem {w : World} {i : Nat} {m : FMap} (h : MemLeafAt w i m) (s d : Str) :
    (leafFS i).moveDir s d w = (fail .notSupported, w) := by
  show onLeaf i _ w = _
  rw [run_onLeaf h]; simp [h.same]

theorem run_pWrite' {w : World} {i : Nat} {m : FMap} (h : MemLeafAt w i m) (id : Nat) (p : Str) (bs : Bytes) :
    M.bind (VPath.createFile { fs := leafFS i, fsId := id, path := p })
        (fun hd => hd.writeAllAndDrop bs) w =
      ((Mem.pWrite m p bs).1, w.setLeafFiles i (Mem.pWrite m p bs).2) :=
  run_pWrite h id p bs

/-- the read/write route of `copy_file` -/
def VPath.copyGeneric (src dst : VPath) : M Unit := do
  let r ← src.openFile
  let h ← dst.createFile
  VPath.ioCopyAndDrop r h src.path

theorem copyFile_generic_route (src dst : VPath) (w : World)
    (hex : dst.exists_ w = (.ok false, w))
    (hfast : src.fsId = dst.fsId →
      ∃ pth, src.fs.copyFile src.path dst.path w = (.err .notSupported pth, w)) :
    src.copyFile dst w = M.withPath src.path (src.copyGeneric dst) w := by
  unfold VPath.copyFile VPath.copyGeneric
  by_cases hid : src.fsId = dst.fsId
  · obtain ⟨pth, hp⟩ := hfast hid
    simp [M.withPath, bind, M.bind, hex, hid, M.attempt, hp]
  · simp [M.withPath, bind, M.bind, hex, hid, pure, M.pure, fail]


/-- the generic route of `copy_file` between memory leaves (the same one or two different ones,
whatever the `Arc` identities): open the source, then one write session on the destination -/
theorem run_copyFile_generic {w : World} {i j : Nat} {ms md mj : FMap}
    (hi : MemLeafAt w i ms) (hj : MemLeafAt w j md) (sid did : Nat) (s d : Str) (e : Entry)
    (hs : ms.find? s = some e) (hf : e.ftype = .file) (hd : md.find? d = none)
    (hj1 : MemLeafAt (w.setLeafFiles i (ms.insert s (touched e))) j mj) :
    VPath.copyFile { fs := leafFS i, fsId := sid, path := s } { fs := leafFS j, fsId := did, path := d } w =
      ((Mem.pWrite mj d e.content).1.withPath s,
        (w.setLeafFiles i (ms.insert s (touched e))).setLeafFiles j (Mem.pWrite mj d e.content).2) := by
  have hc : md.contains d = false := by simp [FMap.contains, hd]
  rw [copyFile_generic_route _ _ w (by simp [VPath.exists_, run_exists hj, hc])
    (fun _ => ⟨none, run_copyFile_mem hi s d⟩)]
  unfold VPath.copyGeneric
  simp only [bind, M.bind, M.withPath, VPath.openFile, run_openFile hi, Mem.openFile_file ms s e hs hf,
    Res.withPath, ioCopyAndDrop_fresh]
  have hw := run_pWrite' hj1 did d e.content
  simp only [M.bind] at hw
  rw [hw]

/-! ### fresh destination: what one write session leaves -/

/-- the destination is absent, its name has a parent part, and the parent is a directory -/
structure FreshDest (m : FMap) (d : Str) : Prop where
  absent : m.find? d = none
  slash : '/' ∈ d
  parent : ∃ pe, m.find? (parentInternal d) = some pe ∧ pe.ftype = .dir

theorem FreshDest.parentOk {m : FMap} {d : Str} (h : FreshDest m d) : Mem.parentOk m d = true := by
  obtain ⟨pe, hpe, hpd⟩ := h.parent
  simp [Mem.parentOk, hpe, hpd]

theorem FreshDest.createFile {m : FMap} {d : Str} (h : FreshDest m d) :
    Mem.createFile m d = (.ok (), m.insert d fileEntryNow) := by
  obtain ⟨pe, hpe, hpd⟩ := h.parent
  simp [Mem.createFile, Mem.ensureHasParent, h.slash, hpe, hpd, h.absent]

theorem FreshDest.pWrite {m : FMap} {d : Str} (h : FreshDest m d) (c : Bytes) :
    Mem.pWrite m d c = (.ok (), memPublish (m.insert d fileEntryNow) d c) := by
  simp [Mem.pWrite, h.parentOk, h.createFile, cursorWrite_nil]

theorem find?_publish_fresh (m : FMap) (d : Str) (c : Bytes) (k : Str) :
    (memPublish (m.insert d fileEntryNow) d c).find? k =
      if k = d then some (copiedEntry c) else m.find? k := by
  unfold memPublish
  have hft : fileEntryNow.ftype = .file := rfl
  simp only [FMap.find?_insert_self, hft, ↓reduceIte, FMap.find?_insert]
  split
  · rfl
  · rfl

/-- publishing keeps the keys unique (it is an insertion, or nothing) -/
theorem nodup_memPublish (m : FMap) (d : Str) (c : Bytes) (h : FMap.NodupKeys m) :
    FMap.NodupKeys (memPublish m d c) := by
  unfold memPublish
  split
  · split
    · exact FMap.nodup_insert _ _ _ h
    · exact h
  · exact h

/-- an insertion elsewhere keeps the destination fresh, provided it does not replace the parent
directory by a file -/
theorem FreshDest.insert_other {m : FMap} {d : Str} (h : FreshDest m d) (s : Str) (v : Entry)
    (hsd : s ≠ d) (hkeep : ∀ e, m.find? s = some e → e.ftype = .dir → v.ftype = .dir) :
    FreshDest (m.insert s v) d := by
  refine ⟨by rw [FMap.find?_insert_ne _ _ _ _ (Ne.symm hsd)]; exact h.absent, h.slash, ?_⟩
  obtain ⟨pe, hpe, hpd⟩ := h.parent
  rw [FMap.find?_insert]
  split
  · rename_i hps
    exact ⟨v, rfl, hkeep pe (by rw [← hps]; exact hpe) hpd⟩
  · exact ⟨pe, hpe, hpd⟩

/-! ### `copy_file` between memory leaves -/

/-- What a successful `copy_file s → d` from leaf `i` (holding `ms`) to leaf `j` (holding `md`)
leaves behind. ONE statement for `i = j` and `i ≠ j`: the destination leaf gains the file at `d`
with the source bytes; the source entry keeps type and bytes, only its access time is stamped
(`touched`); every other key of both leaves, and every other leaf, is unchanged. -/
structure Copied (i j : Nat) (ms md : FMap) (s d : Str) (e : Entry) (w w' : World) : Prop where
  others : ∀ l, l ≠ i → l ≠ j → w'.leaf? l = w.leaf? l
  ghost : w'.log = w.log ∧ w'.fault = w.fault ∧ w'.fired = w.fired
  leaves : ∃ ms' md', MemLeafAt w' i ms' ∧ MemLeafAt w' j md' ∧
    (∀ k, md'.find? k = if k = d then some (copiedEntry e.content)
                         else if i = j ∧ k = s then some (touched e) else md.find? k) ∧
    (∀ k, ms'.find? k = if i = j ∧ k = d then some (copiedEntry e.content)
                         else if k = s then some (touched e) else ms.find? k)
  /-- well-formedness and key uniqueness are kept -/
  inv : ∀ ms' md', MemLeafAt w' i ms' → MemLeafAt w' j md' →
    (WF ms → WF md → WF ms' ∧ WF md') ∧
    (FMap.NodupKeys ms → FMap.NodupKeys md → FMap.NodupKeys ms' ∧ FMap.NodupKeys md')

theorem MemLeafAt.unique {w : World} {i : Nat} {a b : FMap} (ha : MemLeafAt w i a)
    (hb : MemLeafAt w i b) : a = b := by
  unfold MemLeafAt at ha hb
  rw [ha] at hb; injection hb with hb; injection hb

theorem copyFile_mem {w : World} {i j : Nat} {ms md : FMap}
    (hi : MemLeafAt w i ms) (hj : MemLeafAt w j md) (sid did : Nat) (s d : Str) (e : Entry)
    (hs : ms.find? s = some e) (hf : e.ftype = .file) (hd : FreshDest md d) :
    ∃ w', VPath.copyFile { fs := leafFS i, fsId := sid, path := s }
            { fs := leafFS j, fsId := did, path := d } w = (.ok (), w') ∧
      Copied i j ms md s d e w w' := by
  by_cases hij : i = j
  · subst hij
    have hmd : md = ms := by
      unfold MemLeafAt at hi hj; rw [hi] at hj; injection hj with hj; injection hj with _ hj; exact hj.symm
    subst hmd
    have hsd : s ≠ d := by intro h; rw [h, hd.absent] at hs; cases hs
    have hd1 : FreshDest (md.insert s (touched e)) d :=
      hd.insert_other s _ hsd (fun e' he' hdir => by rw [hs] at he'; injection he' with he'; subst he'; rw [hf] at hdir; cases hdir)
    refine ⟨(w.setLeafFiles i (md.insert s (touched e))).setLeafFiles i
      (memPublish ((md.insert s (touched e)).insert d fileEntryNow) d e.content), ?_, ?_⟩
    · rw [run_copyFile_generic hi hj sid did s d e hs hf hd.absent (hi.set _), hd1.pWrite]
      rfl
    · refine ⟨?_, ⟨rfl, rfl, rfl⟩, ⟨_, _, (hi.set _).set _, (hi.set _).set _, ?_, ?_⟩, ?_⟩
      · intro l hl _
        rw [World.leaf?_setLeafFiles_ne _ _ _ _ (Ne.symm hl), World.leaf?_setLeafFiles_ne _ _ _ _ (Ne.symm hl)]
      · intro k
        rw [find?_publish_fresh, FMap.find?_insert]
        simp
      · intro k
        rw [find?_publish_fresh, FMap.find?_insert]
        simp
      · intro ms' md' hms' hmd'
        have e1 := hms'.unique ((hi.set (md.insert s (touched e))).set _)
        have e2 := hmd'.unique ((hi.set (md.insert s (touched e))).set _)
        subst e1; subst e2
        refine ⟨fun hwf _ => ?_, fun hnd _ => ?_⟩
        · have h1 : WF (md.insert s (touched e)) := hwf.setTime s e _ hs rfl
          have h2 := h1.pWrite d e.content
          rw [hd1.pWrite] at h2
          exact ⟨h2, h2⟩
        · have h2 : FMap.NodupKeys (memPublish ((md.insert s (touched e)).insert d fileEntryNow) d e.content) :=
            nodup_memPublish _ _ _ (FMap.nodup_insert _ _ _ (FMap.nodup_insert _ _ _ hnd))
          exact ⟨h2, h2⟩
  · have hd1 : MemLeafAt (w.setLeafFiles i (ms.insert s (touched e))) j md := hj.set_ne hij _
    refine ⟨(w.setLeafFiles i (ms.insert s (touched e))).setLeafFiles j
      (memPublish (md.insert d fileEntryNow) d e.content), ?_, ?_⟩
    · rw [run_copyFile_generic hi hj sid did s d e hs hf hd.absent hd1, hd.pWrite]
      rfl
    · refine ⟨?_, ⟨rfl, rfl, rfl⟩, ⟨_, _, ((hi.set _).set_ne (Ne.symm hij) _), hd1.set _, ?_, ?_⟩, ?_⟩
      · intro l hl hl'
        rw [World.leaf?_setLeafFiles_ne _ _ _ _ (Ne.symm hl'), World.leaf?_setLeafFiles_ne _ _ _ _ (Ne.symm hl)]
      · intro k
        rw [find?_publish_fresh]
        simp [hij]
      · intro k
        rw [FMap.find?_insert]
        simp [hij]
      · intro ms' md' hms' hmd'
        have e1 := hms'.unique ((hi.set (ms.insert s (touched e))).set_ne (Ne.symm hij) _)
        have e2 := hmd'.unique (hd1.set _)
        subst e1; subst e2
        refine ⟨fun hwfs hwfd => ⟨hwfs.setTime s e _ hs rfl, ?_⟩, fun hns hnd =>
          ⟨FMap.nodup_insert _ _ _ hns, nodup_memPublish _ _ _ (FMap.nodup_insert _ _ _ hnd)⟩⟩
        have h2 := hwfd.pWrite d e.content
        rw [hd.pWrite] at h2
        exact h2


/-- the read/write route of `move_file` -/
def VPath.moveTail (src : VPath) (r : RHandle) (h : WHandle) : M Unit := do
  let bytes ← M.withPath src.path (M.ret r.readToEnd.1)
  let (_, h') ← h.write bytes
  let res ← M.attempt src.removeFile
  h'.drop
  M.ret res

def VPath.moveGeneric (src dst : VPath) : M Unit := do
  let r ← src.openFile
  let h ← dst.createFile
  src.moveTail r h

theorem moveFile_generic_route (src dst : VPath) (w : World)
    (hex : dst.exists_ w = (.ok false, w))
    (hfast : src.fsId = dst.fsId →
      ∃ pth, src.fs.moveFile src.path dst.path w = (.err .notSupported pth, w)) :
    src.moveFile dst w = M.withPath src.path (src.moveGeneric dst) w := by
  unfold VPath.moveFile VPath.moveGeneric VPath.moveTail
  by_cases hid : src.fsId = dst.fsId
  · obtain ⟨pth, hp⟩ := hfast hid
    simp [M.withPath, bind, M.bind, hex, hid, M.attempt, hp]
  · simp [M.withPath, bind, M.bind, hex, hid, pure, M.pure, fail]

/-- `VfsPath::create_file` on a fresh destination of a memory leaf -/
theorem run_vcreateFile_fresh {w : World} {j : Nat} {m : FMap} (h : MemLeafAt w j m) (id : Nat)
    (d : Str) (hd : FreshDest m d) :
    VPath.createFile { fs := leafFS j, fsId := id, path := d } w =
      (.ok { leaf := j, key := d, kind := .memFile, buf := [], pos := 0 },
        w.setLeafFiles j (m.insert d fileEntryNow)) := by
  unfold VPath.createFile
  simp only [bind, M.bind, run_getParent h, hd.parentOk, ↓reduceIte, M.withPath, run_createFile h,
    hd.createFile, Res.map, Res.withPath]

theorem Mem.removeFile_file (m : FMap) (s : Str) (e : Entry) (hs : m.find? s = some e)
    (hf : e.ftype = .file) : Mem.removeFile m s = (.ok (), m.erase s) := by
  simp [Mem.removeFile, hs, hf]

/-- the tail of the generic `move_file` once the source is open and the destination created:
write to the buffer, remove the source (leaf `i`), publish the buffer (leaf `j`) -/
theorem run_moveTail {w : World} {i j : Nat} {mi mj : FMap} (sid : Nat) (s d : Str) (c : Bytes)
    (e : Entry) (hi : MemLeafAt w i mi) (hs : mi.find? s = some e) (hf : e.ftype = .file)
    (hj : MemLeafAt (w.setLeafFiles i (mi.erase s)) j mj) :
    VPath.moveTail { fs := leafFS i, fsId := sid, path := s } { content := c, pos := 0 }
        { leaf := j, key := d, kind := .memFile, buf := [], pos := 0 } w =
      (.ok (), (w.setLeafFiles i (mi.erase s)).setLeafFiles j (memPublish mj d c)) := by
  unfold MemLeafAt at hj
  unfold VPath.moveTail
  simp only [bind, M.bind, M.withPath, M.ret, RHandle.readToEnd, Res.withPath, WHandle.write,
    M.attempt, VPath.removeFile, run_removeFile hi, Mem.removeFile_file mi s e hs hf,
    WHandle.drop, WHandle.flush, hj, cursorWrite_nil, List.drop_zero, Bool.false_eq_true, ↓reduceIte]

theorem find?_publish_of (m : FMap) (d : Str) (c : Bytes) (hd : m.find? d = some fileEntryNow)
    (k : Str) :
    (memPublish m d c).find? k = if k = d then some (copiedEntry c) else m.find? k := by
  unfold memPublish
  have hft : fileEntryNow.ftype = .file := rfl
  simp only [hd, hft, ↓reduceIte, FMap.find?_insert]
  split <;> rfl

/-- What a successful `move_file` leaves behind: as `Copied`, and the source key is gone. -/
structure Moved (i j : Nat) (ms md : FMap) (s d : Str) (e : Entry) (w w' : World) : Prop where
  others : ∀ l, l ≠ i → l ≠ j → w'.leaf? l = w.leaf? l
  ghost : w'.log = w.log ∧ w'.fault = w.fault ∧ w'.fired = w.fired
  leaves : ∃ ms' md', MemLeafAt w' i ms' ∧ MemLeafAt w' j md' ∧
    (∀ k, md'.find? k = if k = d then some (copiedEntry e.content)
                         else if i = j ∧ k = s then none else md.find? k) ∧
    (∀ k, ms'.find? k = if k = s then none
                         else if i = j ∧ k = d then some (copiedEntry e.content) else ms.find? k)

theorem moveFile_mem {w : World} {i j : Nat} {ms md : FMap}
    (hi : MemLeafAt w i ms) (hj : MemLeafAt w j md) (sid did : Nat) (s d : Str) (e : Entry)
    (hs : ms.find? s = some e) (hf : e.ftype = .file) (hd : FreshDest md d) :
    ∃ w', VPath.moveFile { fs := leafFS i, fsId := sid, path := s }
            { fs := leafFS j, fsId := did, path := d } w = (.ok (), w') ∧
      Moved i j ms md s d e w w' := by
  have hc : md.contains d = false := by simp [FMap.contains, hd.absent]
  rw [moveFile_generic_route _ _ w (by simp [VPath.exists_, run_exists hj, hc])
    (fun _ => ⟨none, run_moveFile_mem hi s d⟩)]
  unfold VPath.moveGeneric
  have hi1 := hi.set (ms.insert s (touched e))
  by_cases hij : i = j
  · subst hij
    have hmd : md = ms := by
      unfold MemLeafAt at hi hj; rw [hi] at hj; injection hj with hj; injection hj with _ hj; exact hj.symm
    subst hmd
    have hsd : s ≠ d := by intro h; rw [h, hd.absent] at hs; cases hs
    have hd1 : FreshDest (md.insert s (touched e)) d :=
      hd.insert_other s _ hsd (fun e' he' hdir => by rw [hs] at he'; injection he' with he'; subst he'; rw [hf] at hdir; cases hdir)
    have hi2 := hi1.set ((md.insert s (touched e)).insert d fileEntryNow)
    have hs2 : ((md.insert s (touched e)).insert d fileEntryNow).find? s = some (touched e) := by
      rw [FMap.find?_insert_ne _ _ _ _ hsd, FMap.find?_insert_self]
    simp only [bind, M.bind, M.withPath, VPath.openFile, run_openFile hi, Mem.openFile_file md s e hs hf,
      Res.withPath, run_vcreateFile_fresh hi1 did d hd1,
      run_moveTail sid s d e.content (touched e) hi2 hs2 hf (hi2.set _)]
    refine ⟨_, rfl, ?_, ⟨rfl, rfl, rfl⟩, _, _, (hi2.set _).set _, (hi2.set _).set _, ?_, ?_⟩
    · intro l hl _
      simp only [World.leaf?_setLeafFiles_ne _ _ _ _ (Ne.symm hl)]
    · intro k
      rw [find?_publish_of _ _ _ (by rw [FMap.find?_erase_ne _ _ _ (Ne.symm hsd), FMap.find?_insert_self]),
        FMap.find?_erase, FMap.find?_insert, FMap.find?_insert]
      by_cases hkd : k = d <;> by_cases hks : k = s <;> simp [hkd, hks]
    · intro k
      rw [find?_publish_of _ _ _ (by rw [FMap.find?_erase_ne _ _ _ (Ne.symm hsd), FMap.find?_insert_self]),
        FMap.find?_erase, FMap.find?_insert, FMap.find?_insert]
      by_cases hkd : k = d <;> by_cases hks : k = s <;> simp [hkd, hks, hsd, Ne.symm hsd]
  · have hj1 : MemLeafAt (w.setLeafFiles i (ms.insert s (touched e))) j md := hj.set_ne hij _
    have hi2 := hi1.set_ne (Ne.symm hij) (md.insert d fileEntryNow)
    have hj2 := hj1.set (md.insert d fileEntryNow)
    have hs2 : (ms.insert s (touched e)).find? s = some (touched e) := FMap.find?_insert_self _ _ _
    have hj3 := hj2.set_ne hij ((ms.insert s (touched e)).erase s)
    simp only [bind, M.bind, M.withPath, VPath.openFile, run_openFile hi, Mem.openFile_file ms s e hs hf,
      Res.withPath, run_vcreateFile_fresh hj1 did d hd,
      run_moveTail sid s d e.content (touched e) hi2 hs2 hf hj3]
    refine ⟨_, rfl, ?_, ⟨rfl, rfl, rfl⟩, _, _, (hi2.set _).set_ne (Ne.symm hij) _, hj3.set _, ?_, ?_⟩
    · intro l hl hl'
      simp only [World.leaf?_setLeafFiles_ne _ _ _ _ (Ne.symm hl), World.leaf?_setLeafFiles_ne _ _ _ _ (Ne.symm hl')]
    · intro k
      rw [find?_publish_fresh]
      simp [hij]
    · intro k
      rw [FMap.find?_erase, FMap.find?_insert]
      by_cases hks : k = s <;> simp [hks, hij]

/-! ### 4. the fast path on a physical leaf -/

/-- leaf `i` of the world is a physical leaf holding `b` -/
def PhysLeafAt (w : World) (i : Nat) (b : FMap) : Prop :=
  w.leaf? i = some { kind := .phys, files := b }

theorem PhysLeafAt.set {w : World} {i : Nat} {b : FMap} (h : PhysLeafAt w i b) (b' : FMap) :
    PhysLeafAt (w.setLeafFiles i b') i b' := by
  unfold PhysLeafAt at *
  rw [World.setLeafFiles_same w i _ b' h]

theorem run_onLeaf_phys {w : World} {i : Nat} {b : FMap} (h : PhysLeafAt w i b) {α}
    (f : Leaf → Res α × FMap) :
    onLeaf i f w = ((f { kind := .phys, files := b }).1,
      w.setLeafFiles i (f { kind := .phys, files := b }).2) := by
  unfold onLeaf
  unfold PhysLeafAt at h
  rw [h]

theorem run_exists_phys {w : World} {i : Nat} {b : FMap} (h : PhysLeafAt w i b) (p : Str) :
    (leafFS i).exists_ p w = (.ok (Phys.exists_ b p), w) := by
  show onLeaf i _ w = _
  rw [run_onLeaf_phys h]
  simp [World.setLeafFiles_self w i _ h]

theorem copyFile_fast_route (src dst : VPath) (w w' : World)
    (hex : dst.exists_ w = (.ok false, w)) (hid : src.fsId = dst.fsId)
    (hfast : src.fs.copyFile src.path dst.path w = (.ok (), w')) :
    src.copyFile dst w = (.ok (), w') := by
  unfold VPath.copyFile
  simp [M.withPath, bind, M.bind, hex, hid, M.attempt, hfast, pure, M.pure, Res.withPath]

theorem moveFile_fast_route (src dst : VPath) (w w' : World)
    (hex : dst.exists_ w = (.ok false, w)) (hid : src.fsId = dst.fsId)
    (hfast : src.fs.moveFile src.path dst.path w = (.ok (), w')) :
    src.moveFile dst w = (.ok (), w') := by
  unfold VPath.moveFile
  simp [M.withPath, bind, M.bind, hex, hid, M.attempt, hfast, pure, M.pure, Res.withPath]

theorem FreshDest.lookup {b : FMap} {d : Str} (hwf : WF b) (h : FreshDest b d) :
    Phys.lookup b d = .ok none := by
  obtain ⟨pe, hpe, hpd⟩ := h.parent
  rw [hwf.lookup_child d h.slash pe hpe hpd, h.absent]

theorem Phys.copyFile_fresh (b : FMap) (hwf : WF b) (s d : Str) (e : Entry)
    (hs : b.find? s = some e) (hf : e.ftype = .file) (hd : FreshDest b d) :
    Phys.copyFile b s d = (.ok (), b.insert d { fileEntryNow with content := e.content }) := by
  simp [Phys.copyFile, hwf.lookup_present s e hs, hf, hd.lookup hwf]

theorem prefix_mem_ancestors (s k : Str) (h : (s ++ ['/']).isPrefixOf k = true) :
    s ∈ Phys.ancestors k := by
  rw [List.isPrefixOf_iff_prefix] at h
  obtain ⟨t, rfl⟩ := h
  rw [mem_ancestors]
  refine ⟨s.length, by simp [List.length_append], ?_, ?_⟩
  · simp [List.append_assoc]
  · simp [List.append_assoc]

/-- nothing lives below a file of a well-formed map -/
theorem WF.nothing_below_file {b : FMap} (hwf : WF b) (s : Str) (e : Entry)
    (hs : b.find? s = some e) (hf : e.ftype = .file) (k : Str) (hk : ∃ e', b.find? k = some e') :
    (s ++ ['/']).isPrefixOf k = false := by
  cases hp : (s ++ ['/']).isPrefixOf k with
  | false => rfl
  | true =>
    obtain ⟨e', he', hd'⟩ := hwf.ancestors_good k.length k (Nat.le_refl _) hk s (prefix_mem_ancestors s k hp)
    rw [hs] at he'; injection he' with he'; subst he'
    rw [hf] at hd'; cases hd'

theorem find?_renameTree_leaf (b : FMap) (s d : Str) (hsd : s ≠ d)
    (hnb : ∀ k ∈ b.keys, (s ++ ['/']).isPrefixOf k = false) (hd : b.find? d = none) (k : Str) :
    (Phys.renameTree b s d).find? k =
      if k = d then b.find? s else if k = s then none else b.find? k := by
  induction b with
  | nil => simp [Phys.renameTree]
  | cons kv rest ih =>
    obtain ⟨k1, v⟩ := kv
    have hnb1 : (s ++ ['/']).isPrefixOf k1 = false := hnb k1 (by simp [FMap.keys])
    rw [FMap.find?_cons] at hd
    have hk1d : k1 ≠ d := by intro h; simp [h] at hd
    rw [if_neg hk1d] at hd
    have ih' := ih (fun x hx => hnb x (by simp [FMap.keys] at hx ⊢; exact Or.inr hx)) hd
    unfold Phys.renameTree at ih' ⊢
    simp only [List.map_cons, hnb1, Bool.false_eq_true, ↓reduceIte]
    by_cases h1 : k1 = s
    · subst h1
      simp only [↓reduceIte, FMap.find?_cons, ih']
      by_cases hkd : k = d
      · simp [hkd]
      · have : ¬ d = k := fun h => hkd h.symm
        by_cases hks : k = k1
        · subst hks; simp [hk1d, Ne.symm hk1d]
        · have : ¬ k1 = k := fun h => hks h.symm
          simp [*]
    · simp only [h1, ↓reduceIte, FMap.find?_cons, ih']
      by_cases hk : k1 = k
      · subst hk; simp [hk1d, h1]
      · simp [hk]

theorem Phys.rename_file (b : FMap) (hwf : WF b) (s d : Str) (e : Entry)
    (hs : b.find? s = some e) (hf : e.ftype = .file) (hd : FreshDest b d) :
    Phys.rename b s d = (.ok (), Phys.renameTree b s d) := by
  obtain ⟨pe, hpe, hpd⟩ := hd.parent
  have hnp : (s ++ ['/']).isPrefixOf d = false := by
    cases hp : (s ++ ['/']).isPrefixOf d with
    | false => rfl
    | true =>
      have hres := hwf.resolve_child d hd.slash pe hpe hpd
      rw [resolveParent_ok_iff] at hres
      obtain ⟨e', he', hd'⟩ := hres s (prefix_mem_ancestors s d hp)
      rw [hs] at he'; injection he' with he'; subst he'
      rw [hf] at hd'; cases hd'
  simp [Phys.rename, hwf.resolve_present s e hs, hwf.resolve_child d hd.slash pe hpe hpd,
    hwf.lookup_present s e hs, hd.lookup hwf, hnp]

theorem Phys.find?_rename_file (b : FMap) (hwf : WF b) (s d : Str) (e : Entry)
    (hs : b.find? s = some e) (hf : e.ftype = .file) (hd : b.find? d = none) (k : Str) :
    (Phys.renameTree b s d).find? k =
      if k = d then some e else if k = s then none else b.find? k := by
  have hsd : s ≠ d := by intro h; rw [h, hd] at hs; cases hs
  rw [find?_renameTree_leaf b s d hsd ?_ hd, hs]
  intro x hx
  exact hwf.nothing_below_file s e hs hf x ((FMap.mem_keys_iff b x).1 hx)

/-- `copy_file` on one physical filesystem: the fast path (`std::fs::copy`) does it all -/
theorem copyFile_phys {w : World} {i : Nat} {b : FMap} (h : PhysLeafAt w i b) (hwf : WF b)
    (id : Nat) (s d : Str) (e : Entry) (hs : b.find? s = some e) (hf : e.ftype = .file)
    (hd : FreshDest b d) :
    VPath.copyFile { fs := leafFS i, fsId := id, path := s } { fs := leafFS i, fsId := id, path := d } w =
      (.ok (), w.setLeafFiles i (b.insert d { fileEntryNow with content := e.content })) := by
  apply copyFile_fast_route
  · simp [VPath.exists_, run_exists_phys h, Phys.exists_absent b d hd.absent]
  · rfl
  · show onLeaf i _ w = _
    rw [run_onLeaf_phys h]
    simp [Phys.copyFile_fresh b hwf s d e hs hf hd]

/-- `move_file` on one physical filesystem: the fast path (`std::fs::rename`) does it all -/
theorem moveFile_phys {w : World} {i : Nat} {b : FMap} (h : PhysLeafAt w i b) (hwf : WF b)
    (id : Nat) (s d : Str) (e : Entry) (hs : b.find? s = some e) (hf : e.ftype = .file)
    (hd : FreshDest b d) :
    VPath.moveFile { fs := leafFS i, fsId := id, path := s } { fs := leafFS i, fsId := id, path := d } w =
      (.ok (), w.setLeafFiles i (Phys.renameTree b s d)) := by
  apply moveFile_fast_route
  · simp [VPath.exists_, run_exists_phys h, Phys.exists_absent b d hd.absent]
  · rfl
  · show onLeaf i _ w = _
    rw [run_onLeaf_phys h]
    simp [Phys.rename_file b hwf s d e hs hf hd]

/-- freshness of a destination only looks at types, so it transfers along `CoreEq` -/
theorem FreshDest.of_coreEq {a b : FMap} {d : Str} (h : FreshDest a d) (hc : CoreEq a b) :
    FreshDest b d := by
  obtain ⟨pe, hpe, hpd⟩ := h.parent
  obtain ⟨pe', hpe', ht, _⟩ := hc.some _ pe hpe
  exact ⟨(hc.none_iff d).1 h.absent, h.slash, pe', hpe', by rw [ht]; exact hpd⟩

/-! ### 5. `remove_dir_all` on a memory leaf -/

/-- `k` is `P` or lies below it -/
def under (P k : Str) : Bool := decide (k = P) || (P ++ ['/']).isPrefixOf k

theorem under_self (P : Str) : under P P = true := by simp [under]

theorem under_iff (P k : Str) : under P k = true ↔ k = P ∨ ∃ t, k = P ++ '/' :: t := by
  unfold under
  rw [Bool.or_eq_true, decide_eq_true_eq, List.isPrefixOf_iff_prefix]
  constructor
  · rintro (h | ⟨t, ht⟩)
    · exact Or.inl h
    · exact Or.inr ⟨t, by rw [← ht]; simp⟩
  · rintro (h | ⟨t, ht⟩)
    · exact Or.inl h
    · exact Or.inr ⟨t, by rw [ht]; simp⟩

theorem under_child (P n k : Str) (h : under (P ++ '/' :: n) k = true) :
    under P k = true ∧ k ≠ P := by
  rw [under_iff] at h
  rcases h with h | ⟨t, h⟩
  · subst h
    refine ⟨(under_iff _ _).2 (Or.inr ⟨n, rfl⟩), ?_⟩
    intro heq
    have := congrArg List.length heq
    simp [List.length_append] at this
  · subst h
    refine ⟨(under_iff _ _).2 (Or.inr ⟨n ++ '/' :: t, by simp⟩), ?_⟩
    intro heq
    have := congrArg List.length heq
    simp [List.length_append] at this

theorem under_sibling (P n1 n2 : Str) (h2 : '/' ∉ n2) (hne : n1 ≠ n2) :
    under (P ++ '/' :: n1) (P ++ '/' :: n2) = false := by
  cases hu : under (P ++ '/' :: n1) (P ++ '/' :: n2) with
  | false => rfl
  | true =>
    rw [under_iff] at hu
    rcases hu with h | ⟨t, h⟩
    · have := List.append_cancel_left h
      injection this with _ this
      exact absurd this.symm hne
    · rw [List.append_assoc] at h
      have := List.append_cancel_left h
      injection this with _ this
      exact absurd (by rw [this]; simp) h2

/-- a present key strictly below `P` lies at or below a present child of `P` -/
theorem WF.below_via_child {m : FMap} (hwf : WF m) (P t : Str) (e : Entry)
    (hk : m.find? (P ++ '/' :: t) = some e) :
    ∃ n, '/' ∉ n ∧ (∃ e', m.find? (P ++ '/' :: n) = some e') ∧
      under (P ++ '/' :: n) (P ++ '/' :: t) = true := by
  by_cases hs : '/' ∈ t
  · -- t = n ++ '/' :: t' with n slash-free
    obtain ⟨n, t', rfl, hn⟩ : ∃ n t', t = n ++ '/' :: t' ∧ '/' ∉ n := by
      clear hk
      induction t with
      | nil => simp at hs
      | cons c cs ih =>
        by_cases hc : c = '/'
        · exact ⟨[], cs, by simp [hc], by simp⟩
        · have : '/' ∈ cs := by
            simp only [List.mem_cons] at hs
            rcases hs with h | h
            · exact absurd h.symm hc
            · exact h
          obtain ⟨n, t', h1, h2⟩ := ih this
          refine ⟨c :: n, t', by rw [h1]; simp, ?_⟩
          simp only [List.mem_cons, not_or]
          exact ⟨fun h => hc h.symm, h2⟩
    refine ⟨n, hn, ?_, (under_iff _ _).2 (Or.inr ⟨t', by simp⟩)⟩
    have hanc : (P ++ '/' :: n) ∈ Phys.ancestors (P ++ '/' :: (n ++ '/' :: t')) := by
      apply prefix_mem_ancestors
      rw [List.isPrefixOf_iff_prefix]
      exact ⟨t', by simp⟩
    obtain ⟨e', he', _⟩ := hwf.ancestors_good _ _ (Nat.le_refl _) ⟨e, hk⟩ _ hanc
    exact ⟨e', he'⟩
  · exact ⟨t, hs, ⟨e, hk⟩, under_self _⟩

/-- `m'` is `m` without the subtree at `P`; everything else is untouched -/
def SubtreeRemoved (m m' : FMap) (P : Str) : Prop :=
  ∀ k, m'.find? k = if under P k then none else m.find? k

/-- specification of `remove_dir_all fuel` on an existing directory of memory leaf `i`.
Fuel (the recursion depth available) must exceed the length difference to the longest key. -/
def RDSpec (i id fuel : Nat) : Prop :=
  ∀ (w : World) (m : FMap) (P : Str) (e : Entry), MemLeafAt w i m → WF m → FMap.NodupKeys m →
    P ≠ [] → m.find? P = some e → e.ftype = .dir →
    (∀ k e', m.find? k = some e' → k.length < P.length + fuel) →
    ∃ m', VPath.removeDirAll fuel { fs := leafFS i, fsId := id, path := P } w =
        (.ok (), w.setLeafFiles i m') ∧ WF m' ∧ FMap.NodupKeys m' ∧ SubtreeRemoved m m' P

/-- the children loop: the subtrees of the listed children go, one after the other -/
def RCSpec (i id fuel : Nat) : Prop :=
  ∀ (P : Str) (ns : List Str) (w : World) (m1 : FMap), MemLeafAt w i m1 → WF m1 →
    FMap.NodupKeys m1 → ns.Nodup → (∀ n ∈ ns, '/' ∉ n) →
    (∀ n ∈ ns, ∃ e, m1.find? (P ++ '/' :: n) = some e) →
    (∀ k e', m1.find? k = some e' → k.length < P.length + 1 + fuel) →
    ∃ m', VPath.removeChildren fuel
        (ns.map fun n => ({ fs := leafFS i, fsId := id, path := P ++ '/' :: n } : VPath)) w =
        (.ok (), w.setLeafFiles i m') ∧ WF m' ∧ FMap.NodupKeys m' ∧
      ∀ k, m'.find? k = if ns.any (fun n => under (P ++ '/' :: n) k) then none else m1.find? k

theorem run_vmetadata {w : World} {i : Nat} {m : FMap} (h : MemLeafAt w i m) (id : Nat) (p : Str)
    (e : Entry) (he : m.find? p = some e) :
    VPath.metadata { fs := leafFS i, fsId := id, path := p } w = (.ok e.meta, w) := by
  simp [VPath.metadata, M.withPath, run_metadata h, Mem.metadata, he, Res.withPath]

theorem rc_of_rd (i id fuel : Nat) (hRD : RDSpec i id fuel) : RCSpec i id fuel := by
  intro P ns
  induction ns with
  | nil =>
    intro w m1 h hwf hnd _ _ _ _
    exact ⟨m1, by simp [VPath.removeChildren, pure, M.pure, h.same], hwf, hnd, fun k => by simp⟩
  | cons n rest ih =>
    intro w m1 h hwf hnd hns hsl hex hb
    obtain ⟨ec, hec⟩ := hex n (by simp)
    have hn : '/' ∉ n := hsl n (by simp)
    rw [List.nodup_cons] at hns
    -- what remains to do once the first child is gone
    have cont : ∀ m2, WF m2 → FMap.NodupKeys m2 → SubtreeRemoved m1 m2 (P ++ '/' :: n) →
        ∃ m', VPath.removeChildren fuel
          (rest.map fun n => ({ fs := leafFS i, fsId := id, path := P ++ '/' :: n } : VPath))
          (w.setLeafFiles i m2) = (.ok (), w.setLeafFiles i m') ∧ WF m' ∧ FMap.NodupKeys m' ∧
        ∀ k, m'.find? k =
          if (n :: rest).any (fun n => under (P ++ '/' :: n) k) then none else m1.find? k := by
      intro m2 hwf2 hnd2 hrem
      obtain ⟨m', hrun, hwf', hnd', hfind⟩ := ih (w.setLeafFiles i m2) m2 (h.set m2) hwf2 hnd2 hns.2
        (fun x hx => hsl x (by simp [hx]))
        (fun x hx => by
          obtain ⟨ex, hex'⟩ := hex x (by simp [hx])
          refine ⟨ex, ?_⟩
          have hne : n ≠ x := fun heq => hns.1 (heq ▸ hx)
          rw [hrem, under_sibling P n x (hsl x (by simp [hx])) hne]
          exact hex')
        (fun k e' hk => by
          rw [hrem] at hk
          split at hk
          · cases hk
          · exact hb k e' hk)
      refine ⟨m', by rw [hrun, World.setLeafFiles_twice], hwf', hnd', ?_⟩
      intro k
      rw [hfind k, hrem k, List.any_cons]
      cases under (P ++ '/' :: n) k <;> simp
    rw [List.map_cons, VPath.removeChildren.eq_2]
    cases hft : ec.ftype with
    | file =>
      simp only [bind, M.bind, run_vmetadata h id _ ec hec, Entry.meta, hft,
        run_pRemoveFile h, Mem.pRemoveFile, Mem.removeFile_file m1 _ ec hec hft, Res.withPath]
      apply cont (m1.erase (P ++ '/' :: n))
      · have := hwf.pRemoveFile (P ++ '/' :: n)
        simpa [Mem.pRemoveFile, Mem.removeFile_file m1 _ ec hec hft] using this
      · exact FMap.nodup_erase _ _ hnd
      · intro k
        rw [FMap.find?_erase]
        by_cases hk : k = P ++ '/' :: n
        · subst hk; simp [under_self]
        · rw [if_neg hk]
          cases hu : under (P ++ '/' :: n) k with
          | false => simp
          | true =>
            simp only [↓reduceIte]
            cases hf : m1.find? k with
            | none => rfl
            | some e' =>
              have := hwf.nothing_below_file _ ec hec hft k ⟨e', hf⟩
              unfold under at hu
              rw [this] at hu
              simp [hk] at hu
    | dir =>
      obtain ⟨m2, hrun, hwf2, hnd2, hrem⟩ := hRD w m1 (P ++ '/' :: n) ec h hwf hnd (by simp) hec hft
        (fun k e' hk => by
          have := hb k e' hk
          simp [List.length_append]; omega)
      simp only [bind, M.bind, run_vmetadata h id _ ec hec, Entry.meta, hft, hrun]
      exact cont m2 hwf2 hnd2 hrem

theorem Mem.readDir_dir (m : FMap) (P : Str) (e : Entry) (he : m.find? P = some e)
    (hd : e.ftype = .dir) : Mem.readDir m P = .ok (m.keys.filterMap (childName P)) := by
  simp [Mem.readDir, he, hd]

theorem mem_listing (m : FMap) (P n : Str) (hn : '/' ∉ n) (e : Entry)
    (he : m.find? (P ++ '/' :: n) = some e) : n ∈ m.keys.filterMap (childName P) :=
  (mem_filterMap_childName m P n).2
    ⟨_, e, he, by simp, parent_of_child P n hn, afterLast_append_delim '/' P n hn⟩

theorem listing_spec (m : FMap) (P n : Str) (h : n ∈ m.keys.filterMap (childName P)) :
    '/' ∉ n ∧ ∃ e, m.find? (P ++ '/' :: n) = some e := by
  obtain ⟨k, e, hk, hs, hp, ha⟩ := (mem_filterMap_childName m P n).1 h
  obtain ⟨h1, h2⟩ := split_last '/' k hs
  unfold parentInternal at hp
  rw [hp, ha] at h1
  rw [ha] at h2
  exact ⟨h2, e, by rw [← h1]; exact hk⟩

theorem rd_all (i id : Nat) : ∀ fuel, RDSpec i id fuel := by
  intro fuel
  induction fuel with
  | zero =>
    intro w m P e _ _ _ _ he _ hb
    have := hb P e he
    omega
  | succ fuel ih =>
    have hRC := rc_of_rd i id fuel ih
    intro w m P e h hwf hnd hP he hd hb
    have hcont : m.contains P = true := (FMap.contains_iff _ _).2 ⟨e, he⟩
    obtain ⟨m1, hrun, hwf1, hnd1, hfind⟩ := hRC P (m.keys.filterMap (childName P)) w m h hwf hnd
      (filterMap_childName_nodup m P hnd) (fun n hn => (listing_spec m P n hn).1)
      (fun n hn => (listing_spec m P n hn).2) (fun k e' hk => by have := hb k e' hk; omega)
    -- after the children are gone, `P` is an empty directory
    have hP1 : m1.find? P = some e := by
      rw [hfind P]
      have : (m.keys.filterMap (childName P)).any (fun n => under (P ++ '/' :: n) P) = false := by
        rw [Bool.eq_false_iff]
        intro hany
        rw [List.any_eq_true] at hany
        obtain ⟨n, _, hu⟩ := hany
        exact (under_child P n P hu).2 rfl
      rw [this]; exact he
    have hempty : m1.keys.filterMap (childName P) = [] := by
      apply List.eq_nil_iff_forall_not_mem.2
      intro n hn
      obtain ⟨hsl, e', he'⟩ := listing_spec m1 P n hn
      rw [hfind] at he'
      split at he'
      · cases he'
      · rename_i hany
        apply hany
        rw [List.any_eq_true]
        exact ⟨n, mem_listing m P n hsl e' he', under_self _⟩
    have hrd : Mem.removeDir m1 P = (.ok (), m1.erase P) := by
      have hc1 : m1.contains P = true := (FMap.contains_iff _ _).2 ⟨e, hP1⟩
      simp [Mem.removeDir, Mem.readDir_dir m1 P e hP1 hd, hempty, hc1]
    refine ⟨m1.erase P, ?_, ?_, FMap.nodup_erase _ _ hnd1, ?_⟩
    · rw [VPath.removeDirAll.eq_2]
      have hl : (List.map (fun n => VPath.withStr { fs := leafFS i, fsId := id, path := P } (P ++ '/' :: n))
          (m.keys.filterMap (childName P))) =
          (List.map (fun n => ({ fs := leafFS i, fsId := id, path := P ++ '/' :: n } : VPath))
          (m.keys.filterMap (childName P))) := rfl
      simp only [bind, M.bind, VPath.exists_, run_exists h, hcont, Bool.not_true, Bool.false_eq_true,
        ↓reduceIte, VPath.readDir, M.withPath, run_readDir h, Mem.readDir_dir m P e he hd,
        Res.withPath, pure, M.pure, hl, hrun, run_pRemoveDir (h.set m1), Mem.pRemoveDir, hrd,
        World.setLeafFiles_twice]
    · have := hwf1.pRemoveDir P hP
      simpa [Mem.pRemoveDir, hrd] using this
    · intro k
      rw [FMap.find?_erase]
      by_cases hk : k = P
      · subst hk; simp [under_self]
      · rw [if_neg hk, hfind k]
        cases hany : (m.keys.filterMap (childName P)).any (fun n => under (P ++ '/' :: n) k) with
        | true =>
          rw [List.any_eq_true] at hany
          obtain ⟨n, _, hu⟩ := hany
          simp [(under_child P n k hu).1]
        | false =>
          simp only [Bool.false_eq_true, ↓reduceIte]
          cases hu : under P k with
          | false => simp
          | true =>
            simp only [↓reduceIte]
            cases hf : m.find? k with
            | none => rfl
            | some e' =>
              exfalso
              rcases (under_iff P k).1 hu with hkp | ⟨t, ht⟩
              · exact hk hkp
              · subst ht
                obtain ⟨n, hn, ⟨en, hen⟩, hun⟩ := hwf.below_via_child P t e' hf
                have : (m.keys.filterMap (childName P)).any (fun n => under (P ++ '/' :: n) (P ++ '/' :: t)) = true := by
                  rw [List.any_eq_true]
                  exact ⟨n, mem_listing m P n hn en hen, hun⟩
                rw [this] at hany; cases hany

/-! ### 6. copy_dir / move_dir -/

/-- the walk-and-copy route of `copy_dir` -/
def VPath.copyDirBody (fuel : Nat) (src dst : VPath) : M Nat := do
  dst.createDir
  let s ← src.walkDir
  VPath.copyItems fuel src dst s 0

theorem copyDir_route (fuel : Nat) (src dst : VPath) (w : World)
    (hex : dst.exists_ w = (.ok false, w)) :
    src.copyDir fuel dst w = M.withPath src.path (src.copyDirBody fuel dst) w := by
  unfold VPath.copyDir VPath.copyDirBody
  simp [M.withPath, bind, M.bind, hex]

/-- the walk-copy-remove route of `move_dir` -/
def VPath.moveDirBody (fuel : Nat) (src dst : VPath) : M Unit := do
  dst.createDir
  let s ← src.walkDir
  let _ ← VPath.copyItems fuel src dst s 0
  VPath.removeDirAll fuel src

theorem moveDir_route (fuel : Nat) (src dst : VPath) (w : World)
    (hex : dst.exists_ w = (.ok false, w))
    (hfast : src.fsId = dst.fsId →
      ∃ pth, src.fs.moveDir src.path dst.path w = (.err .notSupported pth, w)) :
    src.moveDir fuel dst w = M.withPath src.path (src.moveDirBody fuel dst) w := by
  unfold VPath.moveDir VPath.moveDirBody
  by_cases hid : src.fsId = dst.fsId
  · obtain ⟨pth, hp⟩ := hfast hid
    simp [M.withPath, bind, M.bind, hex, hid, M.attempt, hp]
  · simp [M.withPath, bind, M.bind, hex, hid, pure, M.pure, fail]

/-- an exhausted walk ends the copy loop with the count so far -/
theorem copyItems_done (fuel : Nat) (src dst : VPath) (count : Nat) (w : World) :
    VPath.copyItems (fuel + 1) src dst { inner := [], todo := [] } count w = (.ok count, w) := by
  rw [VPath.copyItems]
  simp [bind, M.bind, VPath.walkNext, VPath.walkFind, pure, M.pure]

theorem drop_child (S n : Str) : (S ++ '/' :: n).drop (S.length + 1) = n := by
  have : S ++ '/' :: n = (S ++ ['/']) ++ n := by simp
  rw [this]
  exact List.drop_left' (by simp)

/-- one step of the copy loop on a listed FILE of a memory leaf: the item is copied to
`dst/name` and counted -/
theorem copyItems_file_step {w : World} {i : Nat} {ms : FMap} (h : MemLeafAt w i ms)
    (fuel sid : Nat) (S n : Str) (dfs : FS) (did : Nat) (bs : List Str) (hbs : ∀ c ∈ bs, '/' ∉ c)
    (hn : GoodComp n) (e : Entry) (he : ms.find? (S ++ '/' :: n) = some e) (hf : e.ftype = .file)
    (inner : List VPath) (count : Nat) :
    VPath.copyItems (fuel + 1) { fs := leafFS i, fsId := sid, path := S }
        { fs := dfs, fsId := did, path := renderC bs }
        { inner := { fs := leafFS i, fsId := sid, path := S ++ '/' :: n } :: inner, todo := [] } count w =
      M.bind (VPath.copyFile { fs := leafFS i, fsId := sid, path := S ++ '/' :: n }
                { fs := dfs, fsId := did, path := renderC (bs ++ [n]) })
        (fun _ => VPath.copyItems fuel { fs := leafFS i, fsId := sid, path := S }
          { fs := dfs, fsId := did, path := renderC bs } { inner := inner, todo := [] } (count + 1)) w := by
  rw [VPath.copyItems]
  have hlen : ¬ (S ++ '/' :: n).length < S.length + 1 := by simp [List.length_append]
  simp only [bind, M.bind, VPath.walkNext, VPath.walkFind, pure, M.pure,
    run_vmetadata h sid _ e he, Entry.meta, hf, ↓reduceIte, reduceCtorEq,
    VPath.relJoin, hlen, drop_child, VPath.join, C06.join_name bs n hbs hn, Res.map, M.ret,
    VPath.withStr]

theorem child_inj (P a b : Str) (h : P ++ '/' :: a = P ++ '/' :: b) : a = b := by
  have := List.append_cancel_left h
  injection this

/-- What copying the listed files `S/n ↦ D/n` (n ∈ ns) from leaf `i` to leaf `j` leaves behind;
one statement for `i = j` and `i ≠ j`. -/
structure FlatCopied (i j : Nat) (ms md : FMap) (S D : Str) (ns : List Str) (w w' : World) : Prop where
  others : ∀ l, l ≠ i → l ≠ j → w'.leaf? l = w.leaf? l
  leaves : ∃ ms' md', MemLeafAt w' i ms' ∧ MemLeafAt w' j md' ∧
    -- every listed file arrived with its bytes
    (∀ n ∈ ns, ∃ e, ms.find? (S ++ '/' :: n) = some e ∧
      md'.find? (D ++ '/' :: n) = some (copiedEntry e.content)) ∧
    -- the sources are still there (access time stamped)
    (∀ n ∈ ns, ∃ e, ms.find? (S ++ '/' :: n) = some e ∧
      ms'.find? (S ++ '/' :: n) = some (touched e)) ∧
    -- nothing else changed on the destination leaf
    (∀ k, (∀ n ∈ ns, k ≠ D ++ '/' :: n) → (i = j → ∀ n ∈ ns, k ≠ S ++ '/' :: n) →
      md'.find? k = md.find? k) ∧
    -- nothing else changed on the source leaf
    (∀ k, (∀ n ∈ ns, k ≠ S ++ '/' :: n) → (i = j → ∀ n ∈ ns, k ≠ D ++ '/' :: n) →
      ms'.find? k = ms.find? k)
  inv : ∀ ms' md', MemLeafAt w' i ms' → MemLeafAt w' j md' →
    (WF ms → WF md → WF ms' ∧ WF md') ∧
    (FMap.NodupKeys ms → FMap.NodupKeys md → FMap.NodupKeys ms' ∧ FMap.NodupKeys md')

theorem copyItems_flat {i j : Nat} (sid did : Nat) (S : Str) (bs : List Str)
    (hbs : ∀ c ∈ bs, '/' ∉ c) :
    ∀ (ns : List Str) (fuel count : Nat) (w : World) (ms md : FMap),
      MemLeafAt w i ms → MemLeafAt w j md → ns.length < fuel → ns.Nodup →
      (∀ n ∈ ns, GoodComp n) →
      (∀ n ∈ ns, ∃ e, ms.find? (S ++ '/' :: n) = some e ∧ e.ftype = .file) →
      (∃ de, md.find? (renderC bs) = some de ∧ de.ftype = .dir) →
      (∀ n ∈ ns, md.find? (renderC bs ++ '/' :: n) = none) →
      ∃ w', VPath.copyItems fuel { fs := leafFS i, fsId := sid, path := S }
            { fs := leafFS j, fsId := did, path := renderC bs }
            { inner := ns.map fun n => ({ fs := leafFS i, fsId := sid, path := S ++ '/' :: n } : VPath),
              todo := [] } count w = (.ok (count + ns.length), w') ∧
        FlatCopied i j ms md S (renderC bs) ns w w' := by
  intro ns
  induction ns with
  | nil =>
    intro fuel count w ms md hi hj hfuel _ _ _ _ _
    obtain ⟨fuel', rfl⟩ : ∃ f, fuel = f + 1 := ⟨fuel - 1, by simp at hfuel; omega⟩
    refine ⟨w, by simp [copyItems_done], fun _ _ _ => rfl, ⟨ms, md, hi, hj, by simp, by simp,
      fun _ _ _ => rfl, fun _ _ _ => rfl⟩, ?_⟩
    intro ms' md' hms' hmd'
    have e1 := hms'.unique hi
    have e2 := hmd'.unique hj
    subst e1; subst e2
    exact ⟨fun h1 h2 => ⟨h1, h2⟩, fun h1 h2 => ⟨h1, h2⟩⟩
  | cons n rest ih =>
    intro fuel count w ms md hi hj hfuel hnd hgood hsrc hD habs
    obtain ⟨fuel', rfl⟩ : ∃ f, fuel = f + 1 := ⟨fuel - 1, by simp at hfuel; omega⟩
    rw [List.nodup_cons] at hnd
    obtain ⟨e, he, hf⟩ := hsrc n (by simp)
    obtain ⟨de, hde, hdd⟩ := hD
    have hn := hgood n (by simp)
    have hsame : i = j → ms = md := fun hij => by subst hij; exact hi.unique hj
    -- a present source name is never an absent destination name on the same leaf
    have hAB : ∀ x y, i = j → (∃ ex, ms.find? (S ++ '/' :: x) = some ex) →
        md.find? (renderC bs ++ '/' :: y) = none → S ++ '/' :: x ≠ renderC bs ++ '/' :: y := by
      intro x y hij ⟨ex, hex⟩ hy heq
      rw [hsame hij, heq, hy] at hex; cases hex
    have hfresh : FreshDest md (renderC bs ++ '/' :: n) :=
      ⟨habs n (by simp), by simp, de, by rw [parent_of_child _ _ hn.2.1]; exact hde, hdd⟩
    obtain ⟨w1, hrun1, hc1, _, ⟨ms1, md1, hi1, hj1, hmd1, hms1⟩, hinv1⟩ :=
      copyFile_mem hi hj sid did (S ++ '/' :: n) (renderC bs ++ '/' :: n) e he hf hfresh
    -- facts about the maps after the first copy
    have hsrc_keep : ∀ x ∈ rest, ms1.find? (S ++ '/' :: x) = ms.find? (S ++ '/' :: x) := by
      intro x hx
      rw [hms1]
      have h1 : ¬ (i = j ∧ S ++ '/' :: x = renderC bs ++ '/' :: n) := fun ⟨hij, heq⟩ =>
        hAB x n hij (by obtain ⟨ex, hex, _⟩ := hsrc x (by simp [hx]); exact ⟨ex, hex⟩) (habs n (by simp)) heq
      have h2 : S ++ '/' :: x ≠ S ++ '/' :: n := fun heq => hnd.1 (child_inj S x n heq ▸ hx)
      rw [if_neg h1, if_neg h2]
    have hD1 : ∃ de, md1.find? (renderC bs) = some de ∧ de.ftype = .dir := by
      rw [hmd1]
      have h1 : renderC bs ≠ renderC bs ++ '/' :: n := by
        intro heq; have := congrArg List.length heq; simp [List.length_append] at this
      have h2 : ¬ (i = j ∧ renderC bs = S ++ '/' :: n) := fun ⟨hij, heq⟩ => by
        rw [hsame hij, ← heq, hde] at he; injection he with he; subst he; rw [hf] at hdd; cases hdd
      rw [if_neg h1, if_neg h2]; exact ⟨de, hde, hdd⟩
    have habs1 : ∀ x ∈ rest, md1.find? (renderC bs ++ '/' :: x) = none := by
      intro x hx
      rw [hmd1]
      have h1 : renderC bs ++ '/' :: x ≠ renderC bs ++ '/' :: n := fun heq =>
        hnd.1 (child_inj _ x n heq ▸ hx)
      have h2 : ¬ (i = j ∧ renderC bs ++ '/' :: x = S ++ '/' :: n) := fun ⟨hij, heq⟩ =>
        hAB n x hij ⟨e, he⟩ (habs x (by simp [hx])) heq.symm
      rw [if_neg h1, if_neg h2]; exact habs x (by simp [hx])
    obtain ⟨w', hrun', hothers', ⟨ms', md', hi', hj', hdst', hsrc', hmdf', hmsf'⟩, hinv'⟩ :=
      ih fuel' (count + 1) w1 ms1 md1 hi1 hj1 (by simp at hfuel; omega) hnd.2
        (fun x hx => hgood x (by simp [hx]))
        (fun x hx => by
          obtain ⟨ex, hex, hfx⟩ := hsrc x (by simp [hx])
          exact ⟨ex, by rw [hsrc_keep x hx]; exact hex, hfx⟩)
        hD1 habs1
    refine ⟨w', ?_, ?_, ⟨ms', md', hi', hj', ?_, ?_, ?_, ?_⟩, ?_⟩
    · rw [List.map_cons, copyItems_file_step hi fuel' sid S n (leafFS j) did bs hbs hn e he hf,
        renderC_snoc]
      simp only [M.bind, hrun1, hrun', List.length_cons]
      congr 2; omega
    · intro l hl hl'
      rw [hothers' l hl hl', hc1 l hl hl']
    · intro x hx
      rw [List.mem_cons] at hx
      rcases hx with rfl | hx
      · refine ⟨e, he, ?_⟩
        rw [hmdf' _ (fun y hy heq => hnd.1 (child_inj _ x y heq ▸ hy))
          (fun hij y hy heq => hAB y x hij
            (by obtain ⟨ex, hex, _⟩ := hsrc y (by simp [hy]); exact ⟨ex, hex⟩) (habs x (by simp)) heq.symm),
          hmd1, if_pos rfl]
      · obtain ⟨e1, he1, hd1⟩ := hdst' x hx
        rw [hsrc_keep x hx] at he1
        exact ⟨e1, he1, hd1⟩
    · intro x hx
      rw [List.mem_cons] at hx
      rcases hx with rfl | hx
      · refine ⟨e, he, ?_⟩
        rw [hmsf' _ (fun y hy heq => hnd.1 (child_inj _ x y heq ▸ hy))
          (fun hij y hy heq => hAB x y hij ⟨e, he⟩ (habs y (by simp [hy])) heq),
          hms1, if_neg (fun ⟨hij, heq⟩ => hAB x x hij ⟨e, he⟩ (habs x (by simp)) heq), if_pos rfl]
      · obtain ⟨e1, he1, hs1⟩ := hsrc' x hx
        rw [hsrc_keep x hx] at he1
        exact ⟨e1, he1, hs1⟩
    · intro k hk1 hk2
      rw [hmdf' k (fun y hy => hk1 y (by simp [hy])) (fun hij y hy => hk2 hij y (by simp [hy])),
        hmd1, if_neg (hk1 n (by simp)), if_neg (fun ⟨hij, heq⟩ => hk2 hij n (by simp) heq)]
    · intro k hk1 hk2
      rw [hmsf' k (fun y hy => hk1 y (by simp [hy])) (fun hij y hy => hk2 hij y (by simp [hy])),
        hms1, if_neg (fun ⟨hij, heq⟩ => hk2 hij n (by simp) heq), if_neg (hk1 n (by simp))]
    · intro ms'' md'' hms'' hmd''
      obtain ⟨hw1, hn1⟩ := hinv1 ms1 md1 hi1 hj1
      obtain ⟨hw2, hn2⟩ := hinv' ms'' md'' hms'' hmd''
      exact ⟨fun a b => hw2 (hw1 a b).1 (hw1 a b).2, fun a b => hn2 (hn1 a b).1 (hn1 a b).2⟩

theorem FMap.erase_absent (m : FMap) (k : Str) (h : m.find? k = none) : m.erase k = m := by
  induction m with
  | nil => rfl
  | cons kv rest ih =>
    obtain ⟨k1, v⟩ := kv
    rw [FMap.find?_cons] at h
    by_cases h1 : k1 = k
    · simp [h1] at h
    · rw [if_neg h1] at h
      rw [FMap.erase_cons, if_neg h1, ih h]

theorem FreshDest.pCreateDir {m : FMap} {d : Str} (h : FreshDest m d) :
    Mem.pCreateDir m d = (.ok (), m.insert d dirEntryNow) := by
  simp [Mem.pCreateDir, h.parentOk, Mem.createDir_fresh m d h.slash h.parent h.absent, Res.withPath]

/-- the directory `S` of `ms` holds only files, with canonical names -/
structure FlatDir (ms : FMap) (S : Str) : Prop where
  isDir : ∃ se, ms.find? S = some se ∧ se.ftype = .dir
  files : ∀ n ∈ ms.keys.filterMap (childName S),
    GoodComp n ∧ ∃ e, ms.find? (S ++ '/' :: n) = some e ∧ e.ftype = .file

/-- What `copy_dir S → D` of a flat directory leaves behind (one statement for the same leaf and
for two leaves): the new directory `D`, under it every listed file with its bytes; the source
files keep type and bytes (access time stamped); every other key is unchanged. -/
structure FlatDirCopied (i j : Nat) (ms md : FMap) (S D : Str) (w w' : World) : Prop where
  others : ∀ l, l ≠ i → l ≠ j → w'.leaf? l = w.leaf? l
  leaves : ∃ ms' md', MemLeafAt w' i ms' ∧ MemLeafAt w' j md' ∧
    md'.find? D = some dirEntryNow ∧
    (∀ n ∈ ms.keys.filterMap (childName S), ∃ e, ms.find? (S ++ '/' :: n) = some e ∧
      md'.find? (D ++ '/' :: n) = some (copiedEntry e.content)) ∧
    (∀ n ∈ ms.keys.filterMap (childName S), ∃ e, ms.find? (S ++ '/' :: n) = some e ∧
      ms'.find? (S ++ '/' :: n) = some (touched e)) ∧
    (∀ k, k ≠ D → (∀ n ∈ ms.keys.filterMap (childName S), k ≠ D ++ '/' :: n) →
      (i = j → ∀ n ∈ ms.keys.filterMap (childName S), k ≠ S ++ '/' :: n) → md'.find? k = md.find? k) ∧
    (∀ k, (∀ n ∈ ms.keys.filterMap (childName S), k ≠ S ++ '/' :: n) →
      (i = j → k ≠ D ∧ ∀ n ∈ ms.keys.filterMap (childName S), k ≠ D ++ '/' :: n) →
      ms'.find? k = ms.find? k) ∧
    (WF ms → WF ms' ∧ WF md') ∧ (FMap.NodupKeys md → FMap.NodupKeys ms' ∧ FMap.NodupKeys md')

theorem copyDirBody_flat {w : World} {i j : Nat} {ms md : FMap}
    (hi : MemLeafAt w i ms) (hj : MemLeafAt w j md) (sid did fuel : Nat) (S : Str) (bs : List Str)
    (hbs : ∀ c ∈ bs, '/' ∉ c) (hnd : FMap.NodupKeys ms) (hwfd : WF md) (hflat : FlatDir ms S)
    (hfresh : FreshDest md (renderC bs)) (hout : i = j → parentInternal (renderC bs) ≠ S)
    (hfuel : (ms.keys.filterMap (childName S)).length < fuel) :
    ∃ w', VPath.copyDirBody fuel { fs := leafFS i, fsId := sid, path := S }
            { fs := leafFS j, fsId := did, path := renderC bs } w =
          (.ok (ms.keys.filterMap (childName S)).length, w') ∧
      FlatDirCopied i j ms md S (renderC bs) w w' := by
  obtain ⟨se, hse, hsd⟩ := hflat.isDir
  have hc : md.contains (renderC bs) = false := by simp [FMap.contains, hfresh.absent]
  have hsame : i = j → ms = md := fun hij => by subst hij; exact hi.unique hj
  have hj1 := hj.set (md.insert (renderC bs) dirEntryNow)
  -- leaf `i` after the destination directory has been created
  obtain ⟨ms1, hi1, hms1, hlist1, hwf1, hnd1⟩ : ∃ ms1,
      MemLeafAt (w.setLeafFiles j (md.insert (renderC bs) dirEntryNow)) i ms1 ∧
      (∀ k, ms1.find? k = if i = j ∧ k = renderC bs then some dirEntryNow else ms.find? k) ∧
      ms1.keys.filterMap (childName S) = ms.keys.filterMap (childName S) ∧
      (WF ms → WF ms1) ∧ FMap.NodupKeys ms1 := by
    by_cases hij : i = j
    · subst hij
      have := hsame rfl; subst this
      refine ⟨_, hj1, fun k => by rw [FMap.find?_insert]; simp, ?_, ?_, FMap.nodup_insert _ _ _ hnd⟩
      · have hcn : childName S (renderC bs) = none := by
          cases hcc : childName S (renderC bs) with
          | none => rfl
          | some n => exact absurd ((childName_iff _ _ _).1 hcc).2.1 (hout rfl)
        simp [FMap.insert, FMap.keys, FMap.erase_absent ms _ hfresh.absent, hcn]
      · intro hwf
        obtain ⟨pe, hpe, hpd⟩ := hfresh.parent
        exact hwf.insert_dir _ _ rfl hfresh.slash pe hpe hpd
    · exact ⟨ms, hi.set_ne (Ne.symm hij) _, fun k => by simp [hij], rfl, id, hnd⟩
  have hse1 : ms1.find? S = some se := by
    rw [hms1, if_neg]; exact hse
    rintro ⟨hij, heq⟩
    rw [hsame hij, heq, hfresh.absent] at hse; cases hse
  have hsrc1 : ∀ n ∈ ms.keys.filterMap (childName S), ms1.find? (S ++ '/' :: n) = ms.find? (S ++ '/' :: n) := by
    intro n hn
    rw [hms1, if_neg]
    rintro ⟨hij, heq⟩
    obtain ⟨_, e, he, _⟩ := hflat.files n hn
    rw [hsame hij, heq, hfresh.absent] at he; cases he
  have habs : ∀ n, md.find? (renderC bs ++ '/' :: n) = none := by
    intro n
    cases hf : md.find? (renderC bs ++ '/' :: n) with
    | none => rfl
    | some e' =>
      by_cases hsl : '/' ∈ n
      · -- then `renderC bs` would be a proper ancestor, hence present
        exfalso
        have hanc : renderC bs ∈ Phys.ancestors (renderC bs ++ '/' :: n) :=
          prefix_mem_ancestors _ _ (by rw [List.isPrefixOf_iff_prefix]; exact ⟨n, by simp⟩)
        obtain ⟨e'', he'', _⟩ := hwfd.ancestors_good _ _ (Nat.le_refl _) ⟨e', hf⟩ _ hanc
        rw [hfresh.absent] at he''; cases he''
      · exfalso
        refine hwfd.no_child_of_nondir (renderC bs) (fun e'' he'' => ?_) _ e' hf (by simp)
          (parent_of_child _ _ hsl)
        rw [hfresh.absent] at he''; cases he''
  obtain ⟨w', hrun', hothers', ⟨ms', md', hi', hj', hdst', hsrc', hmdf', hmsf'⟩, hinv'⟩ :=
    copyItems_flat (i := i) (j := j) sid did S bs hbs (ms.keys.filterMap (childName S)) fuel 0
      (w.setLeafFiles j (md.insert (renderC bs) dirEntryNow)) ms1 (md.insert (renderC bs) dirEntryNow)
      hi1 hj1 hfuel (filterMap_childName_nodup ms S hnd) (fun n hn => (hflat.files n hn).1)
      (fun n hn => by rw [hsrc1 n hn]; exact (hflat.files n hn).2)
      ⟨dirEntryNow, by simp, rfl⟩
      (fun n _ => by
        rw [FMap.find?_insert_ne _ _ _ _ (by
          intro heq; have := congrArg List.length heq; simp [List.length_append] at this)]
        exact habs n)
  refine ⟨w', ?_, ?_, ms', md', hi', hj', ?_, ?_, ?_, ?_, ?_, ?_, ?_⟩
  · unfold VPath.copyDirBody
    simp only [bind, M.bind, M.withPath, run_pCreateDir hj, hfresh.pCreateDir, VPath.walkDir,
      VPath.readDir, run_readDir hi1, Mem.readDir_dir ms1 S se hse1 hsd, hlist1, Res.withPath,
      pure, M.pure]
    have hl : (List.map (fun n => VPath.withStr { fs := leafFS i, fsId := sid, path := S } (S ++ '/' :: n))
        (ms.keys.filterMap (childName S))) =
        (List.map (fun n => ({ fs := leafFS i, fsId := sid, path := S ++ '/' :: n } : VPath))
        (ms.keys.filterMap (childName S))) := rfl
    simp only [hl, hrun', Nat.zero_add]
  · intro l hl hl'
    rw [hothers' l hl hl', World.leaf?_setLeafFiles_ne _ _ _ _ (Ne.symm hl')]
  · rw [hmdf' _ (fun n _ heq => by
        have := congrArg List.length heq; simp [List.length_append] at this)
      (fun hij n hn heq => by
        obtain ⟨_, e, he, _⟩ := hflat.files n hn
        rw [hsame hij, ← heq, hfresh.absent] at he; cases he)]
    simp
  · intro n hn
    obtain ⟨e, he, hd⟩ := hdst' n hn
    exact ⟨e, by rw [← hsrc1 n hn]; exact he, hd⟩
  · intro n hn
    obtain ⟨e, he, hd⟩ := hsrc' n hn
    exact ⟨e, by rw [← hsrc1 n hn]; exact he, hd⟩
  · intro k hk1 hk2 hk3
    rw [hmdf' k hk2 hk3, FMap.find?_insert_ne _ _ _ _ hk1]
  · intro k hk1 hk2
    rw [hmsf' k hk1 (fun hij => (hk2 hij).2), hms1, if_neg (fun ⟨hij, heq⟩ => (hk2 hij).1 heq)]
  · intro hwf
    obtain ⟨pe, hpe, hpd⟩ := hfresh.parent
    exact (hinv' ms' md' hi' hj').1 (hwf1 hwf) (hwfd.insert_dir _ _ rfl hfresh.slash pe hpe hpd)
  · intro hndd
    exact (hinv' ms' md' hi' hj').2 hnd1 (FMap.nodup_insert _ _ _ hndd)

theorem copyDir_flat {w : World} {i j : Nat} {ms md : FMap}
    (hi : MemLeafAt w i ms) (hj : MemLeafAt w j md) (sid did fuel : Nat) (S : Str) (bs : List Str)
    (hbs : ∀ c ∈ bs, '/' ∉ c) (hnd : FMap.NodupKeys ms) (hwfd : WF md) (hflat : FlatDir ms S)
    (hfresh : FreshDest md (renderC bs)) (hout : i = j → parentInternal (renderC bs) ≠ S)
    (hfuel : (ms.keys.filterMap (childName S)).length < fuel) :
    ∃ w', VPath.copyDir fuel { fs := leafFS i, fsId := sid, path := S }
            { fs := leafFS j, fsId := did, path := renderC bs } w =
          (.ok (ms.keys.filterMap (childName S)).length, w') ∧
      FlatDirCopied i j ms md S (renderC bs) w w' := by
  obtain ⟨w', hrun, hres⟩ := copyDirBody_flat hi hj sid did fuel S bs hbs hnd hwfd hflat hfresh hout hfuel
  have hc : md.contains (renderC bs) = false := by simp [FMap.contains, hfresh.absent]
  refine ⟨w', ?_, hres⟩
  rw [copyDir_route _ _ _ w (by simp [VPath.exists_, run_exists hj, hc])]
  simp only [M.withPath, hrun, Res.withPath]

theorem M.bind_assoc {α β γ} (m : M α) (f : α → M β) (g : β → M γ) :
    M.bind (M.bind m f) g = M.bind m (fun a => M.bind (f a) g) := by
  funext w
  unfold M.bind
  cases h : m w with
  | mk r w' => cases r <;> rfl

/-- below an absent path of a well-formed map there is nothing -/
theorem FreshDest.child_absent {m : FMap} {d : Str} (h : FreshDest m d) (hwf : WF m) (n : Str) :
    m.find? (d ++ '/' :: n) = none := by
  cases hf : m.find? (d ++ '/' :: n) with
  | none => rfl
  | some e' =>
    exfalso
    have hanc : d ∈ Phys.ancestors (d ++ '/' :: n) :=
      prefix_mem_ancestors _ _ (by rw [List.isPrefixOf_iff_prefix]; exact ⟨n, by simp⟩)
    obtain ⟨e'', he'', _⟩ := hwf.ancestors_good _ _ (Nat.le_refl _) ⟨e', hf⟩ _ hanc
    rw [h.absent] at he''; cases he''

theorem moveDirBody_eq (fuel : Nat) (src dst : VPath) :
    src.moveDirBody fuel dst =
      M.bind (src.copyDirBody fuel dst) (fun _ => VPath.removeDirAll fuel src) := by
  unfold VPath.moveDirBody VPath.copyDirBody
  simp only [bind, M.bind_assoc]

/-- a key below `S` whose last component is `n` has its parent below `S` (or is a child of `S`) -/
theorem under_parent (S D n : Str) (hn : '/' ∉ n) (hne : D ++ '/' :: n ≠ S)
    (h : under S (D ++ '/' :: n) = true) : under S D = true := by
  rcases (under_iff _ _).1 h with h | ⟨t, ht⟩
  · exact absurd h hne
  · have hp := congrArg parentInternal ht
    rw [parent_of_child D n hn] at hp
    by_cases hs : '/' ∈ t
    · obtain ⟨h1, h2⟩ := split_last '/' t hs
      have : S ++ '/' :: t = (S ++ '/' :: beforeLast '/' t) ++ '/' :: afterLast '/' t := by
        conv => lhs; rw [h1]
        simp
      rw [this, parent_of_child _ _ h2] at hp
      exact (under_iff _ _).2 (Or.inr ⟨_, hp⟩)
    · rw [parent_of_child S t hs] at hp
      rw [hp]; exact under_self S

/-- What `move_dir S → D` of a flat directory leaves behind: the destination as after `copy_dir`,
NO key at or below `S`, everything else unchanged. -/
structure FlatDirMoved (i j : Nat) (ms md : FMap) (S D : Str) (w w' : World) : Prop where
  others : ∀ l, l ≠ i → l ≠ j → w'.leaf? l = w.leaf? l
  leaves : ∃ ms' md', MemLeafAt w' i ms' ∧ MemLeafAt w' j md' ∧
    -- no trace of the source
    (∀ k, under S k = true → ms'.find? k = none) ∧
    md'.find? D = some dirEntryNow ∧
    (∀ n ∈ ms.keys.filterMap (childName S), ∃ e, ms.find? (S ++ '/' :: n) = some e ∧
      md'.find? (D ++ '/' :: n) = some (copiedEntry e.content)) ∧
    (∀ k, k ≠ D → (∀ n ∈ ms.keys.filterMap (childName S), k ≠ D ++ '/' :: n) →
      (i = j → under S k = false) → md'.find? k = md.find? k) ∧
    (∀ k, under S k = false →
      (i = j → k ≠ D ∧ ∀ n ∈ ms.keys.filterMap (childName S), k ≠ D ++ '/' :: n) →
      ms'.find? k = ms.find? k)

theorem moveDir_flat {w : World} {i j : Nat} {ms md : FMap}
    (hi : MemLeafAt w i ms) (hj : MemLeafAt w j md) (sid did fuel : Nat) (S : Str) (bs : List Str)
    (hbs : ∀ c ∈ bs, '/' ∉ c) (hnds : FMap.NodupKeys ms) (hndd : FMap.NodupKeys md)
    (hwfs : WF ms) (hwfd : WF md) (hflat : FlatDir ms S) (hS : S ≠ [])
    (hfresh : FreshDest md (renderC bs)) (hout : i = j → under S (renderC bs) = false)
    (hfuel : (ms.keys.filterMap (childName S)).length < fuel)
    (hb1 : ∀ k e', ms.find? k = some e' → k.length < S.length + fuel)
    (hb2 : i = j → (renderC bs).length < S.length + fuel ∧
      ∀ n ∈ ms.keys.filterMap (childName S), (renderC bs ++ '/' :: n).length < S.length + fuel) :
    ∃ w', VPath.moveDir fuel { fs := leafFS i, fsId := sid, path := S }
            { fs := leafFS j, fsId := did, path := renderC bs } w = (.ok (), w') ∧
      FlatDirMoved i j ms md S (renderC bs) w w' := by
  obtain ⟨se, hse, hsd⟩ := hflat.isDir
  have hsame : i = j → ms = md := fun hij => by subst hij; exact hi.unique hj
  have hc : md.contains (renderC bs) = false := by simp [FMap.contains, hfresh.absent]
  have hout' : i = j → parentInternal (renderC bs) ≠ S := by
    intro hij hp
    have := split_last '/' (renderC bs) hfresh.slash
    unfold parentInternal at hp
    rw [hp] at this
    have hu : under S (renderC bs) = true := (under_iff _ _).2 (Or.inr ⟨_, this.1⟩)
    rw [hout hij] at hu; cases hu
  have hchild : ∀ n, under S (S ++ '/' :: n) = true := fun n => (under_iff _ _).2 (Or.inr ⟨n, rfl⟩)
  -- facts for the same-leaf case
  have F1 : i = j → S ≠ renderC bs := by
    intro hij heq; rw [hsame hij, heq, hfresh.absent] at hse; cases hse
  have F2 : i = j → ∀ n, S ≠ renderC bs ++ '/' :: n := by
    intro hij n heq; rw [hsame hij, heq, hfresh.child_absent hwfd n] at hse; cases hse
  have F3 : i = j → ∀ n ∈ ms.keys.filterMap (childName S), under S (renderC bs ++ '/' :: n) = false := by
    intro hij n hn
    cases hu : under S (renderC bs ++ '/' :: n) with
    | false => rfl
    | true =>
      have := under_parent S (renderC bs) n (hflat.files n hn).1.2.1 (Ne.symm (F2 hij n)) hu
      rw [hout hij] at this; cases this
  have notchild : ∀ k, under S k = false → ∀ n ∈ ms.keys.filterMap (childName S), k ≠ S ++ '/' :: n := by
    intro k hk n _ heq; rw [heq, hchild n] at hk; cases hk
  obtain ⟨w1, hrun1, hothers1, ms1, md1, hi1, hj1, hD1, hdst1, hsrc1, hmdf1, hmsf1, hwf1, hnd1⟩ :=
    copyDirBody_flat hi hj sid did fuel S bs hbs hnds hwfd hflat hfresh hout' hfuel
  have hSu : under S S = true := under_self S
  -- the source directory is still there
  have hS1 : ms1.find? S = some se := by
    rw [hmsf1 S (fun n _ heq => by have := congrArg List.length heq; simp [List.length_append] at this)
      (fun hij => ⟨F1 hij, fun n _ => F2 hij n⟩)]
    exact hse
  have hbound : ∀ k e', ms1.find? k = some e' → k.length < S.length + fuel := by
    intro k e' hk
    by_cases h1 : ∃ n ∈ ms.keys.filterMap (childName S), k = S ++ '/' :: n
    · obtain ⟨n, hn, rfl⟩ := h1
      obtain ⟨_, e, he, _⟩ := hflat.files n hn
      exact hb1 _ e he
    · by_cases hij : i = j
      · by_cases h2 : k = renderC bs
        · subst h2; exact (hb2 hij).1
        · by_cases h3 : ∃ n ∈ ms.keys.filterMap (childName S), k = renderC bs ++ '/' :: n
          · obtain ⟨n, hn, rfl⟩ := h3; exact (hb2 hij).2 n hn
          · rw [hmsf1 k (fun n hn heq => h1 ⟨n, hn, heq⟩)
              (fun _ => ⟨h2, fun n hn heq => h3 ⟨n, hn, heq⟩⟩)] at hk
            exact hb1 k e' hk
      · rw [hmsf1 k (fun n hn heq => h1 ⟨n, hn, heq⟩) (fun h => absurd h hij)] at hk
        exact hb1 k e' hk
  obtain ⟨ms2, hrun2, _, _, hrem⟩ := rd_all i sid fuel w1 ms1 S se hi1 (hwf1 hwfs).1 (hnd1 hndd).1
    hS hS1 hsd hbound
  refine ⟨w1.setLeafFiles i ms2, ?_, ?_, ?_⟩
  · rw [moveDir_route _ _ _ w (by simp [VPath.exists_, run_exists hj, hc])
      (fun _ => ⟨none, run_moveDir_mem hi _ _⟩), moveDirBody_eq]
    simp only [M.withPath, M.bind, hrun1, hrun2, Res.withPath]
  · intro l hl hl'
    rw [World.leaf?_setLeafFiles_ne _ _ _ _ (Ne.symm hl), hothers1 l hl hl']
  · by_cases hij : i = j
    · subst hij
      have e1 := hi1.unique hj1
      subst e1
      have e2 := hsame rfl
      subst e2
      refine ⟨ms2, ms2, hi1.set ms2, hi1.set ms2, ?_, ?_, ?_, ?_, ?_⟩
      · intro k hk; rw [hrem k, hk]; rfl
      · rw [hrem, hout rfl]; exact hD1
      · intro n hn
        obtain ⟨e, he, hd⟩ := hdst1 n hn
        exact ⟨e, he, by rw [hrem, F3 rfl n hn]; exact hd⟩
      · intro k hk1 hk2 hk3
        rw [hrem, hk3 rfl]
        exact hmdf1 k hk1 hk2 (fun _ => notchild k (hk3 rfl))
      · intro k hk1 hk2
        rw [hrem, hk1]
        exact hmsf1 k (notchild k hk1) hk2
    · refine ⟨ms2, md1, hi1.set ms2, hj1.set_ne hij ms2, ?_, hD1, hdst1, ?_, ?_⟩
      · intro k hk; rw [hrem k, hk]; rfl
      · intro k hk1 hk2 _
        exact hmdf1 k hk1 hk2 (fun h => absurd h hij)
      · intro k hk1 _
        rw [hrem, hk1]
        exact hmsf1 k (notchild k hk1) (fun h => absurd h hij)

/-- in a well-formed map the shorter prefixes of a present path are existing directories -/
theorem WF.chain_dirs {m : FMap} (hwf : WF m) (a : List Str) (c : Str) (e : Entry)
    (hq : m.find? (renderC (a ++ [c])) = some e) :
    ∀ q' ∈ ancChain a, q' ≠ [] ∧ ∃ e', m.find? q' = some e' ∧ e'.ftype = .dir := by
  intro q' hq'
  obtain ⟨k, hk, rfl⟩ := (mem_ancChain a q').1 hq'
  have hsplit : renderC (a ++ [c]) = renderC (a.take (k + 1)) ++ renderC (a.drop (k + 1) ++ [c]) := by
    rw [← renderC_append, ← List.append_assoc, List.take_append_drop]
  have hne : a.take (k + 1) ≠ [] := by
    cases a with
    | nil => simp at hk
    | cons x xs => simp
  constructor
  · cases htk : a.take (k + 1) with
    | nil => exact absurd htk hne
    | cons x xs => simp
  · have hpre : (renderC (a.take (k + 1)) ++ ['/']).isPrefixOf (renderC (a ++ [c])) = true := by
      rw [List.isPrefixOf_iff_prefix, hsplit]
      cases hd : a.drop (k + 1) ++ [c] with
      | nil => simp at hd
      | cons x xs => exact ⟨x ++ renderC xs, by simp⟩
    exact hwf.ancestors_good _ _ (Nat.le_refl _) ⟨e, hq⟩ _ (prefix_mem_ancestors _ _ hpre)

/-- (c) on a well-formed map: a file among the prefixes stops `create_dir_all` with
`FileExists(that prefix)` and NOTHING has changed, because the shorter prefixes all exist -/
theorem createDirAllLoop_file_wf (m : FMap) (hm : WF m) (a b : List Str) (c : Str) (e : Entry)
    (hsl : ∀ x ∈ a ++ [c], '/' ∉ x)
    (hfile : m.find? (renderC (a ++ [c])) = some e) (hft : e.ftype = .file) :
    Mem.createDirAllLoop m (ancChain (a ++ c :: b)) =
      (.err .fileExists (some (renderC (a ++ [c]))), m) := by
  have hdirs := hm.chain_dirs a c e hfile
  have := (createDirAllLoop_file m hm a b c e hsl
    (fun q hq e' he' => by
      obtain ⟨_, e'', he'', hd⟩ := hdirs q hq
      rw [he'] at he''; injection he'' with he''; subst he''; exact hd) hfile hft).1
  rw [this, createDirAllLoop_existing m hm (ancChain a) hdirs]

/-! ### 7. evaluation helpers for the concrete examples -/

/-- the children loop with the recursive call abstracted (structural recursion on the list) -/
def rmChildrenWith (rec : VPath → M Unit) : List VPath → M Unit
  | [] => pure ()
  | c :: rest => do
    let md ← c.metadata
    match md.ftype with
    | .file => c.removeFile
    | .dir => rec c
    rmChildrenWith rec rest

/-- `remove_dir_all` by structural recursion on the fuel: the kernel can evaluate this one -/
def rmAll : Nat → VPath → M Unit
  | 0, _ => M.ret .panic
  | fuel + 1, p => do
    if !(← p.exists_) then pure ()
    else
      let children ← p.readDir
      rmChildrenWith (rmAll fuel) children
      p.removeDir

theorem rmChildrenWith_eq (fuel : Nat) (h : ∀ p, rmAll fuel p = VPath.removeDirAll fuel p) :
    ∀ l, rmChildrenWith (rmAll fuel) l = VPath.removeChildren fuel l := by
  intro l
  induction l with
  | nil => rw [VPath.removeChildren.eq_1]; rfl
  | cons c rest ih =>
    rw [VPath.removeChildren.eq_2, rmChildrenWith, ih, h c]
    rfl

theorem rmAll_eq : ∀ fuel p, rmAll fuel p = VPath.removeDirAll fuel p := by
  intro fuel
  induction fuel with
  | zero => intro p; rw [VPath.removeDirAll.eq_1]; rfl
  | succ fuel ih =>
    intro p
    rw [VPath.removeDirAll.eq_2, rmAll]
    have := rmChildrenWith_eq fuel ih
    simp only [this]

/-- `e` is a directory entry, as a Boolean -/
def isDirOpt : Option Entry → Bool
  | some e => decide (e.ftype = .dir)
  | none => false

/-- executable well-formedness check of a concrete map -/
def wfCheck (m : FMap) : Bool :=
  isDirOpt (m.find? []) &&
    m.keys.all (fun k => decide (k = []) || (decide ('/' ∈ k) && isDirOpt (m.find? (parentInternal k))))

theorem isDirOpt_spec (o : Option Entry) (h : isDirOpt o = true) : ∃ e, o = some e ∧ e.ftype = .dir := by
  cases o with
  | none => cases h
  | some e => exact ⟨e, rfl, by simpa [isDirOpt] using h⟩

theorem WF.of_check (m : FMap) (h : wfCheck m = true) : WF m := by
  unfold wfCheck at h
  rw [Bool.and_eq_true] at h
  refine ⟨isDirOpt_spec _ h.1, ?_⟩
  intro k e hk hne
  have hmem : k ∈ m.keys := (FMap.mem_keys_iff m k).2 ⟨e, hk⟩
  have := List.all_eq_true.1 h.2 k hmem
  simp only [Bool.or_eq_true, decide_eq_true_eq, Bool.and_eq_true] at this
  rcases this with h0 | ⟨h1, h2⟩
  · exact absurd h0 hne
  · exact ⟨h1, isDirOpt_spec _ h2⟩

/-- all keys are shorter than `n` -/
theorem keys_bound (m : FMap) (n : Nat) (h : m.keys.all (fun k => decide (k.length < n)) = true) :
    ∀ k e, m.find? k = some e → k.length < n := by
  intro k e hk
  have hmem : k ∈ m.keys := (FMap.mem_keys_iff m k).2 ⟨e, hk⟩
  simpa using List.all_eq_true.1 h k hmem

end Vfs
