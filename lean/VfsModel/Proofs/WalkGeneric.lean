/-
  `VfsPath::walk_dir` over ANY filesystem whose observers show a well-formed finite tree
  (lemma library for Props/C05WalkView.lean).

  WHAT IS HERE
  * 1. the interface `TreeViewOn fs S v` / `TreeView fs w v`:
       `v : Str → Option Entry` is a finite tree (finitely many present paths, the root `""` is a
       present directory, every other present path contains a '/', and its `parent_internal` is a
       present directory), and in every world of the set `S` the two trait methods the walker
       calls answer by `v`:
         - `read_dir p` of a directory `p` of `v` succeeds with the bare names of the present
           children of `p` (`n` is listed iff `'/' ∉ n` and `v (p ++ "/" ++ n)` is present), each
           once, in SOME order (the order may differ from call to call),
         - `metadata p` of a present `p` succeeds and reports the type of `v p`,
       and both leave the world INSIDE `S`. This is the precise "does not change anything the
       walker can see" condition: `S` is a set of worlds that all show `v`, closed under the two
       observers. `TreeView fs w v` is the special case `S = {w}` (observers leave the world
       unchanged) — that is what holds for MemoryFS, the overlay over memory layers and the altroot
       over a memory leaf (`open_file` stamps access times, but the walker never opens a file).
       `ViewAbsent fs S v dom` (separate, used only for `walk_dir` on a non-directory): on `dom`,
       absent paths answer not-found and files refuse `read_dir`.
  * 2. a finite view is the lookup function of a flat map (`exists_map`): this lets the purely
       combinatorial lemmas of Proofs/WalkLemmas.lean (`Good`, `pending`, `emit_good`, …) be reused.
  * 3. listings in arbitrary order (`IsListing`), the generic `expand_good'`.
  * 4. the generic step lemma `walkNext_spec'` (world threaded through `S`).
  * 5. the whole walk: `walkAll_spec'` (enough fuel: exactly the pending keys, each once, ancestors
       first, all items `.ok`) and `walkAll_short'` (fuel ≤ number of pending keys: the sentinel).
  * 6. `walk_dir` + collect from a directory: `walk_from_dir`.
  * 7. pure list consequences used for the index / split forms (`dirs_first_index`, `split_at_two`).

  HYPOTHESES are those of the interface; nothing is assumed about the order of listings.
  NOT HERE: anything about a concrete filesystem (see Props/C05WalkView.lean).
-/
import VfsModel.Proofs.WalkLemmas
namespace Vfs.WkG
open Vfs.Wk

/-! ### 1. the interface -/

/-- `names` is a listing of the directory `p` of the view `v`: the bare names of the present
children, each once, in some order -/
def IsNames (v : Str → Option Entry) (p : Str) (names : List Str) : Prop :=
  names.Nodup ∧ ∀ n, n ∈ names ↔ ('/' ∉ n ∧ v (p ++ '/' :: n) ≠ none)

/-- in every world of `S` the observers `read_dir` / `metadata` of `fs` are those of the finite
well-formed tree `v`, and they keep the world inside `S` -/
structure TreeViewOn (fs : FS) (S : World → Prop) (v : Str → Option Entry) : Prop where
  /-- finitely many present paths (any finite superset will do) -/
  finite : ∃ keys : List Str, ∀ k, v k ≠ none → k ∈ keys
  /-- the root `""` is a directory -/
  root : ∃ e, v [] = some e ∧ e.ftype = .dir
  /-- every other present path has a '/', and its parent is a present directory -/
  parent : ∀ k e, v k = some e → k ≠ [] →
    '/' ∈ k ∧ ∃ pe, v (parentInternal k) = some pe ∧ pe.ftype = .dir
  /-- `read_dir` of a directory: the bare names of the present children, each once, some order -/
  readDir : ∀ w, S w → ∀ p e, v p = some e → e.ftype = .dir →
    ∃ names w', fs.readDir p w = (.ok names, w') ∧ S w' ∧ IsNames v p names
  /-- `metadata` of a present path reports its type -/
  metadata : ∀ w, S w → ∀ p e, v p = some e →
    ∃ md w', fs.metadata p w = (.ok md, w') ∧ S w' ∧ md.ftype = e.ftype

/-- the observers show `v` in the world `w` and leave `w` unchanged -/
def TreeView (fs : FS) (w : World) (v : Str → Option Entry) : Prop :=
  TreeViewOn fs (fun w' => w' = w) v

/-- on the paths of `dom`: absent paths answer not-found to `read_dir` and `metadata`, files
refuse `read_dir` (with some error); the world stays in `S` -/
structure ViewAbsent (fs : FS) (S : World → Prop) (v : Str → Option Entry) (dom : Str → Prop) :
    Prop where
  absent : ∀ w, S w → ∀ p, dom p → v p = none →
    (∃ pth w', fs.readDir p w = (.err .fileNotFound pth, w') ∧ S w') ∧
    (∃ pth w', fs.metadata p w = (.err .fileNotFound pth, w') ∧ S w')
  file : ∀ w, S w → ∀ p e, dom p → v p = some e → e.ftype = .file →
    ∃ k pth w', fs.readDir p w = (.err k pth, w') ∧ S w'

/-- a larger set of worlds can be cut down to any observer-closed subset … the trivial direction:
a view on `S` is a view on every single world of `S` whose observers do not move it -/
theorem TreeViewOn.mono {fs : FS} {S S' : World → Prop} {v : Str → Option Entry}
    (tv : TreeViewOn fs S v) (hsub : ∀ w, S' w → S w)
    (hrd : ∀ w, S' w → ∀ p names w', fs.readDir p w = (.ok names, w') → S' w')
    (hmd : ∀ w, S' w → ∀ p md w', fs.metadata p w = (.ok md, w') → S' w') :
    TreeViewOn fs S' v where
  finite := tv.finite
  root := tv.root
  parent := tv.parent
  readDir := by
    intro w hw p e hp hd
    obtain ⟨names, w', h1, _, h3⟩ := tv.readDir w (hsub w hw) p e hp hd
    exact ⟨names, w', h1, hrd w hw p names w' h1, h3⟩
  metadata := by
    intro w hw p e hp
    obtain ⟨md, w', h1, _, h3⟩ := tv.metadata w (hsub w hw) p e hp
    exact ⟨md, w', h1, hmd w hw p md w' h1, h3⟩

/-! ### 2. a finite view is a flat map -/

def dedup : List Str → List Str
  | [] => []
  | k :: ks => if k ∈ dedup ks then dedup ks else k :: dedup ks

theorem mem_dedup (ks : List Str) (k : Str) : k ∈ dedup ks ↔ k ∈ ks := by
  induction ks with
  | nil => simp [dedup]
  | cons a ks ih =>
    unfold dedup
    split
    · rename_i ha
      rw [ih, List.mem_cons]
      constructor
      · exact Or.inr
      · rintro (rfl | h)
        · exact (ih.1 ha)
        · exact h
    · rw [List.mem_cons, List.mem_cons, ih]

theorem nodup_dedup (ks : List Str) : (dedup ks).Nodup := by
  induction ks with
  | nil => simp [dedup]
  | cons a ks ih =>
    unfold dedup
    split
    · exact ih
    · rename_i ha
      exact List.nodup_cons.2 ⟨ha, ih⟩

/-- the flat map with the keys `ks` (those present in `v`) and the entries of `v` -/
def mapOf (v : Str → Option Entry) (ks : List Str) : FMap :=
  ks.filterMap (fun k => (v k).map (fun e => (k, e)))

theorem find?_mapOf (v : Str → Option Entry) (ks : List Str) (k : Str) :
    (mapOf v ks).find? k = if k ∈ ks then v k else none := by
  induction ks with
  | nil => rfl
  | cons a ks ih =>
    unfold mapOf at ih ⊢
    rw [List.filterMap_cons]
    cases hva : v a with
    | none =>
      simp only [Option.map_none]
      rw [ih]
      by_cases hka : k = a
      · subst hka
        simp [hva]
      · simp [hka]
    | some e =>
      simp only [Option.map_some]
      rw [FMap.find?_cons]
      by_cases hka : a = k
      · subst hka
        simp [hva]
      · rw [if_neg hka, ih]
        have : k ≠ a := fun h => hka h.symm
        simp [this]

theorem nodupKeys_mapOf (v : Str → Option Entry) (ks : List Str) (h : ks.Nodup) :
    FMap.NodupKeys (mapOf v ks) := by
  unfold FMap.NodupKeys
  induction ks with
  | nil => simp [mapOf, FMap.keys]
  | cons a ks ih =>
    have hnd := List.nodup_cons.1 h
    have e : mapOf v (a :: ks) = match v a with
        | none => mapOf v ks
        | some e => (a, e) :: mapOf v ks := by
      unfold mapOf
      rw [List.filterMap_cons]
      cases v a <;> rfl
    rw [e]
    cases hva : v a with
    | none => exact ih hnd.2
    | some e =>
      show (a :: FMap.keys (mapOf v ks)).Nodup
      refine List.nodup_cons.2 ⟨?_, ih hnd.2⟩
      intro hm
      obtain ⟨e', he'⟩ := (FMap.mem_keys_iff _ _).1 hm
      rw [find?_mapOf] at he'
      split at he'
      · rename_i hin; exact hnd.1 hin
      · cases he'

/-- **a finite well-formed view is the lookup function of a well-formed flat map** -/
theorem exists_map {v : Str → Option Entry}
    (hfin : ∃ keys : List Str, ∀ k, v k ≠ none → k ∈ keys)
    (hroot : ∃ e, v [] = some e ∧ e.ftype = .dir)
    (hpar : ∀ k e, v k = some e → k ≠ [] →
      '/' ∈ k ∧ ∃ pe, v (parentInternal k) = some pe ∧ pe.ftype = .dir) :
    ∃ m : FMap, v = m.find? ∧ WF m ∧ FMap.NodupKeys m := by
  obtain ⟨keys, hkeys⟩ := hfin
  have hv : v = (mapOf v (dedup keys)).find? := by
    funext k
    rw [find?_mapOf]
    split
    · rfl
    · rename_i hk
      cases hvk : v k with
      | none => rfl
      | some e =>
        exact absurd ((mem_dedup keys k).2 (hkeys k (by rw [hvk]; simp))) hk
  refine ⟨mapOf v (dedup keys), hv, ?_, nodupKeys_mapOf v _ (nodup_dedup keys)⟩
  have hf : ∀ k, (mapOf v (dedup keys)).find? k = v k := fun k => (congrFun hv k).symm
  unfold WF
  simp only [hf]
  exact ⟨hroot, hpar⟩

/-! ### 3. listings in arbitrary order -/

/-- `l` lists the children of `p` in the map `m` as full paths, each once, in some order -/
def IsListing (m : FMap) (p : Str) (l : List Str) : Prop :=
  l.Nodup ∧ ∀ k, k ∈ l ↔ k ∈ children m p

theorem isListing_of_names {m : FMap} {p : Str} {names : List Str}
    (h : IsNames m.find? p names) : IsListing m p (names.map (fun n => p ++ '/' :: n)) := by
  obtain ⟨hnd, hmem⟩ := h
  constructor
  · unfold List.Nodup at *
    rw [List.pairwise_map]
    refine hnd.imp ?_
    intro a b hab heq
    exact hab (by simpa using List.append_cancel_left heq)
  · intro k
    rw [mem_children, List.mem_map]
    constructor
    · rintro ⟨n, hn, rfl⟩
      obtain ⟨hs, hpres⟩ := (hmem n).1 hn
      refine ⟨?_, by simp, parent_of_child p n hs⟩
      cases hf : m.find? (p ++ '/' :: n) with
      | none => exact absurd hf hpres
      | some e => exact ⟨e, rfl⟩
    · rintro ⟨⟨e, he⟩, hs, hp⟩
      obtain ⟨h1, h2⟩ := split_last '/' k hs
      have hk : k = p ++ '/' :: afterLast '/' k := by
        unfold parentInternal at hp
        rw [hp] at h1
        exact h1
      refine ⟨afterLast '/' k, (hmem _).2 ⟨h2, ?_⟩, hk.symm⟩
      rw [← hk, he]
      simp

theorem pending_congr_inner {l l' : List Str} (h : ∀ k, k ∈ l ↔ k ∈ l') (todo : List Str) (k : Str) :
    pending l todo k = pending l' todo k := by
  unfold pending
  congr 1
  rw [Bool.eq_iff_iff, List.any_eq_true, List.any_eq_true]
  constructor
  · rintro ⟨x, hx, hw⟩; exact ⟨x, (h x).1 hx, hw⟩
  · rintro ⟨x, hx, hw⟩; exact ⟨x, (h x).2 hx, hw⟩

/-- popping the stacked directory `d` and listing it in ANY order (pure part) -/
theorem expand_good' {m : FMap} (hwf : WF m) {d : Str} {todo l : List Str}
    (hl : IsListing m d l) (hg : Good m [] (d :: todo)) :
    Good m l todo ∧
    ∀ k, (∃ e', m.find? k = some e') → pending [] (d :: todo) k = pending l todo k := by
  have hap := hg.apart
  rw [List.nil_append, List.pairwise_cons] at hap
  obtain ⟨hd_ap, htodo_ap⟩ := hap
  have hch : ∀ c, c ∈ l → c ∈ children m d := fun c hc => (hl.2 c).1 hc
  refine ⟨⟨?_, ?_, ?_⟩, ?_⟩
  · exact fun c hc => ((mem_children m d c).1 (hch c hc)).1
  · exact fun y hy => hg.todoDirs y (List.mem_cons_of_mem _ hy)
  · rw [List.pairwise_append]
    refine ⟨?_, htodo_ap, ?_⟩
    · have hn := hl.1
      unfold List.Nodup at hn
      refine hn.imp_of_mem ?_
      intro a b ha hb hab
      exact ⟨siblings_apart (hch a ha) (hch b hb) hab,
        siblings_apart (hch b hb) (hch a ha) (Ne.symm hab)⟩
    · intro c hc y hy
      exact child_apart (hch c hc) (hd_ap y hy).1 (hd_ap y hy).2
  · intro k hk'
    rw [pending_congr_inner hl.2 todo k]
    unfold pending
    simp only [List.any_nil, List.any_cons, Bool.false_or]
    congr 1
    rw [Bool.eq_iff_iff, List.any_eq_true]
    constructor
    · intro hb
      exact below_via_child hwf d k.length k (Nat.le_refl _) hk' hb
    · rintro ⟨c, hc, hw⟩
      exact below_of_below_within (child_below hc) hw

/-- the initial state (any listing of `p`) is good, and pending are the keys strictly below `p` -/
theorem start_good' {m : FMap} (hwf : WF m) (p : Str) (e : Entry)
    (hp : m.find? p = some e) (hdir : e.ftype = .dir) {l : List Str} (hl : IsListing m p l) :
    Good m l [] ∧ ∀ k, (∃ e', m.find? k = some e') → pending l [] k = below p k := by
  have hg : Good m [] [p] := by
    refine ⟨(by intro x hx; cases hx), ?_, (by simp)⟩
    intro d hd
    simp only [List.mem_singleton] at hd
    subst hd; exact ⟨e, hp, hdir⟩
  obtain ⟨g1, g2⟩ := expand_good' hwf hl hg
  refine ⟨g1, ?_⟩
  intro k hk'
  rw [← g2 k hk']
  simp [pending]

/-! ### 4. one step of `next`, any filesystem showing the map `m` -/

/-- the state of the iterator with the given path strings, all on the filesystem of `P` -/
def st (P : VPath) (inner todo : List Str) : VPath.Walk :=
  { inner := inner.map P.withStr, todo := todo.map P.withStr }

section step
variable {S : World → Prop} {m : FMap} {P : VPath} (tv : TreeViewOn P.fs S m.find?)
include tv

theorem run_metadata' (w : World) (hw : S w) (x : Str) (e : Entry) (hx : m.find? x = some e) :
    ∃ md w', S w' ∧ (P.withStr x).metadata w = (.ok md, w') ∧ md.ftype = e.ftype := by
  obtain ⟨md, w', hmd, hS, hft⟩ := tv.metadata w hw x e hx
  refine ⟨md, w', hS, ?_, hft⟩
  unfold VPath.metadata M.withPath
  show (match P.fs.metadata x w with | (r, w') => (r.withPath x, w')) = _
  rw [hmd]
  rfl

theorem run_readDir' (w : World) (hw : S w) (d : Str) (e : Entry) (hd : m.find? d = some e)
    (hdir : e.ftype = .dir) :
    ∃ l w', S w' ∧ IsListing m d l ∧ (P.withStr d).readDir w = (.ok (l.map P.withStr), w') := by
  obtain ⟨names, w', hrd, hS, hn⟩ := tv.readDir w hw d e hd hdir
  refine ⟨names.map (fun n => d ++ '/' :: n), w', hS, isListing_of_names hn, ?_⟩
  have h1 : (P.withStr d).fs.readDir (P.withStr d).path w = (.ok names, w') := hrd
  unfold VPath.readDir
  simp only [bind, M.bind, M.withPath, h1, Res.withPath, pure, M.pure, List.map_map]
  rfl

/-- `next` on a non-empty current listing: the head is yielded, and stacked if a directory -/
theorem walkNext_cons' (w : World) (hw : S w) (x : Str) (rest todo : List Str) (e : Entry)
    (hx : m.find? x = some e) :
    ∃ w', S w' ∧ VPath.walkNext (st P (x :: rest) todo) w =
      (.ok (some (.ok (P.withStr x)),
        st P rest (if e.ftype = .dir then x :: todo else todo)), w') := by
  obtain ⟨md, w', hS, hmd, hft⟩ := run_metadata' tv w hw x e hx
  refine ⟨w', hS, ?_⟩
  unfold VPath.walkNext st
  simp only [List.map_cons, VPath.walkFind, bind, M.bind, pure, M.pure]
  rw [hmd]
  simp only [hft]
  split <;> rfl

/-- popping a directory off the stack and listing it -/
theorem walkFind_expand' (w : World) (hw : S w) (d : Str) (todo : List Str) (e : Entry)
    (hd : m.find? d = some e) (hdir : e.ftype = .dir) :
    ∃ l w', S w' ∧ IsListing m d l ∧
      VPath.walkFind [] ((d :: todo).map P.withStr) w =
        VPath.walkFind (l.map P.withStr) (todo.map P.withStr) w' := by
  obtain ⟨l, w', hS, hl, hrd⟩ := run_readDir' tv w hw d e hd hdir
  refine ⟨l, w', hS, hl, ?_⟩
  simp only [List.map_cons]
  conv => lhs; unfold VPath.walkFind
  rw [hrd]
  cases l with
  | nil => rfl
  | cons n ns =>
    simp only [List.map_cons, VPath.walkFind]
    rfl

theorem walkNext_expand' (w : World) (hw : S w) (d : Str) (todo : List Str) (e : Entry)
    (hd : m.find? d = some e) (hdir : e.ftype = .dir) :
    ∃ l w', S w' ∧ IsListing m d l ∧
      VPath.walkNext (st P [] (d :: todo)) w = VPath.walkNext (st P l todo) w' := by
  obtain ⟨l, w', hS, hl, hf⟩ := walkFind_expand' tv w hw d todo e hd hdir
  refine ⟨l, w', hS, hl, ?_⟩
  unfold VPath.walkNext st
  simp only [bind, M.bind]
  simp only [List.map_nil] at hf ⊢
  rw [hf]

/-- what one call of `next` does to a good state -/
def StepSpec (S : World → Prop) (P : VPath) (m : FMap) (w : World) (inner todo : List Str) : Prop :=
  (∃ w', S w' ∧ VPath.walkNext (st P inner todo) w = (.ok (none, st P [] []), w') ∧
    ∀ k, (∃ e, m.find? k = some e) → pending inner todo k = false) ∨
  ∃ x inner' todo' w', S w' ∧
    VPath.walkNext (st P inner todo) w = (.ok (some (.ok (P.withStr x)), st P inner' todo'), w') ∧
    Good m inner' todo' ∧ (∃ e, m.find? x = some e) ∧ pending inner' todo' x = false ∧
    (∀ k, (∃ e, m.find? k = some e) →
      pending inner todo k = (decide (k = x) || pending inner' todo' k)) ∧
    (∀ b, pending inner' todo' b = true → below b x = false)

/-- `next` from a good state, in any world of `S`: either the walk is over and nothing is pending,
or a present key `x` is yielded as an `.ok` item, the new state is good, exactly `x` leaves the
pending set, and nothing still pending is an ancestor of `x`; the new world is in `S` -/
theorem walkNext_spec' (hwf : WF m) :
    ∀ (todo inner : List Str) (w : World), S w → Good m inner todo →
      StepSpec S P m w inner todo := by
  intro todo
  induction todo with
  | nil =>
    intro inner w hw hg
    cases inner with
    | nil =>
      left
      exact ⟨w, hw, rfl, fun k _ => rfl⟩
    | cons x rest =>
      right
      obtain ⟨e, hx⟩ := hg.innerKeys x (by simp)
      obtain ⟨g1, g2, g3, g4⟩ := emit_good hwf hg e hx _ rfl
      obtain ⟨w', hS, hrun⟩ := walkNext_cons' tv w hw x rest [] e hx
      exact ⟨x, rest, _, w', hS, hrun, g1, ⟨e, hx⟩, g2, g3, g4⟩
  | cons d todo ih =>
    intro inner w hw hg
    cases inner with
    | cons x rest =>
      right
      obtain ⟨e, hx⟩ := hg.innerKeys x (by simp)
      obtain ⟨g1, g2, g3, g4⟩ := emit_good hwf hg e hx _ rfl
      obtain ⟨w', hS, hrun⟩ := walkNext_cons' tv w hw x rest (d :: todo) e hx
      exact ⟨x, rest, _, w', hS, hrun, g1, ⟨e, hx⟩, g2, g3, g4⟩
    | nil =>
      obtain ⟨e, hd, hdir⟩ := hg.todoDirs d (by simp)
      obtain ⟨l, w1, hS1, hl, hrun⟩ := walkNext_expand' tv w hw d todo e hd hdir
      obtain ⟨g1, g2⟩ := expand_good' hwf hl hg
      rcases ih l w1 hS1 g1 with ⟨w', hS, h1, h2⟩ | ⟨x, inner', todo', w', hS, h1, h2, h3, h4, h5, h6⟩
      · left
        exact ⟨w', hS, by rw [hrun]; exact h1, fun k hk' => by rw [g2 k hk']; exact h2 k hk'⟩
      · right
        exact ⟨x, inner', todo', w', hS, by rw [hrun]; exact h1, h2, h3, h4,
          fun k hk' => by rw [g2 k hk']; exact h5 k hk', h6⟩

end step

/-! ### 5. the whole walk -/

/-- exactly one element leaves the filter -/
theorem filter_length_succ (l : List Str) (hnd : l.Nodup) (q q' : Str → Bool) (x : Str)
    (hx : x ∈ l) (hqx : q x = true) (hq'x : q' x = false)
    (hrest : ∀ k ∈ l, k ≠ x → q k = q' k) :
    (l.filter q).length = (l.filter q').length + 1 := by
  induction l with
  | nil => cases hx
  | cons a l ih =>
    have hnd' := List.nodup_cons.1 hnd
    simp only [List.filter_cons]
    by_cases hxa : a = x
    · subst hxa
      rw [hqx, hq'x]
      have : l.filter q = l.filter q' := by
        apply List.filter_congr
        intro k hk
        exact hrest k (List.mem_cons_of_mem _ hk) (fun h => hnd'.1 (h ▸ hk))
      simp [this]
    · have hxl : x ∈ l := by
        rcases List.mem_cons.1 hx with h | h
        · exact absurd h.symm hxa
        · exact h
      have ih' := ih hnd'.2 hxl (fun k hk => hrest k (List.mem_cons_of_mem _ hk))
      rw [hrest a (by simp) hxa]
      cases q' a
      · simpa using ih'
      · simp only [if_true, List.length_cons]; omega

section all
variable {S : World → Prop} {m : FMap} {P : VPath} (tv : TreeViewOn P.fs S m.find?)
include tv

/-- the collected walk from a good state, with more fuel than keys pending: every item is `.ok`,
the yielded paths are exactly the pending keys, each once, and no path is yielded before one of
its ancestors; the final world is in `S` -/
theorem walkAll_spec' (hwf : WF m) :
    ∀ (fuel : Nat) (inner todo : List Str) (w : World), S w → Good m inner todo →
      (m.keys.filter (pending inner todo)).length < fuel →
      ∃ (L : List Str) (w' : World), S w' ∧
        VPath.walkAll fuel (st P inner todo) w = (.ok (L.map (fun k => .ok (P.withStr k))), w') ∧
        (∀ k, k ∈ L ↔ k ∈ m.keys ∧ pending inner todo k = true) ∧ L.Nodup ∧
        L.Pairwise (fun a b => below b a = false) := by
  intro fuel
  induction fuel with
  | zero => intro inner todo w _ _ hf; omega
  | succ fuel ih =>
    intro inner todo w hw hg hf
    rcases walkNext_spec' tv hwf todo inner w hw hg with
      ⟨w1, hS1, h1, h2⟩ | ⟨x, inner', todo', w1, hS1, h1, h2, h3, h4, h5, h6⟩
    · refine ⟨[], w1, hS1, ?_, ?_, List.nodup_nil, List.Pairwise.nil⟩
      · unfold VPath.walkAll
        simp only [bind, M.bind, h1]
        rfl
      · intro k
        constructor
        · intro hk'; cases hk'
        · rintro ⟨hk1, hk2⟩
          rw [h2 k ((FMap.mem_keys_iff m k).1 hk1)] at hk2
          cases hk2
    · have hxk : x ∈ m.keys := (FMap.mem_keys_iff m x).2 h3
      have hpx : pending inner todo x = true := by rw [h5 x h3]; simp
      have hlt : (m.keys.filter (pending inner' todo')).length <
          (m.keys.filter (pending inner todo)).length := by
        apply filter_length_lt _ _ _ x hxk hpx h4
        intro k hk' hp
        rw [h5 k ((FMap.mem_keys_iff m k).1 hk'), hp]; simp
      obtain ⟨L, w2, hS2, hL, hmem, hnd, hord⟩ := ih inner' todo' w1 hS1 h2 (by omega)
      refine ⟨x :: L, w2, hS2, ?_, ?_, ?_, ?_⟩
      · unfold VPath.walkAll
        simp only [bind, M.bind, h1, hL, pure, M.pure, List.map_cons]
      · intro k
        simp only [List.mem_cons, hmem]
        constructor
        · rintro (rfl | ⟨hk1, hk2⟩)
          · exact ⟨hxk, hpx⟩
          · exact ⟨hk1, by rw [h5 k ((FMap.mem_keys_iff m k).1 hk1), hk2]; simp⟩
        · rintro ⟨hk1, hk2⟩
          rw [h5 k ((FMap.mem_keys_iff m k).1 hk1), Bool.or_eq_true, decide_eq_true_eq] at hk2
          rcases hk2 with hk2 | hk2
          · exact Or.inl hk2
          · exact Or.inr ⟨hk1, hk2⟩
      · rw [List.nodup_cons]
        refine ⟨?_, hnd⟩
        intro hx
        have := ((hmem x).1 hx).2
        rw [h4] at this; cases this
      · rw [List.pairwise_cons]
        refine ⟨?_, hord⟩
        intro b hb
        exact h6 b ((hmem b).1 hb).2

/-- … and with no more fuel than keys pending the outcome is the out-of-fuel sentinel -/
theorem walkAll_short' (hwf : WF m) (hk : FMap.NodupKeys m) :
    ∀ (fuel : Nat) (inner todo : List Str) (w : World), S w → Good m inner todo →
      fuel ≤ (m.keys.filter (pending inner todo)).length →
      ∃ w', S w' ∧ VPath.walkAll fuel (st P inner todo) w = (.panic, w') := by
  intro fuel
  induction fuel with
  | zero => intro inner todo w hw _ _; exact ⟨w, hw, rfl⟩
  | succ fuel ih =>
    intro inner todo w hw hg hf
    rcases walkNext_spec' tv hwf todo inner w hw hg with
      ⟨w1, hS1, h1, h2⟩ | ⟨x, inner', todo', w1, hS1, h1, h2, h3, h4, h5, h6⟩
    · exfalso
      have : m.keys.filter (pending inner todo) = [] := by
        rw [List.filter_eq_nil_iff]
        intro k hk'
        rw [h2 k ((FMap.mem_keys_iff m k).1 hk')]
        simp
      rw [this] at hf
      simp at hf
    · have hxk : x ∈ m.keys := (FMap.mem_keys_iff m x).2 h3
      have hpx : pending inner todo x = true := by rw [h5 x h3]; simp
      have hcount := filter_length_succ m.keys hk (pending inner todo) (pending inner' todo') x
        hxk hpx h4 (by
          intro k hk' hne
          rw [h5 k ((FMap.mem_keys_iff m k).1 hk')]
          simp [hne])
      obtain ⟨w2, hS2, hL⟩ := ih inner' todo' w1 hS1 h2 (by omega)
      refine ⟨w2, hS2, ?_⟩
      unfold VPath.walkAll
      simp only [bind, M.bind, h1, hL]

end all

/-! ### 6. `walk_dir` and the collected walk from a directory -/

/-- `self.walk_dir()?` then collect the iterator (at most `fuel` calls of `next`) — the same
term as `C05.walkCollect` (Props/C05Walk.lean) -/
def collect (fuel : Nat) (p : VPath) : M (List (Res VPath)) := do
  let s ← p.walkDir
  VPath.walkAll fuel s

section start
variable {S : World → Prop} {m : FMap} {P : VPath} (tv : TreeViewOn P.fs S m.find?)
include tv

/-- `walk_dir` on a directory of the view: the iterator starts with a listing, empty stack -/
theorem run_walkDir' (w : World) (hw : S w) (p : Str) (e : Entry) (hp : m.find? p = some e)
    (hdir : e.ftype = .dir) :
    ∃ l w', S w' ∧ IsListing m p l ∧ VPath.walkDir (P.withStr p) w = (.ok (st P l []), w') := by
  obtain ⟨l, w', hS, hl, hrd⟩ := run_readDir' tv w hw p e hp hdir
  refine ⟨l, w', hS, hl, ?_⟩
  unfold VPath.walkDir st
  simp only [bind, M.bind, hrd, pure, M.pure, List.map_nil]

/-- **the generic traversal theorem, map form.** From a directory `p` of the view, in any world of
`S`: with more fuel than keys strictly below `p` the collected walk is an `.ok` list of `.ok` items,
exactly the keys strictly below `p`, each once, no path before one of its ancestors; with less
fuel it is the sentinel. Either way the final world is in `S`. -/
theorem walk_from_dir (hwf : WF m) (hk : FMap.NodupKeys m) (w : World) (hw : S w) (p : Str)
    (e : Entry) (hp : m.find? p = some e) (hdir : e.ftype = .dir) (fuel : Nat) :
    ((m.keys.filter (below p)).length < fuel →
      ∃ (L : List Str) (w' : World), S w' ∧
        collect fuel (P.withStr p) w = (.ok (L.map (fun k => .ok (P.withStr k))), w') ∧
        (∀ k, k ∈ L ↔ k ∈ m.keys ∧ below p k = true) ∧ L.Nodup ∧
        L.Pairwise (fun a b => below b a = false)) ∧
    (fuel ≤ (m.keys.filter (below p)).length →
      ∃ w', S w' ∧ collect fuel (P.withStr p) w = (.panic, w')) := by
  obtain ⟨l, w1, hS1, hl, hrun⟩ := run_walkDir' tv w hw p e hp hdir
  obtain ⟨g1, g2⟩ := start_good' hwf p e hp hdir hl
  have hfilt : m.keys.filter (pending l []) = m.keys.filter (below p) :=
    List.filter_congr (fun k hk' => g2 k ((FMap.mem_keys_iff m k).1 hk'))
  have hcol : collect fuel (P.withStr p) w = VPath.walkAll fuel (st P l []) w1 := by
    unfold collect
    simp only [bind, M.bind, hrun]
  constructor
  · intro hf
    obtain ⟨L, w2, hS2, h1, h2, h3, h4⟩ := walkAll_spec' tv hwf fuel l [] w1 hS1 g1
      (by rw [hfilt]; exact hf)
    refine ⟨L, w2, hS2, by rw [hcol]; exact h1, ?_, h3, h4⟩
    intro k
    rw [h2 k]
    constructor
    · rintro ⟨a, b⟩; exact ⟨a, by rw [← g2 k ((FMap.mem_keys_iff m k).1 a)]; exact b⟩
    · rintro ⟨a, b⟩; exact ⟨a, by rw [g2 k ((FMap.mem_keys_iff m k).1 a)]; exact b⟩
  · intro hf
    obtain ⟨w2, hS2, h1⟩ := walkAll_short' tv hwf hk fuel l [] w1 hS1 g1 (by rw [hfilt]; exact hf)
    exact ⟨w2, hS2, by rw [hcol]; exact h1⟩

end start

/-- `walk_dir` on a path whose `read_dir` fails: the error with the path filled in, no iterator
(any filesystem) -/
theorem collect_readDir_err (fuel : Nat) (P : VPath) (w w' : World) (k : ErrKind)
    (pth : Option Str) (h : P.fs.readDir P.path w = (.err k pth, w')) :
    VPath.walkDir P w = (.err k (some P.path), w') ∧
    collect fuel P w = (.err k (some P.path), w') := by
  have : VPath.walkDir P w = (.err k (some P.path), w') := by
    unfold VPath.walkDir VPath.readDir
    simp only [bind, M.bind, M.withPath, h, Res.withPath]
  refine ⟨this, ?_⟩
  unfold collect
  simp only [bind, M.bind, this]

/-! ### 7. list consequences -/

/-- "no element before one of its ancestors" in index form -/
theorem dirs_first_index {L : List Str} (hord : L.Pairwise (fun a b => below b a = false))
    (a b : Nat) (ha : a < L.length) (hb : b < L.length) (hab : below L[a] L[b] = true) :
    a < b := by
  rw [List.pairwise_iff_getElem] at hord
  apply Nat.lt_of_not_le
  intro hle
  rcases Nat.lt_or_eq_of_le hle with hlt | heq
  · have := hord b a hb ha hlt
    rw [hab] at this; cases this
  · subst heq
    rw [below_irrefl] at hab; cases hab

/-- two positions `a < b` split the list -/
theorem split_at_two {α} (L : List α) (a b : Nat) (ha : a < L.length) (hb : b < L.length)
    (hlt : a < b) : ∃ l1 l2 l3, L = l1 ++ L[a] :: l2 ++ L[b] :: l3 := by
  refine ⟨L.take a, (L.drop (a + 1)).take (b - a - 1), L.drop (b + 1), ?_⟩
  have e1 : L = L.take a ++ L[a] :: L.drop (a + 1) := by
    rw [List.getElem_cons_drop, List.take_append_drop]
  have hb' : b - a - 1 < (L.drop (a + 1)).length := by rw [List.length_drop]; omega
  have e2 : L.drop (a + 1) = (L.drop (a + 1)).take (b - a - 1) ++
      (L.drop (a + 1))[b - a - 1] :: (L.drop (a + 1)).drop (b - a - 1 + 1) := by
    rw [List.getElem_cons_drop, List.take_append_drop]
  have e3 : (L.drop (a + 1))[b - a - 1] = L[b] := by
    rw [List.getElem_drop]
    have : a + 1 + (b - a - 1) = b := by omega
    simp only [this]
  have e4 : (L.drop (a + 1)).drop (b - a - 1 + 1) = L.drop (b + 1) := by
    rw [List.drop_drop]; congr 1; omega
  rw [e3, e4] at e2
  conv => lhs; rw [e1, e2]
  simp

end Vfs.WkG
