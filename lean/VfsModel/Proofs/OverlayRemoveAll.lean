/-
  `remove_dir_all` through an overlay over n in-memory layers: the mutual induction
  (`removeDirAll` / `removeChildren`) behind `C11.overlay_removeDirAll_exact`
  (Props/C11Overlay.lean).

  `RDA fuel`  — the statement for `removeDirAll fuel` on a disciplined directory of the view;
  `rc_of_rda` — `removeChildren fuel` on a list of present, disciplined children, from `RDA fuel`;
  `rda_succ`  — `RDA (fuel + 1)` from the statement for `removeChildren fuel`;
  `rda_all`   — `RDA fuel` for every fuel.
  Hypotheses: the setting/invariant bundle `OSt`, the name discipline `NamesOK`, `OpPath cs`, the
  path a directory of the view, and the DEPTH bound `FuelOK`: every present disciplined path
  `cs ++ ts` at or below the directory has `ts.length < fuel`.
-/
import VfsModel.Proofs.OverlayCompositeLemmas
set_option linter.unusedSimpArgs false
set_option linter.unusedVariables false
set_option linter.unusedSectionVars false
namespace Vfs.C11
open Vfs Vfs.Overlay Vfs.C02 Vfs.C01 Vfs.C09 Vfs.C05

/-- the depth bound: every present disciplined path `cs ++ ts` has fewer than `fuel` components
below `cs` (so `fuel` exceeds the depth of the subtree; `ts = []`: `fuel ≥ 1`) -/
def FuelOK (v : View) (cs : List Str) (fuel : Nat) : Prop :=
  ∀ ts, OpPath (cs ++ ts) → v (renderC (cs ++ ts)) ≠ none → ts.length < fuel

theorem FuelOK.child {v : View} {cs : List Str} {n : Str} {fuel : Nat}
    (h : FuelOK v cs (fuel + 1)) : FuelOK v (cs ++ [n]) fuel := by
  intro ts hp hpres
  rw [List.append_assoc] at hp hpres
  have := h ([n] ++ ts) hp hpres
  simp at this
  omega

theorem FuelOK.mono {v : View} {cs : List Str} {a b : Nat} (h : FuelOK v cs a) (hab : a ≤ b) :
    FuelOK v cs b := fun ts hp hpres => Nat.lt_of_lt_of_le (h ts hp hpres) hab

section rda
variable (u idu : Nat) (is ids : List Nat) (ms : List FMap) (id : Nat)

/-- the statement proved by induction on the fuel -/
def RDA (fuel : Nat) : Prop :=
  ∀ (w : World) (mu : FMap) (cs : List Str), OSt u idu is ids ms w mu → NamesOK (mu :: ms) →
    OpPath cs → VIsDir (oview (mu :: ms)) (renderC cs) → FuelOK (oview (mu :: ms)) cs fuel →
    ∃ mu', VPath.removeDirAll fuel
        ⟨Overlay.fs (layersN (u :: is) (idu :: ids)), id, renderC cs⟩ w
          = (.ok (), w.setLeafFiles u mu') ∧
      OSt u idu is ids ms (w.setLeafFiles u mu') mu' ∧ NamesOK (mu' :: ms) ∧
      GoneP (oview (mu :: ms)) (oview (mu' :: ms)) (InSub cs)

/-- the statement for the loop over the children -/
def RC (fuel : Nat) : Prop :=
  ∀ (ns : List Str) (w : World) (mu : FMap) (cs : List Str), OSt u idu is ids ms w mu →
    NamesOK (mu :: ms) → OpPath cs → ns.Nodup →
    (∀ n ∈ ns, OpPath (cs ++ [n]) ∧ oview (mu :: ms) (renderC (cs ++ [n])) ≠ none) →
    FuelOK (oview (mu :: ms)) cs (fuel + 1) →
    ∃ mu', VPath.removeChildren fuel
        (ns.map fun n =>
          (⟨Overlay.fs (layersN (u :: is) (idu :: ids)), id, renderC cs ++ '/' :: n⟩ : VPath)) w
          = (.ok (), w.setLeafFiles u mu') ∧
      OSt u idu is ids ms (w.setLeafFiles u mu') mu' ∧ NamesOK (mu' :: ms) ∧
      GoneP (oview (mu :: ms)) (oview (mu' :: ms)) (fun q => ∃ n ∈ ns, InSub (cs ++ [n]) q)

variable {u idu is ids ms id}

theorem rc_of_rda (fuel : Nat) (hR : RDA u idu is ids ms id fuel) : RC u idu is ids ms id fuel := by
  intro ns
  induction ns with
  | nil =>
    intro w mu cs st hn hp _ _ _
    refine ⟨mu, ?_, ?_, hn, ?_⟩
    · rw [st.self_world, List.map_nil, VPath.removeChildren.eq_1]; rfl
    · rw [st.self_world]; exact st
    · exact (GoneP.refl_empty _).congr (fun q => ⟨fun h => h.elim, fun ⟨n, hn, _⟩ => by cases hn⟩)
  | cons n rest ih =>
    intro w mu cs st hn hp hnd hall hfuel
    obtain ⟨hpn, hpres⟩ := hall n (by simp)
    have hnotin : n ∉ rest := (List.nodup_cons.1 hnd).1
    have hndr : rest.Nodup := (List.nodup_cons.1 hnd).2
    -- the continuation, from any state reached by removing the subtree of the first child
    have cont : ∀ mu1, OSt u idu is ids ms (w.setLeafFiles u mu1) mu1 → NamesOK (mu1 :: ms) →
        GoneP (oview (mu :: ms)) (oview (mu1 :: ms)) (InSub (cs ++ [n])) →
        ∃ mu', VPath.removeChildren fuel
            (rest.map fun n =>
              (⟨Overlay.fs (layersN (u :: is) (idu :: ids)), id, renderC cs ++ '/' :: n⟩ : VPath))
            (w.setLeafFiles u mu1) = (.ok (), w.setLeafFiles u mu') ∧
          OSt u idu is ids ms (w.setLeafFiles u mu') mu' ∧ NamesOK (mu' :: ms) ∧
          GoneP (oview (mu :: ms)) (oview (mu' :: ms))
            (fun q => ∃ n' ∈ n :: rest, InSub (cs ++ [n']) q) := by
      intro mu1 st1 hn1 G1
      have hall1 : ∀ n' ∈ rest, OpPath (cs ++ [n']) ∧
          oview (mu1 :: ms) (renderC (cs ++ [n'])) ≠ none := by
        intro n' hn'
        obtain ⟨hpn', hpres'⟩ := hall n' (by simp [hn'])
        refine ⟨hpn', fun h0 => hpres' ?_⟩
        have hnot : ¬ InSub (cs ++ [n]) (renderC (cs ++ [n'])) := by
          intro hin
          have := InSub.child_unique hpn' hin
          subst this
          exact hnotin hn'
        exact (none_of_vcore (G1.2 _ hpn'.vis hnot)).1 h0
      have hfuel1 : FuelOK (oview (mu1 :: ms)) cs (fuel + 1) := by
        intro ts hpt hpr
        exact hfuel ts hpt (G1.present_old hpt.vis hpr).1
      obtain ⟨mu2, hrun2, st2, hn2, G2⟩ := ih (w.setLeafFiles u mu1) mu1 cs st1 hn1 hp hndr hall1 hfuel1
      rw [World.setLeafFiles_twice] at hrun2 st2
      refine ⟨mu2, hrun2, st2, hn2, ?_⟩
      refine (GoneP.trans G1 G2 (fun q hq => hq.vis)).congr (fun q => ?_)
      constructor
      · rintro (h1 | ⟨n', hn', h1⟩)
        · exact ⟨n, by simp, h1⟩
        · exact ⟨n', by simp [hn'], h1⟩
      · rintro ⟨n', hn', h1⟩
        rcases List.mem_cons.1 hn' with rfl | hn'
        · exact Or.inl h1
        · exact Or.inr ⟨n', hn', h1⟩
    -- the first child
    obtain ⟨e, he⟩ := (C05.ne_none_iff _).1 hpres
    have hmeta := o_metadata st id hpn he
    rw [renderC_snoc] at hmeta
    rw [List.map_cons, VPath.removeChildren.eq_2]
    simp only [bind, M.bind, hmeta]
    cases hft : e.ftype with
    | file =>
      have hfile : VIsFile (oview (mu :: ms)) (renderC (cs ++ [n])) := ⟨e, he, hft⟩
      obtain ⟨mu1, hrun1, st1, hn1, habs, hframe⟩ := o_removeFile_step st id hpn hfile
      rw [renderC_snoc] at hrun1
      simp only [Entry.meta, hft, bind, M.bind, hrun1]
      apply cont mu1 st1 (hn1 hn)
      refine ⟨fun q hq => ?_, fun q hv hq => hframe q hv (fun h0 => hq (by rw [h0]; exact InSub.self hpn))⟩
      obtain ⟨ts, hpt, rfl⟩ := hq
      by_cases hts : ts = []
      · subst hts; rw [List.append_nil]; exact habs
      · have hold := absent_below_nondir st.vwf (cs := cs ++ [n]) (by simp)
          (fun hd => not_file_and_dir hfile hd) hts hpt
        have hne : renderC (cs ++ [n] ++ ts) ≠ renderC (cs ++ [n]) := by
          intro h0
          have := C06.renderC_injective _ _ (good_noSlash hpt.good) (good_noSlash hpn.good) h0
          have := congrArg List.length this
          simp at this
          exact hts this
        exact (none_of_vcore (hframe _ hpt.vis hne)).2 hold
    | dir =>
      have hdir : VIsDir (oview (mu :: ms)) (renderC (cs ++ [n])) := ⟨e, he, hft⟩
      obtain ⟨mu1, hrun1, st1, hn1, G1⟩ := hR w mu (cs ++ [n]) st hn hpn hdir hfuel.child
      rw [renderC_snoc] at hrun1
      simp only [Entry.meta, hft, bind, M.bind, hrun1]
      exact cont mu1 st1 hn1 G1

theorem rda_succ (fuel : Nat) (hC : RC u idu is ids ms id fuel) :
    RDA u idu is ids ms id (fuel + 1) := by
  intro w mu cs st hn hp hd hfuel
  have hd' := hd
  obtain ⟨e, he, hdir⟩ := hd'
  have hex := o_exists st id hp
  rw [he] at hex
  have hrd := o_readDir st id hp hd
  -- the children listed by `read_dir`
  have hall : ∀ n ∈ pListingN (mu :: ms) (renderC cs),
      OpPath (cs ++ [n]) ∧ oview (mu :: ms) (renderC (cs ++ [n])) ≠ none := by
    intro n hmem
    obtain ⟨hs, hpres⟩ := (o_listing_mem st hp n).1 hmem
    have hpres' : viewN (mu :: ms) (renderC cs ++ '/' :: n) ≠ none := by
      rw [← oview_ne (by simp)]; exact hpres
    obtain ⟨hg, hw⟩ := hn cs n (Or.inr hp) hs hpres' (fun h0 => absurd h0 hp.ne)
    exact ⟨hp.child hg hw, by rw [renderC_snoc]; exact hpres⟩
  obtain ⟨mu2, hrun2, st2, hn2, G2⟩ := hC (pListingN (mu :: ms) (renderC cs)) w mu cs st hn hp
    (nodup_pListingN _ _) hall hfuel
  -- `remove_dir` on the emptied directory
  have hpvis : Vis (renderC cs) := hp.vis
  have hnotS : ¬ ∃ n ∈ pListingN (mu :: ms) (renderC cs), InSub (cs ++ [n]) (renderC cs) :=
    fun ⟨n, _, h0⟩ => InSub.not_parent h0
  have hd2 : VIsDir (oview (mu2 :: ms)) (renderC cs) :=
    (isDir_of_vcore (G2.2 _ hpvis hnotS)).2 hd
  have hno2 : VNoChildren (oview (mu2 :: ms)) (renderC cs) := by
    intro y hy
    cases hv2 : oview (mu2 :: ms) (renderC cs ++ '/' :: y) with
    | none => rfl
    | some e2 =>
      exfalso
      have hvis : Vis (renderC cs ++ '/' :: y) :=
        Or.inr (NR_child hp.ne (good_noSlash hp.good) hp.head y)
      obtain ⟨hold, hns⟩ := G2.present_old hvis (by rw [hv2]; simp)
      have hmem := (o_listing_mem st hp y).2 ⟨hy, hold⟩
      exact hns ⟨y, hmem, by rw [← renderC_snoc]; exact InSub.self (hall y hmem).1⟩
  obtain ⟨mu3, hrun3, st3, hn3, habs3, hframe3⟩ := o_removeDir_step st2 id hp hd2 hno2
  rw [World.setLeafFiles_twice] at hrun3 st3
  refine ⟨mu3, ?_, st3, hn3 hn2, ?_⟩
  · rw [VPath.removeDirAll.eq_2]
    simp only [bind, M.bind, hex, Option.isSome_some, Bool.not_true, Bool.false_eq_true, if_false,
      hrd, hrun2, hrun3]
  · have G23 := GoneP.trans G2 (GoneP.of_removed habs3 hframe3)
      (fun q ⟨n, _, hq⟩ => hq.vis)
    refine ⟨fun q hq => ?_, fun q hv hq => G23.2 q hv ?_⟩
    · rcases InSub.cases hp.ne hq with rfl | ⟨n, hpn, hin⟩
      · exact habs3
      · by_cases hmem : n ∈ pListingN (mu :: ms) (renderC cs)
        · exact G23.1 q (Or.inl ⟨n, hmem, hin⟩)
        · -- an unlisted child is absent, and so is everything below it
          have hcabs : oview (mu :: ms) (renderC (cs ++ [n])) = none := by
            cases hc : oview (mu :: ms) (renderC (cs ++ [n])) with
            | none => rfl
            | some ce =>
              exfalso; apply hmem
              refine (o_listing_mem st hp n).2 ⟨hpn.hn.noSlash, ?_⟩
              rw [← renderC_snoc, hc]; simp
          have hqabs : oview (mu :: ms) q = none := by
            obtain ⟨ts, hpt, rfl⟩ := hin
            by_cases hts : ts = []
            · subst hts; rw [List.append_nil]; exact hcabs
            · exact absent_below_nondir st.vwf (cs := cs ++ [n]) (by simp)
                (fun hdd => not_absent_of_dir hdd hcabs) hts hpt
          open Classical in
          by_cases hS : (∃ n ∈ pListingN (mu :: ms) (renderC cs), InSub (cs ++ [n]) q) ∨
              q = renderC cs
          · exact G23.1 q hS
          · exact (none_of_vcore (G23.2 q hin.vis hS)).2 hqabs
    · rintro (⟨n, _, h0⟩ | h0)
      · exact hq h0.of_child
      · exact hq (by rw [h0]; exact InSub.self hp)

theorem rda_all : ∀ fuel, RDA u idu is ids ms id fuel := by
  intro fuel
  induction fuel with
  | zero =>
    intro w mu cs st hn hp hd hfuel
    have := hfuel [] (by rw [List.append_nil]; exact hp)
      (by rw [List.append_nil]; exact not_absent_of_dir hd)
    simp at this
  | succ fuel ih => exact rda_succ fuel (rc_of_rda fuel ih)

end rda

end Vfs.C11
