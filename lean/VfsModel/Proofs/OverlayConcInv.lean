/-
  Lemmas for Props/C17OverlayConc.lean, part C: how the write layer's map evolves while any number
  of threads run `create_dir_all` on the overlay, and which facts are stable under that evolution.

  * `Req paths q`: `q` is a non-empty prefix of one of the requested paths;
  * `Evolve paths mu mu'` (the rely = guarantee of every thread): entries persist unchanged, except
    that the MARKER of a requested prefix `q` may vanish once `q` is a directory of the write layer;
    new entries are directories at requested prefixes.  Reflexive, transitive (`Evolve.refl`,
    `Evolve.trans`); established by the two mutating layer calls (`evolve_createDir`,
    `evolve_removeMarker`);
  * `GI ms paths mu`: the stable global invariant (root, no root marker, nothing but directories
    at requested prefixes in the write layer, markers of requested prefixes are files, and a lower
    FILE at a requested prefix is hidden by a marker or by a directory of the write layer);
    `GI.evolve`;
  * `VisDir ms mu q`: `q` is a directory of the n-layer view; stable (`VisDir.evolve`).
-/
import VfsModel.Proofs.OverlayConcCalc
import VfsModel.Props.C10
set_option linter.unusedVariables false
set_option linter.unusedSimpArgs false
namespace Vfs.OConc
open Vfs Vfs.Overlay Prog

/-- the requested paths are canonical and not below "/.whiteout" -/
def PathsOK (paths : List (List Str)) : Prop :=
  ∀ cs ∈ paths, (∀ c ∈ cs, GoodComp c) ∧ cs.head? ≠ some woDir

/-- `q` is a non-empty prefix of a requested path -/
def Req (paths : List (List Str)) (q : Str) : Prop :=
  ∃ cs ∈ paths, ∃ j, 1 ≤ j ∧ j ≤ cs.length ∧ q = renderC (cs.take j)

/-- `q` is a directory of the map -/
def IsDirU (mu : FMap) (q : Str) : Prop := ∃ e, mu.find? q = some e ∧ e.ftype = .dir

section inv
variable {paths : List (List Str)} (hp : PathsOK paths)

theorem take_ne_nil {cs : List Str} {j : Nat} (h1 : 1 ≤ j) (h2 : j ≤ cs.length) : cs.take j ≠ [] := by
  intro h0
  have := congrArg List.length h0
  rw [List.length_take, List.length_nil] at this
  omega

include hp in
theorem Req.ne_marker {q : Str} (h : Req paths q) (q' : Str) (hq' : q'.head? = some '/') :
    q ≠ marker q' := by
  obtain ⟨cs, hcs, j, h1, h2, rfl⟩ := h
  intro he
  have := renderC_eq_marker_head (cs.take j) q'
    (fun c hc => ((hp cs hcs).1 c (List.mem_of_mem_take hc)).noSlash) he hq'
  exact C10.take_head_ne h1 (hp cs hcs).2 this

theorem Req.head {q : Str} (h : Req paths q) : q.head? = some '/' := by
  obtain ⟨cs, hcs, j, h1, h2, rfl⟩ := h
  exact C09.renderC_head _ (take_ne_nil h1 h2)

include hp in
theorem Req.ne_marker_req {q q' : Str} (h : Req paths q) (h' : Req paths q') : q ≠ marker q' :=
  h.ne_marker hp q' h'.head

theorem rootMarker_eq : rootMarker = marker ['/'] := by decide

include hp in
theorem Req.ne_rootMarker {q : Str} (h : Req paths q) : q ≠ rootMarker := by
  rw [rootMarker_eq]; exact h.ne_marker hp _ rfl

theorem nil_ne_marker (q : Str) : ([] : Str) ≠ marker q := by simp [marker]

/-- the evolution of the write layer's map -/
structure Evolve (paths : List (List Str)) (mu mu' : FMap) : Prop where
  keeps : ∀ k e, mu.find? k = some e →
    mu'.find? k = some e ∨ ∃ q, Req paths q ∧ k = marker q ∧ IsDirU mu' q
  news : ∀ k e, mu'.find? k = some e → mu.find? k = some e ∨ (e.ftype = .dir ∧ Req paths k)

theorem Evolve.refl (mu : FMap) : Evolve paths mu mu :=
  ⟨fun _ _ h => Or.inl h, fun _ _ h => Or.inl h⟩

/-- a key that is not the marker of a requested prefix keeps its entry -/
theorem Evolve.keeps' {mu mu' : FMap} (h : Evolve paths mu mu') {k : Str} {e : Entry}
    (hk : ∀ q, Req paths q → k ≠ marker q) (he : mu.find? k = some e) : mu'.find? k = some e := by
  rcases h.keeps k e he with h1 | ⟨q, hq, hkq, _⟩
  · exact h1
  · exact absurd hkq (hk q hq)

include hp in
theorem Evolve.isDir_req {mu mu' : FMap} (h : Evolve paths mu mu') {q : Str} (hq : Req paths q)
    (hd : IsDirU mu q) : IsDirU mu' q := by
  obtain ⟨e, he, hd⟩ := hd
  exact ⟨e, h.keeps' (fun q' hq' => hq.ne_marker_req hp hq') he, hd⟩

theorem Evolve.isDir_root {mu mu' : FMap} (h : Evolve paths mu mu') (hd : IsDirU mu []) :
    IsDirU mu' [] := by
  obtain ⟨e, he, hd⟩ := hd
  exact ⟨e, h.keeps' (fun q' _ => nil_ne_marker q') he, hd⟩

include hp in
theorem Evolve.trans {a b c : FMap} (h1 : Evolve paths a b) (h2 : Evolve paths b c) :
    Evolve paths a c := by
  refine ⟨?_, ?_⟩
  · intro k e he
    rcases h1.keeps k e he with hb | ⟨q, hq, hkq, hd⟩
    · exact h2.keeps k e hb
    · exact Or.inr ⟨q, hq, hkq, h2.isDir_req hp hq hd⟩
  · intro k e he
    rcases h2.news k e he with hb | hb
    · exact h1.news k e hb
    · exact Or.inr hb

include hp in
/-- a marker that is absent stays absent -/
theorem Evolve.unmarked {mu mu' : FMap} (h : Evolve paths mu mu') {k : Str}
    (hk : k.head? = some '/') (hm : mu.contains (marker k) = false) :
    mu'.contains (marker k) = false := by
  rcases Option.eq_none_or_eq_some (mu'.find? (marker k)) with hf | ⟨e, hf⟩
  · exact contains_of_none hf
  · exfalso
    rcases h.news _ e hf with h0 | ⟨_, hr⟩
    · rw [contains_of_find h0] at hm; cases hm
    · exact hr.ne_marker hp k hk rfl

include hp in
/-- an entry at a requested prefix stays -/
theorem Evolve.contains_req {mu mu' : FMap} (h : Evolve paths mu mu') {q : Str} (hq : Req paths q)
    (hc : mu.contains q = true) : mu'.contains q = true := by
  obtain ⟨e, he⟩ := (FMap.contains_iff _ _).1 hc
  exact contains_of_find (h.keeps' (fun q' hq' => hq.ne_marker_req hp hq') he)

/-! ### the two mutating layer calls -/

theorem evolve_createDir (mu : FMap) {q : Str} (hq : Req paths q) :
    Evolve paths mu (Mem.createDir mu q).2 := by
  unfold Mem.createDir
  split
  · split
    · exact Evolve.refl mu
    · rename_i hnone
      refine ⟨?_, ?_⟩
      · intro k e hk
        left
        rw [FMap.find?_insert]
        split
        · rename_i hkq; rw [hkq, hnone] at hk; cases hk
        · exact hk
      · intro k e hk
        rw [FMap.find?_insert] at hk
        split at hk
        · rename_i hkq
          injection hk with hk
          subst hk; subst hkq
          exact Or.inr ⟨rfl, hq⟩
        · exact Or.inl hk
  · exact Evolve.refl mu
  · exact Evolve.refl mu

/-- the one region `create_dir_all` is made of: when the parent is a directory and no file is in
the way, `Ok` or `DirectoryExists`, and afterwards the directory is there -/
theorem createDir_spec (m : FMap) (d : Str) (hs : '/' ∈ d) (hpar : IsDirU m (parentInternal d))
    (hnf : ∀ e, m.find? d = some e → e.ftype = .dir) :
    ((Mem.createDir m d).1 = .ok () ∨ (Mem.createDir m d).1 = .err .dirExists none) ∧
    IsDirU (Mem.createDir m d).2 d := by
  obtain ⟨pe, hpe, hpd⟩ := hpar
  unfold Mem.createDir Mem.ensureHasParent
  simp only [hs, ↓reduceIte, hpe, hpd]
  rcases Option.eq_none_or_eq_some (m.find? d) with hf | ⟨e, hf⟩
  · simp only [hf]
    exact ⟨by simp, dirEntryNow, FMap.find?_insert_self _ _ _, rfl⟩
  · have hd := hnf e hf
    simp only [hf, hd, fail]
    exact ⟨Or.inr (by simp), e, hf, hd⟩

include hp in
theorem evolve_removeMarker (mu : FMap) {q : Str} (hq : Req paths q) (hd : IsDirU mu q) :
    Evolve paths mu (Mem.removeFile mu (marker q)).2 := by
  unfold Mem.removeFile
  split
  · exact Evolve.refl mu
  · split
    · exact Evolve.refl mu
    · have hne : q ≠ marker q := hq.ne_marker_req hp hq
      refine ⟨?_, ?_⟩
      · intro k e hk
        by_cases hkm : k = marker q
        · right
          obtain ⟨e', he', hd'⟩ := hd
          exact ⟨q, hq, hkm, e', by rw [FMap.find?_erase_ne _ _ _ hne]; exact he', hd'⟩
        · left; rw [FMap.find?_erase_ne _ _ _ hkm]; exact hk
      · intro k e hk
        left
        rw [FMap.find?_erase] at hk
        split at hk
        · cases hk
        · exact hk

/-! ### the stable global invariant -/

/-- what holds of the write layer's map at every moment -/
structure GI (ms : List FMap) (paths : List (List Str)) (mu : FMap) : Prop where
  root : IsDirU mu []
  noRootMark : mu.contains rootMarker = false
  dirs : ∀ q, Req paths q → ∀ e, mu.find? q = some e → e.ftype = .dir
  low : ∀ q, Req paths q → mu.contains (marker q) = true ∨ mu.contains q = true ∨
    ∀ e, firstN ms q = some e → e.ftype = .dir
  markFile : ∀ q, Req paths q → ∀ e, mu.find? (marker q) = some e → e.ftype = .file

include hp in
theorem GI.evolve {ms : List FMap} {mu mu' : FMap} (g : GI ms paths mu) (h : Evolve paths mu mu') :
    GI ms paths mu' := by
  refine ⟨h.isDir_root g.root, ?_, ?_, ?_, ?_⟩
  · rw [rootMarker_eq]
    exact h.unmarked hp rfl (by rw [← rootMarker_eq]; exact g.noRootMark)
  · intro q hq e he
    rcases h.news q e he with h0 | ⟨hd, _⟩
    · exact g.dirs q hq e h0
    · exact hd
  · intro q hq
    rcases g.low q hq with hm | hc | hl
    · obtain ⟨e, he⟩ := (FMap.contains_iff _ _).1 hm
      rcases h.keeps _ e he with h1 | ⟨q', hq', hk, hd⟩
      · exact Or.inl (contains_of_find h1)
      · have := marker_injective _ _ hk
        subst this
        obtain ⟨e', he', _⟩ := hd
        exact Or.inr (Or.inl (contains_of_find he'))
    · exact Or.inr (Or.inl (h.contains_req hp hq hc))
    · exact Or.inr (Or.inr hl)
  · intro q hq e he
    rcases h.news _ e he with h0 | ⟨_, hr⟩
    · exact g.markFile q hq e h0
    · exact absurd rfl (hr.ne_marker_req hp hq)

/-- `q` is a directory of the n-layer view -/
def VisDir (ms : List FMap) (mu : FMap) (q : Str) : Prop :=
  mu.contains (marker q) = false ∧ ∃ e, firstN (mu :: ms) q = some e ∧ e.ftype = .dir

theorem VisDir.view {ms : List FMap} {mu : FMap} {q : Str} (h : VisDir ms mu q) :
    ∃ e, viewN (mu :: ms) q = some e ∧ e.ftype = .dir := by
  obtain ⟨hm, e, he, hd⟩ := h
  exact ⟨e, by rw [viewN_unmarked hm]; exact he, hd⟩

include hp in
theorem VisDir.evolve {ms : List FMap} {mu mu' : FMap} {q : Str} (hv : VisDir ms mu q)
    (hq : Req paths q) (h : Evolve paths mu mu') : VisDir ms mu' q := by
  obtain ⟨hm, e, he, hd⟩ := hv
  refine ⟨h.unmarked hp hq.head hm, ?_⟩
  simp only [firstN] at he ⊢
  rcases Option.eq_none_or_eq_some (mu.find? q) with hf | ⟨e0, hf⟩
  · rw [hf] at he
    simp only [Option.none_or] at he
    rcases Option.eq_none_or_eq_some (mu'.find? q) with hf' | ⟨e1, hf'⟩
    · exact ⟨e, by rw [hf']; exact he, hd⟩
    · rcases h.news q e1 hf' with h0 | ⟨hd1, _⟩
      · rw [hf] at h0; cases h0
      · exact ⟨e1, by rw [hf']; rfl, hd1⟩
  · rw [hf] at he
    simp only [Option.some_or, Option.some.injEq] at he
    subst he
    have := h.keeps' (fun q' hq' => hq.ne_marker_req hp hq') hf
    exact ⟨e0, by rw [this]; rfl, hd⟩

/-- a directory of the write layer whose marker is gone is a directory of the view -/
theorem VisDir.of_upper {ms : List FMap} {mu : FMap} {q : Str}
    (hm : mu.contains (marker q) = false) (hd : IsDirU mu q) : VisDir ms mu q := by
  obtain ⟨e, he, hd⟩ := hd
  exact ⟨hm, e, by simp [firstN, he], hd⟩

/-! ### prefixes of requested paths -/

theorem Req.take {cs : List Str} (hcs : cs ∈ paths) {j : Nat} (h1 : 1 ≤ j) (h2 : j ≤ cs.length) :
    Req paths (renderC (cs.take j)) := ⟨cs, hcs, j, h1, h2, rfl⟩

/-- the chain of a prefix of a requested path consists of requested prefixes -/
theorem Req.chain {cs : List Str} (hcs : cs ∈ paths) {j : Nat} (h2 : j ≤ cs.length) :
    ∀ k ∈ Vfs.chain [] (cs.take j), Req paths k := by
  intro k hk
  obtain ⟨i, h1, hi, rfl⟩ := (mem_chain [] _ k).1 hk
  rw [List.length_take] at hi
  simp only [List.nil_append, List.take_take]
  have : min i j = i := by omega
  rw [this]
  exact Req.take hcs h1 (by omega)

end inv
end Vfs.OConc
