/-
  Copy of sections 1–3 of Props/C07Subtree.lean (the altroot over a directory `P` of a memory
  leaf is simulated by the bare memory leaf holding `sub P m`; the 19 spelled-out `altroot_*`
  simulations; `rsub_of_leaf`) over the namespace-separated copies Proofs/SimT.lean /
  Proofs/SubtreeSimT.lean of the simulation calculus.

  WHY A COPY: Proofs/Sim.lean imports Proofs/OverlayLemmas.lean, whose declarations
  `cursorWrite_nil`, `dirPrefixes_renderC`, `run_copyFile_mem`, `run_createDirAllLoop`,
  `run_vmetadata` clash with Proofs/TransferLemmas.lean, on which Props/C11.lean, C11Nested.lean
  and C13Term.lean are built: the two sides cannot be imported into one file. The copies live in
  the namespace `Vfs.T` (statements and proofs verbatim; the single use of OverlayLemmas in
  Sim.lean, `dirPrefixes_renderC` in `dirPrefixes_canon`, is re-proved from the TransferLemmas
  form; `Canon.rooted`, `World.leaf?_set_eq` are renamed `…T`) and import the TransferLemmas
  side (so they cannot be imported together with OverlayLemmas / the originals). Nothing new is
  proved here.
-/
import VfsModel.Proofs.SubtreeSimT
set_option linter.unusedVariables false
set_option linter.unusedSectionVars false
namespace Vfs.T.C07
open Vfs Vfs.T

/-! ### 1. the filesystem-level theorem -/

/-- **Theorem (C07, simulation form).** -/
theorem altroot_is_subtree_fs {spec : Nat → Role} {i : Nat} {P : Str} (hi : spec i = .sub P)
    (hP : Canon P) (id : Nat) :
    SimFS (RSub spec) PRdrop (HSub spec)
      (Altroot.fs { fs := leafFS i, fsId := id, path := P }) (leafFS i) :=
  altroot_sim_leaf hi hP id

/-- the handle operations are related (the hypothesis `SimHandles` of the parametricity
theorems holds for this relation) -/
theorem subtree_handles (spec : Nat → Role) : SimHandles (RSub spec) PRdrop (HSub spec) :=
  simHandles_sub spec

/-- every path of the altroot filesystem is related to the path with the same string of the
sub-filesystem -/
theorem altroot_is_subtree_vpath {spec : Nat → Role} {i : Nat} {P : Str} (hi : spec i = .sub P)
    (hP : Canon P) (id id' : Nat) {q : Str} (hq : Canon q) :
    SimVPath (RSub spec) PRdrop (HSub spec)
      { fs := Altroot.fs { fs := leafFS i, fsId := id, path := P }, fsId := id', path := q }
      { fs := leafFS i, fsId := id', path := q } :=
  ⟨altroot_is_subtree_fs hi hP id, rfl, rfl, hq⟩

/-! ### 2. every `VfsPath` operation -/

section ops
variable {spec : Nat → Role} {i : Nat} {P : Str} (hi : spec i = .sub P) (hP : Canon P)
  (id id' : Nat)
include hi hP

/-- a path of the altroot filesystem / of the sub-filesystem -/
abbrev apath (i id : Nat) (P : Str) (id' : Nat) (q : Str) : VPath :=
  { fs := Altroot.fs { fs := leafFS i, fsId := id, path := P }, fsId := id', path := q }
abbrev spath (i id' : Nat) (q : Str) : VPath := { fs := leafFS i, fsId := id', path := q }

theorem altroot_exists {q : Str} (hq : Canon q) :
    SimM (RSub spec) PRdrop (· = ·) (apath i id P id' q).exists_ (spath i id' q).exists_ :=
  VPath.sim_exists (altroot_is_subtree_vpath hi hP id id' hq)
theorem altroot_metadata {q : Str} (hq : Canon q) :
    SimM (RSub spec) PRdrop (· = ·) (apath i id P id' q).metadata (spath i id' q).metadata :=
  VPath.sim_metadata (altroot_is_subtree_vpath hi hP id id' hq)
theorem altroot_read_dir {q : Str} (hq : Canon q) :
    SimM (RSub spec) PRdrop
      (ListRel (SimVP (RSub spec) PRdrop (HSub spec) (fun _ _ => True)))
      (apath i id P id' q).readDir (spath i id' q).readDir :=
  VPath.sim_readDir (B0 := fun _ _ => True) (altroot_is_subtree_vpath hi hP id id' hq) trivial
    (fun _ _ _ _ _ => trivial)
theorem altroot_create_dir {q : Str} (hq : Canon q) (hne : q ≠ []) :
    SimM (RSub spec) PRdrop (· = ·) (apath i id P id' q).createDir (spath i id' q).createDir :=
  VPath.sim_createDir (altroot_is_subtree_vpath hi hP id id' hq) hne
theorem altroot_create_dir_all {q : Str} (hq : Canon q) :
    SimM (RSub spec) PRdrop (· = ·) (apath i id P id' q).createDirAll
      (spath i id' q).createDirAll :=
  VPath.sim_createDirAll (altroot_is_subtree_vpath hi hP id id' hq)
theorem altroot_create_file {q : Str} (hq : Canon q) :
    SimM (RSub spec) PRdrop (HSub spec) (apath i id P id' q).createFile
      (spath i id' q).createFile :=
  VPath.sim_createFile (altroot_is_subtree_vpath hi hP id id' hq)
theorem altroot_open_file {q : Str} (hq : Canon q) :
    SimM (RSub spec) PRdrop (· = ·) (apath i id P id' q).openFile (spath i id' q).openFile :=
  VPath.sim_openFile (altroot_is_subtree_vpath hi hP id id' hq)
theorem altroot_append_file {q : Str} (hq : Canon q) :
    SimM (RSub spec) PRdrop (HSub spec) (apath i id P id' q).appendFile
      (spath i id' q).appendFile :=
  VPath.sim_appendFile (altroot_is_subtree_vpath hi hP id id' hq)
theorem altroot_remove_file {q : Str} (hq : Canon q) :
    SimM (RSub spec) PRdrop (· = ·) (apath i id P id' q).removeFile (spath i id' q).removeFile :=
  VPath.sim_removeFile (altroot_is_subtree_vpath hi hP id id' hq)
theorem altroot_remove_dir {q : Str} (hq : Canon q) (hne : q ≠ []) :
    SimM (RSub spec) PRdrop (· = ·) (apath i id P id' q).removeDir (spath i id' q).removeDir :=
  VPath.sim_removeDir (altroot_is_subtree_vpath hi hP id id' hq) hne
theorem altroot_remove_dir_all (fuel : Nat) {q : Str} (hq : Canon q) (hne : q ≠ []) :
    SimM (RSub spec) PRdrop (· = ·) (VPath.removeDirAll fuel (apath i id P id' q))
      (VPath.removeDirAll fuel (spath i id' q)) :=
  VPath.sim_removeDirAll fuel (altroot_is_subtree_vpath hi hP id id' hq) hne
theorem altroot_read_to_end {q : Str} (hq : Canon q) :
    SimM (RSub spec) PRdrop (· = ·) (apath i id P id' q).readToEndChecked
      (spath i id' q).readToEndChecked :=
  VPath.sim_readToEndChecked (altroot_is_subtree_vpath hi hP id id' hq)
theorem altroot_write_session {q : Str} (hq : Canon q) (bs : Bytes) :
    SimM (RSub spec) PRdrop (· = ·)
      (do let hd ← (apath i id P id' q).createFile; hd.writeAllAndDrop bs : M Unit)
      (do let hd ← (spath i id' q).createFile; hd.writeAllAndDrop bs : M Unit) :=
  VPath.sim_writeSession (subtree_handles spec) (altroot_is_subtree_vpath hi hP id id' hq) bs
theorem altroot_append_session {q : Str} (hq : Canon q) (bs : Bytes) :
    SimM (RSub spec) PRdrop (· = ·)
      (do let hd ← (apath i id P id' q).appendFile; hd.writeAllAndDrop bs : M Unit)
      (do let hd ← (spath i id' q).appendFile; hd.writeAllAndDrop bs : M Unit) :=
  VPath.sim_appendSession (subtree_handles spec) (altroot_is_subtree_vpath hi hP id id' hq) bs
theorem altroot_copy_file {s d : Str} (hs : Canon s) (hd : Canon d) :
    SimM (RSub spec) PRdrop (· = ·) ((apath i id P id' s).copyFile (apath i id P id' d))
      ((spath i id' s).copyFile (spath i id' d)) :=
  VPath.sim_copyFile (subtree_handles spec) (altroot_is_subtree_vpath hi hP id id' hs)
    (altroot_is_subtree_vpath hi hP id id' hd) (fun _ => rfl) (fun _ => rfl)
theorem altroot_move_file {s d : Str} (hs : Canon s) (hd : Canon d) :
    SimM (RSub spec) PRdrop (· = ·) ((apath i id P id' s).moveFile (apath i id P id' d))
      ((spath i id' s).moveFile (spath i id' d)) :=
  VPath.sim_moveFile (subtree_handles spec) (altroot_is_subtree_vpath hi hP id id' hs)
    (altroot_is_subtree_vpath hi hP id id' hd)
theorem altroot_copy_dir (fuel : Nat) {s d : Str} (hs : Canon s) (hd : Canon d) (hne : d ≠ []) :
    SimM (RSub spec) PRdrop (· = ·)
      (VPath.copyDir fuel (apath i id P id' s) (apath i id P id' d))
      (VPath.copyDir fuel (spath i id' s) (spath i id' d)) :=
  VPath.sim_copyDir (subtree_handles spec) fuel (altroot_is_subtree_vpath hi hP id id' hs)
    (altroot_is_subtree_vpath hi hP id id' hd) hne (fun _ => rfl) (fun _ => rfl)
theorem altroot_move_dir (fuel : Nat) {s d : Str} (hs : Canon s) (hd : Canon d) (hns : s ≠ [])
    (hne : d ≠ []) :
    SimM (RSub spec) PRdrop (· = ·)
      (VPath.moveDir fuel (apath i id P id' s) (apath i id P id' d))
      (VPath.moveDir fuel (spath i id' s) (spath i id' d)) :=
  VPath.sim_moveDir (subtree_handles spec) fuel (altroot_is_subtree_vpath hi hP id id' hs)
    (altroot_is_subtree_vpath hi hP id id' hd) hns hne (fun _ => rfl) (fun _ => rfl)
/-- the whole walk below `q`: the same items (paths with equal strings, errors of equal kind) -/
theorem altroot_walk (fuel : Nat) {q : Str} (hq : Canon q) :
    SimM (RSub spec) PRdrop
      (ListRel (RelRes PRdrop (SimVP (RSub spec) PRdrop (HSub spec) (fun _ _ => True))))
      (do let s ← (apath i id P id' q).walkDir; VPath.walkAll fuel s)
      (do let s ← (spath i id' q).walkDir; VPath.walkAll fuel s) :=
  SimM.bind (VPath.sim_walkDir (B0 := fun _ _ => True)
      (altroot_is_subtree_vpath hi hP id id' hq) trivial (fun _ _ _ _ _ => trivial))
    fun _ _ hs => VPath.sim_walkAll childClosed_true fuel hs

end ops

/-! ### 3. the relation is inhabited; "the altroot view shows exactly the subtree below P" -/

/-- only leaf `i` is re-rooted -/
def specOne (i : Nat) (P : Str) : Nat → Role := fun j => if j = i then .sub P else .free

/-- for EVERY world whose leaf `i` is a memory map `m` with `P` and its ancestors directories and
canonical keys below `P`, replacing the leaf by its sub-map gives a related world -/
theorem rsub_of_leaf (w : World) (i : Nat) (P : Str) (m : FMap) (h : MemLeafAt w i m)
    (hinv : Inv0 (sub P m)) (hanc : AncOK P m) :
    RSub (specOne i P) w (w.setLeafFiles i (sub P m)) := by
  refine ⟨rfl, rfl, rfl, fun j => ?_⟩
  unfold specOne
  by_cases hj : j = i
  · subst hj
    rw [if_pos rfl]
    exact ⟨m, h, h.set _, hinv, hanc⟩
  · rw [if_neg hj, World.leaf?_setLeafFiles_ne _ _ _ _ (fun e => hj e.symm)]
    rfl

end Vfs.T.C07
