/-
  Panic-freedom calculus for C13 ("no operation panics").

  In the model every site where the Rust code can panic is the explicit outcome `Res.panic`
  (slices out of range, arithmetic overflow, `onLeaf` on a leaf that does not exist, and the
  fuel sentinel of the recursive functions). An operation is panic-free *relative to an
  invariant on worlds*:

    `NoPanic I m := (∀ w, I w → I (m w).2) ∧ (∀ w, I w → (m w).1 ≠ .panic)`

  The first half makes the notion closed under `bind` (the continuation starts in a world that
  satisfies `I` again). The invariant that the concrete stacks need is "the leaves exist"
  (`LeafExists i`, `LeavesLen n`): `onLeaf i` panics exactly when leaf `i` is missing, and no
  operation changes the number of leaves.

  Contents: the calculus (pure/ret/fail/bind/withPath/attempt/ite and two inversion rules for
  the fuel statements), write handles, `FS.NoPanic`, leaves, every operation of the `VfsPath`
  layer, the walk invariant `Walk.Below` for the slice of `relJoin`, the fuel-taking recursions
  (one-step lemmas and "a panic is the fuel sentinel" via the predicates `…Out`), AltrootFS,
  OverlayFS, EmbeddedFS.
-/
import VfsModel.Proofs.Faithful
import VfsModel.Props.C06
import VfsModel.Embedded
namespace Vfs

/-! ### definitions -/

/-- `m` keeps the invariant `I` and, started in a world satisfying `I`, does not panic -/
structure NoPanic {α} (I : World → Prop) (m : M α) : Prop where
  pres : ∀ w, I w → I (m w).2
  np : ∀ w, I w → (m w).1 ≠ .panic

theorem Res.map_ne_panic {α β} (f : α → β) (r : Res α) (h : r ≠ .panic) : r.map f ≠ .panic := by
  cases r <;> simp [Res.map] at h ⊢

theorem Res.withPath_ne_panic {α} (p : Str) (r : Res α) (h : r ≠ .panic) : r.withPath p ≠ .panic := by
  cases r <;> simp [Res.withPath] at h ⊢

theorem fail_ne_panic {α} (k : ErrKind) : (fail k : Res α) ≠ .panic := by simp [fail]

theorem Res.ok_ne_panic {α} (a : α) : (Res.ok a : Res α) ≠ .panic := by simp
theorem Res.err_ne_panic {α} (k : ErrKind) (p : Option Str) : (Res.err k p : Res α) ≠ .panic := by simp

/-! ### the calculus -/
namespace NoPanic
variable {I : World → Prop}

theorem preserves {α} {m : M α} (h : NoPanic I m) : Preserves I m := ⟨h.pres⟩

theorem of_preserves {α} {m : M α} (hp : Preserves I m) (hn : ∀ w, I w → (m w).1 ≠ .panic) :
    NoPanic I m := ⟨hp.pres, hn⟩

/-- an operation that never panics, in any world, and preserves `I` -/
theorem of_total {α} {m : M α} (hp : Preserves I m) (hn : ∀ w, (m w).1 ≠ .panic) :
    NoPanic I m := ⟨hp.pres, fun w _ => hn w⟩

theorem pure {α} (a : α) : NoPanic I (Pure.pure a : M α) :=
  ⟨fun _ h => h, fun _ _ => Res.ok_ne_panic a⟩
theorem mpure {α} (a : α) : NoPanic I (M.pure a) :=
  ⟨fun _ h => h, fun _ _ => Res.ok_ne_panic a⟩
/-- lifting an outcome that is not `.panic` -/
theorem ret {α} (r : Res α) (h : r ≠ .panic) : NoPanic I (M.ret r) :=
  ⟨fun _ hw => hw, fun _ _ => h⟩
theorem failK {α} (k : ErrKind) : NoPanic I (M.failK k : M α) :=
  ⟨fun _ h => h, fun _ _ => fail_ne_panic k⟩
theorem failAt {α} (k : ErrKind) (p : Str) : NoPanic I (M.failAt k p : M α) :=
  ⟨fun _ h => h, fun _ _ => Res.err_ne_panic k (some p)⟩

/-- `bind` with a postcondition that may use the invariant -/
theorem bindI {α β} {m : M α} {f : α → M β} (Q : α → Prop) (hm : NoPanic I m)
    (hq : ∀ w, I w → ∀ a, (m w).1 = .ok a → Q a) (hf : ∀ a, Q a → NoPanic I (f a)) :
    NoPanic I (m >>= f) := by
  constructor
  · intro w hw
    show I (M.bind m f w).2
    have h1 := hm.pres w hw; have h3 := hq w hw
    cases hres : m w with
    | mk r w' =>
      rw [hres] at h1 h3
      cases r with
      | ok a => rw [M.bind_ok hres]; exact (hf a (h3 a rfl)).pres w' h1
      | err k p => rw [M.bind_err hres]; exact h1
      | panic => rw [M.bind_panic hres]; exact h1
  · intro w hw
    show (M.bind m f w).1 ≠ .panic
    have h1 := hm.pres w hw; have h2 := hm.np w hw; have h3 := hq w hw
    cases hres : m w with
    | mk r w' =>
      rw [hres] at h1 h2 h3
      cases r with
      | ok a => rw [M.bind_ok hres]; exact (hf a (h3 a rfl)).np w' h1
      | err k p => rw [M.bind_err hres]; intro h; cases h
      | panic => exact absurd rfl h2

theorem bindQ {α β} {m : M α} {f : α → M β} (Q : α → Prop) (hm : NoPanic I m) (hq : Returns m Q)
    (hf : ∀ a, Q a → NoPanic I (f a)) : NoPanic I (m >>= f) :=
  bindI Q hm (fun w _ a h => hq.post w a h) hf

theorem bind {α β} {m : M α} {f : α → M β} (hm : NoPanic I m) (hf : ∀ a, NoPanic I (f a)) :
    NoPanic I (m >>= f) :=
  bindQ (fun _ => True) hm (Returns.trivial m) (fun a _ => hf a)

theorem mbind {α β} {m : M α} {f : α → M β} (hm : NoPanic I m) (hf : ∀ a, NoPanic I (f a)) :
    NoPanic I (M.bind m f) := bind hm hf

theorem seq_unit {β} {m : M Unit} {f : M β} (hm : NoPanic I m) (hf : NoPanic I f) :
    NoPanic I (do m; f) := bind hm (fun _ => hf)

theorem withPath {α} (p : Str) {m : M α} (hm : NoPanic I m) : NoPanic I (M.withPath p m) := by
  refine ⟨(Preserves.withPath p hm.preserves).pres, fun w hw => ?_⟩
  have : (M.withPath p m w) = ((m w).1.withPath p, (m w).2) := rfl
  rw [this]
  exact Res.withPath_ne_panic p _ (hm.np w hw)

/-- `M.attempt` hands the outcome to a handler: the attempt itself never fails … -/
theorem attempt {α} {m : M α} (hm : NoPanic I m) : NoPanic I (M.attempt m) :=
  ⟨(Preserves.attempt hm.preserves).pres, fun w _ => Res.ok_ne_panic (m w).1⟩

/-- … and the outcome handed over is not `.panic` -/
theorem attempt_post {α} {m : M α} (hm : NoPanic I m) (w : World) (hw : I w) (r : Res α)
    (h : (M.attempt m w).1 = .ok r) : r ≠ .panic := by
  have : (M.attempt m w) = (.ok (m w).1, (m w).2) := rfl
  rw [this] at h
  injection h with h
  subst h
  exact hm.np w hw

theorem ite {α} {c : Prop} [Decidable c] {a b : M α} (ha : NoPanic I a) (hb : NoPanic I b) :
    NoPanic I (if c then a else b) := by
  split <;> assumption

/-- `bind` after an operation that returns `()` -/
theorem unit_bind {β} {m : M Unit} {f : Unit → M β} (hm : NoPanic I m) (hf : NoPanic I (f ())) :
    NoPanic I (m >>= f) := bind hm (fun _ => hf)

/-! #### inversion of a panicking `bind` (used for the fuel statements) -/

/-- if `m` cannot panic, a panic of `m >>= f` is a panic of the continuation, which was started
on the value and in the world that `m` ended with -/
theorem bind_panic_right {α β} {m : M α} {f : α → M β} (hm : NoPanic I m) {w : World} (hw : I w)
    (h : ((m >>= f) w).1 = .panic) : ∃ a w', m w = (.ok a, w') ∧ I w' ∧ (f a w').1 = .panic := by
  have h1 := hm.pres w hw; have h2 := hm.np w hw
  have h' : (M.bind m f w).1 = .panic := h
  cases hres : m w with
  | mk r w' =>
    rw [hres] at h1 h2
    cases r with
    | ok a => rw [M.bind_ok hres] at h'; exact ⟨a, w', rfl, h1, h'⟩
    | err k p => rw [M.bind_err hres] at h'; cases h'
    | panic => exact absurd rfl h2

/-- if the continuation cannot panic, a panic of `m >>= f` is a panic of `m` -/
theorem bind_panic_left {α β} {m : M α} {f : α → M β} (hp : Preserves I m)
    (hf : ∀ a, NoPanic I (f a)) {w : World} (hw : I w)
    (h : ((m >>= f) w).1 = .panic) : (m w).1 = .panic := by
  have h1 := hp.pres w hw
  have h' : (M.bind m f w).1 = .panic := h
  cases hres : m w with
  | mk r w' =>
    rw [hres] at h1
    cases r with
    | ok a => rw [M.bind_ok hres] at h'; exact absurd h' ((hf a).np w' h1)
    | err k p => rw [M.bind_err hres] at h'; cases h'
    | panic => rfl

end NoPanic

macro "np_step" : tactic => `(tactic| first
  | with_reducible exact NoPanic.pure _ | with_reducible exact NoPanic.mpure _
  | with_reducible exact NoPanic.failK _ | with_reducible exact NoPanic.failAt _ _
  | with_reducible apply NoPanic.bind
  | with_reducible apply NoPanic.withPath | with_reducible apply NoPanic.attempt
  | dsimp only
  | intro _ | split
  | (apply_assumption; done))
/-- discharge `NoPanic I m` goals by structural decomposition of `m` -/
macro "nopanic" : tactic => `(tactic| (repeat (any_goals np_step)))

/-! ### invariants: the leaves exist -/

/-- leaf `i` exists -/
def LeafExists (i : Nat) (w : World) : Prop := w.leaf? i ≠ none

/-- the world has exactly `n` leaves -/
def LeavesLen (n : Nat) (w : World) : Prop := w.leaves.length = n

theorem World.setLeafFiles_length (w : World) (i : Nat) (f : FMap) :
    (w.setLeafFiles i f).leaves.length = w.leaves.length := by
  unfold World.setLeafFiles
  simp

theorem LeavesLen.ignores (n i : Nat) : IgnoresLeaf (LeavesLen n) i := by
  intro w f h
  unfold LeavesLen at *
  rw [World.setLeafFiles_length]; exact h

theorem LeavesLen.exists_ {n i : Nat} (hi : i < n) (w : World) (h : LeavesLen n w) :
    LeafExists i w := by
  unfold LeavesLen at h
  unfold LeafExists World.leaf?
  simp
  omega

theorem LeafExists.iff_lt (i : Nat) (w : World) : LeafExists i w ↔ i < w.leaves.length := by
  unfold LeafExists World.leaf?
  simp

theorem LeafExists.ignores (i j : Nat) : IgnoresLeaf (LeafExists i) j := by
  intro w f h
  rw [LeafExists.iff_lt] at *
  rw [World.setLeafFiles_length]; exact h

/-! ### write handles never panic, in any world -/

theorem cursorSeek_ne_panic (len pos : Nat) (s : SeekFrom) : cursorSeek len pos s ≠ .panic := by
  unfold cursorSeek
  cases s with
  | start o => simp
  | cur o => dsimp only; split <;> simp [fail]
  | fromEnd o => dsimp only; split <;> simp [fail]

namespace WHandle

/-- `write` tolerates a missing leaf and a removed file (it then writes nothing) -/
theorem write_ne_panic (h : WHandle) (bs : Bytes) (w : World) : (h.write bs w).1 ≠ .panic := by
  unfold WHandle.write
  cases h.kind <;> dsimp only
  · simp
  · split
    · split <;> simp
    · simp
  · split
    · split <;> simp
    · simp

theorem seek_ne_panic (h : WHandle) (s : SeekFrom) (w : World) : (h.seek s w).1 ≠ .panic := by
  have := cursorSeek_ne_panic (h.fileLen w) h.pos s
  unfold WHandle.seek
  split
  · simp
  · simp
  · rename_i heq; exact absurd heq this

theorem flush_ne_panic (h : WHandle) (w : World) : (h.flush w).1 ≠ .panic := by
  unfold WHandle.flush
  cases h.kind <;> dsimp only
  · split <;> simp
  · simp
  · simp

theorem drop_ne_panic (h : WHandle) (w : World) : (h.drop w).1 ≠ .panic := flush_ne_panic h w

/-- `seek` does not change the world -/
theorem seek_world (h : WHandle) (s : SeekFrom) (w : World) : (h.seek s w).2 = w := by
  unfold WHandle.seek
  split <;> rfl

theorem seek_pres {I : World → Prop} (h : WHandle) (s : SeekFrom) : Preserves I (h.seek s) :=
  ⟨fun w hw => by rw [seek_world]; exact hw⟩

theorem writeAllAndDrop_ne_panic (h : WHandle) (bs : Bytes) (w : World) :
    (h.writeAllAndDrop bs w).1 ≠ .panic := by
  unfold WHandle.writeAllAndDrop
  show (M.bind (h.write bs) _ w).1 ≠ .panic
  have h1 := write_ne_panic h bs w
  cases hres : h.write bs w with
  | mk r w' =>
    rw [hres] at h1
    cases r with
    | ok a => rw [M.bind_ok hres]; exact drop_ne_panic _ _
    | err k p => rw [M.bind_err hres]; intro h; cases h
    | panic => exact absurd rfl h1

end WHandle

namespace HandleOK
variable {I : World → Prop}

theorem np_write {h : WHandle} (hk : HandleOK I h) (bs : Bytes) : NoPanic I (h.write bs) :=
  .of_total (hk.write bs) (WHandle.write_ne_panic h bs)
theorem np_flush {h : WHandle} (hk : HandleOK I h) : NoPanic I h.flush :=
  .of_total hk.flush (WHandle.flush_ne_panic h)
theorem np_drop {h : WHandle} (hk : HandleOK I h) : NoPanic I h.drop :=
  .of_total hk.drop (WHandle.drop_ne_panic h)
theorem np_seek {h : WHandle} (s : SeekFrom) : NoPanic I (h.seek s) :=
  .of_total (WHandle.seek_pres h s) (WHandle.seek_ne_panic h s)
theorem np_writeAllAndDrop {h : WHandle} (hk : HandleOK I h) (bs : Bytes) :
    NoPanic I (h.writeAllAndDrop bs) :=
  .of_total (hk.writeAllAndDrop bs) (WHandle.writeAllAndDrop_ne_panic h bs)

/-- what `write` returns is again a handle that preserves `I` -/
theorem write_ret {h : WHandle} (hk : HandleOK I h) (bs : Bytes) :
    Returns (h.write bs) (fun r => HandleOK I r.2) := by
  refine ⟨fun w r he => ?_⟩
  obtain ⟨n, h'⟩ := r
  obtain ⟨buf, pos, rfl⟩ := WHandle.write_same h bs w n h' he
  exact hk.of_same buf pos

end HandleOK

/-! ### read handles (the statements about `read` and `seek` are C14's) -/

theorem RHandle.readToEnd_ne_panic (r : RHandle) : r.readToEnd.1 ≠ .panic := by
  unfold RHandle.readToEnd
  split <;> simp [fail]

/-! ### filesystems -/

/-- every method of the filesystem is panic-free under `I` and keeps `I`, and the write
handles it hands out keep `I` (that they never panic holds for every handle) -/
structure FS.NoPanic (I : World → Prop) (fs : FS) : Prop where
  readDir : ∀ p, Vfs.NoPanic I (fs.readDir p)
  createDir : ∀ p, Vfs.NoPanic I (fs.createDir p)
  openFile : ∀ p, Vfs.NoPanic I (fs.openFile p)
  createFile : ∀ p, Vfs.NoPanic I (fs.createFile p)
  appendFile : ∀ p, Vfs.NoPanic I (fs.appendFile p)
  metadata : ∀ p, Vfs.NoPanic I (fs.metadata p)
  setCreationTime : ∀ p t, Vfs.NoPanic I (fs.setCreationTime p t)
  setModificationTime : ∀ p t, Vfs.NoPanic I (fs.setModificationTime p t)
  setAccessTime : ∀ p t, Vfs.NoPanic I (fs.setAccessTime p t)
  exists_ : ∀ p, Vfs.NoPanic I (fs.exists_ p)
  removeFile : ∀ p, Vfs.NoPanic I (fs.removeFile p)
  removeDir : ∀ p, Vfs.NoPanic I (fs.removeDir p)
  copyFile : ∀ s d, Vfs.NoPanic I (fs.copyFile s d)
  moveFile : ∀ s d, Vfs.NoPanic I (fs.moveFile s d)
  moveDir : ∀ s d, Vfs.NoPanic I (fs.moveDir s d)
  createHandle : ∀ p, Returns (fs.createFile p) (HandleOK I)
  appendHandle : ∀ p, Returns (fs.appendFile p) (HandleOK I)

theorem FS.NoPanic.all {I : World → Prop} {fs : FS} (h : fs.NoPanic I) : fs.AllPreserve I where
  readDir p := (h.readDir p).preserves
  createDir p := (h.createDir p).preserves
  openFile p := (h.openFile p).preserves
  createFile p := (h.createFile p).preserves
  appendFile p := (h.appendFile p).preserves
  metadata p := (h.metadata p).preserves
  setCreationTime p t := (h.setCreationTime p t).preserves
  setModificationTime p t := (h.setModificationTime p t).preserves
  setAccessTime p t := (h.setAccessTime p t).preserves
  exists_ p := (h.exists_ p).preserves
  removeFile p := (h.removeFile p).preserves
  removeDir p := (h.removeDir p).preserves
  copyFile s d := (h.copyFile s d).preserves
  moveFile s d := (h.moveFile s d).preserves
  moveDir s d := (h.moveDir s d).preserves
  createHandle := h.createHandle
  appendHandle := h.appendHandle

/-- the placeholder filesystem (every method `NotSupported`) -/
theorem FS.NoPanic.default {I : World → Prop} : (default : FS).NoPanic I where
  readDir _ := .failK _
  createDir _ := .failK _
  openFile _ := .failK _
  createFile _ := .failK _
  appendFile _ := .failK _
  metadata _ := .failK _
  setCreationTime _ _ := .failK _
  setModificationTime _ _ := .failK _
  setAccessTime _ _ := .failK _
  exists_ _ := .failK _
  removeFile _ := .failK _
  removeDir _ := .failK _
  copyFile _ _ := .failK _
  moveFile _ _ := .failK _
  moveDir _ _ := .failK _
  createHandle _ := Returns.failK _
  appendHandle _ := Returns.failK _

end Vfs

/-! ### leaves: `Mem.*` and `Phys.*` are total functions producing `ok` / `err` only

For every map and every path string — the root `""`, paths without a parent, targets of the
wrong type included. The `.panic` branches of these functions only forward a panic of a callee
(`ensureHasParent`, `lookup`, …), and the callees have none. -/
namespace Vfs

namespace Mem

theorem readDir_np (m : FMap) (p : Str) : readDir m p ≠ .panic := by
  unfold readDir
  split
  · simp [fail]
  · split <;> simp [fail]

theorem ensureHasParent_np (m : FMap) (p : Str) : ensureHasParent m p ≠ .panic := by
  unfold ensureHasParent
  split
  · split
    · split <;> simp [fail]
    · simp [fail]
  · simp [fail]

theorem createDir_np (m : FMap) (p : Str) : (createDir m p).1 ≠ .panic := by
  have := ensureHasParent_np m p
  unfold createDir
  split
  · split
    · dsimp only; split <;> simp [fail]
    · simp
  · simp
  · rename_i heq; exact absurd heq this

theorem setAccessed_np (m : FMap) (p : Str) (t : TS) : (setAccessed m p t).1 ≠ .panic := by
  unfold setAccessed; split <;> simp [fail]
theorem setModified_np (m : FMap) (p : Str) (t : TS) : (setModified m p t).1 ≠ .panic := by
  unfold setModified; split <;> simp [fail]
theorem setCreated_np (m : FMap) (p : Str) (t : TS) : (setCreated m p t).1 ≠ .panic := by
  unfold setCreated; split <;> simp [fail]

theorem openFile_np (m : FMap) (p : Str) : (openFile m p).1 ≠ .panic := by
  have := setAccessed_np m p .now
  unfold openFile
  split
  · split
    · simp [fail]
    · split <;> simp [fail]
  · simp
  · rename_i heq; rw [heq] at this; exact absurd rfl this

theorem createFile_np (m : FMap) (p : Str) : (createFile m p).1 ≠ .panic := by
  have := ensureHasParent_np m p
  unfold createFile
  split
  · split
    · split <;> simp [fail]
    · simp
  · simp
  · rename_i heq; exact absurd heq this

theorem appendFile_np (m : FMap) (p : Str) : appendFile m p ≠ .panic := by
  unfold appendFile
  split
  · simp [fail]
  · split <;> simp [fail]

theorem metadata_np (m : FMap) (p : Str) : metadata m p ≠ .panic := by
  unfold metadata; split <;> simp [fail]

theorem removeFile_np (m : FMap) (p : Str) : (removeFile m p).1 ≠ .panic := by
  unfold removeFile
  split
  · simp [fail]
  · split <;> simp [fail]

theorem removeDir_np (m : FMap) (p : Str) : (removeDir m p).1 ≠ .panic := by
  have := readDir_np m p
  unfold removeDir
  split
  · split
    · simp [fail]
    · split <;> simp [fail]
  · simp
  · rename_i heq; exact absurd heq this

end Mem

namespace Phys

theorem resolveParent_np (m : FMap) (p : Str) : resolveParent m p ≠ .panic := by
  unfold resolveParent
  split
  · simp
  · split <;> simp [fail]

theorem lookup_np (m : FMap) (p : Str) : lookup m p ≠ .panic := by
  have := resolveParent_np m p
  unfold lookup
  split
  · simp
  · simp
  · rename_i heq; exact absurd heq this

theorem readDir_np (m : FMap) (p : Str) : readDir m p ≠ .panic := by
  have := lookup_np m p
  unfold readDir
  split
  · simp [fail]
  · split <;> simp [fail]
  · simp
  · rename_i heq; exact absurd heq this

theorem createDir_np (m : FMap) (p : Str) : (createDir m p).1 ≠ .panic := by
  have := lookup_np m p
  unfold createDir
  split
  · simp
  · dsimp only; split <;> simp [fail]
  · simp
  · rename_i heq; exact absurd heq this

theorem openFile_np (m : FMap) (p : Str) : openFile m p ≠ .panic := by
  have := lookup_np m p
  unfold openFile
  split
  · simp [fail]
  · split <;> simp
  · simp
  · rename_i heq; exact absurd heq this

theorem createFile_np (m : FMap) (p : Str) : (createFile m p).1 ≠ .panic := by
  have := lookup_np m p
  unfold createFile
  split
  · simp
  · split <;> simp [fail]
  · simp
  · rename_i heq; exact absurd heq this

theorem appendFile_np (m : FMap) (p : Str) : appendFile m p ≠ .panic := by
  have := lookup_np m p
  unfold appendFile
  split
  · simp [fail]
  · split <;> simp [fail]
  · simp
  · rename_i heq; exact absurd heq this

theorem metadata_np (m : FMap) (p : Str) : metadata m p ≠ .panic := by
  have := lookup_np m p
  unfold metadata
  split
  · simp [fail]
  · simp
  · simp
  · rename_i heq; exact absurd heq this

theorem removeFile_np (m : FMap) (p : Str) : (removeFile m p).1 ≠ .panic := by
  have := lookup_np m p
  unfold removeFile
  split
  · simp [fail]
  · split <;> simp [fail]
  · simp
  · rename_i heq; exact absurd heq this

theorem removeDir_np (m : FMap) (p : Str) : (removeDir m p).1 ≠ .panic := by
  have := lookup_np m p
  unfold removeDir
  split
  · simp [fail]
  · split
    · simp [fail]
    · split <;> simp [fail]
  · simp
  · rename_i heq; exact absurd heq this

theorem setTime_np (upd : Entry → Entry) (m : FMap) (p : Str) : (setTime upd m p).1 ≠ .panic := by
  have := lookup_np m p
  unfold setTime
  split
  · simp [fail]
  · simp
  · simp
  · rename_i heq; exact absurd heq this

theorem copyFile_np (m : FMap) (s d : Str) : (copyFile m s d).1 ≠ .panic := by
  have h1 := lookup_np m s
  have h2 := lookup_np m d
  unfold copyFile
  split
  · simp [fail]
  · split
    · simp [fail]
    · split
      · simp
      · split <;> simp [fail]
      · simp
      · rename_i heq; exact absurd heq h2
  · simp
  · rename_i heq; exact absurd heq h1

theorem rename_np (m : FMap) (s d : Str) : (rename m s d).1 ≠ .panic := by
  have h1 := lookup_np m s
  have h2 := lookup_np m d
  have h3 := resolveParent_np m s
  have h4 := resolveParent_np m d
  unfold rename
  split
  · simp
  · rename_i heq; exact absurd heq h3
  · simp
  · rename_i heq; exact absurd heq h4
  · split
    · simp [fail]
    · split
      · split <;> simp [fail]
      · simp [fail]
      · simp
      · rename_i heq; exact absurd heq h2
    · simp
    · rename_i heq; exact absurd heq h1

end Phys

/-- `onLeaf i f` panics exactly when leaf `i` is missing (given that `f` does not) -/
theorem onLeaf_np {α} {I : World → Prop} (i : Nat) (hI : IgnoresLeaf I i)
    (hex : ∀ w, I w → LeafExists i w) (f : Leaf → Res α × FMap) (hf : ∀ l, (f l).1 ≠ .panic) :
    NoPanic I (onLeaf i f) := by
  refine .of_preserves (onLeaf_pres i hI f) (fun w hw => ?_)
  have := hex w hw
  unfold LeafExists at this
  unfold onLeaf
  split
  · rename_i heq; exact absurd heq this
  · exact hf _

/-- the converse: on a world without leaf `i`, every `onLeaf i f` panics -/
theorem onLeaf_panics {α} (i : Nat) (f : Leaf → Res α × FMap) (w : World) (h : w.leaf? i = none) :
    (onLeaf i f w).1 = .panic := by
  unfold onLeaf; rw [h]

/-- **a leaf filesystem never panics as long as its leaf exists**, for every invariant that
guarantees the leaf and is not disturbed by writes to it -/
theorem leafFS_noPanic_of {I : World → Prop} (i : Nat) (hI : IgnoresLeaf I i)
    (hex : ∀ w, I w → LeafExists i w) : (leafFS i).NoPanic I where
  readDir p := onLeaf_np i hI hex _ (fun l => by
    cases l.kind <;> dsimp only
    · exact Mem.readDir_np _ _
    · exact Phys.readDir_np _ _)
  createDir p := onLeaf_np i hI hex _ (fun l => by
    cases l.kind <;> dsimp only
    · exact Mem.createDir_np _ _
    · exact Phys.createDir_np _ _)
  openFile p := onLeaf_np i hI hex _ (fun l => by
    cases l.kind <;> dsimp only
    · exact Mem.openFile_np _ _
    · exact Phys.openFile_np _ _)
  createFile p := onLeaf_np i hI hex _ (fun l => by
    cases l.kind <;> dsimp only
    · exact Res.map_ne_panic _ _ (Mem.createFile_np _ _)
    · exact Res.map_ne_panic _ _ (Phys.createFile_np _ _))
  appendFile p := onLeaf_np i hI hex _ (fun l => by
    cases l.kind <;> dsimp only
    · exact Res.map_ne_panic _ _ (Mem.appendFile_np _ _)
    · exact Res.map_ne_panic _ _ (Phys.appendFile_np _ _))
  metadata p := onLeaf_np i hI hex _ (fun l => by
    cases l.kind <;> dsimp only
    · exact Mem.metadata_np _ _
    · exact Phys.metadata_np _ _)
  setCreationTime p t := onLeaf_np i hI hex _ (fun l => by
    cases l.kind <;> dsimp only
    · exact Mem.setCreated_np _ _ _
    · exact fail_ne_panic _)
  setModificationTime p t := onLeaf_np i hI hex _ (fun l => by
    cases l.kind <;> dsimp only
    · exact Mem.setModified_np _ _ _
    · exact Phys.setTime_np _ _ _)
  setAccessTime p t := onLeaf_np i hI hex _ (fun l => by
    cases l.kind <;> dsimp only
    · exact Mem.setAccessed_np _ _ _
    · exact Phys.setTime_np _ _ _)
  exists_ p := onLeaf_np i hI hex _ (fun l => by
    cases l.kind <;> exact Res.ok_ne_panic _)
  removeFile p := onLeaf_np i hI hex _ (fun l => by
    cases l.kind <;> dsimp only
    · exact Mem.removeFile_np _ _
    · exact Phys.removeFile_np _ _)
  removeDir p := onLeaf_np i hI hex _ (fun l => by
    cases l.kind <;> dsimp only
    · exact Mem.removeDir_np _ _
    · exact Phys.removeDir_np _ _)
  copyFile s d := onLeaf_np i hI hex _ (fun l => by
    cases l.kind <;> dsimp only
    · exact fail_ne_panic _
    · exact Phys.copyFile_np _ _ _)
  moveFile s d := onLeaf_np i hI hex _ (fun l => by
    cases l.kind <;> dsimp only
    · exact fail_ne_panic _
    · exact Phys.rename_np _ _ _)
  moveDir s d := onLeaf_np i hI hex _ (fun l => by
    cases l.kind <;> dsimp only
    · exact fail_ne_panic _
    · split
      · exact Res.ok_ne_panic _
      · exact fail_ne_panic _)
  createHandle := (leafFS_all_preserve i hI).createHandle
  appendHandle := (leafFS_all_preserve i hI).appendHandle

theorem leafFS_noPanic (i : Nat) : (leafFS i).NoPanic (LeafExists i) :=
  leafFS_noPanic_of i (LeafExists.ignores i i) (fun _ h => h)

theorem leafFS_noPanic_len {n i : Nat} (hi : i < n) : (leafFS i).NoPanic (LeavesLen n) :=
  leafFS_noPanic_of i (LeavesLen.ignores n i) (LeavesLen.exists_ hi)

end Vfs

/-! ### the `VfsPath` layer, over an arbitrary filesystem with `FS.NoPanic I` -/
namespace Vfs
namespace VPath
variable {I : World → Prop}

/-- `VfsPath::join` never panics, for any two strings -/
theorem join_ne_panic (p : VPath) (arg : Str) : p.join arg ≠ .panic :=
  Res.map_ne_panic _ _ (C06.join_total p.path arg)

theorem np_exists (p : VPath) (h : p.fs.NoPanic I) : NoPanic I p.exists_ := h.exists_ _
theorem np_metadata (p : VPath) (h : p.fs.NoPanic I) : NoPanic I p.metadata :=
  .withPath _ (h.metadata _)
theorem np_openFile (p : VPath) (h : p.fs.NoPanic I) : NoPanic I p.openFile :=
  .withPath _ (h.openFile _)
theorem np_appendFile (p : VPath) (h : p.fs.NoPanic I) : NoPanic I p.appendFile :=
  .withPath _ (h.appendFile _)
theorem np_removeFile (p : VPath) (h : p.fs.NoPanic I) : NoPanic I p.removeFile :=
  .withPath _ (h.removeFile _)
theorem np_removeDir (p : VPath) (h : p.fs.NoPanic I) : NoPanic I p.removeDir :=
  .withPath _ (h.removeDir _)
theorem np_setCreationTime (p : VPath) (t : Int) (h : p.fs.NoPanic I) :
    NoPanic I (p.setCreationTime t) := .withPath _ (h.setCreationTime _ _)
theorem np_setModificationTime (p : VPath) (t : Int) (h : p.fs.NoPanic I) :
    NoPanic I (p.setModificationTime t) := .withPath _ (h.setModificationTime _ _)
theorem np_setAccessTime (p : VPath) (t : Int) (h : p.fs.NoPanic I) :
    NoPanic I (p.setAccessTime t) := .withPath _ (h.setAccessTime _ _)

theorem np_readDir (p : VPath) (h : p.fs.NoPanic I) : NoPanic I p.readDir := by
  have h1 := h.readDir
  unfold readDir
  nopanic

theorem np_isFile (p : VPath) (h : p.fs.NoPanic I) : NoPanic I p.isFile := by
  have h1 := h.exists_; have h2 := h.metadata
  unfold isFile exists_ metadata
  nopanic

theorem np_isDir (p : VPath) (h : p.fs.NoPanic I) : NoPanic I p.isDir := by
  have h1 := h.exists_; have h2 := h.metadata
  unfold isDir exists_ metadata
  nopanic

/-- `get_parent`, also on the root (whose parent is the root) -/
theorem np_getParent (p : VPath) (h : p.fs.NoPanic I) : NoPanic I p.getParent := by
  have h1 := h.exists_; have h2 := h.metadata
  unfold getParent exists_ metadata parent withStr
  nopanic

theorem np_createDir (p : VPath) (h : p.fs.NoPanic I) : NoPanic I p.createDir := by
  have h1 := np_getParent p h; have h2 := h.createDir
  unfold createDir
  nopanic

theorem np_createFile (p : VPath) (h : p.fs.NoPanic I) : NoPanic I p.createFile := by
  have h1 := np_getParent p h; have h2 := h.createFile
  unfold createFile
  nopanic

theorem createFile_handleOK (p : VPath) (h : p.fs.NoPanic I) : Returns p.createFile (HandleOK I) :=
  createFile_handle p h.all
theorem appendFile_handleOK (p : VPath) (h : p.fs.NoPanic I) : Returns p.appendFile (HandleOK I) :=
  appendFile_handle p h.all

/-- the loop of `create_dir_all` is structural on the list of prefixes -/
theorem np_createDirAllLoop (p : VPath) (h : p.fs.NoPanic I) (l : List Str) :
    NoPanic I (createDirAllLoop p l) := by
  refine .of_preserves (pres_createDirAllLoop p h.all l) ?_
  induction l with
  | nil => exact (NoPanic.pure (I := I) ()).np
  | cons d rest ih =>
    intro w hw
    unfold createDirAllLoop
    have h1 := (h.createDir d).pres w hw
    have h2 := (h.createDir d).np w hw
    cases hres : p.fs.createDir d w with
    | mk r w' =>
      rw [hres] at h1 h2
      cases r with
      | ok a => exact ih w' h1
      | err k pth =>
        cases k <;> dsimp only
        case dirExists => exact ih w' h1
        all_goals exact Res.err_ne_panic _ _
      | panic => exact absurd rfl h2

theorem np_createDirAll (p : VPath) (h : p.fs.NoPanic I) : NoPanic I p.createDirAll := by
  unfold createDirAll
  split
  · exact .pure _
  · exact np_createDirAllLoop p h _

theorem np_readToEndChecked (p : VPath) (h : p.fs.NoPanic I) : NoPanic I p.readToEndChecked := by
  unfold readToEndChecked
  apply NoPanic.bind (np_metadata p h)
  intro md
  split
  · exact .failAt _ _
  · apply NoPanic.bind (np_openFile p h)
    intro r
    exact .withPath _ (.ret _ r.readToEnd_ne_panic)

/-! #### transfers -/

theorem np_ioCopyAndDrop (r : RHandle) (h : WHandle) (sp : Str) (hk : HandleOK I h) :
    NoPanic I (ioCopyAndDrop r h sp) := by
  unfold ioCopyAndDrop
  apply NoPanic.bind (.withPath _ (.ret _ r.readToEnd_ne_panic))
  intro bytes
  apply NoPanic.bindQ _ (hk.np_write bytes) (hk.write_ret bytes)
  intro x hx
  exact hx.np_drop

/-- the outcome of the fast path that the handler of copy_file / move_file / move_dir sees -/
theorem np_fast {c : Prop} [Decidable c] {m : M Unit} (hm : c → NoPanic I m) :
    NoPanic I (if c then M.attempt m else (Pure.pure (fail .notSupported) : M (Res Unit))) ∧
    ∀ w, I w → ∀ r, ((if c then M.attempt m else (Pure.pure (fail .notSupported) : M (Res Unit))) w).1
      = .ok r → r ≠ .panic := by
  by_cases hc : c
  · simp only [hc, ↓reduceIte]
    exact ⟨.attempt (hm hc), fun w hw r he => NoPanic.attempt_post (hm hc) w hw r he⟩
  · simp only [hc, ↓reduceIte]
    refine ⟨.pure _, fun w _ r he => ?_⟩
    have he' : (Res.ok (fail .notSupported) : Res (Res Unit)) = .ok r := he
    injection he' with he'
    subst he'
    exact fail_ne_panic _

/-- `copy_file` -/
theorem np_copyFile (src dst : VPath) (hs : src.fs.NoPanic I) (hd : dst.fs.NoPanic I) :
    NoPanic I (src.copyFile dst) := by
  unfold copyFile
  apply NoPanic.withPath
  apply NoPanic.bind (np_exists dst hd)
  intro b
  split
  · exact .failAt _ _
  · have hf := np_fast (I := I) (c := src.fsId = dst.fsId) (fun _ => hs.copyFile src.path dst.path)
    apply NoPanic.bindI _ hf.1 hf.2
    intro fast hfast
    split
    · exact .pure _
    · exact absurd rfl hfast
    · split
      · exact .ret _ (Res.err_ne_panic _ _)
      · apply NoPanic.bind (np_openFile src hs)
        intro r
        apply NoPanic.bindQ _ (np_createFile dst hd) (createFile_handleOK dst hd)
        intro wh hwh
        exact np_ioCopyAndDrop r wh _ hwh

/-- `move_file` -/
theorem np_moveFile (src dst : VPath) (hs : src.fs.NoPanic I) (hd : dst.fs.NoPanic I) :
    NoPanic I (src.moveFile dst) := by
  unfold moveFile
  apply NoPanic.withPath
  apply NoPanic.bind (np_exists dst hd)
  intro b
  split
  · exact .failAt _ _
  · have hf := np_fast (I := I) (c := src.fsId = dst.fsId) (fun _ => hs.moveFile src.path dst.path)
    apply NoPanic.bindI _ hf.1 hf.2
    intro fast hfast
    split
    · exact .pure _
    · exact absurd rfl hfast
    · split
      · exact .ret _ (Res.err_ne_panic _ _)
      · apply NoPanic.bind (np_openFile src hs)
        intro r
        apply NoPanic.bindQ _ (np_createFile dst hd) (createFile_handleOK dst hd)
        intro wh hwh
        apply NoPanic.bind (.withPath _ (.ret _ r.readToEnd_ne_panic))
        intro bytes
        apply NoPanic.bindQ _ (hwh.np_write bytes) (hwh.write_ret bytes)
        intro x hx
        have ha := np_removeFile src hs
        apply NoPanic.bindI _ (.attempt ha) (fun w hw r he => NoPanic.attempt_post ha w hw r he)
        intro res hres
        exact NoPanic.bind hx.np_drop (fun _ => .ret _ hres)

end VPath
end Vfs

/-! ### the walk iterator -/
namespace Vfs

theorem Returns.and {α} {m : M α} {P Q : α → Prop} (hp : Returns m P) (hq : Returns m Q) :
    Returns m (fun a => P a ∧ Q a) := ⟨fun w a h => ⟨hp.post w a h, hq.post w a h⟩⟩

theorem Returns.mono {α} {m : M α} {P Q : α → Prop} (hp : Returns m P) (h : ∀ a, P a → Q a) :
    Returns m Q := ⟨fun w a he => h a (hp.post w a he)⟩

namespace VPath
variable {I : World → Prop}

theorem np_walkDir (p : VPath) (h : p.fs.NoPanic I) : NoPanic I p.walkDir := by
  have h1 := np_readDir p h
  unfold walkDir
  nopanic

/-- the search loop of `WalkDirIterator::next` is structural on the stack of directories -/
theorem np_walkFind (inner todo : List VPath) (h : ∀ c ∈ todo, c.fs.NoPanic I) :
    NoPanic I (walkFind inner todo) := by
  refine .of_preserves (pres_walkFind inner todo (fun c hc => (h c hc).all.obs)) ?_
  induction todo generalizing inner with
  | nil =>
    cases inner <;> (unfold walkFind; exact (NoPanic.pure (I := I) _).np)
  | cons d todo ih =>
    cases inner with
    | cons x inner => unfold walkFind; exact (NoPanic.pure (I := I) _).np
    | nil =>
      intro w hw
      unfold walkFind
      have hd := np_readDir d (h d (by simp))
      have h1 := hd.pres w hw
      have h2 := hd.np w hw
      cases hres : d.readDir w with
      | mk r w' =>
        rw [hres] at h1 h2
        cases r with
        | ok l =>
          cases l with
          | nil => exact ih [] (fun c hc => h c (by simp [hc])) w' h1
          | cons x inner => exact Res.ok_ne_panic _
        | err k pth => exact Res.ok_ne_panic _
        | panic => exact absurd rfl h2

/-- the raw item found by the loop is a path or an error, never `some .panic` -/
theorem walkFind_item (inner todo : List VPath) :
    Returns (walkFind inner todo) (fun r => r.1 ≠ some .panic) := by
  induction todo generalizing inner with
  | nil =>
    cases inner <;> (unfold walkFind; exact Returns.pure _ (by simp))
  | cons d todo ih =>
    cases inner with
    | cons x inner => unfold walkFind; exact Returns.pure _ (by simp)
    | nil =>
      refine ⟨fun w a he => ?_⟩
      unfold walkFind at he
      cases hres : d.readDir w with
      | mk r w' =>
        rw [hres] at he
        cases r with
        | ok l =>
          cases l with
          | nil => exact (ih []).post w' a he
          | cons x inner =>
            dsimp only at he
            injection he with he; subst he; simp
        | err k pth =>
          dsimp only at he
          injection he with he; subst he; simp
        | panic => cases he

/-- the item yielded by `next` is a path or an error, never `some .panic` -/
theorem walkNext_item (s : Walk) : Returns (walkNext s) (fun r => r.1 ≠ some .panic) := by
  unfold walkNext
  apply Returns.bindQ (walkFind_item s.inner s.todo)
  intro x hx
  obtain ⟨item, s'⟩ := x
  cases item with
  | none => exact Returns.pure _ (by simp)
  | some r =>
    cases r with
    | ok x =>
      refine ⟨fun w a he => ?_⟩
      dsimp only at he
      cases hres : x.metadata w with
      | mk r w' =>
        rw [hres] at he
        cases r with
        | ok md =>
          dsimp only at he
          split at he <;> (injection he with he; subst he; simp)
        | err k pth =>
          dsimp only at he
          injection he with he; subst he; simp
        | panic => cases he
    | err k pth => exact Returns.pure _ (by simp)
    | panic => exact absurd rfl hx

/-- **`WalkDirIterator::next`** never panics (structural on the pending directories) -/
theorem np_walkNext (fs : FS) (hfs : fs.NoPanic I) (s : Walk) (hs : s.On fs) :
    NoPanic I (walkNext s) := by
  unfold walkNext
  apply NoPanic.bindQ _ (np_walkFind s.inner s.todo (fun c hc => by rw [hs.2 c hc]; exact hfs))
    (walkFind_on fs s.inner s.todo hs.1 hs.2)
  intro x hx
  obtain ⟨item, s'⟩ := x
  obtain ⟨hx1, hx2⟩ := hx
  cases item with
  | none => exact .pure _
  | some r =>
    cases r with
    | err k pth => exact .pure _
    | panic => exact .pure _
    | ok x =>
      have hxf : x.fs.NoPanic I := by rw [hx1 x rfl]; exact hfs
      have hmd := np_metadata x hxf
      dsimp only
      constructor
      · intro w hw
        have h1 := hmd.pres w hw
        cases hres : x.metadata w with
        | mk r w' =>
          rw [hres] at h1
          cases r with
          | ok md => dsimp only; split <;> exact h1
          | err k pth => exact h1
          | panic => exact h1
      · intro w hw
        have h2 := hmd.np w hw
        cases hres : x.metadata w with
        | mk r w' =>
          rw [hres] at h2
          cases r with
          | ok md => dsimp only; split <;> exact Res.ok_ne_panic _
          | err k pth => exact Res.ok_ne_panic _
          | panic => exact absurd rfl h2

/-! #### the slice `&src_path.as_str()[prefix_len + 1..]` of copy_dir / move_dir

Every path that a walk started at `base` holds or yields has the form `base ++ "/" ++ t`, so
the slice from `base.len() + 1` is in range. -/

/-- `x` lies strictly below `base`: its path string extends `base ++ "/"` -/
def Below (base : Str) (x : VPath) : Prop := ∃ t, x.path = base ++ '/' :: t

/-- all paths held by a walk state lie below `base` -/
def Walk.Below (s : Walk) (base : Str) : Prop :=
  (∀ c ∈ s.inner, VPath.Below base c) ∧ (∀ c ∈ s.todo, VPath.Below base c)

/-- what a walk step below `base` returns -/
def WalkRetB (base : Str) (r : Option (Res VPath) × Walk) : Prop :=
  (∀ x, r.1 = some (.ok x) → Below base x) ∧ r.2.Below base

theorem Below.length {base : Str} {x : VPath} (h : Below base x) :
    base.length + 1 ≤ x.path.length := by
  obtain ⟨t, ht⟩ := h
  rw [ht]; simp

/-- the children listed by `read_dir` are `p.path ++ "/" ++ name` -/
theorem readDir_children (p : VPath) :
    Returns p.readDir (fun l => ∀ c ∈ l, ∃ n, c.path = p.path ++ '/' :: n) := by
  unfold readDir
  apply Returns.bind
  intro names
  apply Returns.pure
  intro c hc
  simp only [List.mem_map] at hc
  obtain ⟨n, _, rfl⟩ := hc
  exact ⟨n, rfl⟩

theorem readDir_below_self (p : VPath) : Returns p.readDir (fun l => ∀ c ∈ l, Below p.path c) :=
  (readDir_children p).mono (fun _ h c hc => h c hc)

theorem readDir_below (base : Str) (d : VPath) (hd : Below base d) :
    Returns d.readDir (fun l => ∀ c ∈ l, Below base c) := by
  apply (readDir_children d).mono
  intro l h c hc
  obtain ⟨n, hn⟩ := h c hc
  obtain ⟨t, ht⟩ := hd
  exact ⟨t ++ '/' :: n, by rw [hn, ht]; simp⟩

theorem walkDir_below (p : VPath) : Returns p.walkDir (fun s => s.Below p.path) := by
  unfold walkDir
  apply Returns.bindQ (readDir_below_self p)
  intro l hl
  apply Returns.pure
  exact ⟨hl, fun c hc => (by cases hc)⟩

theorem walkFind_below (base : Str) (inner todo : List VPath) (hi : ∀ c ∈ inner, Below base c)
    (ht : ∀ c ∈ todo, Below base c) : Returns (walkFind inner todo) (WalkRetB base) := by
  induction todo generalizing inner with
  | nil =>
    cases inner with
    | nil =>
      unfold walkFind
      exact Returns.pure _ ⟨fun x h => (by cases h), fun c hc => (by cases hc), fun c hc => (by cases hc)⟩
    | cons x inner =>
      unfold walkFind
      refine Returns.pure _ ⟨fun y h => ?_, fun c hc => hi c (by simp [hc]), ht⟩
      injection h with h; injection h with h; subst h; exact hi _ (by simp)
  | cons d todo ih =>
    cases inner with
    | cons x inner =>
      unfold walkFind
      refine Returns.pure _ ⟨fun y h => ?_, fun c hc => hi c (by simp [hc]), ht⟩
      injection h with h; injection h with h; subst h; exact hi _ (by simp)
    | nil =>
      refine ⟨fun w a he => ?_⟩
      unfold walkFind at he
      have h2 := (readDir_below base d (ht d (by simp))).post w
      have ht' : ∀ c ∈ todo, Below base c := fun c hc => ht c (by simp [hc])
      cases hres : d.readDir w with
      | mk r w' =>
        rw [hres] at he h2
        cases r with
        | ok l =>
          have hl := h2 l rfl
          cases l with
          | nil => exact (ih [] (fun c hc => by cases hc) ht').post w' a he
          | cons x inner =>
            dsimp only at he
            injection he with he; subst he
            refine ⟨fun y h => ?_, fun c hc => hl c (by simp [hc]), ht'⟩
            injection h with h; injection h with h; subst h
            exact hl _ (by simp)
        | err k pth =>
          dsimp only at he
          injection he with he; subst he
          exact ⟨fun y h => (by injection h with h; cases h), fun c hc => (by cases hc), ht'⟩
        | panic => cases he

/-- **the invariant of the walk**: `next` keeps every held path below `base`, and the item it
yields lies below `base` -/
theorem walkNext_below (base : Str) (s : Walk) (hs : s.Below base) :
    Returns (walkNext s) (WalkRetB base) := by
  unfold walkNext
  apply Returns.bindQ (walkFind_below base s.inner s.todo hs.1 hs.2)
  intro x hx
  obtain ⟨item, s'⟩ := x
  obtain ⟨hx1, hx2⟩ := hx
  cases item with
  | none => exact Returns.pure _ ⟨fun y h => (by cases h), hx2⟩
  | some r =>
    cases r with
    | ok x =>
      have hxb : Below base x := hx1 x rfl
      refine ⟨fun w a he => ?_⟩
      dsimp only at he
      cases hres : x.metadata w with
      | mk r w' =>
        rw [hres] at he
        cases r with
        | ok md =>
          dsimp only at he
          split at he
          · injection he with he; subst he
            refine ⟨fun y h => ?_, hx2.1, fun c hc => ?_⟩
            · injection h with h; injection h with h; subst h; exact hxb
            · simp only [List.mem_cons] at hc
              rcases hc with rfl | hc
              · exact hxb
              · exact hx2.2 c hc
          · injection he with he; subst he
            exact ⟨fun y h => (by injection h with h; injection h with h; subst h; exact hxb), hx2⟩
        | err k pth =>
          dsimp only at he
          injection he with he; subst he
          exact ⟨fun y h => (by injection h with h; cases h), hx2⟩
        | panic => cases he
    | err k pth => exact Returns.pure _ ⟨fun y h => (by injection h with h; cases h), hx2⟩
    | panic => exact Returns.pure _ ⟨fun y h => (by injection h with h; cases h), hx2⟩

/-- **the slice of `relJoin` is in range** for every path below the source: the outcome is the
outcome of `join` (a path, or `InvalidPath`), never the out-of-range panic -/
theorem relJoin_eq_join (dst : VPath) (base : Str) (x : VPath) (hx : Below base x) :
    relJoin dst base.length x = dst.join (x.path.drop (base.length + 1)) := by
  have := hx.length
  unfold relJoin
  rw [if_neg (by omega)]

theorem relJoin_ne_panic (dst : VPath) (base : Str) (x : VPath) (hx : Below base x) :
    relJoin dst base.length x ≠ .panic := by
  rw [relJoin_eq_join dst base x hx]
  exact join_ne_panic _ _

/-- the relative part handed to `join` is exactly what follows `base ++ "/"` -/
theorem relJoin_arg (base t : Str) : (base ++ '/' :: t).drop (base.length + 1) = t := by
  rw [show base ++ '/' :: t = (base ++ ['/']) ++ t by simp]
  rw [List.drop_append_of_le_length (by simp)]
  simp

/-- conversely the site is a real one: on a path that is *not* longer than the prefix the
model panics (this is why the invariant is needed) -/
theorem relJoin_panics (dst : VPath) (n : Nat) (x : VPath) (h : x.path.length < n + 1) :
    relJoin dst n x = .panic := by
  unfold relJoin; rw [if_pos h]

end VPath
end Vfs

/-! ### the fuel-taking recursions

`removeDirAll`, `walkAll`, `copyItems` (hence `copyDir`, `moveDir`) return `.panic` at fuel 0.
That outcome is a sentinel of the model for "the recursion of the real code went deeper / the
iteration went on longer than the fuel" (in the real code: a directory tree deeper than the
stack, or an iterator that never ends, which needs a cyclic or infinite directory structure) —
it is not a Rust panic site. Two kinds of statements:

* one-step lemmas (`np_…_step`): one unfolding never panics provided the recursive calls do
  not — every panic site *other than* the recursive call is excluded;
* exhaustion lemmas (`…_panic`): if the outcome is `.panic`, then the run reached the `0 =>`
  branch, in the sense of the predicates `RemoveDirAllOut`, `WalkAllOut`, `CopyItemsOut`, which
  mirror the recursion along the successful steps of the run. -/
namespace Vfs
namespace VPath
variable {I : World → Prop}

theorem withPath_panic_inv {α} (p : Str) (m : M α) (w : World)
    (h : (M.withPath p m w).1 = .panic) : (m w).1 = .panic := by
  have : (M.withPath p m w) = ((m w).1.withPath p, (m w).2) := rfl
  rw [this] at h
  cases hr : (m w).1 <;> rw [hr] at h <;> simp [Res.withPath] at h ⊢

theorem ret_ok_inv {α} {r : Res α} {a : α} {w w' : World} (h : M.ret r w = (.ok a, w')) :
    r = .ok a ∧ w' = w := by
  have h' : (r, w) = (Res.ok a, w') := h
  injection h' with h1 h2
  exact ⟨h1, h2.symm⟩

/-! #### `remove_dir_all` -/

/-- the loop over the children never panics if the recursive calls on the children do not -/
theorem np_removeChildren_of (fuel : Nat) (l : List VPath) (h : ∀ c ∈ l, c.fs.NoPanic I)
    (hrec : ∀ c ∈ l, NoPanic I (removeDirAll fuel c)) : NoPanic I (removeChildren fuel l) := by
  induction l with
  | nil => unfold removeChildren; exact .pure _
  | cons c rest ih =>
    unfold removeChildren
    have hc := h c (by simp)
    apply NoPanic.bind (np_metadata c hc)
    intro md
    dsimp only
    have hrest := ih (fun x hx => h x (by simp [hx])) (fun x hx => hrec x (by simp [hx]))
    split
    · exact NoPanic.bind (np_removeFile c hc) (fun _ => hrest)
    · exact NoPanic.bind (hrec c (by simp)) (fun _ => hrest)

/-- **one unfolding of `remove_dir_all`** never panics, provided the recursive calls (on paths
of the same filesystem, with the remaining fuel) do not -/
theorem np_removeDirAll_step (fuel : Nat) (p : VPath) (h : p.fs.NoPanic I)
    (hrec : ∀ c : VPath, c.fs = p.fs → NoPanic I (removeDirAll fuel c)) :
    NoPanic I (removeDirAll (fuel + 1) p) := by
  unfold removeDirAll
  apply NoPanic.bind (np_exists p h)
  intro b
  split
  · exact .pure _
  · apply NoPanic.bindQ _ (np_readDir p h) (readDir_fs p)
    intro children hc
    apply NoPanic.bind
    · exact np_removeChildren_of fuel children (fun c hm => by rw [(hc c hm).1]; exact h)
        (fun c hm => hrec c (hc c hm).1)
    · intro _; exact np_removeDir p h

/-- the loop over the children runs out of fuel: some child is a directory on which the
recursive call `act` (with exhaustion predicate `R`) runs out of fuel, all earlier children
having been removed successfully -/
def ChildrenOut (act : VPath → M Unit) (R : VPath → World → Prop) : List VPath → World → Prop
  | [], _ => False
  | c :: rest, w => ∃ md w1, c.metadata w = (.ok md, w1) ∧
      ((md.ftype = .dir ∧ R c w1) ∨
       (md.ftype = .dir ∧ ∃ w2, act c w1 = (.ok (), w2) ∧ ChildrenOut act R rest w2) ∨
       (md.ftype = .file ∧ ∃ w2, c.removeFile w1 = (.ok (), w2) ∧ ChildrenOut act R rest w2))

/-- `removeDirAll fuel p` started in `w` reaches the `0 =>` branch: the fuel is 0, or the path
exists, its listing succeeds, and the loop over the children runs out of fuel -/
def RemoveDirAllOut : Nat → VPath → World → Prop
  | 0, _, _ => True
  | fuel + 1, p, w => ∃ w1 children w2, p.exists_ w = (.ok true, w1) ∧
      p.readDir w1 = (.ok children, w2) ∧
      ChildrenOut (removeDirAll fuel) (RemoveDirAllOut fuel) children w2

theorem removeChildren_panic (fuel : Nat)
    (hrec : ∀ (c : VPath) (w : World), c.fs.NoPanic I → I w →
      (removeDirAll fuel c w).1 = .panic → RemoveDirAllOut fuel c w)
    (l : List VPath) (h : ∀ c ∈ l, c.fs.NoPanic I) (w : World) (hw : I w)
    (hp : (removeChildren fuel l w).1 = .panic) :
    ChildrenOut (removeDirAll fuel) (RemoveDirAllOut fuel) l w := by
  induction l generalizing w with
  | nil =>
    unfold removeChildren at hp
    exact absurd hp (Res.ok_ne_panic _)
  | cons c rest ih =>
    have hc := h c (by simp)
    have hrest := ih (fun x hx => h x (by simp [hx]))
    unfold removeChildren at hp
    obtain ⟨md, w1, hmd, hw1, hp1⟩ := NoPanic.bind_panic_right (np_metadata c hc) hw hp
    refine ⟨md, w1, hmd, ?_⟩
    dsimp only at hp1
    cases hft : md.ftype with
    | file =>
      rw [hft] at hp1
      obtain ⟨_, w2, hrm, hw2, hp2⟩ := NoPanic.bind_panic_right (np_removeFile c hc) hw1 hp1
      exact Or.inr (Or.inr ⟨rfl, w2, hrm, hrest w2 hw2 hp2⟩)
    | dir =>
      rw [hft] at hp1
      have hp1' : (M.bind (removeDirAll fuel c) (fun _ => removeChildren fuel rest) w1).1 = .panic := hp1
      have hpres := (pres_removeDirAll fuel c hc.all).pres w1 hw1
      cases hres : removeDirAll fuel c w1 with
      | mk r w2 =>
        rw [hres] at hpres
        cases r with
        | ok u =>
          rw [M.bind_ok hres] at hp1'
          exact Or.inr (Or.inl ⟨rfl, w2, rfl, hrest w2 hpres hp1'⟩)
        | err k pth => rw [M.bind_err hres] at hp1'; cases hp1'
        | panic => exact Or.inl ⟨rfl, hrec c w1 hc hw1 (by rw [hres])⟩

/-- **a `.panic` of `remove_dir_all` is the fuel sentinel**: over a panic-free filesystem, in a
world satisfying the invariant, the only way to `.panic` is to reach the `0 =>` branch -/
theorem removeDirAll_panic (fuel : Nat) (p : VPath) (h : p.fs.NoPanic I) (w : World) (hw : I w)
    (hp : (removeDirAll fuel p w).1 = .panic) : RemoveDirAllOut fuel p w := by
  induction fuel generalizing p w with
  | zero => unfold RemoveDirAllOut; trivial
  | succ fuel ih =>
    unfold removeDirAll at hp
    obtain ⟨b, w1, hex, hw1, hp1⟩ := NoPanic.bind_panic_right (np_exists p h) hw hp
    split at hp1
    · exact absurd hp1 (Res.ok_ne_panic _)
    · rename_i hb
      have hb' : b = true := by cases b <;> simp_all
      subst hb'
      have hq := (readDir_fs p).post w1
      obtain ⟨children, w2, hrd, hw2, hp2⟩ := NoPanic.bind_panic_right (np_readDir p h) hw1 hp1
      rw [hrd] at hq
      have hc := hq children rfl
      have hcf : ∀ c ∈ children, c.fs.NoPanic I := fun c hm => by rw [(hc c hm).1]; exact h
      have hp3 := NoPanic.bind_panic_left (pres_removeChildren fuel children (fun c hm => (hcf c hm).all))
        (fun _ => np_removeDir p h) hw2 hp2
      unfold RemoveDirAllOut
      exact ⟨w1, children, w2, hex, hrd,
        removeChildren_panic fuel (fun c w hc hw hp => ih c hc w hw hp) children hcf w2 hw2 hp3⟩

theorem removeDirAll_ne_panic_of (fuel : Nat) (p : VPath) (h : p.fs.NoPanic I) (w : World)
    (hw : I w) (hfuel : ¬ RemoveDirAllOut fuel p w) : (removeDirAll fuel p w).1 ≠ .panic :=
  fun hp => hfuel (removeDirAll_panic fuel p h w hw hp)

/-! #### collecting a walk -/

/-- **one unfolding of the collection loop** never panics provided the recursive call does not -/
theorem np_walkAll_step (fs : FS) (hfs : fs.NoPanic I) (fuel : Nat) (s : Walk) (hs : s.On fs)
    (hrec : ∀ s' : Walk, s'.On fs → NoPanic I (walkAll fuel s')) :
    NoPanic I (walkAll (fuel + 1) s) := by
  unfold walkAll
  apply NoPanic.bindQ _ (np_walkNext fs hfs s hs) (walkNext_on fs s hs)
  intro x hx
  obtain ⟨item, s'⟩ := x
  cases item with
  | none => exact .pure _
  | some it => exact NoPanic.bind (hrec s' hx.2) (fun _ => .pure _)

/-- `walkAll fuel s` reaches the `0 =>` branch: the iterator yields at least `fuel` items -/
def WalkAllOut : Nat → Walk → World → Prop
  | 0, _, _ => True
  | fuel + 1, s, w => ∃ it s' w', walkNext s w = (.ok (some it, s'), w') ∧ WalkAllOut fuel s' w'

/-- **a `.panic` of the collected walk is the fuel sentinel** -/
theorem walkAll_panic (fs : FS) (hfs : fs.NoPanic I) (fuel : Nat) (s : Walk) (hs : s.On fs)
    (w : World) (hw : I w) (hp : (walkAll fuel s w).1 = .panic) : WalkAllOut fuel s w := by
  induction fuel generalizing s w with
  | zero => unfold WalkAllOut; trivial
  | succ fuel ih =>
    unfold walkAll at hp
    have hq := (walkNext_on fs s hs).post w
    obtain ⟨x, w1, hnx, hw1, hp1⟩ := NoPanic.bind_panic_right (np_walkNext fs hfs s hs) hw hp
    rw [hnx] at hq
    obtain ⟨item, s'⟩ := x
    have hs' : s'.On fs := (hq _ rfl).2
    cases item with
    | none => exact absurd hp1 (Res.ok_ne_panic _)
    | some it =>
      have hp1' : (M.bind (walkAll fuel s') (fun rest => Pure.pure (it :: rest)) w1).1 = .panic := hp1
      unfold WalkAllOut
      refine ⟨it, s', w1, hnx, ?_⟩
      cases hres : walkAll fuel s' w1 with
      | mk r w2 =>
        cases r with
        | ok rest => rw [M.bind_ok hres] at hp1'; exact absurd hp1' (Res.ok_ne_panic _)
        | err k pth => rw [M.bind_err hres] at hp1'; cases hp1'
        | panic => exact ih s' hs' w1 hw1 (by rw [hres])

/-! #### the loop of copy_dir / move_dir -/

/-- the walk state of copy_dir / move_dir: over the source filesystem and below the source -/
def Walk.From (s : Walk) (src : VPath) : Prop := s.On src.fs ∧ s.Below src.path

theorem walkDir_from (src : VPath) : Returns src.walkDir (fun s => s.From src) :=
  (walkDir_on src).and (walkDir_below src)

/-- what `next` returns on such a state -/
theorem walkNext_from (src : VPath) (s : Walk) (hs : s.From src) :
    Returns (walkNext s) (fun r => (∀ x, r.1 = some (.ok x) → x.fs = src.fs ∧ Below src.path x) ∧
      r.1 ≠ some .panic ∧ r.2.From src) := by
  apply (((walkNext_on src.fs s hs.1).and (walkNext_below src.path s hs.2)).and (walkNext_item s)).mono
  rintro r ⟨⟨⟨h1, h2⟩, ⟨h3, h4⟩⟩, h5⟩
  exact ⟨fun x hx => ⟨h1 x hx, h3 x hx⟩, h5, h2, h4⟩

/-- the body of the loop for one walked item: the destination path (the slice is in range),
its metadata, then `create_dir` or `copy_file` -/
theorem np_copyBody (src dst x : VPath) (hs : src.fs.NoPanic I) (hd : dst.fs.NoPanic I)
    (hxf : x.fs = src.fs) (hxb : Below src.path x) {β} (k : M β) (hk : NoPanic I k) :
    NoPanic I (do
      let d ← M.ret (relJoin dst src.path.length x)
      let md ← x.metadata
      match md.ftype with
      | .dir => d.createDir
      | .file => x.copyFile d
      k) := by
  have hx : x.fs.NoPanic I := by rw [hxf]; exact hs
  apply NoPanic.bindQ _ (.ret _ (relJoin_ne_panic dst src.path x hxb)) (relJoin_fs dst src.path.length x)
  intro d hdfs
  have hdf : d.fs.NoPanic I := by rw [hdfs]; exact hd
  apply NoPanic.bind (np_metadata x hx)
  intro md
  split
  · exact NoPanic.bind (np_createDir d hdf) (fun _ => hk)
  · exact NoPanic.bind (np_copyFile x d hx hdf) (fun _ => hk)

/-- **one unfolding of the copy loop** never panics (in particular not at the slice
`[prefix_len + 1..]`), provided the recursive call does not -/
theorem np_copyItems_step (fuel : Nat) (src dst : VPath) (hs : src.fs.NoPanic I)
    (hd : dst.fs.NoPanic I) (s : Walk) (hfrom : s.From src) (count : Nat)
    (hrec : ∀ (s' : Walk) (c : Nat), s'.From src → NoPanic I (copyItems fuel src dst s' c)) :
    NoPanic I (copyItems (fuel + 1) src dst s count) := by
  unfold copyItems
  apply NoPanic.bindQ _ (np_walkNext src.fs hs s hfrom.1) (walkNext_from src s hfrom)
  intro a ha
  obtain ⟨item, s'⟩ := a
  obtain ⟨hx1, hx2, hx3⟩ := ha
  cases item with
  | none => exact .pure _
  | some r =>
    cases r with
    | err k pth => exact .ret _ (Res.err_ne_panic _ _)
    | panic => exact absurd rfl hx2
    | ok x =>
      obtain ⟨hxf, hxb⟩ := hx1 x rfl
      exact np_copyBody src dst x hs hd hxf hxb _ (hrec s' _ hx3)

theorem pres_copyItems (fuel : Nat) (src dst : VPath) (hs : src.fs.NoPanic I)
    (hd : dst.fs.NoPanic I) (s : Walk) (hon : s.On src.fs) (count : Nat) :
    Preserves I (copyItems fuel src dst s count) := by
  induction fuel generalizing s count with
  | zero => unfold copyItems; exact Preserves.ret _
  | succ fuel ih =>
    unfold copyItems
    apply Preserves.bindQ _ (np_walkNext src.fs hs s hon).preserves (walkNext_on src.fs s hon)
    intro a ha
    obtain ⟨item, s'⟩ := a
    obtain ⟨hx1, hx2⟩ := ha
    cases item with
    | none => exact Preserves.pure _
    | some r =>
      cases r with
      | err k pth => exact Preserves.ret _
      | panic => exact Preserves.ret _
      | ok x =>
        have hx : x.fs.NoPanic I := by rw [hx1 x rfl]; exact hs
        dsimp only
        apply Preserves.bindQ _ (Preserves.ret _) (relJoin_fs dst src.path.length x)
        intro d hdfs
        have hdf : d.fs.NoPanic I := by rw [hdfs]; exact hd
        apply Preserves.bind (np_metadata x hx).preserves
        intro md
        split
        · exact Preserves.bind (np_createDir d hdf).preserves (fun _ => ih s' hx2 _)
        · exact Preserves.bind (np_copyFile x d hx hdf).preserves (fun _ => ih s' hx2 _)

/-- `copyItems fuel src dst s _` reaches the `0 =>` branch: the fuel is 0, or the iterator
yields a path, that item is transferred successfully, and the rest of the loop runs out of
fuel -/
def CopyItemsOut (src dst : VPath) : Nat → Walk → World → Prop
  | 0, _, _ => True
  | fuel + 1, s, w => ∃ x s' w1 d md w2 w3, walkNext s w = (.ok (some (.ok x), s'), w1) ∧
      relJoin dst src.path.length x = .ok d ∧ x.metadata w1 = (.ok md, w2) ∧
      ((md.ftype = .dir ∧ d.createDir w2 = (.ok (), w3)) ∨
       (md.ftype = .file ∧ x.copyFile d w2 = (.ok (), w3))) ∧
      CopyItemsOut src dst fuel s' w3

/-- **a `.panic` of the copy loop is the fuel sentinel** — it is never the out-of-range slice
`&src_path[prefix_len + 1..]`, nor a panic of anything the loop calls -/
theorem copyItems_panic (fuel : Nat) (src dst : VPath) (hs : src.fs.NoPanic I)
    (hd : dst.fs.NoPanic I) (s : Walk) (hfrom : s.From src) (count : Nat) (w : World) (hw : I w)
    (hp : (copyItems fuel src dst s count w).1 = .panic) : CopyItemsOut src dst fuel s w := by
  induction fuel generalizing s count w with
  | zero => unfold CopyItemsOut; trivial
  | succ fuel ih =>
    unfold copyItems at hp
    have hq := (walkNext_from src s hfrom).post w
    obtain ⟨a, w1, hnx, hw1, hp1⟩ := NoPanic.bind_panic_right (np_walkNext src.fs hs s hfrom.1) hw hp
    rw [hnx] at hq
    obtain ⟨item, s'⟩ := a
    obtain ⟨hx1, hx2, hx3⟩ := hq _ rfl
    cases item with
    | none => exact absurd hp1 (Res.ok_ne_panic _)
    | some r =>
      cases r with
      | err k pth => exact absurd hp1 (Res.err_ne_panic _ _)
      | panic => exact absurd rfl hx2
      | ok x =>
        obtain ⟨hxf, hxb⟩ := hx1 x rfl
        have hx : x.fs.NoPanic I := by rw [hxf]; exact hs
        dsimp only at hp1
        have hq2 := (relJoin_fs dst src.path.length x).post w1
        obtain ⟨d, w1', hrj, hw1', hp2⟩ := NoPanic.bind_panic_right
          (.ret _ (relJoin_ne_panic dst src.path x hxb)) hw1 hp1
        rw [hrj] at hq2
        have hdf : d.fs.NoPanic I := by rw [hq2 d rfl]; exact hd
        obtain ⟨hrj', rfl⟩ := ret_ok_inv hrj
        obtain ⟨md, w2, hmd, hw2, hp3⟩ := NoPanic.bind_panic_right (np_metadata x hx) hw1 hp2
        unfold CopyItemsOut
        cases hft : md.ftype with
        | dir =>
          rw [hft] at hp3
          obtain ⟨_, w3, hcd, hw3, hp4⟩ := NoPanic.bind_panic_right (np_createDir d hdf) hw2 hp3
          exact ⟨x, s', w1', d, md, w2, w3, hnx, hrj', hmd, Or.inl ⟨hft, hcd⟩,
            ih s' hx3 _ w3 hw3 hp4⟩
        | file =>
          rw [hft] at hp3
          obtain ⟨_, w3, hcf, hw3, hp4⟩ := NoPanic.bind_panic_right (np_copyFile x d hx hdf) hw2 hp3
          exact ⟨x, s', w1', d, md, w2, w3, hnx, hrj', hmd, Or.inr ⟨hft, hcf⟩,
            ih s' hx3 _ w3 hw3 hp4⟩

/-- `copy_dir`: one unfolding -/
theorem np_copyDir_of (fuel : Nat) (src dst : VPath) (hs : src.fs.NoPanic I) (hd : dst.fs.NoPanic I)
    (hrec : ∀ s : Walk, s.From src → NoPanic I (copyItems fuel src dst s 0)) :
    NoPanic I (src.copyDir fuel dst) := by
  unfold copyDir
  apply NoPanic.withPath
  apply NoPanic.bind (np_exists dst hd)
  intro b
  split
  · exact .failAt _ _
  · apply NoPanic.bind (np_createDir dst hd)
    intro _
    apply NoPanic.bindQ _ (np_walkDir src hs) (walkDir_from src)
    intro s hfrom
    exact hrec s hfrom

/-- **a `.panic` of `copy_dir` is the fuel sentinel of its loop** -/
theorem copyDir_panic (fuel : Nat) (src dst : VPath) (hs : src.fs.NoPanic I) (hd : dst.fs.NoPanic I)
    (w : World) (hw : I w) (hp : (src.copyDir fuel dst w).1 = .panic) :
    ∃ w1 w2 s w3, dst.exists_ w = (.ok false, w1) ∧ dst.createDir w1 = (.ok (), w2) ∧
      src.walkDir w2 = (.ok s, w3) ∧ CopyItemsOut src dst fuel s w3 := by
  unfold copyDir at hp
  have hp0 := withPath_panic_inv _ _ _ hp
  obtain ⟨b, w1, hex, hw1, hp1⟩ := NoPanic.bind_panic_right (np_exists dst hd) hw hp0
  split at hp1
  · exact absurd hp1 (Res.err_ne_panic _ _)
  · rename_i hb
    have hb' : b = false := by cases b <;> simp_all
    subst hb'
    obtain ⟨_, w2, hcd, hw2, hp2⟩ := NoPanic.bind_panic_right (np_createDir dst hd) hw1 hp1
    have hq := (walkDir_from src).post w2
    obtain ⟨s, w3, hwd, hw3, hp3⟩ := NoPanic.bind_panic_right (np_walkDir src hs) hw2 hp2
    rw [hwd] at hq
    exact ⟨w1, w2, s, w3, hex, hcd, hwd, copyItems_panic fuel src dst hs hd s (hq s rfl) 0 w3 hw3 hp3⟩

/-- `move_dir`: one unfolding -/
theorem np_moveDir_of (fuel : Nat) (src dst : VPath) (hs : src.fs.NoPanic I) (hd : dst.fs.NoPanic I)
    (hrec1 : ∀ s : Walk, s.From src → NoPanic I (copyItems fuel src dst s 0))
    (hrec2 : NoPanic I (removeDirAll fuel src)) :
    NoPanic I (src.moveDir fuel dst) := by
  unfold moveDir
  apply NoPanic.withPath
  apply NoPanic.bind (np_exists dst hd)
  intro b
  split
  · exact .failAt _ _
  · have hf := np_fast (I := I) (c := src.fsId = dst.fsId) (fun _ => hs.moveDir src.path dst.path)
    apply NoPanic.bindI _ hf.1 hf.2
    intro fast hfast
    split
    · exact .pure _
    · exact absurd rfl hfast
    · split
      · exact .ret _ (Res.err_ne_panic _ _)
      · apply NoPanic.bind (np_createDir dst hd)
        intro _
        apply NoPanic.bindQ _ (np_walkDir src hs) (walkDir_from src)
        intro s hfrom
        exact NoPanic.bind (hrec1 s hfrom) (fun _ => hrec2)

/-- **a `.panic` of `move_dir` is the fuel sentinel** of its copy loop or of the final
`remove_dir_all` -/
theorem moveDir_panic (fuel : Nat) (src dst : VPath) (hs : src.fs.NoPanic I) (hd : dst.fs.NoPanic I)
    (w : World) (hw : I w) (hp : (src.moveDir fuel dst w).1 = .panic) :
    (∃ s w', s.From src ∧ I w' ∧ CopyItemsOut src dst fuel s w') ∨
    (∃ w', I w' ∧ RemoveDirAllOut fuel src w') := by
  unfold moveDir at hp
  have hp0 := withPath_panic_inv _ _ _ hp
  obtain ⟨b, w1, hex, hw1, hp1⟩ := NoPanic.bind_panic_right (np_exists dst hd) hw hp0
  split at hp1
  · exact absurd hp1 (Res.err_ne_panic _ _)
  · have hf := np_fast (I := I) (c := src.fsId = dst.fsId) (fun _ => hs.moveDir src.path dst.path)
    obtain ⟨fast, w2, hfe, hw2, hp2⟩ := NoPanic.bind_panic_right hf.1 hw1 hp1
    have hfast := hf.2 w1 hw1 fast (by rw [hfe])
    split at hp2
    · exact absurd hp2 (Res.ok_ne_panic _)
    · exact absurd rfl hfast
    · split at hp2
      · exact absurd hp2 (Res.err_ne_panic _ _)
      · obtain ⟨_, w3, hcd, hw3, hp3⟩ := NoPanic.bind_panic_right (np_createDir dst hd) hw2 hp2
        have hq := (walkDir_from src).post w3
        obtain ⟨s, w4, hwd, hw4, hp4⟩ := NoPanic.bind_panic_right (np_walkDir src hs) hw3 hp3
        rw [hwd] at hq
        have hfrom := hq s rfl
        have hp4' : (M.bind (copyItems fuel src dst s 0) (fun _ => removeDirAll fuel src) w4).1 = .panic := hp4
        have hpres := (pres_copyItems fuel src dst hs hd s hfrom.1 0).pres w4 hw4
        cases hres : copyItems fuel src dst s 0 w4 with
        | mk r w5 =>
          rw [hres] at hpres
          cases r with
          | ok n =>
            rw [M.bind_ok hres] at hp4'
            exact Or.inr ⟨w5, hpres, removeDirAll_panic fuel src hs w5 hpres hp4'⟩
          | err k pth => rw [M.bind_err hres] at hp4'; cases hp4'
          | panic =>
            exact Or.inl ⟨s, w4, hfrom, hw4,
              copyItems_panic fuel src dst hs hd s hfrom 0 w4 hw4 (by rw [hres])⟩

end VPath
end Vfs

/-! ### AltrootFS: a path computation (a `join`, total) followed by one operation of the
`VfsPath` layer on the root's filesystem -/
namespace Vfs
namespace Altroot
variable {I : World → Prop}

/-- `AltrootFS::path` never panics: `&path[1..]` is taken only when the path starts with '/' -/
theorem path_ne_panic (root : VPath) (p : Str) : path root p ≠ .panic := by
  unfold path
  split
  · exact Res.ok_ne_panic _
  · split <;> exact VPath.join_ne_panic _ _

theorem np_path (root : VPath) (p : Str) : NoPanic I (M.ret (path root p)) :=
  .ret _ (path_ne_panic root p)

theorem noPanic (root : VPath) (h : root.fs.NoPanic I) : (fs root).NoPanic I where
  readDir p := by
    simp only [fs]
    apply NoPanic.bindQ _ (np_path root p) (path_fs root p)
    intro q hq
    apply NoPanic.bind (VPath.np_readDir q (by rw [hq.1]; exact h))
    intro l; exact .pure _
  createDir p := .bindQ _ (np_path root p) (path_fs root p)
    (fun q hq => VPath.np_createDir q (by rw [hq.1]; exact h))
  openFile p := .bindQ _ (np_path root p) (path_fs root p)
    (fun q hq => VPath.np_openFile q (by rw [hq.1]; exact h))
  createFile p := .bindQ _ (np_path root p) (path_fs root p)
    (fun q hq => VPath.np_createFile q (by rw [hq.1]; exact h))
  appendFile p := .bindQ _ (np_path root p) (path_fs root p)
    (fun q hq => VPath.np_appendFile q (by rw [hq.1]; exact h))
  metadata p := .bindQ _ (np_path root p) (path_fs root p)
    (fun q hq => VPath.np_metadata q (by rw [hq.1]; exact h))
  setCreationTime p t := .bindQ _ (np_path root p) (path_fs root p)
    (fun q hq => VPath.np_setCreationTime q t (by rw [hq.1]; exact h))
  setModificationTime p t := .bindQ _ (np_path root p) (path_fs root p)
    (fun q hq => VPath.np_setModificationTime q t (by rw [hq.1]; exact h))
  setAccessTime p t := .bindQ _ (np_path root p) (path_fs root p)
    (fun q hq => VPath.np_setAccessTime q t (by rw [hq.1]; exact h))
  exists_ p := by
    simp only [fs]
    have := (path_fs root p).post
    split
    · rename_i q heq
      have hq := this default q (by simp [M.ret, heq])
      exact VPath.np_exists q (by rw [hq.1]; exact h)
    · exact .pure _
  removeFile p := .bindQ _ (np_path root p) (path_fs root p)
    (fun q hq => VPath.np_removeFile q (by rw [hq.1]; exact h))
  removeDir p := .bindQ _ (np_path root p) (path_fs root p)
    (fun q hq => VPath.np_removeDir q (by rw [hq.1]; exact h))
  copyFile s d := by
    simp only [fs]
    split
    · exact .failK _
    · apply NoPanic.bindQ _ (np_path root s) (path_fs root s)
      intro sp hsp
      apply NoPanic.bindQ _ (np_path root d) (path_fs root d)
      intro dp hdp
      exact VPath.np_copyFile sp dp (by rw [hsp.1]; exact h) (by rw [hdp.1]; exact h)
  moveFile _ _ := .failK _
  moveDir _ _ := .failK _
  createHandle := (all_preserve root h.all).createHandle
  appendHandle := (all_preserve root h.all).appendHandle

end Altroot

/-! ### OverlayFS

The model writes the Rust slices `&path[1..]` as `drop 1` (`tail1`) and `&filename[..len-3]`
as `take (len - 3)` (`stripWo`), which are total. In the Rust code these slices are guarded:
`&path[1..]` is reached only after `path.is_empty()` has been excluded (`read_path`,
`write_path`, `whiteout_path`, `read_dir`), and `[..len-3]` only under `ends_with("_wo")`;
VFS path strings are ASCII-'/'-separated, so index 1 is a character boundary for every
non-empty path that starts with '/'. What is proved here is that nothing *else* in the overlay
(joins, the per-layer calls, the loops over the layers, which are structural) panics. -/
namespace Overlay
open VPath
variable {I : World → Prop}

/-- the hypothesis on the layers -/
abbrev NPLayers (I : World → Prop) (layers : List VPath) : Prop := ∀ l ∈ layers, l.fs.NoPanic I

/-- (`writeLayer []` is the placeholder filesystem, so no non-emptiness hypothesis is needed) -/
theorem writeLayer_np (layers : List VPath) (hl : NPLayers I layers) :
    (writeLayer layers).fs.NoPanic I := by
  cases layers with
  | nil => exact FS.NoPanic.default
  | cons a t => exact hl a (by simp)

theorem np_join (l : VPath) (arg : Str) : NoPanic I (M.ret (l.join arg)) :=
  .ret _ (join_ne_panic l arg)

theorem join_np (l : VPath) (hl : l.fs.NoPanic I) (arg : Str) :
    Returns (M.ret (l.join arg)) (fun q => q.fs.NoPanic I) :=
  Returns.ret _ (fun q h => by rw [(join_fs _ _ _ h).1]; exact hl)

theorem whiteoutPath_ne_panic (layers : List VPath) (p : Str) : whiteoutPath layers p ≠ .panic := by
  unfold whiteoutPath
  split <;> exact join_ne_panic _ _

theorem writePath_ne_panic (layers : List VPath) (p : Str) : writePath layers p ≠ .panic := by
  unfold writePath
  split
  · exact Res.ok_ne_panic _
  · exact join_ne_panic _ _

theorem whiteoutPath_np (layers : List VPath) (hl : NPLayers I layers) (p : Str) :
    Returns (M.ret (whiteoutPath layers p)) (fun q => q.fs.NoPanic I) := by
  apply Returns.ret
  intro q h
  unfold whiteoutPath at h
  split at h <;> (rw [(join_fs _ _ _ h).1]; exact writeLayer_np layers hl)

theorem writePath_np (layers : List VPath) (hl : NPLayers I layers) (p : Str) :
    Returns (M.ret (writePath layers p)) (fun q => q.fs.NoPanic I) := by
  apply Returns.ret
  intro q h
  unfold writePath at h
  split at h
  · injection h with h; subst h; exact writeLayer_np layers hl
  · rw [(join_fs _ _ _ h).1]; exact writeLayer_np layers hl

theorem np_whiteoutPath (layers : List VPath) (p : Str) : NoPanic I (M.ret (whiteoutPath layers p)) :=
  .ret _ (whiteoutPath_ne_panic layers p)
theorem np_writePath (layers : List VPath) (p : Str) : NoPanic I (M.ret (writePath layers p)) :=
  .ret _ (writePath_ne_panic layers p)

theorem np_firstExisting (p : Str) (ls : List VPath) (hs : NPLayers I ls) :
    NoPanic I (firstExisting p ls) := by
  induction ls with
  | nil => unfold firstExisting; exact .pure _
  | cons l rest ih =>
    unfold firstExisting
    apply NoPanic.bindQ _ (np_join l _) (join_np l (hs l (by simp)) _)
    intro lp hlp
    apply NoPanic.bind (np_exists lp hlp)
    intro b; split
    · exact .pure _
    · exact ih (fun x hx => hs x (by simp [hx]))

theorem firstExisting_np (p : Str) (ls : List VPath) (hs : NPLayers I ls) :
    Returns (firstExisting p ls) (fun o => ∀ q, o = some q → q.fs.NoPanic I) := by
  induction ls with
  | nil =>
    unfold firstExisting
    exact Returns.pure _ (by simp)
  | cons l rest ih =>
    unfold firstExisting
    apply Returns.bindQ (join_np l (hs l (by simp)) _)
    intro lp hlp
    apply Returns.bind
    intro b
    split
    · apply Returns.pure
      intro q hq; injection hq with hq; subst hq
      exact hlp
    · exact ih (fun x hx => hs x (by simp [hx]))

theorem np_readPath (layers : List VPath) (hl : NPLayers I layers) (p : Str) :
    NoPanic I (readPath layers p) := by
  unfold readPath
  split
  · exact .pure _
  · apply NoPanic.bindQ _ (np_whiteoutPath layers p) (whiteoutPath_np layers hl p)
    intro wo hwo
    apply NoPanic.bind (np_exists wo hwo)
    intro b; split
    · exact .failK _
    · apply NoPanic.bind (np_firstExisting p layers hl)
      intro o
      split
      · exact .pure _
      · apply NoPanic.bindQ _ (np_join _ _) (join_np _ (writeLayer_np layers hl) _)
        intro rp hrp
        apply NoPanic.bind (np_exists rp hrp)
        intro b; split
        · exact .failK _
        · exact .pure _

theorem readPath_np (layers : List VPath) (hl : NPLayers I layers) (p : Str) :
    Returns (readPath layers p) (fun q => q.fs.NoPanic I) := by
  unfold readPath
  split
  · exact Returns.pure _ (writeLayer_np layers hl)
  · apply Returns.bind; intro wo
    apply Returns.bind; intro b
    split
    · exact Returns.failK _
    · apply Returns.bindQ (firstExisting_np p layers hl)
      intro o ho
      split
      · rename_i lp; exact Returns.pure _ (ho lp rfl)
      · apply Returns.bindQ (join_np _ (writeLayer_np layers hl) _)
        intro rp hrp
        apply Returns.bind; intro b
        split
        · exact Returns.failK _
        · exact Returns.pure _ hrp

theorem np_exists (layers : List VPath) (hl : NPLayers I layers) (p : Str) :
    NoPanic I (Overlay.exists_ layers p) := by
  unfold Overlay.exists_
  apply NoPanic.bindQ _ (np_whiteoutPath layers p) (whiteoutPath_np layers hl p)
  intro wo hwo
  apply NoPanic.bind (VPath.np_exists wo hwo)
  intro b; split
  · exact .pure _
  · have hrp := np_readPath layers hl p
    have hq := (readPath_np layers hl p).post
    constructor
    · intro w hw
      have h1 := hrp.pres w hw
      have h3 := hq w
      cases hres : readPath layers p w with
      | mk r w' =>
        rw [hres] at h1 h3
        cases r with
        | ok q => exact (VPath.np_exists q (h3 q rfl)).pres w' h1
        | err k pth => cases k <;> exact h1
        | panic => exact h1
    · intro w hw
      have h1 := hrp.pres w hw
      have h2 := hrp.np w hw
      have h3 := hq w
      cases hres : readPath layers p w with
      | mk r w' =>
        rw [hres] at h1 h2 h3
        cases r with
        | ok q => exact (VPath.np_exists q (h3 q rfl)).np w' h1
        | err k pth => cases k <;> (dsimp only; first | exact Res.ok_ne_panic _ | exact Res.err_ne_panic _ _)
        | panic => exact absurd rfl h2

theorem np_ensureHasParent (layers : List VPath) (hl : NPLayers I layers) (p : Str) :
    NoPanic I (ensureHasParent layers p) := by
  unfold ensureHasParent
  split
  · apply NoPanic.bind (np_exists layers hl _)
    intro b; split
    · apply NoPanic.bindQ _ (np_readPath layers hl _) (readPath_np layers hl _)
      intro rp hrp
      apply NoPanic.bind (np_isDir rp hrp)
      intro isd; split
      · apply NoPanic.bindQ _ (np_writePath layers _) (writePath_np layers hl _)
        intro wp hwp
        exact np_createDirAll wp hwp
      · exact .failK _
    · exact .failK _
  · exact .failK _

theorem np_mergeListings (actual : Str) (ls : List VPath) (hs : NPLayers I ls) (acc : List Str) :
    NoPanic I (mergeListings actual ls acc) := by
  induction ls generalizing acc with
  | nil => unfold mergeListings; exact .pure _
  | cons l rest ih =>
    unfold mergeListings
    apply NoPanic.bindQ _ (np_join l _) (join_np l (hs l (by simp)) _)
    intro lp hlp
    apply NoPanic.bind (np_isDir lp hlp)
    intro b; split
    · apply NoPanic.bind (VPath.np_readDir lp hlp)
      intro cs
      exact ih (fun x hx => hs x (by simp [hx])) _
    · exact ih (fun x hx => hs x (by simp [hx])) _

theorem np_readDir (layers : List VPath) (hl : NPLayers I layers) (p : Str) :
    NoPanic I (Overlay.readDir layers p) := by
  unfold Overlay.readDir
  apply NoPanic.bindQ _ (np_readPath layers hl p) (readPath_np layers hl p)
  intro rp hrp
  apply NoPanic.bind (VPath.np_exists rp hrp)
  intro b; split
  · exact .failK _
  · apply NoPanic.bind (np_isDir rp hrp)
    intro b2; split
    · exact .failK _
    · apply NoPanic.bind (np_mergeListings _ layers hl [])
      intro entries
      apply NoPanic.bindQ _ (np_join _ _) (join_np _ (writeLayer_np layers hl) _)
      intro wp hwp
      apply NoPanic.bind (VPath.np_exists wp hwp)
      intro b3; split
      · apply NoPanic.bind (VPath.np_readDir wp hwp)
        intro marks; exact .pure _
      · exact .pure _

theorem np_clearWhiteout (layers : List VPath) (hl : NPLayers I layers) (p : Str) :
    NoPanic I (clearWhiteout layers p) := by
  unfold clearWhiteout
  apply NoPanic.bindQ _ (np_whiteoutPath layers p) (whiteoutPath_np layers hl p)
  intro wo hwo
  apply NoPanic.bind (VPath.np_exists wo hwo)
  intro b; split
  · exact np_removeFile wo hwo
  · exact .pure _

/-- `clear_whiteout` of `create_dir` (fix of O11): only the outcome of the removal is inspected -/
theorem np_clearWhiteoutT (layers : List VPath) (hl : NPLayers I layers) (p : Str) :
    NoPanic I (clearWhiteoutT layers p) := by
  unfold clearWhiteoutT
  apply NoPanic.bindQ _ (np_whiteoutPath layers p) (whiteoutPath_np layers hl p)
  intro wo hwo
  apply NoPanic.bind (VPath.np_exists wo hwo)
  intro b; split
  · have hrm := np_removeFile wo hwo
    constructor
    · intro w hw
      have h1 := hrm.pres w hw
      cases hres : wo.removeFile w with
      | mk r w' =>
        rw [hres] at h1
        cases r with
        | ok u => exact h1
        | err k pth => cases k <;> exact h1
        | panic => exact h1
    · intro w hw
      have h1 := hrm.np w hw
      cases hres : wo.removeFile w with
      | mk r w' =>
        rw [hres] at h1
        cases r with
        | ok u => intro hc; cases hc
        | err k pth => cases k <;> (intro hc; cases hc)
        | panic => exact absurd rfl h1
  · exact .pure _

theorem np_addWhiteout (layers : List VPath) (hl : NPLayers I layers) (p : Str) :
    NoPanic I (addWhiteout layers p) := by
  unfold addWhiteout
  apply NoPanic.bindQ _ (np_whiteoutPath layers p) (whiteoutPath_np layers hl p)
  intro wo hwo
  have hpar : wo.parent.fs.NoPanic I := by rw [parent_fs]; exact hwo
  apply NoPanic.bind (np_createDirAll wo.parent hpar)
  intro _
  apply NoPanic.bindQ _ (VPath.np_createFile wo hwo) (createFile_handleOK wo hwo)
  intro h hh
  exact hh.np_drop

theorem np_createDir (layers : List VPath) (hl : NPLayers I layers) (p : Str) :
    NoPanic I (Overlay.createDir layers p) := by
  unfold Overlay.createDir
  apply NoPanic.bind (np_ensureHasParent layers hl p)
  intro _
  apply NoPanic.bind (np_exists layers hl p)
  intro b; split
  · apply NoPanic.bindQ _ (np_readPath layers hl p) (readPath_np layers hl p)
    intro q hq
    apply NoPanic.bind (np_metadata q hq)
    intro md; exact .failK _
  · apply NoPanic.bindQ _ (np_writePath layers p) (writePath_np layers hl p)
    intro wp hwp
    -- the write layer's answer is inspected; at most the tolerant clearing of the whiteout follows
    have hcd := VPath.np_createDir wp hwp
    have hcl := np_clearWhiteoutT layers hl p
    constructor
    · intro w hw
      have h1 := hcd.pres w hw
      cases hres : wp.createDir w with
      | mk r w' =>
        rw [hres] at h1
        have h2 := hcl.pres w' h1
        cases r with
        | ok u => cases u; exact h2
        | err k pth =>
          cases k <;> try exact h1
          dsimp only
          cases hres2 : clearWhiteoutT layers p w' with
          | mk r2 w2 =>
            rw [hres2] at h2
            cases r2 with
            | ok u => cases u; exact h2
            | err k2 pth2 => exact h2
            | panic => exact h2
        | panic => exact h1
    · intro w hw
      have h1 := hcd.pres w hw
      have h1n := hcd.np w hw
      cases hres : wp.createDir w with
      | mk r w' =>
        rw [hres] at h1 h1n
        have h2 := hcl.np w' h1
        cases r with
        | ok u => cases u; exact h2
        | err k pth =>
          cases k <;> try (intro hc; cases hc)
          dsimp only
          cases hres2 : clearWhiteoutT layers p w' with
          | mk r2 w2 =>
            rw [hres2] at h2
            cases r2 with
            | ok u => cases u; intro hc; cases hc
            | err k2 pth2 => intro hc; cases hc
            | panic => exact absurd rfl h2
        | panic => exact absurd rfl h1n

theorem np_refuseDir (layers : List VPath) (hl : NPLayers I layers) (p : Str) :
    NoPanic I (refuseDir layers p) := by
  unfold refuseDir
  apply NoPanic.bind (np_exists layers hl p)
  intro b; split
  · apply NoPanic.bindQ _ (np_readPath layers hl p) (readPath_np layers hl p)
    intro q hq
    apply NoPanic.bind (np_metadata q hq)
    intro md; split
    · exact .failK _
    · exact .pure _
  · exact .pure _

theorem np_createFile (layers : List VPath) (hl : NPLayers I layers) (p : Str) :
    NoPanic I (Overlay.createFile layers p) := by
  unfold Overlay.createFile
  apply NoPanic.bind (np_ensureHasParent layers hl p)
  intro _
  apply NoPanic.bind (np_refuseDir layers hl p)
  intro _
  apply NoPanic.bindQ _ (np_writePath layers p) (writePath_np layers hl p)
  intro wp hwp
  apply NoPanic.bind (VPath.np_createFile wp hwp)
  intro h
  apply NoPanic.bind (np_clearWhiteout layers hl p)
  intro _; exact .pure _

theorem createFile_handleOK (layers : List VPath) (hl : NPLayers I layers) (p : Str) :
    Returns (Overlay.createFile layers p) (HandleOK I) := by
  unfold Overlay.createFile
  apply Returns.bind; intro _
  apply Returns.bind; intro _
  apply Returns.bindQ (writePath_np layers hl p)
  intro wp hwp
  apply Returns.bindQ (VPath.createFile_handleOK wp hwp)
  intro h hh
  apply Returns.bind; intro _
  exact Returns.pure _ hh

theorem np_copyUp (layers : List VPath) (hl : NPLayers I layers) (p : Str) (wp : VPath)
    (hwp : wp.fs.NoPanic I) : NoPanic I (copyUp layers p wp) := by
  unfold copyUp
  apply NoPanic.bind (VPath.np_exists wp hwp)
  intro b; split
  · apply NoPanic.bind (np_ensureHasParent layers hl p)
    intro _
    apply NoPanic.bindQ _ (np_readPath layers hl p) (readPath_np layers hl p)
    intro rp hrp
    apply NoPanic.bind (np_isFile rp hrp)
    intro b2; split
    · exact .failK _
    · exact np_copyFile rp wp hrp hwp
  · exact .pure _

theorem np_appendFile (layers : List VPath) (hl : NPLayers I layers) (p : Str) :
    NoPanic I (Overlay.appendFile layers p) := by
  unfold Overlay.appendFile
  apply NoPanic.bindQ _ (np_writePath layers p) (writePath_np layers hl p)
  intro wp hwp
  apply NoPanic.bind (np_copyUp layers hl p wp hwp)
  intro _; exact VPath.np_appendFile wp hwp

theorem appendFile_handleOK (layers : List VPath) (hl : NPLayers I layers) (p : Str) :
    Returns (Overlay.appendFile layers p) (HandleOK I) := by
  unfold Overlay.appendFile
  apply Returns.bindQ (writePath_np layers hl p)
  intro wp hwp
  apply Returns.bind; intro _
  exact VPath.appendFile_handleOK wp hwp

theorem np_removeFile (layers : List VPath) (hl : NPLayers I layers) (p : Str) :
    NoPanic I (Overlay.removeFile layers p) := by
  unfold Overlay.removeFile
  apply NoPanic.bind (np_readPath layers hl p)
  intro _
  apply NoPanic.bindQ _ (np_writePath layers p) (writePath_np layers hl p)
  intro wp hwp
  apply NoPanic.bind (VPath.np_exists wp hwp)
  intro b
  apply NoPanic.bind
  · split
    · exact VPath.np_removeFile wp hwp
    · exact .pure _
  · intro _; exact np_addWhiteout layers hl p

theorem np_removeDir (layers : List VPath) (hl : NPLayers I layers) (p : Str) :
    NoPanic I (Overlay.removeDir layers p) := by
  unfold Overlay.removeDir
  apply NoPanic.bind (np_readPath layers hl p)
  intro _
  apply NoPanic.bind (np_readDir layers hl p)
  intro l; split
  · exact .failK _
  · apply NoPanic.bindQ _ (np_writePath layers p) (writePath_np layers hl p)
    intro wp hwp
    apply NoPanic.bind (VPath.np_exists wp hwp)
    intro b
    apply NoPanic.bind
    · split
      · exact VPath.np_removeDir wp hwp
      · exact .pure _
    · intro _; exact np_addWhiteout layers hl p

/-- every method of the overlay, for arbitrary panic-free layers (any number — the empty list
included —, nested adapters) -/
theorem noPanic (layers : List VPath) (hl : NPLayers I layers) : (Overlay.fs layers).NoPanic I where
  readDir p := np_readDir layers hl p
  createDir p := np_createDir layers hl p
  openFile p := .bindQ _ (np_readPath layers hl p) (readPath_np layers hl p)
    (fun q hq => np_openFile q hq)
  createFile p := np_createFile layers hl p
  appendFile p := np_appendFile layers hl p
  metadata p := .bindQ _ (np_readPath layers hl p) (readPath_np layers hl p)
    (fun q hq => np_metadata q hq)
  setCreationTime p t := .bindQ _ (np_writePath layers p) (writePath_np layers hl p)
    (fun q hq => np_setCreationTime q t hq)
  setModificationTime p t := .bindQ _ (np_writePath layers p) (writePath_np layers hl p)
    (fun q hq => np_setModificationTime q t hq)
  setAccessTime p t := .bindQ _ (np_writePath layers p) (writePath_np layers hl p)
    (fun q hq => np_setAccessTime q t hq)
  exists_ p := np_exists layers hl p
  removeFile p := np_removeFile layers hl p
  removeDir p := np_removeDir layers hl p
  copyFile _ _ := .failK _
  moveFile _ _ := .failK _
  moveDir _ _ := .failK _
  createHandle p := createFile_handleOK layers hl p
  appendHandle p := appendFile_handleOK layers hl p

end Overlay

/-! ### EmbeddedFS: read-only maps, every method is a total function of the state -/
namespace Embedded
variable {I : World → Prop}

theorem readDir_ne_panic (s : State) (p : Str) : readDir s p ≠ .panic := by
  unfold readDir
  split
  · simp
  · split <;> simp [fail]

/-- `open_file` after the fix (`split_at(1)` on the empty path replaced by `normalize_path`) -/
theorem openFile_ne_panic (s : State) (p : Str) : openFile s p ≠ .panic := by
  unfold openFile
  split <;> simp [fail]

theorem metadata_ne_panic (s : State) (p : Str) : metadata s p ≠ .panic := by
  unfold metadata
  split
  · simp
  · split <;> simp [fail]

/-- the embedded filesystem never panics, for every state and in every world -/
theorem noPanic (s : State) : (fs s).NoPanic I where
  readDir p := .ret _ (readDir_ne_panic s p)
  createDir _ := .failK _
  openFile p := .ret _ (openFile_ne_panic s p)
  createFile _ := .failK _
  appendFile _ := .failK _
  metadata p := .ret _ (metadata_ne_panic s p)
  setCreationTime _ _ := .failK _
  setModificationTime _ _ := .failK _
  setAccessTime _ _ := .failK _
  exists_ _ := .ret _ (Res.ok_ne_panic _)
  removeFile _ := .failK _
  removeDir _ := .failK _
  copyFile _ _ := .failK _
  moveFile _ _ := .failK _
  moveDir _ _ := .failK _
  createHandle _ := Returns.failK _
  appendHandle _ := Returns.failK _

/-- the historical `open_file`: `path.split_at(1)` panics on the empty string (the root) -/
def openFileSplitAt (s : State) (p : Str) : Res RHandle :=
  if p = [] then .panic   -- `"".split_at(1)`: byte index 1 is out of bounds
  else openFile s p       -- otherwise the same lookup of `path[1..]`

/-- the defect, visible in the theory: the old `open_file` panics on the root, for every state -/
theorem openFileSplitAt_panics_on_root (s : State) : openFileSplitAt s [] = .panic := rfl

/-- away from the root the old and the fixed `open_file` agree -/
theorem openFileSplitAt_eq (s : State) (p : Str) (h : p ≠ []) : openFileSplitAt s p = openFile s p := by
  unfold openFileSplitAt
  rw [if_neg h]

/-- hence a filesystem built on the old `open_file` does not satisfy `FS.NoPanic`, whatever the
invariant (as long as some world satisfies it) -/
theorem old_openFile_not_noPanic (s : State) (w : World) (hw : I w) :
    ¬ NoPanic I (M.ret (openFileSplitAt s [])) :=
  fun h => h.np w hw rfl

end Embedded
end Vfs
