/-
  Panic-freedom calculus for C13 ("no operation panics").

  In the model every site where the Rust code can panic is the explicit outcome `Res.panic`
  (slices out of range, arithmetic overflow, `onLeaf` on a leaf that does not exist, and the
  fuel sentinel of the recursive functions). An operation is panic-free *relative to an
  invariant on worlds*:

    `NoPanic I m := (∀ w, I w → I (m w).2) ∧ (∀ w, I w → (m w).1 ≠ .panic)`

  The first half makes the notion closed under `bind` (the continuation starts in a world that
  satisfies `I` again). The invariant that the concrete stacks need is "the leaves exist"
  (`LeafExists i`, `LeavesLen n`): `onLeaf i` panics exactly when leaf `i` is missing, and no
  operation changes the number of leaves.

  Contents: the calculus (pure/ret/fail/bind/withPath/attempt/ite and two inversion rules for
  the fuel statements), write handles, `FS.NoPanic`, leaves, every operation of the `VfsPath`
  layer, the walk invariant `Walk.Below` for the slice of `relJoin`, the fuel-taking recursions
  (one-step lemmas and "a panic is the fuel sentinel" via the predicates `…Out`), AltrootFS,
  OverlayFS, EmbeddedFS.
-/
import VfsModel.Proofs.Faithful
import VfsModel.Props.C06
namespace Vfs

/-! ### definitions -/

/-- `m` keeps the invariant `I` and, started in a world satisfying `I`, does not panic -/
structure NoPanic {α} (I : World → Prop) (m : M α) : Prop where
  pres : ∀ w, I w → I (m w).2
  np : ∀ w, I w → (m w).1 ≠ .panic

theorem Res.map_ne_panic {α β} (f : α → β) (r : Res α) (h : r ≠ .panic) : r.map f ≠ .panic := by
  cases r <;> simp [Res.map] at h ⊢

theorem Res.withPath_ne_panic {α} (p : Str) (r : Res α) (h : r ≠ .panic) : r.withPath p ≠ .panic := by
  cases r <;> simp [Res.withPath] at h ⊢

theorem fail_ne_panic {α} (k : ErrKind) : (fail k : Res α) ≠ .panic := by simp [fail]

theorem Res.ok_ne_panic {α} (a : α) : (Res.ok a : Res α) ≠ .panic := by simp
theorem Res.err_ne_panic {α} (k : ErrKind) (p : Option Str) : (Res.err k p : Res α) ≠ .panic := by simp

/-! ### the calculus -/
namespace NoPanic
variable {I : World → Prop}

theorem preserves {α} {m : M α} (h : NoPanic I m) : Preserves I m := ⟨h.pres⟩

theorem of_preserves {α} {m : M α} (hp : Preserves I m) (hn : ∀ w, I w → (m w).1 ≠ .panic) :
    NoPanic I m := ⟨hp.pres, hn⟩

/-- an operation that never panics, in any world, and preserves `I` -/
theorem of_total {α} {m : M α} (hp : Preserves I m) (hn : ∀ w, (m w).1 ≠ .panic) :
    NoPanic I m := ⟨hp.pres, fun w _ => hn w⟩

theorem pure {α} (a : α) : NoPanic I (Pure.pure a : M α) :=
  ⟨fun _ h => h, fun _ _ => Res.ok_ne_panic a⟩
theorem mpure {α} (a : α) : NoPanic I (M.pure a) :=
  ⟨fun _ h => h, fun _ _ => Res.ok_ne_panic a⟩
/-- lifting an outcome that is not `.panic` -/
theorem ret {α} (r : Res α) (h : r ≠ .panic) : NoPanic I (M.ret r) :=
  ⟨fun _ hw => hw, fun _ _ => h⟩
theorem failK {α} (k : ErrKind) : NoPanic I (M.failK k : M α) :=
  ⟨fun _ h => h, fun _ _ => fail_ne_panic k⟩
theorem failAt {α} (k : ErrKind) (p : Str) : NoPanic I (M.failAt k p : M α) :=
  ⟨fun _ h => h, fun _ _ => Res.err_ne_panic k (some p)⟩

/-- `bind` with a postcondition that may use the invariant -/
theorem bindI {α β} {m : M α} {f : α → M β} (Q : α → Prop) (hm : NoPanic I m)
    (hq : ∀ w, I w → ∀ a, (m w).1 = .ok a → Q a) (hf : ∀ a, Q a → NoPanic I (f a)) :
    NoPanic I (m >>= f) := by
  constructor
  · intro w hw
    show I (M.bind m f w).2
    have h1 := hm.pres w hw; have h3 := hq w hw
    cases hres : m w with
    | mk r w' =>
      rw [hres] at h1 h3
      cases r with
      | ok a => rw [M.bind_ok hres]; exact (hf a (h3 a rfl)).pres w' h1
      | err k p => rw [M.bind_err hres]; exact h1
      | panic => rw [M.bind_panic hres]; exact h1
  · intro w hw
    show (M.bind m f w).1 ≠ .panic
    have h1 := hm.pres w hw; have h2 := hm.np w hw; have h3 := hq w hw
    cases hres : m w with
    | mk r w' =>
      rw [hres] at h1 h2 h3
      cases r with
      | ok a => rw [M.bind_ok hres]; exact (hf a (h3 a rfl)).np w' h1
      | err k p => rw [M.bind_err hres]; intro h; cases h
      | panic => exact absurd rfl h2

theorem bindQ {α β} {m : M α} {f : α → M β} (Q : α → Prop) (hm : NoPanic I m) (hq : Returns m Q)
    (hf : ∀ a, Q a → NoPanic I (f a)) : NoPanic I (m >>= f) :=
  bindI Q hm (fun w _ a h => hq.post w a h) hf

theorem bind {α β} {m : M α} {f : α → M β} (hm : NoPanic I m) (hf : ∀ a, NoPanic I (f a)) :
    NoPanic I (m >>= f) :=
  bindQ (fun _ => True) hm (Returns.trivial m) (fun a _ => hf a)

theorem mbind {α β} {m : M α} {f : α → M β} (hm : NoPanic I m) (hf : ∀ a, NoPanic I (f a)) :
    NoPanic I (M.bind m f) := bind hm hf

theorem seq_unit {β} {m : M Unit} {f : M β} (hm : NoPanic I m) (hf : NoPanic I f) :
    NoPanic I (do m; f) := bind hm (fun _ => hf)

theorem withPath {α} (p : Str) {m : M α} (hm : NoPanic I m) : NoPanic I (M.withPath p m) := by
  refine ⟨(Preserves.withPath p hm.preserves).pres, fun w hw => ?_⟩
  have : (M.withPath p m w) = ((m w).1.withPath p, (m w).2) := rfl
  rw [this]
  exact Res.withPath_ne_panic p _ (hm.np w hw)

/-- `M.attempt` hands the outcome to a handler: the attempt itself never fails … -/
theorem attempt {α} {m : M α} (hm : NoPanic I m) : NoPanic I (M.attempt m) :=
  ⟨(Preserves.attempt hm.preserves).pres, fun w _ => Res.ok_ne_panic (m w).1⟩

/-- … and the outcome handed over is not `.panic` -/
theorem attempt_post {α} {m : M α} (hm : NoPanic I m) (w : World) (hw : I w) (r : Res α)
    (h : (M.attempt m w).1 = .ok r) : r ≠ .panic := by
  have : (M.attempt m w) = (.ok (m w).1, (m w).2) := rfl
  rw [this] at h
  injection h with h
  subst h
  exact hm.np w hw

theorem ite {α} {c : Prop} [Decidable c] {a b : M α} (ha : NoPanic I a) (hb : NoPanic I b) :
    NoPanic I (if c then a else b) := by
  split <;> assumption

/-- weakening of the postcondition is not needed: `NoPanic` for a stronger invariant that is
implied pointwise and preserved -/
theorem unit_bind {β} {m : M Unit} {f : Unit → M β} (hm : NoPanic I m) (hf : NoPanic I (f ())) :
    NoPanic I (m >>= f) := bind hm (fun _ => hf)

/-! #### inversion of a panicking `bind` (used for the fuel statements) -/

/-- if `m` cannot panic, a panic of `m >>= f` is a panic of the continuation, which was started
on the value and in the world that `m` ended with -/
theorem bind_panic_right {α β} {m : M α} {f : α → M β} (hm : NoPanic I m) {w : World} (hw : I w)
    (h : ((m >>= f) w).1 = .panic) : ∃ a w', m w = (.ok a, w') ∧ I w' ∧ (f a w').1 = .panic := by
  have h1 := hm.pres w hw; have h2 := hm.np w hw
  have h' : (M.bind m f w).1 = .panic := h
  cases hres : m w with
  | mk r w' =>
    rw [hres] at h1 h2
    cases r with
    | ok a => rw [M.bind_ok hres] at h'; exact ⟨a, w', rfl, h1, h'⟩
    | err k p => rw [M.bind_err hres] at h'; cases h'
    | panic => exact absurd rfl h2

/-- if the continuation cannot panic, a panic of `m >>= f` is a panic of `m` -/
theorem bind_panic_left {α β} {m : M α} {f : α → M β} (hp : Preserves I m)
    (hf : ∀ a, NoPanic I (f a)) {w : World} (hw : I w)
    (h : ((m >>= f) w).1 = .panic) : (m w).1 = .panic := by
  have h1 := hp.pres w hw
  have h' : (M.bind m f w).1 = .panic := h
  cases hres : m w with
  | mk r w' =>
    rw [hres] at h1
    cases r with
    | ok a => rw [M.bind_ok hres] at h'; exact absurd h' ((hf a).np w' h1)
    | err k p => rw [M.bind_err hres] at h'; cases h'
    | panic => rfl

end NoPanic

macro "np_step" : tactic => `(tactic| first
  | with_reducible exact NoPanic.pure _ | with_reducible exact NoPanic.mpure _
  | with_reducible exact NoPanic.failK _ | with_reducible exact NoPanic.failAt _ _
  | with_reducible apply NoPanic.bind
  | with_reducible apply NoPanic.withPath | with_reducible apply NoPanic.attempt
  | dsimp only
  | intro _ | split
  | (apply_assumption; done))
/-- discharge `NoPanic I m` goals by structural decomposition of `m` -/
macro "nopanic" : tactic => `(tactic| (repeat (any_goals np_step)))

/-! ### invariants: the leaves exist -/

/-- leaf `i` exists -/
def LeafExists (i : Nat) (w : World) : Prop := w.leaf? i ≠ none

/-- the world has exactly `n` leaves -/
def LeavesLen (n : Nat) (w : World) : Prop := w.leaves.length = n

theorem World.setLeafFiles_length (w : World) (i : Nat) (f : FMap) :
    (w.setLeafFiles i f).leaves.length = w.leaves.length := by
  unfold World.setLeafFiles
  simp

theorem LeavesLen.ignores (n i : Nat) : IgnoresLeaf (LeavesLen n) i := by
  intro w f h
  unfold LeavesLen at *
  rw [World.setLeafFiles_length]; exact h

theorem LeavesLen.exists_ {n i : Nat} (hi : i < n) (w : World) (h : LeavesLen n w) :
    LeafExists i w := by
  unfold LeavesLen at h
  unfold LeafExists World.leaf?
  simp
  omega

theorem LeafExists.iff_lt (i : Nat) (w : World) : LeafExists i w ↔ i < w.leaves.length := by
  unfold LeafExists World.leaf?
  simp

theorem LeafExists.ignores (i j : Nat) : IgnoresLeaf (LeafExists i) j := by
  intro w f h
  rw [LeafExists.iff_lt] at *
  rw [World.setLeafFiles_length]; exact h

/-! ### write handles never panic, in any world -/

theorem cursorSeek_ne_panic (len pos : Nat) (s : SeekFrom) : cursorSeek len pos s ≠ .panic := by
  unfold cursorSeek
  cases s with
  | start o => simp
  | cur o => dsimp only; split <;> simp [fail]
  | fromEnd o => dsimp only; split <;> simp [fail]

namespace WHandle

/-- `write` tolerates a missing leaf and a removed file (it then writes nothing) -/
theorem write_ne_panic (h : WHandle) (bs : Bytes) (w : World) : (h.write bs w).1 ≠ .panic := by
  unfold WHandle.write
  cases h.kind <;> dsimp only
  · simp
  · split
    · split <;> simp
    · simp
  · split
    · split <;> simp
    · simp

theorem seek_ne_panic (h : WHandle) (s : SeekFrom) (w : World) : (h.seek s w).1 ≠ .panic := by
  have := cursorSeek_ne_panic (h.fileLen w) h.pos s
  unfold WHandle.seek
  split
  · simp
  · simp
  · rename_i heq; exact absurd heq this

theorem flush_ne_panic (h : WHandle) (w : World) : (h.flush w).1 ≠ .panic := by
  unfold WHandle.flush
  cases h.kind <;> dsimp only
  · split <;> simp
  · simp
  · simp

theorem drop_ne_panic (h : WHandle) (w : World) : (h.drop w).1 ≠ .panic := flush_ne_panic h w

/-- `seek` does not change the world -/
theorem seek_world (h : WHandle) (s : SeekFrom) (w : World) : (h.seek s w).2 = w := by
  unfold WHandle.seek
  split <;> rfl

theorem seek_pres {I : World → Prop} (h : WHandle) (s : SeekFrom) : Preserves I (h.seek s) :=
  ⟨fun w hw => by rw [seek_world]; exact hw⟩

theorem writeAllAndDrop_ne_panic (h : WHandle) (bs : Bytes) (w : World) :
    (h.writeAllAndDrop bs w).1 ≠ .panic := by
  unfold WHandle.writeAllAndDrop
  show (M.bind (h.write bs) _ w).1 ≠ .panic
  have h1 := write_ne_panic h bs w
  cases hres : h.write bs w with
  | mk r w' =>
    rw [hres] at h1
    cases r with
    | ok a => rw [M.bind_ok hres]; exact drop_ne_panic _ _
    | err k p => rw [M.bind_err hres]; intro h; cases h
    | panic => exact absurd rfl h1

end WHandle

namespace HandleOK
variable {I : World → Prop}

theorem np_write {h : WHandle} (hk : HandleOK I h) (bs : Bytes) : NoPanic I (h.write bs) :=
  .of_total (hk.write bs) (WHandle.write_ne_panic h bs)
theorem np_flush {h : WHandle} (hk : HandleOK I h) : NoPanic I h.flush :=
  .of_total hk.flush (WHandle.flush_ne_panic h)
theorem np_drop {h : WHandle} (hk : HandleOK I h) : NoPanic I h.drop :=
  .of_total hk.drop (WHandle.drop_ne_panic h)
theorem np_seek {h : WHandle} (s : SeekFrom) : NoPanic I (h.seek s) :=
  .of_total (WHandle.seek_pres h s) (WHandle.seek_ne_panic h s)
theorem np_writeAllAndDrop {h : WHandle} (hk : HandleOK I h) (bs : Bytes) :
    NoPanic I (h.writeAllAndDrop bs) :=
  .of_total (hk.writeAllAndDrop bs) (WHandle.writeAllAndDrop_ne_panic h bs)

/-- what `write` returns is again a handle that preserves `I` -/
theorem write_ret {h : WHandle} (hk : HandleOK I h) (bs : Bytes) :
    Returns (h.write bs) (fun r => HandleOK I r.2) := by
  refine ⟨fun w r he => ?_⟩
  obtain ⟨n, h'⟩ := r
  obtain ⟨buf, pos, rfl⟩ := WHandle.write_same h bs w n h' he
  exact hk.of_same buf pos

end HandleOK

/-! ### read handles (the statements about `read` and `seek` are C14's) -/

theorem RHandle.readToEnd_ne_panic (r : RHandle) : r.readToEnd.1 ≠ .panic := by
  unfold RHandle.readToEnd
  split <;> simp [fail]

/-! ### filesystems -/

/-- every method of the filesystem is panic-free under `I` and keeps `I`, and the write
handles it hands out keep `I` (that they never panic holds for every handle) -/
structure FS.NoPanic (I : World → Prop) (fs : FS) : Prop where
  readDir : ∀ p, Vfs.NoPanic I (fs.readDir p)
  createDir : ∀ p, Vfs.NoPanic I (fs.createDir p)
  openFile : ∀ p, Vfs.NoPanic I (fs.openFile p)
  createFile : ∀ p, Vfs.NoPanic I (fs.createFile p)
  appendFile : ∀ p, Vfs.NoPanic I (fs.appendFile p)
  metadata : ∀ p, Vfs.NoPanic I (fs.metadata p)
  setCreationTime : ∀ p t, Vfs.NoPanic I (fs.setCreationTime p t)
  setModificationTime : ∀ p t, Vfs.NoPanic I (fs.setModificationTime p t)
  setAccessTime : ∀ p t, Vfs.NoPanic I (fs.setAccessTime p t)
  exists_ : ∀ p, Vfs.NoPanic I (fs.exists_ p)
  removeFile : ∀ p, Vfs.NoPanic I (fs.removeFile p)
  removeDir : ∀ p, Vfs.NoPanic I (fs.removeDir p)
  copyFile : ∀ s d, Vfs.NoPanic I (fs.copyFile s d)
  moveFile : ∀ s d, Vfs.NoPanic I (fs.moveFile s d)
  moveDir : ∀ s d, Vfs.NoPanic I (fs.moveDir s d)
  createHandle : ∀ p, Returns (fs.createFile p) (HandleOK I)
  appendHandle : ∀ p, Returns (fs.appendFile p) (HandleOK I)

theorem FS.NoPanic.all {I : World → Prop} {fs : FS} (h : fs.NoPanic I) : fs.AllPreserve I where
  readDir p := (h.readDir p).preserves
  createDir p := (h.createDir p).preserves
  openFile p := (h.openFile p).preserves
  createFile p := (h.createFile p).preserves
  appendFile p := (h.appendFile p).preserves
  metadata p := (h.metadata p).preserves
  setCreationTime p t := (h.setCreationTime p t).preserves
  setModificationTime p t := (h.setModificationTime p t).preserves
  setAccessTime p t := (h.setAccessTime p t).preserves
  exists_ p := (h.exists_ p).preserves
  removeFile p := (h.removeFile p).preserves
  removeDir p := (h.removeDir p).preserves
  copyFile s d := (h.copyFile s d).preserves
  moveFile s d := (h.moveFile s d).preserves
  moveDir s d := (h.moveDir s d).preserves
  createHandle := h.createHandle
  appendHandle := h.appendHandle

/-- the placeholder filesystem (every method `NotSupported`) -/
theorem FS.NoPanic.default {I : World → Prop} : (default : FS).NoPanic I where
  readDir _ := .failK _
  createDir _ := .failK _
  openFile _ := .failK _
  createFile _ := .failK _
  appendFile _ := .failK _
  metadata _ := .failK _
  setCreationTime _ _ := .failK _
  setModificationTime _ _ := .failK _
  setAccessTime _ _ := .failK _
  exists_ _ := .failK _
  removeFile _ := .failK _
  removeDir _ := .failK _
  copyFile _ _ := .failK _
  moveFile _ _ := .failK _
  moveDir _ _ := .failK _
  createHandle _ := Returns.failK _
  appendHandle _ := Returns.failK _

end Vfs

/-! ### leaves: `Mem.*` and `Phys.*` are total functions producing `ok` / `err` only

For every map and every path string — the root `""`, paths without a parent, targets of the
wrong type included. The `.panic` branches of these functions only forward a panic of a callee
(`ensureHasParent`, `lookup`, …), and the callees have none. -/
namespace Vfs

namespace Mem

theorem readDir_np (m : FMap) (p : Str) : readDir m p ≠ .panic := by
  unfold readDir
  split
  · simp [fail]
  · split <;> simp [fail]

theorem ensureHasParent_np (m : FMap) (p : Str) : ensureHasParent m p ≠ .panic := by
  unfold ensureHasParent
  split
  · split <;> simp [fail]
  · simp [fail]

theorem createDir_np (m : FMap) (p : Str) : (createDir m p).1 ≠ .panic := by
  have := ensureHasParent_np m p
  unfold createDir
  split
  · split
    · dsimp only; split <;> simp [fail]
    · simp
  · simp
  · rename_i heq; exact absurd heq this

theorem setAccessed_np (m : FMap) (p : Str) (t : TS) : (setAccessed m p t).1 ≠ .panic := by
  unfold setAccessed; split <;> simp [fail]
theorem setModified_np (m : FMap) (p : Str) (t : TS) : (setModified m p t).1 ≠ .panic := by
  unfold setModified; split <;> simp [fail]
theorem setCreated_np (m : FMap) (p : Str) (t : TS) : (setCreated m p t).1 ≠ .panic := by
  unfold setCreated; split <;> simp [fail]

theorem openFile_np (m : FMap) (p : Str) : (openFile m p).1 ≠ .panic := by
  have := setAccessed_np m p .now
  unfold openFile
  split
  · split
    · simp [fail]
    · split <;> simp [fail]
  · simp
  · rename_i heq; rw [heq] at this; exact absurd rfl this

theorem createFile_np (m : FMap) (p : Str) : (createFile m p).1 ≠ .panic := by
  have := ensureHasParent_np m p
  unfold createFile
  split
  · split
    · split <;> simp [fail]
    · simp
  · simp
  · rename_i heq; exact absurd heq this

theorem appendFile_np (m : FMap) (p : Str) : appendFile m p ≠ .panic := by
  unfold appendFile
  split
  · simp [fail]
  · split <;> simp [fail]

theorem metadata_np (m : FMap) (p : Str) : metadata m p ≠ .panic := by
  unfold metadata; split <;> simp [fail]

theorem removeFile_np (m : FMap) (p : Str) : (removeFile m p).1 ≠ .panic := by
  unfold removeFile
  split
  · simp [fail]
  · split <;> simp [fail]

theorem removeDir_np (m : FMap) (p : Str) : (removeDir m p).1 ≠ .panic := by
  have := readDir_np m p
  unfold removeDir
  split
  · split
    · simp [fail]
    · split <;> simp [fail]
  · simp
  · rename_i heq; exact absurd heq this

end Mem

namespace Phys

theorem resolveParent_np (m : FMap) (p : Str) : resolveParent m p ≠ .panic := by
  unfold resolveParent
  split
  · simp
  · split <;> simp [fail]

theorem lookup_np (m : FMap) (p : Str) : lookup m p ≠ .panic := by
  have := resolveParent_np m p
  unfold lookup
  split
  · simp
  · simp
  · rename_i heq; exact absurd heq this

theorem readDir_np (m : FMap) (p : Str) : readDir m p ≠ .panic := by
  have := lookup_np m p
  unfold readDir
  split
  · simp [fail]
  · split <;> simp [fail]
  · simp
  · rename_i heq; exact absurd heq this

theorem createDir_np (m : FMap) (p : Str) : (createDir m p).1 ≠ .panic := by
  have := lookup_np m p
  unfold createDir
  split
  · simp
  · dsimp only; split <;> simp [fail]
  · simp
  · rename_i heq; exact absurd heq this

theorem openFile_np (m : FMap) (p : Str) : openFile m p ≠ .panic := by
  have := lookup_np m p
  unfold openFile
  split
  · simp [fail]
  · split <;> simp
  · simp
  · rename_i heq; exact absurd heq this

theorem createFile_np (m : FMap) (p : Str) : (createFile m p).1 ≠ .panic := by
  have := lookup_np m p
  unfold createFile
  split
  · simp
  · split <;> simp [fail]
  · simp
  · rename_i heq; exact absurd heq this

theorem appendFile_np (m : FMap) (p : Str) : appendFile m p ≠ .panic := by
  have := lookup_np m p
  unfold appendFile
  split
  · simp [fail]
  · split <;> simp [fail]
  · simp
  · rename_i heq; exact absurd heq this

theorem metadata_np (m : FMap) (p : Str) : metadata m p ≠ .panic := by
  have := lookup_np m p
  unfold metadata
  split
  · simp [fail]
  · simp
  · simp
  · rename_i heq; exact absurd heq this

theorem removeFile_np (m : FMap) (p : Str) : (removeFile m p).1 ≠ .panic := by
  have := lookup_np m p
  unfold removeFile
  split
  · simp [fail]
  · split <;> simp [fail]
  · simp
  · rename_i heq; exact absurd heq this

theorem removeDir_np (m : FMap) (p : Str) : (removeDir m p).1 ≠ .panic := by
  have := lookup_np m p
  unfold removeDir
  split
  · simp [fail]
  · split
    · simp [fail]
    · split <;> simp [fail]
  · simp
  · rename_i heq; exact absurd heq this

theorem setTime_np (upd : Entry → Entry) (m : FMap) (p : Str) : (setTime upd m p).1 ≠ .panic := by
  have := lookup_np m p
  unfold setTime
  split
  · simp [fail]
  · simp
  · simp
  · rename_i heq; exact absurd heq this

theorem copyFile_np (m : FMap) (s d : Str) : (copyFile m s d).1 ≠ .panic := by
  have h1 := lookup_np m s
  have h2 := lookup_np m d
  unfold copyFile
  split
  · simp [fail]
  · split
    · simp [fail]
    · split
      · simp
      · split <;> simp [fail]
      · simp
      · rename_i heq; exact absurd heq h2
  · simp
  · rename_i heq; exact absurd heq h1

theorem rename_np (m : FMap) (s d : Str) : (rename m s d).1 ≠ .panic := by
  have h1 := lookup_np m s
  have h2 := lookup_np m d
  have h3 := resolveParent_np m s
  have h4 := resolveParent_np m d
  unfold rename
  split
  · simp
  · rename_i heq; exact absurd heq h3
  · simp
  · rename_i heq; exact absurd heq h4
  · split
    · simp [fail]
    · split
      · split <;> simp [fail]
      · simp [fail]
      · simp
      · rename_i heq; exact absurd heq h2
    · simp
    · rename_i heq; exact absurd heq h1

end Phys

/-- `onLeaf i f` panics exactly when leaf `i` is missing (given that `f` does not) -/
theorem onLeaf_np {α} {I : World → Prop} (i : Nat) (hI : IgnoresLeaf I i)
    (hex : ∀ w, I w → LeafExists i w) (f : Leaf → Res α × FMap) (hf : ∀ l, (f l).1 ≠ .panic) :
    NoPanic I (onLeaf i f) := by
  refine .of_preserves (onLeaf_pres i hI f) (fun w hw => ?_)
  have := hex w hw
  unfold LeafExists at this
  unfold onLeaf
  split
  · rename_i heq; exact absurd heq this
  · exact hf _

/-- the converse: on a world without leaf `i`, every `onLeaf i f` panics -/
theorem onLeaf_panics {α} (i : Nat) (f : Leaf → Res α × FMap) (w : World) (h : w.leaf? i = none) :
    (onLeaf i f w).1 = .panic := by
  unfold onLeaf; rw [h]

/-- **a leaf filesystem never panics as long as its leaf exists**, for every invariant that
guarantees the leaf and is not disturbed by writes to it -/
theorem leafFS_noPanic_of {I : World → Prop} (i : Nat) (hI : IgnoresLeaf I i)
    (hex : ∀ w, I w → LeafExists i w) : (leafFS i).NoPanic I where
  readDir p := onLeaf_np i hI hex _ (fun l => by
    cases l.kind <;> dsimp only
    · exact Mem.readDir_np _ _
    · exact Phys.readDir_np _ _)
  createDir p := onLeaf_np i hI hex _ (fun l => by
    cases l.kind <;> dsimp only
    · exact Mem.createDir_np _ _
    · exact Phys.createDir_np _ _)
  openFile p := onLeaf_np i hI hex _ (fun l => by
    cases l.kind <;> dsimp only
    · exact Mem.openFile_np _ _
    · exact Phys.openFile_np _ _)
  createFile p := onLeaf_np i hI hex _ (fun l => by
    cases l.kind <;> dsimp only
    · exact Res.map_ne_panic _ _ (Mem.createFile_np _ _)
    · exact Res.map_ne_panic _ _ (Phys.createFile_np _ _))
  appendFile p := onLeaf_np i hI hex _ (fun l => by
    cases l.kind <;> dsimp only
    · exact Res.map_ne_panic _ _ (Mem.appendFile_np _ _)
    · exact Res.map_ne_panic _ _ (Phys.appendFile_np _ _))
  metadata p := onLeaf_np i hI hex _ (fun l => by
    cases l.kind <;> dsimp only
    · exact Mem.metadata_np _ _
    · exact Phys.metadata_np _ _)
  setCreationTime p t := onLeaf_np i hI hex _ (fun l => by
    cases l.kind <;> dsimp only
    · exact Mem.setCreated_np _ _ _
    · exact fail_ne_panic _)
  setModificationTime p t := onLeaf_np i hI hex _ (fun l => by
    cases l.kind <;> dsimp only
    · exact Mem.setModified_np _ _ _
    · exact Phys.setTime_np _ _ _)
  setAccessTime p t := onLeaf_np i hI hex _ (fun l => by
    cases l.kind <;> dsimp only
    · exact Mem.setAccessed_np _ _ _
    · exact Phys.setTime_np _ _ _)
  exists_ p := onLeaf_np i hI hex _ (fun l => by
    cases l.kind <;> exact Res.ok_ne_panic _)
  removeFile p := onLeaf_np i hI hex _ (fun l => by
    cases l.kind <;> dsimp only
    · exact Mem.removeFile_np _ _
    · exact Phys.removeFile_np _ _)
  removeDir p := onLeaf_np i hI hex _ (fun l => by
    cases l.kind <;> dsimp only
    · exact Mem.removeDir_np _ _
    · exact Phys.removeDir_np _ _)
  copyFile s d := onLeaf_np i hI hex _ (fun l => by
    cases l.kind <;> dsimp only
    · exact fail_ne_panic _
    · exact Phys.copyFile_np _ _ _)
  moveFile s d := onLeaf_np i hI hex _ (fun l => by
    cases l.kind <;> dsimp only
    · exact fail_ne_panic _
    · exact Phys.rename_np _ _ _)
  moveDir s d := onLeaf_np i hI hex _ (fun l => by
    cases l.kind <;> dsimp only
    · exact fail_ne_panic _
    · split
      · exact Res.ok_ne_panic _
      · exact fail_ne_panic _)
  createHandle := (leafFS_all_preserve i hI).createHandle
  appendHandle := (leafFS_all_preserve i hI).appendHandle

theorem leafFS_noPanic (i : Nat) : (leafFS i).NoPanic (LeafExists i) :=
  leafFS_noPanic_of i (LeafExists.ignores i i) (fun _ h => h)

theorem leafFS_noPanic_len {n i : Nat} (hi : i < n) : (leafFS i).NoPanic (LeavesLen n) :=
  leafFS_noPanic_of i (LeavesLen.ignores n i) (LeavesLen.exists_ hi)

end Vfs

/-! ### the `VfsPath` layer, over an arbitrary filesystem with `FS.NoPanic I` -/
namespace Vfs
namespace VPath
variable {I : World → Prop}

/-- `VfsPath::join` never panics, for any two strings -/
theorem join_ne_panic (p : VPath) (arg : Str) : p.join arg ≠ .panic :=
  Res.map_ne_panic _ _ (C06.join_total p.path arg)

theorem np_exists (p : VPath) (h : p.fs.NoPanic I) : NoPanic I p.exists_ := h.exists_ _
theorem np_metadata (p : VPath) (h : p.fs.NoPanic I) : NoPanic I p.metadata :=
  .withPath _ (h.metadata _)
theorem np_openFile (p : VPath) (h : p.fs.NoPanic I) : NoPanic I p.openFile :=
  .withPath _ (h.openFile _)
theorem np_appendFile (p : VPath) (h : p.fs.NoPanic I) : NoPanic I p.appendFile :=
  .withPath _ (h.appendFile _)
theorem np_removeFile (p : VPath) (h : p.fs.NoPanic I) : NoPanic I p.removeFile :=
  .withPath _ (h.removeFile _)
theorem np_removeDir (p : VPath) (h : p.fs.NoPanic I) : NoPanic I p.removeDir :=
  .withPath _ (h.removeDir _)
theorem np_setCreationTime (p : VPath) (t : Int) (h : p.fs.NoPanic I) :
    NoPanic I (p.setCreationTime t) := .withPath _ (h.setCreationTime _ _)
theorem np_setModificationTime (p : VPath) (t : Int) (h : p.fs.NoPanic I) :
    NoPanic I (p.setModificationTime t) := .withPath _ (h.setModificationTime _ _)
theorem np_setAccessTime (p : VPath) (t : Int) (h : p.fs.NoPanic I) :
    NoPanic I (p.setAccessTime t) := .withPath _ (h.setAccessTime _ _)

theorem np_readDir (p : VPath) (h : p.fs.NoPanic I) : NoPanic I p.readDir := by
  have h1 := h.readDir
  unfold readDir
  nopanic

theorem np_isFile (p : VPath) (h : p.fs.NoPanic I) : NoPanic I p.isFile := by
  have h1 := h.exists_; have h2 := h.metadata
  unfold isFile exists_ metadata
  nopanic

theorem np_isDir (p : VPath) (h : p.fs.NoPanic I) : NoPanic I p.isDir := by
  have h1 := h.exists_; have h2 := h.metadata
  unfold isDir exists_ metadata
  nopanic

/-- `get_parent`, also on the root (whose parent is the root) -/
theorem np_getParent (p : VPath) (h : p.fs.NoPanic I) : NoPanic I p.getParent := by
  have h1 := h.exists_; have h2 := h.metadata
  unfold getParent exists_ metadata parent withStr
  nopanic

theorem np_createDir (p : VPath) (h : p.fs.NoPanic I) : NoPanic I p.createDir := by
  have h1 := np_getParent p h; have h2 := h.createDir
  unfold createDir
  nopanic

theorem np_createFile (p : VPath) (h : p.fs.NoPanic I) : NoPanic I p.createFile := by
  have h1 := np_getParent p h; have h2 := h.createFile
  unfold createFile
  nopanic

theorem createFile_handleOK (p : VPath) (h : p.fs.NoPanic I) : Returns p.createFile (HandleOK I) :=
  createFile_handle p h.all
theorem appendFile_handleOK (p : VPath) (h : p.fs.NoPanic I) : Returns p.appendFile (HandleOK I) :=
  appendFile_handle p h.all

/-- the loop of `create_dir_all` is structural on the list of prefixes -/
theorem np_createDirAllLoop (p : VPath) (h : p.fs.NoPanic I) (l : List Str) :
    NoPanic I (createDirAllLoop p l) := by
  refine .of_preserves (pres_createDirAllLoop p h.all l) ?_
  induction l with
  | nil => exact (NoPanic.pure (I := I) ()).np
  | cons d rest ih =>
    intro w hw
    unfold createDirAllLoop
    have h1 := (h.createDir d).pres w hw
    have h2 := (h.createDir d).np w hw
    cases hres : p.fs.createDir d w with
    | mk r w' =>
      rw [hres] at h1 h2
      cases r with
      | ok a => exact ih w' h1
      | err k pth =>
        cases k <;> dsimp only
        case dirExists => exact ih w' h1
        all_goals exact Res.err_ne_panic _ _
      | panic => exact absurd rfl h2

theorem np_createDirAll (p : VPath) (h : p.fs.NoPanic I) : NoPanic I p.createDirAll := by
  unfold createDirAll
  split
  · exact .pure _
  · exact np_createDirAllLoop p h _

theorem np_readToEndChecked (p : VPath) (h : p.fs.NoPanic I) : NoPanic I p.readToEndChecked := by
  unfold readToEndChecked
  apply NoPanic.bind (np_metadata p h)
  intro md
  split
  · exact .failAt _ _
  · apply NoPanic.bind (np_openFile p h)
    intro r
    exact .withPath _ (.ret _ r.readToEnd_ne_panic)

/-! #### transfers -/

theorem np_ioCopyAndDrop (r : RHandle) (h : WHandle) (sp : Str) (hk : HandleOK I h) :
    NoPanic I (ioCopyAndDrop r h sp) := by
  unfold ioCopyAndDrop
  apply NoPanic.bind (.withPath _ (.ret _ r.readToEnd_ne_panic))
  intro bytes
  apply NoPanic.bindQ _ (hk.np_write bytes) (hk.write_ret bytes)
  intro x hx
  exact hx.np_drop

/-- the outcome of the fast path that the handler of copy_file / move_file / move_dir sees -/
theorem np_fast {c : Prop} [Decidable c] {m : M Unit} (hm : c → NoPanic I m) :
    NoPanic I (if c then M.attempt m else (Pure.pure (fail .notSupported) : M (Res Unit))) ∧
    ∀ w, I w → ∀ r, ((if c then M.attempt m else (Pure.pure (fail .notSupported) : M (Res Unit))) w).1
      = .ok r → r ≠ .panic := by
  by_cases hc : c
  · simp only [hc, ↓reduceIte]
    exact ⟨.attempt (hm hc), fun w hw r he => NoPanic.attempt_post (hm hc) w hw r he⟩
  · simp only [hc, ↓reduceIte]
    refine ⟨.pure _, fun w _ r he => ?_⟩
    have he' : (Res.ok (fail .notSupported) : Res (Res Unit)) = .ok r := he
    injection he' with he'
    subst he'
    exact fail_ne_panic _

/-- `copy_file` -/
theorem np_copyFile (src dst : VPath) (hs : src.fs.NoPanic I) (hd : dst.fs.NoPanic I) :
    NoPanic I (src.copyFile dst) := by
  unfold copyFile
  apply NoPanic.withPath
  apply NoPanic.bind (np_exists dst hd)
  intro b
  split
  · exact .failAt _ _
  · have hf := np_fast (I := I) (c := src.fsId = dst.fsId) (fun _ => hs.copyFile src.path dst.path)
    apply NoPanic.bindI _ hf.1 hf.2
    intro fast hfast
    split
    · exact .pure _
    · exact absurd rfl hfast
    · split
      · exact .ret _ (Res.err_ne_panic _ _)
      · apply NoPanic.bind (np_openFile src hs)
        intro r
        apply NoPanic.bindQ _ (np_createFile dst hd) (createFile_handleOK dst hd)
        intro wh hwh
        exact np_ioCopyAndDrop r wh _ hwh

/-- `move_file` -/
theorem np_moveFile (src dst : VPath) (hs : src.fs.NoPanic I) (hd : dst.fs.NoPanic I) :
    NoPanic I (src.moveFile dst) := by
  unfold moveFile
  apply NoPanic.withPath
  apply NoPanic.bind (np_exists dst hd)
  intro b
  split
  · exact .failAt _ _
  · have hf := np_fast (I := I) (c := src.fsId = dst.fsId) (fun _ => hs.moveFile src.path dst.path)
    apply NoPanic.bindI _ hf.1 hf.2
    intro fast hfast
    split
    · exact .pure _
    · exact absurd rfl hfast
    · split
      · exact .ret _ (Res.err_ne_panic _ _)
      · apply NoPanic.bind (np_openFile src hs)
        intro r
        apply NoPanic.bindQ _ (np_createFile dst hd) (createFile_handleOK dst hd)
        intro wh hwh
        apply NoPanic.bind (.withPath _ (.ret _ r.readToEnd_ne_panic))
        intro bytes
        apply NoPanic.bindQ _ (hwh.np_write bytes) (hwh.write_ret bytes)
        intro x hx
        have ha := np_removeFile src hs
        apply NoPanic.bindI _ (.attempt ha) (fun w hw r he => NoPanic.attempt_post ha w hw r he)
        intro res hres
        exact NoPanic.bind hx.np_drop (fun _ => .ret _ hres)

end VPath
end Vfs

/-! ### the walk iterator -/
namespace Vfs

theorem Returns.and {α} {m : M α} {P Q : α → Prop} (hp : Returns m P) (hq : Returns m Q) :
    Returns m (fun a => P a ∧ Q a) := ⟨fun w a h => ⟨hp.post w a h, hq.post w a h⟩⟩

theorem Returns.mono {α} {m : M α} {P Q : α → Prop} (hp : Returns m P) (h : ∀ a, P a → Q a) :
    Returns m Q := ⟨fun w a he => h a (hp.post w a he)⟩

namespace VPath
variable {I : World → Prop}

theorem np_walkDir (p : VPath) (h : p.fs.NoPanic I) : NoPanic I p.walkDir := by
  have h1 := np_readDir p h
  unfold walkDir
  nopanic

/-- the search loop of `WalkDirIterator::next` is structural on the stack of directories -/
theorem np_walkFind (inner todo : List VPath) (h : ∀ c ∈ todo, c.fs.NoPanic I) :
    NoPanic I (walkFind inner todo) := by
  refine .of_preserves (pres_walkFind inner todo (fun c hc => (h c hc).all.obs)) ?_
  induction todo generalizing inner with
  | nil =>
    cases inner <;> (unfold walkFind; exact (NoPanic.pure (I := I) _).np)
  | cons d todo ih =>
    cases inner with
    | cons x inner => unfold walkFind; exact (NoPanic.pure (I := I) _).np
    | nil =>
      intro w hw
      unfold walkFind
      have hd := np_readDir d (h d (by simp))
      have h1 := hd.pres w hw
      have h2 := hd.np w hw
      cases hres : d.readDir w with
      | mk r w' =>
        rw [hres] at h1 h2
        cases r with
        | ok l =>
          cases l with
          | nil => exact ih [] (fun c hc => h c (by simp [hc])) w' h1
          | cons x inner => exact Res.ok_ne_panic _
        | err k pth => exact Res.ok_ne_panic _
        | panic => exact absurd rfl h2

/-- the raw item found by the loop is a path or an error, never `some .panic` -/
theorem walkFind_item (inner todo : List VPath) :
    Returns (walkFind inner todo) (fun r => r.1 ≠ some .panic) := by
  induction todo generalizing inner with
  | nil =>
    cases inner <;> (unfold walkFind; exact Returns.pure _ (by simp))
  | cons d todo ih =>
    cases inner with
    | cons x inner => unfold walkFind; exact Returns.pure _ (by simp)
    | nil =>
      refine ⟨fun w a he => ?_⟩
      unfold walkFind at he
      cases hres : d.readDir w with
      | mk r w' =>
        rw [hres] at he
        cases r with
        | ok l =>
          cases l with
          | nil => exact (ih []).post w' a he
          | cons x inner =>
            dsimp only at he
            injection he with he; subst he; simp
        | err k pth =>
          dsimp only at he
          injection he with he; subst he; simp
        | panic => cases he

/-- the item yielded by `next` is a path or an error, never `some .panic` -/
theorem walkNext_item (s : Walk) : Returns (walkNext s) (fun r => r.1 ≠ some .panic) := by
  unfold walkNext
  apply Returns.bindQ (walkFind_item s.inner s.todo)
  intro x hx
  obtain ⟨item, s'⟩ := x
  cases item with
  | none => exact Returns.pure _ (by simp)
  | some r =>
    cases r with
    | ok x =>
      refine ⟨fun w a he => ?_⟩
      dsimp only at he
      cases hres : x.metadata w with
      | mk r w' =>
        rw [hres] at he
        cases r with
        | ok md =>
          dsimp only at he
          split at he <;> (injection he with he; subst he; simp)
        | err k pth =>
          dsimp only at he
          injection he with he; subst he; simp
        | panic => cases he
    | err k pth => exact Returns.pure _ (by simp)
    | panic => exact absurd rfl hx

/-- **`WalkDirIterator::next`** never panics (structural on the pending directories) -/
theorem np_walkNext (fs : FS) (hfs : fs.NoPanic I) (s : Walk) (hs : s.On fs) :
    NoPanic I (walkNext s) := by
  unfold walkNext
  apply NoPanic.bindQ _ (np_walkFind s.inner s.todo (fun c hc => by rw [hs.2 c hc]; exact hfs))
    (walkFind_on fs s.inner s.todo hs.1 hs.2)
  intro x hx
  obtain ⟨item, s'⟩ := x
  obtain ⟨hx1, hx2⟩ := hx
  cases item with
  | none => exact .pure _
  | some r =>
    cases r with
    | err k pth => exact .pure _
    | panic => exact .pure _
    | ok x =>
      have hxf : x.fs.NoPanic I := by rw [hx1 x rfl]; exact hfs
      have hmd := np_metadata x hxf
      dsimp only
      constructor
      · intro w hw
        have h1 := hmd.pres w hw
        cases hres : x.metadata w with
        | mk r w' =>
          rw [hres] at h1
          cases r with
          | ok md => dsimp only; split <;> exact h1
          | err k pth => exact h1
          | panic => exact h1
      · intro w hw
        have h2 := hmd.np w hw
        cases hres : x.metadata w with
        | mk r w' =>
          rw [hres] at h2
          cases r with
          | ok md => dsimp only; split <;> exact Res.ok_ne_panic _
          | err k pth => exact Res.ok_ne_panic _
          | panic => exact absurd rfl h2

/-! #### the slice `&src_path.as_str()[prefix_len + 1..]` of copy_dir / move_dir

Every path that a walk started at `base` holds or yields has the form `base ++ "/" ++ t`, so
the slice from `base.len() + 1` is in range. -/

/-- `x` lies strictly below `base`: its path string extends `base ++ "/"` -/
def Below (base : Str) (x : VPath) : Prop := ∃ t, x.path = base ++ '/' :: t

/-- all paths held by a walk state lie below `base` -/
def Walk.Below (s : Walk) (base : Str) : Prop :=
  (∀ c ∈ s.inner, VPath.Below base c) ∧ (∀ c ∈ s.todo, VPath.Below base c)

/-- what a walk step below `base` returns -/
def WalkRetB (base : Str) (r : Option (Res VPath) × Walk) : Prop :=
  (∀ x, r.1 = some (.ok x) → Below base x) ∧ r.2.Below base

theorem Below.length {base : Str} {x : VPath} (h : Below base x) :
    base.length + 1 ≤ x.path.length := by
  obtain ⟨t, ht⟩ := h
  rw [ht]; simp

/-- the children listed by `read_dir` are `p.path ++ "/" ++ name` -/
theorem readDir_children (p : VPath) :
    Returns p.readDir (fun l => ∀ c ∈ l, ∃ n, c.path = p.path ++ '/' :: n) := by
  unfold readDir
  apply Returns.bind
  intro names
  apply Returns.pure
  intro c hc
  simp only [List.mem_map] at hc
  obtain ⟨n, _, rfl⟩ := hc
  exact ⟨n, rfl⟩

theorem readDir_below_self (p : VPath) : Returns p.readDir (fun l => ∀ c ∈ l, Below p.path c) :=
  (readDir_children p).mono (fun _ h c hc => h c hc)

theorem readDir_below (base : Str) (d : VPath) (hd : Below base d) :
    Returns d.readDir (fun l => ∀ c ∈ l, Below base c) := by
  apply (readDir_children d).mono
  intro l h c hc
  obtain ⟨n, hn⟩ := h c hc
  obtain ⟨t, ht⟩ := hd
  exact ⟨t ++ '/' :: n, by rw [hn, ht]; simp⟩

theorem walkDir_below (p : VPath) : Returns p.walkDir (fun s => s.Below p.path) := by
  unfold walkDir
  apply Returns.bindQ (readDir_below_self p)
  intro l hl
  apply Returns.pure
  exact ⟨hl, fun c hc => (by cases hc)⟩

theorem walkFind_below (base : Str) (inner todo : List VPath) (hi : ∀ c ∈ inner, Below base c)
    (ht : ∀ c ∈ todo, Below base c) : Returns (walkFind inner todo) (WalkRetB base) := by
  induction todo generalizing inner with
  | nil =>
    cases inner with
    | nil =>
      unfold walkFind
      exact Returns.pure _ ⟨fun x h => (by cases h), fun c hc => (by cases hc), fun c hc => (by cases hc)⟩
    | cons x inner =>
      unfold walkFind
      refine Returns.pure _ ⟨fun y h => ?_, fun c hc => hi c (by simp [hc]), ht⟩
      injection h with h; injection h with h; subst h; exact hi _ (by simp)
  | cons d todo ih =>
    cases inner with
    | cons x inner =>
      unfold walkFind
      refine Returns.pure _ ⟨fun y h => ?_, fun c hc => hi c (by simp [hc]), ht⟩
      injection h with h; injection h with h; subst h; exact hi _ (by simp)
    | nil =>
      refine ⟨fun w a he => ?_⟩
      unfold walkFind at he
      have h2 := (readDir_below base d (ht d (by simp))).post w
      have ht' : ∀ c ∈ todo, Below base c := fun c hc => ht c (by simp [hc])
      cases hres : d.readDir w with
      | mk r w' =>
        rw [hres] at he h2
        cases r with
        | ok l =>
          have hl := h2 l rfl
          cases l with
          | nil => exact (ih [] (fun c hc => by cases hc) ht').post w' a he
          | cons x inner =>
            dsimp only at he
            injection he with he; subst he
            refine ⟨fun y h => ?_, fun c hc => hl c (by simp [hc]), ht'⟩
            injection h with h; injection h with h; subst h
            exact hl _ (by simp)
        | err k pth =>
          dsimp only at he
          injection he with he; subst he
          exact ⟨fun y h => (by injection h with h; cases h), fun c hc => (by cases hc), ht'⟩
        | panic => cases he

/-- **the invariant of the walk**: `next` keeps every held path below `base`, and the item it
yields lies below `base` -/
theorem walkNext_below (base : Str) (s : Walk) (hs : s.Below base) :
    Returns (walkNext s) (WalkRetB base) := by
  unfold walkNext
  apply Returns.bindQ (walkFind_below base s.inner s.todo hs.1 hs.2)
  intro x hx
  obtain ⟨item, s'⟩ := x
  obtain ⟨hx1, hx2⟩ := hx
  cases item with
  | none => exact Returns.pure _ ⟨fun y h => (by cases h), hx2⟩
  | some r =>
    cases r with
    | ok x =>
      have hxb : Below base x := hx1 x rfl
      refine ⟨fun w a he => ?_⟩
      dsimp only at he
      cases hres : x.metadata w with
      | mk r w' =>
        rw [hres] at he
        cases r with
        | ok md =>
          dsimp only at he
          split at he
          · injection he with he; subst he
            refine ⟨fun y h => ?_, hx2.1, fun c hc => ?_⟩
            · injection h with h; injection h with h; subst h; exact hxb
            · simp only [List.mem_cons] at hc
              rcases hc with rfl | hc
              · exact hxb
              · exact hx2.2 c hc
          · injection he with he; subst he
            exact ⟨fun y h => (by injection h with h; injection h with h; subst h; exact hxb), hx2⟩
        | err k pth =>
          dsimp only at he
          injection he with he; subst he
          exact ⟨fun y h => (by injection h with h; cases h), hx2⟩
        | panic => cases he
    | err k pth => exact Returns.pure _ ⟨fun y h => (by injection h with h; cases h), hx2⟩
    | panic => exact Returns.pure _ ⟨fun y h => (by injection h with h; cases h), hx2⟩

/-- **the slice of `relJoin` is in range** for every path below the source: the outcome is the
outcome of `join` (a path, or `InvalidPath`), never the out-of-range panic -/
theorem relJoin_eq_join (dst : VPath) (base : Str) (x : VPath) (hx : Below base x) :
    relJoin dst base.length x = dst.join (x.path.drop (base.length + 1)) := by
  have := hx.length
  unfold relJoin
  rw [if_neg (by omega)]

theorem relJoin_ne_panic (dst : VPath) (base : Str) (x : VPath) (hx : Below base x) :
    relJoin dst base.length x ≠ .panic := by
  rw [relJoin_eq_join dst base x hx]
  exact join_ne_panic _ _

/-- the relative part handed to `join` is exactly what follows `base ++ "/"` -/
theorem relJoin_arg (base t : Str) : (base ++ '/' :: t).drop (base.length + 1) = t := by
  rw [show base ++ '/' :: t = (base ++ ['/']) ++ t by simp]
  rw [List.drop_append_of_le_length (by simp)]
  simp

/-- conversely the site is a real one: on a path that is *not* longer than the prefix the
model panics (this is why the invariant is needed) -/
theorem relJoin_panics (dst : VPath) (n : Nat) (x : VPath) (h : x.path.length < n + 1) :
    relJoin dst n x = .panic := by
  unfold relJoin; rw [if_pos h]

end VPath
end Vfs
