/-
  Faithfulness calculus for C20 ("underlying failures are never reported as success").

  The fault plan of the world (`fault`, `fired`, see `faultGate`) fires at most once. An
  operation `m` is *faithful* when a fault that fires while `m` runs is not turned into `ok`:

    `Faithful m   := ∀ w, w.fired = false → (m w).2.fired = true → (m w).1.isOk = false`

  The compositional form is stronger: the outcome is *the injected error itself* (kind `.io`),
  so it is neither `ok`, nor a panic, nor an error of a kind that some caller swallows
  (`DirectoryExists` in create_dir_all, `NotSupported` in the fast paths of copy_file / move_file /
  move_dir, `FileNotFound` in OverlayFS::exists):

    `FaithfulIO m := ∀ w, w.fired = false → (m w).2.fired = true → (m w).1.isIo = true`

  `FaithfulIO` is closed under `bind` without any extra invariant: if `m` returns `ok a` then the
  fault has not fired yet when `f a` starts (otherwise `m` would have failed), so the hypothesis
  `w.fired = false` is available again for `f a`.

  Contents: the calculus (pure/ret/fail/bind/withPath/ite, handlers `handle_bind`, iterator items
  `item_bind`), `FS.Faithful`, leaves and `faultFS`, every operation of the `VfsPath` layer,
  AltrootFS and OverlayFS.
-/
import VfsModel.Proofs.PreservesOps
import VfsModel.Proofs.LeafFrame
namespace Vfs

/-! ### definitions -/

/-- C20 for one operation: if the planned fault fires while `m` runs, `m` does not return `ok` -/
def Faithful {α} (m : M α) : Prop :=
  ∀ w, w.fired = false → (m w).2.fired = true → (m w).1.isOk = false

/-- the outcome is an I/O error (the kind injected by `faultGate`) -/
def Res.isIo {α} : Res α → Bool
  | .err .io _ => true
  | _ => false

/-- outcome of an attempted call (`M.attempt`, or a constant): an I/O error, either as the value
handed to the handler or as the failure of the attempt itself -/
def Res.isIoAtt {α} : Res (Res α) → Bool
  | .ok r => r.isIo
  | .err .io _ => true
  | _ => false

/-- outcome of an iterator step: an I/O error, either as the yielded item or as the failure of
the step itself -/
def Res.isIoItem {β σ} : Res (Option (Res β) × σ) → Bool
  | .ok (some r, _) => r.isIo
  | .err .io _ => true
  | _ => false

theorem Res.isIo_not_ok {α} (r : Res α) (h : r.isIo = true) : r.isOk = false := by
  cases r <;> simp [Res.isIo, Res.isOk] at h ⊢

theorem Res.isIo_not_panic {α} (r : Res α) (h : r.isIo = true) : r.isPanic = false := by
  cases r <;> simp [Res.isIo, Res.isPanic] at h ⊢

theorem Res.isIo_kind {α} (r : Res α) (h : r.isIo = true) : r.kind? = some .io := by
  cases r with
  | err k p => cases k <;> simp [Res.isIo, Res.kind?] at h ⊢
  | _ => simp [Res.isIo] at h

theorem Res.isIo_iff {α} (r : Res α) : r.isIo = true ↔ ∃ p, r = .err .io p := by
  constructor
  · intro h
    cases r with
    | err k p => cases k <;> simp [Res.isIo] at h ⊢
    | _ => simp [Res.isIo] at h
  · rintro ⟨p, rfl⟩; rfl

theorem Res.isIo_withPath {α} (p : Str) (r : Res α) : (r.withPath p).isIo = r.isIo := by
  cases r with
  | err k q => cases k <;> rfl
  | _ => rfl

/-- strong, compositional faithfulness: a fault that fires during `m` comes out of `m` as the
injected I/O error -/
structure FaithfulIO {α} (m : M α) : Prop where
  io : ∀ w, w.fired = false → (m w).2.fired = true → (m w).1.isIo = true

/-- faithfulness of an attempted call whose outcome is inspected by a handler -/
structure FaithfulAtt {α} (m : M (Res α)) : Prop where
  io : ∀ w, w.fired = false → (m w).2.fired = true → (m w).1.isIoAtt = true

/-- faithfulness of an iterator step: if the fault fires during the step, the step yields
`some (err io ..)` or fails itself with the I/O error -/
structure FaithfulItem {β σ} (m : M (Option (Res β) × σ)) : Prop where
  io : ∀ w, w.fired = false → (m w).2.fired = true → (m w).1.isIoItem = true

theorem FaithfulIO.faithful {α} {m : M α} (h : FaithfulIO m) : Faithful m :=
  fun w hw hf => Res.isIo_not_ok _ (h.io w hw hf)

/-- a fired fault is not turned into a panic either -/
theorem FaithfulIO.no_panic {α} {m : M α} (h : FaithfulIO m) (w : World) (hw : w.fired = false)
    (hf : (m w).2.fired = true) : (m w).1.isPanic = false :=
  Res.isIo_not_panic _ (h.io w hw hf)

/-- `ok` means the plan has not fired -/
theorem Faithful.ok_not_fired {α} {m : M α} (h : Faithful m) (w : World) (hw : w.fired = false)
    (hok : (m w).1.isOk = true) : (m w).2.fired = false := by
  cases hf : (m w).2.fired with
  | false => rfl
  | true => have := h w hw hf; rw [this] at hok; cases hok

/-! ### unfolding `bind` -/

theorem M.bind_ok {α β} {m : M α} {f : α → M β} {w w' : World} {a : α} (h : m w = (.ok a, w')) :
    M.bind m f w = f a w' := by
  unfold M.bind; rw [h]

theorem M.bind_err {α β} {m : M α} {f : α → M β} {w w' : World} {k : ErrKind} {p : Option Str}
    (h : m w = (.err k p, w')) : M.bind m f w = (.err k p, w') := by
  unfold M.bind; rw [h]

theorem M.bind_panic {α β} {m : M α} {f : α → M β} {w w' : World} (h : m w = (.panic, w')) :
    M.bind m f w = (.panic, w') := by
  unfold M.bind; rw [h]

/-! ### the calculus -/
namespace FaithfulIO

/-- an operation that cannot make the plan fire -/
theorem of_preserves {α} {m : M α} (h : Preserves (fun w => w.fired = false) m) : FaithfulIO m := by
  refine ⟨fun w hw hf => ?_⟩
  have : (m w).2.fired = false := h.pres w hw
  rw [this] at hf; cases hf

theorem pure {α} (a : α) : FaithfulIO (Pure.pure a : M α) := of_preserves (Preserves.pure a)
theorem mpure {α} (a : α) : FaithfulIO (M.pure a) := of_preserves (Preserves.mpure a)
theorem ret {α} (r : Res α) : FaithfulIO (M.ret r) := of_preserves (Preserves.ret r)
theorem failK {α} (k : ErrKind) : FaithfulIO (M.failK k : M α) := of_preserves (Preserves.failK k)
theorem failAt {α} (k : ErrKind) (p : Str) : FaithfulIO (M.failAt k p : M α) :=
  of_preserves (Preserves.failAt k p)

/-- `bind`: if the fault fires in `m`, `m` fails with it and so does the bind; otherwise `m`
ends with the plan still pending and the fault fires in `f a`, which fails with it -/
theorem bindQ {α β} {m : M α} {f : α → M β} (Q : α → Prop) (hm : FaithfulIO m) (hq : Returns m Q)
    (hf : ∀ a, Q a → FaithfulIO (f a)) : FaithfulIO (m >>= f) := by
  refine ⟨fun w hw => ?_⟩
  show ((M.bind m f) w).2.fired = true → ((M.bind m f) w).1.isIo = true
  have h1 := hm.io w hw
  have h2 := hq.post w
  cases hres : m w with
  | mk r w' =>
    rw [hres] at h1 h2
    cases r with
    | ok a =>
      rw [M.bind_ok hres]
      intro hfin
      cases hfw : w'.fired with
      | false => exact (hf a (h2 a rfl)).io w' hfw hfin
      | true => have := h1 hfw; simp [Res.isIo] at this
    | err k p =>
      rw [M.bind_err hres]
      intro hfin
      have := h1 hfin
      cases k <;> simp [Res.isIo] at this ⊢
    | panic =>
      rw [M.bind_panic hres]
      intro hfin
      have := h1 hfin
      simp [Res.isIo] at this

theorem bind {α β} {m : M α} {f : α → M β} (hm : FaithfulIO m) (hf : ∀ a, FaithfulIO (f a)) :
    FaithfulIO (m >>= f) :=
  bindQ (fun _ => True) hm (Returns.trivial m) (fun a _ => hf a)

theorem mbind {α β} {m : M α} {f : α → M β} (hm : FaithfulIO m) (hf : ∀ a, FaithfulIO (f a)) :
    FaithfulIO (M.bind m f) := bind hm hf

theorem seq_unit {β} {m : M Unit} {f : M β} (hm : FaithfulIO m) (hf : FaithfulIO f) :
    FaithfulIO (do m; f) := bind hm (fun _ => hf)

theorem withPath {α} (p : Str) {m : M α} (hm : FaithfulIO m) : FaithfulIO (M.withPath p m) := by
  refine ⟨fun w hw hf => ?_⟩
  have : (M.withPath p m w) = ((m w).1.withPath p, (m w).2) := rfl
  rw [this] at hf ⊢
  show ((m w).1.withPath p).isIo = true
  rw [Res.isIo_withPath]
  exact hm.io w hw hf

theorem ite {α} {c : Prop} [Decidable c] {a b : M α} (ha : FaithfulIO a) (hb : FaithfulIO b) :
    FaithfulIO (if c then a else b) := by
  split <;> assumption

/-- handler rule (`match result { … }`): the handler `k` receives the outcome of an attempted
call; it may swallow errors, but it hands an I/O error on (`hio`) -/
theorem handle_bind {α β} {m : M (Res α)} {k : Res α → M β} (hm : FaithfulAtt m)
    (hk : ∀ r, FaithfulIO (k r)) (hio : ∀ r w, r.isIo = true → (k r w).1.isIo = true) :
    FaithfulIO (m >>= k) := by
  refine ⟨fun w hw => ?_⟩
  show ((M.bind m k) w).2.fired = true → ((M.bind m k) w).1.isIo = true
  have h1 := hm.io w hw
  cases hres : m w with
  | mk r w' =>
    rw [hres] at h1
    cases r with
    | ok a =>
      rw [M.bind_ok hres]
      intro hfin
      cases hfw : w'.fired with
      | false => exact (hk a).io w' hfw hfin
      | true => exact hio a w' (h1 hfw)
    | err k p =>
      rw [M.bind_err hres]
      intro hfin
      have := h1 hfin
      cases k <;> simp [Res.isIoAtt, Res.isIo] at this ⊢
    | panic =>
      rw [M.bind_panic hres]
      intro hfin
      have := h1 hfin
      simp [Res.isIoAtt] at this

/-- consumer of an iterator step (`for item in walk { item?; … }`): an I/O error item is handed
on (`hio`) -/
theorem item_bind {β σ γ} {m : M (Option (Res β) × σ)} {k : Option (Res β) × σ → M γ}
    (Q : Option (Res β) × σ → Prop) (hm : FaithfulItem m) (hq : Returns m Q)
    (hk : ∀ x, Q x → FaithfulIO (k x))
    (hio : ∀ r s w, r.isIo = true → (k (some r, s) w).1.isIo = true) :
    FaithfulIO (m >>= k) := by
  refine ⟨fun w hw => ?_⟩
  show ((M.bind m k) w).2.fired = true → ((M.bind m k) w).1.isIo = true
  have h1 := hm.io w hw
  have h2 := hq.post w
  cases hres : m w with
  | mk r w' =>
    rw [hres] at h1 h2
    cases r with
    | ok a =>
      rw [M.bind_ok hres]
      intro hfin
      cases hfw : w'.fired with
      | false => exact (hk a (h2 a rfl)).io w' hfw hfin
      | true =>
        have := h1 hfw
        obtain ⟨item, s⟩ := a
        cases item with
        | none => simp [Res.isIoItem] at this
        | some r => exact hio r s w' this
    | err k p =>
      rw [M.bind_err hres]
      intro hfin
      have := h1 hfin
      cases k <;> simp [Res.isIoItem, Res.isIo] at this ⊢
    | panic =>
      rw [M.bind_panic hres]
      intro hfin
      have := h1 hfin
      simp [Res.isIoItem] at this

end FaithfulIO

namespace FaithfulAtt

theorem attempt {α} {m : M α} (hm : FaithfulIO m) : FaithfulAtt (M.attempt m) := by
  refine ⟨fun w hw hf => ?_⟩
  have : M.attempt m w = (.ok (m w).1, (m w).2) := rfl
  rw [this] at hf ⊢
  exact hm.io w hw hf

theorem pure {α} (r : Res α) : FaithfulAtt (Pure.pure r : M (Res α)) :=
  ⟨fun w hw hf => by have : w.fired = true := hf; rw [hw] at this; cases this⟩

theorem ite {α} {c : Prop} [Decidable c] {a b : M (Res α)} (ha : FaithfulAtt a) (hb : FaithfulAtt b) :
    FaithfulAtt (if c then a else b) := by
  split <;> assumption

end FaithfulAtt

/-- the weak notion is closed under `bind` as well (no error kinds involved) -/
theorem Faithful.bind {α β} {m : M α} {f : α → M β} (hm : Faithful m) (hf : ∀ a, Faithful (f a)) :
    Faithful (m >>= f) := by
  intro w hw
  show ((M.bind m f) w).2.fired = true → ((M.bind m f) w).1.isOk = false
  have h1 := hm w hw
  cases hres : m w with
  | mk r w' =>
    rw [hres] at h1
    cases r with
    | ok a =>
      rw [M.bind_ok hres]
      intro hfin
      cases hfw : w'.fired with
      | false => exact hf a w' hfw hfin
      | true => have := h1 hfw; simp [Res.isOk] at this
    | err k p => rw [M.bind_err hres]; intro _; rfl
    | panic => rw [M.bind_panic hres]; intro _; rfl

theorem Faithful.pure {α} (a : α) : Faithful (Pure.pure a : M α) :=
  (FaithfulIO.pure a).faithful

/-! ### filesystems -/

/-- every method of the filesystem hands a fired fault on as the injected I/O error -/
structure FS.Faithful (fs : FS) : Prop where
  readDir : ∀ p, FaithfulIO (fs.readDir p)
  createDir : ∀ p, FaithfulIO (fs.createDir p)
  openFile : ∀ p, FaithfulIO (fs.openFile p)
  createFile : ∀ p, FaithfulIO (fs.createFile p)
  appendFile : ∀ p, FaithfulIO (fs.appendFile p)
  metadata : ∀ p, FaithfulIO (fs.metadata p)
  setCreationTime : ∀ p t, FaithfulIO (fs.setCreationTime p t)
  setModificationTime : ∀ p t, FaithfulIO (fs.setModificationTime p t)
  setAccessTime : ∀ p t, FaithfulIO (fs.setAccessTime p t)
  exists_ : ∀ p, FaithfulIO (fs.exists_ p)
  removeFile : ∀ p, FaithfulIO (fs.removeFile p)
  removeDir : ∀ p, FaithfulIO (fs.removeDir p)
  copyFile : ∀ s d, FaithfulIO (fs.copyFile s d)
  moveFile : ∀ s d, FaithfulIO (fs.moveFile s d)
  moveDir : ∀ s d, FaithfulIO (fs.moveDir s d)

/-- a filesystem none of whose methods (and handles) can make the plan fire is faithful -/
theorem FS.Faithful.of_preserves {fs : FS} (h : fs.AllPreserve (fun w => w.fired = false)) :
    fs.Faithful where
  readDir p := .of_preserves (h.readDir p)
  createDir p := .of_preserves (h.createDir p)
  openFile p := .of_preserves (h.openFile p)
  createFile p := .of_preserves (h.createFile p)
  appendFile p := .of_preserves (h.appendFile p)
  metadata p := .of_preserves (h.metadata p)
  setCreationTime p t := .of_preserves (h.setCreationTime p t)
  setModificationTime p t := .of_preserves (h.setModificationTime p t)
  setAccessTime p t := .of_preserves (h.setAccessTime p t)
  exists_ p := .of_preserves (h.exists_ p)
  removeFile p := .of_preserves (h.removeFile p)
  removeDir p := .of_preserves (h.removeDir p)
  copyFile s d := .of_preserves (h.copyFile s d)
  moveFile s d := .of_preserves (h.moveFile s d)
  moveDir s d := .of_preserves (h.moveDir s d)

/-- the placeholder filesystem (every method `NotSupported`) -/
theorem FS.Faithful.default : (default : FS).Faithful where
  readDir _ := .failK _
  createDir _ := .failK _
  openFile _ := .failK _
  createFile _ := .failK _
  appendFile _ := .failK _
  metadata _ := .failK _
  setCreationTime _ _ := .failK _
  setModificationTime _ _ := .failK _
  setAccessTime _ _ := .failK _
  exists_ _ := .failK _
  removeFile _ := .failK _
  removeDir _ := .failK _
  copyFile _ _ := .failK _
  moveFile _ _ := .failK _
  moveDir _ _ := .failK _

/-! ### leaves and handles never touch the plan -/

/-- the ghost fault plan is untouched by writes to a leaf -/
theorem plan_ignoresLeaf (b : Bool) (f : Option Nat) (i : Nat) :
    IgnoresLeaf (fun w => w.fired = b ∧ w.fault = f) i :=
  fun _ _ h => h

/-- **a leaf filesystem never touches `fired` / `fault`** (nor do the handles it returns) -/
theorem leafFS_keeps_plan (i : Nat) (b : Bool) (f : Option Nat) :
    (leafFS i).AllPreserve (fun w => w.fired = b ∧ w.fault = f) :=
  leafFS_all_preserve i (plan_ignoresLeaf b f i)

theorem leafFS_faithful (i : Nat) : (leafFS i).Faithful :=
  .of_preserves (leafFS_all_preserve i (fun _ _ h => h))

/-- **write handles act directly on a leaf: `write` / `flush` / `drop` never touch the plan** -/
theorem WHandle.keeps_plan (h : WHandle) (b : Bool) (f : Option Nat) :
    HandleOK (fun w => w.fired = b ∧ w.fault = f) h :=
  handle_ok_of_leaf h.leaf (plan_ignoresLeaf b f h.leaf) h rfl

theorem WHandle.keeps_unfired (h : WHandle) : HandleOK (fun w => w.fired = false) h :=
  handle_ok_of_leaf h.leaf (fun _ _ hw => hw) h rfl

theorem WHandle.write_fired (h : WHandle) (bs : Bytes) (w : World) :
    (h.write bs w).2.fired = w.fired ∧ (h.write bs w).2.fault = w.fault :=
  ((h.keeps_plan w.fired w.fault).write bs).pres w ⟨rfl, rfl⟩

theorem WHandle.flush_fired (h : WHandle) (w : World) :
    (h.flush w).2.fired = w.fired ∧ (h.flush w).2.fault = w.fault :=
  ((h.keeps_plan w.fired w.fault).flush).pres w ⟨rfl, rfl⟩

theorem WHandle.drop_fired (h : WHandle) (w : World) :
    (h.drop w).2.fired = w.fired ∧ (h.drop w).2.fault = w.fault := h.flush_fired w

theorem WHandle.faith_write (h : WHandle) (bs : Bytes) : FaithfulIO (h.write bs) :=
  .of_preserves (h.keeps_unfired.write bs)
theorem WHandle.faith_flush (h : WHandle) : FaithfulIO h.flush :=
  .of_preserves h.keeps_unfired.flush
theorem WHandle.faith_drop (h : WHandle) : FaithfulIO h.drop :=
  .of_preserves h.keeps_unfired.drop
theorem WHandle.faith_writeAllAndDrop (h : WHandle) (bs : Bytes) : FaithfulIO (h.writeAllAndDrop bs) :=
  .of_preserves (h.keeps_unfired.writeAllAndDrop bs)

/-- dropping a write handle cannot fail -/
theorem WHandle.drop_ok (h : WHandle) (w : World) : (h.drop w).1 = .ok () := by
  unfold WHandle.drop WHandle.flush
  cases h.kind <;> dsimp only
  split <;> rfl

/-! ### the fault wrapper -/

/-- **the gate**: when the countdown is at zero the call fails with the injected error and the
inner call is not made; otherwise the inner call runs with the plan still pending -/
theorem faultGate_faithfulIO {α} {m : M α} (hm : FaithfulIO m) : FaithfulIO (faultGate m) := by
  refine ⟨fun w hw => ?_⟩
  unfold faultGate
  split
  · intro _; rfl
  · exact hm.io _ hw
  · exact hm.io w hw

theorem faultFS_faithful {inner : FS} (h : inner.Faithful) : (faultFS inner).Faithful where
  readDir p := faultGate_faithfulIO (h.readDir p)
  createDir p := faultGate_faithfulIO (h.createDir p)
  openFile p := faultGate_faithfulIO (h.openFile p)
  createFile p := faultGate_faithfulIO (h.createFile p)
  appendFile p := faultGate_faithfulIO (h.appendFile p)
  metadata p := faultGate_faithfulIO (h.metadata p)
  setCreationTime p t := faultGate_faithfulIO (h.setCreationTime p t)
  setModificationTime p t := faultGate_faithfulIO (h.setModificationTime p t)
  setAccessTime p t := faultGate_faithfulIO (h.setAccessTime p t)
  exists_ p := faultGate_faithfulIO (h.exists_ p)
  removeFile p := faultGate_faithfulIO (h.removeFile p)
  removeDir p := faultGate_faithfulIO (h.removeDir p)
  copyFile s d := faultGate_faithfulIO (h.copyFile s d)
  moveFile s d := faultGate_faithfulIO (h.moveFile s d)
  moveDir s d := faultGate_faithfulIO (h.moveDir s d)

/-- the recording wrapper only appends to the ghost log -/
theorem logCall_faithful (tag : Nat) (m : Method) (p p2 : Str) : FaithfulIO (logCall tag m p p2) :=
  .of_preserves ⟨fun _ h => h⟩

theorem recordFS_faithful {inner : FS} (tag : Nat) (h : inner.Faithful) : (recordFS tag inner).Faithful where
  readDir p := .bind (logCall_faithful ..) (fun _ => h.readDir p)
  createDir p := .bind (logCall_faithful ..) (fun _ => h.createDir p)
  openFile p := .bind (logCall_faithful ..) (fun _ => h.openFile p)
  createFile p := .bind (logCall_faithful ..) (fun _ => h.createFile p)
  appendFile p := .bind (logCall_faithful ..) (fun _ => h.appendFile p)
  metadata p := .bind (logCall_faithful ..) (fun _ => h.metadata p)
  setCreationTime p t := .bind (logCall_faithful ..) (fun _ => h.setCreationTime p t)
  setModificationTime p t := .bind (logCall_faithful ..) (fun _ => h.setModificationTime p t)
  setAccessTime p t := .bind (logCall_faithful ..) (fun _ => h.setAccessTime p t)
  exists_ p := .bind (logCall_faithful ..) (fun _ => h.exists_ p)
  removeFile p := .bind (logCall_faithful ..) (fun _ => h.removeFile p)
  removeDir p := .bind (logCall_faithful ..) (fun _ => h.removeDir p)
  copyFile s d := .bind (logCall_faithful ..) (fun _ => h.copyFile s d)
  moveFile s d := .bind (logCall_faithful ..) (fun _ => h.moveFile s d)
  moveDir s d := .bind (logCall_faithful ..) (fun _ => h.moveDir s d)

/-! ### the `VfsPath` layer -/

macro "faith_step" : tactic => `(tactic| first
  | with_reducible exact FaithfulIO.pure _ | with_reducible exact FaithfulIO.mpure _
  | with_reducible exact FaithfulIO.ret _
  | with_reducible exact FaithfulIO.failK _ | with_reducible exact FaithfulIO.failAt _ _
  | with_reducible apply FaithfulIO.bind
  | with_reducible apply FaithfulIO.withPath
  | dsimp only
  | intro _ | split
  | (apply_assumption; done))
/-- discharge `FaithfulIO m` goals by structural decomposition of `m` -/
macro "faith" : tactic => `(tactic| (repeat (any_goals faith_step)))

namespace VPath

theorem faith_exists (p : VPath) (h : p.fs.Faithful) : FaithfulIO p.exists_ := h.exists_ _
theorem faith_metadata (p : VPath) (h : p.fs.Faithful) : FaithfulIO p.metadata :=
  .withPath _ (h.metadata _)
theorem faith_openFile (p : VPath) (h : p.fs.Faithful) : FaithfulIO p.openFile :=
  .withPath _ (h.openFile _)
theorem faith_appendFile (p : VPath) (h : p.fs.Faithful) : FaithfulIO p.appendFile :=
  .withPath _ (h.appendFile _)
theorem faith_removeFile (p : VPath) (h : p.fs.Faithful) : FaithfulIO p.removeFile :=
  .withPath _ (h.removeFile _)
theorem faith_removeDir (p : VPath) (h : p.fs.Faithful) : FaithfulIO p.removeDir :=
  .withPath _ (h.removeDir _)
theorem faith_setCreationTime (p : VPath) (t : Int) (h : p.fs.Faithful) :
    FaithfulIO (p.setCreationTime t) := .withPath _ (h.setCreationTime _ _)
theorem faith_setModificationTime (p : VPath) (t : Int) (h : p.fs.Faithful) :
    FaithfulIO (p.setModificationTime t) := .withPath _ (h.setModificationTime _ _)
theorem faith_setAccessTime (p : VPath) (t : Int) (h : p.fs.Faithful) :
    FaithfulIO (p.setAccessTime t) := .withPath _ (h.setAccessTime _ _)

theorem faith_readDir (p : VPath) (h : p.fs.Faithful) : FaithfulIO p.readDir := by
  have h1 := h.readDir
  unfold readDir
  faith

theorem faith_isFile (p : VPath) (h : p.fs.Faithful) : FaithfulIO p.isFile := by
  have h1 := h.exists_; have h2 := h.metadata
  unfold isFile exists_ metadata
  faith

theorem faith_isDir (p : VPath) (h : p.fs.Faithful) : FaithfulIO p.isDir := by
  have h1 := h.exists_; have h2 := h.metadata
  unfold isDir exists_ metadata
  faith

theorem faith_getParent (p : VPath) (h : p.fs.Faithful) : FaithfulIO p.getParent := by
  have h1 := h.exists_; have h2 := h.metadata
  unfold getParent exists_ metadata parent withStr
  faith

theorem faith_createDir (p : VPath) (h : p.fs.Faithful) : FaithfulIO p.createDir := by
  have h1 := faith_getParent p h; have h2 := h.createDir
  unfold createDir
  faith

theorem faith_createFile (p : VPath) (h : p.fs.Faithful) : FaithfulIO p.createFile := by
  have h1 := faith_getParent p h; have h2 := h.createFile
  unfold createFile
  faith

/-- `create_dir_all` swallows `DirectoryExists` only; the injected error has kind `.io` -/
theorem faith_createDirAllLoop (p : VPath) (h : p.fs.Faithful) (l : List Str) :
    FaithfulIO (createDirAllLoop p l) := by
  induction l with
  | nil => exact FaithfulIO.pure _
  | cons d rest ih =>
    refine ⟨fun w hw => ?_⟩
    unfold createDirAllLoop
    have h1 := (h.createDir d).io w hw
    cases hres : p.fs.createDir d w with
    | mk r w' =>
      rw [hres] at h1
      cases hfw : w'.fired with
      | false =>
        cases r with
        | ok a => exact ih.io w' hfw
        | err k pth =>
          cases k <;> dsimp only
          case dirExists => exact ih.io w' hfw
          all_goals (intro hfin; rw [hfw] at hfin; cases hfin)
        | panic => dsimp only; intro hfin; rw [hfw] at hfin; cases hfin
      | true =>
        have h2 := h1 hfw
        obtain ⟨pth, rfl⟩ := (Res.isIo_iff r).1 h2
        intro _; rfl

theorem faith_createDirAll (p : VPath) (h : p.fs.Faithful) : FaithfulIO p.createDirAll := by
  unfold createDirAll
  split
  · exact FaithfulIO.pure _
  · exact faith_createDirAllLoop p h _

mutual
theorem faith_removeDirAll (fuel : Nat) (p : VPath) (h : p.fs.Faithful) :
    FaithfulIO (removeDirAll fuel p) := by
  cases fuel with
  | zero => unfold removeDirAll; exact FaithfulIO.ret _
  | succ fuel =>
    unfold removeDirAll
    apply FaithfulIO.bind (faith_exists p h)
    intro b
    split
    · exact FaithfulIO.pure _
    · apply FaithfulIO.bindQ _ (faith_readDir p h) (readDir_fs p)
      intro children hc
      apply FaithfulIO.bind
      · exact faith_removeChildren fuel children (fun c hm => by rw [(hc c hm).1]; exact h)
      · intro _; exact faith_removeDir p h
theorem faith_removeChildren (fuel : Nat) (l : List VPath) (h : ∀ c ∈ l, c.fs.Faithful) :
    FaithfulIO (removeChildren fuel l) := by
  cases l with
  | nil => unfold removeChildren; exact FaithfulIO.pure _
  | cons c rest =>
    unfold removeChildren
    have hc := h c (by simp)
    apply FaithfulIO.bind (faith_metadata c hc)
    intro md
    dsimp only
    split
    · apply FaithfulIO.bind (faith_removeFile c hc)
      intro _
      exact faith_removeChildren fuel rest (fun x hx => h x (by simp [hx]))
    · apply FaithfulIO.bind (faith_removeDirAll fuel c hc)
      intro _
      exact faith_removeChildren fuel rest (fun x hx => h x (by simp [hx]))
end

theorem faith_readToEndChecked (p : VPath) (h : p.fs.Faithful) : FaithfulIO p.readToEndChecked := by
  have h1 := faith_metadata p h; have h2 := faith_openFile p h
  unfold readToEndChecked
  faith

/-! #### transfers -/

theorem faith_ioCopyAndDrop (r : RHandle) (h : WHandle) (sp : Str) :
    FaithfulIO (ioCopyAndDrop r h sp) := by
  unfold ioCopyAndDrop
  apply FaithfulIO.bind (.withPath _ (.ret _))
  intro bytes
  apply FaithfulIO.bind (h.faith_write bytes)
  intro x
  exact x.2.faith_drop

/-- `copy_file`: the fast path's error is swallowed only when its kind is `NotSupported` -/
theorem faith_copyFile (src dst : VPath) (hs : src.fs.Faithful) (hd : dst.fs.Faithful) :
    FaithfulIO (src.copyFile dst) := by
  unfold copyFile
  apply FaithfulIO.withPath
  apply FaithfulIO.bind (faith_exists dst hd)
  intro b
  split
  · exact .failAt _ _
  · apply FaithfulIO.handle_bind
    · split
      · exact FaithfulAtt.attempt (hs.copyFile _ _)
      · exact FaithfulAtt.pure _
    · intro fast
      split
      · exact .pure _
      · exact .ret _
      · split
        · exact .ret _
        · apply FaithfulIO.bind (faith_openFile src hs)
          intro r
          apply FaithfulIO.bind (faith_createFile dst hd)
          intro wh
          exact faith_ioCopyAndDrop r wh _
    · intro r w hr
      obtain ⟨p, rfl⟩ := (Res.isIo_iff r).1 hr
      rfl

/-- `move_file`: the removal of the source is attempted, the destination handle is dropped
(which cannot fail), and the outcome of the removal is returned -/
theorem faith_moveFile (src dst : VPath) (hs : src.fs.Faithful) (hd : dst.fs.Faithful) :
    FaithfulIO (src.moveFile dst) := by
  unfold moveFile
  apply FaithfulIO.withPath
  apply FaithfulIO.bind (faith_exists dst hd)
  intro b
  split
  · exact .failAt _ _
  · apply FaithfulIO.handle_bind
    · split
      · exact FaithfulAtt.attempt (hs.moveFile _ _)
      · exact FaithfulAtt.pure _
    · intro fast
      split
      · exact .pure _
      · exact .ret _
      · split
        · exact .ret _
        · apply FaithfulIO.bind (faith_openFile src hs)
          intro r
          apply FaithfulIO.bind (faith_createFile dst hd)
          intro wh
          apply FaithfulIO.bind (.withPath _ (.ret _))
          intro bytes
          apply FaithfulIO.bind (wh.faith_write bytes)
          intro x
          apply FaithfulIO.handle_bind (FaithfulAtt.attempt (faith_removeFile src hs))
          · intro res
            exact FaithfulIO.bind x.2.faith_drop (fun _ => .ret _)
          · intro res w hres
            show (M.bind x.2.drop (fun _ => M.ret res) w).1.isIo = true
            have hd := WHandle.drop_ok x.2 w
            cases hdw : x.2.drop w with
            | mk r' w'' =>
              rw [hdw] at hd
              have hd' : r' = .ok () := hd
              subst hd'
              rw [M.bind_ok hdw]
              exact hres
    · intro r w hr
      obtain ⟨p, rfl⟩ := (Res.isIo_iff r).1 hr
      rfl

/-! #### walk -/

/-- what a walk step over filesystem `fs` returns: an item of `fs`, and a state over `fs` -/
def WalkRet (fs : FS) (r : Option (Res VPath) × Walk) : Prop :=
  (∀ x, r.1 = some (.ok x) → x.fs = fs) ∧ r.2.On fs

theorem walkDir_on (p : VPath) : Returns p.walkDir (fun s => s.On p.fs) := by
  unfold walkDir
  apply Returns.bindQ (readDir_fs p)
  intro l hl
  apply Returns.pure
  exact ⟨fun c hc => (hl c hc).1, fun c hc => (by cases hc)⟩

theorem walkFind_on (fs : FS) (inner todo : List VPath) (hi : ∀ c ∈ inner, c.fs = fs)
    (ht : ∀ c ∈ todo, c.fs = fs) : Returns (walkFind inner todo) (WalkRet fs) := by
  induction todo generalizing inner with
  | nil =>
    cases inner with
    | nil =>
      unfold walkFind
      exact Returns.pure _ ⟨fun x h => (by cases h), fun c hc => (by cases hc), fun c hc => (by cases hc)⟩
    | cons x inner =>
      unfold walkFind
      refine Returns.pure _ ⟨fun y h => ?_, fun c hc => hi c (by simp [hc]), ht⟩
      injection h with h; injection h with h; subst h; exact hi _ (by simp)
  | cons d todo ih =>
    cases inner with
    | cons x inner =>
      unfold walkFind
      refine Returns.pure _ ⟨fun y h => ?_, fun c hc => hi c (by simp [hc]), ht⟩
      injection h with h; injection h with h; subst h; exact hi _ (by simp)
    | nil =>
      refine ⟨fun w a he => ?_⟩
      unfold walkFind at he
      have h2 := (readDir_fs d).post w
      have hdfs : d.fs = fs := ht d (by simp)
      have ht' : ∀ c ∈ todo, c.fs = fs := fun c hc => ht c (by simp [hc])
      cases hres : d.readDir w with
      | mk r w' =>
        rw [hres] at he h2
        cases r with
        | ok l =>
          have hl := h2 l rfl
          cases l with
          | nil => exact (ih [] (fun c hc => by cases hc) ht').post w' a he
          | cons x inner =>
            dsimp only at he
            injection he with he; subst he
            refine ⟨fun y h => ?_, fun c hc => ?_, ht'⟩
            · injection h with h; injection h with h; subst h
              rw [(hl _ (by simp)).1, hdfs]
            · rw [(hl c (by simp [hc])).1, hdfs]
        | err k pth =>
          dsimp only at he
          injection he with he; subst he
          exact ⟨fun y h => (by injection h with h; cases h), fun c hc => (by cases hc), ht'⟩
        | panic => cases he

theorem walkNext_on (fs : FS) (s : Walk) (hs : s.On fs) : Returns (walkNext s) (WalkRet fs) := by
  unfold walkNext
  apply Returns.bindQ (walkFind_on fs s.inner s.todo hs.1 hs.2)
  intro x hx
  obtain ⟨item, s'⟩ := x
  obtain ⟨hx1, hx2⟩ := hx
  cases item with
  | none => exact Returns.pure _ ⟨fun y h => (by cases h), hx2⟩
  | some r =>
    cases r with
    | ok x =>
      have hxfs : x.fs = fs := hx1 x rfl
      refine ⟨fun w a he => ?_⟩
      dsimp only at he
      cases hres : x.metadata w with
      | mk r w' =>
        rw [hres] at he
        cases r with
        | ok md =>
          dsimp only at he
          split at he
          · injection he with he; subst he
            refine ⟨fun y h => ?_, hx2.1, fun c hc => ?_⟩
            · injection h with h; injection h with h; subst h; exact hxfs
            · simp only [List.mem_cons] at hc
              rcases hc with rfl | hc
              · exact hxfs
              · exact hx2.2 c hc
          · injection he with he; subst he
            exact ⟨fun y h => (by injection h with h; injection h with h; subst h; exact hxfs), hx2⟩
        | err k pth =>
          dsimp only at he
          injection he with he; subst he
          exact ⟨fun y h => (by injection h with h; cases h), hx2⟩
        | panic => cases he
    | err k pth => exact Returns.pure _ ⟨fun y h => (by injection h with h; cases h), hx2⟩
    | panic => exact Returns.pure _ ⟨fun y h => (by injection h with h; cases h), hx2⟩

/-- the directory listing inside the iterator: a failure becomes the yielded item -/
theorem faith_walkFind (inner todo : List VPath) (h : ∀ c ∈ todo, c.fs.Faithful) :
    FaithfulItem (walkFind inner todo) := by
  induction todo generalizing inner with
  | nil =>
    cases inner <;>
      (unfold walkFind; exact ⟨fun w hw hf => by have : w.fired = true := hf; rw [hw] at this; cases this⟩)
  | cons d todo ih =>
    cases inner with
    | cons x inner =>
      unfold walkFind
      exact ⟨fun w hw hf => by have : w.fired = true := hf; rw [hw] at this; cases this⟩
    | nil =>
      refine ⟨fun w hw => ?_⟩
      unfold walkFind
      have h1 := (faith_readDir d (h d (by simp))).io w hw
      cases hres : d.readDir w with
      | mk r w' =>
        rw [hres] at h1
        cases hfw : w'.fired with
        | true =>
          have h2 := h1 hfw
          obtain ⟨pth, rfl⟩ := (Res.isIo_iff r).1 h2
          intro _; rfl
        | false =>
          cases r with
          | ok l =>
            cases l with
            | nil => exact (ih [] (fun c hc => h c (by simp [hc]))).io w' hfw
            | cons x inner => dsimp only; intro hfin; rw [hfw] at hfin; cases hfin
          | err k pth => dsimp only; intro hfin; rw [hfw] at hfin; cases hfin
          | panic => dsimp only; intro hfin; rw [hfw] at hfin; cases hfin

/-- **`WalkDirIterator::next`**: if the fault fires during the step (in the `read_dir` of a
pending directory or in the `metadata` of the item), the step yields `some (err io ..)` -/
theorem faith_walkNext (fs : FS) (hfs : fs.Faithful) (s : Walk) (hs : s.On fs) :
    FaithfulItem (walkNext s) := by
  refine ⟨fun w hw => ?_⟩
  unfold walkNext
  show (M.bind _ _ w).2.fired = true → (M.bind _ _ w).1.isIoItem = true
  have h1 := (faith_walkFind s.inner s.todo (fun c hc => by rw [hs.2 c hc]; exact hfs)).io w hw
  have h2 := (walkFind_on fs s.inner s.todo hs.1 hs.2).post w
  cases hres : walkFind s.inner s.todo w with
  | mk r w1 =>
    rw [hres] at h1 h2
    cases r with
    | ok a =>
      rw [M.bind_ok hres]
      obtain ⟨item, s'⟩ := a
      have hret := h2 _ rfl
      cases hfw : w1.fired with
      | true =>
        have h3 := h1 hfw
        cases item with
        | none => simp [Res.isIoItem] at h3
        | some r =>
          have h4 : r.isIo = true := h3
          obtain ⟨pth, rfl⟩ := (Res.isIo_iff r).1 h4
          intro _; rfl
      | false =>
        cases item with
        | none => intro hfin; have : w1.fired = true := hfin; rw [hfw] at this; cases this
        | some r =>
          cases r with
          | ok x =>
            have hx : x.fs.Faithful := by rw [hret.1 x rfl]; exact hfs
            have h5 := (faith_metadata x hx).io w1 hfw
            dsimp only
            cases hmd : x.metadata w1 with
            | mk r2 w2 =>
              rw [hmd] at h5
              cases hfw2 : w2.fired with
              | true =>
                have h6 := h5 hfw2
                obtain ⟨pth, rfl⟩ := (Res.isIo_iff r2).1 h6
                intro _; rfl
              | false =>
                cases r2 with
                | ok md =>
                  dsimp only
                  split <;> (intro hfin; have : w2.fired = true := hfin; rw [hfw2] at this; cases this)
                | err k pth => intro hfin; have : w2.fired = true := hfin; rw [hfw2] at this; cases this
                | panic => intro hfin; have : w2.fired = true := hfin; rw [hfw2] at this; cases this
          | err k pth => intro hfin; have : w1.fired = true := hfin; rw [hfw] at this; cases this
          | panic => intro hfin; have : w1.fired = true := hfin; rw [hfw] at this; cases this
    | err k p =>
      rw [M.bind_err hres]
      intro hfin
      have := h1 hfin
      cases k <;> simp [Res.isIoItem] at this ⊢
    | panic =>
      rw [M.bind_panic hres]
      intro hfin
      have := h1 hfin
      simp [Res.isIoItem] at this

/-- outcome of a collected walk in which the injected error is visible: the collection failed,
or one of the collected items is the I/O error -/
def ReportsIo {β} (r : Res (List (Res β))) : Prop :=
  r.isOk = false ∨ ∃ l, r = .ok l ∧ ∃ x ∈ l, x.isIo = true

/-- the whole iteration: a fault that fires at any step of `walk_dir().collect()` is visible in
the result (as an `Err` item), or the collection itself fails -/
theorem walkAll_reports (fs : FS) (hfs : fs.Faithful) (fuel : Nat) (s : Walk) (hs : s.On fs)
    (w : World) (hw : w.fired = false) (hf : (walkAll fuel s w).2.fired = true) :
    ReportsIo (walkAll fuel s w).1 := by
  induction fuel generalizing s w with
  | zero =>
    unfold walkAll at hf
    have : w.fired = true := hf
    rw [hw] at this; cases this
  | succ fuel ih =>
    unfold walkAll at hf ⊢
    have h1 := (faith_walkNext fs hfs s hs).io w hw
    have h2 := (walkNext_on fs s hs).post w
    revert hf
    show (M.bind _ _ w).2.fired = true → ReportsIo (M.bind _ _ w).1
    cases hres : walkNext s w with
    | mk r w1 =>
      rw [hres] at h1 h2
      cases r with
      | err k p => rw [M.bind_err hres]; intro _; exact Or.inl rfl
      | panic => rw [M.bind_panic hres]; intro _; exact Or.inl rfl
      | ok a =>
        rw [M.bind_ok hres]
        obtain ⟨item, s'⟩ := a
        have hs' : s'.On fs := (h2 _ rfl).2
        cases item with
        | none =>
          intro hfin
          have hfin' : w1.fired = true := hfin
          have h3 := h1 hfin'
          simp [Res.isIoItem] at h3
        | some it =>
          dsimp only
          show (M.bind (walkAll fuel s') _ w1).2.fired = true → ReportsIo (M.bind (walkAll fuel s') _ w1).1
          cases hrest : walkAll fuel s' w1 with
          | mk r2 w2 =>
            cases r2 with
            | err k p => rw [M.bind_err hrest]; intro _; exact Or.inl rfl
            | panic => rw [M.bind_panic hrest]; intro _; exact Or.inl rfl
            | ok rest =>
              rw [M.bind_ok hrest]
              intro hfin
              have hfin' : w2.fired = true := hfin
              cases hfw : w1.fired with
              | true =>
                have h3 : it.isIo = true := h1 hfw
                exact Or.inr ⟨it :: rest, rfl, it, by simp, h3⟩
              | false =>
                have h4 := ih s' hs' w1 hfw (by rw [hrest]; exact hfin')
                rw [hrest] at h4
                rcases h4 with h4 | ⟨l, hl, x, hx, hxio⟩
                · cases h4
                · injection hl with hl; subst hl
                  exact Or.inr ⟨it :: rest, rfl, x, by simp [hx], hxio⟩

theorem faith_walkDir (p : VPath) (h : p.fs.Faithful) : FaithfulIO p.walkDir := by
  have h1 := faith_readDir p h
  unfold walkDir
  faith

/-! #### directory transfers -/

theorem relJoin_fs (dst : VPath) (n : Nat) (x : VPath) :
    Returns (M.ret (relJoin dst n x)) (fun d => d.fs = dst.fs) := by
  apply Returns.ret
  intro d h
  unfold relJoin at h
  split at h
  · cases h
  · exact (join_fs _ _ _ h).1

/-- the loop of copy_dir / move_dir: `file?` hands an error item on -/
theorem faith_copyItems (fuel : Nat) (src dst : VPath) (hs : src.fs.Faithful) (hd : dst.fs.Faithful)
    (s : Walk) (hon : s.On src.fs) (count : Nat) :
    FaithfulIO (copyItems fuel src dst s count) := by
  induction fuel generalizing s count with
  | zero => unfold copyItems; exact .ret _
  | succ fuel ih =>
    unfold copyItems
    apply FaithfulIO.item_bind (WalkRet src.fs) (faith_walkNext src.fs hs s hon) (walkNext_on src.fs s hon)
    · intro x hx
      obtain ⟨item, s'⟩ := x
      obtain ⟨hx1, hx2⟩ := hx
      cases item with
      | none => exact .pure _
      | some r =>
        cases r with
        | err k pth => exact .ret _
        | panic => exact .ret _
        | ok x =>
          have hxf : x.fs.Faithful := by rw [hx1 x rfl]; exact hs
          dsimp only
          apply FaithfulIO.bindQ _ (.ret _) (relJoin_fs dst src.path.length x)
          intro d hdfs
          have hdf : d.fs.Faithful := by rw [hdfs]; exact hd
          apply FaithfulIO.bind (faith_metadata x hxf)
          intro md
          split
          · exact FaithfulIO.bind (faith_createDir d hdf) (fun _ => ih s' hx2 _)
          · exact FaithfulIO.bind (faith_copyFile x d hxf hdf) (fun _ => ih s' hx2 _)
    · intro r s' w hr
      obtain ⟨p, rfl⟩ := (Res.isIo_iff r).1 hr
      rfl

theorem faith_copyDir (fuel : Nat) (src dst : VPath) (hs : src.fs.Faithful) (hd : dst.fs.Faithful) :
    FaithfulIO (src.copyDir fuel dst) := by
  unfold copyDir
  apply FaithfulIO.withPath
  apply FaithfulIO.bind (faith_exists dst hd)
  intro b
  split
  · exact .failAt _ _
  · apply FaithfulIO.bind (faith_createDir dst hd)
    intro _
    apply FaithfulIO.bindQ _ (faith_walkDir src hs) (walkDir_on src)
    intro s hon
    exact faith_copyItems fuel src dst hs hd s hon 0

/-- `move_dir`: the fast path's error is swallowed only when its kind is `NotSupported` -/
theorem faith_moveDir (fuel : Nat) (src dst : VPath) (hs : src.fs.Faithful) (hd : dst.fs.Faithful) :
    FaithfulIO (src.moveDir fuel dst) := by
  unfold moveDir
  apply FaithfulIO.withPath
  apply FaithfulIO.bind (faith_exists dst hd)
  intro b
  split
  · exact .failAt _ _
  · apply FaithfulIO.handle_bind
    · split
      · exact FaithfulAtt.attempt (hs.moveDir _ _)
      · exact FaithfulAtt.pure _
    · intro fast
      split
      · exact .pure _
      · exact .ret _
      · split
        · exact .ret _
        · apply FaithfulIO.bind (faith_createDir dst hd)
          intro _
          apply FaithfulIO.bindQ _ (faith_walkDir src hs) (walkDir_on src)
          intro s hon
          apply FaithfulIO.bind (faith_copyItems fuel src dst hs hd s hon 0)
          intro _
          exact faith_removeDirAll fuel src hs
    · intro r w hr
      obtain ⟨p, rfl⟩ := (Res.isIo_iff r).1 hr
      rfl

end VPath

/-! ### AltrootFS: every method is a pure path computation followed by one operation of the
`VfsPath` layer on the root's filesystem -/
namespace Altroot

theorem faithful (root : VPath) (h : root.fs.Faithful) : (fs root).Faithful where
  readDir p := by
    simp only [fs]
    apply FaithfulIO.bindQ _ (.ret _) (path_fs root p)
    intro q hq
    apply FaithfulIO.bind (VPath.faith_readDir q (by rw [hq.1]; exact h))
    intro l; exact .pure _
  createDir p := .bindQ _ (.ret _) (path_fs root p)
    (fun q hq => VPath.faith_createDir q (by rw [hq.1]; exact h))
  openFile p := .bindQ _ (.ret _) (path_fs root p)
    (fun q hq => VPath.faith_openFile q (by rw [hq.1]; exact h))
  createFile p := .bindQ _ (.ret _) (path_fs root p)
    (fun q hq => VPath.faith_createFile q (by rw [hq.1]; exact h))
  appendFile p := .bindQ _ (.ret _) (path_fs root p)
    (fun q hq => VPath.faith_appendFile q (by rw [hq.1]; exact h))
  metadata p := .bindQ _ (.ret _) (path_fs root p)
    (fun q hq => VPath.faith_metadata q (by rw [hq.1]; exact h))
  setCreationTime p t := .bindQ _ (.ret _) (path_fs root p)
    (fun q hq => VPath.faith_setCreationTime q t (by rw [hq.1]; exact h))
  setModificationTime p t := .bindQ _ (.ret _) (path_fs root p)
    (fun q hq => VPath.faith_setModificationTime q t (by rw [hq.1]; exact h))
  setAccessTime p t := .bindQ _ (.ret _) (path_fs root p)
    (fun q hq => VPath.faith_setAccessTime q t (by rw [hq.1]; exact h))
  exists_ p := by
    -- `path` is a pure join: when it fails, `false` is returned without any call, so no fault
    -- can have fired
    simp only [fs]
    have := (path_fs root p).post
    split
    · rename_i q heq
      have hq := this default q (by simp [M.ret, heq])
      exact VPath.faith_exists q (by rw [hq.1]; exact h)
    · exact .pure _
  removeFile p := .bindQ _ (.ret _) (path_fs root p)
    (fun q hq => VPath.faith_removeFile q (by rw [hq.1]; exact h))
  removeDir p := .bindQ _ (.ret _) (path_fs root p)
    (fun q hq => VPath.faith_removeDir q (by rw [hq.1]; exact h))
  copyFile s d := by
    simp only [fs]
    split
    · exact .failK _
    · apply FaithfulIO.bindQ _ (.ret _) (path_fs root s)
      intro sp hsp
      apply FaithfulIO.bindQ _ (.ret _) (path_fs root d)
      intro dp hdp
      exact VPath.faith_copyFile sp dp (by rw [hsp.1]; exact h) (by rw [hdp.1]; exact h)
  moveFile _ _ := .failK _
  moveDir _ _ := .failK _

end Altroot

/-! ### OverlayFS -/
namespace Overlay
open VPath

/-- the hypothesis on the layers -/
abbrev GoodLayers (layers : List VPath) : Prop := ∀ l ∈ layers, l.fs.Faithful

/-- (`writeLayer []` is the placeholder filesystem, so no non-emptiness hypothesis is needed) -/
theorem writeLayer_good (layers : List VPath) (hl : GoodLayers layers) :
    (writeLayer layers).fs.Faithful := by
  cases layers with
  | nil => exact FS.Faithful.default
  | cons a t => exact hl a (by simp)

theorem join_good (l : VPath) (hl : l.fs.Faithful) (arg : Str) :
    Returns (M.ret (l.join arg)) (fun q => q.fs.Faithful) :=
  Returns.ret _ (fun q h => by rw [(join_fs _ _ _ h).1]; exact hl)

theorem whiteoutPath_good (layers : List VPath) (hl : GoodLayers layers) (p : Str) :
    Returns (M.ret (whiteoutPath layers p)) (fun q => q.fs.Faithful) := by
  apply Returns.ret
  intro q h
  unfold whiteoutPath at h
  split at h <;> (rw [(join_fs _ _ _ h).1]; exact writeLayer_good layers hl)

theorem writePath_good (layers : List VPath) (hl : GoodLayers layers) (p : Str) :
    Returns (M.ret (writePath layers p)) (fun q => q.fs.Faithful) := by
  apply Returns.ret
  intro q h
  unfold writePath at h
  split at h
  · injection h with h; subst h; exact writeLayer_good layers hl
  · rw [(join_fs _ _ _ h).1]; exact writeLayer_good layers hl

theorem firstExisting_faith (p : Str) (ls : List VPath) (hs : GoodLayers ls) :
    FaithfulIO (firstExisting p ls) := by
  induction ls with
  | nil => unfold firstExisting; exact .pure _
  | cons l rest ih =>
    unfold firstExisting
    apply FaithfulIO.bindQ _ (.ret _) (join_good l (hs l (by simp)) _)
    intro lp hlp
    apply FaithfulIO.bind (faith_exists lp hlp)
    intro b; split
    · exact .pure _
    · exact ih (fun x hx => hs x (by simp [hx]))

theorem firstExisting_good (p : Str) (ls : List VPath) (hs : GoodLayers ls) :
    Returns (firstExisting p ls) (fun o => ∀ q, o = some q → q.fs.Faithful) := by
  induction ls with
  | nil =>
    unfold firstExisting
    exact Returns.pure _ (by simp)
  | cons l rest ih =>
    unfold firstExisting
    apply Returns.bindQ (join_good l (hs l (by simp)) _)
    intro lp hlp
    apply Returns.bind
    intro b
    split
    · apply Returns.pure
      intro q hq; injection hq with hq; subst hq
      exact hlp
    · exact ih (fun x hx => hs x (by simp [hx]))

theorem readPath_faith (layers : List VPath) (hl : GoodLayers layers) (p : Str) :
    FaithfulIO (readPath layers p) := by
  unfold readPath
  split
  · exact .pure _
  · apply FaithfulIO.bindQ _ (.ret _) (whiteoutPath_good layers hl p)
    intro wo hwo
    apply FaithfulIO.bind (faith_exists wo hwo)
    intro b; split
    · exact .failK _
    · apply FaithfulIO.bind (firstExisting_faith p layers hl)
      intro o
      split
      · exact .pure _
      · apply FaithfulIO.bindQ _ (.ret _) (join_good _ (writeLayer_good layers hl) _)
        intro rp hrp
        apply FaithfulIO.bind (faith_exists rp hrp)
        intro b; split
        · exact .failK _
        · exact .pure _

theorem readPath_good (layers : List VPath) (hl : GoodLayers layers) (p : Str) :
    Returns (readPath layers p) (fun q => q.fs.Faithful) := by
  unfold readPath
  split
  · exact Returns.pure _ (writeLayer_good layers hl)
  · apply Returns.bind; intro wo
    apply Returns.bind; intro b
    split
    · exact Returns.failK _
    · apply Returns.bindQ (firstExisting_good p layers hl)
      intro o ho
      split
      · rename_i lp; exact Returns.pure _ (ho lp rfl)
      · apply Returns.bindQ (join_good _ (writeLayer_good layers hl) _)
        intro rp hrp
        apply Returns.bind; intro b
        split
        · exact Returns.failK _
        · exact Returns.pure _ hrp

/-- **`OverlayFS::exists`** (after the fix): of the errors of `read_path` only `FileNotFound` is
turned into `false`; the injected error has kind `.io` and is propagated -/
theorem exists_faith (layers : List VPath) (hl : GoodLayers layers) (p : Str) :
    FaithfulIO (Overlay.exists_ layers p) := by
  unfold Overlay.exists_
  apply FaithfulIO.bindQ _ (.ret _) (whiteoutPath_good layers hl p)
  intro wo hwo
  apply FaithfulIO.bind (faith_exists wo hwo)
  intro b; split
  · exact .pure _
  · refine ⟨fun w hw => ?_⟩
    have h1 := (readPath_faith layers hl p).io w hw
    have h2 := (readPath_good layers hl p).post w
    cases hres : readPath layers p w with
    | mk r w' =>
      rw [hres] at h1 h2
      cases hfw : w'.fired with
      | true =>
        obtain ⟨pth, rfl⟩ := (Res.isIo_iff r).1 (h1 hfw)
        intro _; rfl
      | false =>
        cases r with
        | ok q => exact (faith_exists q (h2 q rfl)).io w' hfw
        | err k pth => cases k <;> (dsimp only; intro hfin; rw [hfw] at hfin; cases hfin)
        | panic => dsimp only; intro hfin; rw [hfw] at hfin; cases hfin

theorem ensureHasParent_faith (layers : List VPath) (hl : GoodLayers layers) (p : Str) :
    FaithfulIO (ensureHasParent layers p) := by
  unfold ensureHasParent
  split
  · apply FaithfulIO.bind (exists_faith layers hl _)
    intro b; split
    · -- the parent must be a directory of the merged view: two observer steps, one early exit
      apply FaithfulIO.bindQ _ (readPath_faith layers hl _) (readPath_good layers hl _)
      intro rp hrp
      apply FaithfulIO.bind (faith_isDir rp hrp)
      intro isd; split
      · apply FaithfulIO.bindQ _ (.ret _) (writePath_good layers hl _)
        intro wp hwp
        exact faith_createDirAll wp hwp
      · exact .failK _
    · exact .failK _
  · exact .failK _

theorem mergeListings_faith (actual : Str) (ls : List VPath) (hs : GoodLayers ls) (acc : List Str) :
    FaithfulIO (mergeListings actual ls acc) := by
  induction ls generalizing acc with
  | nil => unfold mergeListings; exact .pure _
  | cons l rest ih =>
    unfold mergeListings
    apply FaithfulIO.bindQ _ (.ret _) (join_good l (hs l (by simp)) _)
    intro lp hlp
    apply FaithfulIO.bind (faith_isDir lp hlp)
    intro b; split
    · apply FaithfulIO.bind (faith_readDir lp hlp)
      intro cs
      exact ih (fun x hx => hs x (by simp [hx])) _
    · exact ih (fun x hx => hs x (by simp [hx])) _

theorem readDir_faith (layers : List VPath) (hl : GoodLayers layers) (p : Str) :
    FaithfulIO (Overlay.readDir layers p) := by
  unfold Overlay.readDir
  apply FaithfulIO.bindQ _ (readPath_faith layers hl p) (readPath_good layers hl p)
  intro rp hrp
  apply FaithfulIO.bind (faith_exists rp hrp)
  intro b; split
  · exact .failK _
  · apply FaithfulIO.bind (faith_isDir rp hrp)
    intro b2; split
    · exact .failK _
    · apply FaithfulIO.bind (mergeListings_faith _ layers hl [])
      intro entries
      apply FaithfulIO.bindQ _ (.ret _) (join_good _ (writeLayer_good layers hl) _)
      intro wp hwp
      apply FaithfulIO.bind (faith_exists wp hwp)
      intro b3; split
      · apply FaithfulIO.bind (faith_readDir wp hwp)
        intro marks; exact .pure _
      · exact .pure _

theorem clearWhiteout_faith (layers : List VPath) (hl : GoodLayers layers) (p : Str) :
    FaithfulIO (clearWhiteout layers p) := by
  unfold clearWhiteout
  apply FaithfulIO.bindQ _ (.ret _) (whiteoutPath_good layers hl p)
  intro wo hwo
  apply FaithfulIO.bind (faith_exists wo hwo)
  intro b; split
  · exact faith_removeFile wo hwo
  · exact .pure _

/-- `clear_whiteout` of `create_dir` (fix of O11): only `FileNotFound` of the removal is swallowed;
the injected error has kind `.io` and is propagated -/
theorem clearWhiteoutT_faith (layers : List VPath) (hl : GoodLayers layers) (p : Str) :
    FaithfulIO (clearWhiteoutT layers p) := by
  unfold clearWhiteoutT
  apply FaithfulIO.bindQ _ (.ret _) (whiteoutPath_good layers hl p)
  intro wo hwo
  apply FaithfulIO.bind (faith_exists wo hwo)
  intro b; split
  · refine ⟨fun w hw => ?_⟩
    have h1 := (faith_removeFile wo hwo).io w hw
    cases hres : wo.removeFile w with
    | mk r w' =>
      rw [hres] at h1
      cases r with
      | ok u => intro hfin; have := h1 hfin; simp [Res.isIo] at this
      | err k pth =>
        cases k <;> (intro hfin; have := h1 hfin; first | rfl | simp [Res.isIo] at this)
      | panic => intro hfin; have := h1 hfin; simp [Res.isIo] at this
  · exact .pure _

theorem addWhiteout_faith (layers : List VPath) (hl : GoodLayers layers) (p : Str) :
    FaithfulIO (addWhiteout layers p) := by
  unfold addWhiteout
  apply FaithfulIO.bindQ _ (.ret _) (whiteoutPath_good layers hl p)
  intro wo hwo
  have hpar : wo.parent.fs.Faithful := by rw [parent_fs]; exact hwo
  apply FaithfulIO.bind (faith_createDirAll wo.parent hpar)
  intro _
  apply FaithfulIO.bind (faith_createFile wo hwo)
  intro h
  exact h.faith_drop

theorem createDir_faith (layers : List VPath) (hl : GoodLayers layers) (p : Str) :
    FaithfulIO (Overlay.createDir layers p) := by
  unfold Overlay.createDir
  apply FaithfulIO.bind (ensureHasParent_faith layers hl p)
  intro _
  apply FaithfulIO.bind (exists_faith layers hl p)
  intro b; split
  · apply FaithfulIO.bindQ _ (readPath_faith layers hl p) (readPath_good layers hl p)
    intro q hq
    apply FaithfulIO.bind (faith_metadata q hq)
    intro md; exact .failK _
  · apply FaithfulIO.bindQ _ (.ret _) (writePath_good layers hl p)
    intro wp hwp
    -- the write layer's answer is inspected: `ok` and `DirectoryExists` are followed by the
    -- tolerant clearing of the whiteout; the injected error has kind `.io` and is passed through
    refine ⟨fun w hw => ?_⟩
    have h1 := (faith_createDir wp hwp).io w hw
    have hc := clearWhiteoutT_faith layers hl p
    cases hres : wp.createDir w with
    | mk r w' =>
      rw [hres] at h1
      cases hfw : w'.fired with
      | true =>
        obtain ⟨pth, rfl⟩ := (Res.isIo_iff r).1 (h1 hfw)
        intro _; rfl
      | false =>
        cases r with
        | ok u => cases u; exact hc.io w' hfw
        | err k pth =>
          cases k <;> try (dsimp only; intro hfin; rw [hfw] at hfin; cases hfin)
          dsimp only
          intro hfin
          have h2 := hc.io w' hfw
          cases hres2 : clearWhiteoutT layers p w' with
          | mk r2 w2 =>
            rw [hres2] at h2 hfin
            cases r2 with
            | ok u => cases u; have := h2 hfin; simp [Res.isIo] at this
            | err k2 pth2 => exact h2 hfin
            | panic => exact h2 hfin
        | panic => dsimp only; intro hfin; rw [hfw] at hfin; cases hfin

theorem refuseDir_faith (layers : List VPath) (hl : GoodLayers layers) (p : Str) :
    FaithfulIO (refuseDir layers p) := by
  unfold refuseDir
  apply FaithfulIO.bind (exists_faith layers hl p)
  intro b; split
  · apply FaithfulIO.bindQ _ (readPath_faith layers hl p) (readPath_good layers hl p)
    intro q hq
    apply FaithfulIO.bind (faith_metadata q hq)
    intro md; split
    · exact .failK _
    · exact .pure _
  · exact .pure _

theorem createFile_faith (layers : List VPath) (hl : GoodLayers layers) (p : Str) :
    FaithfulIO (Overlay.createFile layers p) := by
  unfold Overlay.createFile
  apply FaithfulIO.bind (ensureHasParent_faith layers hl p)
  intro _
  apply FaithfulIO.bind (refuseDir_faith layers hl p)
  intro _
  apply FaithfulIO.bindQ _ (.ret _) (writePath_good layers hl p)
  intro wp hwp
  apply FaithfulIO.bind (faith_createFile wp hwp)
  intro h
  apply FaithfulIO.bind (clearWhiteout_faith layers hl p)
  intro _; exact .pure _

theorem copyUp_faith (layers : List VPath) (hl : GoodLayers layers) (p : Str) (wp : VPath)
    (hwp : wp.fs.Faithful) : FaithfulIO (copyUp layers p wp) := by
  unfold copyUp
  apply FaithfulIO.bind (faith_exists wp hwp)
  intro b; split
  · apply FaithfulIO.bind (ensureHasParent_faith layers hl p)
    intro _
    apply FaithfulIO.bindQ _ (readPath_faith layers hl p) (readPath_good layers hl p)
    intro rp hrp
    apply FaithfulIO.bind (faith_isFile rp hrp)
    intro b2; split
    · exact .failK _
    · exact faith_copyFile rp wp hrp hwp
  · exact .pure _

theorem appendFile_faith (layers : List VPath) (hl : GoodLayers layers) (p : Str) :
    FaithfulIO (Overlay.appendFile layers p) := by
  unfold Overlay.appendFile
  apply FaithfulIO.bindQ _ (.ret _) (writePath_good layers hl p)
  intro wp hwp
  apply FaithfulIO.bind (copyUp_faith layers hl p wp hwp)
  intro _; exact faith_appendFile wp hwp

theorem removeFile_faith (layers : List VPath) (hl : GoodLayers layers) (p : Str) :
    FaithfulIO (Overlay.removeFile layers p) := by
  unfold Overlay.removeFile
  apply FaithfulIO.bind (readPath_faith layers hl p)
  intro _
  apply FaithfulIO.bindQ _ (.ret _) (writePath_good layers hl p)
  intro wp hwp
  apply FaithfulIO.bind (faith_exists wp hwp)
  intro b
  apply FaithfulIO.bind
  · split
    · exact faith_removeFile wp hwp
    · exact .pure _
  · intro _; exact addWhiteout_faith layers hl p

theorem removeDir_faith (layers : List VPath) (hl : GoodLayers layers) (p : Str) :
    FaithfulIO (Overlay.removeDir layers p) := by
  unfold Overlay.removeDir
  apply FaithfulIO.bind (readPath_faith layers hl p)
  intro _
  apply FaithfulIO.bind (readDir_faith layers hl p)
  intro l; split
  · exact .failK _
  · apply FaithfulIO.bindQ _ (.ret _) (writePath_good layers hl p)
    intro wp hwp
    apply FaithfulIO.bind (faith_exists wp hwp)
    intro b
    apply FaithfulIO.bind
    · split
      · exact faith_removeDir wp hwp
      · exact .pure _
    · intro _; exact addWhiteout_faith layers hl p

/-- every method of the overlay, for arbitrary faithful layers (any number, nested adapters) -/
theorem faithful (layers : List VPath) (hl : GoodLayers layers) : (Overlay.fs layers).Faithful where
  readDir p := readDir_faith layers hl p
  createDir p := createDir_faith layers hl p
  openFile p := .bindQ _ (readPath_faith layers hl p) (readPath_good layers hl p)
    (fun q hq => faith_openFile q hq)
  createFile p := createFile_faith layers hl p
  appendFile p := appendFile_faith layers hl p
  metadata p := .bindQ _ (readPath_faith layers hl p) (readPath_good layers hl p)
    (fun q hq => faith_metadata q hq)
  setCreationTime p t := .bindQ _ (.ret _) (writePath_good layers hl p)
    (fun q hq => faith_setCreationTime q t hq)
  setModificationTime p t := .bindQ _ (.ret _) (writePath_good layers hl p)
    (fun q hq => faith_setModificationTime q t hq)
  setAccessTime p t := .bindQ _ (.ret _) (writePath_good layers hl p)
    (fun q hq => faith_setAccessTime q t hq)
  exists_ p := exists_faith layers hl p
  removeFile p := removeFile_faith layers hl p
  removeDir p := removeDir_faith layers hl p
  copyFile _ _ := .failK _
  moveFile _ _ := .failK _
  moveDir _ _ := .failK _

end Overlay

end Vfs
