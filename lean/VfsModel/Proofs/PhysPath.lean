/-
  The path-layer primitives on the physical model (what `VfsPath` over `PhysicalFS` computes,
  given the host answers of Leaf.lean), content-level equality of maps, and the agreement of the
  in-memory and physical primitives on well-formed maps.
-/
import VfsModel.Proofs.PhysLemmas
namespace Vfs
namespace Phys

/-- `get_parent` over PhysicalFS: `exists` then `metadata` of the parent -/
def parentOk (m : FMap) (p : Str) : Bool :=
  exists_ m (parentInternal p) &&
    (match metadata m (parentInternal p) with
     | .ok md => decide (md.ftype = .dir)
     | _ => false)

def pCreateDir (m : FMap) (p : Str) : Res Unit × FMap :=
  if parentOk m p then ((createDir m p).1.withPath p, (createDir m p).2)
  else (.err .other (some p), m)

/-- `write_all(bs)` on a `File::create` handle positioned at 0 -/
def writeAt0 (m : FMap) (p : Str) (bs : Bytes) : FMap :=
  match m.find? p with
  | some e => if bs = [] then m else m.insert p { e with content := cursorWrite e.content 0 bs, modified := .now }
  | none => m

def pWrite (m : FMap) (p : Str) (bs : Bytes) : Res Unit × FMap :=
  if parentOk m p then
    match createFile m p with
    | (.ok _, m') => (.ok (), writeAt0 m' p bs)
    | (.err k pth, m') => ((Res.err k pth : Res Unit).withPath p, m')
    | (.panic, m') => (.panic, m')
  else (.err .other (some p), m)

/-- `write_all(bs)` on an `O_APPEND` handle -/
def appendAt (m : FMap) (p : Str) (bs : Bytes) : FMap :=
  match m.find? p with
  | some e => m.insert p { e with content := e.content ++ bs, modified := .now }
  | none => m

def pAppend (m : FMap) (p : Str) (bs : Bytes) : Res Unit × FMap :=
  match appendFile m p with
  | .ok _ => (.ok (), appendAt m p bs)
  | .err k pth => ((Res.err k pth : Res Unit).withPath p, m)
  | .panic => (.panic, m)

def pRemoveFile (m : FMap) (p : Str) : Res Unit × FMap :=
  ((removeFile m p).1.withPath p, (removeFile m p).2)

def pRemoveDir (m : FMap) (p : Str) : Res Unit × FMap :=
  ((removeDir m p).1.withPath p, (removeDir m p).2)

end Phys

/-! ### content-level equality -/

/-- what the properties compare: type and bytes (timestamps aside) -/
def core (e : Entry) : FType × Bytes := (e.ftype, e.content)

/-- same entries up to timestamps (and storage order) -/
def CoreEq (a b : FMap) : Prop := ∀ k, (a.find? k).map core = (b.find? k).map core

theorem CoreEq.refl (a : FMap) : CoreEq a a := fun _ => rfl

theorem CoreEq.none_iff {a b : FMap} (h : CoreEq a b) (k : Str) :
    a.find? k = none ↔ b.find? k = none := by
  have := h k
  cases ha : a.find? k <;> cases hb : b.find? k <;> simp [ha, hb] at this ⊢

theorem CoreEq.some {a b : FMap} (h : CoreEq a b) (k : Str) (e : Entry) (he : a.find? k = some e) :
    ∃ e', b.find? k = some e' ∧ e'.ftype = e.ftype ∧ e'.content = e.content := by
  have := h k
  rw [he] at this
  cases hb : b.find? k with
  | none => simp [hb] at this
  | some e' =>
    simp [hb, core] at this
    exact ⟨e', rfl, this.1.symm, this.2.symm⟩

theorem CoreEq.symm {a b : FMap} (h : CoreEq a b) : CoreEq b a := fun k => (h k).symm

theorem CoreEq.insert {a b : FMap} (h : CoreEq a b) (p : Str) (v v' : Entry) (hv : core v = core v') :
    CoreEq (a.insert p v) (b.insert p v') := by
  intro k
  rw [FMap.find?_insert, FMap.find?_insert]
  split
  · simp [hv]
  · exact h k

theorem CoreEq.erase {a b : FMap} (h : CoreEq a b) (p : Str) : CoreEq (a.erase p) (b.erase p) := by
  intro k
  rw [FMap.find?_erase, FMap.find?_erase]
  split
  · rfl
  · exact h k

/-- well-formedness only looks at types -/
theorem WF.of_coreEq {a b : FMap} (h : WF a) (hc : CoreEq a b) : WF b := by
  refine ⟨?_, ?_⟩
  · obtain ⟨e, he, hd⟩ := h.1
    obtain ⟨e', he', ht, _⟩ := hc.some [] e he
    exact ⟨e', he', by rw [ht]; exact hd⟩
  · intro k e hk hne
    obtain ⟨e0, he0, _, _⟩ := hc.symm.some k e hk
    obtain ⟨hs, pe, hp, hd⟩ := h.2 k e0 he0 hne
    obtain ⟨pe', hpe', ht, _⟩ := hc.some _ pe hp
    exact ⟨hs, pe', hpe', by rw [ht]; exact hd⟩

theorem children_empty_iff {a b : FMap} (hc : CoreEq a b) (p : Str) :
    a.keys.filterMap (childName p) = [] ↔ b.keys.filterMap (childName p) = [] := by
  have key : ∀ (x y : FMap), CoreEq x y → x.keys.filterMap (childName p) = [] →
      y.keys.filterMap (childName p) = [] := by
    intro x y hxy hx
    apply List.eq_nil_iff_forall_not_mem.2
    intro n hn
    obtain ⟨k, e, hk, h1, h2, h3⟩ := (mem_filterMap_childName y p n).1 hn
    obtain ⟨e', he', _, _⟩ := hxy.symm.some k e hk
    have : n ∈ x.keys.filterMap (childName p) := (mem_filterMap_childName x p n).2 ⟨k, e', he', h1, h2, h3⟩
    rw [hx] at this; cases this
  exact ⟨key a b hc, key b a hc.symm⟩

/-! ### the parent probe agrees -/

theorem Phys.exists_absent (b : FMap) (q : Str) (h : b.find? q = none) : Phys.exists_ b q = false := by
  unfold Phys.exists_ Phys.lookup
  cases Phys.resolveParent b q <;> simp [h]

theorem parentOk_agree {a b : FMap} (hb : WF b) (hc : CoreEq a b) (p : Str) :
    Phys.parentOk b p = Mem.parentOk a p := by
  unfold Phys.parentOk Mem.parentOk
  cases ha : a.find? (parentInternal p) with
  | none =>
    have hbn := (hc.none_iff _).1 ha
    rw [Phys.exists_absent b _ hbn]; rfl
  | some e =>
    obtain ⟨e', he', ht, _⟩ := hc.some _ e ha
    unfold Phys.exists_ Phys.metadata
    rw [hb.lookup_present _ e' he']
    simp [Entry.meta, ht]

end Vfs
