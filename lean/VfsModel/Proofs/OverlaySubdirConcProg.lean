/-
  The small-step program `OConc.createDirAll` over layers at SUB-DIRECTORY paths of memory leaves
  refines (`Ref`, Proofs/OverlaySubdirConcRef.lean) the same program over the ROOTS of the leaves,
  for canonical overlay paths: one lemma per function of VfsModel/OverlayConc.lean
  (`ref_vExists … ref_createDirAll`).  The only place where the two programs differ in their calls
  is `VfsPath::create_dir_all` on the write path (`ref_vCreateDirAll`): over a sub-directory layer it
  first walks the prefixes of the layer's base (`ref_baseWalk`: stutter steps).
-/
import VfsModel.Proofs.OverlaySubdirConcRef
set_option linter.unusedVariables false
set_option linter.unusedSimpArgs false
set_option linter.unusedSectionVars false
namespace Vfs.SConc
open Vfs Vfs.Overlay Vfs.OConc Vfs.OConc.Prog

/-! ### paths -/

theorem join_sub (i id : Nat) (b : List Str) (hb : ∀ c ∈ b, GoodComp c) (cs : List Str)
    (hne : cs ≠ []) (hcs : ∀ c ∈ cs, GoodComp c) :
    ({ fs := leafFS i, fsId := id, path := renderC b } : VPath).join (tail1 (renderC cs))
      = .ok { fs := leafFS i, fsId := id, path := renderC b ++ renderC cs } := by
  cases cs with
  | nil => exact absurd rfl hne
  | cons c cs =>
    rw [tail1_renderC_cons]
    unfold VPath.join
    simp only
    rw [joinInternal_good b c cs (good_noSlash hb) (hcs c (by simp))
      (fun x hx => hcs x (by simp [hx])), renderC_append]
    rfl

/-- the key of the marker of `renderC ds` below the write layer (the root marker for `ds = []`) -/
def wkey (ds : List Str) : Str := if ds = [] then rootMarker else marker (renderC ds)

theorem wkey_rooted (ds : List Str) : Rooted (wkey ds) := by
  unfold wkey
  split
  · right; rfl
  · right; rfl

theorem whiteout_sub (u id : Nat) (b : List Str) (hb : ∀ c ∈ b, GoodComp c) (Lr : List VPath)
    (ds : List Str) (hds : ∀ c ∈ ds, GoodComp c) :
    whiteoutPath ({ fs := leafFS u, fsId := id, path := renderC b } :: Lr) (renderC ds)
      = .ok { fs := leafFS u, fsId := id, path := renderC b ++ wkey ds } := by
  rcases List.eq_nil_or_concat ds with rfl | ⟨l, n, rfl⟩
  · unfold whiteoutPath
    rw [if_pos renderC_nil]
    show VPath.join { fs := leafFS u, fsId := id, path := renderC b } (woDir ++ renderC [woSuffix]) = _
    unfold VPath.join
    simp only
    rw [joinInternal_good b woDir [woSuffix] (good_noSlash hb) goodComp_woDir (by decide),
      renderC_append]
    rfl
  · rw [List.concat_eq_append] at hds ⊢
    obtain ⟨hl, hn⟩ := good_of_snoc hds
    unfold whiteoutPath
    rw [if_neg (by cases l <;> simp)]
    have harg : woDir ++ '/' :: (tail1 (renderC (l ++ [n])) ++ woSuffix)
        = woDir ++ renderC (l ++ [n ++ woSuffix]) := by
      cases l with
      | nil => simp [tail1]
      | cons d ds => simp [tail1, List.append_assoc]
    rw [harg]
    show VPath.join { fs := leafFS u, fsId := id, path := renderC b } _ = _
    unfold VPath.join
    simp only
    rw [joinInternal_good b woDir (l ++ [n ++ woSuffix]) (good_noSlash hb) goodComp_woDir
      (good_snoc hl (goodComp_wo hn)), renderC_append, ← marker_renderC]
    have : wkey (l ++ [n]) = marker (renderC (l ++ [n])) := by
      unfold wkey; rw [if_neg (by simp)]
    rw [this]
    rfl

theorem whiteout_root (u id : Nat) (Lr : List VPath) (ds : List Str) (hds : ∀ c ∈ ds, GoodComp c) :
    whiteoutPath ({ fs := leafFS u, fsId := id, path := [] } :: Lr) (renderC ds)
      = .ok { fs := leafFS u, fsId := id, path := wkey ds } :=
  whiteout_sub u id [] (by simp) Lr ds hds

theorem writePath_sub (u id : Nat) (b : List Str) (hb : ∀ c ∈ b, GoodComp c) (Lr : List VPath)
    (ds : List Str) (hds : ∀ c ∈ ds, GoodComp c) :
    writePath ({ fs := leafFS u, fsId := id, path := renderC b } :: Lr) (renderC ds)
      = .ok { fs := leafFS u, fsId := id, path := renderC b ++ renderC ds } := by
  unfold writePath
  by_cases hne : ds = []
  · subst hne
    simp [writeLayer]
  · rw [if_neg (renderC_ne_nil hne)]
    exact join_sub u id b hb ds hne hds

theorem writePath_root' (u id : Nat) (Lr : List VPath) (ds : List Str)
    (hds : ∀ c ∈ ds, GoodComp c) :
    writePath ({ fs := leafFS u, fsId := id, path := [] } :: Lr) (renderC ds)
      = .ok { fs := leafFS u, fsId := id, path := renderC ds } :=
  writePath_sub u id [] (by simp) Lr ds hds

/-! ### the `VfsPath` primitives -/

section prog
variable {spec : Nat → Option Str} {ls : List Nat} {u : Nat} {bu : List Str}

/-- a layer path below a base and the same path below the leaf root -/
def PRel (spec : Nat → Option Str) (ls : List Nat) (lp lp' : VPath) : Prop :=
  ∃ i id P k, i ∈ ls ∧ spec i = some P ∧ Rooted k ∧
    lp = { fs := leafFS i, fsId := id, path := P ++ k } ∧ lp' = { fs := leafFS i, fsId := id, path := k }

def ORel (spec : Nat → Option Str) (ls : List Nat) : Option VPath → Option VPath → Prop
  | none, none => True
  | some a, some b => PRel spec ls a b
  | _, _ => False

theorem RR_withPath {α} (r : Res α) (p p' : Str) : RR EqV (r.withPath p) (r.withPath p') := by
  cases r <;> simp [Res.withPath, RR, EqV]

theorem ref_vExists {lp lp' : VPath} (h : PRel spec ls lp lp') :
    Ref spec ls u bu EqV (vExists lp) (vExists lp') := by
  obtain ⟨i, id, P, k, hi, hs, hk, rfl, rfl⟩ := h
  exact .exists_ hi hs hk (fun r => .done (RR.eq_refl r))

theorem ref_vMetadata {lp lp' : VPath} (h : PRel spec ls lp lp') :
    Ref spec ls u bu EqV (vMetadata lp) (vMetadata lp') := by
  obtain ⟨i, id, P, k, hi, hs, hk, rfl, rfl⟩ := h
  exact .metadata hi hs hk (fun r => .done (RR_withPath r _ _))

theorem ref_vIsDir {lp lp' : VPath} (h : PRel spec ls lp lp') :
    Ref spec ls u bu EqV (vIsDir lp) (vIsDir lp') := by
  unfold vIsDir
  refine Ref.bind (ref_vExists h) ?_
  rintro a _ rfl
  cases a
  · exact Ref.pure EqV.rfl
  · exact Ref.bind (ref_vMetadata h) (fun md _ hmd => by subst hmd; exact Ref.pure EqV.rfl)

variable (hu : u ∈ ls) (hspecu : spec u = some (renderC bu))

include hu hspecu in
theorem prel_u (id : Nat) {k : Str} (hk : Rooted k) :
    PRel spec ls { fs := leafFS u, fsId := id, path := renderC bu ++ k }
      { fs := leafFS u, fsId := id, path := k } :=
  ⟨u, id, _, k, hu, hspecu, hk, rfl, rfl⟩

theorem ref_vRemoveFile (id : Nat) {k : Str} (hk : Rooted k) :
    Ref spec ls u bu EqV
      (vRemoveFile { fs := leafFS u, fsId := id, path := renderC bu ++ k })
      (vRemoveFile { fs := leafFS u, fsId := id, path := k }) :=
  .removeFile hk (fun r => .done (RR_withPath r _ _))

include hu hspecu in
theorem ref_vCreateDir (id : Nat) {k : Str} (hk : Canon k) (hne : k ≠ []) :
    Ref spec ls u bu EqV
      (vCreateDir { fs := leafFS u, fsId := id, path := renderC bu ++ k })
      (vCreateDir { fs := leafFS u, fsId := id, path := k }) := by
  obtain ⟨h1, h2, _, _⟩ := parent_shift (renderC bu) hk hne
  have hpar := prel_u (ls := ls) hu hspecu id h2
  unfold vCreateDir
  refine Ref.bind (V := EqV) ?_
    (fun _ _ _ => .createDir hk hne (fun r => .done (RR_withPath r _ _)))
  unfold vGetParent
  simp only [VPath.parent, VPath.withStr, h1]
  refine Ref.bind (ref_vExists hpar) ?_
  rintro a _ rfl
  cases a
  · exact .done (by simp [RR, EqV])
  · refine Ref.bind (ref_vMetadata hpar) ?_
    rintro md _ rfl
    by_cases hmd : md.ftype = .dir
    · simp only [hmd, ne_eq, not_true_eq_false, ↓reduceIte, Bool.not_true, Bool.false_eq_true]
      exact Ref.pure EqV.rfl
    · simp only [hmd, ne_eq, not_false_eq_true, ↓reduceIte, Bool.not_true, Bool.false_eq_true]
      exact .done (by simp [RR, EqV])

/-! ### `create_dir_all` on the write path -/

theorem chain_append (pre a b : List Str) :
    chain pre (a ++ b) = chain pre a ++ chain (pre ++ a) b := by
  induction a generalizing pre with
  | nil => simp [chain]
  | cons c cs ih => simp [chain, ih, List.append_assoc]

abbrev mkU (u : Nat) : Str → Prog Unit := fun d => Prog.createDir (leafFS u) d Prog.done

/-- the walk over the prefixes of the base: each `create_dir` is a stutter step -/
theorem ref_baseWalk (rest : List Str) (t' : Prog Unit)
    (h : Ref spec ls u bu EqV (cdaLoop (mkU u) rest) t') :
    ∀ n j, bu.length - j = n → j ≤ bu.length →
      Ref spec ls u bu EqV (cdaLoop (mkU u) (chain (bu.take j) (bu.drop j) ++ rest)) t' := by
  intro n
  induction n with
  | zero =>
    intro j hn hj
    have : j = bu.length := by omega
    subst this
    simpa [chain] using h
  | succ n ih =>
    intro j hn hj
    have hlt : j < bu.length := by omega
    rw [List.drop_eq_getElem_cons hlt]
    simp only [chain, List.cons_append, cdaLoop]
    rw [← take_succ_snoc' bu j hlt]
    show Ref spec ls u bu EqV (Prog.createDir (leafFS u) (renderC (bu.take (j + 1))) _) t'
    refine .stutter (by omega) (by omega) ?_
    exact ih (j + 1) (by omega) (by omega)

/-- the loop below the base, call for call -/
theorem ref_writeLoop : ∀ (ds pre : List Str), (∀ c ∈ pre ++ ds, GoodComp c) →
    Ref spec ls u bu EqV (cdaLoop (mkU u) (chain (bu ++ pre) ds))
      (cdaLoop (mkU u) (chain pre ds)) := by
  intro ds
  induction ds with
  | nil => intro pre _; exact Ref.pure EqV.rfl
  | cons c cs ih =>
    intro pre hg
    simp only [chain, cdaLoop]
    have e : renderC ((bu ++ pre) ++ [c]) = renderC bu ++ renderC (pre ++ [c]) := by
      rw [List.append_assoc, renderC_append]
    rw [e]
    have hg1 : ∀ x ∈ pre ++ [c], GoodComp x := fun x hx => hg x (by
      simp only [List.mem_append, List.mem_cons, List.mem_singleton, List.not_mem_nil, or_false] at hx ⊢
      rcases hx with hx | hx
      · exact Or.inl hx
      · exact Or.inr (Or.inl hx))
    have hnext := ih (pre ++ [c]) (fun x hx => hg x (by simpa [List.append_assoc] using hx))
    rw [← List.append_assoc] at hnext
    show Ref spec ls u bu EqV
      (Prog.createDir (leafFS u) (renderC bu ++ renderC (pre ++ [c])) _)
      (Prog.createDir (leafFS u) (renderC (pre ++ [c])) _)
    refine .createDir ⟨pre ++ [c], hg1, rfl⟩ (renderC_ne_nil (by simp)) (fun r => ?_)
    cases r with
    | ok a => exact hnext
    | err k p => cases k <;> first | exact hnext | exact .done (by simp [RR, EqV])
    | panic => exact .done (by simp [RR, EqV])

theorem ref_vCreateDirAll (hbu : ∀ c ∈ bu, GoodComp c) (id : Nat) (ds : List Str)
    (hds : ∀ c ∈ ds, GoodComp c) :
    Ref spec ls u bu EqV
      (vCreateDirAll { fs := leafFS u, fsId := id, path := renderC bu ++ renderC ds })
      (vCreateDirAll { fs := leafFS u, fsId := id, path := renderC ds }) := by
  unfold vCreateDirAll cdaWith
  simp only
  rw [← renderC_append, dirPrefixes_renderC (bu ++ ds) (good_noSlash (good_append hbu hds)),
    chain_append [] bu ds, List.nil_append]
  have hwalk : ∀ rest t', Ref spec ls u bu EqV (cdaLoop (mkU u) rest) t' →
      Ref spec ls u bu EqV (cdaLoop (mkU u) (chain [] bu ++ rest)) t' := by
    intro rest t' h
    have := ref_baseWalk rest t' h bu.length 0 rfl (by omega)
    simpa using this
  by_cases hds0 : ds = []
  · subst hds0
    simp only [renderC_nil, ↓reduceIte, List.append_nil, chain]
    by_cases hb : bu = []
    · subst hb
      simp only [renderC_nil, ↓reduceIte]
      exact Ref.pure EqV.rfl
    · rw [if_neg (renderC_ne_nil hb)]
      have := hwalk [] (pure ()) (Ref.pure EqV.rfl)
      simpa using this
  · rw [if_neg (renderC_ne_nil (by simp [hds0])), if_neg (renderC_ne_nil hds0),
      dirPrefixes_renderC ds (good_noSlash hds)]
    have := ref_writeLoop (spec := spec) (ls := ls) (u := u) (bu := bu) ds [] (by simpa using hds)
    rw [List.append_nil] at this
    exact hwalk _ _ this

/-! ### the overlay functions -/

/-- the lower layers: base `b_i` of leaf `i` versus the root of leaf `i` -/
inductive LRel (spec : Nat → Option Str) (ls : List Nat) : List VPath → List VPath → Prop
  | nil : LRel spec ls [] []
  | cons {i id : Nat} {b : List Str} {L L' : List VPath} : i ∈ ls → spec i = some (renderC b) →
      (∀ c ∈ b, GoodComp c) → LRel spec ls L L' →
      LRel spec ls ({ fs := leafFS i, fsId := id, path := renderC b } :: L)
        ({ fs := leafFS i, fsId := id, path := [] } :: L')

theorem ref_firstExisting (cs : List Str) (hne : cs ≠ []) (hcs : ∀ c ∈ cs, GoodComp c)
    {L L' : List VPath} (h : LRel spec ls L L') :
    Ref spec ls u bu (ORel spec ls) (OConc.firstExisting (renderC cs) L)
      (OConc.firstExisting (renderC cs) L') := by
  induction h with
  | nil => exact Ref.pure (by simp [ORel])
  | @cons i id b L L' hi hs hb _ ih =>
    unfold OConc.firstExisting
    rw [join_sub i id b hb cs hne hcs, join_leafRoot i id cs hne hcs, OConc.ret_ok_bind,
      OConc.ret_ok_bind]
    have hp : PRel spec ls { fs := leafFS i, fsId := id, path := renderC b ++ renderC cs }
        { fs := leafFS i, fsId := id, path := renderC cs } :=
      ⟨i, id, _, _, hi, hs, Canon.rooted ⟨cs, hcs, rfl⟩, rfl, rfl⟩
    refine Ref.bind (ref_vExists hp) ?_
    rintro a _ rfl
    cases a
    · exact ih
    · exact Ref.pure (by simpa [ORel] using hp)

variable {idu : Nat} {Lr Lr' : List VPath} (hbu : ∀ c ∈ bu, GoodComp c)
  (hL : LRel spec ls Lr Lr')

/-- the layers over sub-directories / over roots -/
abbrev LS (u idu : Nat) (bu : List Str) (Lr : List VPath) : List VPath :=
  { fs := leafFS u, fsId := idu, path := renderC bu } :: Lr
abbrev LN (u idu : Nat) (Lr' : List VPath) : List VPath :=
  { fs := leafFS u, fsId := idu, path := [] } :: Lr'

include hu hspecu hbu hL in
theorem ref_readPath (ds : List Str) (hds : ∀ c ∈ ds, GoodComp c) :
    Ref spec ls u bu (PRel spec ls) (OConc.readPath (LS u idu bu Lr) (renderC ds))
      (OConc.readPath (LN u idu Lr') (renderC ds)) := by
  have hLL : LRel spec ls (LS u idu bu Lr) (LN u idu Lr') := .cons hu hspecu hbu hL
  unfold OConc.readPath
  by_cases hne : ds = []
  · subst hne
    simp only [renderC_nil, ↓reduceIte]
    refine Ref.pure ?_
    have := prel_u (ls := ls) hu hspecu idu (k := []) (Or.inl rfl)
    simpa [writeLayer] using this
  · rw [if_neg (renderC_ne_nil hne), if_neg (renderC_ne_nil hne),
      whiteout_sub u idu bu hbu Lr ds hds, whiteout_root u idu Lr' ds hds,
      OConc.ret_ok_bind, OConc.ret_ok_bind]
    refine Ref.bind (ref_vExists (prel_u hu hspecu idu (wkey_rooted ds))) ?_
    rintro marked _ rfl
    cases marked
    · simp only [Bool.false_eq_true, ↓reduceIte]
      refine Ref.bind (ref_firstExisting ds hne hds hLL) ?_
      intro found found' hf
      cases found <;> cases found' <;> simp only [ORel] at hf
      · show Ref spec ls u bu (PRel spec ls) (Prog.ret _ >>= _) (Prog.ret _ >>= _)
        have hj : writeLayer (LS u idu bu Lr) = { fs := leafFS u, fsId := idu, path := renderC bu } := rfl
        have hj' : writeLayer (LN u idu Lr') = { fs := leafFS u, fsId := idu, path := [] } := rfl
        rw [hj, hj', join_sub u idu bu hbu ds hne hds, join_leafRoot u idu ds hne hds,
          OConc.ret_ok_bind, OConc.ret_ok_bind]
        have hp := prel_u (ls := ls) hu hspecu idu (Canon.rooted ⟨ds, hds, rfl⟩)
        refine Ref.bind (ref_vExists hp) ?_
        rintro ex _ rfl
        cases ex
        · exact Ref.failK _
        · exact Ref.pure hp
      · exact Ref.pure hf
    · exact Ref.failK _

include hu hspecu hbu hL in
theorem ref_oexists (ds : List Str) (hds : ∀ c ∈ ds, GoodComp c) :
    Ref spec ls u bu EqV (OConc.oexists (LS u idu bu Lr) (renderC ds))
      (OConc.oexists (LN u idu Lr') (renderC ds)) := by
  unfold OConc.oexists
  rw [whiteout_sub u idu bu hbu Lr ds hds, whiteout_root u idu Lr' ds hds,
    OConc.ret_ok_bind, OConc.ret_ok_bind]
  refine Ref.bind (ref_vExists (prel_u hu hspecu idu (wkey_rooted ds))) ?_
  rintro marked _ rfl
  cases marked
  · simp only [Bool.false_eq_true, ↓reduceIte]
    refine Ref.bindR (ref_readPath hu hspecu hbu hL ds hds) ?_
    intro r r' hrr
    cases r <;> cases r' <;> simp only [RR] at hrr
    · exact ref_vExists hrr
    · subst hrr
      rename_i k _ _
      cases k <;> exact .done (by simp [RR, EqV])
    · exact .done (by simp [RR, EqV])
  · exact Ref.pure EqV.rfl

include hu hspecu hbu hL in
theorem ref_ensureHasParent (ds : List Str) (n : Str) (hds : ∀ c ∈ ds, GoodComp c)
    (hn : GoodComp n) :
    Ref spec ls u bu EqV (OConc.ensureHasParent (LS u idu bu Lr) (renderC (ds ++ [n])))
      (OConc.ensureHasParent (LN u idu Lr') (renderC (ds ++ [n]))) := by
  unfold OConc.ensureHasParent
  rw [if_pos (slash_mem_renderC (by simp)), if_pos (slash_mem_renderC (by simp)),
    parent_snoc ds n hds hn]
  refine Ref.bind (ref_oexists hu hspecu hbu hL ds hds) ?_
  rintro ex _ rfl
  cases ex
  · exact Ref.failK _
  · simp only [↓reduceIte]
    refine Ref.bind (ref_readPath hu hspecu hbu hL ds hds) ?_
    intro rp rp' hrp
    refine Ref.bind (ref_vIsDir hrp) ?_
    rintro isd _ rfl
    cases isd
    · exact Ref.failK _
    · simp only [↓reduceIte]
      rw [writePath_sub u idu bu hbu Lr ds hds, writePath_root' u idu Lr' ds hds,
        OConc.ret_ok_bind, OConc.ret_ok_bind]
      exact ref_vCreateDirAll hbu idu ds hds

include hu hspecu hbu in
theorem ref_clearWhiteoutT (cs : List Str) (hcs : ∀ c ∈ cs, GoodComp c) :
    Ref spec ls u bu EqV (OConc.clearWhiteoutT (LS u idu bu Lr) (renderC cs))
      (OConc.clearWhiteoutT (LN u idu Lr') (renderC cs)) := by
  unfold OConc.clearWhiteoutT
  rw [whiteout_sub u idu bu hbu Lr cs hcs, whiteout_root u idu Lr' cs hcs,
    OConc.ret_ok_bind, OConc.ret_ok_bind]
  refine Ref.bind (ref_vExists (prel_u hu hspecu idu (wkey_rooted cs))) ?_
  rintro ex _ rfl
  cases ex
  · exact Ref.pure EqV.rfl
  · simp only [↓reduceIte]
    refine Ref.bindR (ref_vRemoveFile idu (wkey_rooted cs)) ?_
    intro r r' hrr
    cases r <;> cases r' <;> simp only [RR] at hrr
    · exact .done (by simp [RR, EqV])
    · subst hrr
      rename_i k _ _
      cases k <;> exact .done (by simp [RR, EqV])
    · exact .done (by simp [RR, EqV])

include hu hspecu hbu hL in
theorem ref_createDir (ds : List Str) (n : Str) (hds : ∀ c ∈ ds, GoodComp c) (hn : GoodComp n) :
    Ref spec ls u bu EqV (OConc.createDir (LS u idu bu Lr) (renderC (ds ++ [n])))
      (OConc.createDir (LN u idu Lr') (renderC (ds ++ [n]))) := by
  have hcs := good_snoc hds hn
  have hne : ds ++ [n] ≠ [] := by simp
  unfold OConc.createDir OConc.createDirHead
  refine Ref.bind (ref_ensureHasParent hu hspecu hbu hL ds n hds hn) ?_
  rintro _ _ _
  refine Ref.bind (ref_oexists hu hspecu hbu hL _ hcs) ?_
  rintro ex _ rfl
  cases ex
  · simp only [Bool.false_eq_true, ↓reduceIte]
    rw [writePath_sub u idu bu hbu Lr _ hcs, writePath_root' u idu Lr' _ hcs,
      OConc.ret_ok_bind, OConc.ret_ok_bind]
    refine Ref.bindR (ref_vCreateDir hu hspecu idu ⟨_, hcs, rfl⟩ (renderC_ne_nil hne)) ?_
    intro r r' hrr
    have hclr := ref_clearWhiteoutT (Lr := Lr) (Lr' := Lr') hu hspecu hbu (idu := idu) _ hcs
    cases r <;> cases r' <;> simp only [RR] at hrr
    · exact hclr
    · subst hrr
      rename_i k _ _
      cases k <;> first
        | exact .done (by simp [RR, EqV])
        | (refine Ref.bindR hclr ?_
           intro r2 r2' h2
           cases r2 <;> cases r2' <;> simp only [RR] at h2
           · exact .done (by simp [RR, EqV])
           · exact .done (by simpa [RR, EqV] using h2)
           · exact .done (by simp [RR, EqV]))
    · exact .done (by simp [RR, EqV])
  · simp only [↓reduceIte]
    refine Ref.bind (ref_readPath hu hspecu hbu hL _ hcs) ?_
    intro q q' hq
    refine Ref.bind (ref_vMetadata hq) ?_
    rintro md _ rfl
    exact Ref.failK _

/-- the loop of `create_dir_all` with the SAME prefixes on both sides -/
theorem ref_cdaLoop_same (mk mk' : Str → Prog Unit) (ds : List Str)
    (h : ∀ d ∈ ds, Ref spec ls u bu EqV (mk d) (mk' d)) :
    Ref spec ls u bu EqV (cdaLoop mk ds) (cdaLoop mk' ds) := by
  induction ds with
  | nil => exact Ref.pure EqV.rfl
  | cons d rest ih =>
    have hrest := ih (fun x hx => h x (by simp [hx]))
    unfold cdaLoop
    refine Ref.bindR (h d (by simp)) ?_
    intro r r' hrr
    cases r <;> cases r' <;> simp only [RR] at hrr
    · exact hrest
    · subst hrr
      rename_i k _ _
      cases k <;> first | exact hrest | exact .done (by simp [RR, EqV])
    · exact .done (by simp [RR, EqV])

include hu hspecu hbu hL in
/-- **`create_dir_all` on the overlay over sub-directory layers refines the one over roots** -/
theorem ref_createDirAll (cs : List Str) (hcs : ∀ c ∈ cs, GoodComp c) :
    Ref spec ls u bu EqV (OConc.createDirAll (LS u idu bu Lr) (renderC cs))
      (OConc.createDirAll (LN u idu Lr') (renderC cs)) := by
  unfold OConc.createDirAll cdaWith
  by_cases hne : cs = []
  · subst hne
    simp only [renderC_nil, ↓reduceIte]
    exact Ref.pure EqV.rfl
  · rw [if_neg (renderC_ne_nil hne), if_neg (renderC_ne_nil hne),
      dirPrefixes_renderC cs (good_noSlash hcs)]
    refine ref_cdaLoop_same _ _ _ ?_
    intro d hd
    obtain ⟨j, h1, h2, rfl⟩ := (mem_chain [] cs d).1 hd
    simp only [List.nil_append]
    have hlt : j - 1 < cs.length := by omega
    have htk : cs.take j = cs.take (j - 1) ++ [cs[j - 1]] := by
      have := take_succ_snoc' cs (j - 1) hlt
      rwa [Nat.sub_add_cancel h1] at this
    rw [htk]
    exact ref_createDir hu hspecu hbu hL _ _
      (fun c hc => hcs c (List.mem_of_mem_take hc)) (hcs _ (List.getElem_mem hlt))

end prog
end Vfs.SConc
