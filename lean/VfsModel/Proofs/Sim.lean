/-
  A RELATIONAL (simulation) calculus for the state monad `M` of the model, and parametricity of
  the `VfsPath` layer (PathOps.lean) and of the adapters (Adapters.lean).

  WHAT IS PROVED (no sorry, no axiom)
  A. Calculus.
     * `RelRes PR Q r1 r2`  — two outcomes are related: ok/ok with `Q`-related values, err/err with
       EQUAL kind and `PR`-related error paths, panic/panic.
     * `SimM R PR Q m1 m2`  — from `R`-related worlds the two computations end in `R`-related
       worlds with `RelRes PR Q`-related outcomes.
     * closure lemmas `SimM.pure/bind/bind_eq/ret/withPath/attempt/failK/failAt/ite/mono/…`.
     `PR` is a parameter (how error PATHS are related); it only has to be reflexive (`ReflPR`).
  B. Parametricity.
     * `SimFS0 R PR H fs1 fs2` : the 14 trait methods other than `copy_file`, called with the SAME
       canonical path string (`Canon`, Proofs/PathLemmas.lean), are related; `read_dir` returns
       equal lists of canonical names; write handles are related by `H`; `create_dir` and
       `remove_dir` are only required away from the root "" (see Proofs/SubtreeSim.lean for why).
       `SimFS` = `SimFS0` + the `VfsPath`-level `copy_file` between two paths of the filesystem
       is related (this WEAK form of the `copy_file` field is what lets an altroot, which
       implements `copy_file`, be related to a memory filesystem, which does not);
       `SimFS.of_strong` derives it from a direct relation of the two `copy_file` methods.
     * `SimHandles R PR H` : hypothesis on the handle operations of Handle.lean (`write`, `flush`
       (= `drop`), `seek`) for `H`-related handles.
     * `SimVPath` : related filesystems, equal `fsId`, EQUAL canonical path strings.
     * every operation of PathOps.lean maps related paths to related computations:
       `sim_exists, sim_metadata, sim_getParent, sim_createDir, sim_createDirAll, sim_readDir,
        sim_createFile, sim_openFile, sim_appendFile, sim_removeFile, sim_removeDir, sim_set*Time,
        sim_isFile, sim_isDir, sim_removeDirAll, sim_walkDir, sim_walkFind, sim_walkNext,
        sim_walkAll, sim_readToEndChecked, sim_ioCopyAndDrop, sim_copyFile, sim_moveFile,
        sim_copyItems, sim_copyDir, sim_moveDir, sim_writeSession, sim_appendSession`.
     * adapters: `Altroot.sim_fs` (related roots ⇒ related altroots), `Overlay.sim_fs` (pointwise
       related layer lists ⇒ related overlays), `sim_recordFS`, `sim_faultFS`.

  HYPOTHESES that recur: `[ReflPR PR]`; `SimHandles R PR H` where handles are written/dropped;
  `IdsOK` (paths with equal `fsId` carry the same filesystem value — the model's reading of
  "same `Arc`") where `copy_file` may take the same-filesystem fast path.

  C. `sim` — a tactic that discharges `SimM` goals between two computations of the same shape by
     structural decomposition (bind steps from the local context); `SimM.transfer` (carry a run
     equation across a simulation); sanity lemmas `SimM.eq_of_eq`, `SimM.refl_eq`.

  NOT PROVED here: relations between DIFFERENT path strings at the `VfsPath` level (the prefix
  shift is done at the leaf, Proofs/SubtreeSim.lean); the async ports.
-/
import VfsModel.Proofs.OverlayLemmas
set_option linter.unusedVariables false
set_option linter.unusedSectionVars false
namespace Vfs

/-! ## A. the calculus -/

/-- two outcomes are related -/
inductive RelRes {α β : Type} (PR : Option Str → Option Str → Prop) (Q : α → β → Prop) :
    Res α → Res β → Prop
  | ok {a : α} {b : β} : Q a b → RelRes PR Q (.ok a) (.ok b)
  | err {k : ErrKind} {p1 p2 : Option Str} : PR p1 p2 → RelRes PR Q (.err k p1) (.err k p2)
  | panic : RelRes PR Q .panic .panic

/-- the relation on error paths is reflexive -/
class ReflPR (PR : Option Str → Option Str → Prop) : Prop where
  refl : ∀ x, PR x x

instance : ReflPR (· = ·) := ⟨fun _ => rfl⟩
instance : ReflPR (fun _ _ => True) := ⟨fun _ => trivial⟩

/-- simulation: related worlds in, related outcomes and related worlds out -/
def SimM {α β : Type} (R : World → World → Prop) (PR : Option Str → Option Str → Prop)
    (Q : α → β → Prop) (m1 : M α) (m2 : M β) : Prop :=
  ∀ w1 w2, R w1 w2 → RelRes PR Q (m1 w1).1 (m2 w2).1 ∧ R (m1 w1).2 (m2 w2).2

namespace RelRes
variable {α β : Type} {PR : Option Str → Option Str → Prop} {Q : α → β → Prop}

theorem mono {Q' : α → β → Prop} {r1 : Res α} {r2 : Res β} (h : RelRes PR Q r1 r2)
    (hq : ∀ a b, Q a b → Q' a b) : RelRes PR Q' r1 r2 := by
  cases h with
  | ok h => exact .ok (hq _ _ h)
  | err h => exact .err h
  | panic => exact .panic

theorem monoPR {PR' : Option Str → Option Str → Prop} {r1 : Res α} {r2 : Res β}
    (h : RelRes PR Q r1 r2) (hp : ∀ a b, PR a b → PR' a b) : RelRes PR' Q r1 r2 := by
  cases h with
  | ok h => exact .ok h
  | err h => exact .err (hp _ _ h)
  | panic => exact .panic

theorem refl [ReflPR PR] {Q : α → α → Prop} (hq : ∀ a, Q a a) (r : Res α) : RelRes PR Q r r := by
  cases r with
  | ok a => exact .ok (hq a)
  | err k p => exact .err (ReflPR.refl p)
  | panic => exact .panic

theorem withPath [ReflPR PR] {r1 : Res α} {r2 : Res β} (p : Str) (h : RelRes PR Q r1 r2) :
    RelRes PR Q (r1.withPath p) (r2.withPath p) := by
  cases h with
  | ok h => exact .ok h
  | err h => exact .err (ReflPR.refl _)
  | panic => exact .panic

theorem map {γ δ : Type} {Q' : γ → δ → Prop} {r1 : Res α} {r2 : Res β} {f : α → γ} {g : β → δ}
    (h : RelRes PR Q r1 r2) (hf : ∀ a b, Q a b → Q' (f a) (g b)) :
    RelRes PR Q' (r1.map f) (r2.map g) := by
  cases h with
  | ok h => exact .ok (hf _ _ h)
  | err h => exact .err h
  | panic => exact .panic

/-- related outcomes succeed together -/
theorem isOk_eq {r1 : Res α} {r2 : Res β} (h : RelRes PR Q r1 r2) : r1.isOk = r2.isOk := by
  cases h <;> rfl

theorem kind_eq {r1 : Res α} {r2 : Res β} (h : RelRes PR Q r1 r2) : r1.kind? = r2.kind? := by
  cases h <;> rfl

theorem isPanic_eq {r1 : Res α} {r2 : Res β} (h : RelRes PR Q r1 r2) :
    r1.isPanic = r2.isPanic := by
  cases h <;> rfl

/-- with `Q` and `PR` equality, related outcomes are equal -/
theorem eq_of_eq {r1 r2 : Res α} (h : RelRes (· = ·) (· = ·) r1 r2) : r1 = r2 := by
  cases h with
  | ok h => rw [h]
  | err h => rw [h]
  | panic => rfl

end RelRes

namespace SimM
variable {α β γ δ : Type} {R : World → World → Prop} {PR : Option Str → Option Str → Prop}
  {Q : α → β → Prop}

theorem pure {a : α} {b : β} (h : Q a b) : SimM R PR Q (Pure.pure a : M α) (Pure.pure b : M β) :=
  fun _ _ hr => ⟨.ok h, hr⟩

theorem mpure {a : α} {b : β} (h : Q a b) : SimM R PR Q (M.pure a) (M.pure b) :=
  fun _ _ hr => ⟨.ok h, hr⟩

theorem ret {r1 : Res α} {r2 : Res β} (h : RelRes PR Q r1 r2) : SimM R PR Q (M.ret r1) (M.ret r2) :=
  fun _ _ hr => ⟨h, hr⟩

theorem ret_refl [ReflPR PR] {Q : α → α → Prop} (hq : ∀ a, Q a a) (r : Res α) :
    SimM R PR Q (M.ret r) (M.ret r) := ret (RelRes.refl hq r)

theorem panic : SimM R PR Q (M.ret .panic : M α) (M.ret .panic : M β) := ret .panic

theorem failK [ReflPR PR] (k : ErrKind) : SimM R PR Q (M.failK k : M α) (M.failK k : M β) :=
  fun _ _ hr => ⟨.err (ReflPR.refl _), hr⟩

theorem failAt [ReflPR PR] (k : ErrKind) (p : Str) :
    SimM R PR Q (M.failAt k p : M α) (M.failAt k p : M β) :=
  fun _ _ hr => ⟨.err (ReflPR.refl _), hr⟩

theorem bind {Q' : γ → δ → Prop} {m1 : M α} {m2 : M β} {f : α → M γ} {g : β → M δ}
    (hm : SimM R PR Q m1 m2) (hf : ∀ a b, Q a b → SimM R PR Q' (f a) (g b)) :
    SimM R PR Q' (m1 >>= f) (m2 >>= g) := by
  intro w1 w2 hr
  show RelRes PR Q' (M.bind m1 f w1).1 (M.bind m2 g w2).1 ∧ R (M.bind m1 f w1).2 (M.bind m2 g w2).2
  unfold M.bind
  obtain ⟨h1, h2⟩ := hm w1 w2 hr
  rcases hm1 : m1 w1 with ⟨r1, w1'⟩
  rcases hm2 : m2 w2 with ⟨r2, w2'⟩
  rw [hm1, hm2] at h1 h2
  cases h1 with
  | ok hq => exact hf _ _ hq w1' w2' h2
  | err hp => exact ⟨.err hp, h2⟩
  | panic => exact ⟨.panic, h2⟩

theorem mbind {Q' : γ → δ → Prop} {m1 : M α} {m2 : M β} {f : α → M γ} {g : β → M δ}
    (hm : SimM R PR Q m1 m2) (hf : ∀ a b, Q a b → SimM R PR Q' (f a) (g b)) :
    SimM R PR Q' (M.bind m1 f) (M.bind m2 g) := bind hm hf

/-- bind after equal values -/
theorem bind_eq {Q' : γ → δ → Prop} {m1 m2 : M α} {f : α → M γ} {g : α → M δ}
    (hm : SimM R PR (· = ·) m1 m2) (hf : ∀ a, SimM R PR Q' (f a) (g a)) :
    SimM R PR Q' (m1 >>= f) (m2 >>= g) :=
  bind hm (fun a b hab => by cases hab; exact hf a)

/-- sequencing after a unit computation -/
theorem seq {Q' : γ → δ → Prop} {Q0 : Unit → Unit → Prop} {m1 m2 : M Unit} {f : M γ} {g : M δ}
    (hm : SimM R PR Q0 m1 m2) (hf : SimM R PR Q' f g) :
    SimM R PR Q' (m1 >>= fun _ => f) (m2 >>= fun _ => g) :=
  bind hm (fun _ _ _ => hf)

theorem withPath [ReflPR PR] (p : Str) {m1 : M α} {m2 : M β} (h : SimM R PR Q m1 m2) :
    SimM R PR Q (M.withPath p m1) (M.withPath p m2) := by
  intro w1 w2 hr
  obtain ⟨h1, h2⟩ := h w1 w2 hr
  unfold M.withPath
  exact ⟨h1.withPath p, h2⟩

theorem attempt {m1 : M α} {m2 : M β} (h : SimM R PR Q m1 m2) :
    SimM R PR (RelRes PR Q) (M.attempt m1) (M.attempt m2) := by
  intro w1 w2 hr
  obtain ⟨h1, h2⟩ := h w1 w2 hr
  unfold M.attempt
  exact ⟨.ok h1, h2⟩

theorem ite {c : Prop} [Decidable c] {a1 b1 : M α} {a2 b2 : M β}
    (ha : c → SimM R PR Q a1 a2) (hb : ¬c → SimM R PR Q b1 b2) :
    SimM R PR Q (if c then a1 else b1) (if c then a2 else b2) := by
  by_cases hc : c
  · rw [if_pos hc, if_pos hc]; exact ha hc
  · rw [if_neg hc, if_neg hc]; exact hb hc

theorem mono {Q' : α → β → Prop} {m1 : M α} {m2 : M β} (h : SimM R PR Q m1 m2)
    (hq : ∀ a b, Q a b → Q' a b) : SimM R PR Q' m1 m2 :=
  fun w1 w2 hr => ⟨(h w1 w2 hr).1.mono hq, (h w1 w2 hr).2⟩

theorem monoPR {PR' : Option Str → Option Str → Prop} {m1 : M α} {m2 : M β}
    (h : SimM R PR Q m1 m2) (hp : ∀ a b, PR a b → PR' a b) : SimM R PR' Q m1 m2 :=
  fun w1 w2 hr => ⟨(h w1 w2 hr).1.monoPR hp, (h w1 w2 hr).2⟩

/-- map the result -/
theorem map_pure {Q' : γ → δ → Prop} {m1 : M α} {m2 : M β} {f : α → γ} {g : β → δ}
    (hm : SimM R PR Q m1 m2) (hf : ∀ a b, Q a b → Q' (f a) (g b)) :
    SimM R PR Q' (m1 >>= fun a => Pure.pure (f a)) (m2 >>= fun b => Pure.pure (g b)) :=
  bind hm (fun a b hab => pure (hf a b hab))

/-- the elimination form used for code written as `fun w => match m w with …` -/
theorem run {m1 : M α} {m2 : M β} (h : SimM R PR Q m1 m2) {w1 w2 : World} (hr : R w1 w2)
    {r1 : Res α} {w1' : World} {r2 : Res β} {w2' : World}
    (h1 : m1 w1 = (r1, w1')) (h2 : m2 w2 = (r2, w2')) : RelRes PR Q r1 r2 ∧ R w1' w2' := by
  have := h w1 w2 hr
  rw [h1, h2] at this
  exact this

end SimM

end Vfs

namespace Vfs

/-! ## B. parametricity -/

/-- relation lifted to options -/
def OptRel {α β : Type} (Q : α → β → Prop) : Option α → Option β → Prop
  | none, none => True
  | some a, some b => Q a b
  | _, _ => False

/-- `read_dir` results: the same names, all canonical components -/
def NamesRel (l1 l2 : List Str) : Prop := l1 = l2 ∧ ∀ n ∈ l1, GoodComp n

/-- results of handle operations: same count / position, related handle -/
def HRes (H : WHandle → WHandle → Prop) (r1 r2 : Nat × WHandle) : Prop := r1.1 = r2.1 ∧ H r1.2 r2.2

/-- the handle operations of Handle.lean are related for `H`-related handles -/
structure SimHandles (R : World → World → Prop) (PR : Option Str → Option Str → Prop)
    (H : WHandle → WHandle → Prop) : Prop where
  write : ∀ h1 h2 bs, H h1 h2 → SimM R PR (HRes H) (h1.write bs) (h2.write bs)
  flush : ∀ h1 h2, H h1 h2 → SimM R PR (· = ·) h1.flush h2.flush
  seek : ∀ h1 h2 s, H h1 h2 → SimM R PR (HRes H) (h1.seek s) (h2.seek s)

theorem SimHandles.drop {R PR H} (hh : SimHandles R PR H) (h1 h2 : WHandle) (h : H h1 h2) :
    SimM R PR (· = ·) h1.drop h2.drop := hh.flush h1 h2 h

/-- the trait methods other than `copy_file`, at equal canonical paths -/
structure SimFS0 (R : World → World → Prop) (PR : Option Str → Option Str → Prop)
    (H : WHandle → WHandle → Prop) (fs1 fs2 : FS) : Prop where
  readDir : ∀ p, Canon p → SimM R PR NamesRel (fs1.readDir p) (fs2.readDir p)
  createDir : ∀ p, Canon p → p ≠ [] → SimM R PR (· = ·) (fs1.createDir p) (fs2.createDir p)
  openFile : ∀ p, Canon p → SimM R PR (· = ·) (fs1.openFile p) (fs2.openFile p)
  createFile : ∀ p, Canon p → SimM R PR H (fs1.createFile p) (fs2.createFile p)
  appendFile : ∀ p, Canon p → SimM R PR H (fs1.appendFile p) (fs2.appendFile p)
  metadata : ∀ p, Canon p → SimM R PR (· = ·) (fs1.metadata p) (fs2.metadata p)
  setCreationTime : ∀ p t, Canon p →
    SimM R PR (· = ·) (fs1.setCreationTime p t) (fs2.setCreationTime p t)
  setModificationTime : ∀ p t, Canon p →
    SimM R PR (· = ·) (fs1.setModificationTime p t) (fs2.setModificationTime p t)
  setAccessTime : ∀ p t, Canon p →
    SimM R PR (· = ·) (fs1.setAccessTime p t) (fs2.setAccessTime p t)
  exists_ : ∀ p, Canon p → SimM R PR (· = ·) (fs1.exists_ p) (fs2.exists_ p)
  removeFile : ∀ p, Canon p → SimM R PR (· = ·) (fs1.removeFile p) (fs2.removeFile p)
  removeDir : ∀ p, Canon p → p ≠ [] → SimM R PR (· = ·) (fs1.removeDir p) (fs2.removeDir p)
  moveFile : ∀ s d, Canon s → Canon d → SimM R PR (· = ·) (fs1.moveFile s d) (fs2.moveFile s d)
  moveDir : ∀ s d, Canon s → Canon d → SimM R PR (· = ·) (fs1.moveDir s d) (fs2.moveDir s d)

/-- related filesystems: `SimFS0` and the `VfsPath`-level `copy_file` within the filesystem -/
structure SimFS (R : World → World → Prop) (PR : Option Str → Option Str → Prop)
    (H : WHandle → WHandle → Prop) (fs1 fs2 : FS) : Prop where
  base : SimFS0 R PR H fs1 fs2
  copyFileV : ∀ id s d, Canon s → Canon d →
    SimM R PR (· = ·)
      (VPath.copyFile { fs := fs1, fsId := id, path := s } { fs := fs1, fsId := id, path := d })
      (VPath.copyFile { fs := fs2, fsId := id, path := s } { fs := fs2, fsId := id, path := d })

/-- related paths (weak form: without `copy_file`) -/
structure SimVPath0 (R : World → World → Prop) (PR : Option Str → Option Str → Prop)
    (H : WHandle → WHandle → Prop) (v1 v2 : VPath) : Prop where
  fs : SimFS0 R PR H v1.fs v2.fs
  id : v2.fsId = v1.fsId
  path : v2.path = v1.path
  canon : Canon v1.path

/-- related paths: related filesystems, same identity, EQUAL canonical path strings -/
structure SimVPath (R : World → World → Prop) (PR : Option Str → Option Str → Prop)
    (H : WHandle → WHandle → Prop) (v1 v2 : VPath) : Prop where
  fs : SimFS R PR H v1.fs v2.fs
  id : v2.fsId = v1.fsId
  path : v2.path = v1.path
  canon : Canon v1.path

section param
variable {R : World → World → Prop} {PR : Option Str → Option Str → Prop}
  {H : WHandle → WHandle → Prop}

theorem SimVPath.to0 {v1 v2 : VPath} (h : SimVPath R PR H v1 v2) : SimVPath0 R PR H v1 v2 :=
  ⟨h.fs.base, h.id, h.path, h.canon⟩

theorem SimVPath0.withStr {v1 v2 : VPath} (h : SimVPath0 R PR H v1 v2) (s : Str) (hs : Canon s) :
    SimVPath0 R PR H (v1.withStr s) (v2.withStr s) := ⟨h.fs, h.id, rfl, hs⟩

theorem SimVPath.withStr {v1 v2 : VPath} (h : SimVPath R PR H v1 v2) (s : Str) (hs : Canon s) :
    SimVPath R PR H (v1.withStr s) (v2.withStr s) := ⟨h.fs, h.id, rfl, hs⟩

theorem SimVPath0.parent {v1 v2 : VPath} (h : SimVPath0 R PR H v1 v2) :
    SimVPath0 R PR H v1.parent v2.parent := by
  unfold VPath.parent
  rw [h.path]
  exact h.withStr _ (C06.parent_canonical _ h.canon)

theorem SimVPath.parent {v1 v2 : VPath} (h : SimVPath R PR H v1 v2) :
    SimVPath R PR H v1.parent v2.parent := by
  unfold VPath.parent
  rw [h.path]
  exact h.withStr _ (C06.parent_canonical _ h.canon)

theorem canon_child {p n : Str} (hp : Canon p) (hn : GoodComp n) : Canon (p ++ '/' :: n) := by
  obtain ⟨cs, hcs, rfl⟩ := hp
  refine ⟨cs ++ [n], ?_, by simp⟩
  intro c hc
  rcases List.mem_append.1 hc with hc | hc
  · exact hcs c hc
  · rw [List.mem_singleton.1 hc]; exact hn

/-- `join` of related paths: same outcome, related results -/
theorem SimVPath0.join [ReflPR PR] {v1 v2 : VPath} (h : SimVPath0 R PR H v1 v2) (arg : Str) :
    RelRes PR (SimVPath0 R PR H) (v1.join arg) (v2.join arg) := by
  unfold VPath.join
  rw [h.path]
  cases hj : joinInternal v1.path arg with
  | ok r => exact .ok (h.withStr r (C06.join_canonical _ _ _ h.canon hj))
  | err k p => exact .err (ReflPR.refl _)
  | panic => exact .panic

theorem SimVPath.join [ReflPR PR] {v1 v2 : VPath} (h : SimVPath R PR H v1 v2) (arg : Str) :
    RelRes PR (SimVPath R PR H) (v1.join arg) (v2.join arg) := by
  unfold VPath.join
  rw [h.path]
  cases hj : joinInternal v1.path arg with
  | ok r => exact .ok (h.withStr r (C06.join_canonical _ _ _ h.canon hj))
  | err k p => exact .err (ReflPR.refl _)
  | panic => exact .panic

namespace VPath
variable [ReflPR PR]

/-! ### single calls -/

theorem sim0_exists {v1 v2 : VPath} (h : SimVPath0 R PR H v1 v2) :
    SimM R PR (· = ·) v1.exists_ v2.exists_ := by
  unfold VPath.exists_; rw [h.path]; exact h.fs.exists_ _ h.canon

theorem sim0_metadata {v1 v2 : VPath} (h : SimVPath0 R PR H v1 v2) :
    SimM R PR (· = ·) v1.metadata v2.metadata := by
  unfold VPath.metadata; rw [h.path]; exact SimM.withPath _ (h.fs.metadata _ h.canon)

theorem sim0_openFile {v1 v2 : VPath} (h : SimVPath0 R PR H v1 v2) :
    SimM R PR (· = ·) v1.openFile v2.openFile := by
  unfold VPath.openFile; rw [h.path]; exact SimM.withPath _ (h.fs.openFile _ h.canon)

theorem sim0_getParent {v1 v2 : VPath} (h : SimVPath0 R PR H v1 v2) :
    SimM R PR (· = ·) v1.getParent v2.getParent := by
  unfold VPath.getParent
  dsimp only
  refine SimM.bind_eq (sim0_exists h.parent) fun c => ?_
  rw [h.path]
  refine SimM.ite (fun _ => SimM.failAt _ _) (fun _ => ?_)
  refine SimM.bind_eq (sim0_metadata h.parent) fun md => ?_
  exact SimM.ite (fun _ => SimM.failAt _ _) (fun _ => SimM.pure rfl)

theorem sim0_createFile {v1 v2 : VPath} (h : SimVPath0 R PR H v1 v2) :
    SimM R PR H v1.createFile v2.createFile := by
  unfold VPath.createFile
  refine SimM.bind_eq (sim0_getParent h) fun _ => ?_
  rw [h.path]
  exact SimM.withPath _ (h.fs.createFile _ h.canon)

theorem sim0_createDir {v1 v2 : VPath} (h : SimVPath0 R PR H v1 v2) (hne : v1.path ≠ []) :
    SimM R PR (· = ·) v1.createDir v2.createDir := by
  unfold VPath.createDir
  refine SimM.bind_eq (sim0_getParent h) fun _ => ?_
  rw [h.path]
  exact SimM.withPath _ (h.fs.createDir _ h.canon hne)

theorem sim0_removeFile {v1 v2 : VPath} (h : SimVPath0 R PR H v1 v2) :
    SimM R PR (· = ·) v1.removeFile v2.removeFile := by
  unfold VPath.removeFile; rw [h.path]; exact SimM.withPath _ (h.fs.removeFile _ h.canon)

theorem sim_ioCopyAndDrop (hh : SimHandles R PR H) (r : RHandle) {h1 h2 : WHandle} (h : H h1 h2)
    (sp : Str) : SimM R PR (· = ·) (ioCopyAndDrop r h1 sp) (ioCopyAndDrop r h2 sp) := by
  unfold ioCopyAndDrop
  refine SimM.bind_eq (SimM.withPath _ (SimM.ret_refl (fun _ => rfl) _)) fun bytes => ?_
  refine SimM.bind (hh.write h1 h2 bytes h) fun r1 r2 hr => ?_
  obtain ⟨n1, h1'⟩ := r1
  obtain ⟨n2, h2'⟩ := r2
  exact hh.drop _ _ hr.2

/-- the body of `copy_file`, given a relation between the two fast paths -/
theorem sim_copyFile_body (hh : SimHandles R PR H) {s1 s2 d1 d2 : VPath}
    (hs : SimVPath0 R PR H s1 s2) (hd : SimVPath0 R PR H d1 d2)
    (hfast : s1.fsId = d1.fsId →
      SimM R PR (· = ·) (s1.fs.copyFile s1.path d1.path) (s2.fs.copyFile s2.path d2.path)) :
    SimM R PR (· = ·) (s1.copyFile d1) (s2.copyFile d2) := by
  unfold VPath.copyFile
  rw [hs.path]
  apply SimM.withPath
  refine SimM.bind_eq (sim0_exists hd) fun c => ?_
  refine SimM.ite (fun _ => SimM.failAt _ _) (fun _ => ?_)
  refine SimM.bind (Q := RelRes PR (· = ·)) ?_ ?_
  · rw [hs.id, hd.id]
    refine SimM.ite (fun hid => SimM.attempt ?_) (fun _ => SimM.pure (.err (ReflPR.refl _)))
    have := hfast hid
    rw [hs.path] at this
    exact this
  · intro f1 f2 hf
    cases hf with
    | ok _ => exact SimM.pure rfl
    | panic => exact SimM.panic
    | err hp =>
      dsimp only
      refine SimM.ite (fun _ => SimM.ret (.err hp)) (fun _ => ?_)
      refine SimM.bind_eq (sim0_openFile hs) fun r => ?_
      refine SimM.bind (sim0_createFile hd) fun w1 w2 hw => ?_
      exact sim_ioCopyAndDrop hh r hw _

end VPath

/-- a direct relation between the two `copy_file` methods gives the weak field -/
theorem SimFS.of_strong [ReflPR PR] (hh : SimHandles R PR H) {fs1 fs2 : FS}
    (h0 : SimFS0 R PR H fs1 fs2)
    (hc : ∀ s d, Canon s → Canon d → SimM R PR (· = ·) (fs1.copyFile s d) (fs2.copyFile s d)) :
    SimFS R PR H fs1 fs2 where
  base := h0
  copyFileV id s d hs hd :=
    VPath.sim_copyFile_body hh ⟨h0, rfl, rfl, hs⟩ ⟨h0, rfl, rfl, hd⟩ (fun _ => hc s d hs hd)

end param
end Vfs

namespace Vfs
section param2
variable {R : World → World → Prop} {PR : Option Str → Option Str → Prop}
  {H : WHandle → WHandle → Prop} [ReflPR PR]

/-- pointwise related lists -/
inductive ListRel {α β : Type} (Rel : α → β → Prop) : List α → List β → Prop
  | nil : ListRel Rel [] []
  | cons {a : α} {b : β} {l1 : List α} {l2 : List β} :
      Rel a b → ListRel Rel l1 l2 → ListRel Rel (a :: l1) (b :: l2)

theorem forall2_map_same {α β γ : Type} {Rel : β → γ → Prop} (l : List α) (f : α → β) (g : α → γ)
    (h : ∀ a ∈ l, Rel (f a) (g a)) : ListRel Rel (l.map f) (l.map g) := by
  induction l with
  | nil => exact .nil
  | cons a l ih =>
    exact .cons (h a (by simp)) (ih fun x hx => h x (by simp [hx]))

/-- related paths that also satisfy a side relation `B` (e.g. "not the root", "below the source
of the walk, in the source filesystem") -/
def SimVP (R : World → World → Prop) (PR : Option Str → Option Str → Prop)
    (H : WHandle → WHandle → Prop) (B : VPath → VPath → Prop) (v1 v2 : VPath) : Prop :=
  SimVPath R PR H v1 v2 ∧ B v1 v2

/-- `B` is inherited by the children `path/name` -/
def ChildClosed (B : VPath → VPath → Prop) : Prop :=
  ∀ v1 v2 n, B v1 v2 → GoodComp n →
    B (v1.withStr (v1.path ++ '/' :: n)) (v2.withStr (v1.path ++ '/' :: n))

/-- the children of a `B0`-pair satisfy `B` -/
def ChildStep (B0 B : VPath → VPath → Prop) : Prop :=
  ∀ v1 v2 n, B0 v1 v2 → GoodComp n →
    B (v1.withStr (v1.path ++ '/' :: n)) (v2.withStr (v1.path ++ '/' :: n))

theorem ChildClosed.step {B : VPath → VPath → Prop} (h : ChildClosed B) : ChildStep B B := h

/-- "not the root" -/
def NonRoot (v1 _v2 : VPath) : Prop := v1.path ≠ []

theorem childClosed_nonRoot : ChildClosed NonRoot := by
  intro v1 v2 n _ _
  show v1.path ++ '/' :: n ≠ []
  simp

theorem childClosed_true : ChildClosed (fun _ _ => True) := fun _ _ _ _ _ => trivial

namespace VPath

theorem sim_exists {v1 v2 : VPath} (h : SimVPath R PR H v1 v2) :
    SimM R PR (· = ·) v1.exists_ v2.exists_ := sim0_exists h.to0
theorem sim_metadata {v1 v2 : VPath} (h : SimVPath R PR H v1 v2) :
    SimM R PR (· = ·) v1.metadata v2.metadata := sim0_metadata h.to0
theorem sim_openFile {v1 v2 : VPath} (h : SimVPath R PR H v1 v2) :
    SimM R PR (· = ·) v1.openFile v2.openFile := sim0_openFile h.to0
theorem sim_getParent {v1 v2 : VPath} (h : SimVPath R PR H v1 v2) :
    SimM R PR (· = ·) v1.getParent v2.getParent := sim0_getParent h.to0
theorem sim_createFile {v1 v2 : VPath} (h : SimVPath R PR H v1 v2) :
    SimM R PR H v1.createFile v2.createFile := sim0_createFile h.to0
theorem sim_createDir {v1 v2 : VPath} (h : SimVPath R PR H v1 v2) (hne : v1.path ≠ []) :
    SimM R PR (· = ·) v1.createDir v2.createDir := sim0_createDir h.to0 hne
theorem sim_removeFile {v1 v2 : VPath} (h : SimVPath R PR H v1 v2) :
    SimM R PR (· = ·) v1.removeFile v2.removeFile := sim0_removeFile h.to0

theorem sim_appendFile {v1 v2 : VPath} (h : SimVPath R PR H v1 v2) :
    SimM R PR H v1.appendFile v2.appendFile := by
  unfold VPath.appendFile; rw [h.path]; exact SimM.withPath _ (h.fs.base.appendFile _ h.canon)

theorem sim_removeDir {v1 v2 : VPath} (h : SimVPath R PR H v1 v2) (hne : v1.path ≠ []) :
    SimM R PR (· = ·) v1.removeDir v2.removeDir := by
  unfold VPath.removeDir; rw [h.path]; exact SimM.withPath _ (h.fs.base.removeDir _ h.canon hne)

theorem sim_setCreationTime {v1 v2 : VPath} (h : SimVPath R PR H v1 v2) (t : Int) :
    SimM R PR (· = ·) (v1.setCreationTime t) (v2.setCreationTime t) := by
  unfold VPath.setCreationTime; rw [h.path]
  exact SimM.withPath _ (h.fs.base.setCreationTime _ t h.canon)

theorem sim_setModificationTime {v1 v2 : VPath} (h : SimVPath R PR H v1 v2) (t : Int) :
    SimM R PR (· = ·) (v1.setModificationTime t) (v2.setModificationTime t) := by
  unfold VPath.setModificationTime; rw [h.path]
  exact SimM.withPath _ (h.fs.base.setModificationTime _ t h.canon)

theorem sim_setAccessTime {v1 v2 : VPath} (h : SimVPath R PR H v1 v2) (t : Int) :
    SimM R PR (· = ·) (v1.setAccessTime t) (v2.setAccessTime t) := by
  unfold VPath.setAccessTime; rw [h.path]
  exact SimM.withPath _ (h.fs.base.setAccessTime _ t h.canon)

theorem sim_isFile {v1 v2 : VPath} (h : SimVPath R PR H v1 v2) :
    SimM R PR (· = ·) v1.isFile v2.isFile := by
  unfold VPath.isFile
  refine SimM.bind_eq (sim_exists h) fun c => ?_
  refine SimM.ite (fun _ => SimM.pure rfl) (fun _ => ?_)
  exact SimM.bind_eq (sim_metadata h) fun md => SimM.pure rfl

theorem sim_isDir {v1 v2 : VPath} (h : SimVPath R PR H v1 v2) :
    SimM R PR (· = ·) v1.isDir v2.isDir := by
  unfold VPath.isDir
  refine SimM.bind_eq (sim_exists h) fun c => ?_
  refine SimM.ite (fun _ => SimM.pure rfl) (fun _ => ?_)
  exact SimM.bind_eq (sim_metadata h) fun md => SimM.pure rfl

/-! ### `create_dir_all` -/

theorem dirPrefixes_canon {p d : Str} (hp : Canon p) (hd : d ∈ dirPrefixes p) :
    Canon d ∧ d ≠ [] := by
  obtain ⟨cs, hcs, rfl⟩ := hp
  rw [dirPrefixes_renderC cs (good_noSlash hcs), mem_chain] at hd
  obtain ⟨j, h1, h2, rfl⟩ := hd
  refine ⟨⟨cs.take j, fun c hc => hcs c (List.take_subset _ _ hc), by simp⟩, ?_⟩
  cases cs with
  | nil => simp at h2; omega
  | cons c cs =>
    obtain ⟨i, rfl⟩ : ∃ i, j = i + 1 := ⟨j - 1, by omega⟩
    simp

theorem sim_createDirAllLoop {v1 v2 : VPath} (h : SimVPath R PR H v1 v2) (l : List Str)
    (hl : ∀ d ∈ l, Canon d ∧ d ≠ []) :
    SimM R PR (· = ·) (createDirAllLoop v1 l) (createDirAllLoop v2 l) := by
  induction l with
  | nil => unfold createDirAllLoop; exact SimM.pure rfl
  | cons d rest ih =>
    have ih' := ih (fun x hx => hl x (by simp [hx]))
    intro w1 w2 hr
    unfold createDirAllLoop
    have hd := h.fs.base.createDir d (hl d (by simp)).1 (hl d (by simp)).2
    rcases e1 : v1.fs.createDir d w1 with ⟨r1, w1'⟩
    rcases e2 : v2.fs.createDir d w2 with ⟨r2, w2'⟩
    obtain ⟨hres, hr'⟩ := hd.run hr e1 e2
    cases hres with
    | ok _ => exact ih' w1' w2' hr'
    | panic => exact ⟨.panic, hr'⟩
    | @err k p1 p2 hp =>
      cases k <;> first | exact ih' w1' w2' hr' | exact ⟨.err (ReflPR.refl _), hr'⟩

theorem sim_createDirAll {v1 v2 : VPath} (h : SimVPath R PR H v1 v2) :
    SimM R PR (· = ·) v1.createDirAll v2.createDirAll := by
  unfold VPath.createDirAll
  rw [h.path]
  exact SimM.ite (fun _ => SimM.pure rfl)
    (fun _ => sim_createDirAllLoop h _ (fun d hd => dirPrefixes_canon h.canon hd))

/-! ### `read_dir`, `remove_dir_all` -/

theorem sim_readDir {B0 B : VPath → VPath → Prop} {v1 v2 : VPath} (h : SimVPath R PR H v1 v2)
    (hb : B0 v1 v2) (hB : ChildStep B0 B) :
    SimM R PR (ListRel (SimVP R PR H B)) v1.readDir v2.readDir := by
  unfold VPath.readDir
  rw [h.path]
  refine SimM.bind (SimM.withPath _ (h.fs.base.readDir _ h.canon)) fun n1 n2 hn => ?_
  obtain ⟨rfl, hg⟩ := hn
  apply SimM.pure
  exact forall2_map_same n1 _ _ (fun n hn =>
    ⟨h.withStr _ (canon_child h.canon (hg n hn)), hB v1 v2 n hb (hg n hn)⟩)

theorem sim_removeChildren_of (fuel : Nat)
    (ih : ∀ v1 v2 : VPath, SimVPath R PR H v1 v2 → v1.path ≠ [] →
      SimM R PR (· = ·) (removeDirAll fuel v1) (removeDirAll fuel v2))
    {l1 l2 : List VPath} (hl : ListRel (SimVP R PR H NonRoot) l1 l2) :
    SimM R PR (· = ·) (removeChildren fuel l1) (removeChildren fuel l2) := by
  induction hl with
  | nil => unfold removeChildren; exact SimM.pure rfl
  | @cons c1 c2 r1 r2 hc _ ihl =>
    unfold removeChildren
    refine SimM.bind_eq (sim_metadata hc.1) fun md => ?_
    dsimp only
    cases md.ftype
    · exact SimM.bind_eq (sim_removeFile hc.1) fun _ => ihl
    · exact SimM.bind_eq (ih _ _ hc.1 hc.2) fun _ => ihl

theorem sim_removeDirAll (fuel : Nat) {v1 v2 : VPath} (h : SimVPath R PR H v1 v2)
    (hne : v1.path ≠ []) :
    SimM R PR (· = ·) (removeDirAll fuel v1) (removeDirAll fuel v2) := by
  induction fuel generalizing v1 v2 with
  | zero => unfold removeDirAll; exact SimM.panic
  | succ fuel ih =>
    unfold removeDirAll
    refine SimM.bind_eq (sim_exists h) fun c => ?_
    refine SimM.ite (fun _ => SimM.pure rfl) (fun _ => ?_)
    refine SimM.bind (sim_readDir (B := NonRoot) h hne childClosed_nonRoot) fun l1 l2 hl => ?_
    refine SimM.bind_eq (sim_removeChildren_of fuel (fun a b hab hn => ih hab hn) hl) fun _ => ?_
    exact sim_removeDir h hne

theorem sim_removeChildren (fuel : Nat) {l1 l2 : List VPath}
    (hl : ListRel (SimVP R PR H NonRoot) l1 l2) :
    SimM R PR (· = ·) (removeChildren fuel l1) (removeChildren fuel l2) :=
  sim_removeChildren_of fuel (fun _ _ h hn => sim_removeDirAll fuel h hn) hl

end VPath
end param2
end Vfs

namespace Vfs
section param3
variable {R : World → World → Prop} {PR : Option Str → Option Str → Prop}
  {H : WHandle → WHandle → Prop} [ReflPR PR]

/-- related walk states -/
def SimWalk (R : World → World → Prop) (PR : Option Str → Option Str → Prop)
    (H : WHandle → WHandle → Prop) (B : VPath → VPath → Prop) (s1 s2 : VPath.Walk) : Prop :=
  ListRel (SimVP R PR H B) s1.inner s2.inner ∧ ListRel (SimVP R PR H B) s1.todo s2.todo

/-- related walk items -/
def SimItem (R : World → World → Prop) (PR : Option Str → Option Str → Prop)
    (H : WHandle → WHandle → Prop) (B : VPath → VPath → Prop) :
    Option (Res VPath) → Option (Res VPath) → Prop :=
  OptRel (RelRes PR (SimVP R PR H B))

/-- result of one step of the walk -/
def SimStep (R : World → World → Prop) (PR : Option Str → Option Str → Prop)
    (H : WHandle → WHandle → Prop) (B : VPath → VPath → Prop)
    (r1 r2 : Option (Res VPath) × VPath.Walk) : Prop :=
  SimItem R PR H B r1.1 r2.1 ∧ SimWalk R PR H B r1.2 r2.2

namespace VPath

/-! ### walk -/

theorem sim_walkDir {B0 B : VPath → VPath → Prop} {v1 v2 : VPath} (h : SimVPath R PR H v1 v2)
    (hb : B0 v1 v2) (hB : ChildStep B0 B) :
    SimM R PR (SimWalk R PR H B) v1.walkDir v2.walkDir := by
  unfold VPath.walkDir
  exact SimM.bind (sim_readDir h hb hB) fun l1 l2 hl => SimM.pure ⟨hl, .nil⟩

theorem sim_walkFind_nil {B : VPath → VPath → Prop} (hB : ChildClosed B) {t1 t2 : List VPath}
    (ht : ListRel (SimVP R PR H B) t1 t2) :
    SimM R PR (SimStep R PR H B) (walkFind [] t1) (walkFind [] t2) := by
  induction ht with
  | nil => unfold walkFind; exact SimM.pure ⟨trivial, .nil, .nil⟩
  | @cons d1 d2 t1 t2 hd ht ih =>
    intro w1 w2 hr
    unfold walkFind
    have hrd := sim_readDir hd.1 hd.2 hB
    rcases e1 : d1.readDir w1 with ⟨r1, w1'⟩
    rcases e2 : d2.readDir w2 with ⟨r2, w2'⟩
    obtain ⟨hres, hr'⟩ := hrd.run hr e1 e2
    cases hres with
    | panic => exact ⟨.panic, hr'⟩
    | err hp => exact ⟨.ok ⟨.err hp, .nil, ht⟩, hr'⟩
    | ok hl =>
      cases hl with
      | nil => exact ih w1' w2' hr'
      | cons hx hl => exact ⟨.ok ⟨.ok hx, hl, ht⟩, hr'⟩

theorem sim_walkFind {B : VPath → VPath → Prop} (hB : ChildClosed B) {i1 i2 t1 t2 : List VPath}
    (hi : ListRel (SimVP R PR H B) i1 i2) (ht : ListRel (SimVP R PR H B) t1 t2) :
    SimM R PR (SimStep R PR H B) (walkFind i1 t1) (walkFind i2 t2) := by
  cases hi with
  | nil => exact sim_walkFind_nil hB ht
  | cons hx hi => unfold walkFind; exact SimM.pure ⟨.ok hx, hi, ht⟩

theorem sim_walkNext {B : VPath → VPath → Prop} (hB : ChildClosed B) {s1 s2 : Walk}
    (hs : SimWalk R PR H B s1 s2) :
    SimM R PR (SimStep R PR H B) (walkNext s1) (walkNext s2) := by
  unfold VPath.walkNext
  refine SimM.bind (sim_walkFind hB hs.1 hs.2) fun r1 r2 hr => ?_
  obtain ⟨item1, s1'⟩ := r1
  obtain ⟨item2, s2'⟩ := r2
  obtain ⟨hit, hw⟩ := hr
  dsimp only at hit hw ⊢
  cases item1 with
  | none =>
    cases item2 with
    | none => exact SimM.pure ⟨trivial, hw⟩
    | some _ => exact absurd hit id
  | some a1 =>
    cases item2 with
    | none => exact absurd hit id
    | some a2 =>
      have hit' : RelRes PR (SimVP R PR H B) a1 a2 := hit
      cases hit' with
      | panic => exact SimM.pure ⟨RelRes.panic, hw⟩
      | err hp => exact SimM.pure ⟨RelRes.err hp, hw⟩
      | @ok x1 x2 hx =>
        intro w1 w2 hr
        dsimp only
        rcases e1 : x1.metadata w1 with ⟨r1, w1'⟩
        rcases e2 : x2.metadata w2 with ⟨r2, w2'⟩
        obtain ⟨hres, hr'⟩ := (sim_metadata hx.1).run hr e1 e2
        cases hres with
        | panic => exact ⟨.panic, hr'⟩
        | err hp => exact ⟨.ok ⟨RelRes.err hp, hw⟩, hr'⟩
        | @ok md1 md2 hmd =>
          cases hmd
          by_cases hd : md1.ftype = .dir
          · simp only [hd, if_true]
            exact ⟨.ok ⟨RelRes.ok hx, hw.1, .cons hx hw.2⟩, hr'⟩
          · simp only [hd, if_false]
            exact ⟨.ok ⟨RelRes.ok hx, hw⟩, hr'⟩

theorem sim_walkAll {B : VPath → VPath → Prop} (hB : ChildClosed B) (fuel : Nat) {s1 s2 : Walk}
    (hs : SimWalk R PR H B s1 s2) :
    SimM R PR (ListRel (RelRes PR (SimVP R PR H B))) (walkAll fuel s1) (walkAll fuel s2) := by
  induction fuel generalizing s1 s2 with
  | zero => unfold walkAll; exact SimM.panic
  | succ fuel ih =>
    unfold walkAll
    refine SimM.bind (sim_walkNext hB hs) fun r1 r2 hr => ?_
    obtain ⟨item1, s1'⟩ := r1
    obtain ⟨item2, s2'⟩ := r2
    obtain ⟨hit, hw⟩ := hr
    dsimp only at hit hw ⊢
    cases item1 with
    | none =>
      cases item2 with
      | none => exact SimM.pure .nil
      | some _ => exact absurd hit id
    | some a1 =>
      cases item2 with
      | none => exact absurd hit id
      | some a2 =>
        have hit' : RelRes PR (SimVP R PR H B) a1 a2 := hit
        exact SimM.bind (ih hw) fun l1 l2 hl => SimM.pure (.cons hit' hl)

/-! ### reading, sessions -/

theorem sim_readToEndChecked {v1 v2 : VPath} (h : SimVPath R PR H v1 v2) :
    SimM R PR (· = ·) v1.readToEndChecked v2.readToEndChecked := by
  unfold VPath.readToEndChecked
  refine SimM.bind_eq (sim_metadata h) fun md => ?_
  rw [h.path]
  refine SimM.ite (fun _ => SimM.failAt _ _) (fun _ => ?_)
  refine SimM.bind_eq (sim_openFile h) fun r => ?_
  exact SimM.withPath _ (SimM.ret_refl (fun _ => rfl) _)

theorem sim_writeAllAndDrop (hh : SimHandles R PR H) {h1 h2 : WHandle} (h : H h1 h2) (bs : Bytes) :
    SimM R PR (· = ·) (h1.writeAllAndDrop bs) (h2.writeAllAndDrop bs) := by
  unfold WHandle.writeAllAndDrop
  refine SimM.bind (hh.write h1 h2 bs h) fun r1 r2 hr => ?_
  obtain ⟨n1, h1'⟩ := r1
  obtain ⟨n2, h2'⟩ := r2
  exact hh.drop _ _ hr.2

/-- one write session: `create_file()?.write_all(bs)`, drop -/
theorem sim_writeSession (hh : SimHandles R PR H) {v1 v2 : VPath} (h : SimVPath R PR H v1 v2)
    (bs : Bytes) :
    SimM R PR (· = ·) (do let hd ← v1.createFile; hd.writeAllAndDrop bs : M Unit)
      (do let hd ← v2.createFile; hd.writeAllAndDrop bs : M Unit) :=
  SimM.bind (sim_createFile h) fun _ _ hw => sim_writeAllAndDrop hh hw bs

/-- one append session -/
theorem sim_appendSession (hh : SimHandles R PR H) {v1 v2 : VPath} (h : SimVPath R PR H v1 v2)
    (bs : Bytes) :
    SimM R PR (· = ·) (do let hd ← v1.appendFile; hd.writeAllAndDrop bs : M Unit)
      (do let hd ← v2.appendFile; hd.writeAllAndDrop bs : M Unit) :=
  SimM.bind (sim_appendFile h) fun _ _ hw => sim_writeAllAndDrop hh hw bs

/-! ### transfers -/

/-- paths with the same `fsId` carry the same filesystem value (the model's "same `Arc`") -/
def IdsOK (a b : VPath) : Prop := a.fsId = b.fsId → a.fs = b.fs

theorem sim_copyFile (hh : SimHandles R PR H) {s1 s2 d1 d2 : VPath}
    (hs : SimVPath R PR H s1 s2) (hd : SimVPath R PR H d1 d2)
    (hid1 : IdsOK s1 d1) (hid2 : IdsOK s2 d2) :
    SimM R PR (· = ·) (s1.copyFile d1) (s2.copyFile d2) := by
  by_cases hid : s1.fsId = d1.fsId
  · have hf1 := hid1 hid
    have hf2 := hid2 (by rw [hs.id, hd.id]; exact hid)
    obtain ⟨f1, i1, p1⟩ := s1
    obtain ⟨f2, i2, p2⟩ := s2
    obtain ⟨g1, j1, q1⟩ := d1
    obtain ⟨g2, j2, q2⟩ := d2
    have e1 := hs.id; have e2 := hd.id; have e3 := hs.path; have e4 := hd.path
    simp only at hid hf1 hf2 e1 e2 e3 e4
    subst hf1 hf2 e1 e2 e3 e4 hid
    exact hs.fs.copyFileV _ _ _ hs.canon hd.canon
  · exact sim_copyFile_body hh hs.to0 hd.to0 (fun h => absurd h hid)

theorem sim_moveFile (hh : SimHandles R PR H) {s1 s2 d1 d2 : VPath}
    (hs : SimVPath R PR H s1 s2) (hd : SimVPath R PR H d1 d2) :
    SimM R PR (· = ·) (s1.moveFile d1) (s2.moveFile d2) := by
  unfold VPath.moveFile
  rw [hs.path, hd.path]
  apply SimM.withPath
  refine SimM.bind_eq (sim_exists hd) fun c => ?_
  refine SimM.ite (fun _ => SimM.failAt _ _) (fun _ => ?_)
  refine SimM.bind (Q := RelRes PR (· = ·)) ?_ ?_
  · rw [hs.id, hd.id]
    exact SimM.ite (fun _ => SimM.attempt (hs.fs.base.moveFile _ _ hs.canon hd.canon))
      (fun _ => SimM.pure (.err (ReflPR.refl _)))
  · intro f1 f2 hf
    cases hf with
    | ok _ => exact SimM.pure rfl
    | panic => exact SimM.panic
    | err hp =>
      dsimp only
      refine SimM.ite (fun _ => SimM.ret (.err hp)) (fun _ => ?_)
      refine SimM.bind_eq (sim_openFile hs) fun r => ?_
      refine SimM.bind (sim_createFile hd) fun w1 w2 hw => ?_
      refine SimM.bind_eq (SimM.withPath _ (SimM.ret_refl (fun _ => rfl) _)) fun bytes => ?_
      refine SimM.bind (hh.write w1 w2 bytes hw) fun r1 r2 hr => ?_
      obtain ⟨n1, h1'⟩ := r1
      obtain ⟨n2, h2'⟩ := r2
      refine SimM.bind (SimM.attempt (sim_removeFile hs)) fun res1 res2 hres => ?_
      exact SimM.bind_eq (hh.drop _ _ hr.2) fun _ => SimM.ret hres

end VPath
end param3
end Vfs

namespace Vfs
section param4
variable {R : World → World → Prop} {PR : Option Str → Option Str → Prop}
  {H : WHandle → WHandle → Prop} [ReflPR PR]

namespace VPath

/-! ### `copy_dir`, `move_dir` -/

/-- `x` is strictly below `s`: `s` followed by at least one canonical component -/
def StrictBelow (s x : Str) : Prop :=
  ∃ c cs, GoodComp c ∧ (∀ y ∈ cs, GoodComp y) ∧ x = s ++ renderC (c :: cs)

/-- the items of a walk started at `src`: in the filesystem of `src`, strictly below it -/
def FromSrc (src1 src2 : VPath) (v1 v2 : VPath) : Prop :=
  v1.fs = src1.fs ∧ v1.fsId = src1.fsId ∧ v2.fs = src2.fs ∧ v2.fsId = src2.fsId ∧
    StrictBelow src1.path v1.path

theorem StrictBelow.child {s x n : Str} (h : StrictBelow s x) (hn : GoodComp n) :
    StrictBelow s (x ++ '/' :: n) := by
  obtain ⟨c, cs, hc, hcs, rfl⟩ := h
  refine ⟨c, cs ++ [n], hc, ?_, ?_⟩
  · intro y hy
    rcases List.mem_append.1 hy with hy | hy
    · exact hcs y hy
    · rw [List.mem_singleton.1 hy]; exact hn
  · simp [List.append_assoc]

theorem childClosed_fromSrc (src1 src2 : VPath) : ChildClosed (FromSrc src1 src2) := by
  intro v1 v2 n hb hn
  obtain ⟨h1, h2, h3, h4, h5⟩ := hb
  exact ⟨h1, h2, h3, h4, h5.child hn⟩

theorem childStep_fromSrc (src1 src2 : VPath) :
    ChildStep (fun v1 v2 => v1 = src1 ∧ v2 = src2) (FromSrc src1 src2) := by
  rintro v1 v2 n ⟨rfl, rfl⟩ hn
  exact ⟨rfl, rfl, rfl, rfl, n, [], hn, by simp, by simp [VPath.withStr]⟩

/-- the destination of a walked item: related, not the root, in the destination filesystem -/
theorem sim_relJoin {src1 src2 dst1 dst2 x1 x2 : VPath} (hp : src2.path = src1.path)
    (hdst : SimVPath R PR H dst1 dst2) (hx : SimVP R PR H (FromSrc src1 src2) x1 x2) :
    RelRes PR (fun d1 d2 => SimVPath R PR H d1 d2 ∧ d1.path ≠ [] ∧
        d1.fs = dst1.fs ∧ d1.fsId = dst1.fsId ∧ d2.fs = dst2.fs ∧ d2.fsId = dst2.fsId)
      (relJoin dst1 src1.path.length x1) (relJoin dst2 src2.path.length x2) := by
  obtain ⟨hxs, _, _, _, _, c, cs, hc, hcs, hxp⟩ := hx
  obtain ⟨ds, hds, hdp⟩ := hdst.canon
  have hlen : ¬ (x1.path.length < src1.path.length + 1) := by
    rw [hxp]; simp
  have hdrop : x1.path.drop (src1.path.length + 1) = c ++ renderC cs := by
    rw [hxp]; simp
  have hj := joinInternal_good ds c cs (good_noSlash hds) hc hcs
  unfold relJoin
  rw [hp, hxs.path, if_neg hlen, if_neg hlen, hdrop]
  unfold VPath.join
  rw [hdst.path, hdp, hj]
  refine .ok ⟨hdst.withStr _ ⟨ds ++ c :: cs, ?_, rfl⟩, ?_, rfl, rfl, rfl, rfl⟩
  · intro y hy
    rcases List.mem_append.1 hy with hy | hy
    · exact hds y hy
    · rcases List.mem_cons.1 hy with rfl | hy
      · exact hc
      · exact hcs y hy
  · show renderC (ds ++ c :: cs) ≠ []
    simp

theorem sim_copyItems (hh : SimHandles R PR H) (fuel : Nat) {src1 src2 dst1 dst2 : VPath}
    (hp : src2.path = src1.path) (hdst : SimVPath R PR H dst1 dst2)
    (hid1 : IdsOK src1 dst1) (hid2 : IdsOK src2 dst2) {s1 s2 : Walk}
    (hs : SimWalk R PR H (FromSrc src1 src2) s1 s2) (count : Nat) :
    SimM R PR (· = ·) (copyItems fuel src1 dst1 s1 count) (copyItems fuel src2 dst2 s2 count) := by
  induction fuel generalizing s1 s2 count with
  | zero => unfold copyItems; exact SimM.panic
  | succ fuel ih =>
    unfold copyItems
    refine SimM.bind (sim_walkNext (childClosed_fromSrc src1 src2) hs) fun r1 r2 hr => ?_
    obtain ⟨item1, s1'⟩ := r1
    obtain ⟨item2, s2'⟩ := r2
    obtain ⟨hit, hw⟩ := hr
    dsimp only at hit hw ⊢
    cases item1 with
    | none =>
      cases item2 with
      | none => exact SimM.pure rfl
      | some _ => exact absurd hit id
    | some a1 =>
      cases item2 with
      | none => exact absurd hit id
      | some a2 =>
        have hit' : RelRes PR (SimVP R PR H (FromSrc src1 src2)) a1 a2 := hit
        cases hit' with
        | panic => exact SimM.panic
        | err hpp => exact SimM.ret (.err hpp)
        | @ok x1 x2 hx =>
          dsimp only
          refine SimM.bind (SimM.ret (sim_relJoin hp hdst hx)) fun d1 d2 hd => ?_
          refine SimM.bind_eq (sim_metadata hx.1) fun md => ?_
          obtain ⟨hdv, hdne, e1, e2, e3, e4⟩ := hd
          obtain ⟨hxv, f1, f2, f3, f4, _⟩ := hx
          cases md.ftype
          · refine SimM.bind_eq (sim_copyFile hh hxv hdv ?_ ?_) fun _ => ih hw _
            · intro h; rw [f1, e1]; exact hid1 (by rw [← f2, ← e2]; exact h)
            · intro h; rw [f3, e3]; exact hid2 (by rw [← f4, ← e4]; exact h)
          · exact SimM.bind_eq (sim_createDir hdv hdne) fun _ => ih hw _

/-- `copy_dir` between related sources and related destinations (the destination is not the
root of its filesystem) -/
theorem sim_copyDir (hh : SimHandles R PR H) (fuel : Nat) {src1 src2 dst1 dst2 : VPath}
    (hsrc : SimVPath R PR H src1 src2) (hdst : SimVPath R PR H dst1 dst2)
    (hne : dst1.path ≠ []) (hid1 : IdsOK src1 dst1) (hid2 : IdsOK src2 dst2) :
    SimM R PR (· = ·) (copyDir fuel src1 dst1) (copyDir fuel src2 dst2) := by
  unfold VPath.copyDir
  rw [hsrc.path, hdst.path]
  apply SimM.withPath
  refine SimM.bind_eq (sim_exists hdst) fun c => ?_
  refine SimM.ite (fun _ => SimM.failAt _ _) (fun _ => ?_)
  refine SimM.bind_eq (sim_createDir hdst hne) fun _ => ?_
  refine SimM.bind (sim_walkDir hsrc ⟨rfl, rfl⟩ (childStep_fromSrc src1 src2)) fun s1 s2 hs => ?_
  exact sim_copyItems hh fuel hsrc.path hdst hid1 hid2 hs 0

/-- `move_dir` (neither path is the root of its filesystem) -/
theorem sim_moveDir (hh : SimHandles R PR H) (fuel : Nat) {src1 src2 dst1 dst2 : VPath}
    (hsrc : SimVPath R PR H src1 src2) (hdst : SimVPath R PR H dst1 dst2)
    (hnes : src1.path ≠ []) (hne : dst1.path ≠ [])
    (hid1 : IdsOK src1 dst1) (hid2 : IdsOK src2 dst2) :
    SimM R PR (· = ·) (moveDir fuel src1 dst1) (moveDir fuel src2 dst2) := by
  unfold VPath.moveDir
  rw [hsrc.path, hdst.path]
  apply SimM.withPath
  refine SimM.bind_eq (sim_exists hdst) fun c => ?_
  refine SimM.ite (fun _ => SimM.failAt _ _) (fun _ => ?_)
  refine SimM.bind (Q := RelRes PR (· = ·)) ?_ ?_
  · rw [hsrc.id, hdst.id]
    exact SimM.ite (fun _ => SimM.attempt (hsrc.fs.base.moveDir _ _ hsrc.canon hdst.canon))
      (fun _ => SimM.pure (.err (ReflPR.refl _)))
  · intro f1 f2 hf
    cases hf with
    | ok _ => exact SimM.pure rfl
    | panic => exact SimM.panic
    | err hp =>
      dsimp only
      refine SimM.ite (fun _ => SimM.ret (.err hp)) (fun _ => ?_)
      refine SimM.bind_eq (sim_createDir hdst hne) fun _ => ?_
      refine SimM.bind (sim_walkDir hsrc ⟨rfl, rfl⟩ (childStep_fromSrc src1 src2)) fun s1 s2 hs => ?_
      refine SimM.bind_eq (sim_copyItems hh fuel hsrc.path hdst hid1 hid2 hs 0) fun _ => ?_
      exact sim_removeDirAll fuel hsrc hnes

end VPath
end param4
end Vfs

namespace Vfs
section adapters
variable {R : World → World → Prop} {PR : Option Str → Option Str → Prop}
  {H : WHandle → WHandle → Prop} [ReflPR PR]

theorem canon_append {a b : Str} (ha : Canon a) (hb : Canon b) : Canon (a ++ b) := by
  obtain ⟨as, has, rfl⟩ := ha
  obtain ⟨bs, hbs, rfl⟩ := hb
  exact ⟨as ++ bs, good_append has hbs, by simp⟩

theorem filename_child (p n : Str) (hn : '/' ∉ n) : filenameInternal (p ++ '/' :: n) = n :=
  afterLast_append_delim '/' p n hn

/-- the children carry a canonical last component -/
def GoodName (v1 _v2 : VPath) : Prop := GoodComp (filenameInternal v1.path)

theorem childStep_goodName : ChildStep (fun _ _ => True) GoodName := by
  intro v1 v2 n _ hn
  show GoodComp (filenameInternal (v1.path ++ '/' :: n))
  rw [filename_child _ _ hn.noSlash]; exact hn

theorem names_of_children {B0 : VPath → VPath → Prop} {l1 l2 : List VPath}
    (hl : ListRel (SimVP R PR H GoodName) l1 l2) :
    NamesRel (l1.map fun c => filenameInternal c.path) (l2.map fun c => filenameInternal c.path) := by
  induction hl with
  | nil => exact ⟨rfl, by simp⟩
  | @cons a b l1 l2 hab _ ih =>
    obtain ⟨ih1, ih2⟩ := ih
    refine ⟨?_, ?_⟩
    · simp only [List.map_cons]
      rw [ih1, hab.1.path]
    · intro n hn
      simp only [List.map_cons, List.mem_cons] at hn
      rcases hn with rfl | hn
      · exact hab.2
      · exact ih2 n hn

/-! ### AltrootFS -/
namespace Altroot

theorem run_method {α : Type} (root : VPath) (q : Str) (hroot : Canon root.path) (hq : Canon q)
    (f : VPath → M α) : (M.ret (path root q) >>= f) = f (root.withStr (root.path ++ q)) :=
  bind_path root q _ (path_canon root q hroot hq) f

/-- **the altroot adapter is parametric**: altroots of related roots are related filesystems -/
theorem sim_fs (hh : SimHandles R PR H) {root1 root2 : VPath} (hroot : SimVPath R PR H root1 root2) :
    SimFS R PR H (fs root1) (fs root2) := by
  have hc1 : Canon root1.path := hroot.canon
  have hc2 : Canon root2.path := by rw [hroot.path]; exact hroot.canon
  have hsub : ∀ p, Canon p → SimVPath R PR H (root1.withStr (root1.path ++ p))
      (root2.withStr (root2.path ++ p)) := by
    intro p hp; rw [hroot.path]; exact hroot.withStr _ (canon_append hroot.canon hp)
  have hnr : ∀ p : Str, p ≠ [] → (root1.withStr (root1.path ++ p)).path ≠ [] := by
    intro p hp h
    exact hp (List.append_eq_nil_iff.1 h).2
  refine SimFS.of_strong hh ?_ ?_
  · refine { readDir := ?_, createDir := ?_, openFile := ?_, createFile := ?_, appendFile := ?_,
             metadata := ?_, setCreationTime := ?_, setModificationTime := ?_,
             setAccessTime := ?_, exists_ := ?_, removeFile := ?_, removeDir := ?_,
             moveFile := ?_, moveDir := ?_ }
    · intro p hp
      show SimM R PR _ (M.ret (path root1 p) >>= _) (M.ret (path root2 p) >>= _)
      rw [run_method root1 p hc1 hp, run_method root2 p hc2 hp]
      exact SimM.bind (VPath.sim_readDir (B0 := fun _ _ => True) (hsub p hp) trivial
        childStep_goodName) fun l1 l2 hl => SimM.pure (names_of_children (B0 := fun _ _ => True) hl)
    · intro p hp hne
      show SimM R PR _ (M.ret (path root1 p) >>= _) (M.ret (path root2 p) >>= _)
      rw [run_method root1 p hc1 hp, run_method root2 p hc2 hp]
      exact VPath.sim_createDir (hsub p hp) (hnr p hne)
    · intro p hp
      show SimM R PR _ (M.ret (path root1 p) >>= _) (M.ret (path root2 p) >>= _)
      rw [run_method root1 p hc1 hp, run_method root2 p hc2 hp]
      exact VPath.sim_openFile (hsub p hp)
    · intro p hp
      show SimM R PR _ (M.ret (path root1 p) >>= _) (M.ret (path root2 p) >>= _)
      rw [run_method root1 p hc1 hp, run_method root2 p hc2 hp]
      exact VPath.sim_createFile (hsub p hp)
    · intro p hp
      show SimM R PR _ (M.ret (path root1 p) >>= _) (M.ret (path root2 p) >>= _)
      rw [run_method root1 p hc1 hp, run_method root2 p hc2 hp]
      exact VPath.sim_appendFile (hsub p hp)
    · intro p hp
      show SimM R PR _ (M.ret (path root1 p) >>= _) (M.ret (path root2 p) >>= _)
      rw [run_method root1 p hc1 hp, run_method root2 p hc2 hp]
      exact VPath.sim_metadata (hsub p hp)
    · intro p t hp
      show SimM R PR _ (M.ret (path root1 p) >>= _) (M.ret (path root2 p) >>= _)
      rw [run_method root1 p hc1 hp, run_method root2 p hc2 hp]
      exact VPath.sim_setCreationTime (hsub p hp) t
    · intro p t hp
      show SimM R PR _ (M.ret (path root1 p) >>= _) (M.ret (path root2 p) >>= _)
      rw [run_method root1 p hc1 hp, run_method root2 p hc2 hp]
      exact VPath.sim_setModificationTime (hsub p hp) t
    · intro p t hp
      show SimM R PR _ (M.ret (path root1 p) >>= _) (M.ret (path root2 p) >>= _)
      rw [run_method root1 p hc1 hp, run_method root2 p hc2 hp]
      exact VPath.sim_setAccessTime (hsub p hp) t
    · intro p hp
      simp only [fs, path_canon root1 p hc1 hp, path_canon root2 p hc2 hp]
      exact VPath.sim_exists (hsub p hp)
    · intro p hp
      show SimM R PR _ (M.ret (path root1 p) >>= _) (M.ret (path root2 p) >>= _)
      rw [run_method root1 p hc1 hp, run_method root2 p hc2 hp]
      exact VPath.sim_removeFile (hsub p hp)
    · intro p hp hne
      show SimM R PR _ (M.ret (path root1 p) >>= _) (M.ret (path root2 p) >>= _)
      rw [run_method root1 p hc1 hp, run_method root2 p hc2 hp]
      exact VPath.sim_removeDir (hsub p hp) (hnr p hne)
    · intro _ _ _ _; exact SimM.failK _
    · intro _ _ _ _; exact SimM.failK _
  · intro s d hs hd
    show SimM R PR (· = ·) (if d = [] then _ else _) (if d = [] then _ else _)
    refine SimM.ite (fun _ => SimM.failK _) (fun _ => ?_)
    show SimM R PR (· = ·) (M.ret (path root1 s) >>= _) (M.ret (path root2 s) >>= _)
    rw [run_method root1 s hc1 hs, run_method root2 s hc2 hs]
    show SimM R PR (· = ·) (M.ret (path root1 d) >>= _) (M.ret (path root2 d) >>= _)
    rw [run_method root1 d hc1 hd, run_method root2 d hc2 hd]
    exact VPath.sim_copyFile hh (hsub s hs) (hsub d hd) (fun _ => rfl) (fun _ => rfl)

end Altroot

/-! ### the harness wrappers -/

/-- `R` is kept by appending the same entry to both ghost logs -/
def RLog (R : World → World → Prop) : Prop :=
  ∀ w1 w2 (e : LogEntry), R w1 w2 →
    R { w1 with log := w1.log ++ [e] } { w2 with log := w2.log ++ [e] }

theorem sim_logCall (hlog : RLog R) (tag : Nat) (m : Method) (p p2 : Str) :
    SimM R PR (· = ·) (logCall tag m p p2) (logCall tag m p p2) :=
  fun w1 w2 hr => ⟨.ok rfl, hlog w1 w2 _ hr⟩

/-- the recording wrapper is parametric, for a DIRECT relation between the inner `copy_file`
methods (the log distinguishes an inner `copy_file` that succeeds from one that is
unsupported, so the weak form does not suffice here) -/
theorem sim_recordFS (hh : SimHandles R PR H) (hlog : RLog R) (tag : Nat) {fs1 fs2 : FS}
    (h : SimFS0 R PR H fs1 fs2)
    (hc : ∀ s d, Canon s → Canon d → SimM R PR (· = ·) (fs1.copyFile s d) (fs2.copyFile s d)) :
    SimFS R PR H (recordFS tag fs1) (recordFS tag fs2) := by
  refine SimFS.of_strong hh ?_ ?_
  · exact {
      readDir := fun p hp => SimM.bind_eq (sim_logCall hlog _ _ _ _) fun _ => h.readDir p hp
      createDir := fun p hp hne => SimM.bind_eq (sim_logCall hlog _ _ _ _) fun _ => h.createDir p hp hne
      openFile := fun p hp => SimM.bind_eq (sim_logCall hlog _ _ _ _) fun _ => h.openFile p hp
      createFile := fun p hp => SimM.bind_eq (sim_logCall hlog _ _ _ _) fun _ => h.createFile p hp
      appendFile := fun p hp => SimM.bind_eq (sim_logCall hlog _ _ _ _) fun _ => h.appendFile p hp
      metadata := fun p hp => SimM.bind_eq (sim_logCall hlog _ _ _ _) fun _ => h.metadata p hp
      setCreationTime := fun p t hp =>
        SimM.bind_eq (sim_logCall hlog _ _ _ _) fun _ => h.setCreationTime p t hp
      setModificationTime := fun p t hp =>
        SimM.bind_eq (sim_logCall hlog _ _ _ _) fun _ => h.setModificationTime p t hp
      setAccessTime := fun p t hp =>
        SimM.bind_eq (sim_logCall hlog _ _ _ _) fun _ => h.setAccessTime p t hp
      exists_ := fun p hp => SimM.bind_eq (sim_logCall hlog _ _ _ _) fun _ => h.exists_ p hp
      removeFile := fun p hp => SimM.bind_eq (sim_logCall hlog _ _ _ _) fun _ => h.removeFile p hp
      removeDir := fun p hp hne => SimM.bind_eq (sim_logCall hlog _ _ _ _) fun _ => h.removeDir p hp hne
      moveFile := fun s d hs hd => SimM.bind_eq (sim_logCall hlog _ _ _ _) fun _ => h.moveFile s d hs hd
      moveDir := fun s d hs hd => SimM.bind_eq (sim_logCall hlog _ _ _ _) fun _ => h.moveDir s d hs hd }
  · exact fun s d hs hd => SimM.bind_eq (sim_logCall hlog _ _ _ _) fun _ => hc s d hs hd

/-- `R` relates worlds with the same fault plan and is kept by the updates of the fault gate -/
structure RFault (R : World → World → Prop) : Prop where
  same : ∀ w1 w2, R w1 w2 → w1.fault = w2.fault
  fire : ∀ w1 w2, R w1 w2 →
    R { w1 with fault := none, fired := true } { w2 with fault := none, fired := true }
  tick : ∀ w1 w2 k, R w1 w2 → R { w1 with fault := some k } { w2 with fault := some k }

theorem sim_faultGate {α β : Type} {Q : α → β → Prop} (hf : RFault R) {m1 : M α} {m2 : M β}
    (h : SimM R PR Q m1 m2) : SimM R PR Q (faultGate m1) (faultGate m2) := by
  intro w1 w2 hr
  unfold faultGate
  have hs := hf.same w1 w2 hr
  rw [← hs]
  rcases hw : w1.fault with _ | k
  · exact h w1 w2 hr
  · cases k with
    | zero => exact ⟨.err (ReflPR.refl _), hf.fire w1 w2 hr⟩
    | succ k => exact h _ _ (hf.tick w1 w2 k hr)

/-- the fault-injection wrapper is parametric -/
theorem sim_faultFS (hh : SimHandles R PR H) (hf : RFault R) {fs1 fs2 : FS}
    (h : SimFS0 R PR H fs1 fs2)
    (hc : ∀ s d, Canon s → Canon d → SimM R PR (· = ·) (fs1.copyFile s d) (fs2.copyFile s d)) :
    SimFS R PR H (faultFS fs1) (faultFS fs2) := by
  refine SimFS.of_strong hh ?_ ?_
  · exact {
      readDir := fun p hp => sim_faultGate hf (h.readDir p hp)
      createDir := fun p hp hne => sim_faultGate hf (h.createDir p hp hne)
      openFile := fun p hp => sim_faultGate hf (h.openFile p hp)
      createFile := fun p hp => sim_faultGate hf (h.createFile p hp)
      appendFile := fun p hp => sim_faultGate hf (h.appendFile p hp)
      metadata := fun p hp => sim_faultGate hf (h.metadata p hp)
      setCreationTime := fun p t hp => sim_faultGate hf (h.setCreationTime p t hp)
      setModificationTime := fun p t hp => sim_faultGate hf (h.setModificationTime p t hp)
      setAccessTime := fun p t hp => sim_faultGate hf (h.setAccessTime p t hp)
      exists_ := fun p hp => sim_faultGate hf (h.exists_ p hp)
      removeFile := fun p hp => sim_faultGate hf (h.removeFile p hp)
      removeDir := fun p hp hne => sim_faultGate hf (h.removeDir p hp hne)
      moveFile := fun s d hs hd => sim_faultGate hf (h.moveFile s d hs hd)
      moveDir := fun s d hs hd => sim_faultGate hf (h.moveDir s d hs hd) }
  · exact fun s d hs hd => sim_faultGate hf (hc s d hs hd)

end adapters
end Vfs

/-! ### OverlayFS -/
namespace Vfs
namespace Overlay
section overlay
variable {R : World → World → Prop} {PR : Option Str → Option Str → Prop}
  {H : WHandle → WHandle → Prop} [ReflPR PR]

/-- paths with the same `fsId` carry the same filesystem value, within a layer list -/
def LayersOK (layers : List VPath) : Prop :=
  ∀ a ∈ layers, ∀ b ∈ layers, a.fsId = b.fsId → a.fs = b.fs

/-- related paths that live in (the filesystems of) the two layer lists -/
def LV (R : World → World → Prop) (PR : Option Str → Option Str → Prop)
    (H : WHandle → WHandle → Prop) (l1 l2 : List VPath) (v1 v2 : VPath) : Prop :=
  SimVPath R PR H v1 v2 ∧ (∃ a ∈ l1, v1.fs = a.fs ∧ v1.fsId = a.fsId) ∧
    (∃ a ∈ l2, v2.fs = a.fs ∧ v2.fsId = a.fsId)

variable {l1 l2 : List VPath}

theorem LV.withStr {v1 v2 : VPath} (h : LV R PR H l1 l2 v1 v2) (s : Str) (hs : Canon s) :
    LV R PR H l1 l2 (v1.withStr s) (v2.withStr s) := ⟨h.1.withStr s hs, h.2.1, h.2.2⟩

theorem LV.join {v1 v2 : VPath} (h : LV R PR H l1 l2 v1 v2) (arg : Str) :
    RelRes PR (LV R PR H l1 l2) (v1.join arg) (v2.join arg) := by
  unfold VPath.join
  rw [h.1.path]
  cases hj : joinInternal v1.path arg with
  | ok r => exact .ok (h.withStr r (C06.join_canonical _ _ _ h.1.canon hj))
  | err k p => exact .err (ReflPR.refl _)
  | panic => exact .panic

theorem LV.parent {v1 v2 : VPath} (h : LV R PR H l1 l2 v1 v2) :
    LV R PR H l1 l2 v1.parent v2.parent := ⟨h.1.parent, h.2.1, h.2.2⟩

theorem LV.idsOK (hok1 : LayersOK l1) (hok2 : LayersOK l2) {a1 a2 b1 b2 : VPath}
    (ha : LV R PR H l1 l2 a1 a2) (hb : LV R PR H l1 l2 b1 b2) :
    VPath.IdsOK a1 b1 ∧ VPath.IdsOK a2 b2 := by
  obtain ⟨_, ⟨x1, hx1, e1, e2⟩, ⟨x2, hx2, e3, e4⟩⟩ := ha
  obtain ⟨_, ⟨y1, hy1, f1, f2⟩, ⟨y2, hy2, f3, f4⟩⟩ := hb
  constructor
  · intro h; rw [e1, f1]; exact hok1 x1 hx1 y1 hy1 (by rw [← e2, ← f2]; exact h)
  · intro h; rw [e3, f3]; exact hok2 x2 hx2 y2 hy2 (by rw [← e4, ← f4]; exact h)

theorem listRel_LV {a b : List VPath} (h : ListRel (SimVPath R PR H) a b)
    (ha : ∀ x ∈ a, x ∈ l1) (hb : ∀ x ∈ b, x ∈ l2) : ListRel (LV R PR H l1 l2) a b := by
  induction h with
  | nil => exact .nil
  | @cons x y a b hxy _ ih =>
    exact .cons ⟨hxy, ⟨x, ha x (by simp), rfl, rfl⟩, ⟨y, hb y (by simp), rfl, rfl⟩⟩
      (ih (fun z hz => ha z (by simp [hz])) (fun z hz => hb z (by simp [hz])))

theorem LV_writeLayer (hL : ListRel (SimVPath R PR H) l1 l2) (hne : l1 ≠ []) :
    LV R PR H l1 l2 (writeLayer l1) (writeLayer l2) := by
  cases hL with
  | nil => exact absurd rfl hne
  | @cons x y a b hxy _ =>
    exact ⟨hxy, ⟨x, by simp, rfl, rfl⟩, ⟨y, by simp, rfl, rfl⟩⟩

section withLayers
variable (hL : ListRel (SimVPath R PR H) l1 l2) (hne : l1 ≠ [])
include hL hne

theorem sim_whiteoutPath (p : Str) :
    RelRes PR (LV R PR H l1 l2) (whiteoutPath l1 p) (whiteoutPath l2 p) := by
  unfold whiteoutPath
  split
  · exact (LV_writeLayer hL hne).join _
  · exact (LV_writeLayer hL hne).join _

theorem sim_writePath (p : Str) :
    RelRes PR (LV R PR H l1 l2) (writePath l1 p) (writePath l2 p) := by
  unfold writePath
  split
  · exact .ok (LV_writeLayer hL hne)
  · exact (LV_writeLayer hL hne).join _

omit hL hne in
/-- joining the tail of a non-empty canonical path appends it -/
theorem join_tail_canon {b p : Str} (hb : Canon b) (hp : Canon p) (hpn : p ≠ []) :
    joinInternal b (tail1 p) = .ok (b ++ p) := by
  have h := Altroot.path_canon { fs := default, fsId := 0, path := b } p hb hp
  obtain ⟨cs, hcs, rfl⟩ := hp
  cases cs with
  | nil => exact absurd rfl hpn
  | cons c cs =>
    unfold Altroot.path at h
    have hh : (renderC (c :: cs)).head? = some '/' := by simp
    rw [if_neg hpn, if_pos hh] at h
    unfold VPath.join at h
    unfold tail1
    cases hj : joinInternal b ((renderC (c :: cs)).drop 1) with
    | ok r =>
      rw [hj] at h
      simp only [Res.map, VPath.withStr, Res.ok.injEq, VPath.mk.injEq] at h
      rw [h.2.2]
    | err k q => rw [hj] at h; simp [Res.map] at h
    | panic => rw [hj] at h; simp [Res.map] at h

/-- the write path of a non-root canonical path is not the root of the write layer -/
theorem sim_writePath_nonroot (p : Str) (hp : Canon p) (hpn : p ≠ []) :
    RelRes PR (fun v1 v2 => LV R PR H l1 l2 v1 v2 ∧ v1.path ≠ []) (writePath l1 p)
      (writePath l2 p) := by
  have hw := LV_writeLayer hL hne
  unfold writePath
  rw [if_neg hpn, if_neg hpn]
  unfold VPath.join
  rw [hw.1.path, join_tail_canon hw.1.canon hp hpn]
  refine .ok ⟨hw.withStr _ (canon_append hw.1.canon hp), ?_⟩
  intro h
  exact hpn (List.append_eq_nil_iff.1 h).2

theorem sim_firstExisting (p : Str) {a b : List VPath} (hab : ListRel (LV R PR H l1 l2) a b) :
    SimM R PR (OptRel (LV R PR H l1 l2)) (firstExisting p a) (firstExisting p b) := by
  induction hab with
  | nil => unfold firstExisting; exact SimM.pure trivial
  | @cons x y a b hxy _ ih =>
    unfold firstExisting
    refine SimM.bind (SimM.ret (hxy.join _)) fun lp1 lp2 hlp => ?_
    refine SimM.bind_eq (VPath.sim_exists hlp.1) fun c => ?_
    exact SimM.ite (fun _ => SimM.pure (show OptRel _ (some lp1) (some lp2) from hlp)) (fun _ => ih)

theorem sim_readPath (p : Str) :
    SimM R PR (LV R PR H l1 l2) (readPath l1 p) (readPath l2 p) := by
  unfold readPath
  refine SimM.ite (fun _ => SimM.pure (LV_writeLayer hL hne)) (fun _ => ?_)
  refine SimM.bind (SimM.ret (sim_whiteoutPath hL hne p)) fun wo1 wo2 hwo => ?_
  refine SimM.bind_eq (VPath.sim_exists hwo.1) fun marked => ?_
  refine SimM.ite (fun _ => SimM.failK _) (fun _ => ?_)
  refine SimM.bind (sim_firstExisting hL hne p
    (listRel_LV hL (fun _ h => h) (fun _ h => h))) fun f1 f2 hf => ?_
  cases f1 with
  | none =>
    cases f2 with
    | some _ => exact absurd hf id
    | none =>
      dsimp only
      refine SimM.bind (SimM.ret ((LV_writeLayer hL hne).join _)) fun rp1 rp2 hrp => ?_
      refine SimM.bind_eq (VPath.sim_exists hrp.1) fun ex => ?_
      exact SimM.ite (fun _ => SimM.failK _) (fun _ => SimM.pure hrp)
  | some a1 =>
    cases f2 with
    | none => exact absurd hf id
    | some a2 => exact SimM.pure hf

theorem sim_exists (p : Str) : SimM R PR (· = ·) (exists_ l1 p) (exists_ l2 p) := by
  unfold exists_
  refine SimM.bind (SimM.ret (sim_whiteoutPath hL hne p)) fun wo1 wo2 hwo => ?_
  refine SimM.bind_eq (VPath.sim_exists hwo.1) fun marked => ?_
  refine SimM.ite (fun _ => SimM.pure rfl) (fun _ => ?_)
  intro w1 w2 hr
  dsimp only
  rcases e1 : readPath l1 p w1 with ⟨r1, w1'⟩
  rcases e2 : readPath l2 p w2 with ⟨r2, w2'⟩
  obtain ⟨hres, hr'⟩ := (sim_readPath hL hne p).run hr e1 e2
  cases hres with
  | ok hq => exact VPath.sim_exists hq.1 w1' w2' hr'
  | panic => exact ⟨.panic, hr'⟩
  | @err k p1 p2 hp =>
    cases k <;> first | exact ⟨.ok rfl, hr'⟩ | exact ⟨.err hp, hr'⟩

theorem sim_ensureHasParent (p : Str) :
    SimM R PR (· = ·) (ensureHasParent l1 p) (ensureHasParent l2 p) := by
  unfold ensureHasParent
  refine SimM.ite (fun _ => ?_) (fun _ => SimM.failK _)
  refine SimM.bind_eq (sim_exists hL hne _) fun ex => ?_
  refine SimM.ite (fun _ => ?_) (fun _ => SimM.failK _)
  refine SimM.bind (sim_readPath hL hne _) fun rp1 rp2 hrp => ?_
  refine SimM.bind_eq (VPath.sim_isDir hrp.1) fun isd => ?_
  refine SimM.ite (fun _ => ?_) (fun _ => SimM.failK _)
  refine SimM.bind (SimM.ret (sim_writePath hL hne _)) fun wp1 wp2 hwp => ?_
  exact VPath.sim_createDirAll hwp.1

omit hL hne in
theorem foldl_names_good (names acc : List Str) (hn : ∀ n ∈ names, GoodComp n)
    (ha : ∀ n ∈ acc, GoodComp n) :
    ∀ n ∈ names.foldl (fun a n => if n ∈ a then a else a ++ [n]) acc, GoodComp n := by
  induction names generalizing acc with
  | nil => exact ha
  | cons x xs ih =>
    simp only [List.foldl_cons]
    apply ih _ (fun n h => hn n (by simp [h]))
    intro n h
    split at h
    · exact ha n h
    · rcases List.mem_append.1 h with h | h
      · exact ha n h
      · rw [List.mem_singleton.1 h]; exact hn x (by simp)

theorem sim_mergeListings (actual : Str) {a b : List VPath}
    (hab : ListRel (LV R PR H l1 l2) a b) (acc : List Str) (hacc : ∀ n ∈ acc, GoodComp n) :
    SimM R PR NamesRel (mergeListings actual a acc) (mergeListings actual b acc) := by
  induction hab generalizing acc with
  | nil => unfold mergeListings; exact SimM.pure ⟨rfl, hacc⟩
  | @cons x y a b hxy _ ih =>
    unfold mergeListings
    refine SimM.bind (SimM.ret (hxy.join _)) fun lp1 lp2 hlp => ?_
    refine SimM.bind_eq (VPath.sim_isDir hlp.1) fun isd => ?_
    refine SimM.ite (fun _ => ?_) (fun _ => ih acc hacc)
    refine SimM.bind (VPath.sim_readDir (B0 := fun _ _ => True) hlp.1 trivial childStep_goodName)
      fun cs1 cs2 hcs => ?_
    obtain ⟨e, hg⟩ := names_of_children (B0 := fun _ _ => True) hcs
    rw [← e]
    exact ih _ (foldl_names_good _ _ hg hacc)

theorem sim_clearWhiteout (p : Str) :
    SimM R PR (· = ·) (clearWhiteout l1 p) (clearWhiteout l2 p) := by
  unfold clearWhiteout
  refine SimM.bind (SimM.ret (sim_whiteoutPath hL hne p)) fun wo1 wo2 hwo => ?_
  refine SimM.bind_eq (VPath.sim_exists hwo.1) fun ex => ?_
  exact SimM.ite (fun _ => VPath.sim_removeFile hwo.1) (fun _ => SimM.pure rfl)

/-- `clear_whiteout` of `create_dir` (fix of O11): related removals fail with the same kind, so
both sides swallow `FileNotFound` together -/
theorem sim_clearWhiteoutT (p : Str) :
    SimM R PR (· = ·) (clearWhiteoutT l1 p) (clearWhiteoutT l2 p) := by
  unfold clearWhiteoutT
  refine SimM.bind (SimM.ret (sim_whiteoutPath hL hne p)) fun wo1 wo2 hwo => ?_
  refine SimM.bind_eq (VPath.sim_exists hwo.1) fun ex => ?_
  refine SimM.ite (fun _ => ?_) (fun _ => SimM.pure rfl)
  intro w1 w2 hr
  dsimp only
  rcases e1 : wo1.removeFile w1 with ⟨r1, w1'⟩
  rcases e2 : wo2.removeFile w2 with ⟨r2, w2'⟩
  obtain ⟨hres, hr'⟩ := (VPath.sim_removeFile hwo.1).run hr e1 e2
  cases hres with
  | ok hq => exact ⟨.ok hq, hr'⟩
  | panic => exact ⟨.panic, hr'⟩
  | @err k p1 p2 hp =>
    cases k <;> first | exact ⟨.ok rfl, hr'⟩ | exact ⟨.err hp, hr'⟩

theorem sim_addWhiteout (hh : SimHandles R PR H) (p : Str) :
    SimM R PR (· = ·) (addWhiteout l1 p) (addWhiteout l2 p) := by
  unfold addWhiteout
  refine SimM.bind (SimM.ret (sim_whiteoutPath hL hne p)) fun wo1 wo2 hwo => ?_
  refine SimM.bind_eq (VPath.sim_createDirAll hwo.1.parent) fun _ => ?_
  refine SimM.bind (VPath.sim_createFile hwo.1) fun h1 h2 hh' => ?_
  exact hh.drop _ _ hh'

omit hL hne in
theorem paths_of_listRel {B : VPath → VPath → Prop} {a b : List VPath}
    (h : ListRel (SimVP R PR H B) a b) : a.map (·.path) = b.map (·.path) := by
  induction h with
  | nil => rfl
  | cons hxy _ ih => simp only [List.map_cons]; rw [ih, hxy.1.path]

theorem sim_readDir (p : Str) : SimM R PR NamesRel (readDir l1 p) (readDir l2 p) := by
  unfold readDir
  refine SimM.bind (sim_readPath hL hne p) fun rp1 rp2 hrp => ?_
  refine SimM.bind_eq (VPath.sim_exists hrp.1) fun ex => ?_
  refine SimM.ite (fun _ => SimM.failK _) (fun _ => ?_)
  refine SimM.bind_eq (VPath.sim_isDir hrp.1) fun isd => ?_
  refine SimM.ite (fun _ => SimM.failK _) (fun _ => ?_)
  refine SimM.bind (sim_mergeListings hL hne _ (listRel_LV hL (fun _ h => h) (fun _ h => h)) []
    (by simp)) fun en1 en2 hen => ?_
  obtain ⟨rfl, hg⟩ := hen
  refine SimM.bind (SimM.ret ((LV_writeLayer hL hne).join _)) fun wp1 wp2 hwp => ?_
  refine SimM.bind_eq (VPath.sim_exists hwp.1) fun wex => ?_
  have hbase : ∀ n ∈ (if p = [] then en1.filter (fun n => n ≠ woDir) else en1), GoodComp n := by
    intro n hn
    split at hn
    · exact hg n (List.mem_filter.1 hn).1
    · exact hg n hn
  refine SimM.ite (fun _ => ?_) (fun _ => SimM.pure ⟨rfl, hbase⟩)
  refine SimM.bind (VPath.sim_readDir (B0 := fun _ _ => True) (B := fun _ _ => True) hwp.1 trivial
    (fun _ _ _ _ _ => trivial)) fun m1 m2 hm => ?_
  apply SimM.pure
  have hmp := paths_of_listRel hm
  have hfm : ∀ (l : List VPath), (l.filterMap fun m => stripWo (filenameInternal m.path))
      = (l.map (·.path)).filterMap fun q => stripWo (filenameInternal q) := by
    intro l; rw [List.filterMap_map]; rfl
  refine ⟨?_, fun n hn => hbase n (List.mem_filter.1 hn).1⟩
  rw [hfm m1, hfm m2, hmp]

theorem sim_createDir (p : Str) (hp : Canon p) (hpn : p ≠ []) :
    SimM R PR (· = ·) (createDir l1 p) (createDir l2 p) := by
  unfold createDir
  refine SimM.bind_eq (sim_ensureHasParent hL hne p) fun _ => ?_
  refine SimM.bind_eq (sim_exists hL hne p) fun ex => ?_
  refine SimM.ite (fun _ => ?_) (fun _ => ?_)
  · refine SimM.bind (sim_readPath hL hne p) fun q1 q2 hq => ?_
    exact SimM.bind_eq (VPath.sim_metadata hq.1) fun md => SimM.failK _
  · refine SimM.bind (SimM.ret (sim_writePath_nonroot hL hne p hp hpn)) fun wp1 wp2 hwp => ?_
    -- related answers of the write layers select the same branch
    intro w1 w2 hr
    dsimp only
    rcases e1 : wp1.createDir w1 with ⟨r1, w1'⟩
    rcases e2 : wp2.createDir w2 with ⟨r2, w2'⟩
    obtain ⟨hres, hr'⟩ := (VPath.sim_createDir hwp.1.1 hwp.2).run hr e1 e2
    cases hres with
    | @ok a b hq => cases a; cases b; exact sim_clearWhiteoutT hL hne p w1' w2' hr'
    | panic => exact ⟨.panic, hr'⟩
    | @err k p1 p2 hp =>
      cases k <;> try exact ⟨.err hp, hr'⟩
      dsimp only
      rcases e3 : clearWhiteoutT l1 p w1' with ⟨r3, w1''⟩
      rcases e4 : clearWhiteoutT l2 p w2' with ⟨r4, w2''⟩
      obtain ⟨hres2, hr''⟩ := (sim_clearWhiteoutT hL hne p).run hr' e3 e4
      cases hres2 with
      | @ok a b hq => cases a; cases b; exact ⟨.err hp, hr''⟩
      | panic => exact ⟨.panic, hr''⟩
      | @err k2 p3 p4 hp2 => exact ⟨.err hp2, hr''⟩

theorem sim_refuseDir (p : Str) : SimM R PR (· = ·) (refuseDir l1 p) (refuseDir l2 p) := by
  unfold refuseDir
  refine SimM.bind_eq (sim_exists hL hne p) fun ex => ?_
  refine SimM.ite (fun _ => ?_) (fun _ => SimM.pure rfl)
  refine SimM.bind (sim_readPath hL hne p) fun q1 q2 hq => ?_
  refine SimM.bind_eq (VPath.sim_metadata hq.1) fun md => ?_
  exact SimM.ite (fun _ => SimM.failK _) (fun _ => SimM.pure rfl)

theorem sim_createFile (p : Str) : SimM R PR H (createFile l1 p) (createFile l2 p) := by
  unfold createFile
  refine SimM.bind_eq (sim_ensureHasParent hL hne p) fun _ => ?_
  refine SimM.bind_eq (sim_refuseDir hL hne p) fun _ => ?_
  refine SimM.bind (SimM.ret (sim_writePath hL hne p)) fun wp1 wp2 hwp => ?_
  refine SimM.bind (VPath.sim_createFile hwp.1) fun h1 h2 hh' => ?_
  exact SimM.bind_eq (sim_clearWhiteout hL hne p) fun _ => SimM.pure hh'

theorem sim_copyUp (hh : SimHandles R PR H) (hok1 : LayersOK l1) (hok2 : LayersOK l2) (p : Str)
    {wp1 wp2 : VPath} (hwp : LV R PR H l1 l2 wp1 wp2) :
    SimM R PR (· = ·) (copyUp l1 p wp1) (copyUp l2 p wp2) := by
  unfold copyUp
  refine SimM.bind_eq (VPath.sim_exists hwp.1) fun ex => ?_
  refine SimM.ite (fun _ => ?_) (fun _ => SimM.pure rfl)
  refine SimM.bind_eq (sim_ensureHasParent hL hne p) fun _ => ?_
  refine SimM.bind (sim_readPath hL hne p) fun rp1 rp2 hrp => ?_
  refine SimM.bind_eq (VPath.sim_isFile hrp.1) fun isf => ?_
  refine SimM.ite (fun _ => SimM.failK _) (fun _ => ?_)
  have hid := LV.idsOK hok1 hok2 hrp hwp
  exact VPath.sim_copyFile hh hrp.1 hwp.1 hid.1 hid.2

theorem sim_appendFile (hh : SimHandles R PR H) (hok1 : LayersOK l1) (hok2 : LayersOK l2)
    (p : Str) : SimM R PR H (appendFile l1 p) (appendFile l2 p) := by
  unfold appendFile
  refine SimM.bind (SimM.ret (sim_writePath hL hne p)) fun wp1 wp2 hwp => ?_
  refine SimM.bind_eq (sim_copyUp hL hne hh hok1 hok2 p hwp) fun _ => ?_
  exact VPath.sim_appendFile hwp.1

theorem sim_removeFile (hh : SimHandles R PR H) (p : Str) :
    SimM R PR (· = ·) (removeFile l1 p) (removeFile l2 p) := by
  unfold removeFile
  refine SimM.bind (sim_readPath hL hne p) fun _ _ _ => ?_
  refine SimM.bind (SimM.ret (sim_writePath hL hne p)) fun wp1 wp2 hwp => ?_
  refine SimM.bind_eq (VPath.sim_exists hwp.1) fun ex => ?_
  refine SimM.bind_eq (SimM.ite (fun _ => VPath.sim_removeFile hwp.1) (fun _ => SimM.pure rfl))
    fun _ => ?_
  exact sim_addWhiteout hL hne hh p

theorem sim_removeDir (hh : SimHandles R PR H) (p : Str) (hp : Canon p) (hpn : p ≠ []) :
    SimM R PR (· = ·) (removeDir l1 p) (removeDir l2 p) := by
  unfold removeDir
  refine SimM.bind (sim_readPath hL hne p) fun _ _ _ => ?_
  refine SimM.bind (sim_readDir hL hne p) fun n1 n2 hn => ?_
  obtain ⟨rfl, _⟩ := hn
  refine SimM.ite (fun _ => SimM.failK _) (fun _ => ?_)
  refine SimM.bind (SimM.ret (sim_writePath_nonroot hL hne p hp hpn)) fun wp1 wp2 hwp => ?_
  refine SimM.bind_eq (VPath.sim_exists hwp.1.1) fun ex => ?_
  refine SimM.bind_eq (SimM.ite (fun _ => VPath.sim_removeDir hwp.1.1 hwp.2)
    (fun _ => SimM.pure rfl)) fun _ => ?_
  exact sim_addWhiteout hL hne hh p

/-- **the overlay adapter is parametric**: overlays over pointwise related layer lists are
related filesystems -/
theorem sim_fs (hh : SimHandles R PR H) (hok1 : LayersOK l1) (hok2 : LayersOK l2) :
    SimFS R PR H (fs l1) (fs l2) := by
  refine SimFS.of_strong hh ?_ (fun _ _ _ _ => SimM.failK _)
  exact {
    readDir := fun p _ => sim_readDir hL hne p
    createDir := fun p hp hpn => sim_createDir hL hne p hp hpn
    openFile := fun p _ =>
      SimM.bind (sim_readPath hL hne p) fun q1 q2 hq => VPath.sim_openFile hq.1
    createFile := fun p _ => sim_createFile hL hne p
    appendFile := fun p _ => sim_appendFile hL hne hh hok1 hok2 p
    metadata := fun p _ =>
      SimM.bind (sim_readPath hL hne p) fun q1 q2 hq => VPath.sim_metadata hq.1
    setCreationTime := fun p t _ =>
      SimM.bind (SimM.ret (sim_writePath hL hne p)) fun _ _ hwp => VPath.sim_setCreationTime hwp.1 t
    setModificationTime := fun p t _ =>
      SimM.bind (SimM.ret (sim_writePath hL hne p)) fun _ _ hwp =>
        VPath.sim_setModificationTime hwp.1 t
    setAccessTime := fun p t _ =>
      SimM.bind (SimM.ret (sim_writePath hL hne p)) fun _ _ hwp => VPath.sim_setAccessTime hwp.1 t
    exists_ := fun p _ => sim_exists hL hne p
    removeFile := fun p _ => sim_removeFile hL hne hh p
    removeDir := fun p hp hpn => sim_removeDir hL hne hh p hp hpn
    moveFile := fun _ _ _ _ => SimM.failK _
    moveDir := fun _ _ _ _ => SimM.failK _ }

end withLayers
end overlay
end Overlay
end Vfs

/-! ## C. automation, transfer, sanity -/
namespace Vfs

/-- one structural step of a simulation proof between two computations of the SAME shape;
`bind` steps take the simulation of the first component from the local context -/
macro "sim_step" : tactic => `(tactic| first
  | exact SimM.pure rfl | exact SimM.mpure rfl | exact SimM.panic
  | exact SimM.failK _ | exact SimM.failAt _ _
  | exact SimM.ret_refl (fun _ => rfl) _
  | assumption
  | apply SimM.withPath
  | apply SimM.attempt
  | refine SimM.ite (fun _ => ?_) (fun _ => ?_)
  | refine SimM.bind_eq (by assumption) (fun _ => ?_)
  | refine SimM.bind (by assumption) (fun _ _ _ => ?_))
/-- discharge `SimM R PR Q m1 m2` for two computations of the same shape by structural
decomposition (the relational counterpart of `pres`, Proofs/PreservesOps.lean) -/
macro "sim" : tactic => `(tactic| repeat (any_goals sim_step))

section demo
variable {R : World → World → Prop} {PR : Option Str → Option Str → Prop}
  {H : WHandle → WHandle → Prop} [ReflPR PR]

/-- `sim` re-proves `sim_isDir` … -/
example {v1 v2 : VPath} (h : SimVPath R PR H v1 v2) : SimM R PR (· = ·) v1.isDir v2.isDir := by
  have h1 := VPath.sim_exists h
  have h2 := VPath.sim_metadata h
  unfold VPath.isDir
  sim

/-- … and `sim_getParent` -/
example {v1 v2 : VPath} (h : SimVPath R PR H v1 v2) :
    SimM R PR (· = ·) v1.getParent v2.getParent := by
  have h1 := VPath.sim_exists h.parent
  have h2 := VPath.sim_metadata h.parent
  unfold VPath.getParent
  rw [h.path]
  sim

end demo

/-- **transfer**: a run equation of the right-hand computation gives outcome and final world of
the left-hand one, up to the relations (this is how the run theorems of Props/C09N.lean,
C10N.lean are carried over to related constructions) -/
theorem SimM.transfer {α β : Type} {R : World → World → Prop}
    {PR : Option Str → Option Str → Prop} {Q : α → β → Prop} {m1 : M α} {m2 : M β}
    (h : SimM R PR Q m1 m2) {w1 w2 w2' : World} {r2 : Res β} (hr : R w1 w2)
    (h2 : m2 w2 = (r2, w2')) : RelRes PR Q (m1 w1).1 r2 ∧ R (m1 w1).2 w2' := by
  have := h w1 w2 hr
  rw [h2] at this
  exact this

/-- sanity: with all three relations equality, simulation is equality of state transformers -/
theorem SimM.eq_of_eq {α : Type} {m1 m2 : M α}
    (h : SimM (· = ·) (· = ·) (· = ·) m1 m2) : m1 = m2 := by
  funext w
  obtain ⟨h1, h2⟩ := h w w rfl
  exact Prod.ext h1.eq_of_eq h2

/-- sanity: every computation simulates itself for the identity relation -/
theorem SimM.refl_eq {α : Type} (m : M α) : SimM (· = ·) (· = ·) (· = ·) m m := by
  intro w1 w2 hr
  cases hr
  exact ⟨RelRes.refl (fun _ => rfl) _, rfl⟩

/-- … and the relation is not trivial: different outcomes are not related -/
example : ¬ SimM (· = ·) (· = ·) (· = ·) (M.failK .other : M Unit) (M.failK .io : M Unit) := by
  intro h
  have := (h default default rfl).1
  cases this

end Vfs
