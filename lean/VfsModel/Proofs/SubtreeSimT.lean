/-
  NAMESPACE-SEPARATED VERBATIM COPY of Proofs/SubtreeSim.lean (namespace `Vfs.T` instead of `Vfs`).

  WHY: Proofs/SubtreeSim.lean is built on Proofs/OverlayLemmas.lean, whose declarations `cursorWrite_nil`,
  `dirPrefixes_renderC`, `run_copyFile_mem`, `run_createDirAllLoop`, `run_vmetadata` have the same
  names as declarations of Proofs/TransferLemmas.lean, on which Props/C11.lean, C11Nested.lean and
  C13Term.lean are built; Lean refuses to import both into one file. To transfer the C11 / C13Term
  theorems along the simulation (Props/C11Altroot.lean, Props/C13Altroot.lean) the simulation
  calculus is needed on the TransferLemmas side. This copy imports that side
  (`VfsModel.Props.C13Term`), so it belongs to the TransferLemmas side and — like that side —
  cannot be imported together with OverlayLemmas / the original; it lives in its own namespace
  `Vfs.T` so that the two versions of a declaration are never confused.
  DIFFERENCES to the original (nothing else; statements and proofs are verbatim):
    * `namespace Vfs` → `namespace Vfs.T`; after `namespace VPath / Altroot / Overlay` an
      `open Vfs.VPath / Vfs.Altroot / Vfs.Overlay` (the model's functions live there);
    * Sim: `dirPrefixes_canon` — the only use of OverlayLemmas — is re-proved from the
      TransferLemmas form of `dirPrefixes_renderC` (`= ancChain cs`);
    * SubtreeSim: `Canon.rooted` → `_root_.Vfs.Canon.rootedT`, `World.leaf?_set_eq` →
      `_root_.Vfs.World.leaf?_set_eqT` (dot-notation on types of the model).
  The original header follows.
-/
/-
  "A sub-directory of a memory filesystem IS a memory filesystem" — the instance of the
  relational calculus of Proofs/Sim.lean that re-roots a memory leaf at a directory `P`.

  DEFINITIONS
    * `stripP P k`   : the key `k` with the prefix `P` removed, defined for `k = P` (→ "") and
                       for keys that continue `P` after a '/'.
    * `sub P m`      : the map `m` restricted to the keys at or below `P`, with `P` stripped
                       (`P` itself becomes the root ""); the order of the entries is kept.
    * `Role`         : what the relation says about a leaf index: `free` (equal leaves, nothing
                       else), `same` (equal MEMORY leaves with canonical keys) or `sub P`
                       (leaf of the left world = memory map `m`, leaf of the right world = memory map
                       `sub P m`, where `P` is a DIRECTORY of `m`, the keys of `sub P m` are
                       canonical (`Inv0 (sub P m)`) and every proper ancestor of `P`, the root
                       included, is a directory of `m` (`AncOK P m`; only needed for
                       `create_dir_all` on sub-directory paths, Proofs/OverlayShift.lean)).
    * `RSub spec`    : the relation between two worlds given by `spec : Nat → Role`; logs and
                       fault plans are equal.
    * `HSub spec`    : write handles are related: same leaf, kind, buffer, position; keys equal, or
                       shifted by `P` for a `sub P` leaf (memory handles on canonical keys).
    * `PRn`, `PRdrop`: relations on error paths: "the right one is unlabelled", "equal, or the right
                       one is unlabelled" (the altroot labels errors with `P ++ q`, the bare
                       memory filesystem does not label them).

  PROVED (no sorry, no axiom)
    * pure shift lemmas: `find?_sub`, `sub_erase`, `sub_insert`, `keys_sub_children` and, for each
      function `F` of the memory leaf (`Mem.readDir … Mem.removeDir`, `memPublish`),
      `F (sub P m) q = ((F m (P ++ q)).1, sub P (F m (P ++ q)).2)` for canonical `q`
      (`create_dir` / `create_file`: `q ≠ ""`), and preservation of the invariant.
    * `leaf_*` : each method of `leafFS i` at `P ++ q` on the left world is related to the method
      at `q` on the right world (`SimM (RSub spec) PRn …`), for a leaf with `spec i = .sub P`.
    * `simHandles_sub` : the handle operations are related for `HSub`-related handles.
    * `altroot_sim_leaf` : `SimFS (RSub spec) PRdrop (HSub spec) (Altroot.fs ⟨leafFS i, id, P⟩)
      (leafFS i)` — the altroot rooted at the directory `P` of memory leaf `i` on the left world is
      related, method by method and at EQUAL canonical paths, to the bare memory filesystem
      holding `sub P m` on the right world.  `create_dir("")` and `remove_dir("")` are outside the
      relation (`SimFS0` does not ask for them): on the root the altroot answers `DirExists`
      where MemoryFS answers `Other`, and `remove_dir("")` would remove `P` itself.
    * `leaf_sim_same` : `SimFS … (leafFS j) (leafFS j)` for a `same` leaf.

    * `Touch`, `AncOK.touch`, `touch_*` : the leaf operations at key `P ++ q` leave every other key
      (in particular the ancestors of `P`) alone.
    * `altroot_copyFileV` : `copy_file` between two paths of the altroot = `copy_file` between the
      two paths of the sub-leaf (uses the small unary calculus `KindNot`: over a memory leaf the
      `VfsPath` copy never fails with `NotSupported`).

  NOT PROVED: physical leaves below an altroot; `free` leaves carry no `SimFS`.
-/
import VfsModel.Proofs.SimT
import VfsModel.Props.C07
set_option linter.unusedVariables false
set_option linter.unusedSectionVars false
set_option linter.unusedSimpArgs false
namespace Vfs.T

/-! ## 1. the sub-map -/

/-- "" or starting with '/' -/
def Rooted (q : Str) : Prop := q = [] ∨ q.head? = some '/'

theorem _root_.Vfs.Canon.rootedT {q : Str} (h : Canon q) : Rooted q := by
  obtain ⟨cs, _, rfl⟩ := h
  cases cs with
  | nil => left; rfl
  | cons c cs => right; simp

theorem Rooted.child {q : Str} (hq : Rooted q) (n : Str) : Rooted (q ++ '/' :: n) := by
  right
  rcases hq with rfl | hq
  · simp
  · cases q with
    | nil => simp
    | cons c t => simpa using hq

/-- the key `k` relative to `P` -/
def stripP (P k : Str) : Option Str :=
  if k = P then some [] else if (P ++ ['/']).isPrefixOf k then some (k.drop P.length) else none

theorem stripP_append (P q : Str) (hq : Rooted q) : stripP P (P ++ q) = some q := by
  unfold stripP
  rcases hq with rfl | hq
  · simp
  · cases q with
    | nil => simp at hq
    | cons c t =>
      simp only [List.head?_cons, Option.some.injEq] at hq
      subst hq
      have hne : P ++ '/' :: t ≠ P := by
        intro h
        have := congrArg List.length h
        simp at this
      rw [if_neg hne]
      have hpre : (P ++ ['/']).isPrefixOf (P ++ '/' :: t) = true := by
        rw [List.isPrefixOf_iff_prefix]
        exact ⟨t, by simp⟩
      rw [if_pos hpre]
      simp

theorem stripP_some {P k q : Str} (h : stripP P k = some q) : k = P ++ q ∧ Rooted q := by
  unfold stripP at h
  split at h
  · rename_i hk
    injection h with h
    subst h
    exact ⟨by simp [hk], Or.inl rfl⟩
  · split at h
    · rename_i hpre
      injection h with h
      rw [List.isPrefixOf_iff_prefix] at hpre
      obtain ⟨t, ht⟩ := hpre
      subst ht
      subst h
      simp
      right; simp
    · cases h

/-- the sub-map below `P` -/
def sub (P : Str) (m : FMap) : FMap :=
  m.filterMap fun kv => (stripP P kv.1).map fun q => (q, kv.2)

theorem sub_nil (P : Str) : sub P [] = [] := rfl

theorem sub_cons_some {P k q : Str} (v : Entry) (m : FMap) (h : stripP P k = some q) :
    sub P ((k, v) :: m) = (q, v) :: sub P m := by
  simp [sub, h]

theorem sub_cons_none {P k : Str} (v : Entry) (m : FMap) (h : stripP P k = none) :
    sub P ((k, v) :: m) = sub P m := by
  simp [sub, h]

theorem stripP_ne_of_none {P k q : Str} (h : stripP P k = none) (hq : Rooted q) : k ≠ P ++ q := by
  intro hk
  rw [hk, stripP_append P q hq] at h
  cases h

theorem find?_sub (P : Str) (m : FMap) (q : Str) (hq : Rooted q) :
    (sub P m).find? q = m.find? (P ++ q) := by
  induction m with
  | nil => rfl
  | cons kv rest ih =>
    obtain ⟨k, v⟩ := kv
    cases h : stripP P k with
    | none =>
      rw [sub_cons_none v rest h, FMap.find?_cons, if_neg (stripP_ne_of_none h hq), ih]
    | some q' =>
      obtain ⟨rfl, _⟩ := stripP_some h
      rw [sub_cons_some v rest h, FMap.find?_cons, FMap.find?_cons, ih]
      by_cases e : q' = q
      · subst e; simp
      · rw [if_neg e, if_neg (by intro h'; exact e (List.append_cancel_left h'))]

theorem contains_sub (P : Str) (m : FMap) (q : Str) (hq : Rooted q) :
    (sub P m).contains q = m.contains (P ++ q) := by
  unfold FMap.contains; rw [find?_sub P m q hq]

theorem sub_erase (P : Str) (m : FMap) (q : Str) (hq : Rooted q) :
    sub P (m.erase (P ++ q)) = (sub P m).erase q := by
  induction m with
  | nil => rfl
  | cons kv rest ih =>
    obtain ⟨k, v⟩ := kv
    cases h : stripP P k with
    | none =>
      rw [FMap.erase_cons, if_neg (stripP_ne_of_none h hq), sub_cons_none v _ h,
        sub_cons_none v _ h, ih]
    | some q' =>
      obtain ⟨rfl, _⟩ := stripP_some h
      rw [FMap.erase_cons, sub_cons_some v rest h, FMap.erase_cons]
      by_cases e : q' = q
      · subst e; simp [ih]
      · rw [if_neg e, if_neg (by intro h'; exact e (List.append_cancel_left h')),
          sub_cons_some v _ h, ih]

theorem sub_insert (P : Str) (m : FMap) (q : Str) (v : Entry) (hq : Rooted q) :
    sub P (m.insert (P ++ q) v) = (sub P m).insert q v := by
  unfold FMap.insert
  rw [sub_cons_some v _ (stripP_append P q hq), sub_erase P m q hq]

theorem childName_mk (p n : Str) (hn : '/' ∉ n) : childName p (p ++ '/' :: n) = some n :=
  (childName_iff p _ n).2 ⟨by simp, parent_of_child p n hn, afterLast_append_delim '/' p n hn⟩

theorem childName_shift (P q q' : Str) : childName (P ++ q) (P ++ q') = childName q q' := by
  apply Option.ext
  intro n
  constructor
  · intro h
    obtain ⟨h1, h2⟩ := childName_some _ _ _ h
    rw [List.append_assoc] at h1
    rw [List.append_cancel_left h1]
    exact childName_mk q n h2
  · intro h
    obtain ⟨h1, h2⟩ := childName_some _ _ _ h
    rw [h1, ← List.append_assoc]
    exact childName_mk _ n h2

theorem keys_sub_children (P : Str) (m : FMap) (q : Str) (hq : Rooted q) :
    (sub P m).keys.filterMap (childName q) = m.keys.filterMap (childName (P ++ q)) := by
  induction m with
  | nil => rfl
  | cons kv rest ih =>
    obtain ⟨k, v⟩ := kv
    unfold FMap.keys at ih ⊢
    cases h : stripP P k with
    | none =>
      rw [sub_cons_none v rest h, ih]
      simp only [List.map_cons, List.filterMap_cons]
      cases hc : childName (P ++ q) k with
      | none => rfl
      | some n =>
        exfalso
        obtain ⟨h1, _⟩ := childName_some _ _ _ hc
        rw [List.append_assoc] at h1
        exact stripP_ne_of_none h (hq.child n) h1
    | some q' =>
      obtain ⟨rfl, _⟩ := stripP_some h
      rw [sub_cons_some v rest h]
      simp only [List.map_cons, List.filterMap_cons, childName_shift]
      rw [ih]

/-! ## 2. the memory leaf commutes with `sub` -/

/-- invariant of the sub-map: its root is a directory and its keys are canonical -/
def Inv0 (m : FMap) : Prop :=
  (∃ e, m.find? [] = some e ∧ e.ftype = .dir) ∧ ∀ k ∈ m.keys, Canon k

def KeysCanon (m : FMap) : Prop := ∀ k ∈ m.keys, Canon k

theorem KeysCanon.insert {m : FMap} (h : KeysCanon m) {q : Str} (hq : Canon q) (v : Entry) :
    KeysCanon (m.insert q v) := by
  intro k hk
  rw [FMap.mem_keys_iff] at hk
  obtain ⟨e, he⟩ := hk
  rw [FMap.find?_insert] at he
  split at he
  · rename_i h'; rw [h']; exact hq
  · exact h k ((FMap.mem_keys_iff m k).2 ⟨e, he⟩)

theorem KeysCanon.erase {m : FMap} (h : KeysCanon m) (q : Str) : KeysCanon (m.erase q) :=
  fun k hk => h k (FMap.keys_erase_subset m q k hk).1

theorem Inv0.insert {m : FMap} (h : Inv0 m) {q : Str} (hq : Canon q) (v : Entry)
    (hv : q = [] → v.ftype = .dir) : Inv0 (m.insert q v) := by
  refine ⟨?_, KeysCanon.insert h.2 hq v⟩
  rw [FMap.find?_insert]
  split
  · rename_i h'; exact ⟨v, rfl, hv h'.symm⟩
  · exact h.1

theorem Inv0.erase {m : FMap} (h : Inv0 m) {q : Str} (hq : q ≠ []) : Inv0 (m.erase q) := by
  refine ⟨?_, KeysCanon.erase h.2 q⟩
  rw [FMap.find?_erase, if_neg (fun e => hq e.symm)]
  exact h.1

theorem Inv0.root_dir {m : FMap} (h : Inv0 m) {e : Entry} (he : m.find? [] = some e) :
    e.ftype = .dir := by
  obtain ⟨e', he', hd⟩ := h.1
  rw [he] at he'; injection he' with he'; rw [he']; exact hd

/-- parent of a shifted non-root canonical path -/
theorem parent_shift (P : Str) {q : Str} (hq : Canon q) (hne : q ≠ []) :
    parentInternal (P ++ q) = P ++ parentInternal q ∧ Rooted (parentInternal q) ∧ '/' ∈ q ∧
      '/' ∈ P ++ q := by
  obtain ⟨cs, hcs, rfl⟩ := hq
  rcases List.eq_nil_or_concat cs with rfl | ⟨l, c, rfl⟩
  · exact absurd rfl hne
  · have hc : '/' ∉ c := (hcs c (by simp)).noSlash
    have e1 : renderC (l.concat c) = renderC l ++ '/' :: c := by simp
    rw [e1]
    refine ⟨?_, ?_, by simp, by simp⟩
    · unfold parentInternal
      rw [← List.append_assoc, beforeLast_append_delim _ _ _ hc, beforeLast_append_delim _ _ _ hc]
    · unfold parentInternal
      rw [beforeLast_append_delim _ _ _ hc]
      exact Canon.rootedT ⟨l, fun x hx => hcs x (by simp [hx]), rfl⟩

variable (P : Str) (m : FMap)

theorem readDir_shift {q : Str} (hq : Rooted q) :
    Mem.readDir (sub P m) q = Mem.readDir m (P ++ q) := by
  unfold Mem.readDir
  rw [find?_sub P m q hq, keys_sub_children P m q hq]

theorem metadata_shift {q : Str} (hq : Rooted q) :
    Mem.metadata (sub P m) q = Mem.metadata m (P ++ q) := by
  unfold Mem.metadata; rw [find?_sub P m q hq]

theorem appendFile_shift {q : Str} (hq : Rooted q) :
    Mem.appendFile (sub P m) q = Mem.appendFile m (P ++ q) := by
  unfold Mem.appendFile; rw [find?_sub P m q hq]

theorem ensureHasParent_shift {q : Str} (hq : Canon q) (hne : q ≠ []) :
    Mem.ensureHasParent (sub P m) q = Mem.ensureHasParent m (P ++ q) := by
  obtain ⟨h1, h2, h3, h4⟩ := parent_shift P hq hne
  unfold Mem.ensureHasParent
  rw [if_pos h3, if_pos h4, h1, find?_sub P m _ h2]

theorem createDir_shift {q : Str} (hq : Canon q) (hne : q ≠ []) :
    Mem.createDir (sub P m) q = ((Mem.createDir m (P ++ q)).1, sub P (Mem.createDir m (P ++ q)).2) := by
  unfold Mem.createDir
  rw [ensureHasParent_shift P m hq hne, find?_sub P m q hq.rootedT]
  cases Mem.ensureHasParent m (P ++ q) with
  | ok _ =>
    cases m.find? (P ++ q) with
    | some e => rfl
    | none => simp only [sub_insert P m q _ hq.rootedT]
  | err k p => rfl
  | panic => rfl

theorem createFile_shift {q : Str} (hq : Canon q) (hne : q ≠ []) :
    Mem.createFile (sub P m) q
      = ((Mem.createFile m (P ++ q)).1, sub P (Mem.createFile m (P ++ q)).2) := by
  unfold Mem.createFile
  rw [ensureHasParent_shift P m hq hne, find?_sub P m q hq.rootedT]
  cases Mem.ensureHasParent m (P ++ q) with
  | ok _ =>
    cases m.find? (P ++ q) with
    | some e =>
      dsimp only
      split
      · rfl
      · simp only [sub_insert P m q _ hq.rootedT]
    | none => simp only [sub_insert P m q _ hq.rootedT]
  | err k p => rfl
  | panic => rfl

theorem setAccessed_shift {q : Str} (hq : Rooted q) (t : TS) :
    Mem.setAccessed (sub P m) q t
      = ((Mem.setAccessed m (P ++ q) t).1, sub P (Mem.setAccessed m (P ++ q) t).2) := by
  unfold Mem.setAccessed
  rw [find?_sub P m q hq]
  cases m.find? (P ++ q) with
  | some e => simp only [sub_insert P m q _ hq]
  | none => rfl

theorem setModified_shift {q : Str} (hq : Rooted q) (t : TS) :
    Mem.setModified (sub P m) q t
      = ((Mem.setModified m (P ++ q) t).1, sub P (Mem.setModified m (P ++ q) t).2) := by
  unfold Mem.setModified
  rw [find?_sub P m q hq]
  cases m.find? (P ++ q) with
  | some e => simp only [sub_insert P m q _ hq]
  | none => rfl

theorem setCreated_shift {q : Str} (hq : Rooted q) (t : TS) :
    Mem.setCreated (sub P m) q t
      = ((Mem.setCreated m (P ++ q) t).1, sub P (Mem.setCreated m (P ++ q) t).2) := by
  unfold Mem.setCreated
  rw [find?_sub P m q hq]
  cases m.find? (P ++ q) with
  | some e => simp only [sub_insert P m q _ hq]
  | none => rfl

theorem openFile_shift {q : Str} (hq : Rooted q) :
    Mem.openFile (sub P m) q
      = ((Mem.openFile m (P ++ q)).1, sub P (Mem.openFile m (P ++ q)).2) := by
  unfold Mem.openFile
  rw [setAccessed_shift P m hq]
  rcases hs : Mem.setAccessed m (P ++ q) .now with ⟨r, m'⟩
  cases r with
  | ok _ =>
    dsimp only
    rw [find?_sub P m' q hq]
    cases m'.find? (P ++ q) with
    | none => rfl
    | some e =>
      dsimp only
      split <;> rfl
  | err k p => rfl
  | panic => rfl

theorem removeFile_shift {q : Str} (hq : Rooted q) :
    Mem.removeFile (sub P m) q
      = ((Mem.removeFile m (P ++ q)).1, sub P (Mem.removeFile m (P ++ q)).2) := by
  unfold Mem.removeFile
  rw [find?_sub P m q hq]
  cases m.find? (P ++ q) with
  | none => rfl
  | some e =>
    dsimp only
    split
    · rfl
    · simp only [sub_erase P m q hq]

theorem removeDir_shift {q : Str} (hq : Rooted q) :
    Mem.removeDir (sub P m) q
      = ((Mem.removeDir m (P ++ q)).1, sub P (Mem.removeDir m (P ++ q)).2) := by
  unfold Mem.removeDir
  rw [readDir_shift P m hq, contains_sub P m q hq]
  cases Mem.readDir m (P ++ q) with
  | ok l =>
    dsimp only
    split
    · rfl
    · split
      · simp only [sub_erase P m q hq]
      · rfl
  | err k p => rfl
  | panic => rfl

theorem memPublish_shift {q : Str} (hq : Rooted q) (buf : Bytes) :
    memPublish (sub P m) q buf = sub P (memPublish m (P ++ q) buf) := by
  unfold memPublish
  rw [find?_sub P m q hq]
  cases m.find? (P ++ q) with
  | none => rfl
  | some e =>
    dsimp only
    split
    · simp only [sub_insert P m q _ hq]
    · rfl

end Vfs.T

namespace Vfs.T

/-! ## 3. invariant preservation and unlabelled errors (single-map facts) -/

/-- the error (if any) carries no path label -/
def NoPath {α : Type} (r : Res α) : Prop := ∀ k p, r = .err k p → p = none

theorem NoPath.ok {α : Type} (a : α) : NoPath (.ok a : Res α) := by intro k p h; cases h
theorem NoPath.fail {α : Type} (k : ErrKind) : NoPath (fail k : Res α) := by
  intro k' p h; unfold Vfs.fail at h; injection h with _ h; exact h.symm
theorem NoPath.panic {α : Type} : NoPath (.panic : Res α) := by intro k p h; cases h
theorem NoPath.map {α β : Type} {r : Res α} (h : NoPath r) (f : α → β) : NoPath (r.map f) := by
  intro k p he
  cases r with
  | ok a => cases he
  | err k' p' => simp only [Res.map] at he; injection he with h1 h2; subst h2; exact h k' p' rfl
  | panic => cases he

theorem NoPath.cast {α β : Type} {k : ErrKind} {p : Option Str} (h : NoPath (.err k p : Res α)) :
    NoPath (.err k p : Res β) := by
  intro k' p' h'; injection h' with _ h2; subst h2; exact h k p rfl

theorem noPath_readDir (m : FMap) (q : Str) : NoPath (Mem.readDir m q) := by
  unfold Mem.readDir
  split
  · exact NoPath.fail _
  · split
    · exact NoPath.fail _
    · exact NoPath.ok _

theorem noPath_ensureHasParent (m : FMap) (q : Str) : NoPath (Mem.ensureHasParent m q) := by
  unfold Mem.ensureHasParent
  split
  · split
    · split
      · exact NoPath.ok _
      · exact NoPath.fail _
    · exact NoPath.fail _
  · exact NoPath.fail _

theorem noPath_metadata (m : FMap) (q : Str) : NoPath (Mem.metadata m q) := by
  unfold Mem.metadata
  split
  · exact NoPath.fail _
  · exact NoPath.ok _

theorem noPath_appendFile (m : FMap) (q : Str) : NoPath (Mem.appendFile m q) := by
  unfold Mem.appendFile
  split
  · exact NoPath.fail _
  · split
    · exact NoPath.fail _
    · exact NoPath.ok _

/-- what a memory-leaf operation at `q` may do to the map: nothing, (re)bind `q` (the root only to
a directory), or remove `q` (never the root) -/
def Step (q : Str) (m m' : FMap) : Prop :=
  m' = m ∨ (∃ v, m' = m.insert q v ∧ (q = [] → v.ftype = .dir)) ∨ (q ≠ [] ∧ m' = m.erase q)

theorem Inv0.step {m m' : FMap} {q : Str} (h : Inv0 m) (hq : Canon q) (hs : Step q m m') :
    Inv0 m' := by
  rcases hs with rfl | ⟨v, rfl, hv⟩ | ⟨hne, rfl⟩
  · exact h
  · exact h.insert hq v hv
  · exact h.erase hne

theorem createDir_spec (m : FMap) (q : Str) (hne : q ≠ []) :
    NoPath (Mem.createDir m q).1 ∧ Step q m (Mem.createDir m q).2 := by
  unfold Mem.createDir
  have := noPath_ensureHasParent m q
  cases he : Mem.ensureHasParent m q with
  | ok _ =>
    dsimp only
    split
    · refine ⟨?_, Or.inl rfl⟩
      dsimp only; split <;> exact NoPath.fail _
    · exact ⟨NoPath.ok _, Or.inr (Or.inl ⟨_, rfl, fun h => absurd h hne⟩)⟩
  | err k p => rw [he] at this; exact ⟨this, Or.inl rfl⟩
  | panic => exact ⟨NoPath.panic, Or.inl rfl⟩

theorem createFile_spec (m : FMap) (q : Str) (hne : q ≠ []) :
    NoPath (Mem.createFile m q).1 ∧ Step q m (Mem.createFile m q).2 := by
  unfold Mem.createFile
  have := noPath_ensureHasParent m q
  cases he : Mem.ensureHasParent m q with
  | ok _ =>
    dsimp only
    split
    · split
      · exact ⟨NoPath.fail _, Or.inl rfl⟩
      · exact ⟨NoPath.ok _, Or.inr (Or.inl ⟨_, rfl, fun h => absurd h hne⟩)⟩
    · exact ⟨NoPath.ok _, Or.inr (Or.inl ⟨_, rfl, fun h => absurd h hne⟩)⟩
  | err k p => rw [he] at this; exact ⟨this, Or.inl rfl⟩
  | panic => exact ⟨NoPath.panic, Or.inl rfl⟩

theorem setAccessed_spec (m : FMap) (q : Str) (t : TS) (hi : Inv0 m) :
    NoPath (Mem.setAccessed m q t).1 ∧ Step q m (Mem.setAccessed m q t).2 := by
  unfold Mem.setAccessed
  cases hf : m.find? q with
  | none => exact ⟨NoPath.fail _, Or.inl rfl⟩
  | some e =>
    refine ⟨NoPath.ok _, Or.inr (Or.inl ⟨_, rfl, fun h => ?_⟩)⟩
    subst h; have := hi.root_dir hf; exact this

theorem setModified_spec (m : FMap) (q : Str) (t : TS) (hi : Inv0 m) :
    NoPath (Mem.setModified m q t).1 ∧ Step q m (Mem.setModified m q t).2 := by
  unfold Mem.setModified
  cases hf : m.find? q with
  | none => exact ⟨NoPath.fail _, Or.inl rfl⟩
  | some e =>
    refine ⟨NoPath.ok _, Or.inr (Or.inl ⟨_, rfl, fun h => ?_⟩)⟩
    subst h; have := hi.root_dir hf; exact this

theorem setCreated_spec (m : FMap) (q : Str) (t : TS) (hi : Inv0 m) :
    NoPath (Mem.setCreated m q t).1 ∧ Step q m (Mem.setCreated m q t).2 := by
  unfold Mem.setCreated
  cases hf : m.find? q with
  | none => exact ⟨NoPath.fail _, Or.inl rfl⟩
  | some e =>
    refine ⟨NoPath.ok _, Or.inr (Or.inl ⟨_, rfl, fun h => ?_⟩)⟩
    subst h; have := hi.root_dir hf; exact this

theorem openFile_spec (m : FMap) (q : Str) (hi : Inv0 m) :
    NoPath (Mem.openFile m q).1 ∧ Step q m (Mem.openFile m q).2 := by
  unfold Mem.openFile
  obtain ⟨h1, h2⟩ := setAccessed_spec m q .now hi
  rcases hs : Mem.setAccessed m q .now with ⟨r, m'⟩
  rw [hs] at h1 h2
  cases r with
  | ok _ =>
    dsimp only
    split
    · exact ⟨NoPath.fail _, h2⟩
    · split
      · exact ⟨NoPath.fail _, h2⟩
      · exact ⟨NoPath.ok _, h2⟩
  | err k p => dsimp only at h1 ⊢; exact ⟨h1.cast, h2⟩
  | panic => exact ⟨NoPath.panic, h2⟩

theorem removeFile_spec (m : FMap) (q : Str) (hi : Inv0 m) :
    NoPath (Mem.removeFile m q).1 ∧ Step q m (Mem.removeFile m q).2 := by
  unfold Mem.removeFile
  cases hf : m.find? q with
  | none => exact ⟨NoPath.fail _, Or.inl rfl⟩
  | some e =>
    dsimp only
    split
    · exact ⟨NoPath.fail _, Or.inl rfl⟩
    · rename_i hft
      refine ⟨NoPath.ok _, Or.inr (Or.inr ⟨fun h => ?_, rfl⟩)⟩
      subst h
      have := hi.root_dir hf
      rw [this] at hft
      exact hft (by decide)

theorem removeDir_spec (m : FMap) (q : Str) (hne : q ≠ []) :
    NoPath (Mem.removeDir m q).1 ∧ Step q m (Mem.removeDir m q).2 := by
  unfold Mem.removeDir
  have := noPath_readDir m q
  cases he : Mem.readDir m q with
  | ok l =>
    dsimp only
    split
    · exact ⟨NoPath.fail _, Or.inl rfl⟩
    · split
      · exact ⟨NoPath.ok _, Or.inr (Or.inr ⟨hne, rfl⟩)⟩
      · exact ⟨NoPath.fail _, Or.inl rfl⟩
  | err k p =>
    rw [he] at this; dsimp only
    exact ⟨this.cast, Or.inl rfl⟩
  | panic => exact ⟨NoPath.panic, Or.inl rfl⟩

theorem memPublish_spec (m : FMap) (q : Str) (buf : Bytes) (hi : Inv0 m) :
    Step q m (memPublish m q buf) := by
  unfold memPublish
  cases hf : m.find? q with
  | none => exact Or.inl rfl
  | some e =>
    dsimp only
    split
    · rename_i hft
      refine Or.inr (Or.inl ⟨_, rfl, fun h => ?_⟩)
      subst h
      have := hi.root_dir hf
      rw [this] at hft
      cases hft
    · exact Or.inl rfl

/-- the names listed by a map with canonical keys are canonical components -/
theorem readDir_names_good (m : FMap) (q : Str) (hk : KeysCanon m) (l : List Str)
    (h : Mem.readDir m q = .ok l) : ∀ n ∈ l, GoodComp n := by
  unfold Mem.readDir at h
  split at h
  · cases h
  · split at h
    · cases h
    · injection h with h
      subst h
      intro n hn
      rw [List.mem_filterMap] at hn
      obtain ⟨k, hk', hc⟩ := hn
      obtain ⟨rfl, hns⟩ := childName_some _ _ _ hc
      obtain ⟨cs, hcs, hr⟩ := hk _ hk'
      rcases List.eq_nil_or_concat cs with rfl | ⟨l', c, rfl⟩
      · simp at hr
      · have h1 := filename_child q n hns
        rw [hr, List.concat_eq_append,
          filenameInternal_renderC_snoc l' c (hcs c (by simp)).noSlash] at h1
        rw [← h1]; exact hcs c (by simp)

/-- `get_parent` refuses ⇒ so does the leaf's own parent check -/
theorem ensureHasParent_of_not_parentOk (m : FMap) (p : Str) (hs : '/' ∈ p)
    (h : Mem.parentOk m p = false) : Mem.ensureHasParent m p = fail .other := by
  unfold Mem.parentOk at h
  unfold Mem.ensureHasParent
  rw [if_pos hs]
  cases hf : m.find? (parentInternal p) with
  | none => rfl
  | some e =>
    rw [hf] at h
    dsimp only at h ⊢
    rw [if_neg (by simpa using h)]

end Vfs.T

namespace Vfs.T

/-! ## 3b. keys outside the subtree: the ancestors of `P` stay directories -/

/-- `m'` agrees with `m` at every key other than `k` -/
def Touch (k : Str) (m m' : FMap) : Prop := ∀ k', k' ≠ k → m'.find? k' = m.find? k'

theorem Touch.refl (k : Str) (m : FMap) : Touch k m m := fun _ _ => rfl
theorem Touch.insert (k : Str) (m : FMap) (v : Entry) : Touch k m (m.insert k v) :=
  fun k' h => FMap.find?_insert_ne m k k' v h
theorem Touch.erase (k : Str) (m : FMap) : Touch k m (m.erase k) :=
  fun k' h => FMap.find?_erase_ne m k k' h
theorem Touch.trans {k : Str} {a b c : FMap} (h1 : Touch k a b) (h2 : Touch k b c) : Touch k a c :=
  fun k' h => by rw [h2 k' h, h1 k' h]

theorem touch_createDir (m : FMap) (k : Str) : Touch k m (Mem.createDir m k).2 := by
  unfold Mem.createDir
  split
  · split
    · exact Touch.refl _ _
    · exact Touch.insert _ _ _
  · exact Touch.refl _ _
  · exact Touch.refl _ _

theorem touch_createFile (m : FMap) (k : Str) : Touch k m (Mem.createFile m k).2 := by
  unfold Mem.createFile
  split
  · split
    · split
      · exact Touch.refl _ _
      · exact Touch.insert _ _ _
    · exact Touch.insert _ _ _
  · exact Touch.refl _ _
  · exact Touch.refl _ _

theorem touch_setAccessed (m : FMap) (k : Str) (t : TS) : Touch k m (Mem.setAccessed m k t).2 := by
  unfold Mem.setAccessed
  split
  · exact Touch.refl _ _
  · exact Touch.insert _ _ _

theorem touch_setModified (m : FMap) (k : Str) (t : TS) : Touch k m (Mem.setModified m k t).2 := by
  unfold Mem.setModified
  split
  · exact Touch.refl _ _
  · exact Touch.insert _ _ _

theorem touch_setCreated (m : FMap) (k : Str) (t : TS) : Touch k m (Mem.setCreated m k t).2 := by
  unfold Mem.setCreated
  split
  · exact Touch.refl _ _
  · exact Touch.insert _ _ _

theorem touch_openFile (m : FMap) (k : Str) : Touch k m (Mem.openFile m k).2 := by
  unfold Mem.openFile
  have h := touch_setAccessed m k .now
  rcases hs : Mem.setAccessed m k .now with ⟨r, m'⟩
  rw [hs] at h
  cases r with
  | ok _ =>
    dsimp only
    split
    · exact h
    · split <;> exact h
  | err k' p => exact h
  | panic => exact h

theorem touch_removeFile (m : FMap) (k : Str) : Touch k m (Mem.removeFile m k).2 := by
  unfold Mem.removeFile
  split
  · exact Touch.refl _ _
  · split
    · exact Touch.refl _ _
    · exact Touch.erase _ _

theorem touch_removeDir (m : FMap) (k : Str) : Touch k m (Mem.removeDir m k).2 := by
  unfold Mem.removeDir
  split
  · split
    · exact Touch.refl _ _
    · split
      · exact Touch.erase _ _
      · exact Touch.refl _ _
  · exact Touch.refl _ _
  · exact Touch.refl _ _

theorem touch_memPublish (m : FMap) (k : Str) (buf : Bytes) : Touch k m (memPublish m k buf) := by
  unfold memPublish
  split
  · split
    · exact Touch.insert _ _ _
    · exact Touch.refl _ _
  · exact Touch.refl _ _

/-- every proper ancestor of `P` (the root "" included) is a directory of `m` -/
def AncOK (P : Str) (m : FMap) : Prop :=
  ∀ ps : List Str, (∀ c ∈ ps, GoodComp c) → P = renderC ps → ∀ j, j < ps.length →
    ∃ e, m.find? (renderC (ps.take j)) = some e ∧ e.ftype = .dir

theorem renderC_take_length_lt (ps : List Str) (j : Nat) (hj : j < ps.length) :
    (renderC (ps.take j)).length < (renderC ps).length := by
  conv => rhs; rw [← List.take_append_drop j ps, renderC_append]
  have : ps.drop j ≠ [] := by
    intro h
    have := congrArg List.length h
    simp at this; omega
  cases hd : ps.drop j with
  | nil => exact absurd hd this
  | cons c cs => simp

theorem AncOK.touch {P q : Str} {m m' : FMap} (h : AncOK P m) (ht : Touch (P ++ q) m m') :
    AncOK P m' := by
  intro ps hps hP j hj
  obtain ⟨e, he, hd⟩ := h ps hps hP j hj
  refine ⟨e, ?_, hd⟩
  rw [ht _ ?_]
  · exact he
  · intro heq
    have h1 := renderC_take_length_lt ps j hj
    have h2 := congrArg List.length heq
    rw [hP] at h2
    simp only [List.length_append] at h2
    omega

/-! ## 4. the relation between worlds -/

/-- what the relation says about one leaf index -/
inductive Role where
  | free
  | sub (P : Str)

def LeafRel : Role → Option Leaf → Option Leaf → Prop
  | .free, a, b => a = b
  | .sub P, a, b => ∃ m1 : FMap, a = some { kind := .mem, files := m1 } ∧
      b = some { kind := .mem, files := sub P m1 } ∧ Inv0 (sub P m1) ∧ AncOK P m1

/-- **the relation**: leaf `i` of the right world holds the sub-map below `P` of leaf `i` of the
left world when `spec i = .sub P`; the other leaves, the ghost log and the fault plan are equal -/
structure RSub (spec : Nat → Role) (w1 w2 : World) : Prop where
  log : w1.log = w2.log
  fault : w1.fault = w2.fault
  fired : w1.fired = w2.fired
  leaf : ∀ i, LeafRel (spec i) (w1.leaf? i) (w2.leaf? i)

/-- error paths: equal, or the right one is unlabelled -/
def PRdrop (a b : Option Str) : Prop := a = b ∨ b = none
instance : ReflPR PRdrop := ⟨fun _ => Or.inl rfl⟩

def KeyRel : Role → Str → Str → WKind → Prop
  | .free, k1, k2, _ => k1 = k2
  | .sub P, k1, k2, kind => k1 = P ++ k2 ∧ Canon k2 ∧ kind = .memFile

/-- related write handles: same leaf, kind, buffer, position; keys equal (`free` leaf) or shifted
by `P` (`sub P` leaf: a memory handle on a canonical key) -/
def HSub (spec : Nat → Role) (h1 h2 : WHandle) : Prop :=
  h1.leaf = h2.leaf ∧ h1.kind = h2.kind ∧ h1.buf = h2.buf ∧ h1.pos = h2.pos ∧
    KeyRel (spec h1.leaf) h1.key h2.key h1.kind

theorem _root_.Vfs.World.leaf?_set_eqT (w : World) (j : Nat) (f : FMap) :
    (w.setLeafFiles j f).leaf? j = (w.leaf? j).map (fun l => { l with files := f }) := by
  unfold World.setLeafFiles World.leaf?
  rw [List.getElem?_modify]
  cases w.leaves[j]? <;> simp

section rsub
variable {spec : Nat → Role} {w1 w2 : World}

theorem RSub.leafAt (hr : RSub spec w1 w2) {i : Nat} {P : Str} (hi : spec i = .sub P) :
    ∃ m1, MemLeafAt w1 i m1 ∧ MemLeafAt w2 i (sub P m1) ∧ Inv0 (sub P m1) := by
  have := hr.leaf i
  rw [hi] at this
  obtain ⟨m1, a, b, c, _⟩ := this
  exact ⟨m1, a, b, c⟩

/-- the ancestors of `P` are directories of the left leaf -/
theorem RSub.ancAt (hr : RSub spec w1 w2) {i : Nat} {P : Str} (hi : spec i = .sub P) {m1 : FMap}
    (h1 : MemLeafAt w1 i m1) : AncOK P m1 := by
  have := hr.leaf i
  rw [hi] at this
  obtain ⟨m1', a, _, _, d⟩ := this
  unfold MemLeafAt at h1
  rw [a] at h1
  injection h1 with h1
  injection h1 with _ h1
  subst h1
  exact d

/-- updating a `sub` leaf on both sides, compatibly -/
theorem RSub.set (hr : RSub spec w1 w2) {i : Nat} {P : Str} (hi : spec i = .sub P)
    (m1' m2' : FMap) (h2 : m2' = sub P m1') (hinv : Inv0 m2') (hanc : AncOK P m1') :
    RSub spec (w1.setLeafFiles i m1') (w2.setLeafFiles i m2') := by
  refine ⟨hr.log, hr.fault, hr.fired, fun j => ?_⟩
  by_cases hij : i = j
  · subst hij
    obtain ⟨m1, a1, a2, _⟩ := hr.leafAt hi
    rw [hi, World.leaf?_set_eqT, World.leaf?_set_eqT]
    unfold MemLeafAt at a1 a2
    rw [a1, a2]
    subst h2
    exact ⟨m1', rfl, rfl, hinv, hanc⟩
  · rw [World.leaf?_setLeafFiles_ne _ _ _ _ hij, World.leaf?_setLeafFiles_ne _ _ _ _ hij]
    exact hr.leaf j

/-- updating a `free` leaf on both sides with the same map -/
theorem RSub.set_free (hr : RSub spec w1 w2) {j : Nat} (hj : spec j = .free) (f : FMap) :
    RSub spec (w1.setLeafFiles j f) (w2.setLeafFiles j f) := by
  refine ⟨hr.log, hr.fault, hr.fired, fun k => ?_⟩
  by_cases hjk : j = k
  · subst hjk
    have := hr.leaf j
    rw [hj] at this ⊢
    rw [World.leaf?_set_eqT, World.leaf?_set_eqT]
    show _ = _
    rw [show w1.leaf? j = w2.leaf? j from this]
  · rw [World.leaf?_setLeafFiles_ne _ _ _ _ hjk, World.leaf?_setLeafFiles_ne _ _ _ _ hjk]
    exact hr.leaf k

theorem RSub.free_eq (hr : RSub spec w1 w2) {j : Nat} (hj : spec j = .free) :
    w2.leaf? j = w1.leaf? j := by
  have := hr.leaf j
  rw [hj] at this
  exact this.symm

end rsub

theorem rlog_rsub (spec : Nat → Role) : RLog (RSub spec) := by
  intro w1 w2 e hr
  exact ⟨by simp [hr.log], hr.fault, hr.fired, hr.leaf⟩

theorem rfault_rsub (spec : Nat → Role) : RFault (RSub spec) where
  same _ _ hr := hr.fault
  fire _ _ hr := ⟨hr.log, rfl, rfl, hr.leaf⟩
  tick _ _ _ hr := ⟨hr.log, rfl, hr.fired, hr.leaf⟩

/-! ### handles -/

theorem HSub.mk' {spec : Nat → Role} (leaf : Nat) (kind : WKind) (buf : Bytes) (pos : Nat)
    (k1 k2 : Str) (hk : KeyRel (spec leaf) k1 k2 kind) :
    HSub spec { leaf := leaf, key := k1, kind := kind, buf := buf, pos := pos }
      { leaf := leaf, key := k2, kind := kind, buf := buf, pos := pos } := ⟨rfl, rfl, rfl, rfl, hk⟩

theorem HSub.destruct {spec : Nat → Role} {h1 h2 : WHandle} (h : HSub spec h1 h2) :
    ∃ leaf kind buf pos k1 k2,
      h1 = { leaf := leaf, key := k1, kind := kind, buf := buf, pos := pos } ∧
      h2 = { leaf := leaf, key := k2, kind := kind, buf := buf, pos := pos } ∧
      KeyRel (spec leaf) k1 k2 kind := by
  obtain ⟨a, b, c, d, e⟩ := h
  cases h1; cases h2
  simp only at a b c d e
  subst a b c d
  exact ⟨_, _, _, _, _, _, rfl, rfl, e⟩

theorem simHandles_sub (spec : Nat → Role) {PR : Option Str → Option Str → Prop} [ReflPR PR] :
    SimHandles (RSub spec) PR (HSub spec) where
  write h1 h2 bs h := by
    intro w1 w2 hr
    obtain ⟨leaf, kind, buf, pos, k1, k2, rfl, rfl, hk⟩ := h.destruct
    cases hs : spec leaf with
    | free =>
      rw [hs] at hk
      have hk' : k1 = k2 := hk
      subst hk'
      have hl := hr.free_eq hs
      have hkr : ∀ kd, KeyRel (spec leaf) k1 k1 kd := fun kd => by rw [hs]; exact rfl
      unfold WHandle.write
      dsimp only
      rw [hl]
      cases kind with
      | memFile => exact ⟨.ok ⟨rfl, HSub.mk' _ _ _ _ _ _ (hkr _)⟩, hr⟩
      | physCreate =>
        dsimp only
        cases w1.leaf? leaf with
        | none => exact ⟨.ok ⟨rfl, HSub.mk' _ _ _ _ _ _ (hkr _)⟩, hr⟩
        | some l =>
          dsimp only
          cases l.files.find? k1 with
          | none => exact ⟨.ok ⟨rfl, HSub.mk' _ _ _ _ _ _ (hkr _)⟩, hr⟩
          | some e => exact ⟨.ok ⟨rfl, HSub.mk' _ _ _ _ _ _ (hkr _)⟩, hr.set_free hs _⟩
      | physAppend =>
        dsimp only
        cases w1.leaf? leaf with
        | none => exact ⟨.ok ⟨rfl, HSub.mk' _ _ _ _ _ _ (hkr _)⟩, hr⟩
        | some l =>
          dsimp only
          cases l.files.find? k1 with
          | none => exact ⟨.ok ⟨rfl, HSub.mk' _ _ _ _ _ _ (hkr _)⟩, hr⟩
          | some e => exact ⟨.ok ⟨rfl, HSub.mk' _ _ _ _ _ _ (hkr _)⟩, hr.set_free hs _⟩
    | sub P =>
      have hk' := hk
      rw [hs] at hk'
      obtain ⟨_, _, hkind⟩ := hk'
      subst hkind
      unfold WHandle.write
      exact ⟨.ok ⟨rfl, HSub.mk' _ _ _ _ _ _ hk⟩, hr⟩
  flush h1 h2 h := by
    intro w1 w2 hr
    obtain ⟨leaf, kind, buf, pos, k1, k2, rfl, rfl, hk⟩ := h.destruct
    cases hs : spec leaf with
    | free =>
      rw [hs] at hk
      have hk' : k1 = k2 := hk
      subst hk'
      have hl := hr.free_eq hs
      unfold WHandle.flush
      dsimp only
      rw [hl]
      cases kind with
      | memFile =>
        dsimp only
        cases w1.leaf? leaf with
        | none => exact ⟨.ok rfl, hr⟩
        | some l => exact ⟨.ok rfl, hr.set_free hs _⟩
      | physCreate => exact ⟨.ok rfl, hr⟩
      | physAppend => exact ⟨.ok rfl, hr⟩
    | sub P =>
      rw [hs] at hk
      obtain ⟨hkey, hcan, hkind⟩ := hk
      subst hkind hkey
      obtain ⟨m1, a1, a2, hinv⟩ := hr.leafAt hs
      unfold WHandle.flush
      dsimp only
      unfold MemLeafAt at a1 a2
      rw [a1, a2]
      dsimp only
      refine ⟨.ok rfl, hr.set hs _ _ (memPublish_shift P m1 hcan.rootedT _) ?_ ?_⟩
      · exact hinv.step hcan (memPublish_spec _ _ _ hinv)
      · exact (hr.ancAt hs a1).touch (touch_memPublish m1 (P ++ k2) buf)
  seek h1 h2 s h := by
    intro w1 w2 hr
    obtain ⟨leaf, kind, buf, pos, k1, k2, rfl, rfl, hk⟩ := h.destruct
    cases hs : spec leaf with
    | free =>
      have hk0 := hk
      rw [hs] at hk
      have hk' : k1 = k2 := hk
      subst hk'
      have hl := hr.free_eq hs
      unfold WHandle.seek WHandle.fileLen
      dsimp only
      rw [hl]
      cases cursorSeek _ pos s with
      | ok n => exact ⟨.ok ⟨rfl, HSub.mk' _ _ _ _ _ _ hk0⟩, hr⟩
      | err k p => exact ⟨.err (ReflPR.refl _), hr⟩
      | panic => exact ⟨.panic, hr⟩
    | sub P =>
      have hk' := hk
      rw [hs] at hk'
      obtain ⟨_, _, hkind⟩ := hk'
      subst hkind
      unfold WHandle.seek WHandle.fileLen
      dsimp only
      cases cursorSeek buf.length pos s with
      | ok n => exact ⟨.ok ⟨rfl, HSub.mk' _ _ _ _ _ _ hk⟩, hr⟩
      | err k p => exact ⟨.err (ReflPR.refl _), hr⟩
      | panic => exact ⟨.panic, hr⟩

end Vfs.T

namespace Vfs.T

/-! ## 5. the leaf at `P ++ q` versus the sub-leaf at `q` -/

/-- error paths: the right one is unlabelled -/
def PRn (_a b : Option Str) : Prop := b = none

theorem relres_n {α : Type} {r : Res α} (h : NoPath r) : RelRes PRn (· = ·) r r := by
  cases r with
  | ok a => exact .ok rfl
  | err k p => exact .err (h k p rfl)
  | panic => exact .panic

theorem relres_n_map {α β γ : Type} {Q : β → γ → Prop} {r : Res α} (h : NoPath r) (f : α → β)
    (g : α → γ) (hq : ∀ a, Q (f a) (g a)) : RelRes PRn Q (r.map f) (r.map g) := by
  cases r with
  | ok a => exact .ok (hq a)
  | err k p => exact .err (h k p rfl)
  | panic => exact .panic

theorem SimM.withPath_left {α β : Type} {R : World → World → Prop} {Q : α → β → Prop}
    {m1 : M α} {m2 : M β} (p : Str) (h : SimM R PRn Q m1 m2) : SimM R PRn Q (M.withPath p m1) m2 := by
  intro w1 w2 hr
  obtain ⟨h1, h2⟩ := h w1 w2 hr
  unfold M.withPath
  rcases hm1 : m1 w1 with ⟨r1, w1'⟩
  rcases hm2 : m2 w2 with ⟨r2, w2'⟩
  rw [hm1, hm2] at h1 h2
  refine ⟨?_, h2⟩
  cases h1 with
  | ok h => exact .ok h
  | err h => exact .err h
  | panic => exact .panic

theorem SimM.toDrop {α β : Type} {R : World → World → Prop} {Q : α → β → Prop}
    {m1 : M α} {m2 : M β} (h : SimM R PRn Q m1 m2) : SimM R PRdrop Q m1 m2 :=
  h.monoPR (fun _ _ hb => Or.inr hb)

section leaf
variable {spec : Nat → Role} {i : Nat} {P : Str} (hi : spec i = .sub P)
include hi

theorem run_setAccessTime {w : World} {m : FMap} (h : MemLeafAt w i m) (p : Str) (t : Int) :
    (leafFS i).setAccessTime p t w =
      ((Mem.setAccessed m p (.at t)).1, w.setLeafFiles i (Mem.setAccessed m p (.at t)).2) := by
  show onLeaf i _ w = _
  rw [run_onLeaf h]
theorem run_setModificationTime {w : World} {m : FMap} (h : MemLeafAt w i m) (p : Str) (t : Int) :
    (leafFS i).setModificationTime p t w =
      ((Mem.setModified m p (.at t)).1, w.setLeafFiles i (Mem.setModified m p (.at t)).2) := by
  show onLeaf i _ w = _
  rw [run_onLeaf h]
theorem run_setCreationTime {w : World} {m : FMap} (h : MemLeafAt w i m) (p : Str) (t : Int) :
    (leafFS i).setCreationTime p t w =
      ((Mem.setCreated m p (.at t)).1, w.setLeafFiles i (Mem.setCreated m p (.at t)).2) := by
  show onLeaf i _ w = _
  rw [run_onLeaf h]

theorem leaf_exists {q : Str} (hq : Canon q) :
    SimM (RSub spec) PRn (· = ·) ((leafFS i).exists_ (P ++ q)) ((leafFS i).exists_ q) := by
  intro w1 w2 hr
  obtain ⟨m1, h1, h2, hinv⟩ := hr.leafAt hi
  rw [run_exists h1, run_exists h2, contains_sub P m1 q hq.rootedT]
  exact ⟨.ok rfl, hr⟩

theorem leaf_metadata {q : Str} (hq : Canon q) :
    SimM (RSub spec) PRn (· = ·) ((leafFS i).metadata (P ++ q)) ((leafFS i).metadata q) := by
  intro w1 w2 hr
  obtain ⟨m1, h1, h2, hinv⟩ := hr.leafAt hi
  rw [run_metadata h1, run_metadata h2, metadata_shift P m1 hq.rootedT]
  exact ⟨relres_n (noPath_metadata _ _), hr⟩

theorem leaf_readDir {q : Str} (hq : Canon q) :
    SimM (RSub spec) PRn NamesRel ((leafFS i).readDir (P ++ q)) ((leafFS i).readDir q) := by
  intro w1 w2 hr
  obtain ⟨m1, h1, h2, hinv⟩ := hr.leafAt hi
  have hg := readDir_names_good (sub P m1) q hinv.2
  rw [run_readDir h1, run_readDir h2]
  rw [readDir_shift P m1 hq.rootedT] at hg ⊢
  refine ⟨?_, hr⟩
  have hn := noPath_readDir m1 (P ++ q)
  cases hres : Mem.readDir m1 (P ++ q) with
  | ok l => exact .ok ⟨rfl, hg l hres⟩
  | err k p => rw [hres] at hn; exact .err (hn k p rfl)
  | panic => exact .panic

theorem leaf_createDir {q : Str} (hq : Canon q) (hne : q ≠ []) :
    SimM (RSub spec) PRn (· = ·) ((leafFS i).createDir (P ++ q)) ((leafFS i).createDir q) := by
  intro w1 w2 hr
  obtain ⟨m1, h1, h2, hinv⟩ := hr.leafAt hi
  obtain ⟨hn, hstep⟩ := createDir_spec (sub P m1) q hne
  rw [run_createDir h1, run_createDir h2]
  rw [createDir_shift P m1 hq hne] at hn hstep ⊢
  exact ⟨relres_n hn, hr.set hi _ _ rfl (hinv.step hq hstep)
    ((hr.ancAt hi h1).touch (touch_createDir m1 (P ++ q)))⟩

theorem leaf_removeFile {q : Str} (hq : Canon q) :
    SimM (RSub spec) PRn (· = ·) ((leafFS i).removeFile (P ++ q)) ((leafFS i).removeFile q) := by
  intro w1 w2 hr
  obtain ⟨m1, h1, h2, hinv⟩ := hr.leafAt hi
  obtain ⟨hn, hstep⟩ := removeFile_spec (sub P m1) q hinv
  rw [run_removeFile h1, run_removeFile h2]
  rw [removeFile_shift P m1 hq.rootedT] at hn hstep ⊢
  exact ⟨relres_n hn, hr.set hi _ _ rfl (hinv.step hq hstep)
    ((hr.ancAt hi h1).touch (touch_removeFile m1 (P ++ q)))⟩

theorem leaf_removeDir {q : Str} (hq : Canon q) (hne : q ≠ []) :
    SimM (RSub spec) PRn (· = ·) ((leafFS i).removeDir (P ++ q)) ((leafFS i).removeDir q) := by
  intro w1 w2 hr
  obtain ⟨m1, h1, h2, hinv⟩ := hr.leafAt hi
  obtain ⟨hn, hstep⟩ := removeDir_spec (sub P m1) q hne
  rw [run_removeDir h1, run_removeDir h2]
  rw [removeDir_shift P m1 hq.rootedT] at hn hstep ⊢
  exact ⟨relres_n hn, hr.set hi _ _ rfl (hinv.step hq hstep)
    ((hr.ancAt hi h1).touch (touch_removeDir m1 (P ++ q)))⟩

theorem leaf_openFile {q : Str} (hq : Canon q) :
    SimM (RSub spec) PRn (· = ·) ((leafFS i).openFile (P ++ q)) ((leafFS i).openFile q) := by
  intro w1 w2 hr
  obtain ⟨m1, h1, h2, hinv⟩ := hr.leafAt hi
  obtain ⟨hn, hstep⟩ := openFile_spec (sub P m1) q hinv
  rw [run_openFile h1, run_openFile h2]
  rw [openFile_shift P m1 hq.rootedT] at hn hstep ⊢
  exact ⟨relres_n hn, hr.set hi _ _ rfl (hinv.step hq hstep)
    ((hr.ancAt hi h1).touch (touch_openFile m1 (P ++ q)))⟩

theorem leaf_setAccessTime {q : Str} (hq : Canon q) (t : Int) :
    SimM (RSub spec) PRn (· = ·) ((leafFS i).setAccessTime (P ++ q) t)
      ((leafFS i).setAccessTime q t) := by
  intro w1 w2 hr
  obtain ⟨m1, h1, h2, hinv⟩ := hr.leafAt hi
  obtain ⟨hn, hstep⟩ := setAccessed_spec (sub P m1) q (.at t) hinv
  rw [run_setAccessTime hi h1, run_setAccessTime hi h2]
  rw [setAccessed_shift P m1 hq.rootedT] at hn hstep ⊢
  exact ⟨relres_n hn, hr.set hi _ _ rfl (hinv.step hq hstep)
    ((hr.ancAt hi h1).touch (touch_setAccessed m1 (P ++ q) _))⟩

theorem leaf_setModificationTime {q : Str} (hq : Canon q) (t : Int) :
    SimM (RSub spec) PRn (· = ·) ((leafFS i).setModificationTime (P ++ q) t)
      ((leafFS i).setModificationTime q t) := by
  intro w1 w2 hr
  obtain ⟨m1, h1, h2, hinv⟩ := hr.leafAt hi
  obtain ⟨hn, hstep⟩ := setModified_spec (sub P m1) q (.at t) hinv
  rw [run_setModificationTime hi h1, run_setModificationTime hi h2]
  rw [setModified_shift P m1 hq.rootedT] at hn hstep ⊢
  exact ⟨relres_n hn, hr.set hi _ _ rfl (hinv.step hq hstep)
    ((hr.ancAt hi h1).touch (touch_setModified m1 (P ++ q) _))⟩

theorem leaf_setCreationTime {q : Str} (hq : Canon q) (t : Int) :
    SimM (RSub spec) PRn (· = ·) ((leafFS i).setCreationTime (P ++ q) t)
      ((leafFS i).setCreationTime q t) := by
  intro w1 w2 hr
  obtain ⟨m1, h1, h2, hinv⟩ := hr.leafAt hi
  obtain ⟨hn, hstep⟩ := setCreated_spec (sub P m1) q (.at t) hinv
  rw [run_setCreationTime hi h1, run_setCreationTime hi h2]
  rw [setCreated_shift P m1 hq.rootedT] at hn hstep ⊢
  exact ⟨relres_n hn, hr.set hi _ _ rfl (hinv.step hq hstep)
    ((hr.ancAt hi h1).touch (touch_setCreated m1 (P ++ q) _))⟩

theorem hsub_new {q : Str} (hq : Canon q) (buf : Bytes) (pos : Nat) :
    HSub spec { leaf := i, key := P ++ q, kind := .memFile, buf := buf, pos := pos }
      { leaf := i, key := q, kind := .memFile, buf := buf, pos := pos } :=
  HSub.mk' _ _ _ _ _ _ (by rw [hi]; exact ⟨rfl, hq, rfl⟩)

theorem leaf_appendFile {q : Str} (hq : Canon q) :
    SimM (RSub spec) PRn (HSub spec) ((leafFS i).appendFile (P ++ q)) ((leafFS i).appendFile q) := by
  intro w1 w2 hr
  obtain ⟨m1, h1, h2, hinv⟩ := hr.leafAt hi
  rw [run_appendFile h1, run_appendFile h2, appendFile_shift P m1 hq.rootedT]
  exact ⟨relres_n_map (noPath_appendFile _ _) _ _ (fun b => hsub_new hi hq b b.length), hr⟩

theorem leaf_createFile {q : Str} (hq : Canon q) (hne : q ≠ []) :
    SimM (RSub spec) PRn (HSub spec) ((leafFS i).createFile (P ++ q)) ((leafFS i).createFile q) := by
  intro w1 w2 hr
  obtain ⟨m1, h1, h2, hinv⟩ := hr.leafAt hi
  obtain ⟨hn, hstep⟩ := createFile_spec (sub P m1) q hne
  rw [run_createFile h1, run_createFile h2]
  rw [createFile_shift P m1 hq hne] at hn hstep ⊢
  exact ⟨relres_n_map hn _ _ (fun _ => hsub_new hi hq [] 0), hr.set hi _ _ rfl (hinv.step hq hstep)
    ((hr.ancAt hi h1).touch (touch_createFile m1 (P ++ q)))⟩

end leaf
end Vfs.T

namespace Vfs.T

/-! ## 6. the parent probe of the `VfsPath` layer is redundant over a memory leaf -/

theorem createFile_of_not_parentOk (m : FMap) (p : Str) (hs : '/' ∈ p)
    (h : Mem.parentOk m p = false) : Mem.createFile m p = (fail .other, m) := by
  unfold Mem.createFile
  rw [ensureHasParent_of_not_parentOk m p hs h]
  rfl

theorem createDir_of_not_parentOk (m : FMap) (p : Str) (hs : '/' ∈ p)
    (h : Mem.parentOk m p = false) : Mem.createDir m p = (fail .other, m) := by
  unfold Mem.createDir
  rw [ensureHasParent_of_not_parentOk m p hs h]
  rfl

/-- `VfsPath::create_file` over a memory leaf = the leaf's `create_file`, relabelled -/
theorem vcreateFile_eq {w : World} {i : Nat} {m : FMap} (h : MemLeafAt w i m) (id : Nat) (p : Str)
    (hp : '/' ∈ p ∨ Mem.parentOk m p = true) :
    VPath.createFile { fs := leafFS i, fsId := id, path := p } w =
      (((leafFS i).createFile p w).1.withPath p, ((leafFS i).createFile p w).2) := by
  unfold VPath.createFile
  simp only [bind, M.bind, run_getParent h]
  by_cases hok : Mem.parentOk m p = true
  · simp only [hok, ↓reduceIte, M.withPath]
  · have hs : '/' ∈ p := hp.resolve_right hok
    have hok' : Mem.parentOk m p = false := by simpa using hok
    simp only [hok', Bool.false_eq_true, ↓reduceIte, run_createFile h,
      createFile_of_not_parentOk m p hs hok', h.same]
    rfl

/-- `VfsPath::create_dir` over a memory leaf = the leaf's `create_dir`, relabelled -/
theorem vcreateDir_eq {w : World} {i : Nat} {m : FMap} (h : MemLeafAt w i m) (id : Nat) (p : Str)
    (hp : '/' ∈ p ∨ Mem.parentOk m p = true) :
    VPath.createDir { fs := leafFS i, fsId := id, path := p } w =
      (((leafFS i).createDir p w).1.withPath p, ((leafFS i).createDir p w).2) := by
  unfold VPath.createDir
  simp only [bind, M.bind, run_getParent h]
  by_cases hok : Mem.parentOk m p = true
  · simp only [hok, ↓reduceIte, M.withPath]
  · have hs : '/' ∈ p := hp.resolve_right hok
    have hok' : Mem.parentOk m p = false := by simpa using hok
    simp only [hok', Bool.false_eq_true, ↓reduceIte, run_createDir h,
      createDir_of_not_parentOk m p hs hok', h.same]
    rfl

theorem slash_mem_canon {q : Str} (hq : Canon q) (hne : q ≠ []) : '/' ∈ q := by
  obtain ⟨cs, _, rfl⟩ := hq
  exact slash_mem_renderC (by rintro rfl; exact hne rfl)

theorem ensureHasParent_kind (m : FMap) (p : Str) :
    Mem.ensureHasParent m p = .ok () ∨ Mem.ensureHasParent m p = fail .other := by
  unfold Mem.ensureHasParent
  split
  · split
    · split
      · left; rfl
      · right; rfl
    · right; rfl
  · right; rfl

/-- `create_file` on a path that is a directory fails with `Other` and changes nothing -/
theorem createFile_on_dir (m : FMap) (p : Str) (e : Entry) (he : m.find? p = some e)
    (hd : e.ftype = .dir) : Mem.createFile m p = (fail .other, m) := by
  unfold Mem.createFile
  rcases ensureHasParent_kind m p with h | h
  · rw [h]; simp only [he, hd, ↓reduceIte]
  · rw [h]; rfl

end Vfs.T

namespace Vfs.T

/-! ## 7. the altroot over a memory leaf versus the sub-leaf -/

theorem SimM.map_left {α β γ : Type} {R : World → World → Prop}
    {PR : Option Str → Option Str → Prop} {Q : α → β → Prop} {Q' : γ → β → Prop}
    {m1 : M α} {m2 : M β} (hm : SimM R PR Q m1 m2) (f : α → γ) (hf : ∀ a b, Q a b → Q' (f a) b) :
    SimM R PR Q' (m1 >>= fun a => Pure.pure (f a)) m2 := by
  intro w1 w2 hr
  obtain ⟨h1, h2⟩ := hm w1 w2 hr
  show RelRes PR Q' (M.bind m1 _ w1).1 _ ∧ R (M.bind m1 _ w1).2 _
  unfold M.bind
  rcases hm1 : m1 w1 with ⟨r1, w1'⟩
  rcases hm2 : m2 w2 with ⟨r2, w2'⟩
  rw [hm1, hm2] at h1 h2
  cases h1 with
  | ok h => exact ⟨.ok (hf _ _ h), h2⟩
  | err h => exact ⟨.err h, h2⟩
  | panic => exact ⟨.panic, h2⟩

theorem relres_withPath_left {α β : Type} {Q : α → β → Prop} {r1 : Res α} {r2 : Res β} (p : Str)
    (h : RelRes PRn Q r1 r2) : RelRes PRdrop Q (r1.withPath p) r2 := by
  cases h with
  | ok h => exact .ok h
  | err h => exact .err (Or.inr h)
  | panic => exact .panic

section altroot
variable {spec : Nat → Role} {i : Nat} {P : Str} (hi : spec i = .sub P) (hP : Canon P) (id : Nat)
include hi hP

theorem root_probe_ok {m1 : FMap} (hinv : Inv0 (sub P m1)) {q : Str} (hq : Canon q) :
    '/' ∈ P ++ q ∨ Mem.parentOk m1 (P ++ q) = true := by
  by_cases h : P ++ q = []
  · right
    obtain ⟨e, he, hd⟩ := hinv.1
    rw [find?_sub P m1 [] (Or.inl rfl)] at he
    have hP' : P = [] := (List.append_eq_nil_iff.1 h).1
    rw [h]
    unfold Mem.parentOk
    have : parentInternal [] = ([] : Str) := rfl
    rw [this]
    subst hP'
    simp only [List.append_nil] at he
    rw [he]; simp [hd]
  · left
    exact slash_mem_canon (canon_append hP hq) h

/-- **C07, filesystem level.** The 14 trait methods (all but `copy_file`) of the altroot rooted at
the directory `P` of memory leaf `i`, on the left world, are related to those of the bare memory
filesystem holding the sub-map below `P`, on the right world, at EQUAL canonical paths. -/
theorem altroot_sim_leaf0 :
    SimFS0 (RSub spec) PRdrop (HSub spec)
      (Altroot.fs { fs := leafFS i, fsId := id, path := P }) (leafFS i) := by
  refine { readDir := ?_, createDir := ?_, openFile := ?_, createFile := ?_, appendFile := ?_,
           metadata := ?_, setCreationTime := ?_, setModificationTime := ?_,
           setAccessTime := ?_, exists_ := ?_, removeFile := ?_, removeDir := ?_,
           moveFile := ?_, moveDir := ?_ }
  · intro q hq
    show SimM _ _ _ (M.ret (Altroot.path _ q) >>= _) _
    rw [Altroot.run_method _ q hP hq]
    show SimM _ _ _ (VPath.readDir _ >>= fun l => Pure.pure (l.map fun c => filenameInternal c.path)) _
    refine SimM.map_left (Q := fun (l1 : List VPath) (l2 : List Str) =>
      NamesRel (l1.map fun c => filenameInternal c.path) l2) ?_ _ (fun _ _ h => h)
    unfold VPath.readDir
    refine SimM.map_left (SimM.withPath_left _ (leaf_readDir hi hq)).toDrop _ ?_
    rintro n1 n2 ⟨rfl, hg⟩
    refine ⟨?_, ?_⟩
    · rw [List.map_map]
      conv => rhs; rw [← List.map_id n1]
      apply List.map_congr_left
      intro n hn
      exact filename_child _ n (hg n hn).noSlash
    · intro n hn
      rw [List.map_map, List.mem_map] at hn
      obtain ⟨x, hx, rfl⟩ := hn
      show GoodComp (filenameInternal (_ ++ '/' :: x))
      rw [filename_child _ x (hg x hx).noSlash]
      exact hg x hx
  · intro q hq hne
    show SimM _ _ _ (M.ret (Altroot.path _ q) >>= _) _
    rw [Altroot.run_method _ q hP hq]
    intro w1 w2 hr
    obtain ⟨m1, h1, h2, hinv⟩ := hr.leafAt hi
    show RelRes _ _ (VPath.createDir { fs := leafFS i, fsId := id, path := P ++ q } w1).1 _ ∧
      RSub spec (VPath.createDir { fs := leafFS i, fsId := id, path := P ++ q } w1).2 _
    rw [vcreateDir_eq h1 id _ (root_probe_ok hi hP hinv hq)]
    obtain ⟨a, b⟩ := leaf_createDir hi hq hne w1 w2 hr
    exact ⟨relres_withPath_left _ a, b⟩
  · intro q hq
    show SimM _ _ _ (M.ret (Altroot.path _ q) >>= _) _
    rw [Altroot.run_method _ q hP hq]
    exact (SimM.withPath_left _ (leaf_openFile hi hq)).toDrop
  · intro q hq
    show SimM _ _ _ (M.ret (Altroot.path _ q) >>= _) _
    rw [Altroot.run_method _ q hP hq]
    intro w1 w2 hr
    obtain ⟨m1, h1, h2, hinv⟩ := hr.leafAt hi
    show RelRes _ _ (VPath.createFile { fs := leafFS i, fsId := id, path := P ++ q } w1).1 _ ∧
      RSub spec (VPath.createFile { fs := leafFS i, fsId := id, path := P ++ q } w1).2 _
    rw [vcreateFile_eq h1 id _ (root_probe_ok hi hP hinv hq)]
    by_cases hne : q = []
    · subst hne
      obtain ⟨e, he, hd⟩ := hinv.1
      have he1 := he
      rw [find?_sub P m1 [] (Or.inl rfl)] at he1
      rw [run_createFile h1, run_createFile h2, createFile_on_dir m1 _ e he1 hd,
        createFile_on_dir (sub P m1) [] e he hd]
      exact ⟨.err (Or.inr rfl), hr.set hi _ _ rfl hinv (hr.ancAt hi h1)⟩
    · obtain ⟨a, b⟩ := leaf_createFile hi hq hne w1 w2 hr
      exact ⟨relres_withPath_left _ a, b⟩
  · intro q hq
    show SimM _ _ _ (M.ret (Altroot.path _ q) >>= _) _
    rw [Altroot.run_method _ q hP hq]
    exact (SimM.withPath_left _ (leaf_appendFile hi hq)).toDrop
  · intro q hq
    show SimM _ _ _ (M.ret (Altroot.path _ q) >>= _) _
    rw [Altroot.run_method _ q hP hq]
    exact (SimM.withPath_left _ (leaf_metadata hi hq)).toDrop
  · intro q t hq
    show SimM _ _ _ (M.ret (Altroot.path _ q) >>= _) _
    rw [Altroot.run_method _ q hP hq]
    exact (SimM.withPath_left _ (leaf_setCreationTime hi hq t)).toDrop
  · intro q t hq
    show SimM _ _ _ (M.ret (Altroot.path _ q) >>= _) _
    rw [Altroot.run_method _ q hP hq]
    exact (SimM.withPath_left _ (leaf_setModificationTime hi hq t)).toDrop
  · intro q t hq
    show SimM _ _ _ (M.ret (Altroot.path _ q) >>= _) _
    rw [Altroot.run_method _ q hP hq]
    exact (SimM.withPath_left _ (leaf_setAccessTime hi hq t)).toDrop
  · intro q hq
    simp only [Altroot.fs, Altroot.path_canon { fs := leafFS i, fsId := id, path := P } q hP hq]
    exact (leaf_exists hi hq).toDrop
  · intro q hq
    show SimM _ _ _ (M.ret (Altroot.path _ q) >>= _) _
    rw [Altroot.run_method _ q hP hq]
    exact (SimM.withPath_left _ (leaf_removeFile hi hq)).toDrop
  · intro q hq hne
    show SimM _ _ _ (M.ret (Altroot.path _ q) >>= _) _
    rw [Altroot.run_method _ q hP hq]
    exact (SimM.withPath_left _ (leaf_removeDir hi hq hne)).toDrop
  · intro s d _ _ w1 w2 hr
    obtain ⟨m1, h1, h2, hinv⟩ := hr.leafAt hi
    show RelRes _ _ (M.failK .notSupported w1).1 (onLeaf i _ w2).1 ∧
      RSub spec (M.failK .notSupported w1).2 (onLeaf i _ w2).2
    rw [run_onLeaf h2]
    exact ⟨.err (Or.inl rfl), by rw [h2.same]; exact hr⟩
  · intro s d _ _ w1 w2 hr
    obtain ⟨m1, h1, h2, hinv⟩ := hr.leafAt hi
    show RelRes _ _ (M.failK .notSupported w1).1 (onLeaf i _ w2).1 ∧
      RSub spec (M.failK .notSupported w1).2 (onLeaf i _ w2).2
    rw [run_onLeaf h2]
    exact ⟨.err (Or.inl rfl), by rw [h2.same]; exact hr⟩

end altroot
end Vfs.T

namespace Vfs.T

/-! ## 8. `copy_file` within the altroot = `copy_file` within the sub-leaf -/

/-- error paths unconstrained -/
abbrev PTrue : Option Str → Option Str → Prop := fun _ _ => True

/-- a unary side calculus: from worlds satisfying `I`, the computation never fails with kind `k`,
and keeps `I` -/
def KindNot {α : Type} (I : World → Prop) (k : ErrKind) (m : M α) : Prop :=
  ∀ w, I w → (∀ k' p, (m w).1 = .err k' p → k' ≠ k) ∧ I (m w).2

theorem okNE {α : Type} {a : α} (k : ErrKind) :
    ∀ k' p, (Res.ok a : Res α) = .err k' p → k' ≠ k := fun _ _ h => by cases h

namespace KindNot
variable {α β : Type} {I : World → Prop} {k : ErrKind}

theorem pure (a : α) : KindNot I k (Pure.pure a : M α) :=
  fun w hw => ⟨okNE _, hw⟩

theorem ret (r : Res α) (h : ∀ k' p, r = .err k' p → k' ≠ k) : KindNot I k (M.ret r) :=
  fun w hw => ⟨h, hw⟩

theorem bind {m : M α} {f : α → M β} (hm : KindNot I k m) (hf : ∀ a, KindNot I k (f a)) :
    KindNot I k (m >>= f) := by
  intro w hw
  obtain ⟨h1, h2⟩ := hm w hw
  show (∀ k' p, (M.bind m f w).1 = .err k' p → k' ≠ k) ∧ I (M.bind m f w).2
  unfold M.bind
  rcases hmw : m w with ⟨r, w'⟩
  rw [hmw] at h1 h2
  cases r with
  | ok a => exact hf a w' h2
  | err k' p => exact ⟨fun k'' p' h => by injection h with e1 e2; subst e1; exact h1 _ _ rfl, h2⟩
  | panic => exact ⟨fun k'' p' h => (by cases h), h2⟩

theorem withPath (p : Str) {m : M α} (hm : KindNot I k m) : KindNot I k (M.withPath p m) := by
  intro w hw
  obtain ⟨h1, h2⟩ := hm w hw
  unfold M.withPath
  rcases hmw : m w with ⟨r, w'⟩
  rw [hmw] at h1 h2
  refine ⟨?_, h2⟩
  cases r with
  | ok a => intro k' p' h; cases h
  | err k' q =>
    intro k'' p' h
    simp only [Res.withPath] at h
    injection h with e1 e2; subst e1; exact h1 _ _ rfl
  | panic => intro k' p' h; cases h

end KindNot

/-- leaf `i` is a memory leaf -/
def IsMem (i : Nat) (w : World) : Prop := ∃ m, MemLeafAt w i m

theorem IsMem.set {i : Nat} {w : World} (h : IsMem i w) (j : Nat) (f : FMap) :
    IsMem i (w.setLeafFiles j f) := by
  obtain ⟨m, hm⟩ := h
  by_cases hji : j = i
  · subst hji; exact ⟨f, hm.set f⟩
  · exact ⟨m, by unfold MemLeafAt; rw [World.leaf?_setLeafFiles_ne _ _ _ _ hji]; exact hm⟩

theorem kind_openFile (m : FMap) (p : Str) (k : ErrKind) (q : Option Str)
    (h : (Mem.openFile m p).1 = .err k q) : k ≠ .notSupported := by
  unfold Mem.openFile Mem.setAccessed at h
  cases hf : m.find? p with
  | none => rw [hf] at h; simp [fail] at h; rw [← h.1]; decide
  | some e =>
    rw [hf] at h
    simp only [FMap.find?_insert_self] at h
    split at h
    · simp [fail] at h; rw [← h.1]; decide
    · cases h

theorem kind_createFile (m : FMap) (p : Str) (k : ErrKind) (q : Option Str)
    (h : (Mem.createFile m p).1 = .err k q) : k ≠ .notSupported := by
  unfold Mem.createFile at h
  rcases ensureHasParent_kind m p with he | he
  · rw [he] at h
    dsimp only at h
    split at h
    · split at h
      · simp [fail] at h; rw [← h.1]; decide
      · cases h
    · cases h
  · rw [he] at h
    simp [fail] at h; rw [← h.1]; decide

theorem kindNot_openFile (i id : Nat) (p : Str) :
    KindNot (IsMem i) .notSupported (VPath.openFile { fs := leafFS i, fsId := id, path := p }) := by
  unfold VPath.openFile
  apply KindNot.withPath
  intro w ⟨m, hm⟩
  show (∀ k' q, ((leafFS i).openFile p w).1 = .err k' q → _) ∧ IsMem i ((leafFS i).openFile p w).2
  rw [run_openFile hm]
  exact ⟨fun k' q h => kind_openFile m p k' q h, IsMem.set ⟨m, hm⟩ i _⟩

theorem kindNot_createFile (i id : Nat) (p : Str) :
    KindNot (IsMem i) .notSupported (VPath.createFile { fs := leafFS i, fsId := id, path := p }) := by
  unfold VPath.createFile
  apply KindNot.bind
  · intro w ⟨m, hm⟩
    rw [run_getParent hm]
    refine ⟨?_, ⟨m, hm⟩⟩
    intro k' q h
    split at h
    · cases h
    · injection h with e1 _; rw [← e1]; decide
  · intro _
    apply KindNot.withPath
    intro w ⟨m, hm⟩
    show (∀ k' q, ((leafFS i).createFile p w).1 = .err k' q → _) ∧
      IsMem i ((leafFS i).createFile p w).2
    rw [run_createFile hm]
    refine ⟨?_, IsMem.set ⟨m, hm⟩ i _⟩
    intro k' q h
    cases hc : (Mem.createFile m p).1 with
    | ok a => rw [hc] at h; cases h
    | err k'' q'' =>
      rw [hc] at h
      simp only [Res.map] at h
      injection h with e1 _
      subst e1
      exact kind_createFile m p _ _ hc
    | panic => rw [hc] at h; cases h

theorem kindNot_write (i : Nat) (h : WHandle) (bs : Bytes) :
    KindNot (IsMem i) .notSupported (h.write bs) := by
  intro w hw
  unfold WHandle.write
  cases h.kind with
  | memFile => exact ⟨okNE _, hw⟩
  | physCreate =>
    dsimp only
    cases w.leaf? h.leaf with
    | none => exact ⟨okNE _, hw⟩
    | some l =>
      dsimp only
      cases l.files.find? h.key with
      | none => exact ⟨okNE _, hw⟩
      | some e => exact ⟨okNE _, hw.set _ _⟩
  | physAppend =>
    dsimp only
    cases w.leaf? h.leaf with
    | none => exact ⟨okNE _, hw⟩
    | some l =>
      dsimp only
      cases l.files.find? h.key with
      | none => exact ⟨okNE _, hw⟩
      | some e => exact ⟨okNE _, hw.set _ _⟩

theorem kindNot_flush (i : Nat) (h : WHandle) : KindNot (IsMem i) .notSupported h.flush := by
  intro w hw
  unfold WHandle.flush
  cases h.kind with
  | memFile =>
    dsimp only
    cases w.leaf? h.leaf with
    | none => exact ⟨okNE _, hw⟩
    | some l => exact ⟨okNE _, hw.set _ _⟩
  | physCreate => exact ⟨okNE _, hw⟩
  | physAppend => exact ⟨okNE _, hw⟩

theorem kindNot_ioCopyAndDrop (i : Nat) (r : RHandle) (h : WHandle) (sp : Str) :
    KindNot (IsMem i) .notSupported (VPath.ioCopyAndDrop r h sp) := by
  unfold VPath.ioCopyAndDrop
  apply KindNot.bind
  · apply KindNot.withPath
    apply KindNot.ret
    intro k' p h'
    unfold RHandle.readToEnd at h'
    split at h'
    · simp [fail] at h'; rw [← h'.1]; decide
    · cases h'
  · intro bytes
    apply KindNot.bind (kindNot_write i h bytes)
    rintro ⟨n, h'⟩
    exact kindNot_flush i h'

/-- the fallback of `copy_file` -/
def copyFB (src dst : VPath) : M Unit := do
  let r ← src.openFile
  let w ← dst.createFile
  VPath.ioCopyAndDrop r w src.path

/-- what `copy_file` does with the outcome of the fast path -/
def copyK (src dst : VPath) (fast : Res Unit) : M Unit :=
  match fast with
  | .ok _ => pure ()
  | .panic => M.ret .panic
  | .err k p => if k ≠ .notSupported then M.ret (.err k p) else copyFB src dst

theorem copyFile_unfold (s d : VPath) :
    s.copyFile d = M.withPath s.path (d.exists_ >>= fun ex =>
      if ex = true then M.failAt .other s.path
      else (if s.fsId = d.fsId then M.attempt (s.fs.copyFile s.path d.path)
            else pure (fail .notSupported)) >>= copyK s d) := by
  unfold VPath.copyFile copyK copyFB
  rfl

theorem copyK_ns (s d : VPath) : copyK s d (fail .notSupported) = copyFB s d := by
  unfold copyK fail
  simp

theorem kindNot_copyFB (i id : Nat) (a b : Str) :
    KindNot (IsMem i) .notSupported
      (copyFB { fs := leafFS i, fsId := id, path := a } { fs := leafFS i, fsId := id, path := b }) := by
  unfold copyFB
  apply KindNot.bind (kindNot_openFile i id a)
  intro r
  apply KindNot.bind (kindNot_createFile i id b)
  intro w
  exact kindNot_ioCopyAndDrop i r w _

theorem bind_run_ok {α β : Type} {m : M α} {f : α → M β} {w w' : World} {a : α}
    (h : m w = (.ok a, w')) : (m >>= f) w = f a w' := by
  show M.bind m f w = _
  unfold M.bind
  rw [h]

theorem attempt_copy_mem {w : World} {i : Nat} {m : FMap} (h : MemLeafAt w i m) (a b : Str) :
    M.attempt ((leafFS i).copyFile a b) w = (.ok (fail .notSupported), w) := by
  have : (leafFS i).copyFile a b w = (fail .notSupported, w) := by
    show onLeaf i _ w = _
    rw [run_onLeaf h]; simp [h.same]
  unfold M.attempt
  simp only [this]

/-- over a memory leaf, `copy_file` onto a path that does not exist is the fallback -/
theorem run_copy_mem {w : World} {i : Nat} {m : FMap} (h : MemLeafAt w i m) (id : Nat) (a b : Str)
    (hc : m.contains b = false) :
    VPath.copyFile { fs := leafFS i, fsId := id, path := a } { fs := leafFS i, fsId := id, path := b } w
      = M.withPath a (copyFB { fs := leafFS i, fsId := id, path := a }
          { fs := leafFS i, fsId := id, path := b }) w := by
  rw [copyFile_unfold]
  have e1 : ∀ (f : Bool → M Unit),
      ((VPath.exists_ { fs := leafFS i, fsId := id, path := b }) >>= f) w = f false w := by
    intro f
    have := run_exists h b
    rw [hc] at this
    exact bind_run_ok this
  unfold M.withPath
  dsimp only
  rw [e1]
  simp only [Bool.false_eq_true, if_false, if_true]
  rw [bind_run_ok (attempt_copy_mem h a b), copyK_ns]

end Vfs.T

namespace Vfs.T

theorem SimM.withPath_lr_true {α β : Type} {R : World → World → Prop} {Q : α → β → Prop}
    {PR : Option Str → Option Str → Prop} {m1 : M α} {m2 : M β} (p1 p2 : Str)
    (h : SimM R PR Q m1 m2) : SimM R PTrue Q (M.withPath p1 m1) (M.withPath p2 m2) := by
  intro w1 w2 hr
  obtain ⟨h1, h2⟩ := h w1 w2 hr
  unfold M.withPath
  rcases hm1 : m1 w1 with ⟨r1, w1'⟩
  rcases hm2 : m2 w2 with ⟨r2, w2'⟩
  rw [hm1, hm2] at h1 h2
  refine ⟨?_, h2⟩
  cases h1 with
  | ok h => exact .ok h
  | err h => exact .err trivial
  | panic => exact .panic

theorem SimM.withPath_left_true {α β : Type} {R : World → World → Prop} {Q : α → β → Prop}
    {m1 : M α} {m2 : M β} (p1 : Str) (h : SimM R PTrue Q m1 m2) :
    SimM R PTrue Q (M.withPath p1 m1) m2 := by
  intro w1 w2 hr
  obtain ⟨h1, h2⟩ := h w1 w2 hr
  unfold M.withPath
  rcases hm1 : m1 w1 with ⟨r1, w1'⟩
  rcases hm2 : m2 w2 with ⟨r2, w2'⟩
  rw [hm1, hm2] at h1 h2
  refine ⟨?_, h2⟩
  cases h1 with
  | ok h => exact .ok h
  | err h => exact .err trivial
  | panic => exact .panic

/-- relabelling both sides with the same path establishes any reflexive relation on labels -/
theorem SimM.withPath_any {α β : Type} {R : World → World → Prop} {Q : α → β → Prop}
    {PR PR' : Option Str → Option Str → Prop} [ReflPR PR'] {m1 : M α} {m2 : M β} (p : Str)
    (h : SimM R PR Q m1 m2) : SimM R PR' Q (M.withPath p m1) (M.withPath p m2) := by
  intro w1 w2 hr
  obtain ⟨h1, h2⟩ := h w1 w2 hr
  unfold M.withPath
  rcases hm1 : m1 w1 with ⟨r1, w1'⟩
  rcases hm2 : m2 w2 with ⟨r2, w2'⟩
  rw [hm1, hm2] at h1 h2
  refine ⟨?_, h2⟩
  cases h1 with
  | ok h => exact .ok h
  | err h => exact .err (ReflPR.refl _)
  | panic => exact .panic

/-- the root of the altroot, and a path of the altroot filesystem -/
abbrev aroot (i id : Nat) (P : Str) : VPath := { fs := leafFS i, fsId := id, path := P }
abbrev avp (i id : Nat) (P : Str) (id' : Nat) (s : Str) : VPath :=
  { fs := Altroot.fs (aroot i id P), fsId := id', path := s }

section altrootCopy
variable {spec : Nat → Role} {i : Nat} {P : Str} (hi : spec i = .sub P) (hP : Canon P)
include hi hP

/-- the fallback of `copy_file` at the shifted paths of the leaf versus at the paths of the
sub-leaf -/
theorem sim_copyFB_shift (id id' : Nat) {s d : Str} (hs : Canon s) (hd : Canon d) (hdn : d ≠ []) :
    SimM (RSub spec) PTrue (· = ·)
      (copyFB { fs := leafFS i, fsId := id, path := P ++ s }
        { fs := leafFS i, fsId := id, path := P ++ d })
      (copyFB { fs := leafFS i, fsId := id', path := s }
        { fs := leafFS i, fsId := id', path := d }) := by
  unfold copyFB
  refine SimM.bind_eq (SimM.withPath_lr_true _ _ (leaf_openFile hi hs)) fun r => ?_
  refine SimM.bind (Q := HSub spec) ?_ fun w1 w2 hw => ?_
  · intro w1 w2 hr
    obtain ⟨m1, h1, h2, hinv⟩ := hr.leafAt hi
    have hsl : '/' ∈ d := slash_mem_canon hd hdn
    rw [vcreateFile_eq h1 id _ (Or.inl (by simp [hsl])), vcreateFile_eq h2 id' _ (Or.inl hsl)]
    obtain ⟨a, b⟩ := leaf_createFile hi hd hdn w1 w2 hr
    refine ⟨?_, b⟩
    rcases e1 : (leafFS i).createFile (P ++ d) w1 with ⟨r1, w1'⟩
    rcases e2 : (leafFS i).createFile d w2 with ⟨r2, w2'⟩
    rw [e1, e2] at a
    cases a with
    | ok h => exact .ok h
    | err h => exact .err trivial
    | panic => exact .panic
  · unfold VPath.ioCopyAndDrop
    refine SimM.bind_eq (SimM.withPath_lr_true (PR := PTrue) _ _
      (SimM.ret_refl (fun _ => rfl) _)) fun bytes => ?_
    refine SimM.bind ((simHandles_sub spec).write w1 w2 bytes hw) fun r1 r2 hr => ?_
    obtain ⟨n1, h1'⟩ := r1
    obtain ⟨n2, h2'⟩ := r2
    exact (simHandles_sub spec).drop _ _ hr.2

omit hi hP in
theorem withPath_fst {α : Type} (p : Str) (m : M α) (w : World) :
    (M.withPath p m w).1 = (m w).1.withPath p := rfl
omit hi hP in
theorem withPath_snd {α : Type} (p : Str) (m : M α) (w : World) :
    (M.withPath p m w).2 = (m w).2 := rfl

omit hi hP in
/-- after the existence check said "absent", with equal `fsId`s: the fast path, then `copyK` -/
theorem copy_tail_run (sv dv : VPath) (hid : sv.fsId = dv.fsId) (w : World) :
    ((if false = true then M.failAt .other sv.path
      else (if sv.fsId = dv.fsId then M.attempt (sv.fs.copyFile sv.path dv.path)
            else pure (fail .notSupported)) >>= copyK sv dv) : M Unit) w
      = copyK sv dv (sv.fs.copyFile sv.path dv.path w).1 (sv.fs.copyFile sv.path dv.path w).2 := by
  rw [if_neg (by decide), if_pos hid]
  show M.bind (M.attempt _) _ w = _
  unfold M.bind M.attempt
  rcases sv.fs.copyFile sv.path dv.path w with ⟨r, w'⟩
  rfl

/-- **`copy_file` inside the altroot = `copy_file` inside the sub-leaf** (the weak `copy_file`
field of `SimFS`): the altroot performs the copy through the `VfsPath` layer of the underlying
filesystem, the memory filesystem reports `NotSupported` and the `VfsPath` layer above it performs
the same copy. -/
theorem altroot_copyFileV (id id' : Nat) {s d : Str} (hs : Canon s) (hd : Canon d) :
    SimM (RSub spec) PRdrop (· = ·)
      (VPath.copyFile (avp i id P id' s) (avp i id P id' d))
      (VPath.copyFile { fs := leafFS i, fsId := id', path := s }
        { fs := leafFS i, fsId := id', path := d }) := by
  intro w1 w2 hr
  obtain ⟨m1, h1, h2, hinv⟩ := hr.leafAt hi
  have hcs : (sub P m1).contains d = m1.contains (P ++ d) := contains_sub P m1 d hd.rootedT
  have hex1 : ∀ (f : Bool → M Unit),
      ((VPath.exists_ (avp i id P id' d)) >>= f) w1 = f (m1.contains (P ++ d)) w1 := by
    intro f
    have : (Altroot.fs (aroot i id P)).exists_ d w1 = (.ok (m1.contains (P ++ d)), w1) := by
      simp only [Altroot.fs, Altroot.path_canon (aroot i id P) d hP hd]
      exact run_exists h1 (P ++ d)
    exact bind_run_ok this
  cases hc : m1.contains (P ++ d) with
  | true =>
    -- the destination exists: both sides refuse, nothing changes
    rw [copyFile_unfold, copyFile_unfold]
    have e2 : ∀ (f : Bool → M Unit),
        ((VPath.exists_ { fs := leafFS i, fsId := id', path := d }) >>= f) w2 = f true w2 := by
      intro f
      have := run_exists h2 d
      rw [hcs, hc] at this
      exact bind_run_ok this
    rw [withPath_fst, withPath_snd, withPath_fst, withPath_snd, hex1, hc, e2]
    exact ⟨.err (Or.inl rfl), hr⟩
  | false =>
    have hdn : d ≠ [] := by
      rintro rfl
      obtain ⟨e, he, _⟩ := hinv.1
      rw [hc] at hcs
      unfold FMap.contains at hcs
      rw [he] at hcs
      cases hcs
    -- right: the fallback
    rw [run_copy_mem h2 id' s d (by rw [hcs, hc])]
    -- left: the altroot's `copy_file` runs the fallback at the shifted paths
    have hA : (avp i id P id' s).fs.copyFile (avp i id P id' s).path (avp i id P id' d).path w1 =
        M.withPath (P ++ s) (copyFB { fs := leafFS i, fsId := id, path := P ++ s }
          { fs := leafFS i, fsId := id, path := P ++ d }) w1 := by
      show (Altroot.fs (aroot i id P)).copyFile s d w1 = _
      rw [C07.altroot_exact_copyFile (aroot i id P) s hP hs d hd hdn]
      exact run_copy_mem h1 id (P ++ s) (P ++ d) hc
    have hX := sim_copyFB_shift hi hP id id' hs hd hdn
    have hXw := (SimM.withPath_left_true (P ++ s) hX) w1 w2 hr
    have hK := (kindNot_copyFB i id (P ++ s) (P ++ d)).withPath (P ++ s) w1 ⟨m1, h1⟩
    rw [copyFile_unfold, withPath_fst, withPath_snd, withPath_fst, withPath_snd, hex1, hc,
      copy_tail_run (avp i id P id' s) (avp i id P id' d) rfl w1, hA]
    rcases e3 : M.withPath (P ++ s) (copyFB { fs := leafFS i, fsId := id, path := P ++ s }
        { fs := leafFS i, fsId := id, path := P ++ d }) w1 with ⟨r1, w1'⟩
    rcases e4 : copyFB { fs := leafFS i, fsId := id', path := s }
        { fs := leafFS i, fsId := id', path := d } w2 with ⟨r2, w2'⟩
    rw [e3] at hK
    rw [e3, e4] at hXw
    obtain ⟨hrel, hw⟩ := hXw
    cases hrel with
    | ok h => exact ⟨.ok h, hw⟩
    | panic => exact ⟨.panic, hw⟩
    | @err k p1 p2 hp =>
      have hk : k ≠ .notSupported := hK.1 k _ rfl
      have : copyK (avp i id P id' s) (avp i id P id' d) (Res.err k p1) w1' = (Res.err k p1, w1') := by
        unfold copyK
        simp only [hk, ne_eq, not_false_eq_true, if_true, M.ret]
      show RelRes _ _ (Res.withPath _ (copyK _ _ (Res.err k p1) w1').1) _ ∧
        RSub spec (copyK _ _ (Res.err k p1) w1').2 _
      rw [this]
      exact ⟨.err (Or.inl rfl), hw⟩

/-- **C07, filesystem level, complete.** `Altroot.fs ⟨leafFS i, id, P⟩` on the left world is a
filesystem related (`SimFS`) to the bare memory filesystem `leafFS i` on the right world, whose
leaf `i` holds the sub-map below `P`. -/
theorem altroot_sim_leaf (id : Nat) :
    SimFS (RSub spec) PRdrop (HSub spec)
      (Altroot.fs { fs := leafFS i, fsId := id, path := P }) (leafFS i) where
  base := altroot_sim_leaf0 hi hP id
  copyFileV id' s d hs hd := altroot_copyFileV hi hP id id' hs hd

end altrootCopy
end Vfs.T
