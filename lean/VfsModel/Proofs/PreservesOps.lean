/-
  Every operation of the `VfsPath` layer preserves an invariant `I` as soon as the methods of
  the underlying filesystem it calls do. Observers need only the four observer methods.
-/
import VfsModel.Proofs.Hoare
namespace Vfs

macro "pres_step" : tactic => `(tactic| first
  | with_reducible exact Preserves.pure _ | with_reducible exact Preserves.mpure _
  | with_reducible exact Preserves.ret _
  | with_reducible exact Preserves.failK _ | with_reducible exact Preserves.failAt _ _
  | with_reducible apply Preserves.bind
  | with_reducible apply Preserves.withPath | with_reducible apply Preserves.attempt
  | dsimp only
  | intro _ | split
  | (apply_assumption; done))
/-- discharge `Preserves I m` goals by structural decomposition of `m` -/
macro "pres" : tactic => `(tactic| (repeat (any_goals pres_step)))

namespace VPath
variable {I : World → Prop}

@[simp] theorem withStr_fs (p : VPath) (s : Str) : (p.withStr s).fs = p.fs := rfl
@[simp] theorem parent_fs (p : VPath) : p.parent.fs = p.fs := rfl

theorem join_fs (p q : VPath) (arg : Str) (h : p.join arg = .ok q) : q.fs = p.fs ∧ q.fsId = p.fsId := by
  unfold join at h
  cases hj : joinInternal p.path arg <;> simp [hj, Res.map] at h
  subst h; exact ⟨rfl, rfl⟩

theorem pres_exists (p : VPath) (h : p.fs.ObsPreserve I) : Preserves I p.exists_ := h.exists_ _
theorem pres_metadata (p : VPath) (h : p.fs.ObsPreserve I) : Preserves I p.metadata :=
  Preserves.withPath _ (h.metadata _)
theorem pres_openFile (p : VPath) (h : p.fs.ObsPreserve I) : Preserves I p.openFile :=
  Preserves.withPath _ (h.openFile _)

theorem pres_readDir (p : VPath) (h : p.fs.ObsPreserve I) : Preserves I p.readDir := by
  have h1 := h.readDir
  unfold readDir
  pres

theorem readDir_fs (p : VPath) : Returns p.readDir (fun l => ∀ c ∈ l, c.fs = p.fs ∧ c.fsId = p.fsId) := by
  unfold readDir
  apply Returns.bind
  intro names
  apply Returns.pure
  intro c hc
  simp only [List.mem_map] at hc
  obtain ⟨n, _, rfl⟩ := hc
  exact ⟨rfl, rfl⟩

theorem pres_isFile (p : VPath) (h : p.fs.ObsPreserve I) : Preserves I p.isFile := by
  have h1 := h.exists_; have h2 := h.metadata
  unfold isFile exists_ metadata
  pres

theorem pres_isDir (p : VPath) (h : p.fs.ObsPreserve I) : Preserves I p.isDir := by
  have h1 := h.exists_; have h2 := h.metadata
  unfold isDir exists_ metadata
  pres

theorem pres_getParent (p : VPath) (h : p.fs.ObsPreserve I) : Preserves I p.getParent := by
  have h1 := h.exists_; have h2 := h.metadata
  unfold getParent exists_ metadata parent withStr
  pres

theorem pres_createDir (p : VPath) (h : p.fs.AllPreserve I) : Preserves I p.createDir := by
  have h1 := pres_getParent p h.obs; have h2 := h.createDir
  unfold createDir
  pres

theorem pres_createDirAllLoop (p : VPath) (h : p.fs.AllPreserve I) (l : List Str) :
    Preserves I (createDirAllLoop p l) := by
  induction l with
  | nil => exact Preserves.pure _
  | cons d rest ih =>
    refine ⟨fun w hw => ?_⟩
    unfold createDirAllLoop
    have := (h.createDir d).pres w hw
    cases hres : p.fs.createDir d w with
    | mk r w' =>
      rw [hres] at this
      cases r with
      | ok a => exact ih.pres w' this
      | err k pth =>
        split
        · rename_i heq; injection heq with h1 h2; cases h1
        · rename_i heq; injection heq with h1 h2; subst h2; exact ih.pres _ this
        · rename_i heq; injection heq with h1 h2; subst h2; exact this
        · rename_i heq; injection heq with h1 h2; cases h1
      | panic => exact this

theorem pres_createDirAll (p : VPath) (h : p.fs.AllPreserve I) : Preserves I p.createDirAll := by
  unfold createDirAll
  split
  · exact Preserves.pure _
  · exact pres_createDirAllLoop p h _

theorem pres_createFile (p : VPath) (h : p.fs.AllPreserve I) : Preserves I p.createFile := by
  have h1 := pres_getParent p h.obs; have h2 := h.createFile
  unfold createFile
  pres

theorem createFile_handle (p : VPath) (h : p.fs.AllPreserve I) : Returns p.createFile (HandleOK I) := by
  unfold createFile
  apply Returns.bind
  intro _
  exact Returns.withPath _ (h.createHandle _)

theorem pres_appendFile (p : VPath) (h : p.fs.AllPreserve I) : Preserves I p.appendFile :=
  Preserves.withPath _ (h.appendFile _)
theorem appendFile_handle (p : VPath) (h : p.fs.AllPreserve I) : Returns p.appendFile (HandleOK I) :=
  Returns.withPath _ (h.appendHandle _)
theorem pres_removeFile (p : VPath) (h : p.fs.AllPreserve I) : Preserves I p.removeFile :=
  Preserves.withPath _ (h.removeFile _)
theorem pres_removeDir (p : VPath) (h : p.fs.AllPreserve I) : Preserves I p.removeDir :=
  Preserves.withPath _ (h.removeDir _)
theorem pres_setCreationTime (p : VPath) (t : Int) (h : p.fs.AllPreserve I) :
    Preserves I (p.setCreationTime t) := Preserves.withPath _ (h.setCreationTime _ _)
theorem pres_setModificationTime (p : VPath) (t : Int) (h : p.fs.AllPreserve I) :
    Preserves I (p.setModificationTime t) := Preserves.withPath _ (h.setModificationTime _ _)
theorem pres_setAccessTime (p : VPath) (t : Int) (h : p.fs.AllPreserve I) :
    Preserves I (p.setAccessTime t) := Preserves.withPath _ (h.setAccessTime _ _)

mutual
theorem pres_removeDirAll (fuel : Nat) (p : VPath) (h : p.fs.AllPreserve I) :
    Preserves I (removeDirAll fuel p) := by
  cases fuel with
  | zero => unfold removeDirAll; exact Preserves.ret _
  | succ fuel =>
    unfold removeDirAll
    apply Preserves.bind (pres_exists p h.obs)
    intro b
    split
    · exact Preserves.pure _
    · apply Preserves.bindQ _ (pres_readDir p h.obs) (readDir_fs p)
      intro children hc
      apply Preserves.bind
      · exact pres_removeChildren fuel children (fun c hm => by rw [(hc c hm).1]; exact h)
      · intro _; exact pres_removeDir p h
theorem pres_removeChildren (fuel : Nat) (l : List VPath) (h : ∀ c ∈ l, c.fs.AllPreserve I) :
    Preserves I (removeChildren fuel l) := by
  cases l with
  | nil => unfold removeChildren; exact Preserves.pure _
  | cons c rest =>
    unfold removeChildren
    have hc := h c (by simp)
    apply Preserves.bind (pres_metadata c hc.obs)
    intro md
    dsimp only
    split
    · apply Preserves.bind (pres_removeFile c hc)
      intro _
      exact pres_removeChildren fuel rest (fun x hx => h x (by simp [hx]))
    · apply Preserves.bind (pres_removeDirAll fuel c hc)
      intro _
      exact pres_removeChildren fuel rest (fun x hx => h x (by simp [hx]))
end

/-! ### walk -/

theorem pres_walkDir (p : VPath) (h : p.fs.ObsPreserve I) : Preserves I p.walkDir := by
  have h1 := pres_readDir p h
  unfold walkDir
  pres

theorem pres_walkFind (inner todo : List VPath) (h : ∀ c ∈ todo, c.fs.ObsPreserve I) :
    Preserves I (walkFind inner todo) := by
  induction todo generalizing inner with
  | nil =>
    cases inner <;> (unfold walkFind; exact Preserves.pure _)
  | cons d todo ih =>
    cases inner with
    | cons x inner => unfold walkFind; exact Preserves.pure _
    | nil =>
      refine ⟨fun w hw => ?_⟩
      unfold walkFind
      have := (pres_readDir d (h d (by simp))).pres w hw
      cases hres : d.readDir w with
      | mk r w' =>
        rw [hres] at this
        cases r with
        | ok l =>
          cases l with
          | nil => exact (ih [] (fun c hc => h c (by simp [hc]))).pres w' this
          | cons x inner => exact this
        | err k pth => exact this
        | panic => exact this

/-- all paths held by a walk state belong to one filesystem -/
def Walk.On (s : Walk) (fs : FS) : Prop := (∀ c ∈ s.inner, c.fs = fs) ∧ (∀ c ∈ s.todo, c.fs = fs)

/-! ### transfers -/

theorem pres_ioCopyAndDrop (r : RHandle) (h : WHandle) (sp : Str) (hk : HandleOK I h) :
    Preserves I (ioCopyAndDrop r h sp) := by
  unfold ioCopyAndDrop
  apply Preserves.bind (Preserves.withPath _ (Preserves.ret _))
  intro bytes
  apply Preserves.bindQ (fun r => HandleOK I r.2) (hk.write bytes)
  · refine ⟨fun w r he => ?_⟩
    obtain ⟨n, h'⟩ := r
    obtain ⟨buf, pos, rfl⟩ := WHandle.write_same h bytes w n h' he
    exact hk.of_same buf pos
  · intro r hr
    exact hr.drop

/-- `copy_file`: the source is only observed, unless source and destination are the same
filesystem value (then its own `copy_file` may be used) -/
theorem pres_copyFile (src dst : VPath) (hs : src.fs.ObsPreserve I) (hd : dst.fs.AllPreserve I)
    (hsame : src.fsId = dst.fsId → src.fs.AllPreserve I) : Preserves I (src.copyFile dst) := by
  unfold copyFile
  apply Preserves.withPath
  apply Preserves.bind (pres_exists dst hd.obs)
  intro b
  split
  · exact Preserves.failAt _ _
  · apply Preserves.bind
    · split
      · rename_i heq; exact Preserves.attempt ((hsame heq).copyFile _ _)
      · exact Preserves.pure _
    · intro fast
      split
      · exact Preserves.pure _
      · exact Preserves.ret _
      · split
        · exact Preserves.ret _
        · apply Preserves.bind (pres_openFile src hs)
          intro r
          apply Preserves.bindQ _ (pres_createFile dst hd) (createFile_handle dst hd)
          intro wh hwh
          exact pres_ioCopyAndDrop r wh _ hwh

end VPath

/-! ### AltrootFS forwards: it preserves whatever the filesystem of its root preserves -/
namespace Altroot
variable {I : World → Prop}

theorem path_fs (root : VPath) (p : Str) :
    Returns (M.ret (path root p)) (fun q => q.fs = root.fs ∧ q.fsId = root.fsId) := by
  apply Returns.ret
  intro q h
  unfold path at h
  split at h
  · injection h with h; subst h; exact ⟨rfl, rfl⟩
  · split at h <;> exact VPath.join_fs _ _ _ h

theorem obs_preserve (root : VPath) (h : root.fs.ObsPreserve I) : (fs root).ObsPreserve I where
  readDir p := by
    simp only [fs]
    apply Preserves.bindQ _ (Preserves.ret _) (path_fs root p)
    intro q hq
    apply Preserves.bind (VPath.pres_readDir q (by rw [hq.1]; exact h))
    intro l; exact Preserves.pure _
  openFile p := Preserves.bindQ _ (Preserves.ret _) (path_fs root p)
    (fun q hq => VPath.pres_openFile q (by rw [hq.1]; exact h))
  metadata p := Preserves.bindQ _ (Preserves.ret _) (path_fs root p)
    (fun q hq => VPath.pres_metadata q (by rw [hq.1]; exact h))
  exists_ p := by
    simp only [fs]
    have := (path_fs root p).post
    split
    · rename_i q heq
      have hq := this default q (by simp [M.ret, heq])
      exact VPath.pres_exists q (by rw [hq.1]; exact h)
    · exact Preserves.pure _

theorem all_preserve (root : VPath) (h : root.fs.AllPreserve I) : (fs root).AllPreserve I where
  readDir := (obs_preserve root h.obs).readDir
  openFile := (obs_preserve root h.obs).openFile
  metadata := (obs_preserve root h.obs).metadata
  exists_ := (obs_preserve root h.obs).exists_
  createDir p := Preserves.bindQ _ (Preserves.ret _) (path_fs root p)
    (fun q hq => VPath.pres_createDir q (by rw [hq.1]; exact h))
  createFile p := Preserves.bindQ _ (Preserves.ret _) (path_fs root p)
    (fun q hq => VPath.pres_createFile q (by rw [hq.1]; exact h))
  appendFile p := Preserves.bindQ _ (Preserves.ret _) (path_fs root p)
    (fun q hq => VPath.pres_appendFile q (by rw [hq.1]; exact h))
  setCreationTime p t := Preserves.bindQ _ (Preserves.ret _) (path_fs root p)
    (fun q hq => VPath.pres_setCreationTime q t (by rw [hq.1]; exact h))
  setModificationTime p t := Preserves.bindQ _ (Preserves.ret _) (path_fs root p)
    (fun q hq => VPath.pres_setModificationTime q t (by rw [hq.1]; exact h))
  setAccessTime p t := Preserves.bindQ _ (Preserves.ret _) (path_fs root p)
    (fun q hq => VPath.pres_setAccessTime q t (by rw [hq.1]; exact h))
  removeFile p := Preserves.bindQ _ (Preserves.ret _) (path_fs root p)
    (fun q hq => VPath.pres_removeFile q (by rw [hq.1]; exact h))
  removeDir p := Preserves.bindQ _ (Preserves.ret _) (path_fs root p)
    (fun q hq => VPath.pres_removeDir q (by rw [hq.1]; exact h))
  copyFile s d := by
    simp only [fs]
    split
    · exact Preserves.failK _
    · apply Preserves.bindQ _ (Preserves.ret _) (path_fs root s)
      intro sp hsp
      apply Preserves.bindQ _ (Preserves.ret _) (path_fs root d)
      intro dp hdp
      exact VPath.pres_copyFile sp dp (by rw [hsp.1]; exact h.obs) (by rw [hdp.1]; exact h)
        (fun _ => by rw [hsp.1]; exact h)
  moveFile _ _ := Preserves.failK _
  moveDir _ _ := Preserves.failK _
  createHandle p := Returns.bindQ (path_fs root p)
    (fun q hq => VPath.createFile_handle q (by rw [hq.1]; exact h))
  appendHandle p := Returns.bindQ (path_fs root p)
    (fun q hq => VPath.appendFile_handle q (by rw [hq.1]; exact h))

end Altroot
end Vfs
