/-
  Helper lemmas for the n-layer generalisation of C10 (Props/C10N.lean): the removal side of the
  overlay over n leaf roots (setting `OWN w (u :: is) (idu :: ids) (mu :: ms)` of
  OverlayNLemmas.lean).

  * `run_addWhiteoutN`, `run_oremoveFileN`, `run_oremoveDirN` (+ the unconditional
    `run_oremoveDirN_any`, `run_oreadDirN_world`): `remove_file` / `remove_dir` of the overlay
    compute the pure functions `pRemoveFileN` / `pRemoveDirN` of the maps; only the upper leaf
    changes;
  * what these pure functions keep (`*_keeps`: every key of the upper map except the removed
    path itself), what they leave untouched (`*_frame`, `*_old`: unconditional frame lemmas for
    `Mem.mkdirs`, `Mem.pTouch`, `pAddWhiteout`, `pRemoveFileN`, `pRemoveDirN`), and what a
    successful run leaves behind (`*_ok`: the marker as an empty file; `*_ok_self`: nothing at the
    removed path);
  * the same for `pEnsureN`, `pCreateDirN`, `pCreateFileN` (`*_keeps`);
  * `run_oopenFileN`: `open_file` through the overlay, as a case analysis on `read_path`;
  * `run_vcopyFile_keepsN`, `run_oappendFile_keepsN`: `copy_file` from any layer to the upper
    leaf and `append_file` of the overlay (copy-up included), whatever their outcome, leave an
    n-layer setting whose upper map keeps all its keys; a returned handle writes to the upper leaf.
-/
import VfsModel.Proofs.OverlayNLemmas
set_option linter.unusedSimpArgs false
set_option linter.unusedVariables false
namespace Vfs
open Overlay

/-! ### the pure functions -/

/-- `remove_file` over n layers, as a function of the maps -/
def pRemoveFileN (mu : FMap) (ms : List FMap) (cs : List Str) : Res Unit × FMap :=
  match viewN (mu :: ms) (renderC cs) with
  | none => (.err .fileNotFound none, mu)
  | some _ =>
    andThen (if mu.contains (renderC cs) then Mem.pRemoveFile mu (renderC cs) else (.ok (), mu))
      fun _ m1 => pAddWhiteout m1 cs

/-- `remove_dir` over n layers, as a function of the maps -/
def pRemoveDirN (mu : FMap) (ms : List FMap) (cs : List Str) : Res Unit × FMap :=
  match viewN (mu :: ms) (renderC cs) with
  | none => (.err .fileNotFound none, mu)
  | some _ =>
    match pReadDirN (mu :: ms) (renderC cs) with
    | .ok l =>
      if l ≠ [] then (.err .other none, mu)
      else
        andThen (if mu.contains (renderC cs) then Mem.pRemoveDir mu (renderC cs) else (.ok (), mu))
          fun _ m1 => pAddWhiteout m1 cs
    | .err k pth => (.err k pth, mu)
    | .panic => (.panic, mu)

theorem pRemoveFileN_two (mu ml : FMap) (cs : List Str) :
    pRemoveFileN mu [ml] cs = pRemoveFile mu ml cs := by
  unfold pRemoveFileN pRemoveFile
  rw [viewN_two]
  cases view mu ml (renderC cs) <;> rfl

theorem pReadDirN_two (mu ml : FMap) (p : Str) : pReadDirN [mu, ml] p = pReadDir mu ml p := by
  unfold pReadDirN pReadDir dirEntryN dirEntry?
  rw [viewN_two, pListingN_two]
  rfl

theorem pRemoveDirN_two (mu ml : FMap) (cs : List Str) :
    pRemoveDirN mu [ml] cs = pRemoveDir mu ml cs := by
  unfold pRemoveDirN pRemoveDir
  rw [viewN_two, pReadDirN_two]
  cases view mu ml (renderC cs) with
  | none => rfl
  | some e => cases pReadDir mu ml (renderC cs) <;> rfl

/-! ### unconditional frame lemmas for the upper-layer primitives -/

theorem Mem.createDir_frame (m : FMap) (d k : Str) (hne : k ≠ d) :
    (Mem.createDir m d).2.find? k = m.find? k := by
  unfold Mem.createDir
  split
  · split
    · rfl
    · exact FMap.find?_insert_ne _ _ _ _ hne
  · rfl
  · rfl

/-- `create_dir` never changes an entry that exists -/
theorem Mem.createDir_old (m : FMap) (d k : Str) (hc : m.contains k = true) :
    (Mem.createDir m d).2.find? k = m.find? k := by
  by_cases hne : k = d
  · subst hne
    obtain ⟨e, he⟩ := (FMap.contains_iff _ _).1 hc
    unfold Mem.createDir
    split
    · simp only [he]
    · rfl
    · rfl
  · exact Mem.createDir_frame m d k hne

theorem mkdirs_frame (m : FMap) (ds : List Str) (k : Str) (hk : k ∉ ds) :
    (Mem.mkdirs m ds).2.find? k = m.find? k := by
  induction ds generalizing m with
  | nil => rfl
  | cons d rest ih =>
    have hne : k ≠ d := fun e => hk (by simp [e])
    have hr : k ∉ rest := fun e => hk (by simp [e])
    unfold Mem.mkdirs
    have := Mem.createDir_frame m d k hne
    cases hc : Mem.createDir m d with
    | mk r m' =>
      rw [hc] at this
      cases r with
      | ok a => simp only; rw [ih _ hr]; exact this
      | err e pth => cases e <;> simp only <;> first | (rw [ih _ hr]; exact this) | exact this
      | panic => exact this

/-- `create_dir_all` never changes an entry that exists -/
theorem mkdirs_old (m : FMap) (ds : List Str) (k : Str) (hc : m.contains k = true) :
    (Mem.mkdirs m ds).2.find? k = m.find? k := by
  induction ds generalizing m with
  | nil => rfl
  | cons d rest ih =>
    unfold Mem.mkdirs
    have := Mem.createDir_old m d k hc
    have hkeep := Mem.createDir_keeps d hc
    cases hcd : Mem.createDir m d with
    | mk r m' =>
      rw [hcd] at this hkeep
      cases r with
      | ok a => simp only; rw [ih _ hkeep]; exact this
      | err e pth => cases e <;> simp only <;> first | (rw [ih _ hkeep]; exact this) | exact this
      | panic => exact this

theorem Mem.createDir_absent (m : FMap) (d : Str) (hf : m.find? d = none) :
    Mem.createDir m d = (.ok (), m.insert d dirEntryNow) ∨
      ∃ p, Mem.createDir m d = (.err .other p, m) := by
  unfold Mem.createDir Mem.ensureHasParent
  by_cases hs : '/' ∈ d
  · rcases Option.eq_none_or_eq_some (m.find? (parentInternal d)) with hp | ⟨e, hp⟩
    · right; exact ⟨none, by simp [hs, hp, fail]⟩
    · by_cases hd : e.ftype = .dir
      · left; simp [hs, hp, hd, hf]
      · right; exact ⟨none, by simp [hs, hp, hd, fail]⟩
  · right; exact ⟨none, by simp [hs, fail]⟩

/-- a successful `create_dir_all` leaves a fresh directory at every listed key that was absent -/
theorem mkdirs_ok_new {m m' : FMap} {ds : List Str} (h : Mem.mkdirs m ds = (.ok (), m'))
    (k : Str) (hk : k ∈ ds) (hf : m.find? k = none) : m'.find? k = some dirEntryNow := by
  induction ds generalizing m with
  | nil => simp at hk
  | cons d rest ih =>
    unfold Mem.mkdirs at h
    by_cases hkd : k = d
    · subst hkd
      rcases Mem.createDir_absent m k hf with hcd | ⟨p, hcd⟩
      · rw [hcd] at h
        simp only at h
        have hnew : (m.insert k dirEntryNow).find? k = some dirEntryNow :=
          FMap.find?_insert_self _ _ _
        have := mkdirs_old (m.insert k dirEntryNow) rest k (contains_of_find hnew)
        rw [h] at this
        rw [this, hnew]
      · rw [hcd] at h
        simp at h
    · have hkr : k ∈ rest := by
        rcases List.mem_cons.1 hk with e | e
        · exact absurd e hkd
        · exact e
      have hfr := Mem.createDir_frame m d k hkd
      cases hcd : Mem.createDir m d with
      | mk r m1 =>
        rw [hcd] at h hfr
        cases r with
        | ok a => exact ih h hkr (by rw [hfr]; exact hf)
        | err e pth =>
          cases e <;> simp only at h <;> first | exact ih h hkr (by rw [hfr]; exact hf) | simp at h
        | panic => simp at h

theorem Mem.createFile_frame (m : FMap) (p k : Str) (hne : k ≠ p) :
    (Mem.createFile m p).2.find? k = m.find? k := by
  unfold Mem.createFile
  split
  · split
    · split
      · rfl
      · exact FMap.find?_insert_ne _ _ _ _ hne
    · exact FMap.find?_insert_ne _ _ _ _ hne
  · rfl
  · rfl

theorem Mem.pTouch_frame (m : FMap) (p k : Str) (hne : k ≠ p) :
    (Mem.pTouch m p).2.find? k = m.find? k := by
  unfold Mem.pTouch
  split
  · have := Mem.createFile_frame m p k hne
    cases hc : Mem.createFile m p with
    | mk r m' =>
      rw [hc] at this
      cases r with
      | ok a => simp only; rw [find?_memPublish_ne _ _ _ _ hne]; exact this
      | err e pth => exact this
      | panic => exact this
  · rfl

theorem andThen_frame {α β} {k : Str} (x : Res α × FMap) (f : α → FMap → Res β × FMap) (m0 : FMap)
    (hx : x.2.find? k = m0.find? k) (hf : ∀ a m, (f a m).2.find? k = m.find? k) :
    (andThen x f).2.find? k = m0.find? k := by
  obtain ⟨r, m⟩ := x
  cases r with
  | ok a => exact (hf a m).trans hx
  | err e pth => exact hx
  | panic => exact hx

/-- `add_whiteout(p)` touches nothing but the marker of `p` and the directories
"/.whiteout/<parent of p>" -/
theorem pAddWhiteout_frame (m : FMap) (cs : List Str) (k : Str)
    (hk : k ∉ chain [] (woDir :: cs.dropLast)) (hne : k ≠ marker (renderC cs)) :
    (pAddWhiteout m cs).2.find? k = m.find? k := by
  unfold pAddWhiteout
  exact andThen_frame _ _ m (mkdirs_frame m _ k hk) (fun _ m1 => Mem.pTouch_frame m1 _ k hne)

/-- `add_whiteout(p)` never changes an entry that exists, the marker aside -/
theorem pAddWhiteout_old (m : FMap) (cs : List Str) (k : Str) (hc : m.contains k = true)
    (hne : k ≠ marker (renderC cs)) : (pAddWhiteout m cs).2.find? k = m.find? k := by
  unfold pAddWhiteout
  exact andThen_frame _ _ m (mkdirs_old m _ k hc) (fun _ m1 => Mem.pTouch_frame m1 _ k hne)

/-- a successful `add_whiteout(p)` leaves a fresh directory at every "/.whiteout/<ancestor>" that
was absent -/
theorem pAddWhiteout_ok_new {m m' : FMap} {cs : List Str} (h : pAddWhiteout m cs = (.ok (), m'))
    (k : Str) (hk : k ∈ chain [] (woDir :: cs.dropLast)) (hne : k ≠ marker (renderC cs))
    (hf : m.find? k = none) : m'.find? k = some dirEntryNow := by
  unfold pAddWhiteout at h
  obtain ⟨a, m1, h1, h2⟩ := andThen_ok h
  have hm1 : m1.find? k = some dirEntryNow := by
    cases a
    exact mkdirs_ok_new (by rw [← h1]) k hk hf
  have := Mem.pTouch_frame m1 (marker (renderC cs)) k hne
  rw [h2] at this
  rw [this, hm1]

theorem Mem.pRemoveFile_frame (m : FMap) (p k : Str) (hne : k ≠ p) :
    (Mem.pRemoveFile m p).2.find? k = m.find? k := by
  unfold Mem.pRemoveFile Mem.removeFile
  split
  · rfl
  · split
    · rfl
    · exact FMap.find?_erase_ne _ _ _ hne

theorem Mem.pRemoveDir_frame (m : FMap) (p k : Str) (hne : k ≠ p) :
    (Mem.pRemoveDir m p).2.find? k = m.find? k := by
  unfold Mem.pRemoveDir Mem.removeDir
  split
  · split
    · rfl
    · split
      · exact FMap.find?_erase_ne _ _ _ hne
      · rfl
  · rfl
  · rfl

theorem Mem.pRemoveFile_ok_eq {m m' : FMap} {p : Str} {a : Unit}
    (h : Mem.pRemoveFile m p = (.ok a, m')) : m' = m.erase p := by
  unfold Mem.pRemoveFile Mem.removeFile at h
  split at h
  · simp [fail, Res.withPath] at h
  · split at h
    · simp [fail, Res.withPath] at h
    · simp only [Prod.mk.injEq] at h; exact h.2.symm

theorem Mem.pRemoveDir_ok_eq {m m' : FMap} {p : Str} {a : Unit}
    (h : Mem.pRemoveDir m p = (.ok a, m')) : m' = m.erase p := by
  unfold Mem.pRemoveDir Mem.removeDir at h
  split at h
  · split at h
    · simp [fail, Res.withPath] at h
    · split at h
      · simp only [Prod.mk.injEq] at h; exact h.2.symm
      · simp [fail, Res.withPath] at h
  · simp [Res.withPath] at h
  · simp [Res.withPath] at h

/-! ### `remove_file` / `remove_dir` over n layers: frame, keeps, success -/

/-- `remove_file(p)` touches nothing but `p`, its marker and the directories
"/.whiteout/<parent of p>" — whether it succeeds or not -/
theorem pRemoveFileN_frame (mu : FMap) (ms : List FMap) (cs : List Str) (k : Str)
    (h1 : k ≠ renderC cs) (h2 : k ≠ marker (renderC cs))
    (h3 : k ∉ chain [] (woDir :: cs.dropLast)) :
    (pRemoveFileN mu ms cs).2.find? k = mu.find? k := by
  unfold pRemoveFileN
  split
  · rfl
  · apply andThen_frame _ _ mu
    · split
      · exact Mem.pRemoveFile_frame _ _ _ h1
      · rfl
    · intro _ m1; exact pAddWhiteout_frame m1 cs k h3 h2

/-- `remove_file(p)` never changes an entry that exists, `p` and its marker aside -/
theorem pRemoveFileN_old (mu : FMap) (ms : List FMap) (cs : List Str) (k : Str)
    (h1 : k ≠ renderC cs) (h2 : k ≠ marker (renderC cs)) (hc : mu.contains k = true) :
    (pRemoveFileN mu ms cs).2.find? k = mu.find? k := by
  unfold pRemoveFileN
  split
  · rfl
  · have hstep : (if mu.contains (renderC cs) then Mem.pRemoveFile mu (renderC cs)
        else (.ok (), mu)).2.find? k = mu.find? k := by
      split
      · exact Mem.pRemoveFile_frame _ _ _ h1
      · rfl
    generalize (if mu.contains (renderC cs) then Mem.pRemoveFile mu (renderC cs)
        else (.ok (), mu)) = x at hstep
    obtain ⟨r, m1⟩ := x
    cases r with
    | ok a =>
      have hc1 : m1.contains k = true := by
        unfold FMap.contains at hc ⊢; rw [hstep]; exact hc
      exact (pAddWhiteout_old m1 cs k hc1 h2).trans hstep
    | err e pth => exact hstep
    | panic => exact hstep

theorem pRemoveDirN_frame (mu : FMap) (ms : List FMap) (cs : List Str) (k : Str)
    (h1 : k ≠ renderC cs) (h2 : k ≠ marker (renderC cs))
    (h3 : k ∉ chain [] (woDir :: cs.dropLast)) :
    (pRemoveDirN mu ms cs).2.find? k = mu.find? k := by
  unfold pRemoveDirN
  split
  · rfl
  · split
    · split
      · rfl
      · apply andThen_frame _ _ mu
        · split
          · exact Mem.pRemoveDir_frame _ _ _ h1
          · rfl
        · intro _ m1; exact pAddWhiteout_frame m1 cs k h3 h2
    · rfl
    · rfl

theorem pRemoveDirN_old (mu : FMap) (ms : List FMap) (cs : List Str) (k : Str)
    (h1 : k ≠ renderC cs) (h2 : k ≠ marker (renderC cs)) (hc : mu.contains k = true) :
    (pRemoveDirN mu ms cs).2.find? k = mu.find? k := by
  unfold pRemoveDirN
  split
  · rfl
  · split
    · split
      · rfl
      · have hstep : (if mu.contains (renderC cs) then Mem.pRemoveDir mu (renderC cs)
            else (.ok (), mu)).2.find? k = mu.find? k := by
          split
          · exact Mem.pRemoveDir_frame _ _ _ h1
          · rfl
        generalize (if mu.contains (renderC cs) then Mem.pRemoveDir mu (renderC cs)
            else (.ok (), mu)) = x at hstep
        obtain ⟨r, m1⟩ := x
        cases r with
        | ok a =>
          have hc1 : m1.contains k = true := by
            unfold FMap.contains at hc ⊢; rw [hstep]; exact hc
          exact (pAddWhiteout_old m1 cs k hc1 h2).trans hstep
        | err e pth => exact hstep
        | panic => exact hstep
    · rfl
    · rfl

/-- `remove_file(q)` keeps every key of the upper layer except `q` -/
theorem pRemoveFileN_keeps {mu : FMap} {ms : List FMap} {k : Str} (cs : List Str)
    (hne : k ≠ renderC cs) (h : mu.contains k = true) :
    (pRemoveFileN mu ms cs).2.contains k = true := by
  unfold pRemoveFileN
  split
  · exact h
  · apply andThen_keeps
    · split
      · exact Mem.pRemoveFile_keeps _ hne h
      · exact h
    · intro _ m hm; exact pAddWhiteout_keeps _ hm

/-- `remove_dir(q)` keeps every key of the upper layer except `q` -/
theorem pRemoveDirN_keeps {mu : FMap} {ms : List FMap} {k : Str} (cs : List Str)
    (hne : k ≠ renderC cs) (h : mu.contains k = true) :
    (pRemoveDirN mu ms cs).2.contains k = true := by
  unfold pRemoveDirN
  split
  · exact h
  · split
    · split
      · exact h
      · apply andThen_keeps
        · split
          · exact Mem.pRemoveDir_keeps _ hne h
          · exact h
        · intro _ m hm; exact pAddWhiteout_keeps _ hm
    · exact h
    · exact h

/-- a successful `remove_file` leaves the marker, an empty file -/
theorem pRemoveFileN_ok {mu m' : FMap} {ms : List FMap} {cs : List Str}
    (h : pRemoveFileN mu ms cs = (.ok (), m')) :
    ∃ e, m'.find? (marker (renderC cs)) = some e ∧ e.ftype = .file ∧ e.content = [] := by
  unfold pRemoveFileN at h
  split at h
  · simp at h
  · obtain ⟨_, m1, _, h2⟩ := andThen_ok h
    exact pAddWhiteout_ok h2

theorem pRemoveDirN_ok {mu m' : FMap} {ms : List FMap} {cs : List Str}
    (h : pRemoveDirN mu ms cs = (.ok (), m')) :
    ∃ e, m'.find? (marker (renderC cs)) = some e ∧ e.ftype = .file ∧ e.content = [] := by
  unfold pRemoveDirN at h
  split at h
  · simp at h
  · split at h
    · split at h
      · simp at h
      · obtain ⟨_, m1, _, h2⟩ := andThen_ok h
        exact pAddWhiteout_ok h2
    · simp at h
    · simp at h

/-- a successful `remove_file(p)` only happens on a path of the view -/
theorem pRemoveFileN_ok_view {mu m' : FMap} {ms : List FMap} {cs : List Str}
    (h : pRemoveFileN mu ms cs = (.ok (), m')) : ∃ e, viewN (mu :: ms) (renderC cs) = some e := by
  unfold pRemoveFileN at h
  split at h
  · simp at h
  · rename_i e he; exact ⟨e, he⟩

/-- a successful `remove_dir(p)` only happens on a path of the view whose listing is empty -/
theorem pRemoveDirN_ok_view {mu m' : FMap} {ms : List FMap} {cs : List Str}
    (h : pRemoveDirN mu ms cs = (.ok (), m')) :
    (∃ e, viewN (mu :: ms) (renderC cs) = some e) ∧ pReadDirN (mu :: ms) (renderC cs) = .ok [] := by
  unfold pRemoveDirN at h
  split at h
  · simp at h
  · rename_i e he
    refine ⟨⟨e, he⟩, ?_⟩
    split at h
    · rename_i l hl
      split at h
      · simp at h
      · rename_i hne; rw [hl]; simp at hne; rw [hne]
    · simp at h
    · simp at h

/-- after a successful `remove_file(p)` the upper map has nothing at `p` (for `p` outside the
bookkeeping directory) -/
theorem pRemoveFileN_ok_self {mu m' : FMap} {ms : List FMap} {cs : List Str}
    (h : pRemoveFileN mu ms cs = (.ok (), m'))
    (h2 : renderC cs ≠ marker (renderC cs))
    (h3 : renderC cs ∉ chain [] (woDir :: cs.dropLast)) : m'.find? (renderC cs) = none := by
  unfold pRemoveFileN at h
  split at h
  · simp at h
  · obtain ⟨a, m1, h1, hadd⟩ := andThen_ok h
    have := pAddWhiteout_frame m1 cs (renderC cs) h3 h2
    rw [hadd] at this
    rw [this]
    split at h1
    · rw [Mem.pRemoveFile_ok_eq h1]; exact FMap.find?_erase_self _ _
    · rename_i hc
      simp only [Prod.mk.injEq] at h1
      rw [← h1.2]
      unfold FMap.contains at hc
      cases hf : mu.find? (renderC cs) <;> simp_all

theorem pRemoveDirN_ok_self {mu m' : FMap} {ms : List FMap} {cs : List Str}
    (h : pRemoveDirN mu ms cs = (.ok (), m'))
    (h2 : renderC cs ≠ marker (renderC cs))
    (h3 : renderC cs ∉ chain [] (woDir :: cs.dropLast)) : m'.find? (renderC cs) = none := by
  unfold pRemoveDirN at h
  split at h
  · simp at h
  · split at h
    · split at h
      · simp at h
      · obtain ⟨a, m1, h1, hadd⟩ := andThen_ok h
        have := pAddWhiteout_frame m1 cs (renderC cs) h3 h2
        rw [hadd] at this
        rw [this]
        split at h1
        · rw [Mem.pRemoveDir_ok_eq h1]; exact FMap.find?_erase_self _ _
        · rename_i hc
          simp only [Prod.mk.injEq] at h1
          rw [← h1.2]
          unfold FMap.contains at hc
          cases hf : mu.find? (renderC cs) <;> simp_all
    · simp at h
    · simp at h

/-- a successful `remove_file(p)` leaves a fresh directory at every "/.whiteout/<ancestor>" that
was absent -/
theorem pRemoveFileN_ok_new {mu m' : FMap} {ms : List FMap} {cs : List Str}
    (h : pRemoveFileN mu ms cs = (.ok (), m')) (k : Str)
    (hk : k ∈ chain [] (woDir :: cs.dropLast)) (h1 : k ≠ renderC cs)
    (h2 : k ≠ marker (renderC cs)) (hf : mu.find? k = none) : m'.find? k = some dirEntryNow := by
  unfold pRemoveFileN at h
  split at h
  · simp at h
  · obtain ⟨a, m1, hstep, hadd⟩ := andThen_ok h
    apply pAddWhiteout_ok_new hadd k hk h2
    split at hstep
    · rw [Mem.pRemoveFile_ok_eq hstep, FMap.find?_erase_ne _ _ _ h1]; exact hf
    · simp only [Prod.mk.injEq] at hstep; rw [← hstep.2]; exact hf

theorem pRemoveDirN_ok_new {mu m' : FMap} {ms : List FMap} {cs : List Str}
    (h : pRemoveDirN mu ms cs = (.ok (), m')) (k : Str)
    (hk : k ∈ chain [] (woDir :: cs.dropLast)) (h1 : k ≠ renderC cs)
    (h2 : k ≠ marker (renderC cs)) (hf : mu.find? k = none) : m'.find? k = some dirEntryNow := by
  unfold pRemoveDirN at h
  split at h
  · simp at h
  · split at h
    · split at h
      · simp at h
      · obtain ⟨a, m1, hstep, hadd⟩ := andThen_ok h
        apply pAddWhiteout_ok_new hadd k hk h2
        split at hstep
        · rw [Mem.pRemoveDir_ok_eq hstep, FMap.find?_erase_ne _ _ _ h1]; exact hf
        · simp only [Prod.mk.injEq] at hstep; rw [← hstep.2]; exact hf
    · simp at h
    · simp at h

/-! ### what `ensure_has_parent`, `create_dir`, `create_file` over n layers keep -/

theorem pEnsureN_keeps {mu : FMap} {ms : List FMap} {k : Str} (ds : List Str)
    (h : mu.contains k = true) : (pEnsureN (mu :: ms) ds).2.contains k = true := by
  unfold pEnsureN
  split
  · split
    · exact mkdirs_keeps _ h
    · exact h
  · exact h

/-- `create_dir(q)` keeps every key of the upper layer except `marker q` -/
theorem pCreateDirN_keeps {mu : FMap} {ms : List FMap} {k : Str} (cs : List Str)
    (hne : k ≠ marker (renderC cs)) (h : mu.contains k = true) :
    (pCreateDirN mu ms cs).2.contains k = true := by
  unfold pCreateDirN
  apply andThen_keeps _ _ (pEnsureN_keeps _ h)
  intro _ m hm
  split
  · exact hm
  · exact pCreateTail_keeps _ hne hm

/-- `create_file(q)` keeps every key of the upper layer except `marker q` -/
theorem pCreateFileN_keeps {mu : FMap} {ms : List FMap} {k : Str} (cs : List Str)
    (hne : k ≠ marker (renderC cs)) (h : mu.contains k = true) :
    (pCreateFileN mu ms cs).2.contains k = true := by
  unfold pCreateFileN
  apply andThen_keeps _ _ (pEnsureN_keeps _ h)
  intro _ m hm
  apply andThen_keeps _ _ hm
  intro _ _ _
  exact andThen_keeps _ _ (Mem.pOpenW_keeps _ hm) (fun _ m2 hm2 => pClear_keeps _ hne hm2)

/-! ### small facts used by the copy-up of `append_file` -/

theorem Mem.openFile_keeps {m : FMap} {k : Str} (p : Str) (hc : m.contains k = true) :
    (Mem.openFile m p).2.contains k = true := by
  rcases Option.eq_none_or_eq_some (m.find? p) with hf | ⟨e, hf⟩
  · rw [Mem.openFile_none m _ hf]; exact hc
  · rw [Mem.openFile_some m _ e hf]; exact contains_insert_of_contains hc

/-- the head of the list of maps after the map of layer `k` was replaced by `m2`: it still has
the key when the replaced map kept it -/
theorem OWN.head_after_set {mu : FMap} {ms : List FMap} {k : Nat} {m m2 : FMap} {key : Str}
    (hm : (mu :: ms)[k]? = some m) (hk : mu.contains key = true)
    (hkeep : m.contains key = true → m2.contains key = true) :
    ∃ mu2 ms2, (mu :: ms).set k m2 = mu2 :: ms2 ∧ mu2.contains key = true := by
  cases k with
  | zero =>
    simp only [List.getElem?_cons_zero, Option.some.injEq] at hm
    subst hm
    exact ⟨m2, ms, rfl, hkeep hk⟩
  | succ k => exact ⟨mu, ms.set k m2, rfl, hk⟩


/-! ### the run lemmas -/

section runN3
variable {w : World} {u idu : Nat} {mu : FMap} {is ids : List Nat} {ms : List FMap}
  (h : OWN w (u :: is) (idu :: ids) (mu :: ms))
include h

theorem run_addWhiteoutN (cs : List Str) (hne : cs ≠ []) (hcs : ∀ c ∈ cs, GoodComp c) :
    addWhiteout (layersN (u :: is) (idu :: ids)) (renderC cs) w =
      ((pAddWhiteout mu cs).1, w.setLeafFiles u (pAddWhiteout mu cs).2) := by
  have hds : ∀ c ∈ woDir :: cs.dropLast, GoodComp c := by
    intro c hc
    rcases List.mem_cons.1 hc with rfl | hc
    · exact goodComp_woDir
    · exact hcs c (List.dropLast_subset _ hc)
  have hpar : parentInternal (marker (renderC cs)) = renderC (woDir :: cs.dropLast) := by
    rcases List.eq_nil_or_concat cs with rfl | ⟨ds, n, rfl⟩
    · exact absurd rfl hne
    · rw [List.concat_eq_append] at hcs ⊢
      obtain ⟨hd, hn⟩ := good_of_snoc hcs
      rw [marker_parent ds n hd hn, woDirOf_renderC, List.dropLast_concat]
  unfold addWhiteout pAddWhiteout
  rw [whiteoutPath_layersN cs hne hcs]
  simp only [bind, M.bind, M.ret, VPath.parent, VPath.withStr, hpar,
    run_createDirAll h.hu idu _ hds]
  cases hmk : Mem.mkdirs mu (chain [] (woDir :: cs.dropLast)) with
  | mk r m1 =>
    cases r with
    | ok a =>
      have := run_pTouch (h.hu.set m1) idu (marker (renderC cs))
      simp only [bind, M.bind] at this
      simp only [andThen, this, World.setLeafFiles_twice]
    | err k pth => simp [andThen]
    | panic => simp [andThen]

/-- `remove_file` over n leaf roots -/
theorem run_oremoveFileN (cs : List Str) (hne : cs ≠ []) (hcs : ∀ c ∈ cs, GoodComp c) :
    Overlay.removeFile (layersN (u :: is) (idu :: ids)) (renderC cs) w =
      ((pRemoveFileN mu ms cs).1, w.setLeafFiles u (pRemoveFileN mu ms cs).2) := by
  unfold Overlay.removeFile pRemoveFileN
  rw [run_readPath_thenN h cs hne hcs]
  rcases Option.eq_none_or_eq_some (viewN (mu :: ms) (renderC cs)) with hv | ⟨e, hv⟩
  · simp only [hv, h.hu.same]
  · simp only [hv, bind, M.bind, M.ret, writePath_layersN cs hne hcs, run_vexists h.hu]
    by_cases hc : mu.contains (renderC cs) = true
    · simp only [hc, if_true, run_pRemoveFile h.hu]
      cases hR : Mem.pRemoveFile mu (renderC cs) with
      | mk r m1 =>
        cases r with
        | err k pth => rfl
        | panic => rfl
        | ok a =>
          simp only [andThen, World.setLeafFiles_twice, run_addWhiteoutN (h.setHead m1) cs hne hcs]
    · simp only [hc, Bool.false_eq_true, if_false, Pure.pure, M.pure, andThen,
        run_addWhiteoutN h cs hne hcs]

/-- `remove_dir` over n leaf roots, provided "/.whiteout" ++ p is not a file of the upper layer -/
theorem run_oremoveDirN (cs : List Str) (hne : cs ≠ []) (hcs : ∀ c ∈ cs, GoodComp c)
    (hwo : ∀ e, mu.find? (woDirOf (renderC cs)) = some e → e.ftype = .dir) :
    Overlay.removeDir (layersN (u :: is) (idu :: ids)) (renderC cs) w =
      ((pRemoveDirN mu ms cs).1, w.setLeafFiles u (pRemoveDirN mu ms cs).2) := by
  unfold Overlay.removeDir pRemoveDirN
  rw [run_readPath_thenN h cs hne hcs]
  rcases Option.eq_none_or_eq_some (viewN (mu :: ms) (renderC cs)) with hv | ⟨e, hv⟩
  · simp only [hv, h.hu.same]
  · simp only [hv, bind, M.bind, run_oreadDirN h cs hcs hwo]
    cases hL : pReadDirN (mu :: ms) (renderC cs) with
    | err k pth => simp only [h.hu.same]
    | panic => simp only [h.hu.same]
    | ok lst =>
      by_cases hl : lst ≠ []
      · simp only [hl, ne_eq, not_false_eq_true, if_true, M.failK, fail, h.hu.same]
      · simp only [hl, if_false, M.ret, M.bind, writePath_layersN cs hne hcs, run_vexists h.hu]
        by_cases hc : mu.contains (renderC cs) = true
        · simp only [hc, if_true, run_pRemoveDir h.hu]
          cases hR : Mem.pRemoveDir mu (renderC cs) with
          | mk r m1 =>
            cases r with
            | err k pth => rfl
            | panic => rfl
            | ok a =>
              simp only [andThen, World.setLeafFiles_twice,
                run_addWhiteoutN (h.setHead m1) cs hne hcs]
        · simp only [hc, Bool.false_eq_true, if_false, Pure.pure, M.pure, andThen,
            run_addWhiteoutN h cs hne hcs]

/-- when "/.whiteout" ++ p is a FILE of the upper layer, the listing step of `read_dir` fails -/
theorem run_readDirTailN_file (cs : List Str) (hcs : ∀ c ∈ cs, GoodComp c) (e : Entry)
    (hf : mu.find? (woDirOf (renderC cs)) = some e) (hd : e.ftype = .file) :
    readDirTail (layersN (u :: is) (idu :: ids)) (renderC cs) w
      = (.err .other (some (woDirOf (renderC cs))), w) := by
  unfold readDirTail
  simp only [bind, M.bind, run_mergeListingsN h cs hcs, M.ret, writeLayer_layersN,
    woDir_join_layers2 cs hcs, run_vexists h.hu, contains_of_find hf, if_true,
    run_vreadDir_file h.hu idu _ e hf hd]

/-- `read_dir` never changes the world, whatever it answers (no hypothesis on "/.whiteout") -/
theorem run_oreadDirN_world (cs : List Str) (hcs : ∀ c ∈ cs, GoodComp c) :
    ∃ r, Overlay.readDir (layersN (u :: is) (idu :: ids)) (renderC cs) w = (r, w) := by
  by_cases hwo : ∀ e, mu.find? (woDirOf (renderC cs)) = some e → e.ftype = .dir
  · exact ⟨_, run_oreadDirN h cs hcs hwo⟩
  · have : ∃ e, mu.find? (woDirOf (renderC cs)) = some e ∧ e.ftype = .file := by
      apply Classical.byContradiction
      intro hno
      apply hwo
      intro e he
      cases hft : e.ftype with
      | dir => rfl
      | file => exact absurd ⟨e, he, hft⟩ hno
    obtain ⟨e, he, hfile⟩ := this
    have htail := run_readDirTailN_file h cs hcs e he hfile
    suffices hs : (Overlay.readDir (layersN (u :: is) (idu :: ids)) (renderC cs) w).2 = w from
      ⟨_, Prod.ext rfl hs⟩
    rw [readDir_eq_tail]
    by_cases hne : cs = []
    · subst hne
      have hrp : readPath (layersN (u :: is) (idu :: ids)) (renderC [])
          = pure (writeLayer (layersN (u :: is) (idu :: ids))) := rfl
      rw [hrp, writeLayer_layersN]
      simp only [renderC_nil] at htail ⊢
      rcases Option.eq_none_or_eq_some (mu.find? []) with hf | ⟨e0, hf⟩
      · simp [hf, bind, M.bind, Pure.pure, M.pure, run_vexists h.hu,
          contains_of_none hf, M.failK, fail]
      · by_cases hd : e0.ftype = .dir
        · simp [hf, hd, bind, M.bind, Pure.pure, M.pure, run_vexists h.hu,
            contains_of_find hf, run_visDir h.hu, htail]
        · simp [hf, hd, bind, M.bind, Pure.pure, M.pure, run_vexists h.hu,
            contains_of_find hf, run_visDir h.hu, M.failK, fail]
    · rcases readPath_casesN h cs hne hcs with ⟨hv, hr⟩ | ⟨k, i, id, m, e1, hfa, hi, hid, hl, he1, _, hv, hr⟩
      · simp [hr, bind, M.bind]
      · by_cases hd : e1.ftype = .dir
        · simp [hr, hd, he1, bind, M.bind, run_vexists hl, hfa.has, run_visDir hl, htail]
        · simp [hr, hd, he1, bind, M.bind, run_vexists hl, hfa.has, run_visDir hl, M.failK, fail]

/-- `remove_dir` with no hypothesis on "/.whiteout": it changes the upper leaf only, and keeps
every key of the upper map except the removed path -/
theorem run_oremoveDirN_any (cs : List Str) (hne : cs ≠ []) (hcs : ∀ c ∈ cs, GoodComp c) :
    ∃ r mu', Overlay.removeDir (layersN (u :: is) (idu :: ids)) (renderC cs) w =
        (r, w.setLeafFiles u mu') ∧
      ∀ k, k ≠ renderC cs → mu.contains k = true → mu'.contains k = true := by
  by_cases hwo : ∀ e, mu.find? (woDirOf (renderC cs)) = some e → e.ftype = .dir
  · exact ⟨_, _, run_oremoveDirN h cs hne hcs hwo, fun k hk hc => pRemoveDirN_keeps cs hk hc⟩
  · -- the listing fails, nothing changes
    have hfile : ∃ e, mu.find? (woDirOf (renderC cs)) = some e ∧ e.ftype = .file := by
      apply Classical.byContradiction
      intro hno
      apply hwo
      intro e he
      cases hft : e.ftype with
      | dir => rfl
      | file => exact absurd ⟨e, he, hft⟩ hno
    obtain ⟨e, he, hfl⟩ := hfile
    have htail := run_readDirTailN_file h cs hcs e he hfl
    suffices hs : (Overlay.removeDir (layersN (u :: is) (idu :: ids)) (renderC cs) w).2 = w from
      ⟨_, mu, Prod.ext rfl (by rw [h.hu.same]; exact hs), fun k _ hc => hc⟩
    unfold Overlay.removeDir
    rw [readDir_eq_tail]
    rcases readPath_casesN h cs hne hcs with ⟨hv, hr⟩ | ⟨k, i, id, m, e1, hfa, hi, hid, hl, he1, _, hv, hr⟩
    · simp only [bind, M.bind, hr]
    · by_cases hd : e1.ftype = .dir
      · simp [hr, hd, he1, bind, M.bind, run_vexists hl, hfa.has, run_visDir hl, htail]
      · simp [hr, hd, he1, bind, M.bind, run_vexists hl, hfa.has, run_visDir hl, M.failK, fail]

/-- `open_file` through the overlay: either the view has nothing at the path (not-found, world
unchanged), or the first layer `k` that has the path serves it — the only change of the world is
what `open_file` of the memory backend does to the map of that layer -/
theorem run_oopenFileN (cs : List Str) (hne : cs ≠ []) (hcs : ∀ c ∈ cs, GoodComp c) :
    (viewN (mu :: ms) (renderC cs) = none ∧
      (Overlay.fs (layersN (u :: is) (idu :: ids))).openFile (renderC cs) w
        = (.err .fileNotFound none, w)) ∨
    (∃ k i m, FirstAt (mu :: ms) (renderC cs) k m ∧ (u :: is)[k]? = some i ∧
      (Overlay.fs (layersN (u :: is) (idu :: ids))).openFile (renderC cs) w
        = ((Mem.openFile m (renderC cs)).1.withPath (renderC cs),
            w.setLeafFiles i (Mem.openFile m (renderC cs)).2) ∧
      OWN (w.setLeafFiles i (Mem.openFile m (renderC cs)).2) (u :: is) (idu :: ids)
        ((mu :: ms).set k (Mem.openFile m (renderC cs)).2)) := by
  rcases readPath_casesN h cs hne hcs with ⟨hv, hr⟩ | ⟨k, i, id, m, e, hf, hi, hid, hl, he, _, hv, hr⟩
  · left
    refine ⟨hv, ?_⟩
    show (do let q ← readPath (layersN (u :: is) (idu :: ids)) (renderC cs); q.openFile : M RHandle) w = _
    simp [bind, M.bind, hr]
  · right
    refine ⟨k, i, m, hf, hi, ?_, h.setAt k i hi _⟩
    show (do let q ← readPath (layersN (u :: is) (idu :: ids)) (renderC cs); q.openFile : M RHandle) w = _
    simp only [bind, M.bind, hr, run_vopenFile hl]

/-! ### `append_file` (with its copy-up) keeps the keys of the upper map -/

/-- `copy_file` from a path of layer `k` to a path of the upper leaf, whatever its outcome: the
world is still an n-layer setting and the upper map keeps its keys -/
theorem run_vcopyFile_keepsN (k i id : Nat) (m : FMap) (hi : (u :: is)[k]? = some i)
    (hm : (mu :: ms)[k]? = some m) (p q key : Str) (hk : mu.contains key = true) :
    ∃ mu' ms',
      OWN (VPath.copyFile { fs := leafFS i, fsId := id, path := p }
          { fs := leafFS u, fsId := idu, path := q } w).2 (u :: is) (idu :: ids) (mu' :: ms') ∧
      mu'.contains key = true := by
  have hl : MemLeafAt w i m := h.leafAt k i m hi hm
  by_cases hq : mu.contains q = true
  · refine ⟨mu, ms, ?_, hk⟩
    have : (VPath.copyFile { fs := leafFS i, fsId := id, path := p }
        { fs := leafFS u, fsId := idu, path := q } w).2 = w := by
      unfold VPath.copyFile
      simp [bind, M.bind, M.withPath, run_vexists h.hu, hq, M.failAt]
    rw [this]; exact h
  · have hq' : mu.contains q = false := by simpa using hq
    rcases Option.eq_none_or_eq_some (m.find? p) with hf | ⟨e, hf⟩
    · refine ⟨mu, ms, ?_, hk⟩
      have : (VPath.copyFile { fs := leafFS i, fsId := id, path := p }
          { fs := leafFS u, fsId := idu, path := q } w).2 = w := by
        unfold VPath.copyFile
        by_cases hid : id = idu
        · simp [hid, bind, M.bind, M.withPath, M.attempt, M.ret, run_vexists h.hu, hq',
            run_copyFile_mem hl, fail, run_vopenFile hl, Mem.openFile_none m _ hf, Res.withPath,
            hl.same, Pure.pure, M.pure]
        · simp [hid, bind, M.bind, M.withPath, M.attempt, M.ret, run_vexists h.hu, hq',
            fail, run_vopenFile hl, Mem.openFile_none m _ hf, Res.withPath,
            hl.same, Pure.pure, M.pure]
      rw [this]; exact h
    · have hopen := Mem.openFile_some m p e hf
      have h2 := h.setAt k i hi (m.insert p { e with accessed := .now })
      obtain ⟨mu2, ms2, hset, hk2⟩ := OWN.head_after_set (m2 := m.insert p { e with accessed := .now })
        hm hk (fun hc => contains_insert_of_contains hc)
      rw [hset] at h2
      by_cases hfile : e.ftype = .file
      · rw [if_neg (by simp [hfile])] at hopen
        cases hc : Mem.pOpenW mu2 q with
        | mk r3 mu3 =>
          have hk3 : mu3.contains key = true := by
            have := Mem.pOpenW_keeps q hk2; rw [hc] at this; exact this
          have h3 := h2.setHead mu3
          cases r3 with
          | ok a =>
            refine ⟨_, ms2, ?_, memPublish_keeps q e.content hk3⟩
            have : (VPath.copyFile { fs := leafFS i, fsId := id, path := p }
                { fs := leafFS u, fsId := idu, path := q } w).2 =
                ((w.setLeafFiles i (m.insert p { e with accessed := .now })).setLeafFiles u mu3).setLeafFiles u
                  (memPublish mu3 q e.content) := by
              unfold VPath.copyFile
              by_cases hid : id = idu
              · simp [hid, bind, M.bind, M.withPath, M.attempt, M.ret, run_vexists h.hu, hq',
                  run_copyFile_mem hl, fail, run_vopenFile hl, hopen, Res.withPath,
                  run_pOpenW h2.hu, hc, Res.map, run_ioCopyAndDrop h3.hu, Pure.pure, M.pure]
              · simp [hid, bind, M.bind, M.withPath, M.attempt, M.ret, run_vexists h.hu, hq',
                  fail, run_vopenFile hl, hopen, Res.withPath,
                  run_pOpenW h2.hu, hc, Res.map, run_ioCopyAndDrop h3.hu, Pure.pure, M.pure]
            rw [this]; exact h3.setHead _
          | err k3 p3 =>
            refine ⟨mu3, ms2, ?_, hk3⟩
            have : (VPath.copyFile { fs := leafFS i, fsId := id, path := p }
                { fs := leafFS u, fsId := idu, path := q } w).2 =
                (w.setLeafFiles i (m.insert p { e with accessed := .now })).setLeafFiles u mu3 := by
              unfold VPath.copyFile
              by_cases hid : id = idu
              · simp [hid, bind, M.bind, M.withPath, M.attempt, M.ret, run_vexists h.hu, hq',
                  run_copyFile_mem hl, fail, run_vopenFile hl, hopen, Res.withPath,
                  run_pOpenW h2.hu, hc, Res.map, Pure.pure, M.pure]
              · simp [hid, bind, M.bind, M.withPath, M.attempt, M.ret, run_vexists h.hu, hq',
                  fail, run_vopenFile hl, hopen, Res.withPath,
                  run_pOpenW h2.hu, hc, Res.map, Pure.pure, M.pure]
            rw [this]; exact h3
          | panic =>
            refine ⟨mu3, ms2, ?_, hk3⟩
            have : (VPath.copyFile { fs := leafFS i, fsId := id, path := p }
                { fs := leafFS u, fsId := idu, path := q } w).2 =
                (w.setLeafFiles i (m.insert p { e with accessed := .now })).setLeafFiles u mu3 := by
              unfold VPath.copyFile
              by_cases hid : id = idu
              · simp [hid, bind, M.bind, M.withPath, M.attempt, M.ret, run_vexists h.hu, hq',
                  run_copyFile_mem hl, fail, run_vopenFile hl, hopen, Res.withPath,
                  run_pOpenW h2.hu, hc, Res.map, Pure.pure, M.pure]
              · simp [hid, bind, M.bind, M.withPath, M.attempt, M.ret, run_vexists h.hu, hq',
                  fail, run_vopenFile hl, hopen, Res.withPath,
                  run_pOpenW h2.hu, hc, Res.map, Pure.pure, M.pure]
            rw [this]; exact h3
      · rw [if_pos (by simp [hfile])] at hopen
        refine ⟨mu2, ms2, ?_, hk2⟩
        have : (VPath.copyFile { fs := leafFS i, fsId := id, path := p }
            { fs := leafFS u, fsId := idu, path := q } w).2 =
            w.setLeafFiles i (m.insert p { e with accessed := .now }) := by
          unfold VPath.copyFile
          by_cases hid : id = idu
          · simp [hid, bind, M.bind, M.withPath, M.attempt, M.ret, run_vexists h.hu, hq',
              run_copyFile_mem hl, fail, run_vopenFile hl, hopen, Res.withPath, Pure.pure, M.pure]
          · simp [hid, bind, M.bind, M.withPath, M.attempt, M.ret, run_vexists h.hu, hq',
              fail, run_vopenFile hl, hopen, Res.withPath, Pure.pure, M.pure]
        rw [this]; exact h2

omit h in
/-- the handle `append_file` of a memory leaf hands out -/
theorem appendHandle_of_ok {i : Nat} {m : FMap} {q : Str} {hd : WHandle}
    (hok : ((Mem.appendFile m q).map (fun b =>
      ({ leaf := i, key := q, kind := .memFile, buf := b, pos := b.length } : WHandle))).withPath q
        = .ok hd) : hd.leaf = i ∧ hd.kind = .memFile := by
  cases hA : Mem.appendFile m q with
  | ok b => rw [hA] at hok; simp [Res.map, Res.withPath] at hok; subst hok; exact ⟨rfl, rfl⟩
  | err k p => rw [hA] at hok; simp [Res.map, Res.withPath] at hok
  | panic => rw [hA] at hok; simp [Res.map, Res.withPath] at hok

/-- **`append_file` keeps every key of the upper map**, whatever its outcome (copy-up included):
afterwards the world is still an n-layer setting (the serving lower layer got an access stamp,
the upper layer possibly the parent directories and the copy); a handle it returns writes to the
upper leaf -/
theorem run_oappendFile_keepsN (cs : List Str) (hne : cs ≠ []) (hcs : ∀ c ∈ cs, GoodComp c)
    (key : Str) (hk : mu.contains key = true) :
    ∃ mu' ms',
      OWN (Overlay.appendFile (layersN (u :: is) (idu :: ids)) (renderC cs) w).2
        (u :: is) (idu :: ids) (mu' :: ms') ∧
      mu'.contains key = true ∧
      ∀ hd, (Overlay.appendFile (layersN (u :: is) (idu :: ids)) (renderC cs) w).1 = .ok hd →
        hd.leaf = u ∧ hd.kind = .memFile := by
  by_cases hq : mu.contains (renderC cs) = true
  · have hX : Overlay.appendFile (layersN (u :: is) (idu :: ids)) (renderC cs) w =
        (((Mem.appendFile mu (renderC cs)).map (fun b =>
          ({ leaf := u, key := renderC cs, kind := .memFile, buf := b, pos := b.length } : WHandle))).withPath
            (renderC cs), w) := by
      unfold Overlay.appendFile copyUp
      simp [bind, M.bind, M.ret, writePath_layersN cs hne hcs, run_vexists h.hu, hq,
        VPath.appendFile, M.withPath, run_appendFile h.hu, Pure.pure, M.pure]
    rw [hX]
    exact ⟨mu, ms, h, hk, fun hd hok => appendHandle_of_ok hok⟩
  · have hq' : mu.contains (renderC cs) = false := by simpa using hq
    have h1 := h.setHead (pEnsureN (mu :: ms) cs.dropLast).2
    have hk1 : (pEnsureN (mu :: ms) cs.dropLast).2.contains key = true := pEnsureN_keeps _ hk
    cases hE : (pEnsureN (mu :: ms) cs.dropLast).1 with
    | err k1 p1 =>
      have hX : Overlay.appendFile (layersN (u :: is) (idu :: ids)) (renderC cs) w =
          (.err k1 p1, w.setLeafFiles u (pEnsureN (mu :: ms) cs.dropLast).2) := by
        unfold Overlay.appendFile copyUp
        simp [bind, M.bind, M.ret, writePath_layersN cs hne hcs, run_vexists h.hu, hq',
          run_ensureHasParentN h cs hne hcs, hE]
      rw [hX]
      exact ⟨_, ms, h1, hk1, fun hd hok => by cases hok⟩
    | panic =>
      have hX : Overlay.appendFile (layersN (u :: is) (idu :: ids)) (renderC cs) w =
          (.panic, w.setLeafFiles u (pEnsureN (mu :: ms) cs.dropLast).2) := by
        unfold Overlay.appendFile copyUp
        simp [bind, M.bind, M.ret, writePath_layersN cs hne hcs, run_vexists h.hu, hq',
          run_ensureHasParentN h cs hne hcs, hE]
      rw [hX]
      exact ⟨_, ms, h1, hk1, fun hd hok => by cases hok⟩
    | ok a =>
      rcases readPath_casesN h1 cs hne hcs with ⟨hv, hr⟩ | ⟨k, i, id, m, e, hf, hi, hid, hl, he, _, hv, hr⟩
      · have hX : Overlay.appendFile (layersN (u :: is) (idu :: ids)) (renderC cs) w =
            (.err .fileNotFound none, w.setLeafFiles u (pEnsureN (mu :: ms) cs.dropLast).2) := by
          unfold Overlay.appendFile copyUp
          simp [bind, M.bind, M.ret, writePath_layersN cs hne hcs, run_vexists h.hu, hq',
            run_ensureHasParentN h cs hne hcs, hE, hr]
        rw [hX]
        exact ⟨_, ms, h1, hk1, fun hd hok => by cases hok⟩
      · by_cases hfile : e.ftype = .file
        · obtain ⟨mu2, ms2, hown2, hk2⟩ := run_vcopyFile_keepsN h1 k i id m hi hf.get
            (renderC cs) (renderC cs) key hk1
          cases hcp : VPath.copyFile { fs := leafFS i, fsId := id, path := renderC cs }
              { fs := leafFS u, fsId := idu, path := renderC cs }
              (w.setLeafFiles u (pEnsureN (mu :: ms) cs.dropLast).2) with
          | mk r2 w2 =>
            rw [hcp] at hown2
            cases r2 with
            | ok a2 =>
              have hX : Overlay.appendFile (layersN (u :: is) (idu :: ids)) (renderC cs) w =
                  (((Mem.appendFile mu2 (renderC cs)).map (fun b =>
                    ({ leaf := u, key := renderC cs, kind := .memFile, buf := b,
                       pos := b.length } : WHandle))).withPath (renderC cs), w2) := by
                unfold Overlay.appendFile copyUp
                simp [bind, M.bind, M.ret, writePath_layersN cs hne hcs, run_vexists h.hu, hq',
                  run_ensureHasParentN h cs hne hcs, hE, hr, run_visFile hl, he, hfile, hcp,
                  VPath.appendFile, M.withPath, run_appendFile hown2.hu]
              rw [hX]
              exact ⟨mu2, ms2, hown2, hk2, fun hd hok => appendHandle_of_ok hok⟩
            | err k2 p2 =>
              have hX : Overlay.appendFile (layersN (u :: is) (idu :: ids)) (renderC cs) w =
                  (.err k2 p2, w2) := by
                unfold Overlay.appendFile copyUp
                simp [bind, M.bind, M.ret, writePath_layersN cs hne hcs, run_vexists h.hu, hq',
                  run_ensureHasParentN h cs hne hcs, hE, hr, run_visFile hl, he, hfile, hcp]
              rw [hX]
              exact ⟨mu2, ms2, hown2, hk2, fun hd hok => by cases hok⟩
            | panic =>
              have hX : Overlay.appendFile (layersN (u :: is) (idu :: ids)) (renderC cs) w =
                  (.panic, w2) := by
                unfold Overlay.appendFile copyUp
                simp [bind, M.bind, M.ret, writePath_layersN cs hne hcs, run_vexists h.hu, hq',
                  run_ensureHasParentN h cs hne hcs, hE, hr, run_visFile hl, he, hfile, hcp]
              rw [hX]
              exact ⟨mu2, ms2, hown2, hk2, fun hd hok => by cases hok⟩
        · have hX : Overlay.appendFile (layersN (u :: is) (idu :: ids)) (renderC cs) w =
              (.err .other none, w.setLeafFiles u (pEnsureN (mu :: ms) cs.dropLast).2) := by
            unfold Overlay.appendFile copyUp
            simp [bind, M.bind, M.ret, writePath_layersN cs hne hcs, run_vexists h.hu, hq',
              run_ensureHasParentN h cs hne hcs, hE, hr, run_visFile hl, he, hfile, M.failK, fail]
          rw [hX]
          exact ⟨_, ms, h1, hk1, fun hd hok => by cases hok⟩


end runN3

end Vfs
