/-
  The well-formedness invariant of the flat in-memory map, string facts about `childName` and
  `parentInternal`, and how the path-layer primitives run on a memory leaf.
-/
import VfsModel.Proofs.FMapLemmas
import VfsModel.Proofs.PathLemmas
import VfsModel.Leaf
import VfsModel.PathOps
namespace Vfs

/-! ### strings: last-slash decomposition and `childName` -/

theorem split_last (d : Char) (k : Str) (h : d ∈ k) :
    k = beforeLast d k ++ d :: afterLast d k ∧ d ∉ afterLast d k := by
  induction k with
  | nil => simp at h
  | cons c cs ih =>
    by_cases hcs : d ∈ cs
    · obtain ⟨h1, h2⟩ := ih hcs
      simp only [beforeLast, afterLast, if_pos hcs]
      exact ⟨by rw [List.cons_append, ← h1], h2⟩
    · have hc : c = d := by
        simp only [List.mem_cons] at h
        rcases h with h | h
        · exact h.symm
        · exact absurd h hcs
      simp only [beforeLast, afterLast, if_neg hcs, if_pos hc, List.nil_append]
      exact ⟨by rw [hc], hcs⟩

theorem childName_of_parent (p k : Str) (hs : '/' ∈ k) (hp : parentInternal k = p) :
    childName p k = some (afterLast '/' k) := by
  obtain ⟨h1, h2⟩ := split_last '/' k hs
  unfold parentInternal at hp
  unfold childName
  have hpre : (p ++ ['/']).isPrefixOf k = true := by
    rw [List.isPrefixOf_iff_prefix]
    refine ⟨afterLast '/' k, ?_⟩
    rw [← hp]; simp; exact h1.symm
  have hdrop : k.drop (p ++ ['/']).length = afterLast '/' k := by
    have : k = (p ++ ['/']) ++ afterLast '/' k := by rw [← hp]; simp; exact h1
    conv => lhs; rw [this]
    exact List.drop_left
  simp only [hpre, ↓reduceIte, hdrop, h2]

theorem childName_some (p k n : Str) (h : childName p k = some n) :
    k = p ++ '/' :: n ∧ '/' ∉ n := by
  unfold childName at h
  dsimp only at h
  split at h
  · rename_i hpre
    split at h
    · cases h
    · rename_i hn
      injection h with h
      rw [List.isPrefixOf_iff_prefix] at hpre
      obtain ⟨t, ht⟩ := hpre
      have : k.drop (p ++ ['/']).length = t := by rw [← ht]; exact List.drop_left
      rw [this] at h hn
      subst h
      exact ⟨by rw [← ht]; simp, hn⟩
  · cases h

theorem parent_of_child (p n : Str) (hn : '/' ∉ n) : parentInternal (p ++ '/' :: n) = p :=
  beforeLast_append_delim '/' p n hn

theorem childName_iff (p k n : Str) :
    childName p k = some n ↔ ('/' ∈ k ∧ parentInternal k = p ∧ afterLast '/' k = n) := by
  constructor
  · intro h
    obtain ⟨h1, h2⟩ := childName_some p k n h
    subst h1
    exact ⟨by simp, parent_of_child p n h2, afterLast_append_delim '/' p n h2⟩
  · rintro ⟨h1, h2, h3⟩
    rw [childName_of_parent p k h1 h2, h3]

/-! ### the invariant -/

/-- the root is a directory; every other key contains a '/', and its parent is a directory -/
def WF (m : FMap) : Prop :=
  (∃ e, m.find? [] = some e ∧ e.ftype = .dir) ∧
  ∀ k e, m.find? k = some e → k ≠ [] →
    '/' ∈ k ∧ ∃ pe, m.find? (parentInternal k) = some pe ∧ pe.ftype = .dir

theorem WF.init_mem : WF Mem.init := by
  refine ⟨⟨_, rfl, rfl⟩, ?_⟩
  intro k e h hk
  simp only [Mem.init, FMap.find?_cons] at h
  split at h
  · rename_i h'; exact absurd h'.symm hk
  · cases h

theorem WF.init_phys : WF Phys.init := by
  refine ⟨⟨_, rfl, rfl⟩, ?_⟩
  intro k e h hk
  simp only [Phys.init, FMap.find?_cons] at h
  split at h
  · rename_i h'; exact absurd h'.symm hk
  · cases h

/-- in a well-formed map nothing lives below a file or below an absent path -/
theorem WF.no_child_of_nondir {m : FMap} (h : WF m) (p : Str)
    (hp : ∀ e, m.find? p = some e → e.ftype = .file) (k : Str) (e : Entry)
    (hk : m.find? k = some e) (hne : k ≠ []) : parentInternal k ≠ p := by
  intro heq
  obtain ⟨_, pe, h1, h2⟩ := h.2 k e hk hne
  rw [heq] at h1
  have := hp pe h1
  rw [this] at h2
  cases h2

/-- inserting a directory whose parent is a directory keeps the map well-formed -/
theorem WF.insert_dir {m : FMap} (h : WF m) (p : Str) (v : Entry) (hv : v.ftype = .dir)
    (hs : '/' ∈ p) (pe : Entry) (hpar : m.find? (parentInternal p) = some pe) (hpd : pe.ftype = .dir) :
    WF (m.insert p v) := by
  have hpne : p ≠ [] := by intro h'; subst h'; simp at hs
  refine ⟨?_, ?_⟩
  · obtain ⟨e, he, hd⟩ := h.1
    rw [FMap.find?_insert]
    split
    · rename_i h'; exact absurd h'.symm hpne
    · exact ⟨e, he, hd⟩
  · intro k e hk hne
    rw [FMap.find?_insert] at hk
    split at hk
    · rename_i hkp; subst hkp
      refine ⟨hs, ?_⟩
      rw [FMap.find?_insert]
      split
      · exact ⟨v, rfl, hv⟩
      · exact ⟨pe, hpar, hpd⟩
    · obtain ⟨h1, pe', h2, h3⟩ := h.2 k e hk hne
      refine ⟨h1, ?_⟩
      rw [FMap.find?_insert]
      split
      · exact ⟨v, rfl, hv⟩
      · exact ⟨pe', h2, h3⟩

/-- replacing or adding an entry of the same "shape" (a file where nothing or a file was, any
entry of the same type as the old one) keeps the map well-formed -/
theorem WF.insert_leaf {m : FMap} (h : WF m) (p : Str) (v : Entry)
    (hold : ∀ e, m.find? p = some e → e.ftype = v.ftype)
    (hnew : m.find? p = none → v.ftype = .file ∧ '/' ∈ p ∧
      ∃ pe, m.find? (parentInternal p) = some pe ∧ pe.ftype = .dir) :
    WF (m.insert p v) := by
  refine ⟨?_, ?_⟩
  · obtain ⟨e, he, hd⟩ := h.1
    rw [FMap.find?_insert]
    split
    · rename_i h'
      refine ⟨v, rfl, ?_⟩
      rw [← hold e (by rw [← h']; exact he)]; exact hd
    · exact ⟨e, he, hd⟩
  · intro k e hk hne
    rw [FMap.find?_insert] at hk
    -- the parent lookup in the new map
    have par_ok : ∀ q pe, m.find? q = some pe → pe.ftype = .dir →
        ∃ pe', (m.insert p v).find? q = some pe' ∧ pe'.ftype = .dir := by
      intro q pe hq hd
      rw [FMap.find?_insert]
      split
      · rename_i hqp
        refine ⟨v, rfl, ?_⟩
        rw [← hold pe (by rw [← hqp]; exact hq)]; exact hd
      · exact ⟨pe, hq, hd⟩
    split at hk
    · rename_i hkp; subst hkp
      cases hf : m.find? k with
      | some old =>
        obtain ⟨h1, pe, h2, h3⟩ := h.2 k old hf hne
        exact ⟨h1, par_ok _ pe h2 h3⟩
      | none =>
        obtain ⟨_, h1, pe, h2, h3⟩ := hnew hf
        exact ⟨h1, par_ok _ pe h2 h3⟩
    · obtain ⟨h1, pe, h2, h3⟩ := h.2 k e hk hne
      exact ⟨h1, par_ok _ pe h2 h3⟩

/-- erasing a key that has no children keeps the map well-formed (the root aside) -/
theorem WF.erase_childless {m : FMap} (h : WF m) (p : Str) (hp : p ≠ [])
    (hc : ∀ k e, m.find? k = some e → k ≠ [] → parentInternal k ≠ p) : WF (m.erase p) := by
  refine ⟨?_, ?_⟩
  · obtain ⟨e, he, hd⟩ := h.1
    rw [FMap.find?_erase]
    split
    · rename_i h'; exact absurd h'.symm hp
    · exact ⟨e, he, hd⟩
  · intro k e hk hne
    rw [FMap.find?_erase] at hk
    split at hk
    · cases hk
    · obtain ⟨h1, pe, h2, h3⟩ := h.2 k e hk hne
      refine ⟨h1, pe, ?_, h3⟩
      rw [FMap.find?_erase, if_neg (hc k e hk hne)]
      exact h2

/-! ### listings -/

theorem mem_filterMap_childName (m : FMap) (p n : Str) :
    n ∈ m.keys.filterMap (childName p) ↔
      ∃ k e, m.find? k = some e ∧ '/' ∈ k ∧ parentInternal k = p ∧ afterLast '/' k = n := by
  simp only [List.mem_filterMap, FMap.mem_keys_iff, childName_iff]
  constructor
  · rintro ⟨k, ⟨e, he⟩, h⟩; exact ⟨k, e, he, h⟩
  · rintro ⟨k, e, he, h⟩; exact ⟨k, ⟨e, he⟩, h⟩

theorem filterMap_childName_nodup (m : FMap) (p : Str) (h : FMap.NodupKeys m) :
    (m.keys.filterMap (childName p)).Nodup := by
  unfold FMap.NodupKeys at h
  generalize m.keys = ks at h
  induction ks with
  | nil => simp
  | cons k ks ih =>
    simp only [List.nodup_cons] at h
    simp only [List.filterMap_cons]
    cases hc : childName p k with
    | none => exact ih h.2
    | some n =>
      simp only [List.nodup_cons]
      refine ⟨?_, ih h.2⟩
      intro hm
      simp only [List.mem_filterMap] at hm
      obtain ⟨k', hk', hc'⟩ := hm
      have e1 := (childName_some p k n hc).1
      have e2 := (childName_some p k' n hc').1
      exact h.1 (by rw [e1, ← e2]; exact hk')

end Vfs
