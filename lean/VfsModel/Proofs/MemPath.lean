/-
  The path-layer primitives (`VfsPath::create_dir`, write sessions, `remove_file`, …) as pure
  functions on a memory map, the proof that the generic `VPath` operations over `leafFS i`
  compute exactly these on a world whose leaf `i` is a memory leaf, and the preservation of the
  well-formedness invariant by each of them, for EVERY path string.
-/
import VfsModel.Proofs.MemInv
namespace Vfs
namespace Mem

/-- `get_parent`: the parent exists and is a directory -/
def parentOk (m : FMap) (p : Str) : Bool :=
  match m.find? (parentInternal p) with
  | some e => decide (e.ftype = .dir)
  | none => false

/-- `VfsPath::create_dir` -/
def pCreateDir (m : FMap) (p : Str) : Res Unit × FMap :=
  if parentOk m p then ((createDir m p).1.withPath p, (createDir m p).2)
  else (.err .other (some p), m)

/-- `create_file()?.write_all(bs)` then drop: one completed write session -/
def pWrite (m : FMap) (p : Str) (bs : Bytes) : Res Unit × FMap :=
  if parentOk m p then
    match createFile m p with
    | (.ok _, m') => (.ok (), memPublish m' p (cursorWrite [] 0 bs))
    | (.err k pth, m') => ((Res.err k pth : Res Unit).withPath p, m')
    | (.panic, m') => (.panic, m')
  else (.err .other (some p), m)

/-- `append_file()?.write_all(bs)` then drop -/
def pAppend (m : FMap) (p : Str) (bs : Bytes) : Res Unit × FMap :=
  match appendFile m p with
  | .ok old => (.ok (), memPublish m p (cursorWrite old old.length bs))
  | .err k pth => ((Res.err k pth : Res Unit).withPath p, m)
  | .panic => (.panic, m)

def pRemoveFile (m : FMap) (p : Str) : Res Unit × FMap :=
  ((removeFile m p).1.withPath p, (removeFile m p).2)

def pRemoveDir (m : FMap) (p : Str) : Res Unit × FMap :=
  ((removeDir m p).1.withPath p, (removeDir m p).2)

end Mem

/-! ### well-formedness is preserved by every path-layer primitive, on every path -/

theorem Mem.parentOk_spec (m : FMap) (p : Str) (h : Mem.parentOk m p = true) :
    ∃ pe, m.find? (parentInternal p) = some pe ∧ pe.ftype = .dir := by
  unfold Mem.parentOk at h
  split at h
  · rename_i e he; exact ⟨e, he, by simpa using h⟩
  · cases h

theorem Mem.ensureHasParent_ok (m : FMap) (p : Str) (h : Mem.ensureHasParent m p = .ok ()) : '/' ∈ p := by
  unfold Mem.ensureHasParent at h
  split at h
  · assumption
  · simp [fail] at h

theorem WF.pCreateDir {m : FMap} (h : WF m) (p : Str) : WF (Mem.pCreateDir m p).2 := by
  unfold Mem.pCreateDir
  split
  · rename_i hp
    obtain ⟨pe, hpe, hpd⟩ := Mem.parentOk_spec m p hp
    show WF (Mem.createDir m p).2
    unfold Mem.createDir
    split
    · rename_i hen
      have hs := Mem.ensureHasParent_ok m p (by rw [hen])
      split
      · exact h
      · exact h.insert_dir p dirEntryNow rfl hs pe hpe hpd
    · exact h
    · exact h
  · exact h

theorem WF.memPublish {m : FMap} (h : WF m) (p : Str) (buf : Bytes) (e : Entry)
    (he : m.find? p = some e) (hf : e.ftype = .file) : WF (memPublish m p buf) := by
  unfold Vfs.memPublish
  simp only [he, hf, ↓reduceIte]
  apply h.insert_leaf
  · intro e' he'; rw [he] at he'; injection he' with he'; subst he'; exact hf
  · intro hn; rw [hn] at he; cases he

/-- publishing never breaks well-formedness, whatever sits at the destination now (a handle
used after its file was removed publishes nothing) -/
theorem WF.memPublish_any {m : FMap} (h : WF m) (p : Str) (buf : Bytes) :
    WF (Vfs.memPublish m p buf) := by
  rcases Option.eq_none_or_eq_some (m.find? p) with hn | ⟨e, he⟩
  · unfold Vfs.memPublish; simp only [hn]; exact h
  · by_cases hf : e.ftype = .file
    · exact h.memPublish p buf e he hf
    · unfold Vfs.memPublish; simp only [he, hf, ↓reduceIte]; exact h

/-- `create_file` under the parent probe: well-formed, and on success a file sits at `p` -/
theorem WF.createFile {m : FMap} (h : WF m) (p : Str) (hp : Mem.parentOk m p = true) :
    WF (Mem.createFile m p).2 ∧
    ((Mem.createFile m p).1.isOk = true →
      ∃ e, (Mem.createFile m p).2.find? p = some e ∧ e.ftype = .file) := by
  obtain ⟨pe, hpe, hpd⟩ := Mem.parentOk_spec m p hp
  unfold Mem.createFile
  cases hen : Mem.ensureHasParent m p with
  | ok u =>
    have hs := Mem.ensureHasParent_ok m p hen
    dsimp only
    cases he : m.find? p with
    | some e =>
      dsimp only
      split
      · exact ⟨h, by simp [fail, Res.isOk]⟩
      · rename_i hnd
        have hfile : e.ftype = .file := by cases hft : e.ftype <;> simp_all
        refine ⟨h.insert_leaf p fileEntryNow ?_ ?_, fun _ => ⟨fileEntryNow, by simp, rfl⟩⟩
        · intro e' he'; rw [he] at he'; injection he' with he'; subst he'; exact hfile
        · intro hn; rw [hn] at he; cases he
    | none =>
      dsimp only
      refine ⟨h.insert_leaf p fileEntryNow ?_ ?_, fun _ => ⟨fileEntryNow, by simp, rfl⟩⟩
      · intro e' he'; rw [he] at he'; cases he'
      · intro _; exact ⟨rfl, hs, pe, hpe, hpd⟩
  | err k pth => exact ⟨h, by simp [Res.isOk]⟩
  | panic => exact ⟨h, by simp [Res.isOk]⟩

theorem WF.pWrite {m : FMap} (h : WF m) (p : Str) (bs : Bytes) : WF (Mem.pWrite m p bs).2 := by
  unfold Mem.pWrite
  split
  · rename_i hp
    obtain ⟨hw, hfile⟩ := h.createFile p hp
    cases hc : Mem.createFile m p with
    | mk r m' =>
      rw [hc] at hw hfile
      cases r with
      | ok u =>
        obtain ⟨e, he, hf⟩ := hfile rfl
        exact hw.memPublish p _ e he hf
      | err k pth => exact hw
      | panic => exact hw
  · exact h

theorem WF.pAppend {m : FMap} (h : WF m) (p : Str) (bs : Bytes) : WF (Mem.pAppend m p bs).2 := by
  unfold Mem.pAppend Mem.appendFile
  split
  · rename_i old heq
    split at heq
    · simp [fail] at heq
    · rename_i e he
      split at heq
      · simp [fail] at heq
      · rename_i hf
        have hfile : e.ftype = .file := by cases hft : e.ftype <;> simp_all
        exact h.memPublish p _ e he hfile
  · exact h
  · exact h

theorem WF.pRemoveFile {m : FMap} (h : WF m) (p : Str) : WF (Mem.pRemoveFile m p).2 := by
  unfold Mem.pRemoveFile Mem.removeFile
  split
  · exact h
  · rename_i e he
    split
    · exact h
    · rename_i hf
      have hfile : e.ftype = .file := by cases hft : e.ftype <;> simp_all
      have hpne : p ≠ [] := by
        intro hp; subst hp
        obtain ⟨e0, he0, hd⟩ := h.1
        rw [he] at he0; injection he0 with he0; subst he0; rw [hfile] at hd; cases hd
      apply h.erase_childless p hpne
      intro k e' hk hne
      exact h.no_child_of_nondir p (fun e'' he'' => by rw [he] at he''; injection he'' with he''; subst he''; exact hfile) k e' hk hne

/-- `remove_dir` (removal of the root itself aside) -/
theorem WF.pRemoveDir {m : FMap} (h : WF m) (p : Str) (hp : p ≠ []) : WF (Mem.pRemoveDir m p).2 := by
  unfold Mem.pRemoveDir Mem.removeDir
  split
  · rename_i l hl
    split
    · exact h
    · rename_i hnil
      have hl' : l = [] := by simpa using hnil
      subst hl'
      split
      · apply h.erase_childless p hp
        intro k e hk hne heq
        obtain ⟨hs, _⟩ := h.2 k e hk hne
        -- k would be listed
        unfold Mem.readDir at hl
        split at hl
        · simp [fail] at hl
        · split at hl
          · simp [fail] at hl
          · injection hl with hl
            have : afterLast '/' k ∈ m.keys.filterMap (childName p) :=
              (mem_filterMap_childName m p _).2 ⟨k, e, hk, hs, heq, rfl⟩
            rw [hl] at this
            cases this
      · exact h
  · exact h
  · exact h

theorem WF.setTime {m : FMap} (h : WF m) (p : Str) (e e' : Entry) (he : m.find? p = some e)
    (ht : e'.ftype = e.ftype) : WF (m.insert p e') := by
  apply h.insert_leaf
  · intro e0 he0; rw [he] at he0; injection he0 with he0; subst he0; exact ht.symm
  · intro hn; rw [hn] at he; cases he

theorem WF.setAccessed {m : FMap} (h : WF m) (p : Str) (t : TS) : WF (Mem.setAccessed m p t).2 := by
  unfold Mem.setAccessed
  split
  · exact h
  · rename_i e he; exact h.setTime p e _ he rfl

theorem WF.setModified {m : FMap} (h : WF m) (p : Str) (t : TS) : WF (Mem.setModified m p t).2 := by
  unfold Mem.setModified
  split
  · exact h
  · rename_i e he; exact h.setTime p e _ he rfl

theorem WF.setCreated {m : FMap} (h : WF m) (p : Str) (t : TS) : WF (Mem.setCreated m p t).2 := by
  unfold Mem.setCreated
  split
  · exact h
  · rename_i e he; exact h.setTime p e _ he rfl

theorem WF.openFile {m : FMap} (h : WF m) (p : Str) : WF (Mem.openFile m p).2 := by
  have := h.setAccessed p .now
  unfold Mem.openFile
  cases hs : Mem.setAccessed m p .now with
  | mk r m' =>
    rw [hs] at this
    cases r with
    | ok _ =>
      dsimp only
      split
      · exact this
      · split <;> exact this
    | err _ _ => exact this
    | panic => exact this

end Vfs
