/-
  Part F of the class calculus (Proofs/ClassSim.lean … MemPhysSim.lean): file transfers
  (`copy_file`, the copy-up of `OverlayFS::append_file`) between a stacking over memory leaves and
  the same stacking over physical leaves.  Lemma library for Props/C02Iter.lean.

  WHAT IS HERE
   A. two unary side calculi: `MPure m` (the computation leaves the world alone) and `NoNS m`
      (it never fails with `NotSupported`), and `Tame fs`: `exists`/`metadata` of `fs` are pure, and
      `exists`, `metadata`, `open_file`, `create_file`, `create_dir`, `remove_file` never answer
      `NotSupported`.  `Tame` holds for leaves (`leaf_tame`), altroots (`Altroot.tame`) and overlays
      (`Overlay.tame`) over tame filesystems.
   B. `CSimP P R KR Q m1 m2` — simulation under a precondition `P` on the LEFT world; the
      precondition used is `NotDirAt fs p w` ("`metadata p` of `fs` in `w` does not answer
      directory").  Closure lemmas.
   C. the extended interface `SimX R fs1 fs2` (relational, extends `SimC`):
        `openND` : `open_file p` of a non-directory returns EQUAL good read handles;
        `copyV`  : the `VfsPath`-level `copy_file` between two paths of the filesystem (same `Arc`)
                   with a non-directory source is related, and its left run never answers
                   `NotSupported`.
      `VPath.sim_copyFile` : `copy_file` between paths of possibly DIFFERENT filesystems.
   D. adapters: `Altroot.simX`, `Overlay.simX`; `Overlay.sim_appendSession`: the append session of
      an overlay (copy-up = `copy_file` from a FILE source) is related.
   E. the instance `leaf_simX`: memory leaf left (generic read/write route), physical leaf right
      (`std::fs::copy`).

  HYPOTHESES that recur: canonical path strings; `Compat a b` ("equal `fsId` ⇒ the same filesystem
  value": the model's reading of `Arc::ptr_eq`) where the fast path may be taken.

  NOT PROVED here: see Props/C02Iter.lean.
-/
import VfsModel.Proofs.MemPhysSim
set_option linter.unusedVariables false
set_option linter.unusedSectionVars false
namespace Vfs.C02

/-! ## A. unary side calculi -/

/-- the computation leaves the world alone -/
def MPure {α : Type} (m : M α) : Prop := ∀ w, (m w).2 = w

/-- the computation never fails with `NotSupported` -/
def NoNS {α : Type} (m : M α) : Prop := ∀ w p, (m w).1 ≠ .err .notSupported p

namespace MPure
variable {α β : Type}

theorem pure (a : α) : MPure (Pure.pure a : M α) := fun _ => rfl
theorem ret (r : Res α) : MPure (M.ret r) := fun _ => rfl
theorem failK (k : ErrKind) : MPure (M.failK k : M α) := fun _ => rfl
theorem failAt (k : ErrKind) (p : Str) : MPure (M.failAt k p : M α) := fun _ => rfl

theorem bind {m : M α} {f : α → M β} (hm : MPure m) (hf : ∀ a, MPure (f a)) : MPure (m >>= f) := by
  intro w
  show (M.bind m f w).2 = w
  unfold M.bind
  have := hm w
  rcases e : m w with ⟨r, w'⟩
  rw [e] at this
  simp only at this
  subst this
  cases r with
  | ok a => exact hf a _
  | err k p => rfl
  | panic => rfl

theorem withPath (p : Str) {m : M α} (hm : MPure m) : MPure (M.withPath p m) := by
  intro w
  have := hm w
  unfold M.withPath
  rcases e : m w with ⟨r, w'⟩
  rw [e] at this
  exact this

theorem ite {c : Prop} [Decidable c] {a b : M α} (ha : MPure a) (hb : MPure b) :
    MPure (if c then a else b) := by
  split <;> assumption

end MPure

namespace NoNS
variable {α β : Type}

theorem pure (a : α) : NoNS (Pure.pure a : M α) := fun _ _ h => by cases h
theorem ret {r : Res α} (h : ∀ p, r ≠ .err .notSupported p) : NoNS (M.ret r) := fun _ p => h p
theorem failK {k : ErrKind} (h : k ≠ .notSupported) : NoNS (M.failK k : M α) := by
  intro w p e
  simp only [M.failK, fail, Res.err.injEq] at e
  exact h e.1
theorem failAt {k : ErrKind} (h : k ≠ .notSupported) (q : Str) : NoNS (M.failAt k q : M α) := by
  intro w p e
  simp only [M.failAt, Res.err.injEq] at e
  exact h e.1

theorem bind {m : M α} {f : α → M β} (hm : NoNS m) (hf : ∀ a, NoNS (f a)) : NoNS (m >>= f) := by
  intro w p
  show (M.bind m f w).1 ≠ _
  unfold M.bind
  have := hm w
  rcases e : m w with ⟨r, w'⟩
  rw [e] at this
  cases r with
  | ok a => exact hf a _ p
  | err k q =>
    intro h
    simp only [Res.err.injEq] at h
    exact this q (by rw [h.1])
  | panic => intro h; cases h

theorem withPath (q : Str) {m : M α} (hm : NoNS m) : NoNS (M.withPath q m) := by
  intro w p
  have := hm w
  unfold M.withPath
  rcases e : m w with ⟨r, w'⟩
  rw [e] at this
  cases r with
  | ok a => intro h; cases h
  | err k q' =>
    intro h
    simp only [Res.withPath, Res.err.injEq] at h
    exact this q' (by rw [h.1])
  | panic => intro h; cases h

theorem ite {c : Prop} [Decidable c] {a b : M α} (ha : NoNS a) (hb : NoNS b) :
    NoNS (if c then a else b) := by
  split <;> assumption

end NoNS

theorem MPure.bind' {α β : Type} {m : M α} {f : α → M β} (hm : MPure m)
    (hf : ∀ w a, (m w).1 = .ok a → MPure (f a)) : MPure (m >>= f) := by
  intro w
  show (M.bind m f w).2 = w
  unfold M.bind
  have := hm w
  have hf' := hf w
  rcases e : m w with ⟨r, w'⟩
  rw [e] at this hf'
  simp only at this
  subst this
  cases r with
  | ok a => exact hf' a rfl _
  | err k p => rfl
  | panic => rfl

theorem NoNS.bind' {α β : Type} {m : M α} {f : α → M β} (hm : NoNS m)
    (hf : ∀ w a, (m w).1 = .ok a → NoNS (f a)) : NoNS (m >>= f) := by
  intro w p
  show (M.bind m f w).1 ≠ _
  unfold M.bind
  have := hm w
  have hf' := hf w
  rcases e : m w with ⟨r, w'⟩
  rw [e] at this hf'
  cases r with
  | ok a => exact hf' a rfl _ p
  | err k q =>
    intro h
    simp only [Res.err.injEq] at h
    exact this q (by rw [h.1])
  | panic => intro h; cases h

/-- what the transfer proofs need to know about ONE filesystem (no relation involved) -/
structure Tame (fs : FS) : Prop where
  existsP : ∀ p, MPure (fs.exists_ p)
  metadataP : ∀ p, MPure (fs.metadata p)
  existsN : ∀ p, NoNS (fs.exists_ p)
  metadataN : ∀ p, NoNS (fs.metadata p)
  openN : ∀ p, NoNS (fs.openFile p)
  createFileN : ∀ p, NoNS (fs.createFile p)
  createDirN : ∀ p, NoNS (fs.createDir p)
  removeFileN : ∀ p, NoNS (fs.removeFile p)

/-! ### leaves -/

theorem onLeaf_pure {α : Type} (i : Nat) (f : Leaf → Res α × FMap) (hf : ∀ l, (f l).2 = l.files) :
    MPure (onLeaf i f) := by
  intro w
  unfold onLeaf
  cases e : w.leaf? i with
  | none => rfl
  | some l =>
    simp only
    rw [hf l]
    exact World.setLeafFiles_self w i l e

theorem onLeaf_noNS {α : Type} (i : Nat) (f : Leaf → Res α × FMap)
    (hf : ∀ l p, (f l).1 ≠ .err .notSupported p) : NoNS (onLeaf i f) := by
  intro w p
  unfold onLeaf
  cases e : w.leaf? i with
  | none => intro h; cases h
  | some l => exact hf l p

theorem lookup_kind {b : FMap} {p : Str} {k : ErrKind} {q : Option Str}
    (h : Phys.lookup b p = .err k q) : k = .io ∨ k = .fileNotFound := by
  unfold Phys.lookup at h
  cases hres : Phys.resolveParent b p with
  | ok u => rw [hres] at h; cases h
  | panic => rw [hres] at h; cases h
  | err k' q' =>
    rw [hres] at h
    simp only [Res.err.injEq] at h
    obtain ⟨rfl, rfl⟩ := h
    unfold Phys.resolveParent at hres
    split at hres
    · cases hres
    · split at hres
      · simp only [fail, Res.err.injEq] at hres; exact Or.inl hres.1.symm
      · simp only [fail, Res.err.injEq] at hres; exact Or.inr hres.1.symm

theorem lookup_noPanic (b : FMap) (p : Str) : Phys.lookup b p ≠ .panic := by
  unfold Phys.lookup
  cases hres : Phys.resolveParent b p with
  | ok u => intro h; cases h
  | err k q => intro h; cases h
  | panic =>
    exfalso
    unfold Phys.resolveParent at hres
    split at hres
    · cases hres
    · split at hres <;> simp [fail] at hres

theorem lookup_ns (b : FMap) (p : Str) (q : Option Str) : Phys.lookup b p ≠ .err .notSupported q := by
  intro h
  rcases lookup_kind h with h | h <;> cases h

theorem ensure_ns (m : FMap) (p : Str) (q : Option Str) :
    Mem.ensureHasParent m p ≠ .err .notSupported q := by
  unfold Mem.ensureHasParent
  intro h
  split at h
  · split at h
    · split at h <;> simp [fail] at h
    · simp [fail] at h
  · simp [fail] at h

theorem leaf_tame (i : Nat) : Tame (leafFS i) where
  existsP p := onLeaf_pure i _ (fun l => by cases l.kind <;> rfl)
  metadataP p := onLeaf_pure i _ (fun l => by cases l.kind <;> rfl)
  existsN p := onLeaf_noNS i _ (fun l q => by cases l.kind <;> (intro h; cases h))
  metadataN p := onLeaf_noNS i _ (fun l q => by
    cases hk : l.kind
    · simp only [Mem.metadata]
      split <;> simp [fail]
    · simp only [Phys.metadata]
      have := lookup_ns l.files p
      split <;> simp_all [fail])
  openN p := onLeaf_noNS i _ (fun l q => by
    cases hk : l.kind
    · simp only [Mem.openFile, Mem.setAccessed]
      cases hf : l.files.find? p with
      | none => simp [fail]
      | some e =>
        simp only [FMap.find?_insert_self]
        split <;> simp [fail]
    · simp only [Phys.openFile]
      have := lookup_ns l.files p
      split <;> (try split) <;> simp_all [fail])
  createFileN p := onLeaf_noNS i _ (fun l q => by
    cases hk : l.kind
    · simp only [Mem.createFile]
      have := ensure_ns l.files p
      split
      · split
        · split <;> simp [fail, Res.map]
        · simp [Res.map]
      · rename_i k' p' he
        simp only [Res.map]
        intro h
        simp only [Res.err.injEq] at h
        exact this p' (by rw [he, h.1])
      · simp [Res.map]
    · simp only [Phys.createFile]
      have := lookup_ns l.files p
      split <;> (try split) <;> simp_all [fail, Res.map])
  createDirN p := onLeaf_noNS i _ (fun l q => by
    cases hk : l.kind
    · simp only [Mem.createDir]
      have := ensure_ns l.files p
      split
      · split
        · split <;> simp [fail]
        · simp
      · rename_i k' p' he
        intro h
        simp only [Res.err.injEq] at h
        exact this p' (by rw [he, h.1])
      · simp
    · simp only [Phys.createDir]
      have := lookup_ns l.files p
      split <;> (try split) <;> simp_all [fail])
  removeFileN p := onLeaf_noNS i _ (fun l q => by
    cases hk : l.kind
    · simp only [Mem.removeFile]
      split
      · simp [fail]
      · split <;> simp [fail]
    · simp only [Phys.removeFile]
      have := lookup_ns l.files p
      split <;> (try split) <;> simp_all [fail])

/-! ### the `VfsPath` layer over a tame filesystem -/

theorem join_ns (v : VPath) (arg : Str) (q : Option Str) : v.join arg ≠ .err .notSupported q := by
  unfold VPath.join joinInternal
  split
  · intro h; cases h
  · split
    · intro h; cases h
    · intro h; cases h

namespace VPath
variable {v : VPath} (ht : Tame v.fs)
include ht

theorem exists_pure : MPure v.exists_ := ht.existsP _
theorem exists_ns : NoNS v.exists_ := ht.existsN _
theorem metadata_pure : MPure v.metadata := MPure.withPath _ (ht.metadataP _)
theorem metadata_ns : NoNS v.metadata := NoNS.withPath _ (ht.metadataN _)

theorem isDir_pure : MPure v.isDir := by
  unfold Vfs.VPath.isDir
  refine MPure.bind (exists_pure ht) fun c => ?_
  exact MPure.ite (MPure.pure _) (MPure.bind (metadata_pure ht) fun _ => MPure.pure _)

theorem isDir_ns : NoNS v.isDir := by
  unfold Vfs.VPath.isDir
  refine NoNS.bind (exists_ns ht) fun c => ?_
  exact NoNS.ite (NoNS.pure _) (NoNS.bind (metadata_ns ht) fun _ => NoNS.pure _)

theorem isFile_pure : MPure v.isFile := by
  unfold Vfs.VPath.isFile
  refine MPure.bind (exists_pure ht) fun c => ?_
  exact MPure.ite (MPure.pure _) (MPure.bind (metadata_pure ht) fun _ => MPure.pure _)

theorem isFile_ns : NoNS v.isFile := by
  unfold Vfs.VPath.isFile
  refine NoNS.bind (exists_ns ht) fun c => ?_
  exact NoNS.ite (NoNS.pure _) (NoNS.bind (metadata_ns ht) fun _ => NoNS.pure _)

theorem getParent_ns : NoNS v.getParent := by
  unfold Vfs.VPath.getParent
  dsimp only
  refine NoNS.bind (ht.existsN _) fun c => ?_
  refine NoNS.ite (NoNS.failAt (by decide) _) ?_
  refine NoNS.bind (NoNS.withPath _ (ht.metadataN _)) fun md => ?_
  exact NoNS.ite (NoNS.failAt (by decide) _) (NoNS.pure _)

theorem createDir_ns : NoNS v.createDir := by
  unfold Vfs.VPath.createDir
  exact NoNS.bind (getParent_ns ht) fun _ => NoNS.withPath _ (ht.createDirN _)

theorem createFile_ns : NoNS v.createFile := by
  unfold Vfs.VPath.createFile
  exact NoNS.bind (getParent_ns ht) fun _ => NoNS.withPath _ (ht.createFileN _)

theorem openFile_ns : NoNS v.openFile := NoNS.withPath _ (ht.openN _)
theorem removeFile_ns : NoNS v.removeFile := NoNS.withPath _ (ht.removeFileN _)

theorem createDirAllLoop_ns (l : List Str) : NoNS (Vfs.VPath.createDirAllLoop v l) := by
  induction l with
  | nil => unfold Vfs.VPath.createDirAllLoop; exact NoNS.pure _
  | cons d rest ih =>
    intro w p
    unfold Vfs.VPath.createDirAllLoop
    have := ht.createDirN d w
    rcases e : v.fs.createDir d w with ⟨r, w'⟩
    rw [e] at this
    cases r with
    | ok a => exact ih w' p
    | panic => intro h; cases h
    | err k q =>
      cases k <;> first
        | exact ih w' p
        | exact absurd rfl (this q)
        | (intro h; cases h)

theorem createDirAll_ns : NoNS v.createDirAll := by
  unfold Vfs.VPath.createDirAll
  exact NoNS.ite (NoNS.pure _) (createDirAllLoop_ns ht _)

end VPath

theorem tame_withStr {v : VPath} (ht : Tame v.fs) (s : Str) : Tame (v.withStr s).fs := ht

theorem tame_join {v : VPath} (ht : Tame v.fs) {arg : Str} {q : VPath} (h : v.join arg = .ok q) :
    Tame q.fs := by
  unfold VPath.join at h
  cases hj : joinInternal v.path arg with
  | ok r => rw [hj] at h; cases h; exact ht
  | err k p => rw [hj] at h; cases h
  | panic => rw [hj] at h; cases h

theorem drop_ns (h : WHandle) : NoNS h.drop := by
  intro w p
  unfold WHandle.drop WHandle.flush
  split
  · split <;> (intro e; cases e)
  · intro e; cases e

/-- binding a pure outcome whose successful values are all fine -/
theorem NoNS.bind_ret {α β : Type} {r : Res α} {f : α → M β} (hr : ∀ p, r ≠ .err .notSupported p)
    (hf : ∀ a, r = .ok a → NoNS (f a)) : NoNS (M.ret r >>= f) := by
  intro w p
  cases r with
  | ok a => exact hf a rfl w p
  | err k q => intro h; exact hr q (by cases h; rfl)
  | panic => intro h; cases h

theorem MPure.bind_ret {α β : Type} {r : Res α} {f : α → M β}
    (hf : ∀ a, r = .ok a → MPure (f a)) : MPure (M.ret r >>= f) := by
  intro w
  cases r with
  | ok a => exact hf a rfl w
  | err k q => rfl
  | panic => rfl

/-! ### AltrootFS -/
namespace Altroot
open Vfs.Altroot

theorem path_ns (root : VPath) (p : Str) (q : Option Str) : path root p ≠ .err .notSupported q := by
  unfold path
  split
  · intro h; cases h
  · split <;> exact join_ns _ _ _

theorem tame_path {root : VPath} (ht : Tame root.fs) {p : Str} {q : VPath} (h : path root p = .ok q) :
    Tame q.fs := by
  unfold path at h
  split at h
  · cases h; exact ht
  · split at h <;> exact tame_join ht h

theorem tame {root : VPath} (ht : Tame root.fs) : Tame (fs root) where
  existsP p := by
    show MPure (match path root p with | .ok q => q.exists_ | _ => pure false)
    cases h : path root p with
    | ok q => exact VPath.exists_pure (tame_path ht h)
    | err k q => exact MPure.pure _
    | panic => exact MPure.pure _
  metadataP p := MPure.bind_ret fun q h => VPath.metadata_pure (tame_path ht h)
  existsN p := by
    show NoNS (match path root p with | .ok q => q.exists_ | _ => pure false)
    cases h : path root p with
    | ok q => exact VPath.exists_ns (tame_path ht h)
    | err k q => exact NoNS.pure _
    | panic => exact NoNS.pure _
  metadataN p := NoNS.bind_ret (path_ns root p) fun q h => VPath.metadata_ns (tame_path ht h)
  openN p := NoNS.bind_ret (path_ns root p) fun q h => VPath.openFile_ns (tame_path ht h)
  createFileN p := NoNS.bind_ret (path_ns root p) fun q h => VPath.createFile_ns (tame_path ht h)
  createDirN p := NoNS.bind_ret (path_ns root p) fun q h => VPath.createDir_ns (tame_path ht h)
  removeFileN p := NoNS.bind_ret (path_ns root p) fun q h => VPath.removeFile_ns (tame_path ht h)

end Altroot

/-! ### OverlayFS -/
namespace Overlay
open Vfs.Overlay

section tame
variable {layers : List VPath} (hL : ∀ l ∈ layers, Tame l.fs) (hW : Tame (writeLayer layers).fs)
include hL hW

omit hL hW in
theorem whiteoutPath_ns (p : Str) (q : Option Str) : whiteoutPath layers p ≠ .err .notSupported q := by
  unfold whiteoutPath; split <;> exact join_ns _ _ _

omit hL hW in
theorem writePath_ns (p : Str) (q : Option Str) : writePath layers p ≠ .err .notSupported q := by
  unfold writePath
  split
  · intro h; cases h
  · exact join_ns _ _ _

omit hL in
theorem tame_whiteoutPath {p : Str} {q : VPath} (h : whiteoutPath layers p = .ok q) : Tame q.fs := by
  unfold whiteoutPath at h
  split at h <;> exact tame_join hW h

omit hL in
theorem tame_writePath {p : Str} {q : VPath} (h : writePath layers p = .ok q) : Tame q.fs := by
  unfold writePath at h
  split at h
  · cases h; exact hW
  · exact tame_join hW h

omit hL hW in
theorem firstExisting_tame (p : Str) (l : List VPath) (hl : ∀ x ∈ l, Tame x.fs) :
    MPure (firstExisting p l) ∧ NoNS (firstExisting p l) ∧
      ∀ w q, (firstExisting p l w).1 = .ok (some q) → Tame q.fs := by
  induction l with
  | nil =>
    unfold firstExisting
    exact ⟨MPure.pure _, NoNS.pure _, fun w q h => by cases h⟩
  | cons x rest ih =>
    obtain ⟨i1, i2, i3⟩ := ih (fun y hy => hl y (by simp [hy]))
    have hx := hl x (by simp)
    unfold firstExisting
    refine ⟨?_, ?_, ?_⟩
    · refine MPure.bind_ret fun lp hlp => ?_
      refine MPure.bind (VPath.exists_pure (tame_join hx hlp)) fun c => ?_
      exact MPure.ite (MPure.pure _) i1
    · refine NoNS.bind_ret (join_ns _ _) fun lp hlp => ?_
      refine NoNS.bind (VPath.exists_ns (tame_join hx hlp)) fun c => ?_
      exact NoNS.ite (NoNS.pure _) i2
    · intro w q
      cases hlp : x.join (tail1 p) with
      | err k e => intro h; cases h
      | panic => intro h; cases h
      | ok lp =>
        have hp := VPath.exists_pure (tame_join hx hlp) w
        show ((lp.exists_ >>= fun c => if c = true then Pure.pure (some lp) else firstExisting p rest) w).1
          = _ → _
        rw [bind_eval]
        rcases e : lp.exists_ w with ⟨r, w'⟩
        rw [e] at hp
        simp only at hp
        subst hp
        cases r with
        | err k e => intro h; cases h
        | panic => intro h; cases h
        | ok c =>
          by_cases hc : c = true
          · simp only [hc, if_true]
            intro h
            cases h
            exact tame_join hx hlp
          · simp only [hc, if_false]
            exact i3 _ q

theorem readPath_pure (p : Str) : MPure (readPath layers p) := by
  unfold readPath
  refine MPure.ite (MPure.pure _) ?_
  refine MPure.bind_ret fun wo hwo => ?_
  refine MPure.bind (VPath.exists_pure (tame_whiteoutPath hW hwo)) fun marked => ?_
  refine MPure.ite (MPure.failK _) ?_
  refine MPure.bind (firstExisting_tame p layers hL).1 fun found => ?_
  cases found with
  | some lp => exact MPure.pure _
  | none =>
    refine MPure.bind_ret fun rp hrp => ?_
    refine MPure.bind (VPath.exists_pure (tame_join hW hrp)) fun ex => ?_
    exact MPure.ite (MPure.failK _) (MPure.pure _)

theorem readPath_ns (p : Str) : NoNS (readPath layers p) := by
  unfold readPath
  refine NoNS.ite (NoNS.pure _) ?_
  refine NoNS.bind_ret (whiteoutPath_ns p) fun wo hwo => ?_
  refine NoNS.bind (VPath.exists_ns (tame_whiteoutPath hW hwo)) fun marked => ?_
  refine NoNS.ite (NoNS.failK (by decide)) ?_
  refine NoNS.bind (firstExisting_tame p layers hL).2.1 fun found => ?_
  cases found with
  | some lp => exact NoNS.pure _
  | none =>
    refine NoNS.bind_ret (join_ns _ _) fun rp hrp => ?_
    refine NoNS.bind (VPath.exists_ns (tame_join hW hrp)) fun ex => ?_
    exact NoNS.ite (NoNS.failK (by decide)) (NoNS.pure _)

/-- the path `read_path` returns lies in a tame filesystem -/
theorem readPath_tame (p : Str) (w : World) (q : VPath) (h : (readPath layers p w).1 = .ok q) :
    Tame q.fs := by
  unfold readPath at h
  split at h
  · cases h; exact hW
  · cases hwo : whiteoutPath layers p with
    | err k e => rw [hwo] at h; cases h
    | panic => rw [hwo] at h; cases h
    | ok wo =>
      rw [hwo] at h
      have hwt := tame_whiteoutPath hW hwo
      change ((wo.exists_ >>= fun marked => _) w).1 = _ at h
      rw [bind_eval] at h
      have hp := VPath.exists_pure hwt w
      rcases e : wo.exists_ w with ⟨r, w'⟩
      rw [e] at hp h
      simp only at hp
      subst hp
      cases r with
      | err k e => cases h
      | panic => cases h
      | ok marked =>
        simp only at h
        by_cases hm : marked = true
        · rw [if_pos hm] at h; cases h
        · rw [if_neg hm, bind_eval] at h
          obtain ⟨f1, f2, f3⟩ := firstExisting_tame p layers hL
          have hp2 := f1 w'
          have ht3 := f3 w'
          rcases e2 : firstExisting p layers w' with ⟨r2, w''⟩
          rw [e2] at hp2 h ht3
          simp only at hp2
          subst hp2
          cases r2 with
          | err k e => cases h
          | panic => cases h
          | ok found =>
            cases found with
            | some lp =>
              simp only at h
              cases h
              exact ht3 _ rfl
            | none =>
              simp only at h
              cases hrp : (writeLayer layers).join (tail1 p) with
              | err k e => rw [hrp] at h; cases h
              | panic => rw [hrp] at h; cases h
              | ok rp =>
                rw [hrp] at h
                have hrt := tame_join hW hrp
                change ((rp.exists_ >>= fun ex => _) w'').1 = _ at h
                rw [bind_eval] at h
                rcases e3 : rp.exists_ w'' with ⟨r3, w3⟩
                rw [e3] at h
                cases r3 with
                | err k e => cases h
                | panic => cases h
                | ok ex =>
                  simp only at h
                  by_cases hex : (!ex) = true
                  · rw [if_pos hex] at h; cases h
                  · rw [if_neg hex] at h; cases h; exact hrt

theorem exists_pure (p : Str) : MPure (exists_ layers p) := by
  unfold exists_
  refine MPure.bind_ret fun wo hwo => ?_
  refine MPure.bind (VPath.exists_pure (tame_whiteoutPath hW hwo)) fun marked => ?_
  refine MPure.ite (MPure.pure _) ?_
  intro w
  have hp := readPath_pure hL hW p w
  have ht := readPath_tame hL hW p w
  rcases e : readPath layers p w with ⟨r, w'⟩
  rw [e] at hp ht
  simp only at hp
  subst hp
  dsimp only
  rw [e]
  cases r with
  | ok q => exact VPath.exists_pure (ht q rfl) _
  | panic => rfl
  | err k pth => cases k <;> rfl

theorem exists_ns (p : Str) : NoNS (exists_ layers p) := by
  unfold exists_
  refine NoNS.bind_ret (whiteoutPath_ns p) fun wo hwo => ?_
  refine NoNS.bind (VPath.exists_ns (tame_whiteoutPath hW hwo)) fun marked => ?_
  refine NoNS.ite (NoNS.pure _) ?_
  intro w pth
  have hn := readPath_ns hL hW p w
  have ht := readPath_tame hL hW p w
  rcases e : readPath layers p w with ⟨r, w'⟩
  rw [e] at hn ht
  dsimp only
  rw [e]
  cases r with
  | ok q => exact VPath.exists_ns (ht q rfl) _ _
  | panic => intro h; cases h
  | err k q =>
    cases k <;> first
      | (intro h; cases h; done)
      | exact absurd rfl (hn q)

theorem ensureHasParent_ns (p : Str) : NoNS (ensureHasParent layers p) := by
  unfold ensureHasParent
  refine NoNS.ite ?_ (NoNS.failK (by decide))
  refine NoNS.bind (exists_ns hL hW _) fun ex => ?_
  refine NoNS.ite ?_ (NoNS.failK (by decide))
  refine NoNS.bind' (readPath_ns hL hW _) fun w rp hrp => ?_
  refine NoNS.bind (VPath.isDir_ns (readPath_tame hL hW _ w rp hrp)) fun isd => ?_
  refine NoNS.ite ?_ (NoNS.failK (by decide))
  exact NoNS.bind_ret (writePath_ns _) fun wp hwp => VPath.createDirAll_ns (tame_writePath hW hwp)

omit hL in
theorem clearWhiteout_ns (p : Str) : NoNS (clearWhiteout layers p) := by
  unfold clearWhiteout
  refine NoNS.bind_ret (whiteoutPath_ns p) fun wo hwo => ?_
  have hwt := tame_whiteoutPath hW hwo
  refine NoNS.bind (VPath.exists_ns hwt) fun ex => ?_
  exact NoNS.ite (VPath.removeFile_ns hwt) (NoNS.pure _)

omit hL in
theorem clearWhiteoutT_ns (p : Str) : NoNS (clearWhiteoutT layers p) := by
  unfold clearWhiteoutT
  refine NoNS.bind_ret (whiteoutPath_ns p) fun wo hwo => ?_
  have hwt := tame_whiteoutPath hW hwo
  refine NoNS.bind (VPath.exists_ns hwt) fun ex => ?_
  refine NoNS.ite ?_ (NoNS.pure _)
  intro w pth
  have := VPath.removeFile_ns hwt w
  rcases e : wo.removeFile w with ⟨r, w'⟩
  rw [e] at this
  dsimp only
  rw [e]
  cases r with
  | ok a => intro h; cases h
  | panic => intro h; cases h
  | err k q =>
    cases k <;> first
      | (intro h; cases h; done)
      | exact absurd rfl (this q)

omit hL in
theorem addWhiteout_ns (p : Str) : NoNS (addWhiteout layers p) := by
  unfold addWhiteout
  refine NoNS.bind_ret (whiteoutPath_ns p) fun wo hwo => ?_
  have hwt := tame_whiteoutPath hW hwo
  refine NoNS.bind (VPath.createDirAll_ns (v := wo.parent) hwt) fun _ => ?_
  exact NoNS.bind (VPath.createFile_ns hwt) fun h => drop_ns h

theorem refuseDir_ns (p : Str) : NoNS (refuseDir layers p) := by
  unfold refuseDir
  refine NoNS.bind (exists_ns hL hW _) fun ex => ?_
  refine NoNS.ite ?_ (NoNS.pure _)
  refine NoNS.bind' (readPath_ns hL hW _) fun w q hq => ?_
  refine NoNS.bind (VPath.metadata_ns (readPath_tame hL hW _ w q hq)) fun md => ?_
  exact NoNS.ite (NoNS.failK (by decide)) (NoNS.pure _)

theorem createFile_ns (p : Str) : NoNS (createFile layers p) := by
  unfold createFile
  refine NoNS.bind (ensureHasParent_ns hL hW p) fun _ => ?_
  refine NoNS.bind (refuseDir_ns hL hW p) fun _ => ?_
  refine NoNS.bind_ret (writePath_ns _) fun wp hwp => ?_
  refine NoNS.bind (VPath.createFile_ns (tame_writePath hW hwp)) fun h => ?_
  exact NoNS.bind (clearWhiteout_ns hW p) fun _ => NoNS.pure _

theorem createDir_ns (p : Str) : NoNS (createDir layers p) := by
  unfold createDir
  refine NoNS.bind (ensureHasParent_ns hL hW p) fun _ => ?_
  refine NoNS.bind (exists_ns hL hW _) fun ex => ?_
  refine NoNS.ite ?_ ?_
  · refine NoNS.bind' (readPath_ns hL hW _) fun w q hq => ?_
    refine NoNS.bind (VPath.metadata_ns (readPath_tame hL hW _ w q hq)) fun md => ?_
    split <;> exact NoNS.failK (by decide)
  · refine NoNS.bind_ret (writePath_ns _) fun wp hwp => ?_
    intro w pth
    have h1 := VPath.createDir_ns (tame_writePath hW hwp) w
    dsimp only
    rcases e : wp.createDir w with ⟨r, w'⟩
    rw [e] at h1
    have h2 := clearWhiteoutT_ns hW p w'
    cases r with
    | ok a => exact h2 pth
    | panic => intro h; cases h
    | err k q =>
      by_cases hk : k = .dirExists
      · subst hk
        dsimp only
        rcases e2 : clearWhiteoutT layers p w' with ⟨r2, w''⟩
        rw [e2] at h2
        cases r2 with
        | ok a => intro h; cases h
        | panic => intro h; cases h
        | err k2 q2 =>
          intro h
          simp only [Res.err.injEq] at h
          exact h2 q2 (by rw [h.1])
      · cases k <;> first
          | exact absurd rfl hk
          | exact absurd rfl (h1 q)
          | (intro h; cases h; done)

theorem removeFile_ns (p : Str) : NoNS (removeFile layers p) := by
  unfold removeFile
  refine NoNS.bind (readPath_ns hL hW _) fun _ => ?_
  refine NoNS.bind_ret (writePath_ns _) fun wp hwp => ?_
  have hwt := tame_writePath hW hwp
  refine NoNS.bind (VPath.exists_ns hwt) fun ex => ?_
  refine NoNS.bind (NoNS.ite (VPath.removeFile_ns hwt) (NoNS.pure _)) fun _ => ?_
  exact addWhiteout_ns hW p

/-- an overlay over tame layers is tame -/
theorem tame : Tame (fs layers) where
  existsP p := exists_pure hL hW p
  metadataP p := MPure.bind' (readPath_pure hL hW p) fun w q hq =>
    VPath.metadata_pure (readPath_tame hL hW p w q hq)
  existsN p := exists_ns hL hW p
  metadataN p := NoNS.bind' (readPath_ns hL hW p) fun w q hq =>
    VPath.metadata_ns (readPath_tame hL hW p w q hq)
  openN p := NoNS.bind' (readPath_ns hL hW p) fun w q hq =>
    VPath.openFile_ns (readPath_tame hL hW p w q hq)
  createFileN p := createFile_ns hL hW p
  createDirN p := createDir_ns hL hW p
  removeFileN p := removeFile_ns hL hW p

end tame
end Overlay

/-! ## B. simulation under a precondition on the left world -/

/-- simulation from related worlds whose LEFT one satisfies `P` -/
def CSimP {α β : Type} (P : World → Prop) (R : World → World → Prop)
    (KR : ErrKind → ErrKind → Prop) (Q : α → β → Prop) (m1 : M α) (m2 : M β) : Prop :=
  ∀ w1 w2, R w1 w2 → P w1 → CRes KR Q (m1 w1).1 (m2 w2).1 ∧ R (m1 w1).2 (m2 w2).2

/-- "`p` is not a directory of `fs` in `w`": `metadata p` does not answer directory (it may fail) -/
def NotDirAt (fs : FS) (p : Str) (w : World) : Prop :=
  ∀ md, (fs.metadata p w).1 = .ok md → md.ftype = .file

namespace CSimP
variable {α β γ δ : Type} {P : World → Prop} {R : World → World → Prop}
  {KR : ErrKind → ErrKind → Prop} {Q : α → β → Prop}

theorem of {m1 : M α} {m2 : M β} (h : CSim R KR Q m1 m2) : CSimP P R KR Q m1 m2 :=
  fun w1 w2 hr _ => h w1 w2 hr

theorem weaken {P' : World → Prop} {m1 : M α} {m2 : M β} (h : CSimP P' R KR Q m1 m2)
    (hp : ∀ w, P w → P' w) : CSimP P R KR Q m1 m2 :=
  fun w1 w2 hr hP => h w1 w2 hr (hp w1 hP)

theorem withPath (p q : Str) {m1 : M α} {m2 : M β} (h : CSimP P R KR Q m1 m2) :
    CSimP P R KR Q (M.withPath p m1) (M.withPath q m2) := by
  intro w1 w2 hr hP
  obtain ⟨h1, h2⟩ := h w1 w2 hr hP
  unfold M.withPath
  exact ⟨h1.withPath p q, h2⟩

/-- a pure first step keeps the precondition -/
theorem bindL {Q' : γ → δ → Prop} {m1 : M α} {m2 : M β} {f : α → M γ} {g : β → M δ}
    (hm : CSim R KR Q m1 m2) (hp : MPure m1)
    (hf : ∀ a b, Q a b → CSimP P R KR Q' (f a) (g b)) :
    CSimP P R KR Q' (m1 >>= f) (m2 >>= g) := by
  intro w1 w2 hr hP
  show CRes KR Q' (M.bind m1 f w1).1 (M.bind m2 g w2).1 ∧ R (M.bind m1 f w1).2 (M.bind m2 g w2).2
  unfold M.bind
  obtain ⟨h1, h2⟩ := hm w1 w2 hr
  have hpw := hp w1
  rcases hm1 : m1 w1 with ⟨r1, w1'⟩
  rcases hm2 : m2 w2 with ⟨r2, w2'⟩
  rw [hm1, hm2] at h1 h2
  rw [hm1] at hpw
  simp only at hpw
  subst hpw
  cases h1 with
  | ok hq => exact hf _ _ hq _ w2' h2 hP
  | err hk => exact ⟨.err hk, h2⟩
  | panic => exact ⟨.panic, h2⟩

/-- the precondition is used by the first step only -/
theorem bindR {Q' : γ → δ → Prop} {m1 : M α} {m2 : M β} {f : α → M γ} {g : β → M δ}
    (hm : CSimP P R KR Q m1 m2) (hf : ∀ a b, Q a b → CSim R KR Q' (f a) (g b)) :
    CSimP P R KR Q' (m1 >>= f) (m2 >>= g) := by
  intro w1 w2 hr hP
  show CRes KR Q' (M.bind m1 f w1).1 (M.bind m2 g w2).1 ∧ R (M.bind m1 f w1).2 (M.bind m2 g w2).2
  unfold M.bind
  obtain ⟨h1, h2⟩ := hm w1 w2 hr hP
  rcases hm1 : m1 w1 with ⟨r1, w1'⟩
  rcases hm2 : m2 w2 with ⟨r2, w2'⟩
  rw [hm1, hm2] at h1 h2
  cases h1 with
  | ok hq => exact hf _ _ hq w1' w2' h2
  | err hk => exact ⟨.err hk, h2⟩
  | panic => exact ⟨.panic, h2⟩

theorem ite {c : Prop} [Decidable c] {a1 b1 : M α} {a2 b2 : M β}
    (ha : c → CSimP P R KR Q a1 a2) (hb : ¬c → CSimP P R KR Q b1 b2) :
    CSimP P R KR Q (if c then a1 else b1) (if c then a2 else b2) := by
  by_cases hc : c
  · rw [if_pos hc, if_pos hc]; exact ha hc
  · rw [if_neg hc, if_neg hc]; exact hb hc

theorem of_pathEq {m1 m1' : M α} {m2 m2' : M β} (h1 : PathEq m1' m1) (h2 : PathEq m2' m2)
    (h : CSimP P R KR Q m1 m2) : CSimP P R KR Q m1' m2' := by
  intro w1 w2 hr hP
  obtain ⟨a1, a2⟩ := h1 w1
  obtain ⟨b1, b2⟩ := h2 w2
  obtain ⟨c1, c2⟩ := h w1 w2 hr hP
  rw [a1, b1]
  exact ⟨CRes.of_resPE a2 b2 c1, c2⟩

end CSimP

theorem withPath_fst_ok {α : Type} (s : Str) (m : M α) (w : World) (a : α) :
    (M.withPath s m w).1 = .ok a ↔ (m w).1 = .ok a := by
  unfold M.withPath
  rcases m w with ⟨r, w'⟩
  cases r <;> simp [Res.withPath]

/-! ## C. the extended interface -/

/-- equal good read handles -/
def HEq (h1 h2 : RHandle) : Prop := h1 = h2 ∧ h1.bad = false

/-- … with the transfers: `open_file` of a non-directory gives EQUAL good handles, and the
`VfsPath`-level `copy_file` between two paths of the filesystem is related when the source is not a
directory -/
structure SimX (R : World → World → Prop) (fs1 fs2 : FS) : Prop extends SimC R fs1 fs2 where
  openND : ∀ p, Canon p →
    CSimP (NotDirAt fs1 p) R KRel HEq (fs1.openFile p) (fs2.openFile p)
  copyV : ∀ id s d, Canon s → Canon d →
    CSimP (NotDirAt fs1 s) R KRel (· = ·)
      (Vfs.VPath.copyFile { fs := fs1, fsId := id, path := s } { fs := fs1, fsId := id, path := d })
      (Vfs.VPath.copyFile { fs := fs2, fsId := id, path := s } { fs := fs2, fsId := id, path := d })

/-- related paths for the transfers: related tame filesystems, equal canonical strings, equal ids -/
structure SimVX (R : World → World → Prop) (v1 v2 : VPath) : Prop where
  fs : SimX R v1.fs v2.fs
  path : v2.path = v1.path
  canon : Canon v1.path
  id : v2.fsId = v1.fsId
  tame : Tame v1.fs

/-- "equal `fsId` ⇒ the same filesystem value" (the model's reading of `Arc::ptr_eq`) -/
def Compat (a b : VPath) : Prop := a.fsId = b.fsId → a.fs = b.fs

section paramX
variable {R : World → World → Prop}

theorem SimVX.toC {v1 v2 : VPath} (h : SimVX R v1 v2) : SimVC R v1 v2 := ⟨h.fs.toSimC, h.path, h.canon⟩

theorem SimVX.withStr {v1 v2 : VPath} (h : SimVX R v1 v2) (s : Str) (hs : Canon s) :
    SimVX R (v1.withStr s) (v2.withStr s) := ⟨h.fs, rfl, hs, h.id, h.tame⟩

theorem SimVX.join {v1 v2 : VPath} (h : SimVX R v1 v2) (arg : Str) :
    CRes (· = ·) (fun a b => SimVX R a b ∧ a.fs = v1.fs ∧ a.fsId = v1.fsId ∧ b.fs = v2.fs ∧ b.fsId = v2.fsId)
      (v1.join arg) (v2.join arg) := by
  unfold Vfs.VPath.join
  rw [h.path]
  cases hj : joinInternal v1.path arg with
  | ok r => exact .ok ⟨h.withStr r (C06.join_canonical _ _ _ h.canon hj), rfl, rfl, rfl, rfl⟩
  | err k p => exact .err rfl
  | panic => exact .panic

theorem notDirAt_vpath (v : VPath) (w : World) :
    (∀ md, (v.metadata w).1 = .ok md → md.ftype = .file) ↔ NotDirAt v.fs v.path w := by
  unfold NotDirAt Vfs.VPath.metadata
  constructor
  · intro h md hm; exact h md ((withPath_fst_ok _ _ _ _).2 hm)
  · intro h md hm; exact h md ((withPath_fst_ok _ _ _ _).1 hm)

namespace VPath

theorem sim_openND {v1 v2 : VPath} (h : SimVX R v1 v2) :
    CSimP (NotDirAt v1.fs v1.path) R KRel HEq v1.openFile v2.openFile := by
  unfold Vfs.VPath.openFile
  rw [h.path]
  exact CSimP.withPath _ _ (h.fs.openND _ h.canon)

/-- `std::io::copy` from a good read handle, then both handles dropped = one write session -/
theorem ioCopy_eq (r : RHandle) (hb : r.bad = false) (h : WHandle) (p : Str) :
    Vfs.VPath.ioCopyAndDrop r h p = finish h [r.content.drop r.pos] := by
  funext w
  unfold Vfs.VPath.ioCopyAndDrop finish runScript runScript
  simp only [RHandle.readToEnd, hb, Bool.false_eq_true, if_false]
  show ((M.withPath p (M.ret (Res.ok (List.drop r.pos r.content))) >>= fun bytes =>
      h.write bytes >>= fun x => x.2.drop) w) =
    ((h.write (List.drop r.pos r.content) >>= fun r' => Pure.pure r'.2) >>= fun h' => h'.drop) w
  rw [M.bind_assoc3]
  rfl

/-- the generic route of `copy_file`: open, create, copy, drop -/
theorem sim_copyFB {P : World → Prop} {s1 s2 d1 d2 : VPath}
    (hopen : CSimP P R KRel HEq s1.openFile s2.openFile) (hd : SimVC R d1 d2)
    (hpath : s2.path = s1.path) :
    CSimP P R KRel (· = ·) (copyFB s1 d1) (copyFB s2 d2) := by
  unfold copyFB
  refine CSimP.bindR hopen fun r1 r2 hr => ?_
  obtain ⟨rfl, hb⟩ := hr
  have e : ∀ (d : VPath) (p : Str),
      (d.createFile >>= fun w => Vfs.VPath.ioCopyAndDrop r1 w p) =
        createSession d [r1.content.drop r1.pos] := by
    intro d p
    unfold createSession
    congr 1
    funext w
    exact ioCopy_eq r1 hb w p
  rw [e, e]
  exact sim_createSession hd _

theorem copyFB_ns {s d : VPath} (hs : Tame s.fs) (hd : Tame d.fs) : NoNS (copyFB s d) := by
  unfold copyFB
  refine NoNS.bind (openFile_ns hs) fun r => ?_
  refine NoNS.bind (createFile_ns hd) fun h => ?_
  unfold Vfs.VPath.ioCopyAndDrop
  refine NoNS.bind (NoNS.withPath _ (NoNS.ret ?_)) fun bytes => ?_
  · intro p
    unfold RHandle.readToEnd
    split <;> simp [fail]
  · intro w p
    rw [bind_eval]
    have hw : ∃ n h' w', h.write bytes w = (.ok (n, h'), w') := by
      unfold WHandle.write
      repeat' split
      all_goals exact ⟨_, _, _, rfl⟩
    obtain ⟨n, h', w', e⟩ := hw
    rw [e]
    exact drop_ns h' w' p

theorem copyK_ns' {s d : VPath} (hs : Tame s.fs) (hd : Tame d.fs) (fast : Res Unit) :
    NoNS (copyK s d fast) := by
  unfold copyK
  cases fast with
  | ok a => exact NoNS.pure _
  | panic => exact NoNS.ret (fun p h => by cases h)
  | err k p =>
    simp only
    by_cases hk : k ≠ .notSupported
    · rw [if_pos hk]
      exact NoNS.ret (fun q h => by cases h; exact hk rfl)
    · rw [if_neg hk]
      exact copyFB_ns hs hd

/-- `copy_file` never answers `NotSupported` over tame filesystems -/
theorem copyFile_ns {s d : VPath} (hs : Tame s.fs) (hd : Tame d.fs) : NoNS (s.copyFile d) := by
  rw [copyFile_unfold]
  refine NoNS.withPath _ (NoNS.bind (exists_ns hd) fun ex => ?_)
  refine NoNS.ite (NoNS.failAt (by decide) _) ?_
  intro w p
  rw [bind_eval]
  rcases e : (if s.fsId = d.fsId then M.attempt (s.fs.copyFile s.path d.path)
      else Pure.pure (fail .notSupported)) w with ⟨r, w'⟩
  have hr : ∃ fast, r = .ok fast := by
    split at e
    · unfold M.attempt at e
      simp only at e
      cases e
      exact ⟨_, rfl⟩
    · cases e
      exact ⟨_, rfl⟩
  obtain ⟨fast, rfl⟩ := hr
  exact copyK_ns' hs hd fast w' p

/-- **`copy_file` between two related paths**, of the same filesystem (fast path: the field
`copyV`) or of different ones (generic route), the source not a directory -/
theorem sim_copyFile {s1 s2 d1 d2 : VPath} (hs : SimVX R s1 s2) (hd : SimVC R d1 d2)
    (hdt : Tame d1.fs) (hid : d2.fsId = d1.fsId) (hc1 : Compat s1 d1) (hc2 : Compat s2 d2) :
    CSimP (NotDirAt s1.fs s1.path) R KRel (· = ·) (s1.copyFile d1) (s2.copyFile d2) := by
  by_cases hi : s1.fsId = d1.fsId
  · -- one filesystem: the field
    have hi2 : s2.fsId = d2.fsId := by rw [hs.id, hid, hi]
    have f1 := hc1 hi
    have f2 := hc2 hi2
    obtain ⟨sfs1, sid1, sp1⟩ := s1
    obtain ⟨sfs2, sid2, sp2⟩ := s2
    obtain ⟨dfs1, did1, dp1⟩ := d1
    obtain ⟨dfs2, did2, dp2⟩ := d2
    simp only at hi hi2 f1 f2
    have h3 := hs.path
    have h4 := hd.path
    have h5 := hs.id
    simp only at h3 h4 h5
    subst hi hi2 f1 f2 h3 h4
    subst h5
    exact hs.fs.copyV _ _ _ hs.canon hd.canon
  · have hi2 : ¬ s2.fsId = d2.fsId := by rw [hs.id, hid]; exact hi
    rw [copyFile_unfold, copyFile_unfold, if_neg hi, if_neg hi2, hs.path]
    refine CSimP.withPath _ _ ?_
    refine CSimP.bindL (sim_exists hd).ofEq (exists_pure hdt) fun ex _ e => ?_
    cases e
    refine CSimP.ite (fun _ => CSimP.of (CSim.failAt _ _ _)) (fun _ => ?_)
    rw [M.pure_bind3, M.pure_bind3, copyK_ns, copyK_ns]
    exact sim_copyFB (sim_openND hs) hd hs.path

end VPath
end paramX

/-! ### the fast path followed by `copyK` -/

section fast
variable {R : World → World → Prop}

/-- a related fast path that never answers `NotSupported` on the left: the fallback is dead code -/
theorem sim_attemptK {P : World → Prop} {X1 X2 : M Unit} (s1 d1 s2 d2 : VPath)
    (hX : CSimP P R KRel (· = ·) X1 X2) (hNS : NoNS X1) :
    CSimP P R KRel (· = ·) (M.attempt X1 >>= copyK s1 d1) (M.attempt X2 >>= copyK s2 d2) := by
  intro w1 w2 hr hP
  obtain ⟨h1, h2⟩ := hX w1 w2 hr hP
  have hn := hNS w1
  rw [bind_eval, bind_eval]
  unfold M.attempt
  rcases e1 : X1 w1 with ⟨r1, w1'⟩
  rcases e2 : X2 w2 with ⟨r2, w2'⟩
  rw [e1, e2] at h1 h2
  rw [e1] at hn
  simp only at h1 h2 hn ⊢
  cases h1 with
  | ok _ => exact ⟨.ok (by first | rfl | trivial), h2⟩
  | panic => exact ⟨.panic, h2⟩
  | @err k1 k2 p1 p2 hk =>
    have hk1 : k1 ≠ .notSupported := fun h => hn p1 (by rw [h])
    have hk2 : k2 ≠ .notSupported := fun h => hk1 ((KRel.exact hk).2.2.2.1.2 h)
    unfold copyK
    simp only [if_pos hk1, if_pos hk2]
    exact ⟨.err hk, h2⟩

/-- no fast path on either side: the generic route -/
theorem sim_attemptNS {P : World → Prop} {s1 d1 s2 d2 : VPath}
    (h : CSimP P R KRel (· = ·) (copyFB s1 d1) (copyFB s2 d2)) :
    CSimP P R KRel (· = ·) (M.attempt (M.failK .notSupported : M Unit) >>= copyK s1 d1)
      (M.attempt (M.failK .notSupported : M Unit) >>= copyK s2 d2) := by
  have e : ∀ s d : VPath, (M.attempt (M.failK .notSupported : M Unit) >>= copyK s d) = copyFB s d := by
    intro s d
    funext w
    rw [bind_eval]
    show copyK s d (fail .notSupported) w = _
    rw [copyK_ns]
  rw [e, e]
  exact h

end fast

/-! ## D. adapters -/

namespace Altroot
open Vfs.Altroot
variable {R : World → World → Prop} {root1 root2 : VPath}

theorem notDir_sub (root : VPath) (hroot : Canon root.path) (p : Str) (hp : Canon p) (w : World)
    (h : NotDirAt (fs root) p w) : NotDirAt root.fs (root.path ++ p) w := by
  have e : (fs root).metadata p = (root.withStr (root.path ++ p)).metadata :=
    fs_method root p hroot hp _
  unfold NotDirAt at h
  rw [e] at h
  exact (notDirAt_vpath (root.withStr (root.path ++ p)) w).1 h

theorem copyFile_fs (root : VPath) (hroot : Canon root.path) (s d : Str) (hs : Canon s) (hd : Canon d)
    (hdn : d ≠ []) :
    (fs root).copyFile s d =
      (root.withStr (root.path ++ s)).copyFile (root.withStr (root.path ++ d)) := by
  show (if d = [] then M.failK .notSupported else
    (M.ret (path root s) >>= fun sp => M.ret (path root d) >>= fun dp => sp.copyFile dp)) = _
  rw [if_neg hdn, fs_method root s hroot hs, fs_method root d hroot hd]

theorem copyFile_fs_nil (root : VPath) (s : Str) :
    (fs root).copyFile s [] = M.failK .notSupported := by
  show (if ([] : Str) = [] then (M.failK .notSupported : M Unit) else
    (M.ret (path root s) >>= fun sp => M.ret (path root []) >>= fun dp => sp.copyFile dp)) = _
  rw [if_pos rfl]

theorem sim_openND (hroot : SimVX R root1 root2) (p : Str) (hp : Canon p) :
    CSimP (NotDirAt (fs root1) p) R KRel HEq ((fs root1).openFile p) ((fs root2).openFile p) := by
  have hc1 : Canon root1.path := hroot.canon
  have hc2 : Canon root2.path := by rw [hroot.path]; exact hroot.canon
  show CSimP _ R _ _ (M.ret (path root1 p) >>= _) (M.ret (path root2 p) >>= _)
  rw [fs_method root1 p hc1 hp, fs_method root2 p hc2 hp]
  have hsub : SimVX R (root1.withStr (root1.path ++ p)) (root2.withStr (root2.path ++ p)) := by
    rw [hroot.path]; exact hroot.withStr _ (Vfs.canon_append hroot.canon hp)
  exact (VPath.sim_openND hsub).weaken (fun w h => notDir_sub root1 hc1 p hp w h)

/-- the altroot adapter is parametric for the transfers too -/
theorem simX (hroot : SimVX R root1 root2) : SimX R (fs root1) (fs root2) := by
  have hc1 : Canon root1.path := hroot.canon
  have hc2 : Canon root2.path := by rw [hroot.path]; exact hroot.canon
  have hC := simC hroot.toC
  have hT := tame hroot.tame
  refine { toSimC := hC, openND := sim_openND hroot, copyV := ?_ }
  intro id s d hs hd
  have hsub : ∀ p, Canon p → SimVX R (root1.withStr (root1.path ++ p))
      (root2.withStr (root2.path ++ p)) := by
    intro p hp; rw [hroot.path]; exact hroot.withStr _ (Vfs.canon_append hroot.canon hp)
  rw [copyFile_unfold, copyFile_unfold]
  dsimp only
  rw [if_pos rfl, if_pos rfl]
  refine CSimP.withPath _ _ ?_
  refine CSimP.bindL (hC.exists_ d hd).ofEq (hT.existsP d) fun ex _ e => ?_
  cases e
  refine CSimP.ite (fun _ => CSimP.of (CSim.failAt _ _ _)) (fun _ => ?_)
  by_cases hdn : d = []
  · subst hdn
    rw [copyFile_fs_nil, copyFile_fs_nil]
    refine sim_attemptNS ?_
    refine VPath.sim_copyFB (s1 := { fs := fs root1, fsId := id, path := s })
      (s2 := { fs := fs root2, fsId := id, path := s }) ?_ ⟨hC, rfl, hd⟩ rfl
    exact CSimP.withPath _ _ (sim_openND hroot s hs)
  · rw [copyFile_fs root1 hc1 s d hs hd hdn, copyFile_fs root2 hc2 s d hs hd hdn]
    refine sim_attemptK _ _ _ _ ?_ ?_
    · refine (VPath.sim_copyFile (hsub s hs) (hsub d hd).toC hroot.tame hroot.id
        (fun _ => rfl) (fun _ => rfl)).weaken ?_
      intro w h
      exact notDir_sub root1 hc1 s hs w h
    · exact VPath.copyFile_ns hroot.tame hroot.tame

end Altroot

/-! ### a guard in front of a transfer -/

section guard
variable {R : World → World → Prop}

/-- the precondition is what the first step's result says about the world it leaves -/
theorem CSimP.bindT {α β γ δ : Type} {P : World → Prop} {P' : α → World → Prop}
    {KR : ErrKind → ErrKind → Prop} {Q : α → β → Prop} {Q' : γ → δ → Prop}
    {m1 : M α} {m2 : M β} {f : α → M γ} {g : β → M δ}
    (hm : CSim R KR Q m1 m2) (hf : ∀ a b, Q a b → CSimP (P' a) R KR Q' (f a) (g b))
    (ht : ∀ w a, P w → (m1 w).1 = .ok a → P' a (m1 w).2) :
    CSimP P R KR Q' (m1 >>= f) (m2 >>= g) := by
  intro w1 w2 hr hP
  show CRes KR Q' (M.bind m1 f w1).1 (M.bind m2 g w2).1 ∧ R (M.bind m1 f w1).2 (M.bind m2 g w2).2
  unfold M.bind
  obtain ⟨h1, h2⟩ := hm w1 w2 hr
  have ht' := ht w1
  rcases hm1 : m1 w1 with ⟨r1, w1'⟩
  rcases hm2 : m2 w2 with ⟨r2, w2'⟩
  rw [hm1, hm2] at h1 h2
  rw [hm1] at ht'
  cases h1 with
  | ok hq => exact hf _ _ hq w1' w2' h2 (ht' _ hP rfl)
  | err hk => exact ⟨.err hk, h2⟩
  | panic => exact ⟨.panic, h2⟩

/-- `is_file` answered yes: the path is not a directory (observers are pure) -/
theorem isFile_true_notDir {v : VPath} (ht : Tame v.fs) (w : World)
    (h : (v.isFile w).1 = .ok true) : NotDirAt v.fs v.path w := by
  rw [← notDirAt_vpath]
  unfold Vfs.VPath.isFile at h
  rw [bind_eval] at h
  have hp := VPath.exists_pure ht w
  rcases e : v.exists_ w with ⟨r, w'⟩
  rw [e] at hp h
  simp only at hp
  subst hp
  cases r with
  | err k p => cases h
  | panic => cases h
  | ok ex =>
    simp only at h
    by_cases hex : (!ex) = true
    · rw [if_pos hex] at h; cases h
    · rw [if_neg hex, bind_eval] at h
      rcases e2 : v.metadata w' with ⟨r2, w''⟩
      rw [e2] at h
      cases r2 with
      | err k p => cases h
      | panic => cases h
      | ok md =>
        simp only at h
        intro md' hm
        simp only [Res.ok.injEq] at hm
        subst hm
        have : decide (md.ftype = .file) = true := by
          have := h
          simp only [Pure.pure, M.pure, Res.ok.injEq] at this
          exact this
        exact of_decide_eq_true this

/-- `is_file` as a guard in front of `copy_file` (the copy-up of `OverlayFS::append_file`) -/
theorem sim_guardedCopy {s1 s2 d1 d2 : VPath} (hs : SimVX R s1 s2) (hd : SimVC R d1 d2)
    (hdt : Tame d1.fs) (hid : d2.fsId = d1.fsId) (hc1 : Compat s1 d1) (hc2 : Compat s2 d2) :
    CSim R KRel (· = ·)
      (s1.isFile >>= fun isf => if (!isf) = true then M.failK .other else s1.copyFile d1)
      (s2.isFile >>= fun isf => if (!isf) = true then M.failK .other else s2.copyFile d2) := by
  intro w1 w2 hr
  obtain ⟨h1, h2⟩ := VPath.sim_isFile hs.toC w1 w2 hr
  have hp := VPath.isFile_pure hs.tame w1
  have hnd := isFile_true_notDir hs.tame w1
  rw [bind_eval, bind_eval]
  rcases e1 : s1.isFile w1 with ⟨r1, w1'⟩
  rcases e2 : s2.isFile w2 with ⟨r2, w2'⟩
  rw [e1, e2] at h1 h2
  rw [e1] at hp hnd
  simp only at hp h1 h2 hnd
  subst hp
  cases h1 with
  | err hk => exact ⟨.err hk, h2⟩
  | panic => exact ⟨.panic, h2⟩
  | @ok a b hq =>
    subst hq
    dsimp only
    by_cases ha : (!a) = true
    · rw [if_pos ha, if_pos ha]; exact ⟨.err (Or.inl rfl), h2⟩
    · rw [if_neg ha, if_neg ha]
      have hat : a = true := by cases a <;> simp_all
      subst hat
      exact VPath.sim_copyFile hs hd hdt hid hc1 hc2 _ _ h2 (hnd rfl)

end guard

theorem listRel_left {α β : Type} {Rel : α → β → Prop} {a : List α} {b : List β}
    (h : ListRel Rel a b) : ∀ x ∈ a, ∃ y ∈ b, Rel x y := by
  induction h with
  | nil => intro x hx; cases hx
  | cons hxy _ ih =>
    intro x hx
    rcases List.mem_cons.1 hx with rfl | hx
    · exact ⟨_, List.mem_cons_self, hxy⟩
    · obtain ⟨y, hy, hr⟩ := ih x hx
      exact ⟨y, List.mem_cons_of_mem _ hy, hr⟩

theorem listRel_mono {α β : Type} {Rel Rel' : α → β → Prop} {a : List α} {b : List β}
    (h : ListRel Rel a b) (hm : ∀ x y, Rel x y → Rel' x y) : ListRel Rel' a b := by
  induction h with
  | nil => exact .nil
  | cons hxy _ ih => exact .cons (hm _ _ hxy) ih

namespace Overlay
open Vfs.Overlay

section overlayX
variable {R : World → World → Prop} {l1 l2 : List VPath}
variable (hL : ListRel (SimVX R) l1 l2) (hW : SimVW R (writeLayer l1) (writeLayer l2))
  (hWX : SimVX R (writeLayer l1) (writeLayer l2))
  (hC1 : ∀ x ∈ l1, Compat x (writeLayer l1)) (hC2 : ∀ y ∈ l2, Compat y (writeLayer l2))
include hL hW hWX hC1 hC2

/-- what is known about a path returned by `read_path` -/
def QX (l1 l2 : List VPath) (R : World → World → Prop) (q1 q2 : VPath) : Prop :=
  SimVX R q1 q2 ∧ Compat q1 (writeLayer l1) ∧ Compat q2 (writeLayer l2)

omit hL hW hWX hC1 hC2 in
theorem qx_join {x y : VPath} (hxy : SimVX R x y) (c1 : Compat x (writeLayer l1))
    (c2 : Compat y (writeLayer l2)) (arg : Str) :
    CRes (· = ·) (QX l1 l2 R) (x.join arg) (y.join arg) := by
  refine (hxy.join arg).mono ?_
  intro a b ⟨h, e1, e2, e3, e4⟩
  refine ⟨h, ?_, ?_⟩
  · intro hi; rw [e1]; exact c1 (by rw [← e2]; exact hi)
  · intro hi; rw [e3]; exact c2 (by rw [← e4]; exact hi)

omit hL hW hWX hC1 hC2 in
theorem sim_firstExistingX (p : Str) {a b : List VPath} (hab : ListRel (SimVX R) a b)
    (c1 : ∀ x ∈ a, Compat x (writeLayer l1)) (c2 : ∀ y ∈ b, Compat y (writeLayer l2)) :
    CSim R (· = ·) (OptRel (QX l1 l2 R)) (firstExisting p a) (firstExisting p b) := by
  induction hab with
  | nil => unfold firstExisting; exact CSim.pure trivial
  | @cons x y a b hxy _ ih =>
    unfold firstExisting
    refine CSim.bind (CSim.ret (qx_join hxy (c1 x (by simp)) (c2 y (by simp)) _)) fun lp1 lp2 hlp => ?_
    refine CSim.bind_eq (VPath.sim_exists hlp.1.toC) fun c => ?_
    exact CSim.ite (fun _ => CSim.pure (show OptRel _ (some lp1) (some lp2) from hlp))
      (fun _ => ih (fun x hx => c1 x (by simp [hx])) (fun y hy => c2 y (by simp [hy])))

theorem sim_readPathX (p : Str) :
    CSim R (· = ·) (QX l1 l2 R) (readPath l1 p) (readPath l2 p) := by
  have hWQ : QX l1 l2 R (writeLayer l1) (writeLayer l2) := ⟨hWX, fun _ => rfl, fun _ => rfl⟩
  unfold readPath
  refine CSim.ite (fun _ => CSim.pure hWQ) (fun _ => ?_)
  refine CSim.bind (CSim.ret (sim_whiteoutPath (listRel_mono hL fun _ _ h => h.toC) hW p)) fun wo1 wo2 hwo => ?_
  refine CSim.bind_eq (VPath.sim_exists hwo.toC) fun marked => ?_
  refine CSim.ite (fun _ => CSim.failK _) (fun _ => ?_)
  refine CSim.bind (sim_firstExistingX p hL hC1 hC2) fun f1 f2 hf => ?_
  cases f1 with
  | none =>
    cases f2 with
    | some _ => exact absurd hf id
    | none =>
      dsimp only
      refine CSim.bind (CSim.ret (qx_join hWX (fun _ => rfl) (fun _ => rfl) _)) fun rp1 rp2 hrp => ?_
      refine CSim.bind_eq (VPath.sim_exists hrp.1.toC) fun ex => ?_
      exact CSim.ite (fun _ => CSim.failK _) (fun _ => CSim.pure hrp)
  | some a1 =>
    cases f2 with
    | none => exact absurd hf id
    | some a2 => exact CSim.pure hf

theorem sim_openND (p : Str) :
    CSimP (NotDirAt (fs l1) p) R KRel HEq ((fs l1).openFile p) ((fs l2).openFile p) := by
  show CSimP _ R _ _ (readPath l1 p >>= fun q => q.openFile) (readPath l2 p >>= fun q => q.openFile)
  refine CSimP.bindT (P' := fun q w => NotDirAt q.fs q.path w)
    (sim_readPathX hL hW hWX hC1 hC2 p).ofEq (fun q1 q2 hq => VPath.sim_openND hq.1) ?_
  intro w q hP hq
  rw [← notDirAt_vpath]
  intro md hm
  apply hP md
  show ((readPath l1 p >>= fun q => q.metadata) w).1 = _
  rw [bind_eval]
  rcases e : readPath l1 p w with ⟨r, w'⟩
  rw [e] at hq hm
  simp only at hq
  subst hq
  exact hm

theorem tame1 : Tame (fs l1) := by
  refine tame ?_ hWX.tame
  intro x hx
  obtain ⟨y, _, h⟩ := listRel_left hL x hx
  exact h.tame

/-- **the overlay adapter is parametric for the transfers** -/
theorem simX : SimX R (fs l1) (fs l2) := by
  have hC := simC (listRel_mono hL fun _ _ h => h.toC) hW
  have hT := tame1 hL hW hWX hC1 hC2
  refine { toSimC := hC, openND := fun p _ => sim_openND hL hW hWX hC1 hC2 p, copyV := ?_ }
  intro id s d hs hd
  rw [copyFile_unfold, copyFile_unfold]
  dsimp only
  rw [if_pos rfl, if_pos rfl]
  refine CSimP.withPath _ _ ?_
  refine CSimP.bindL (hC.exists_ d hd).ofEq (hT.existsP d) fun ex _ e => ?_
  cases e
  refine CSimP.ite (fun _ => CSimP.of (CSim.failAt _ _ _)) (fun _ => ?_)
  refine sim_attemptNS ?_
  refine VPath.sim_copyFB (s1 := { fs := fs l1, fsId := id, path := s })
    (s2 := { fs := fs l2, fsId := id, path := s }) ?_ ⟨hC, rfl, hd⟩ rfl
  exact CSimP.withPath _ _ (sim_openND hL hW hWX hC1 hC2 s)

omit hL hC1 hC2 in
theorem sim_writePathX (p : Str) :
    CRes KRel (fun a b => SimVW R a b ∧ SimVX R a b ∧ a.fs = (writeLayer l1).fs ∧
        a.fsId = (writeLayer l1).fsId ∧ b.fs = (writeLayer l2).fs ∧ b.fsId = (writeLayer l2).fsId)
      (writePath l1 p) (writePath l2 p) := by
  unfold writePath
  split
  · exact .ok ⟨hW, hWX, rfl, rfl, rfl, rfl⟩
  · unfold Vfs.VPath.join
    rw [hW.path]
    cases hj : joinInternal (writeLayer l1).path (tail1 p) with
    | ok r =>
      have hc := C06.join_canonical _ _ _ hW.canon hj
      exact .ok ⟨hW.withStr r hc, hWX.withStr r hc, rfl, rfl, rfl, rfl⟩
    | err k q => exact .err (Or.inl rfl)
    | panic => exact .panic

theorem sim_copyUp (p : Str) {wp1 wp2 : VPath} (hwp : SimVX R wp1 wp2)
    (e1 : wp1.fs = (writeLayer l1).fs) (e2 : wp1.fsId = (writeLayer l1).fsId)
    (e3 : wp2.fs = (writeLayer l2).fs) (e4 : wp2.fsId = (writeLayer l2).fsId) :
    CSim R KRel (· = ·) (copyUp l1 p wp1) (copyUp l2 p wp2) := by
  have hLC := listRel_mono hL fun _ _ h => h.toC
  unfold copyUp
  refine CSim.bind_eq (VPath.sim_exists hwp.toC).ofEq fun ex => ?_
  refine CSim.ite (fun _ => ?_) (fun _ => CSim.pure rfl)
  refine CSim.bind_eq (sim_ensureHasParent hLC hW p) fun _ => ?_
  refine CSim.bind (sim_readPathX hL hW hWX hC1 hC2 p).ofEq fun rp1 rp2 hrp => ?_
  refine sim_guardedCopy hrp.1 hwp.toC hwp.tame hwp.id ?_ ?_
  · intro hi; rw [e1]; exact hrp.2.1 (by rw [← e2]; exact hi)
  · intro hi; rw [e3]; exact hrp.2.2 (by rw [← e4]; exact hi)

omit hL hW hWX hC1 hC2 in
theorem appendSession_eq (l : List VPath) (p : Str) (s : List Bytes) :
    appendSession (fs l) p s =
      (M.ret (writePath l p) >>= fun wp => copyUp l p wp >>= fun _ => VPath.appendSession wp s) := by
  show (appendFile l p >>= fun h => finish h s) = _
  unfold appendFile VPath.appendSession
  simp only [M.bind_assoc3]

/-- **the append session of an overlay** (copy-up from a FILE source, then `append_file` of the
write layer) -/
theorem sim_appendSession (p : Str) (s : List Bytes) :
    CSim R KRel (· = ·) (appendSession (fs l1) p s) (appendSession (fs l2) p s) := by
  rw [appendSession_eq, appendSession_eq]
  refine CSim.bind (CSim.ret (sim_writePathX hW hWX p)) fun wp1 wp2 hwp => ?_
  obtain ⟨hw, hx, e1, e2, e3, e4⟩ := hwp
  refine CSim.bind_eq (sim_copyUp hL hW hWX hC1 hC2 p hx e1 e2 e3 e4) fun _ => ?_
  exact VPath.sim_appendSession hw s

end overlayX
end Overlay

/-! ## E. the instance: memory leaf (generic route) / physical leaf (`std::fs::copy`) -/

theorem bind_run_err {α β : Type} {m : M α} {f : α → M β} {w w' : World} {k : ErrKind}
    {p : Option Str} (h : m w = (.err k p, w')) : (m >>= f) w = (.err k p, w') := by
  rw [bind_eval, h]

theorem bind_run_panic {α β : Type} {m : M α} {f : α → M β} {w w' : World}
    (h : m w = (.panic, w')) : (m >>= f) w = (.panic, w') := by
  rw [bind_eval, h]

theorem copyFile_exists_panic {s d : VPath} {w w' : World} (h : d.exists_ w = (.panic, w')) :
    s.copyFile d w = (.panic, w') := by
  rw [copyFile_unfold]
  unfold M.withPath
  rw [bind_run_panic h]
  rfl

theorem copyFile_exists_true {s d : VPath} {w w' : World} (h : d.exists_ w = (.ok true, w')) :
    s.copyFile d w = (.err .other (some s.path), w') := by
  rw [copyFile_unfold]
  unfold M.withPath
  rw [bind_run_ok h]
  rfl

theorem notDir_leaf {w : World} {i : Nat} {a : FMap} (h : MemLeafAt w i a) {p : Str}
    (hP : NotDirAt (leafFS i) p w) : ∀ e, a.find? p = some e → e.ftype = .file := by
  intro e he
  have := hP e.meta (by rw [run_metadata h p]; simp [Mem.metadata, he])
  exact this

theorem leaf_openND (i : Nat) (p : Str) :
    CSimP (NotDirAt (leafFS i) p) RCore KRel HEq ((leafFS i).openFile p) ((leafFS i).openFile p) := by
  intro w1 w2 hr hP
  rcases hr.at i with ⟨e1, e2⟩ | ⟨a, b, e1, e2, hab⟩
  · rw [show (leafFS i).openFile p = onLeaf i _ from rfl, onLeaf_none e1, onLeaf_none e2]
    exact ⟨.panic, hr⟩
  · have hP' := notDir_leaf e1 hP
    rw [run_openFile e1 p, show (leafFS i).openFile p = onLeaf i _ from rfl, onLeaf_eq e2]
    refine ⟨?_, hr.set e1 e2 (openFile_ok hab p)⟩
    show CRes KRel HEq (Mem.openFile a p).1 (Phys.openFile b p)
    rcases Option.eq_none_or_eq_some (a.find? p) with hf | ⟨e, hf⟩
    · obtain ⟨hb, hl⟩ := phys_absent hab hf
      rcases hl with hl | ⟨k, q, hl, hk⟩
      · simp only [Mem.openFile, Mem.setAccessed, Phys.openFile, hf, hl, fail]
        exact .err (Or.inl rfl)
      · simp only [Mem.openFile, Mem.setAccessed, Phys.openFile, hf, hl, fail]
        exact .err (KRel.soft (Or.inl rfl) (by rcases hk with rfl | rfl <;> simp))
    · obtain ⟨e', h1, h2, h3, hl⟩ := phys_present hab hf
      have hty := hP' e hf
      have hf' : e'.ftype = .file := by rw [h2, hty]
      simp only [Mem.openFile, Mem.setAccessed, Phys.openFile, hf, hl, FMap.find?_insert_self, hty,
        hf']
      simp [h3]
      exact .ok ⟨rfl, rfl⟩

/-- the host resolves nothing below a missing or non-directory parent -/
theorem lookup_bad_parent (b : FMap) (d : Str) (hs : '/' ∈ d)
    (hbad : ∀ pe, b.find? (parentInternal d) = some pe → pe.ftype = .file) :
    ∃ k q, Phys.lookup b d = .err k q ∧ (k = .io ∨ k = .fileNotFound) := by
  have hne := resolve_bad_parent b d hs hbad
  cases hl : Phys.lookup b d with
  | ok o =>
    exfalso
    unfold Phys.lookup at hl
    cases hres : Phys.resolveParent b d with
    | ok u => exact hne hres
    | err k q => rw [hres] at hl; cases hl
    | panic => rw [hres] at hl; cases hl
  | err k q => exact ⟨k, q, rfl, lookup_kind hl⟩
  | panic => exact absurd hl (lookup_noPanic b d)

/-- `copy_file` between two paths of a physical leaf, destination not there: `std::fs::copy` -/
theorem run_copy_phys {w : World} {i : Nat} {b : FMap}
    (h : w.leaf? i = some { kind := .phys, files := b }) (id : Nat) (s d : Str)
    (hex : Phys.exists_ b d = false) (hns : ∀ q, (Phys.copyFile b s d).1 ≠ .err .notSupported q) :
    Vfs.VPath.copyFile { fs := leafFS i, fsId := id, path := s } { fs := leafFS i, fsId := id, path := d } w
      = ((Phys.copyFile b s d).1.withPath s, w.setLeafFiles i (Phys.copyFile b s d).2) := by
  have x2 : (Vfs.VPath.exists_ { fs := leafFS i, fsId := id, path := d }) w = (.ok false, w) := by
    show (leafFS i).exists_ d w = _
    rw [show (leafFS i).exists_ d = onLeaf i _ from rfl, onLeaf_eq h]
    simp only
    rw [World.setLeafFiles_self w i _ h, hex]
  have y2 : (leafFS i).copyFile s d w =
      ((Phys.copyFile b s d).1, w.setLeafFiles i (Phys.copyFile b s d).2) := by
    rw [show (leafFS i).copyFile s d = onLeaf i _ from rfl, onLeaf_eq h]
  rw [copyFile_unfold]
  unfold M.withPath
  rw [bind_run_ok x2]
  simp only [Bool.false_eq_true, if_false, if_true]
  rw [bind_eval]
  unfold M.attempt
  rw [y2]
  simp only
  generalize (Phys.copyFile b s d).1 = r at hns
  cases r with
  | ok u => rfl
  | panic => rfl
  | err k q =>
    have hk : k ≠ .notSupported := fun hk => hns q (by rw [hk])
    unfold copyK
    simp only [if_pos hk]
    rfl

theorem phys_copy_ns (b : FMap) (s d : Str) (q : Option Str) :
    (Phys.copyFile b s d).1 ≠ .err .notSupported q := by
  unfold Phys.copyFile
  have h1 := lookup_ns b s
  have h2 := lookup_ns b d
  split
  · simp [fail]
  · split
    · simp [fail]
    · split
      · simp
      · split <;> simp [fail]
      · rename_i k p he; intro h; simp only [Res.err.injEq] at h; exact h2 p (by rw [he, h.1])
      · simp
  · rename_i k p he; intro h; simp only [Res.err.injEq] at h; exact h1 p (by rw [he, h.1])
  · simp

/-- the memory side of `copy_file`: the three ways the generic route can go -/
theorem run_copyFB_absent {w : World} {i : Nat} {a : FMap} (h : MemLeafAt w i a) (id : Nat) (s d : Str)
    (hf : a.find? s = none) :
    copyFB { fs := leafFS i, fsId := id, path := s } { fs := leafFS i, fsId := id, path := d } w
      = (.err .fileNotFound (some s), w) := by
  have ho : Vfs.VPath.openFile { fs := leafFS i, fsId := id, path := s } w
      = (.err .fileNotFound (some s), w) := by
    unfold Vfs.VPath.openFile M.withPath
    rw [run_openFile h]
    simp [Mem.openFile, Mem.setAccessed, hf, fail, Res.withPath, h.same]
  unfold copyFB
  exact bind_run_err ho

theorem openFile_file {a : FMap} {s : Str} {e : Entry} (hf : a.find? s = some e) (hty : e.ftype = .file) :
    Mem.openFile a s = (.ok { content := e.content, pos := 0 }, a.insert s { e with accessed := .now }) := by
  simp [Mem.openFile, Mem.setAccessed, hf, FMap.find?_insert_self, hty]

theorem run_copyFB_badParent {w : World} {i : Nat} {a : FMap} (h : MemLeafAt w i a) (id : Nat) (s d : Str)
    {e : Entry} (hf : a.find? s = some e) (hty : e.ftype = .file)
    (hp : Mem.parentOk (a.insert s { e with accessed := .now }) d = false) :
    copyFB { fs := leafFS i, fsId := id, path := s } { fs := leafFS i, fsId := id, path := d } w
      = (.err .other (some d), w.setLeafFiles i (a.insert s { e with accessed := .now })) := by
  have ho : Vfs.VPath.openFile { fs := leafFS i, fsId := id, path := s } w
      = (.ok { content := e.content, pos := 0 }, w.setLeafFiles i (a.insert s { e with accessed := .now })) := by
    unfold Vfs.VPath.openFile M.withPath
    rw [run_openFile h, openFile_file hf hty]
    rfl
  have h' := h.set (a.insert s { e with accessed := .now })
  unfold copyFB
  rw [bind_run_ok ho]
  unfold Vfs.VPath.createFile
  rw [M.bind_assoc3]
  have hg := run_getParent h' id d
  rw [hp] at hg
  simp only [Bool.false_eq_true, if_false] at hg
  exact bind_run_err hg

theorem run_copyFB_ok {w : World} {i : Nat} {a : FMap} (h : MemLeafAt w i a) (id : Nat) (s d : Str)
    {e : Entry} (hf : a.find? s = some e) (hty : e.ftype = .file)
    (hp : Mem.parentOk (a.insert s { e with accessed := .now }) d = true) (hsd : '/' ∈ d)
    (hd : (a.insert s { e with accessed := .now }).find? d = none) :
    copyFB { fs := leafFS i, fsId := id, path := s } { fs := leafFS i, fsId := id, path := d } w
      = (.ok (), w.setLeafFiles i
          (memPublish ((a.insert s { e with accessed := .now }).insert d fileEntryNow) d e.content)) := by
  have ho : Vfs.VPath.openFile { fs := leafFS i, fsId := id, path := s } w
      = (.ok { content := e.content, pos := 0 }, w.setLeafFiles i (a.insert s { e with accessed := .now })) := by
    unfold Vfs.VPath.openFile M.withPath
    rw [run_openFile h, openFile_file hf hty]
    rfl
  generalize ha' : a.insert s { e with accessed := .now } = a' at *
  have h' := h.set a'
  unfold copyFB
  rw [bind_run_ok ho]
  have hg := run_getParent h' id d
  rw [hp] at hg
  simp only [if_true] at hg
  obtain ⟨pe, hpe, hpd⟩ := Mem.parentOk_spec a' d hp
  have hcf : Mem.createFile a' d = (.ok (), a'.insert d fileEntryNow) := by
    simp [Mem.createFile, Mem.ensureHasParent, hsd, hpe, hpd, hd]
  have hc : Vfs.VPath.createFile { fs := leafFS i, fsId := id, path := d } (w.setLeafFiles i a')
      = (.ok { leaf := i, key := d, kind := .memFile, buf := [], pos := 0 },
          (w.setLeafFiles i a').setLeafFiles i (a'.insert d fileEntryNow)) := by
    unfold Vfs.VPath.createFile
    rw [bind_run_ok hg]
    unfold M.withPath
    rw [run_createFile h' d, hcf]
    rfl
  rw [bind_run_ok hc, World.setLeafFiles_twice]
  have h'' := h.set (a'.insert d fileEntryNow)
  rw [VPath.ioCopy_eq _ rfl]
  unfold finish
  have hrun := run_memScript i d [] [List.drop 0 e.content] (w.setLeafFiles i (a'.insert d fileEntryNow))
  simp only [List.length_nil, List.nil_append, List.flatten_cons, List.flatten_nil, List.append_nil,
    List.drop_zero] at hrun
  simp only [List.drop_zero]
  rw [bind_run_ok hrun]
  unfold MemLeafAt at h''
  simp [WHandle.drop, WHandle.flush, h'', World.setLeafFiles_twice]

theorem withPath_cres {α β : Type} {KR : ErrKind → ErrKind → Prop} {Q : α → β → Prop}
    {r1 : Res α} {r2 : Res β} (p q : Str) (h : CRes KR Q r1 r2) :
    CRes KR Q (r1.withPath p) (r2.withPath q) := h.withPath p q

/-- **`copy_file` on a leaf**: the generic read/write route over MemoryFS against `std::fs::copy`
over PhysicalFS, the source not a directory -/
theorem leaf_copyV (i id : Nat) (s d : Str) (hs : Canon s) (hd : Canon d) :
    CSimP (NotDirAt (leafFS i) s) RCore KRel (· = ·)
      (Vfs.VPath.copyFile { fs := leafFS i, fsId := id, path := s } { fs := leafFS i, fsId := id, path := d })
      (Vfs.VPath.copyFile { fs := leafFS i, fsId := id, path := s } { fs := leafFS i, fsId := id, path := d }) := by
  intro w1 w2 hr hP
  rcases hr.at i with ⟨e1, e2⟩ | ⟨a, b, e1, e2, hab⟩
  · have x : ∀ w : World, w.leaf? i = none →
        (Vfs.VPath.exists_ { fs := leafFS i, fsId := id, path := d }) w = (.panic, w) := by
      intro w hw
      show (leafFS i).exists_ d w = _
      rw [show (leafFS i).exists_ d = onLeaf i _ from rfl, onLeaf_none hw]
    rw [copyFile_exists_panic (x w1 e1), copyFile_exists_panic (x w2 e2)]
    exact ⟨.panic, hr⟩
  · have hP' := notDir_leaf e1 hP
    have hex := exists_rel hab d
    by_cases hc : a.contains d = true
    · -- the destination exists: refused on both sides
      have x1 : (Vfs.VPath.exists_ { fs := leafFS i, fsId := id, path := d }) w1 = (.ok true, w1) := by
        show (leafFS i).exists_ d w1 = _
        rw [run_exists e1 d, hc]
      have x2 : (Vfs.VPath.exists_ { fs := leafFS i, fsId := id, path := d }) w2 = (.ok true, w2) := by
        show (leafFS i).exists_ d w2 = _
        rw [show (leafFS i).exists_ d = onLeaf i _ from rfl, onLeaf_eq e2]
        simp only
        rw [World.setLeafFiles_self w2 i _ e2, ← hex, hc]
      rw [copyFile_exists_true x1, copyFile_exists_true x2]
      exact ⟨.err (Or.inl rfl), hr⟩
    · have hc' : a.contains d = false := by simpa using hc
      have hdn : a.find? d = none := by
        unfold FMap.contains at hc'
        cases hfd : a.find? d with
        | none => rfl
        | some x => rw [hfd] at hc'; cases hc'
      -- d is not the root, so it has a '/'
      have hne : d ≠ [] := by
        intro h0
        subst h0
        obtain ⟨e0, he0, _⟩ := hab.wf.1
        rw [hdn] at he0; cases he0
      have hsd := canon_slash hab hd hne
      rw [run_copy_mem e1 id s d hc',
        run_copy_phys e2 id s d (by rw [← hex]; exact hc') (phys_copy_ns b s d)]
      unfold M.withPath
      rcases Option.eq_none_or_eq_some (a.find? s) with hf | ⟨e, hf⟩
      · -- the source is absent
        rw [run_copyFB_absent e1 id s d hf]
        obtain ⟨hb, hl⟩ := phys_absent hab hf
        rcases hl with hl | ⟨k, q, hl, hk⟩
        · simp only [Phys.copyFile, hl, fail, Res.withPath]
          exact ⟨.err (Or.inl rfl), by rw [World.setLeafFiles_self w2 i _ e2]; exact hr⟩
        · simp only [Phys.copyFile, hl, Res.withPath]
          exact ⟨.err (KRel.soft (Or.inl rfl) (by rcases hk with rfl | rfl <;> simp)),
            by rw [World.setLeafFiles_self w2 i _ e2]; exact hr⟩
      · -- the source is a file
        have hty := hP' e hf
        obtain ⟨e', h1, h2, h3, hl⟩ := phys_present hab hf
        have hf' : e'.ftype = .file := by rw [h2, hty]
        have hab' : LeafOK (a.insert s { e with accessed := .now }) b := by
          have := openFile_ok hab s
          rw [openFile_file hf hty] at this
          exact this
        have hsd_ne : d ≠ s := by
          intro h0; subst h0; rw [hdn] at hf; cases hf
        have hdn' : (a.insert s { e with accessed := .now }).find? d = none := by
          rw [FMap.find?_insert_ne _ _ _ _ hsd_ne]; exact hdn
        have hbn : b.find? d = none := (hab.core.none_iff d).1 hdn
        by_cases hp : Mem.parentOk (a.insert s { e with accessed := .now }) d = true
        · -- the parent of the destination is a directory: the copy is made
          rw [run_copyFB_ok e1 id s d hf hty hp hsd hdn']
          obtain ⟨pe, hpe, hpd⟩ := Mem.parentOk_spec _ d hp
          obtain ⟨pe', hpe', hpt, _⟩ := hab'.core.some _ pe hpe
          have hld : Phys.lookup b d = .ok none := by
            rw [(wfb hab').lookup_child d hsd pe' hpe' (by rw [hpt]; exact hpd), hbn]
          simp only [Phys.copyFile, hl, hf', hld, Res.withPath]
          simp only [show (FType.file = FType.dir) = False from by simp, if_false]
          refine ⟨.ok (by first | rfl | trivial), hr.set e1 e2 ⟨?_, ?_, ?_⟩⟩
          · exact WF.memPublish_any (hab'.wf.insert_leaf d fileEntryNow
              (by intro x hx; rw [hdn'] at hx; cases hx)
              (fun _ => ⟨rfl, hsd, pe, hpe, hpd⟩)) d _
          · intro k
            rw [core_memPublish]
            by_cases hk : k = d
            · subst hk
              simp only [if_true, FMap.find?_insert_self, Option.map_some, fileEntryNow, core, h3]
            · simp only [hk, if_false]
              rw [FMap.find?_insert_ne _ _ _ _ hk, FMap.find?_insert_ne _ _ _ _ hk]
              exact hab'.core k
          · exact keysCanon_memPublish (hab'.keys.insert hd _) hd _
        · -- the parent of the destination is missing or a file
          have hp' : Mem.parentOk (a.insert s { e with accessed := .now }) d = false := by
            simpa using hp
          rw [run_copyFB_badParent e1 id s d hf hty hp']
          have hbad : ∀ pe, b.find? (parentInternal d) = some pe → pe.ftype = .file := by
            intro pe hpe
            obtain ⟨pe0, hpe0, hpt, _⟩ := hab'.core.symm.some _ pe hpe
            cases hpf : pe.ftype with
            | file => rfl
            | dir =>
              exfalso
              unfold Mem.parentOk at hp'
              rw [hpe0] at hp'
              simp only [hpt, hpf, decide_true] at hp'
              cases hp'
          obtain ⟨k, q, hld, hk⟩ := lookup_bad_parent b d hsd hbad
          simp only [Phys.copyFile, hl, hf', hld, Res.withPath]
          simp only [show (FType.file = FType.dir) = False from by simp, if_false]
          exact ⟨.err (KRel.soft (Or.inr rfl) (by rcases hk with rfl | rfl <;> simp)),
            hr.set e1 e2 hab'⟩

/-- **the instance for the transfers** -/
theorem leaf_simX (i : Nat) : SimX RCore (leafFS i) (leafFS i) where
  toSimC := (leaf_simW i).toSimC
  openND p _ := leaf_openND i p
  copyV id s d hs hd := leaf_copyV i id s d hs hd

end Vfs.C02
