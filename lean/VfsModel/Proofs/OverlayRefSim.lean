/-
  The refinement of Props/C09Refine.lean packaged as a TWO-WORLD SIMULATION (helper library for
  Props/C11OverlayTree.lean).

  `RO u idu is ids r mu ms a w1 w2` — world `w1` holds an overlay over n ≥ 1 in-memory layers
  (`OWN w1 (u :: is) (idu :: ids) (mu :: ms)`, `OInv`, `ViewWF`), world `w2` holds ONE memory leaf
  `r` with the map `a` (`MemLeafAt w2 r a`), and `a` is a reference tree of the overlay's view
  (`C09.Refines (oview (mu :: ms)) a`: well-formed, canonical keys outside ".whiteout", same type
  and bytes as the view on every visible path).

  PROVED, method by method (the overlay is `Overlay.fs (layersN (u :: is) (idu :: ids))`, the
  reference filesystem is `leafFS r`; `id`, `id'` are arbitrary `Arc` identities):
    * `ro_exists`     — `exists` on a disciplined path (`OpPath`): EQUAL answers, worlds unchanged;
    * `ro_metadata`   — `metadata`: same type, same length for files (timestamps NOT compared), or
                        the same error kind (`MetaSame`); worlds unchanged;
    * `ro_readDir`    — `read_dir` on a directory of the view: both succeed, the two listings
                        have the same MEMBERS (order NOT compared), the children are `p/n` on both
                        sides; worlds unchanged;
    * `ro_step`       — the five mutators `create_dir`, write session (`create_file`, `write_all`,
                        drop), append session, `remove_file`, `remove_dir` at the `VfsPath` level
                        (`C01.vstep`), on disciplined paths (`OpOK`), `remove_file` not on a
                        directory of the view (`O3Free`: finding O3): same success / failure, no
                        panic on either side, and the worlds are `RO`-related again (the reference
                        map is `stepMem a op`, i.e. what the real memory leaf does);
                        `ro_createDir_kinds`: `create_dir` on an occupied path below a directory
                        answers file-exists / dir-exists on BOTH sides;
    * `ro_history`    — every finite history of such calls (`C01.runV` on both sides).
    * `RO.exists_ref` — for every overlay world with `ViewWF` + `ViewCanon` there is a related
                        reference world (the leaf holds `C09.refTree`).
  NOT PROVED here: error KINDS other than the three named ones are not compared (the overlay
  answers `Other` where the leaf may answer differently); `open_file` / bare `create_file`
  handles across calls (only closed sessions); paths outside the discipline (".whiteout", "..").
-/
import VfsModel.Props.C09RefineExists
import VfsModel.Props.C11OverlayDir
set_option linter.unusedSimpArgs false
set_option linter.unusedVariables false
set_option linter.unusedSectionVars false
namespace Vfs.C11
open Vfs Vfs.Overlay Vfs.C02 Vfs.C01 Vfs.C09 Vfs.C05

/-! ### the relation -/

/-- overlay world `w1` (upper map `mu`, lower maps `ms`) ~ reference world `w2` (one memory leaf
`r` holding the reference tree `a` of the overlay's view) -/
structure RO (u idu : Nat) (is ids : List Nat) (r : Nat) (mu : FMap) (ms : List FMap) (a : FMap)
    (w1 w2 : World) : Prop where
  st : OSt u idu is ids ms w1 mu
  leaf : MemLeafAt w2 r a
  ref : Refines (oview (mu :: ms)) a

theorem vcore_congr_core {e1 e2 : Entry} (h : core e1 = core e2) : vcore e1 = vcore e2 := by
  have hft : e1.ftype = e2.ftype := congrArg Prod.fst h
  by_cases hd : e1.ftype = .dir
  · rw [vcore_dir hd, vcore_dir (hft ▸ hd)]
  · have hf1 : e1.ftype = .file := by
      cases hx : e1.ftype with
      | file => rfl
      | dir => exact absurd hx hd
    have hf2 : e2.ftype = .file := hft ▸ hf1
    rw [vcore_file hf1, vcore_file hf2]
    have hc : e1.content = e2.content := congrArg Prod.snd h
    rw [hc]

/-- a reference tree may be replaced by any well-formed map with the same types and bytes -/
theorem _root_.Vfs.C09.Refines.of_coreEq {v : View} {a b : FMap} (hb : Refines v b) (hc : CoreEq a b) (ha : WF a) :
    Refines v a := by
  refine ⟨ha, ?_, ?_⟩
  · intro k e hk
    have h := hc k
    rw [hk] at h
    cases hbk : b.find? k with
    | none => rw [hbk] at h; cases h
    | some e' => exact hb.keys k e' hbk
  · intro q hq
    rw [hb.same q hq]
    show (b.find? q).map vcore = (a.find? q).map vcore
    have h := hc q
    cases h1 : a.find? q <;> cases h2 : b.find? q <;> rw [h1, h2] at h <;>
      simp only [Option.map_some, Option.map_none, Option.some.injEq, reduceCtorEq] at h ⊢
    exact (vcore_congr_core h).symm

/-! ### the observers -/

section observers
variable {u idu : Nat} {is ids : List Nat} {r : Nat} {mu : FMap} {ms : List FMap} {a : FMap}
  {w1 w2 : World} (ro : RO u idu is ids r mu ms a w1 w2) (id id' : Nat)
include ro

/-- `exists`: the same answer, both worlds unchanged -/
theorem ro_exists {cs : List Str} (hp : OpPath cs) :
    ∃ b, VPath.exists_ ⟨Overlay.fs (layersN (u :: is) (idu :: ids)), id, renderC cs⟩ w1 = (.ok b, w1) ∧
      VPath.exists_ ⟨leafFS r, id', renderC cs⟩ w2 = (.ok b, w2) := by
  refine ⟨(oview (mu :: ms) (renderC cs)).isSome, o_exists ro.st id hp, ?_⟩
  show (leafFS r).exists_ (renderC cs) w2 = _
  rw [run_exists ro.leaf]
  have h := ro.ref.same _ hp.vis
  unfold mview at h
  unfold FMap.contains
  cases h1 : oview (mu :: ms) (renderC cs) <;> cases h2 : a.find? (renderC cs) <;>
    rw [h1, h2] at h <;> simp at h ⊢

/-- two `metadata` answers up to timestamps -/
def MetaSame : Res Meta → Res Meta → Prop
  | .ok m1, .ok m2 => m1.ftype = m2.ftype ∧ (m1.ftype = .file → m1.len = m2.len)
  | .err k1 _, .err k2 _ => k1 = k2
  | _, _ => False

/-- `metadata`: same type, same length for files, or the same error kind; worlds unchanged -/
theorem ro_metadata {cs : List Str} (hp : OpPath cs) :
    ∃ r1 r2, VPath.metadata ⟨Overlay.fs (layersN (u :: is) (idu :: ids)), id, renderC cs⟩ w1 = (r1, w1) ∧
      VPath.metadata ⟨leafFS r, id', renderC cs⟩ w2 = (r2, w2) ∧ MetaSame r1 r2 := by
  have h := ro.ref.same _ hp.vis
  unfold mview at h
  have hleaf : VPath.metadata ⟨leafFS r, id', renderC cs⟩ w2
      = ((Mem.metadata a (renderC cs)).withPath (renderC cs), w2) := by
    show M.withPath (renderC cs) ((leafFS r).metadata (renderC cs)) w2 = _
    rw [run_withPath, run_metadata ro.leaf]
  cases h1 : oview (mu :: ms) (renderC cs) with
  | none =>
    cases h2 : a.find? (renderC cs) with
    | some e2 => rw [h1, h2] at h; cases h
    | none =>
      refine ⟨_, _, o_metadata_absent ro.st id hp h1, hleaf, ?_⟩
      simp [Mem.metadata, h2, fail, Res.withPath, MetaSame]
  | some e1 =>
    cases h2 : a.find? (renderC cs) with
    | none => rw [h1, h2] at h; cases h
    | some e2 =>
      rw [h1, h2] at h
      simp only [Option.map_some, Option.some.injEq] at h
      refine ⟨_, _, o_metadata ro.st id hp h1, hleaf, ?_⟩
      have hft : e1.ftype = e2.ftype := by
        have := congrArg Prod.fst h; rwa [vcore_fst, vcore_fst] at this
      simp only [Mem.metadata, h2, Res.withPath, MetaSame, Entry.meta]
      refine ⟨hft, fun hf => ?_⟩
      rw [vcore_file hf, vcore_file (hft ▸ hf)] at h
      exact congrArg List.length (congrArg Prod.snd h)

/-- `read_dir` on a directory of the view: both succeed; the listings have the same members (the
ORDER is not compared); the children are `p/n` on both sides; worlds unchanged -/
theorem ro_readDir {cs : List Str} (hp : OpPath cs)
    (hd : VIsDir (oview (mu :: ms)) (renderC cs)) :
    ∃ l1 l2 : List Str,
      VPath.readDir ⟨Overlay.fs (layersN (u :: is) (idu :: ids)), id, renderC cs⟩ w1
        = (.ok (l1.map fun n => (⟨Overlay.fs (layersN (u :: is) (idu :: ids)), id,
            renderC cs ++ '/' :: n⟩ : VPath)), w1) ∧
      VPath.readDir ⟨leafFS r, id', renderC cs⟩ w2
        = (.ok (l2.map fun n => (⟨leafFS r, id', renderC cs ++ '/' :: n⟩ : VPath)), w2) ∧
      (∀ n, n ∈ l1 ↔ n ∈ l2) ∧
      (∀ n, n ∈ l1 ↔ ('/' ∉ n ∧ oview (mu :: ms) (renderC cs ++ '/' :: n) ≠ none)) := by
  have hda : VIsDir (mview a) (renderC cs) := (isDir_of_vcore (ro.ref.same _ hp.vis)).1 hd
  obtain ⟨e, he, hdir⟩ := hda
  unfold mview at he
  refine ⟨pListingN (mu :: ms) (renderC cs), a.keys.filterMap (childName (renderC cs)),
    o_readDir ro.st id hp hd, ?_, ?_, fun n => o_listing_mem ro.st hp n⟩
  · show (do let names ← M.withPath (renderC cs) ((leafFS r).readDir (renderC cs))
             pure (names.map fun n =>
               (VPath.withStr ⟨leafFS r, id', renderC cs⟩ (renderC cs ++ '/' :: n))) : M (List VPath)) w2 = _
    have hne : ¬ e.ftype = .file := by rw [hdir]; decide
    simp only [bind, M.bind, run_withPath, run_readDir ro.leaf, Mem.readDir, he, hne, if_false,
      Res.withPath, pure, M.pure, VPath.withStr]
  · intro n
    rw [o_listing_mem ro.st hp n, mem_children]
    have hvis : Vis (renderC cs ++ '/' :: n) :=
      Or.inr (NR_child hp.ne (good_noSlash hp.good) hp.head n)
    have h := none_of_vcore (ro.ref.same _ hvis)
    unfold mview at h
    unfold FMap.contains
    constructor
    · rintro ⟨h1, h2⟩
      refine ⟨h1, ?_⟩
      cases hf : a.find? (renderC cs ++ '/' :: n) with
      | none => exact absurd (h.2 hf) h2
      | some _ => rfl
    · rintro ⟨h1, h2⟩
      refine ⟨h1, fun h0 => ?_⟩
      rw [h.1 h0] at h2; cases h2

end observers

/-! ### the mutators -/

/-- what the `VfsPath`-level call does on the reference leaf: the pure function `stepMem` -/
theorem vstep_leaf {w : World} {r : Nat} {a : FMap} (h : MemLeafAt w r a) (id : Nat) (op : Mut) :
    vstep (leafFS r) id op w = ((stepMem a op).1, w.setLeafFiles r (stepMem a op).2) := by
  cases op with
  | createDir p => exact run_pCreateDir h id p
  | write p bs => exact run_pWrite h id p bs
  | append p bs => exact run_pAppend h id p bs
  | removeFile p => exact run_pRemoveFile h id p
  | removeDir p => exact run_pRemoveDir h id p

theorem opOK_abs {op : Mut} (hop : OpOK op) : Abs op.path := by
  obtain ⟨ds, n, hp, hpath⟩ := hop; rw [hpath]; exact hp.abs

section mutators
variable {u idu : Nat} {is ids : List Nat} {r : Nat} {mu : FMap} {ms : List FMap} {a : FMap}
  {w1 w2 : World} (ro : RO u idu is ids r mu ms a w1 w2) (id id' : Nat)
include ro

/-- **one mutator call on both sides.** Disciplined path, `remove_file` not on a directory of the
view: same success / failure, no panic, the reference leaf now holds `stepMem a op`, and the two
worlds are related again. -/
theorem ro_step (op : Mut) (hop : OpOK op) (hd3 : O3Free (oview (mu :: ms)) op) :
    ∃ mu' ms',
      RO u idu is ids r mu' ms' (stepMem a op).2
        (vstep (Overlay.fs (layersN (u :: is) (idu :: ids))) id op w1).2
        (vstep (leafFS r) id' op w2).2 ∧
      LowerSame ms ms' ∧
      SameOutcome (vstep (Overlay.fs (layersN (u :: is) (idu :: ids))) id op w1).1
        (vstep (leafFS r) id' op w2).1 ∧
      VContract (oview (mu :: ms)) op
        (vstep (Overlay.fs (layersN (u :: is) (idu :: ids))) id op w1).1 (oview (mu' :: ms')) ∧
      vstep (leafFS r) id' op w2 = ((stepMem a op).1, w2.setLeafFiles r (stepMem a op).2) := by
  obtain ⟨r1, w1', mu', ms', hrun, hown, hls, _, inv', hv', hc, _, _⟩ :=
    vpath_overlay_contractN ro.st.own ro.st.inv ro.st.vwf id op hop hd3
  obtain ⟨hso, _, _, href'⟩ := refines_step ro.ref hop hc
  obtain ⟨hmp, hce, hwf⟩ := step_agree ro.ref.wf (CoreEq.refl a) op (opOK_abs hop)
  have hleaf := vstep_leaf ro.leaf id' op
  refine ⟨mu', ms', ?_, hls, ?_, ?_, hleaf⟩
  · rw [hrun, hleaf]
    exact ⟨⟨hown, inv', hv'⟩, ro.leaf.set _, href'.of_coreEq hce hwf⟩
  · rw [hrun, hleaf]
    exact ⟨hso.1.trans hmp.1.symm, hso.2.1, hmp.2.1⟩
  · rw [hrun]; exact hc

/-- `create_dir` on an occupied path (parent a directory): the SAME named error on both sides —
file-exists over a file, dir-exists over a directory -/
theorem ro_createDir_kinds (q : Str) (hop : OpOK (.createDir q))
    (hpar : IsDir a (parentInternal q)) :
    (IsFile a q →
      (vstep (Overlay.fs (layersN (u :: is) (idu :: ids))) id (.createDir q) w1).1.kind?
          = some .fileExists ∧
        (vstep (leafFS r) id' (.createDir q) w2).1.kind? = some .fileExists) ∧
    (IsDir a q →
      (vstep (Overlay.fs (layersN (u :: is) (idu :: ids))) id (.createDir q) w1).1.kind?
          = some .dirExists ∧
        (vstep (leafFS r) id' (.createDir q) w2).1.kind? = some .dirExists) := by
  obtain ⟨r1, w1', mu', ms', hrun, _, _, _, _, _, hc, _, _⟩ :=
    vpath_overlay_contractN ro.st.own ro.st.inv ro.st.vwf id (.createDir q) hop
      (by intro p hp; cases hp)
  obtain ⟨_, _, hocc, _⟩ := refines_step ro.ref hop hc
  have hnamed : SameNamedClass (stepMem a (.createDir q)).1 (stepPhys a (.createDir q)).1 :=
    (createDir_agree ro.ref.wf (CoreEq.refl a) q (opOK_abs hop)).2.1
  have hleaf := vstep_leaf ro.leaf id' (.createDir q)
  rw [hrun, hleaf]
  obtain ⟨hf, hd⟩ := hocc q rfl hpar
  exact ⟨fun h => ⟨(hf h).1, hnamed _ (hf h).2 (Or.inr (Or.inl rfl))⟩,
    fun h => ⟨(hd h).1, hnamed _ (hd h).2 (Or.inr (Or.inr rfl))⟩⟩

end mutators

/-! ### histories -/

/-- the O3 discipline along a history, read off the REFERENCE leaf's own run (`stepMem`) -/
def MemO3Free : List Mut → FMap → Prop
  | [], _ => True
  | op :: rest, m => o3ok m op ∧ MemO3Free rest (stepMem m op).2

instance : (ops : List Mut) → (m : FMap) → Decidable (MemO3Free ops m)
  | [], _ => isTrue trivial
  | op :: rest, m =>
    have := instDecidableMemO3Free rest (stepMem m op).2
    by unfold MemO3Free; exact inferInstance

/-- the run of a history on a bare memory map -/
def runMem : List Mut → FMap → List (Res Unit) × FMap
  | [], m => ([], m)
  | op :: rest, m =>
    ((stepMem m op).1 :: (runMem rest (stepMem m op).2).1, (runMem rest (stepMem m op).2).2)

/-- **every finite history on both sides** (`C01.runV`: user-level calls): disciplined paths, the O3
discipline read off the reference leaf: call by call the same success / failure, no panic on
either side, the worlds related at the end; the reference leaf holds `runMem ops a`. -/
theorem ro_history (ops : List Mut) (hops : ∀ op ∈ ops, OpOK op)
    {u idu : Nat} {is ids : List Nat} {r : Nat} {mu : FMap} {ms : List FMap} {a : FMap}
    {w1 w2 : World} (ro : RO u idu is ids r mu ms a w1 w2) (id id' : Nat)
    (hdisc : MemO3Free ops a) :
    ∃ mu' ms',
      RO u idu is ids r mu' ms' (runMem ops a).2
        (runV (Overlay.fs (layersN (u :: is) (idu :: ids))) id ops w1).2
        (runV (leafFS r) id' ops w2).2 ∧
      LowerSame ms ms' ∧
      (runV (Overlay.fs (layersN (u :: is) (idu :: ids))) id ops w1).1.map Res.isOk
        = (runV (leafFS r) id' ops w2).1.map Res.isOk ∧
      (∀ x ∈ (runV (Overlay.fs (layersN (u :: is) (idu :: ids))) id ops w1).1, x ≠ .panic) ∧
      (∀ x ∈ (runV (leafFS r) id' ops w2).1, x ≠ .panic) ∧
      (runV (leafFS r) id' ops w2).1 = (runMem ops a).1 := by
  induction ops generalizing w1 w2 mu ms a with
  | nil =>
    exact ⟨mu, ms, ro, LowerSame.refl ms, rfl, by simp [runV], by simp [runV], rfl⟩
  | cons op rest ih =>
    have hop := hops op (by simp)
    have hd3 : O3Free (oview (mu :: ms)) op := by
      intro p hp hd
      subst hp
      exact hdisc.1 ((isDir_of_vcore (ro.ref.same _ (opOK_vis hop))).1 hd)
    obtain ⟨mu1, ms1, ro1, hls1, hso, _, hleaf⟩ := ro_step ro id id' op hop hd3
    obtain ⟨mu', ms', ro', hls', hoks, hnp1, hnp2, hmem⟩ :=
      ih (fun o ho => hops o (by simp [ho])) ro1 hdisc.2
    have hl1 : (vstep (leafFS r) id' op w2).1 = (stepMem a op).1 := by rw [hleaf]
    simp only [runV, runMem]
    refine ⟨mu', ms', ro', hls1.trans hls', ?_, ?_, ?_, ?_⟩
    · simp only [List.map_cons, hso.1, hoks]
    · intro x hx
      rcases List.mem_cons.1 hx with rfl | hx
      · exact hso.2.1
      · exact hnp1 x hx
    · intro x hx
      rcases List.mem_cons.1 hx with rfl | hx
      · exact hso.2.2
      · exact hnp2 x hx
    · rw [hl1, hmem]

/-! ### a related reference world exists -/

/-- for every overlay world in the setting whose view is well-formed and canonical, and every
world whose leaf `r` is a memory leaf: after storing `C09.refTree` there the two are related -/
theorem RO.exists_ref {u idu : Nat} {is ids : List Nat} {r : Nat} {mu : FMap} {ms : List FMap}
    {w1 w2 : World} {a0 : FMap} (st : OSt u idu is ids ms w1 mu)
    (hcan : ViewCanon (oview (mu :: ms))) (hleaf : MemLeafAt w2 r a0) :
    RO u idu is ids r mu ms (refTree (mu :: ms)) w1 (w2.setLeafFiles r (refTree (mu :: ms))) :=
  ⟨st, hleaf.set _, reference_tree_exists _ st.vwf hcan⟩

end Vfs.C11

section audit
open Vfs.C11
#print axioms ro_exists
#print axioms ro_metadata
#print axioms ro_readDir
#print axioms ro_step
#print axioms ro_createDir_kinds
#print axioms ro_history
#print axioms RO.exists_ref
end audit
