/-
  Part E of the class calculus (Proofs/ClassSim.lean, Proofs/ClassSimOverlay.lean): the INSTANCE
  "memory leaf left, physical leaf right".

  * `LeafOK a b` : `a` is a well-formed map with canonical keys, `b` has the same content
    (`CoreEq`: types and bytes, timestamps and storage order aside).
  * `RCore w1 w2` : leaf by leaf, a memory leaf left and a physical leaf right with `LeafOK`
    maps; the ghost fields (log, fault plan) are equal.
  * `leaf_simW i : SimW RCore (leafFS i) (leafFS i)` : every observer, every handle-free mutator
    and every closed session of the trait over leaf `i` agree in the `CSim`/`KRel` sense, for
    EVERY canonical path string (wrong-type targets, missing parents, paths below files).

  Write scripts covered: any finite list of `write` calls (empty chunks included, no seeks, no
  intermediate `flush`), then drop.  For `createClear` the marker path is arbitrary (it may even
  be the file itself).  `clearT` (the tolerant clearing of a marker by `OverlayFS::create_dir`
  after the fix of O11, `leaf_clearT`): after a positive probe neither backend answers
  `FileNotFound`, so the tolerance is never exercised on a leaf.

  NOT PROVED here: see the header of Proofs/ClassSim.lean.
-/
import VfsModel.Proofs.ClassSimOverlay
set_option linter.unusedVariables false
set_option linter.unusedSectionVars false
namespace Vfs.C02

/-! ### the relation -/

structure LeafOK (a b : FMap) : Prop where
  wf : WF a
  core : CoreEq a b
  keys : KeysCanon a

def LeafRel : Option Leaf → Option Leaf → Prop
  | none, none => True
  | some x, some y => x.kind = .mem ∧ y.kind = .phys ∧ LeafOK x.files y.files
  | _, _ => False

/-- **the world relation of C02**: memory leaves left, physical leaves with the same content right -/
structure RCore (w1 w2 : World) : Prop where
  leaf : ∀ i, LeafRel (w1.leaf? i) (w2.leaf? i)
  log : w1.log = w2.log
  fault : w1.fault = w2.fault
  fired : w1.fired = w2.fired

theorem RCore.set {w1 w2 : World} (hr : RCore w1 w2) {i : Nat} {l1 l2 : Leaf}
    (e1 : w1.leaf? i = some l1) (e2 : w2.leaf? i = some l2) {f1 f2 : FMap} (hf : LeafOK f1 f2) :
    RCore (w1.setLeafFiles i f1) (w2.setLeafFiles i f2) := by
  refine ⟨fun j => ?_, hr.log, hr.fault, hr.fired⟩
  by_cases hj : j = i
  · subst hj
    rw [World.setLeafFiles_same w1 j l1 f1 e1, World.setLeafFiles_same w2 j l2 f2 e2]
    have := hr.leaf j
    rw [e1, e2] at this
    exact ⟨this.1, this.2.1, hf⟩
  · rw [World.leaf?_setLeafFiles_ne w1 i j f1 (fun h => hj h.symm),
      World.leaf?_setLeafFiles_ne w2 i j f2 (fun h => hj h.symm)]
    exact hr.leaf j

theorem RCore.at {w1 w2 : World} (hr : RCore w1 w2) (i : Nat) :
    (w1.leaf? i = none ∧ w2.leaf? i = none) ∨
    ∃ a b, w1.leaf? i = some { kind := .mem, files := a } ∧
      w2.leaf? i = some { kind := .phys, files := b } ∧ LeafOK a b := by
  have := hr.leaf i
  cases e1 : w1.leaf? i with
  | none =>
    cases e2 : w2.leaf? i with
    | none => exact Or.inl ⟨rfl, rfl⟩
    | some y => rw [e1, e2] at this; exact absurd this id
  | some x =>
    cases e2 : w2.leaf? i with
    | none => rw [e1, e2] at this; exact absurd this id
    | some y =>
      rw [e1, e2] at this
      obtain ⟨k1, a⟩ := x
      obtain ⟨k2, b⟩ := y
      obtain ⟨h1, h2, h3⟩ := this
      simp only at h1 h2 h3
      subst h1 h2
      exact Or.inr ⟨a, b, rfl, rfl, h3⟩

theorem onLeaf_eq {α : Type} {w : World} {i : Nat} {l : Leaf} (h : w.leaf? i = some l)
    (f : Leaf → Res α × FMap) : onLeaf i f w = ((f l).1, w.setLeafFiles i (f l).2) := by
  unfold onLeaf; simp [h]

theorem onLeaf_none {α : Type} {w : World} {i : Nat} (h : w.leaf? i = none)
    (f : Leaf → Res α × FMap) : onLeaf i f w = (.panic, w) := by
  unfold onLeaf; simp [h]

/-- a pure statement about the two leaf functions gives a simulation of the lifted calls -/
theorem leaf_sim {α β : Type} {KR : ErrKind → ErrKind → Prop} {Q : α → β → Prop} (i : Nat)
    (f1 : Leaf → Res α × FMap) (f2 : Leaf → Res β × FMap)
    (h : ∀ a b, LeafOK a b →
      CRes KR Q (f1 { kind := .mem, files := a }).1 (f2 { kind := .phys, files := b }).1 ∧
      LeafOK (f1 { kind := .mem, files := a }).2 (f2 { kind := .phys, files := b }).2) :
    CSim RCore KR Q (onLeaf i f1) (onLeaf i f2) := by
  intro w1 w2 hr
  rcases hr.at i with ⟨e1, e2⟩ | ⟨a, b, e1, e2, hab⟩
  · rw [onLeaf_none e1, onLeaf_none e2]; exact ⟨.panic, hr⟩
  · rw [onLeaf_eq e1, onLeaf_eq e2]
    exact ⟨(h a b hab).1, hr.set e1 e2 (h a b hab).2⟩

/-! ### the host's lookup on `CoreEq` maps -/

section pure
variable {a b : FMap} (hab : LeafOK a b)
include hab

theorem wfb : WF b := hab.wf.of_coreEq hab.core

theorem phys_present {p : Str} {e : Entry} (he : a.find? p = some e) :
    ∃ e', b.find? p = some e' ∧ e'.ftype = e.ftype ∧ e'.content = e.content ∧
      Phys.lookup b p = .ok (some e') := by
  obtain ⟨e', h1, h2, h3⟩ := hab.core.some p e he
  exact ⟨e', h1, h2, h3, (wfb hab).lookup_present p e' h1⟩

theorem phys_absent {p : Str} (he : a.find? p = none) :
    b.find? p = none ∧ (Phys.lookup b p = .ok none ∨
      ∃ k q, Phys.lookup b p = .err k q ∧ (k = .io ∨ k = .fileNotFound)) := by
  have hb := (hab.core.none_iff p).1 he
  refine ⟨hb, ?_⟩
  unfold Phys.lookup
  cases hres : Phys.resolveParent b p with
  | ok u => rw [hb]; exact Or.inl rfl
  | err k q =>
    refine Or.inr ⟨k, q, rfl, ?_⟩
    unfold Phys.resolveParent at hres
    split at hres
    · cases hres
    · split at hres
      · simp only [fail, Res.err.injEq] at hres; exact Or.inl hres.1.symm
      · simp only [fail, Res.err.injEq] at hres; exact Or.inr hres.1.symm
  | panic =>
    exfalso
    unfold Phys.resolveParent at hres
    split at hres
    · cases hres
    · split at hres <;> simp [fail] at hres

theorem KeysCanon_of_dom {m m' : FMap} (hk : KeysCanon m)
    (h : ∀ k e, m'.find? k = some e → ∃ e0, m.find? k = some e0) : KeysCanon m' := by
  intro k hk'
  obtain ⟨e, he⟩ := (FMap.mem_keys_iff m' k).1 hk'
  exact hk k ((FMap.mem_keys_iff m k).2 (h k e he))

/-! ### observers -/

theorem exists_rel (p : Str) : a.contains p = Phys.exists_ b p := by
  rcases Option.eq_none_or_eq_some (a.find? p) with hf | ⟨e, hf⟩
  · obtain ⟨hb, _⟩ := phys_absent hab hf
    simp [FMap.contains, hf, Phys.exists_absent b p hb]
  · obtain ⟨e', h1, _, _, hl⟩ := phys_present hab hf
    simp [FMap.contains, hf, Phys.exists_, hl]

theorem metadata_rel (p : Str) : CRes KRel MetaRel (Mem.metadata a p) (Phys.metadata b p) := by
  rcases Option.eq_none_or_eq_some (a.find? p) with hf | ⟨e, hf⟩
  · obtain ⟨hb, hl⟩ := phys_absent hab hf
    rcases hl with hl | ⟨k, q, hl, hk⟩
    · simp only [Mem.metadata, Phys.metadata, hf, hl, fail]; exact .err (Or.inl rfl)
    · simp only [Mem.metadata, Phys.metadata, hf, hl, fail]
      exact .err (KRel.soft (Or.inl rfl) (by rcases hk with rfl | rfl <;> simp))
  · obtain ⟨e', h1, h2, h3, hl⟩ := phys_present hab hf
    simp only [Mem.metadata, Phys.metadata, hf, hl]
    refine .ok ⟨by simp [Entry.meta, h2], ?_⟩
    intro hfile
    simp only [Entry.meta] at hfile
    have : e'.ftype = .file := by rw [h2]; exact hfile
    simp [Entry.meta, this, h3]

theorem readDir_rel (p : Str) : CRes KRel NamesSet (Mem.readDir a p) (Phys.readDir b p) := by
  rcases Option.eq_none_or_eq_some (a.find? p) with hf | ⟨e, hf⟩
  · obtain ⟨hb, hl⟩ := phys_absent hab hf
    rcases hl with hl | ⟨k, q, hl, hk⟩
    · simp only [Mem.readDir, Phys.readDir, hf, hl, fail]; exact .err (Or.inl rfl)
    · simp only [Mem.readDir, Phys.readDir, hf, hl, fail]
      exact .err (KRel.soft (Or.inl rfl) (by rcases hk with rfl | rfl <;> simp))
  · obtain ⟨e', h1, h2, h3, hl⟩ := phys_present hab hf
    cases hty : e.ftype
    · have : e'.ftype = .file := by rw [h2, hty]
      simp only [Mem.readDir, Phys.readDir, hf, hl, hty, this, fail, if_true]
      exact .err (KRel.soft (Or.inr rfl) (Or.inl rfl))
    · have hd' : e'.ftype = .dir := by rw [h2, hty]
      have hm : Mem.readDir a p = .ok (a.keys.filterMap (childName p)) := by
        simp [Mem.readDir, hf, hty]
      rw [hm]
      simp only [Phys.readDir, hl, hd', Phys.children]
      refine .ok ⟨fun n => ?_, readDir_names_good a p hab.keys _ hm⟩
      rw [mem_filterMap_childName, mem_filterMap_childName]
      constructor
      · rintro ⟨k, x, hk, r⟩
        obtain ⟨x', hk', _, _⟩ := hab.core.some k x hk
        exact ⟨k, x', hk', r⟩
      · rintro ⟨k, x, hk, r⟩
        obtain ⟨x', hk', _, _⟩ := hab.core.symm.some k x hk
        exact ⟨k, x', hk', r⟩

/-- the result of reading a handle to its end -/
def readRes (r : Res RHandle) : Res Bytes :=
  match r with
  | .ok h => h.readToEnd.1
  | .err k p => .err k p
  | .panic => .panic

theorem openFile_ok (p : Str) : LeafOK (Mem.openFile a p).2 b := by
  refine ⟨hab.wf.openFile p, ?_, ?_⟩
  · intro k
    have h1 := Mem.openFile_same a p k
    have h2 := congrArg (Option.map core) h1
    simp only [Option.map_map] at h2
    have hc : core ∘ stripAcc = core := by funext e; rfl
    rw [hc] at h2
    rw [h2]
    exact hab.core k
  · apply KeysCanon_of_dom hab hab.keys
    intro k e he
    have h1 := Mem.openFile_same a p k
    rw [he] at h1
    cases h0 : a.find? k with
    | none => rw [h0] at h1; simp at h1
    | some e0 => exact ⟨e0, rfl⟩

theorem readAll_rel (p : Str) :
    CRes KRel (· = ·) (readRes (Mem.openFile a p).1) (readRes (Phys.openFile b p)) := by
  rcases Option.eq_none_or_eq_some (a.find? p) with hf | ⟨e, hf⟩
  · obtain ⟨hb, hl⟩ := phys_absent hab hf
    rcases hl with hl | ⟨k, q, hl, hk⟩
    · simp only [Mem.openFile, Mem.setAccessed, Phys.openFile, hf, hl, fail, readRes]
      exact .err (Or.inl rfl)
    · simp only [Mem.openFile, Mem.setAccessed, Phys.openFile, hf, hl, fail, readRes]
      exact .err (KRel.soft (Or.inl rfl) (by rcases hk with rfl | rfl <;> simp))
  · obtain ⟨e', h1, h2, h3, hl⟩ := phys_present hab hf
    cases hty : e.ftype
    · have hf' : e'.ftype = .file := by rw [h2, hty]
      simp only [Mem.openFile, Mem.setAccessed, Phys.openFile, hf, hl, FMap.find?_insert_self, hty,
        hf', readRes, RHandle.readToEnd]
      simp [h3]
      exact .ok rfl
    · have hd' : e'.ftype = .dir := by rw [h2, hty]
      simp only [Mem.openFile, Mem.setAccessed, Phys.openFile, hf, hl, FMap.find?_insert_self, hty,
        hd', readRes, RHandle.readToEnd, fail]
      simp
      exact .err (KRel.soft (Or.inr rfl) (Or.inl rfl))

end pure


/-! ### handle-free mutators -/
section mutators
variable {a b : FMap} (hab : LeafOK a b)
include hab

theorem canon_slash {p : Str} (hp : Canon p) (hne : p ≠ []) : '/' ∈ p := by
  obtain ⟨cs, _, rfl⟩ := hp
  exact slash_mem_renderC (by intro h; subst h; exact hne rfl)

/-- the parent probe of the two trait-level creators -/
theorem parent_cases (p : Str) (hs : '/' ∈ p) :
    (∃ pe pe', a.find? (parentInternal p) = some pe ∧ pe.ftype = .dir ∧
        b.find? (parentInternal p) = some pe' ∧ pe'.ftype = .dir ∧
        Mem.ensureHasParent a p = .ok () ∧ Phys.lookup b p = .ok (b.find? p)) ∨
    (Mem.ensureHasParent a p = fail .other ∧
      ∃ k q, Phys.lookup b p = .err k q ∧ (k = .io ∨ k = .fileNotFound)) := by
  rcases Option.eq_none_or_eq_some (a.find? (parentInternal p)) with hf | ⟨pe, hf⟩
  · right
    refine ⟨by simp [Mem.ensureHasParent, hs, hf], ?_⟩
    have hbn := (hab.core.none_iff _).1 hf
    have hne := resolve_bad_parent b p hs (by intro pe h; rw [hbn] at h; cases h)
    unfold Phys.lookup
    cases hres : Phys.resolveParent b p with
    | ok u => exact absurd hres hne
    | err k q =>
      refine ⟨k, q, rfl, ?_⟩
      unfold Phys.resolveParent at hres
      split at hres
      · cases hres
      · split at hres
        · simp only [fail, Res.err.injEq] at hres; exact Or.inl hres.1.symm
        · simp only [fail, Res.err.injEq] at hres; exact Or.inr hres.1.symm
    | panic =>
      exfalso
      unfold Phys.resolveParent at hres
      split at hres
      · cases hres
      · split at hres <;> simp [fail] at hres
  · obtain ⟨pe', h1, h2, _⟩ := hab.core.some _ pe hf
    cases hty : pe.ftype
    · right
      refine ⟨by simp [Mem.ensureHasParent, hs, hf, hty], ?_⟩
      have hne := resolve_bad_parent b p hs (by
        intro x h; rw [h1] at h; cases h; rw [h2, hty])
      unfold Phys.lookup
      cases hres : Phys.resolveParent b p with
      | ok u => exact absurd hres hne
      | err k q =>
        refine ⟨k, q, rfl, ?_⟩
        unfold Phys.resolveParent at hres
        split at hres
        · cases hres
        · split at hres
          · simp only [fail, Res.err.injEq] at hres; exact Or.inl hres.1.symm
          · simp only [fail, Res.err.injEq] at hres; exact Or.inr hres.1.symm
      | panic =>
        exfalso
        unfold Phys.resolveParent at hres
        split at hres
        · cases hres
        · split at hres <;> simp [fail] at hres
    · left
      have hd' : pe'.ftype = .dir := by rw [h2, hty]
      exact ⟨pe, pe', hf, hty, h1, hd', by simp [Mem.ensureHasParent, hs, hf, hty],
        (wfb hab).lookup_child p hs pe' h1 hd'⟩

theorem createDir_rel (p : Str) (hp : Canon p) (hne : p ≠ []) :
    CRes KRel (· = ·) (Mem.createDir a p).1 (Phys.createDir b p).1 ∧
    LeafOK (Mem.createDir a p).2 (Phys.createDir b p).2 := by
  have hs := canon_slash hab hp hne
  rcases parent_cases hab p hs with ⟨pe, pe', h1, h2, h3, h4, hens, hl⟩ | ⟨hens, k, q, hl, hk⟩
  · unfold Mem.createDir Phys.createDir
    rw [hens, hl]
    rcases Option.eq_none_or_eq_some (a.find? p) with hf | ⟨e, hf⟩
    · have hfb := (hab.core.none_iff p).1 hf
      simp only [hf, hfb]
      exact ⟨.ok (by first | rfl | trivial), hab.wf.insert_dir p _ rfl hs pe h1 h2, hab.core.insert p _ _ rfl,
        hab.keys.insert hp _⟩
    · obtain ⟨e', hfb, ht, _⟩ := hab.core.some p e hf
      simp only [hf, hfb, ht]
      cases e.ftype <;> exact ⟨.err (Or.inl rfl), hab⟩
  · unfold Mem.createDir Phys.createDir
    rw [hens, hl]
    simp only [fail]
    exact ⟨.err (KRel.soft (Or.inr rfl) (by rcases hk with rfl | rfl <;> simp)), hab⟩

theorem removeFile_rel (p : Str) :
    CRes KRel (· = ·) (Mem.removeFile a p).1 (Phys.removeFile b p).1 ∧
    LeafOK (Mem.removeFile a p).2 (Phys.removeFile b p).2 := by
  have hwf : WF (Mem.removeFile a p).2 := hab.wf.pRemoveFile p
  rcases Option.eq_none_or_eq_some (a.find? p) with hf | ⟨e, hf⟩
  · obtain ⟨hb, hl⟩ := phys_absent hab hf
    rcases hl with hl | ⟨k, q, hl, hk⟩
    · simp only [Mem.removeFile, Phys.removeFile, hf, hl, fail]; exact ⟨.err (Or.inl rfl), hab⟩
    · simp only [Mem.removeFile, Phys.removeFile, hf, hl, fail]
      exact ⟨.err (KRel.soft (Or.inl rfl) (by rcases hk with rfl | rfl <;> simp)), hab⟩
  · obtain ⟨e', h1, h2, h3, hl⟩ := phys_present hab hf
    cases hty : e.ftype
    · have hf' : e'.ftype = .file := by rw [h2, hty]
      have hm : Mem.removeFile a p = (.ok (), a.erase p) := by simp [Mem.removeFile, hf, hty]
      rw [hm] at hwf ⊢
      simp only [Phys.removeFile, hl, hf']
      exact ⟨.ok (by first | rfl | trivial), hwf, hab.core.erase p, hab.keys.erase p⟩
    · have hd' : e'.ftype = .dir := by rw [h2, hty]
      simp only [Mem.removeFile, Phys.removeFile, hf, hl, hty, hd', fail]
      simp
      exact ⟨.err (KRel.soft (Or.inr rfl) (Or.inl rfl)), hab⟩

theorem removeDir_rel (p : Str) (hne : p ≠ []) :
    CRes KRel (· = ·) (Mem.removeDir a p).1 (Phys.removeDir b p).1 ∧
    LeafOK (Mem.removeDir a p).2 (Phys.removeDir b p).2 := by
  have hwf : WF (Mem.removeDir a p).2 := hab.wf.pRemoveDir p hne
  rcases Option.eq_none_or_eq_some (a.find? p) with hf | ⟨e, hf⟩
  · obtain ⟨hb, hl⟩ := phys_absent hab hf
    rcases hl with hl | ⟨k, q, hl, hk⟩
    · simp only [Mem.removeDir, Mem.readDir, Phys.removeDir, hf, hl, fail]
      exact ⟨.err (Or.inl rfl), hab⟩
    · simp only [Mem.removeDir, Mem.readDir, Phys.removeDir, hf, hl, fail]
      exact ⟨.err (KRel.soft (Or.inl rfl) (by rcases hk with rfl | rfl <;> simp)), hab⟩
  · obtain ⟨e', h1, h2, h3, hl⟩ := phys_present hab hf
    cases hty : e.ftype
    · have hf' : e'.ftype = .file := by rw [h2, hty]
      simp only [Mem.removeDir, Mem.readDir, Phys.removeDir, hf, hl, hty, hf', fail]
      simp
      exact ⟨.err (KRel.soft (Or.inr rfl) (Or.inl rfl)), hab⟩
    · have hd' : e'.ftype = .dir := by rw [h2, hty]
      by_cases hch : a.keys.filterMap (childName p) = []
      · have hch' : Phys.children b p = [] := (children_empty_iff hab.core p).1 hch
        have hm : Mem.removeDir a p = (.ok (), a.erase p) := by
          simp [Mem.removeDir, Mem.readDir, hf, hty, hch, FMap.contains]
        rw [hm] at hwf ⊢
        simp only [Phys.removeDir, hl, hd', hch']
        simp
        exact ⟨.ok (by first | rfl | trivial), hwf, hab.core.erase p, hab.keys.erase p⟩
      · have hch' : Phys.children b p ≠ [] := fun h => hch ((children_empty_iff hab.core p).2 h)
        have hm : Mem.removeDir a p = (fail .other, a) := by
          simp [Mem.removeDir, Mem.readDir, hf, hty, hch]
        rw [hm]
        simp only [Phys.removeDir, hl, hd', fail]
        simp [hch']
        exact ⟨.err (KRel.soft (Or.inr rfl) (Or.inl rfl)), hab⟩

/-- `create_file` at the trait level: same outcome class, same content afterwards, and on success
the file is there and EMPTY in the memory map -/
theorem createFile_rel (p : Str) (hp : Canon p) :
    CRes KRel (fun _ _ => True) (Mem.createFile a p).1 (Phys.createFile b p).1 ∧
    LeafOK (Mem.createFile a p).2 (Phys.createFile b p).2 ∧
    ((Mem.createFile a p).1 = .ok () →
      ∃ e, (Mem.createFile a p).2.find? p = some e ∧ e.ftype = .file ∧ e.content = []) := by
  by_cases hne : p = []
  · subst hne
    obtain ⟨e, he, hd⟩ := hab.wf.1
    obtain ⟨e', h1, h2, h3, hl⟩ := phys_present hab he
    have hd' : e'.ftype = .dir := by rw [h2, hd]
    have hm : Mem.createFile a [] = (fail .other, a) := by
      simp [Mem.createFile, Mem.ensureHasParent, fail]
    rw [hm]
    simp only [Phys.createFile, hl, hd', fail, if_true]
    exact ⟨.err (KRel.soft (Or.inr rfl) (Or.inl rfl)), hab, by intro h; cases h⟩
  have hs := canon_slash hab hp hne
  rcases parent_cases hab p hs with ⟨pe, pe', h1, h2, h3, h4, hens, hl⟩ | ⟨hens, k, q, hl, hk⟩
  · unfold Mem.createFile Phys.createFile
    rw [hens, hl]
    rcases Option.eq_none_or_eq_some (a.find? p) with hf | ⟨e, hf⟩
    · have hfb := (hab.core.none_iff p).1 hf
      simp only [hf, hfb]
      refine ⟨.ok trivial, ⟨?_, hab.core.insert p _ _ rfl, hab.keys.insert hp _⟩,
        fun _ => ⟨fileEntryNow, FMap.find?_insert_self _ _ _, rfl, rfl⟩⟩
      exact hab.wf.insert_leaf p _ (by intro e he; rw [hf] at he; cases he)
        (fun _ => ⟨rfl, hs, pe, h1, h2⟩)
    · obtain ⟨e', hfb, ht, _⟩ := hab.core.some p e hf
      simp only [hf, hfb]
      cases hty : e.ftype
      · have hf' : e'.ftype = .file := by rw [ht, hty]
        simp only [hf', show (FType.file = FType.dir) = False from by simp, if_false]
        refine ⟨.ok trivial, ⟨?_, hab.core.insert p _ _ (by simp [core, fileEntryNow, hf']),
          hab.keys.insert hp _⟩, fun _ => ⟨fileEntryNow, FMap.find?_insert_self _ _ _, rfl, rfl⟩⟩
        exact hab.wf.insert_leaf p _ (by intro e0 he; rw [hf] at he; cases he; exact hty)
          (by intro h; rw [hf] at h; cases h)
      · have hd' : e'.ftype = .dir := by rw [ht, hty]
        simp only [hd', if_true, fail]
        exact ⟨.err (KRel.soft (Or.inr rfl) (Or.inl rfl)), hab, by intro h; cases h⟩
  · unfold Mem.createFile Phys.createFile
    rw [hens, hl]
    simp only [fail]
    exact ⟨.err (KRel.soft (Or.inr rfl) (by rcases hk with rfl | rfl <;> simp)), hab,
      by intro h; cases h⟩

end mutators


/-! ### write scripts on the two kinds of handle -/

theorem cursorWrite_end (buf bs : Bytes) : cursorWrite buf buf.length bs = buf ++ bs := by
  unfold cursorWrite padTo; simp

theorem bind_eval {α β : Type} (m : M α) (f : α → M β) (w : World) :
    (m >>= f) w = match m w with
      | (.ok a, w') => f a w'
      | (.err k p, w') => (.err k p, w')
      | (.panic, w') => (.panic, w') := rfl

/-- a memory handle buffers: the world is untouched, the buffer grows -/
theorem run_memScript (i : Nat) (p : Str) (buf : Bytes) (s : List Bytes) (w : World) :
    runScript { leaf := i, key := p, kind := .memFile, buf := buf, pos := buf.length } s w =
      (.ok { leaf := i, key := p, kind := .memFile, buf := buf ++ s.flatten,
             pos := (buf ++ s.flatten).length }, w) := by
  induction s generalizing buf with
  | nil => simp [runScript, Pure.pure, M.pure]
  | cons bs rest ih =>
    unfold runScript
    rw [bind_eval]
    simp only [WHandle.write, cursorWrite_end]
    have := ih (buf ++ bs)
    simp only [List.length_append, List.append_assoc] at this
    simp only [List.flatten_cons, List.length_append, List.append_assoc]
    rw [← this]

/-- one `write` on a physical handle, on the entry (`strict`: a zero-length `write(2)` on a
`File::create` handle changes nothing) -/
def stepE (strict : Bool) (e : Entry) (bs : Bytes) : Entry :=
  if strict = true ∧ bs = [] then e else { e with content := e.content ++ bs, modified := .now }

theorem stepE_ftype (strict : Bool) (e : Entry) (bs : Bytes) : (stepE strict e bs).ftype = e.ftype := by
  unfold stepE; split <;> rfl

theorem stepE_content (strict : Bool) (e : Entry) (bs : Bytes) :
    (stepE strict e bs).content = e.content ++ bs := by
  unfold stepE
  split
  · rename_i h; rw [h.2]; simp
  · rfl

/-- the content of a physical file after the writes of a script -/
def physW (b : FMap) (p : Str) (strict : Bool) : List Bytes → FMap
  | [] => b
  | bs :: rest =>
    physW (match b.find? p with
      | some e => b.insert p (stepE strict e bs)
      | none => b) p strict rest

theorem physW_cons_some {b : FMap} {p : Str} {e : Entry} (hf : b.find? p = some e) (strict : Bool)
    (bs : Bytes) (rest : List Bytes) :
    physW b p strict (bs :: rest) = physW (b.insert p (stepE strict e bs)) p strict rest := by
  simp only [physW, hf]

theorem physW_cons_none {b : FMap} {p : Str} (hf : b.find? p = none) (strict : Bool)
    (bs : Bytes) (rest : List Bytes) :
    physW b p strict (bs :: rest) = physW b p strict rest := by
  simp only [physW, hf]

theorem core_physW (b : FMap) (p : Str) (strict : Bool) (s : List Bytes) (k : Str) :
    ((physW b p strict s).find? k).map core =
      if k = p then (b.find? p).map (fun e => (e.ftype, e.content ++ s.flatten))
      else (b.find? k).map core := by
  induction s generalizing b with
  | nil =>
    simp only [physW, List.flatten_nil, List.append_nil]
    split
    · rename_i h; subst h; rfl
    · rfl
  | cons bs rest ih =>
    cases hf : b.find? p with
    | none =>
      rw [physW_cons_none hf, ih, hf]
      simp only [Option.map_none]
    | some e =>
      rw [physW_cons_some hf, ih]
      by_cases hk : k = p
      · simp only [hk, if_true, FMap.find?_insert_self, Option.map_some, stepE_ftype, stepE_content,
          List.flatten_cons, List.append_assoc]
      · simp only [hk, if_false]
        rw [FMap.find?_insert_ne _ _ _ _ hk]

/-- a `File::create` handle positioned at the end of the file writes through -/
theorem run_physCreate (i : Nat) (p : Str) (s : List Bytes) (w : World) (b : FMap) (n : Nat)
    (buf0 : Bytes) (hl : w.leaf? i = some { kind := .phys, files := b })
    (hn : ∀ e, b.find? p = some e → e.content.length = n) :
    ∃ h', runScript { leaf := i, key := p, kind := .physCreate, buf := buf0, pos := n } s w =
      (.ok h', w.setLeafFiles i (physW b p true s)) ∧ h'.kind = .physCreate := by
  induction s generalizing w b n with
  | nil =>
    refine ⟨{ leaf := i, key := p, kind := .physCreate, buf := buf0, pos := n }, ?_, rfl⟩
    simp only [runScript, physW, Pure.pure, M.pure]
    rw [World.setLeafFiles_self w i _ hl]
  | cons bs rest ih =>
    unfold runScript
    rw [bind_eval]
    cases hf : b.find? p with
    | none =>
      have hw : WHandle.write { leaf := i, key := p, kind := .physCreate, buf := buf0, pos := n } bs w
          = (.ok (bs.length, { leaf := i, key := p, kind := .physCreate, buf := buf0,
                               pos := n + bs.length }), w) := by
        simp [WHandle.write, hl, hf]
      rw [hw, physW_cons_none hf]
      exact ih w b (n + bs.length) hl (by intro e he; rw [hf] at he; cases he)
    | some e =>
      have hlen := hn e hf
      have hw : WHandle.write { leaf := i, key := p, kind := .physCreate, buf := buf0, pos := n } bs w
          = (.ok (bs.length, { leaf := i, key := p, kind := .physCreate, buf := buf0,
                               pos := n + bs.length }),
             w.setLeafFiles i (b.insert p (stepE true e bs))) := by
        simp only [WHandle.write, hl, hf, ← hlen, cursorWrite_end, stepE]
        by_cases hbs : bs = [] <;> simp [hbs]
      rw [hw, physW_cons_some hf]
      have hl' := World.setLeafFiles_same w i _ (b.insert p (stepE true e bs)) hl
      obtain ⟨h', h1, h2⟩ := ih _ _ (n + bs.length) hl' (by
        intro e0 he0
        rw [FMap.find?_insert_self] at he0
        cases he0
        rw [stepE_content, List.length_append, hlen])
      refine ⟨h', ?_, h2⟩
      show runScript _ rest _ = _
      rw [h1, World.setLeafFiles_twice]

/-- an `O_APPEND` handle writes through, at the end -/
theorem run_physAppend (i : Nat) (p : Str) (s : List Bytes) (w : World) (b : FMap) (n : Nat)
    (buf0 : Bytes) (hl : w.leaf? i = some { kind := .phys, files := b }) :
    ∃ h', runScript { leaf := i, key := p, kind := .physAppend, buf := buf0, pos := n } s w =
      (.ok h', w.setLeafFiles i (physW b p false s)) ∧ h'.kind = .physAppend := by
  induction s generalizing w b n with
  | nil =>
    refine ⟨{ leaf := i, key := p, kind := .physAppend, buf := buf0, pos := n }, ?_, rfl⟩
    simp only [runScript, physW, Pure.pure, M.pure]
    rw [World.setLeafFiles_self w i _ hl]
  | cons bs rest ih =>
    unfold runScript
    rw [bind_eval]
    cases hf : b.find? p with
    | none =>
      have hw : WHandle.write { leaf := i, key := p, kind := .physAppend, buf := buf0, pos := n } bs w
          = (.ok (bs.length, { leaf := i, key := p, kind := .physAppend, buf := buf0, pos := n }), w) := by
        simp [WHandle.write, hl, hf]
      rw [hw, physW_cons_none hf]
      exact ih w b n hl
    | some e =>
      have hw : WHandle.write { leaf := i, key := p, kind := .physAppend, buf := buf0, pos := n } bs w
          = (.ok (bs.length, { leaf := i, key := p, kind := .physAppend, buf := buf0,
                               pos := (e.content ++ bs).length }),
             w.setLeafFiles i (b.insert p (stepE false e bs))) := by
        simp [WHandle.write, hl, hf, stepE]
      rw [hw, physW_cons_some hf]
      have hl' := World.setLeafFiles_same w i _ (b.insert p (stepE false e bs)) hl
      obtain ⟨h', h1, h2⟩ := ih _ _ (e.content ++ bs).length hl'
      refine ⟨h', ?_, h2⟩
      show runScript _ rest _ = _
      rw [h1, World.setLeafFiles_twice]

theorem drop_phys (h : WHandle) (hk : h.kind ≠ .memFile) (w : World) : h.drop w = (.ok (), w) := by
  unfold WHandle.drop WHandle.flush
  cases hkind : h.kind with
  | memFile => exact absurd hkind hk
  | physCreate => rfl
  | physAppend => rfl

theorem keysCanon_memPublish {a : FMap} (hk : KeysCanon a) {p : Str} (hp : Canon p) (buf : Bytes) :
    KeysCanon (memPublish a p buf) := by
  unfold memPublish
  split
  · split
    · exact hk.insert hp _
    · exact hk
  · exact hk

theorem core_memPublish (a : FMap) (p : Str) (buf : Bytes) (k : Str) :
    ((memPublish a p buf).find? k).map core =
      if k = p then (a.find? p).map (fun e => if e.ftype = .file then (FType.file, buf) else core e)
      else (a.find? k).map core := by
  unfold memPublish
  cases hf : a.find? p with
  | none =>
    by_cases hk : k = p
    · subst hk; simp [hf]
    · simp [hk]
  | some e =>
    by_cases hty : e.ftype = .file
    · by_cases hk : k = p
      · subst hk; simp [FMap.find?_insert_self, hty, core]
      · simp [FMap.find?_insert_ne _ _ _ _ hk, hk, hty]
    · by_cases hk : k = p
      · subst hk; simp [hf, hty]
      · simp [hk, hty]

/-- **the end of a session**: from related worlds in which the memory file is absent or holds
exactly the handle's buffer, the writes and the drop give `ok` twice and related worlds -/
theorem finish_rel {w1 w2 : World} (hr : RCore w1 w2) {i : Nat} {a b : FMap} {p : Str}
    (hp : Canon p) (e1 : w1.leaf? i = some { kind := .mem, files := a })
    (e2 : w2.leaf? i = some { kind := .phys, files := b }) (hab : LeafOK a b) (buf : Bytes)
    (pre : a.find? p = none ∨ ∃ e, a.find? p = some e ∧ e.ftype = .file ∧ e.content = buf)
    (s : List Bytes) (h2 : WHandle)
    (hh2 : (∃ buf0, h2 = { leaf := i, key := p, kind := .physCreate, buf := buf0, pos := buf.length }) ∨
           (∃ buf0 n, h2 = { leaf := i, key := p, kind := .physAppend, buf := buf0, pos := n })) :
    CRes KRel (· = ·) (finish { leaf := i, key := p, kind := .memFile, buf := buf, pos := buf.length } s w1).1
        (finish h2 s w2).1 ∧
      RCore (finish { leaf := i, key := p, kind := .memFile, buf := buf, pos := buf.length } s w1).2
        (finish h2 s w2).2 := by
  -- memory side
  have hm : finish { leaf := i, key := p, kind := .memFile, buf := buf, pos := buf.length } s w1 =
      (.ok (), w1.setLeafFiles i (memPublish a p (buf ++ s.flatten))) := by
    unfold finish
    rw [bind_eval, run_memScript]
    simp [WHandle.drop, WHandle.flush, e1]
  -- physical side
  have hphys : ∃ strict, finish h2 s w2 = (.ok (), w2.setLeafFiles i (physW b p strict s)) := by
    rcases hh2 with ⟨buf0, rfl⟩ | ⟨buf0, n, rfl⟩
    · have hn : ∀ e, b.find? p = some e → e.content.length = buf.length := by
        intro e' he'
        rcases pre with hnone | ⟨e, he, _, hc⟩
        · rw [(hab.core.none_iff p).1 hnone] at he'; cases he'
        · obtain ⟨e'', h1, _, h3⟩ := hab.core.some p e he
          rw [h1] at he'; cases he'; rw [h3, hc]
      obtain ⟨h', h1, hk⟩ := run_physCreate i p s w2 b buf.length buf0 e2 hn
      refine ⟨true, ?_⟩
      unfold finish
      rw [bind_eval, h1]
      exact drop_phys h' (by rw [hk]; simp) _
    · obtain ⟨h', h1, hk⟩ := run_physAppend i p s w2 b n buf0 e2
      refine ⟨false, ?_⟩
      unfold finish
      rw [bind_eval, h1]
      exact drop_phys h' (by rw [hk]; simp) _
  obtain ⟨strict, hph⟩ := hphys
  rw [hm, hph]
  refine ⟨.ok rfl, hr.set e1 e2 ⟨hab.wf.memPublish_any p _, ?_, keysCanon_memPublish hab.keys hp _⟩⟩
  intro k
  rw [core_memPublish, core_physW]
  split
  · rcases pre with hnone | ⟨e, he, hty, hc⟩
    · rw [hnone, (hab.core.none_iff p).1 hnone]; rfl
    · obtain ⟨e', h1, h2', h3⟩ := hab.core.some p e he
      rw [he, h1]
      simp [hty, h3, hc]
      rw [h2', hty]
  · exact hab.core k


/-! ### the fields of the interface for a leaf -/

theorem leaf_exists (i : Nat) (p : Str) :
    CSim RCore (· = ·) (· = ·) ((leafFS i).exists_ p) ((leafFS i).exists_ p) :=
  leaf_sim i _ _ fun a b hab => ⟨by
    show CRes _ _ (Res.ok (a.contains p)) (Res.ok (Phys.exists_ b p))
    rw [exists_rel hab p]; exact .ok rfl, hab⟩

theorem leaf_metadata (i : Nat) (p : Str) :
    CSim RCore KRel MetaRel ((leafFS i).metadata p) ((leafFS i).metadata p) :=
  leaf_sim i _ _ fun a b hab => ⟨metadata_rel hab p, hab⟩

theorem leaf_readDir (i : Nat) (p : Str) :
    CSim RCore KRel NamesSet ((leafFS i).readDir p) ((leafFS i).readDir p) :=
  leaf_sim i _ _ fun a b hab => ⟨readDir_rel hab p, hab⟩

theorem leaf_createDir (i : Nat) (p : Str) (hp : Canon p) (hne : p ≠ []) :
    CSim RCore KRel (· = ·) ((leafFS i).createDir p) ((leafFS i).createDir p) :=
  leaf_sim i _ _ fun a b hab => createDir_rel hab p hp hne

theorem leaf_removeFile (i : Nat) (p : Str) :
    CSim RCore KRel (· = ·) ((leafFS i).removeFile p) ((leafFS i).removeFile p) :=
  leaf_sim i _ _ fun a b hab => removeFile_rel hab p

theorem leaf_removeDir (i : Nat) (p : Str) (hne : p ≠ []) :
    CSim RCore KRel (· = ·) ((leafFS i).removeDir p) ((leafFS i).removeDir p) :=
  leaf_sim i _ _ fun a b hab => removeDir_rel hab p hne

theorem leaf_createOnly (i : Nat) (p : Str) (hp : Canon p) :
    CSim RCore KRel (fun _ _ => True) ((leafFS i).createFile p) ((leafFS i).createFile p) :=
  leaf_sim i _ _ fun a b hab => by
    obtain ⟨h1, h2, _⟩ := createFile_rel hab p hp
    exact ⟨h1.map (fun _ _ _ => trivial), h2⟩

theorem leaf_readAll (i : Nat) (p : Str) :
    CSim RCore KRel (· = ·) (readAll (leafFS i) p) (readAll (leafFS i) p) := by
  intro w1 w2 hr
  rcases hr.at i with ⟨e1, e2⟩ | ⟨a, b, e1, e2, hab⟩
  · unfold readAll
    rw [bind_eval, bind_eval]
    rw [show (leafFS i).openFile p = onLeaf i _ from rfl, onLeaf_none e1, onLeaf_none e2]
    exact ⟨.panic, hr⟩
  · have r1 : readAll (leafFS i) p w1 =
        (readRes (Mem.openFile a p).1, w1.setLeafFiles i (Mem.openFile a p).2) := by
      unfold readAll
      rw [bind_eval, run_openFile e1 p]
      cases (Mem.openFile a p).1 <;> rfl
    have r2 : readAll (leafFS i) p w2 = (readRes (Phys.openFile b p), w2.setLeafFiles i b) := by
      unfold readAll
      rw [bind_eval, show (leafFS i).openFile p = onLeaf i _ from rfl, onLeaf_eq e2]
      dsimp only
      cases Phys.openFile b p <;> rfl
    rw [r1, r2]
    exact ⟨readAll_rel hab p, hr.set e1 e2 (openFile_ok hab p)⟩

theorem sim_clearAt {R : World → World → Prop} {fs1 fs2 : FS} (h : SimC R fs1 fs2) (q : Str)
    (hq : Canon q) : CSim R KRel (· = ·) (clearAt fs1 q) (clearAt fs2 q) := by
  unfold clearAt
  refine CSim.bind_eq (h.exists_ q hq).ofEq fun ex => ?_
  exact CSim.ite (fun _ => h.removeFile q hq) (fun _ => CSim.pure rfl)

/-- `create_file`, an interlude that leaves the new file alone (or removes it), the writes, drop -/
theorem leaf_createThen (i : Nat) (p : Str) (hp : Canon p) (mid1 mid2 : M Unit)
    (hmid : CSim RCore KRel (· = ·) mid1 mid2)
    (hfr : ∀ w a, w.leaf? i = some { kind := .mem, files := a } →
      ∃ a', (mid1 w).2.leaf? i = some { kind := .mem, files := a' } ∧
        (a'.find? p = none ∨ a'.find? p = a.find? p))
    (s : List Bytes) :
    CSim RCore KRel (· = ·) ((leafFS i).createFile p >>= fun h => mid1 >>= fun _ => finish h s)
      ((leafFS i).createFile p >>= fun h => mid2 >>= fun _ => finish h s) := by
  intro w1 w2 hr
  rw [bind_eval, bind_eval]
  rcases hr.at i with ⟨e1, e2⟩ | ⟨a, b, e1, e2, hab⟩
  · rw [show (leafFS i).createFile p = onLeaf i _ from rfl, onLeaf_none e1, onLeaf_none e2]
    exact ⟨.panic, hr⟩
  · have c1 := run_createFile e1 p
    have c2 : (leafFS i).createFile p w2 =
        ((Phys.createFile b p).1.map (fun _ => (⟨i, p, .physCreate, [], 0⟩ : WHandle)),
          w2.setLeafFiles i (Phys.createFile b p).2) := by
      rw [show (leafFS i).createFile p = onLeaf i _ from rfl, onLeaf_eq e2]
    rw [c1, c2]
    obtain ⟨hres, hok, hempty⟩ := createFile_rel hab p hp
    have hr' := hr.set e1 e2 hok
    have e1' := World.setLeafFiles_same w1 i _ (Mem.createFile a p).2 e1
    generalize (Mem.createFile a p).1 = r1 at hres hempty ⊢
    generalize (Phys.createFile b p).1 = r2 at hres ⊢
    cases hres with
    | err hk => exact ⟨.err hk, hr'⟩
    | panic => exact ⟨.panic, hr'⟩
    | @ok u1 u2 _ =>
      simp only [Res.map]
      rw [bind_eval, bind_eval]
      obtain ⟨hm, hr''⟩ := hmid _ _ hr'
      obtain ⟨a'', ha'', hfind⟩ := hfr _ _ e1'
      rcases em1 : mid1 (w1.setLeafFiles i (Mem.createFile a p).2) with ⟨rm1, w1''⟩
      rcases em2 : mid2 (w2.setLeafFiles i (Phys.createFile b p).2) with ⟨rm2, w2''⟩
      rw [em1, em2] at hm hr''
      rw [em1] at ha''
      simp only at hm hr'' ha''
      cases hm with
      | err hk => exact ⟨.err hk, hr''⟩
      | panic => exact ⟨.panic, hr''⟩
      | ok _ =>
        rcases hr''.at i with ⟨f1, _⟩ | ⟨a3, b3, f1, f2, hab3⟩
        · rw [f1] at ha''; cases ha''
        · rw [f1] at ha''
          have h3 : a3 = a'' := (Leaf.mk.inj (Option.some.inj ha'')).2
          rw [← h3] at hfind
          obtain ⟨e, he, hty, hc⟩ := hempty rfl
          have pre : a3.find? p = none ∨ ∃ e, a3.find? p = some e ∧ e.ftype = .file ∧ e.content = [] := by
            rcases hfind with h | h
            · exact Or.inl h
            · exact Or.inr ⟨e, by rw [h]; exact he, hty, hc⟩
          have hfin := finish_rel hr'' hp f1 f2 hab3 [] pre s ⟨i, p, .physCreate, [], 0⟩
            (Or.inl ⟨[], rfl⟩)
          first
            | exact hfin
            | exact ⟨hfin.1.mono (fun _ _ _ => trivial), hfin.2⟩

theorem leaf_createSession (i : Nat) (p : Str) (hp : Canon p) (s : List Bytes) :
    CSim RCore KRel (· = ·) (createSession (leafFS i) p s) (createSession (leafFS i) p s) :=
  leaf_createThen i p hp (pure ()) (pure ()) (CSim.pure rfl)
    (fun w a h => ⟨a, h, Or.inr rfl⟩) s

theorem clearAt_frame (i : Nat) (p q : Str) (w : World) (a : FMap)
    (h : w.leaf? i = some { kind := .mem, files := a }) :
    ∃ a', (clearAt (leafFS i) q w).2.leaf? i = some { kind := .mem, files := a' } ∧
      (a'.find? p = none ∨ a'.find? p = a.find? p) := by
  unfold clearAt
  rw [bind_eval, run_exists h q]
  simp only
  by_cases hc : a.contains q = true
  · rw [if_pos hc, run_removeFile h q]
    refine ⟨_, World.setLeafFiles_same w i _ _ h, ?_⟩
    unfold Mem.removeFile
    split
    · exact Or.inr rfl
    · split
      · exact Or.inr rfl
      · simp only
        rw [FMap.find?_erase]
        split
        · exact Or.inl rfl
        · exact Or.inr rfl
  · rw [if_neg hc]
    exact ⟨a, h, Or.inr rfl⟩

theorem appendFile_rel {a b : FMap} (hab : LeafOK a b) (p : Str) :
    (∃ e, a.find? p = some e ∧ e.ftype = .file ∧ Mem.appendFile a p = .ok e.content ∧
        Phys.appendFile b p = .ok ()) ∨
    (∃ k1 k2 q1 q2, Mem.appendFile a p = .err k1 q1 ∧ Phys.appendFile b p = .err k2 q2 ∧
        KRel k1 k2) := by
  rcases Option.eq_none_or_eq_some (a.find? p) with hf | ⟨e, hf⟩
  · obtain ⟨hb, hl⟩ := phys_absent hab hf
    right
    rcases hl with hl | ⟨k, q, hl, hk⟩
    · exact ⟨.fileNotFound, .fileNotFound, none, none, by simp [Mem.appendFile, hf, fail],
        by simp [Phys.appendFile, hl, fail], Or.inl rfl⟩
    · exact ⟨.fileNotFound, k, none, q, by simp [Mem.appendFile, hf, fail],
        by simp [Phys.appendFile, hl],
        KRel.soft (Or.inl rfl) (by rcases hk with rfl | rfl <;> simp)⟩
  · obtain ⟨e', h1, h2, h3, hl⟩ := phys_present hab hf
    cases hty : e.ftype
    · have hf' : e'.ftype = .file := by rw [h2, hty]
      left
      exact ⟨e, hf, hty, by simp [Mem.appendFile, hf, hty], by simp [Phys.appendFile, hl, hf']⟩
    · have hd' : e'.ftype = .dir := by rw [h2, hty]
      right
      exact ⟨.other, .io, none, none, by simp [Mem.appendFile, hf, hty, fail],
        by simp [Phys.appendFile, hl, hd', fail], KRel.soft (Or.inr rfl) (Or.inl rfl)⟩

theorem leaf_appendSession (i : Nat) (p : Str) (hp : Canon p) (s : List Bytes) :
    CSim RCore KRel (· = ·) (appendSession (leafFS i) p s) (appendSession (leafFS i) p s) := by
  intro w1 w2 hr
  unfold appendSession
  rw [bind_eval, bind_eval]
  rcases hr.at i with ⟨e1, e2⟩ | ⟨a, b, e1, e2, hab⟩
  · rw [show (leafFS i).appendFile p = onLeaf i _ from rfl, onLeaf_none e1, onLeaf_none e2]
    exact ⟨.panic, hr⟩
  · have c1 := run_appendFile e1 p
    have c2 : (leafFS i).appendFile p w2 =
        ((Phys.appendFile b p).map (fun _ => (⟨i, p, .physAppend, [], 0⟩ : WHandle)), w2) := by
      rw [show (leafFS i).appendFile p = onLeaf i _ from rfl, onLeaf_eq e2]
      show (_, w2.setLeafFiles i b) = _
      rw [World.setLeafFiles_self w2 i _ e2]
    rw [c1, c2]
    rcases appendFile_rel hab p with ⟨e, he, hty, hm, hph⟩ | ⟨k1, k2, q1, q2, hm, hph, hk⟩
    · rw [hm, hph]
      simp only [Res.map]
      have hfin := finish_rel hr hp e1 e2 hab e.content (Or.inr ⟨e, he, hty, rfl⟩) s
        ⟨i, p, .physAppend, [], 0⟩ (Or.inr ⟨[], 0, rfl⟩)
      first
        | exact hfin
        | exact ⟨hfin.1.mono (fun _ _ _ => trivial), hfin.2⟩
    · rw [hm, hph]
      exact ⟨.err hk, hr⟩

/-- the tolerant clearing of a marker (`clear_whiteout` of `OverlayFS::create_dir`, fix of O11):
after a positive probe neither backend answers `FileNotFound` (memory: `Ok` or `Other`; host: `Ok`
or `IoError`), so nothing is swallowed on either side and the removal is `removeFile_rel` -/
theorem leaf_clearT (i : Nat) (q : Str) :
    CSim RCore KRel (· = ·) (clearAtT (leafFS i) q) (clearAtT (leafFS i) q) := by
  intro w1 w2 hr
  unfold clearAtT
  rw [bind_eval, bind_eval]
  rcases hr.at i with ⟨e1, e2⟩ | ⟨a, b, e1, e2, hab⟩
  · rw [show (leafFS i).exists_ q = onLeaf i _ from rfl, onLeaf_none e1, onLeaf_none e2]
    exact ⟨.panic, hr⟩
  · have x2 : (leafFS i).exists_ q w2 = (.ok (Phys.exists_ b q), w2) := by
      rw [show (leafFS i).exists_ q = onLeaf i _ from rfl, onLeaf_eq e2]
      simp only
      rw [World.setLeafFiles_self w2 i _ e2]
    rw [run_exists e1 q, x2, ← exists_rel hab q]
    simp only
    by_cases hc : a.contains q = true
    · rw [if_pos hc]
      unfold tolerate
      have y2 : (leafFS i).removeFile q w2 =
          ((Phys.removeFile b q).1, w2.setLeafFiles i (Phys.removeFile b q).2) := by
        rw [show (leafFS i).removeFile q = onLeaf i _ from rfl, onLeaf_eq e2]
      rw [run_removeFile e1 q, y2]
      obtain ⟨hres, hok⟩ := removeFile_rel hab q
      have hr' := hr.set e1 e2 hok
      -- neither side answers not-found
      obtain ⟨e, hf⟩ : ∃ e, a.find? q = some e := by
        unfold FMap.contains at hc
        rcases Option.eq_none_or_eq_some (a.find? q) with h | ⟨e, h⟩
        · rw [h] at hc; cases hc
        · exact ⟨e, h⟩
      obtain ⟨e', h1, h2, h3, hl⟩ := phys_present hab hf
      have n1 : ∀ pth, (Mem.removeFile a q).1 ≠ .err .fileNotFound pth := by
        intro pth
        unfold Mem.removeFile
        simp only [hf]
        split <;> simp [fail]
      have n2 : ∀ pth, (Phys.removeFile b q).1 ≠ .err .fileNotFound pth := by
        intro pth
        unfold Phys.removeFile
        simp only [hl]
        split <;> simp [fail]
      generalize (Mem.removeFile a q).1 = r1 at hres n1 ⊢
      generalize (Phys.removeFile b q).1 = r2 at hres n2 ⊢
      cases hres with
      | ok hq => exact ⟨.ok (by first | rfl | trivial), hr'⟩
      | panic => exact ⟨.panic, hr'⟩
      | @err k1 k2 p1 p2 hk =>
        have m1 : k1 ≠ .fileNotFound := fun h => n1 p1 (by rw [h])
        have m2 : k2 ≠ .fileNotFound := fun h => n2 p2 (by rw [h])
        cases k1 <;> cases k2 <;>
          first | exact absurd rfl m1 | exact absurd rfl m2 | exact ⟨.err hk, hr'⟩
    · rw [if_neg hc]
      exact ⟨.ok (by first | rfl | trivial), hr⟩

/-- **the instance**: memory leaf `i` and physical leaf `i` with the same content are related at
the session level, write-layer capable -/
theorem leaf_simW (i : Nat) : SimW RCore (leafFS i) (leafFS i) where
  exists_ p _ := leaf_exists i p
  metadata p _ := leaf_metadata i p
  readDir p _ := leaf_readDir i p
  readAll p _ := leaf_readAll i p
  createDir p hp hne := leaf_createDir i p hp hne
  removeFile p _ := leaf_removeFile i p
  removeDir p _ hne := leaf_removeDir i p hne
  createOnly p hp := leaf_createOnly i p hp
  createSession p s hp := leaf_createSession i p hp s
  appendSession p s hp := leaf_appendSession i p hp s
  createClear p q s hp hq :=
    leaf_createThen i p hp (clearAt (leafFS i) q) (clearAt (leafFS i) q)
      (sim_clearAt
        { exists_ := fun p _ => leaf_exists i p, metadata := fun p _ => leaf_metadata i p,
          readDir := fun p _ => leaf_readDir i p, readAll := fun p _ => leaf_readAll i p,
          createDir := fun p hp hne => leaf_createDir i p hp hne,
          removeFile := fun p _ => leaf_removeFile i p,
          removeDir := fun p _ hne => leaf_removeDir i p hne,
          createOnly := fun p hp => leaf_createOnly i p hp,
          createSession := fun p s hp => leaf_createSession i p hp s } q hq)
      (clearAt_frame i p q) s
  clearT q _ := leaf_clearT i q

end Vfs.C02
