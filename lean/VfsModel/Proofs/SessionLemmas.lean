/-
  Helper definitions and lemmas for C04 at the level of SEQUENCES OF WRITE SESSIONS
  (Props/C04Sessions.lean: memory leaf, altroot, copy/move; Props/C04Overlay.lean: overlay copy-up).

  * the SPECIFICATION, written without any reference to the model's handle code
    (`cursorWrite`, `cursorSeek`, `WHandle.*` do not occur in it):
      `specWrite`, `specSeek`, `specStep`, `specRun`   — `std::io::Cursor<Vec<u8>>` as std documents it;
      `Session`, `specSession`, `specSessions`          — what a file holds after a list of sessions;
  * the bridge lemmas `specWrite_eq_cursorWrite`, `specSeek_eq_cursorSeek` (the model's cursor
    functions compute the specification; they are only used in proofs);
  * how a session runs through an in-memory write handle: `applyActs` (the handle and the world after
    some actions, handle still open), `runActs_append`, `applyActs_mem`, `runActs_mem`;
  * the model side of a session: `Session.run` (= `Op.writeSession` / `Op.appendSession` of
    Props/C03Stack.lean — the alphabet `Act` IS `C03.HAct`), `runSessions`;
  * `Holds m p c` : the map `m` has at `p` nothing (`c = none`) / a FILE with bytes `bs` (`c = some bs`).
-/
import VfsModel.Props.C04
import VfsModel.Props.C03Stack
namespace Vfs.C04
open Vfs.C14

/-! ### the specification -/

/-- what a client does with an open write handle: `write(bs)`, `flush`, `seek(s)` — the alphabet of
Props/C03Stack.lean (`C03.HAct`), reused. The seek argument is the model's `SeekFrom`
(`start o | cur o | fromEnd o`). -/
abbrev Act := Vfs.C03.HAct

/-- `Cursor<Vec<u8>>::write` at position `pos`: bytes before `pos` stay (a gap between the end of
the vector and `pos` is filled with zeros), the bytes are written over what is there, and the
vector is extended if they reach past its end. Structural recursion on the position. -/
def specWrite : Bytes → Nat → Bytes → Bytes
  | buf, 0, bs => bs ++ buf.drop bs.length
  | [], n + 1, bs => 0 :: specWrite [] n bs
  | b :: buf, n + 1, bs => b :: specWrite buf n bs

/-- `Cursor::seek`: the new position, `none` for "invalid seek to a negative or overflowing
position" (`u64`). `Start` never fails. -/
def specSeek (len pos : Nat) : SeekFrom → Option Nat
  | .start o => some o
  | .cur o => if (pos : Int) + o < 0 ∨ (pos : Int) + o ≥ 18446744073709551616 then none
              else some ((pos : Int) + o).toNat
  | .fromEnd o => if (len : Int) + o < 0 ∨ (len : Int) + o ≥ 18446744073709551616 then none
                  else some ((len : Int) + o).toNat

/-- one action on the pair (vector, position); a failing seek leaves the pair alone; flush is a
no-op on the pair -/
def specStep (st : Bytes × Nat) : Act → Bytes × Nat
  | .write bs => (specWrite st.1 st.2 bs, st.2 + bs.length)
  | .flush => st
  | .seek s =>
    match specSeek st.1.length st.2 s with
    | some n => (st.1, n)
    | none => st

/-- a script of actions from the vector `buf` and the position `pos` -/
def specRun (buf : Bytes) (pos : Nat) (acts : List Act) : Bytes × Nat :=
  acts.foldl specStep (buf, pos)

/-- one completed write session on a path: opened with `create_file` (truncate) or with
`append_file`, any actions, drop -/
inductive Session where
  | create (acts : List Act)
  | append (acts : List Act)

def Session.acts : Session → List Act
  | .create a => a
  | .append a => a

/-- the content of the path after one session (`none` = the path does not exist):
create on an absent path or on a file gives the bytes of the script run from the empty vector;
append on a file continues its bytes from their end; append on an absent path fails and the path
stays absent -/
def specSession : Option Bytes → Session → Option Bytes
  | _, .create acts => some (specRun [] 0 acts).1
  | some old, .append acts => some (specRun old old.length acts).1
  | none, .append _ => none

/-- any list of sessions on the same path -/
def specSessions (c : Option Bytes) (ss : List Session) : Option Bytes := ss.foldl specSession c

theorem specRun_nil (buf : Bytes) (pos : Nat) : specRun buf pos [] = (buf, pos) := rfl

theorem specRun_cons (buf : Bytes) (pos : Nat) (a : Act) (rest : List Act) :
    specRun buf pos (a :: rest) = specRun (specStep (buf, pos) a).1 (specStep (buf, pos) a).2 rest := rfl

theorem specRun_append (buf : Bytes) (pos : Nat) (a b : List Act) :
    specRun buf pos (a ++ b) = specRun (specRun buf pos a).1 (specRun buf pos a).2 b := by
  unfold specRun; rw [List.foldl_append]

theorem specSessions_nil (c : Option Bytes) : specSessions c [] = c := rfl

theorem specSessions_cons (c : Option Bytes) (s : Session) (ss : List Session) :
    specSessions c (s :: ss) = specSessions (specSession c s) ss := rfl

theorem specSessions_append (c : Option Bytes) (a b : List Session) :
    specSessions c (a ++ b) = specSessions (specSessions c a) b := by
  unfold specSessions; rw [List.foldl_append]

/-! ### the model's cursor functions compute the specification -/

theorem cursorWrite_zero (buf bs : Bytes) : cursorWrite buf 0 bs = bs ++ buf.drop bs.length := by
  unfold cursorWrite padTo; simp

theorem cursorWrite_nil_succ (n : Nat) (bs : Bytes) :
    cursorWrite [] (n + 1) bs = 0 :: cursorWrite [] n bs := by
  unfold cursorWrite padTo
  simp [List.replicate_succ, List.drop_replicate]

theorem cursorWrite_cons_succ (b : UInt8) (buf : Bytes) (n : Nat) (bs : Bytes) :
    cursorWrite (b :: buf) (n + 1) bs = b :: cursorWrite buf n bs := by
  unfold cursorWrite padTo
  simp [Nat.add_right_comm n 1 bs.length]

theorem specWrite_eq_cursorWrite (buf : Bytes) (pos : Nat) (bs : Bytes) :
    specWrite buf pos bs = cursorWrite buf pos bs := by
  induction pos generalizing buf with
  | zero => rw [cursorWrite_zero]; cases buf <;> rfl
  | succ n ih =>
    cases buf with
    | nil => rw [cursorWrite_nil_succ, ← ih]; rfl
    | cons b buf => rw [cursorWrite_cons_succ, ← ih]; rfl

theorem specSeek_eq_cursorSeek (len pos : Nat) (s : SeekFrom) :
    cursorSeek len pos s = (match specSeek len pos s with
      | some n => .ok n
      | none => fail .io) := by
  cases s with
  | start o => rfl
  | cur o =>
    unfold cursorSeek specSeek u64Max
    dsimp only
    by_cases h : (pos : Int) + o < 0 ∨ (pos : Int) + o ≥ 18446744073709551616
    · have h' : ¬ (0 ≤ (pos : Int) + o ∧ (pos : Int) + o < ((2 ^ 64 : Nat) : Int)) := by omega
      rw [if_neg h', if_pos h]
    · have h' : (0 ≤ (pos : Int) + o ∧ (pos : Int) + o < ((2 ^ 64 : Nat) : Int)) := by omega
      rw [if_pos h', if_neg h]
  | fromEnd o =>
    unfold cursorSeek specSeek u64Max
    dsimp only
    by_cases h : (len : Int) + o < 0 ∨ (len : Int) + o ≥ 18446744073709551616
    · have h' : ¬ (0 ≤ (len : Int) + o ∧ (len : Int) + o < ((2 ^ 64 : Nat) : Int)) := by omega
      rw [if_neg h', if_pos h]
    · have h' : (0 ≤ (len : Int) + o ∧ (len : Int) + o < ((2 ^ 64 : Nat) : Int)) := by omega
      rw [if_pos h', if_neg h]

/-! ### facts about the specification itself (sanity: it is the cursor std documents) -/

/-- length after a write -/
theorem specWrite_length (buf : Bytes) (pos : Nat) (bs : Bytes) :
    (specWrite buf pos bs).length = max buf.length (pos + bs.length) := by
  rw [specWrite_eq_cursorWrite]; exact write_length buf pos bs

/-- the written bytes sit at `pos` -/
theorem specWrite_at (buf : Bytes) (pos : Nat) (bs : Bytes) :
    ((specWrite buf pos bs).drop pos).take bs.length = bs := by
  rw [specWrite_eq_cursorWrite]; exact write_at buf pos bs

/-- writing at the end appends -/
theorem specWrite_end (buf bs : Bytes) : specWrite buf buf.length bs = buf ++ bs := by
  rw [specWrite_eq_cursorWrite]; exact write_at_end buf bs

/-- writing from the empty vector at 0 gives the bytes -/
theorem specWrite_fresh (bs : Bytes) : specWrite [] 0 bs = bs := by
  simp [specWrite]

/-- a script of plain writes from position = length concatenates -/
theorem specRun_writes (buf : Bytes) (chunks : List Bytes) :
    specRun buf buf.length (chunks.map fun b => (.write b : Act)) =
      (buf ++ chunks.flatten, (buf ++ chunks.flatten).length) := by
  induction chunks generalizing buf with
  | nil => simp [specRun]
  | cons c cs ih =>
    rw [List.map_cons, specRun_cons]
    simp only [specStep, specWrite_end]
    have := ih (buf ++ c)
    rw [List.length_append] at this
    rw [this]
    simp

/-! ### actions through an open handle -/

/-- the handle and the world after some actions, the handle still open -/
def applyActs (h : WHandle) (w : World) : List Act → WHandle × World
  | [] => (h, w)
  | a :: rest => applyActs (a.apply h w).1 (a.apply h w).2 rest

theorem applyActs_append (h : WHandle) (w : World) (a b : List Act) :
    applyActs h w (a ++ b) = applyActs (applyActs h w a).1 (applyActs h w a).2 b := by
  induction a generalizing h w with
  | nil => rfl
  | cons x xs ih => simp only [List.cons_append, applyActs, ih]

/-- a session is: the actions, then drop -/
theorem runActs_eq_applyActs (h : WHandle) (w : World) (acts : List Act) :
    C03.runActs h acts w = (applyActs h w acts).1.drop (applyActs h w acts).2 := by
  induction acts generalizing h w with
  | nil => rfl
  | cons a rest ih => simp only [C03.runActs, applyActs, ih]

theorem runActs_append (h : WHandle) (w : World) (a b : List Act) :
    C03.runActs h (a ++ b) w = C03.runActs (applyActs h w a).1 b (applyActs h w a).2 := by
  rw [runActs_eq_applyActs, applyActs_append, ← runActs_eq_applyActs]

/-- a seek that fails changes neither the handle nor the world — for EVERY kind of handle -/
theorem seek_fail_noop (h : WHandle) (s : SeekFrom) (w : World)
    (hf : (h.seek s w).1.isOk = false) : (C03.HAct.seek s).apply h w = (h, w) := by
  have hw : (h.seek s w).2 = w := by
    unfold WHandle.seek
    cases cursorSeek (h.fileLen w) h.pos s <;> rfl
  show (match h.seek s w with
    | (.ok (_, h'), w') => (h', w')
    | (_, w') => (h, w')) = (h, w)
  cases hres : h.seek s w with
  | mk r w' =>
    rw [hres] at hf hw
    simp only at hw
    subst hw
    cases r with
    | ok a => simp [Res.isOk] at hf
    | err k p => rfl
    | panic => rfl

/-- no seek changes the world (it only moves the handle) -/
theorem seek_world (h : WHandle) (s : SeekFrom) (w : World) :
    ((C03.HAct.seek s).apply h w).2 = w := by
  show (match h.seek s w with
    | (.ok (_, h'), w') => (h', w')
    | (_, w') => (h, w')).2 = w
  unfold WHandle.seek
  cases cursorSeek (h.fileLen w) h.pos s <;> rfl

/-! ### the content of a path in a memory map -/

/-- `m` has at `p`: nothing (`none`) / a FILE with exactly these bytes (`some bs`) -/
def Holds (m : FMap) (p : Str) : Option Bytes → Prop
  | none => m.find? p = none
  | some bs => ∃ e, m.find? p = some e ∧ e.ftype = .file ∧ e.content = bs

theorem Holds.unique {m : FMap} {p : Str} {a b : Option Bytes} (ha : Holds m p a)
    (hb : Holds m p b) : a = b := by
  cases a with
  | none =>
    cases b with
    | none => rfl
    | some y => obtain ⟨e, he, _⟩ := hb; simp only [Holds] at ha; rw [ha] at he; cases he
  | some x =>
    obtain ⟨e, he, _, hc⟩ := ha
    cases b with
    | none => simp only [Holds] at hb; rw [hb] at he; cases he
    | some y =>
      obtain ⟨e', he', _, hc'⟩ := hb
      rw [he] at he'; injection he' with he'; subst he'
      rw [← hc, ← hc']

/-- maps that agree at `p` hold the same there -/
theorem Holds.congr {m m' : FMap} {p : Str} {c : Option Bytes} (h : Holds m p c)
    (heq : m'.find? p = m.find? p) : Holds m' p c := by
  cases c with
  | none => simp only [Holds] at h ⊢; rw [heq]; exact h
  | some bs => obtain ⟨e, he, hf, hc⟩ := h; exact ⟨e, by rw [heq]; exact he, hf, hc⟩

theorem find?_memPublish_ne' (m : FMap) (k k' : Str) (buf : Bytes) (hk : k' ≠ k) :
    (memPublish m k buf).find? k' = m.find? k' := by
  unfold memPublish
  split
  · split
    · exact FMap.find?_insert_ne _ _ _ _ hk
    · rfl
  · rfl

theorem holds_memPublish {m : FMap} {p : Str} {e : Entry} (he : m.find? p = some e)
    (hf : e.ftype = .file) (buf : Bytes) :
    ∃ e', (memPublish m p buf).find? p = some e' ∧ e'.ftype = .file ∧ e'.content = buf ∧
      e'.created = e.created ∧ e'.accessed = e.accessed := by
  unfold memPublish
  simp only [he, hf, ↓reduceIte]
  exact ⟨_, FMap.find?_insert_self _ _ _, rfl, rfl, rfl, rfl⟩

/-! ### a session through an in-memory handle -/

section mem
variable {i : Nat} {p : Str}

/-- the in-memory write handle on key `p` of leaf `i` -/
abbrev memH (i : Nat) (p : Str) (buf : Bytes) (pos : Nat) : WHandle :=
  { leaf := i, key := p, kind := .memFile, buf := buf, pos := pos }

theorem apply_write_mem (buf : Bytes) (pos : Nat) (bs : Bytes) (w : World) :
    (C03.HAct.write bs).apply (memH i p buf pos) w =
      (memH i p (specWrite buf pos bs) (pos + bs.length), w) := by
  rw [specWrite_eq_cursorWrite]; rfl

theorem apply_seek_mem (buf : Bytes) (pos : Nat) (s : SeekFrom) (w : World) :
    (C03.HAct.seek s).apply (memH i p buf pos) w =
      (memH i p buf (specStep (buf, pos) (.seek s)).2, w) := by
  show (match (memH i p buf pos).seek s w with
    | (.ok (_, h'), w') => (h', w')
    | (_, w') => (memH i p buf pos, w')) = _
  unfold WHandle.seek WHandle.fileLen specStep
  simp only [specSeek_eq_cursorSeek]
  cases specSeek buf.length pos s <;> rfl

theorem apply_flush_mem {m : FMap} {w : World} (h : MemLeafAt w i m) (buf : Bytes) (pos : Nat) :
    C03.HAct.flush.apply (memH i p buf pos) w =
      (memH i p buf pos, w.setLeafFiles i (memPublish m p buf)) := by
  unfold MemLeafAt at h
  show (memH i p buf pos, ((memH i p buf pos).flush w).2) = _
  unfold WHandle.flush
  simp only [h]

theorem drop_mem {m : FMap} {w : World} (h : MemLeafAt w i m) (buf : Bytes) (pos : Nat) :
    (memH i p buf pos).drop w = (.ok (), w.setLeafFiles i (memPublish m p buf)) := by
  unfold MemLeafAt at h
  unfold WHandle.drop WHandle.flush
  simp only [h]

/-- the state of an in-memory handle after some actions: its buffer and position are the
specification's; the world differs only in the map of leaf `i`, which differs only at `p`, where a
file still sits; if the script contains a flush the file holds the buffer as of the LAST flush -/
theorem applyActs_mem {m : FMap} {w : World} (h : MemLeafAt w i m) (e : Entry)
    (he : m.find? p = some e) (hf : e.ftype = .file) (buf : Bytes) (pos : Nat) (acts : List Act) :
    ∃ m', applyActs (memH i p buf pos) w acts =
        (memH i p (specRun buf pos acts).1 (specRun buf pos acts).2, w.setLeafFiles i m') ∧
      (∃ e', m'.find? p = some e' ∧ e'.ftype = .file ∧ e'.created = e.created ∧
        e'.accessed = e.accessed) ∧
      (∀ k, k ≠ p → m'.find? k = m.find? k) := by
  induction acts generalizing buf pos m w e with
  | nil => exact ⟨m, by rw [h.same]; rfl, ⟨e, he, hf, rfl, rfl⟩, fun _ _ => rfl⟩
  | cons a rest ih =>
    cases a with
    | write bs =>
      obtain ⟨m', h1, h2, h3⟩ := ih h e he hf (specWrite buf pos bs) (pos + bs.length)
      exact ⟨m', by rw [applyActs, apply_write_mem]; exact h1, h2, h3⟩
    | seek s =>
      obtain ⟨m', h1, h2, h3⟩ := ih h e he hf buf (specStep (buf, pos) (.seek s)).2
      refine ⟨m', ?_, h2, h3⟩
      rw [applyActs, apply_seek_mem]
      simp only
      rw [h1, specRun_cons]
      have : (specStep (buf, pos) (.seek s)).1 = buf := by
        unfold specStep; simp only; split <;> rfl
      rw [this]
    | flush =>
      obtain ⟨e1, he1, hf1, _, hcr, hac⟩ := holds_memPublish he hf buf
      obtain ⟨m', h1, ⟨e', he', hf', hcr', hac'⟩, h3⟩ :=
        ih (h.set (memPublish m p buf)) e1 he1 hf1 buf pos
      refine ⟨m', ?_, ⟨e', he', hf', by rw [hcr', hcr], by rw [hac', hac]⟩, ?_⟩
      · rw [applyActs, apply_flush_mem h]
        simp only
        rw [h1, World.setLeafFiles_twice]
        rfl
      · intro k hk
        rw [h3 k hk, find?_memPublish_ne' _ _ _ _ hk]

/-- **one session through an in-memory handle** (any writes, seeks and flushes, then drop):
success; the world differs only in the map of leaf `i`; that map differs only at `p`; at `p`
sits a file whose bytes are exactly the specification's -/
theorem runActs_mem {m : FMap} {w : World} (h : MemLeafAt w i m) (e : Entry)
    (he : m.find? p = some e) (hf : e.ftype = .file) (buf : Bytes) (pos : Nat) (acts : List Act) :
    ∃ m', C03.runActs (memH i p buf pos) acts w = (.ok (), w.setLeafFiles i m') ∧
      (∃ e', m'.find? p = some e' ∧ e'.ftype = .file ∧ e'.content = (specRun buf pos acts).1 ∧
        e'.created = e.created ∧ e'.accessed = e.accessed) ∧
      (∀ k, k ≠ p → m'.find? k = m.find? k) := by
  obtain ⟨m1, h1, ⟨e1, he1, hf1, hcr1, hac1⟩, h3⟩ := applyActs_mem h e he hf buf pos acts
  obtain ⟨e2, he2, hf2, hc2, hcr2, hac2⟩ := holds_memPublish he1 hf1 (specRun buf pos acts).1
  refine ⟨memPublish m1 p (specRun buf pos acts).1, ?_,
    ⟨e2, he2, hf2, hc2, by rw [hcr2, hcr1], by rw [hac2, hac1]⟩, ?_⟩
  · rw [runActs_eq_applyActs, h1]
    simp only
    rw [drop_mem (h.set m1), World.setLeafFiles_twice]
  · intro k hk
    rw [find?_memPublish_ne' _ _ _ _ hk, h3 k hk]

end mem

/-! ### sessions at the path level -/

/-- the model side of a session on the path `P`: `create_file` / `append_file`, the actions, drop
(`Op.writeSession` / `Op.appendSession` of Props/C03Stack.lean) -/
def Session.op (P : VPath) : Session → C03.Op
  | .create acts => .writeSession P acts
  | .append acts => .appendSession P acts

def Session.run (P : VPath) (s : Session) : M Unit := (s.op P).run

/-- any list of sessions on the same path, whatever their outcomes: the world afterwards -/
def runSessions (P : VPath) : List Session → World → World
  | [], w => w
  | s :: rest, w => runSessions P rest (s.run P w).2

theorem runSessions_append (P : VPath) (a b : List Session) (w : World) :
    runSessions P (a ++ b) w = runSessions P b (runSessions P a w) := by
  induction a generalizing w with
  | nil => rfl
  | cons s rest ih => simp only [List.cons_append, runSessions, ih]

theorem Session.run_create (P : VPath) (acts : List Act) :
    (Session.create acts).run P = (do let h ← P.createFile; C03.runActs h acts) := rfl

theorem Session.run_append (P : VPath) (acts : List Act) :
    (Session.append acts).run P = (do let h ← P.appendFile; C03.runActs h acts) := rfl

/-- a session never fails once the handle is open: `runActs` always answers `Ok` (errors of
single actions are per-action outcomes; the drop cannot fail) -/
theorem runActs_ok (h : WHandle) (acts : List Act) (w : World) : (C03.runActs h acts w).1 = .ok () := by
  rw [runActs_eq_applyActs]
  unfold WHandle.drop WHandle.flush
  split
  · split <;> rfl
  · rfl

end Vfs.C04
