/-
  CONFINEMENT AS A FRAME for overlays over re-rooted memory leaves (altroot layers and
  sub-directory layers) — the simulations of Props/C07Subtree.lean (`overlay_over_subtrees`) and
  Props/C09Subdir.lean (`overlay_over_subdirs`) STRENGTHENED by the unary invariant

      `OutsideAll spec m0 w` : for every leaf `i` with `spec i = .sub P`, leaf `i` of `w` is a
                               memory leaf that agrees with `m0 i` on EVERY key that is not at or
                               below `P` (`stripP P k = none`).

  (the construction of Proofs/AltrootFrameT.lean, which lives on the other side of the
  TransferLemmas / OverlayLemmas name clash and treats ONE leaf; here: all re-rooted leaves at once,
  which is what an overlay with several layers needs.)

  * `Outside`, `onLeaf_outside`, `handleOK_outside`, `leafFS_presAt_outside`: as in
    Proofs/AltrootFrameT.lean (restated here under `Vfs.Frm`).
  * `OutsideAll`, `presAt_all`, `leafFS_presAt_all`: the leaf filesystem `i`, called at or below
    its `P`, preserves `OutsideAll` (its own leaf: `touch_*`; other leaves: not touched at all).
  * `RFA spec m0 := RSub spec ∧ OutsideAll spec m0 (left world)`, `SimM.strengthen`,
    `simHandles_frameAll`, `altroot_sim_frameAll`, and
    `overlay_over_subtrees_frame`: the overlay over ALTROOT layers is `SimFS`-related to the overlay
    over the roots of the sub-maps ALSO for the strengthened relation — so every run of every
    method (and, by Proofs/Sim.lean, of every `VfsPath` operation) keeps all keys outside the
    `P_k` in every layer leaf.
  * `outsideAll_init`: the invariant holds initially with `m0 := filesOf w1`.
  Hypotheses: `SubSpec`, pairwise distinct layer identities. The same strengthening for
  SUB-DIRECTORY layers used directly (`subLayers`) is in Proofs/OverlayFrameSubdir.lean (it needs
  the unary counterparts of `createDirAll_shift` / `readDirK_shift` / `copyFile_shift` of
  Proofs/OverlayShift.lean). NOT PROVED: physical leaves.
-/
import VfsModel.Props.C09Subdir
set_option linter.unusedVariables false
set_option linter.unusedSectionVars false
set_option linter.unusedSimpArgs false
namespace Vfs.Frm
open Vfs

/-- leaf `i` is a memory leaf that agrees with `m0` on every key that is not at or below `P` -/
def Outside (i : Nat) (P : Str) (m0 : FMap) (w : World) : Prop :=
  ∃ l, w.leaf? i = some l ∧ l.kind = .mem ∧
    ∀ k, stripP P k = none → l.files.find? k = m0.find? k

theorem ne_of_strip {P k p q : Str} (hk : stripP P k = none) (hp : stripP P p = some q) :
    k ≠ p := by
  intro h; rw [h, hp] at hk; cases hk

theorem strip_below {ps : List Str} (hps : ∀ c ∈ ps, GoodComp c) {p : Str} (hb : BelowC ps p) :
    ∃ q, stripP (renderC ps) p = some q := by
  obtain ⟨qs, hqs, rfl⟩ := hb
  rw [renderC_append]
  exact ⟨_, stripP_append _ _ (Canon.rooted ⟨qs, hqs, rfl⟩)⟩

section outside
variable {i : Nat} {P : Str} {m0 : FMap}

theorem Outside.init {w : World} {m : FMap} (h : MemLeafAt w i m) : Outside i P m w :=
  ⟨_, h, rfl, fun _ _ => rfl⟩

theorem Outside.leafAt {w : World} (h : Outside i P m0 w) :
    ∃ m', MemLeafAt w i m' ∧ ∀ k, stripP P k = none → m'.find? k = m0.find? k := by
  obtain ⟨l, h1, h2, h3⟩ := h
  refine ⟨l.files, ?_, h3⟩
  unfold MemLeafAt
  rw [h1]
  cases l with
  | mk kind files => simp at h2; subst h2; rfl

/-- replacing the files of leaf `j` by files that agree outside `P` (when `j = i`) -/
theorem Outside.set {w : World} (hw : Outside i P m0 w) (j : Nat) (f' : FMap)
    (hf : j = i → ∀ l, w.leaf? i = some l → ∀ k, stripP P k = none →
      f'.find? k = l.files.find? k) :
    Outside i P m0 (w.setLeafFiles j f') := by
  obtain ⟨l, h1, h2, h3⟩ := hw
  by_cases hj : j = i
  · subst hj
    refine ⟨{ l with files := f' }, World.setLeafFiles_same w j l f' h1, h2, fun k hk => ?_⟩
    show f'.find? k = _
    rw [hf rfl l h1 k hk]; exact h3 k hk
  · exact ⟨l, by rw [World.leaf?_setLeafFiles_ne w j i f' hj]; exact h1, h2, h3⟩

theorem onLeaf_outside {α} (f : Leaf → Res α × FMap)
    (hf : ∀ l, l.kind = .mem → ∀ k, stripP P k = none → (f l).2.find? k = l.files.find? k) :
    Preserves (Outside i P m0) (onLeaf i f) := by
  refine ⟨fun w hw => ?_⟩
  obtain ⟨l, h1, h2, h3⟩ := hw
  unfold onLeaf
  rw [h1]
  show Outside i P m0 (w.setLeafFiles i (f l).2)
  refine Outside.set ⟨l, h1, h2, h3⟩ i _ (fun _ l' hl' k hk => ?_)
  rw [h1] at hl'; injection hl' with hl'; subst hl'
  exact hf l h2 k hk

/-- a write handle on leaf `i` with its key at or below `P`, or on another leaf -/
theorem handleOK_outside (h : WHandle) (hk : h.leaf = i → ∃ q, stripP P h.key = some q) :
    HandleOK (Outside i P m0) h := by
  have key : ∀ (w : World) (l : Leaf) (v : Entry), Outside i P m0 w → w.leaf? h.leaf = some l →
      Outside i P m0 (w.setLeafFiles h.leaf (l.files.insert h.key v)) := by
    intro w l v hw hl
    refine hw.set _ _ (fun hj l' hl' k hk0 => ?_)
    rw [hj] at hl; rw [hl] at hl'; injection hl' with hl'; subst hl'
    obtain ⟨q, hq⟩ := hk hj
    exact Touch.insert h.key l.files v k (ne_of_strip hk0 hq)
  intro buf pos
  constructor
  · intro bs
    refine ⟨fun w hw => ?_⟩
    unfold WHandle.write
    dsimp only
    cases h.kind <;> dsimp only
    · exact hw
    · cases hl : w.leaf? h.leaf with
      | none => exact hw
      | some l =>
        dsimp only
        cases hf : l.files.find? h.key with
        | none => exact hw
        | some e => exact key w l _ hw hl
    · cases hl : w.leaf? h.leaf with
      | none => exact hw
      | some l =>
        dsimp only
        cases hf : l.files.find? h.key with
        | none => exact hw
        | some e => exact key w l _ hw hl
  · refine ⟨fun w hw => ?_⟩
    unfold WHandle.flush
    dsimp only
    cases h.kind <;> dsimp only
    · cases hl : w.leaf? h.leaf with
      | none => exact hw
      | some l =>
        dsimp only
        refine hw.set _ _ (fun hj l' hl' k hk0 => ?_)
        rw [hj] at hl; rw [hl] at hl'; injection hl' with hl'; subst hl'
        obtain ⟨q, hq⟩ := hk hj
        exact touch_memPublish l.files h.key buf k (ne_of_strip hk0 hq)
    · exact hw
    · exact hw

theorem seek_world (h : WHandle) (s : SeekFrom) (w : World) : (h.seek s w).2 = w := by
  unfold WHandle.seek
  split <;> rfl

end outside

/-- every method of `leafFS i`, called at or below `/p1/…/pn`, keeps the rest of leaf `i` -/
theorem leafFS_presAt_outside (i : Nat) (ps : List Str) (hps : ∀ c ∈ ps, GoodComp c) (m0 : FMap) :
    (leafFS i).PresAt (Outside i (renderC ps) m0) (BelowC ps) (Ancestor ps) where
  readDir p _ := onLeaf_outside _ (fun l hl k _ => by simp only [hl])
  createDir p hb := onLeaf_outside _ (fun l hl k hk => by
    obtain ⟨q, hq⟩ := strip_below hps hb
    simp only [hl]
    exact touch_createDir l.files p k (ne_of_strip hk hq))
  openFile p hb := onLeaf_outside _ (fun l hl k hk => by
    obtain ⟨q, hq⟩ := strip_below hps hb
    simp only [hl]
    exact touch_openFile l.files p k (ne_of_strip hk hq))
  createFile p hb := onLeaf_outside _ (fun l hl k hk => by
    obtain ⟨q, hq⟩ := strip_below hps hb
    simp only [hl]
    exact touch_createFile l.files p k (ne_of_strip hk hq))
  appendFile p _ := onLeaf_outside _ (fun l hl k _ => by simp only [hl])
  metadata p _ := onLeaf_outside _ (fun l hl k _ => by simp only [hl])
  setCreationTime p t hb := onLeaf_outside _ (fun l hl k hk => by
    obtain ⟨q, hq⟩ := strip_below hps hb
    simp only [hl]
    exact touch_setCreated l.files p _ k (ne_of_strip hk hq))
  setModificationTime p t hb := onLeaf_outside _ (fun l hl k hk => by
    obtain ⟨q, hq⟩ := strip_below hps hb
    simp only [hl]
    exact touch_setModified l.files p _ k (ne_of_strip hk hq))
  setAccessTime p t hb := onLeaf_outside _ (fun l hl k hk => by
    obtain ⟨q, hq⟩ := strip_below hps hb
    simp only [hl]
    exact touch_setAccessed l.files p _ k (ne_of_strip hk hq))
  exists_ p _ := onLeaf_outside _ (fun l hl k _ => by simp only [hl])
  removeFile p hb := onLeaf_outside _ (fun l hl k hk => by
    obtain ⟨q, hq⟩ := strip_below hps hb
    simp only [hl]
    exact touch_removeFile l.files p k (ne_of_strip hk hq))
  removeDir p hb := onLeaf_outside _ (fun l hl k hk => by
    obtain ⟨q, hq⟩ := strip_below hps hb
    simp only [hl]
    exact touch_removeDir l.files p k (ne_of_strip hk hq))
  copyFile s d _ _ := onLeaf_outside _ (fun l hl k _ => by simp only [hl])
  moveFile s d _ _ := onLeaf_outside _ (fun l hl k _ => by simp only [hl])
  moveDir s d _ _ := onLeaf_outside _ (fun l hl k _ => by simp only [hl])
  createHandle p hb := by
    apply onLeaf_ret
    intro l a he
    apply handleOK_outside
    intro _
    cases hk : l.kind <;> simp only [hk] at he
    · cases hc : (Mem.createFile l.files p).1 <;> simp [hc, Res.map] at he
      rw [← he]; exact strip_below hps hb
    · cases hc : (Phys.createFile l.files p).1 <;> simp [hc, Res.map] at he
      rw [← he]; exact strip_below hps hb
  appendHandle p hb := by
    apply onLeaf_ret
    intro l a he
    apply handleOK_outside
    intro _
    cases hk : l.kind <;> simp only [hk] at he
    · cases hc : Mem.appendFile l.files p <;> simp [hc, Res.map] at he
      rw [← he]; exact strip_below hps hb
    · cases hc : Phys.appendFile l.files p <;> simp [hc, Res.map] at he
      rw [← he]; exact strip_below hps hb


/-! ### all re-rooted leaves at once -/

theorem Outside.ignores {i j : Nat} {P : Str} {m0 : FMap} (hij : j ≠ i) :
    IgnoresLeaf (Outside i P m0) j :=
  fun w f hw => hw.set j f (fun h0 => absurd h0 hij)

/-- every re-rooted leaf agrees with `m0` outside its directory -/
def OutsideAll (spec : Nat → Role) (m0 : Nat → FMap) (w : World) : Prop :=
  ∀ i P, spec i = .sub P → Outside i P (m0 i) w

section all
variable {spec : Nat → Role} {m0 : Nat → FMap}

theorem pres_all {α} {m : M α}
    (h : ∀ i P, spec i = .sub P → Preserves (Outside i P (m0 i)) m) :
    Preserves (OutsideAll spec m0) m :=
  ⟨fun w hw i P hi => (h i P hi).pres w (hw i P hi)⟩

theorem handleOK_all {hd : WHandle}
    (h : ∀ i P, spec i = .sub P → HandleOK (Outside i P (m0 i)) hd) :
    HandleOK (OutsideAll spec m0) hd := by
  intro buf pos
  exact ⟨fun bs => pres_all (fun i P hi => ((h i P hi) buf pos).1 bs),
    pres_all (fun i P hi => ((h i P hi) buf pos).2)⟩

theorem returns_all {m : M WHandle}
    (h : ∀ i P, spec i = .sub P → Returns m (HandleOK (Outside i P (m0 i)))) :
    Returns m (HandleOK (OutsideAll spec m0)) :=
  ⟨fun w a he => handleOK_all (fun i P hi => (h i P hi).post w a he)⟩

theorem presAt_all {fs : FS} {B A : Str → Prop}
    (h : ∀ i P, spec i = .sub P → fs.PresAt (Outside i P (m0 i)) B A) :
    fs.PresAt (OutsideAll spec m0) B A where
  readDir p hp := pres_all (fun i P hi => (h i P hi).readDir p hp)
  createDir p hp := pres_all (fun i P hi => (h i P hi).createDir p hp)
  openFile p hp := pres_all (fun i P hi => (h i P hi).openFile p hp)
  createFile p hp := pres_all (fun i P hi => (h i P hi).createFile p hp)
  appendFile p hp := pres_all (fun i P hi => (h i P hi).appendFile p hp)
  metadata p hp := pres_all (fun i P hi => (h i P hi).metadata p hp)
  setCreationTime p t hp := pres_all (fun i P hi => (h i P hi).setCreationTime p t hp)
  setModificationTime p t hp := pres_all (fun i P hi => (h i P hi).setModificationTime p t hp)
  setAccessTime p t hp := pres_all (fun i P hi => (h i P hi).setAccessTime p t hp)
  exists_ p hp := pres_all (fun i P hi => (h i P hi).exists_ p hp)
  removeFile p hp := pres_all (fun i P hi => (h i P hi).removeFile p hp)
  removeDir p hp := pres_all (fun i P hi => (h i P hi).removeDir p hp)
  copyFile s d hs hd := pres_all (fun i P hi => (h i P hi).copyFile s d hs hd)
  moveFile s d hs hd := pres_all (fun i P hi => (h i P hi).moveFile s d hs hd)
  moveDir s d hs hd := pres_all (fun i P hi => (h i P hi).moveDir s d hs hd)
  createHandle p hp := returns_all (fun i P hi => (h i P hi).createHandle p hp)
  appendHandle p hp := returns_all (fun i P hi => (h i P hi).appendHandle p hp)

/-- the leaf filesystem `i`, called at or below its own directory, keeps every re-rooted leaf
unchanged outside its directory -/
theorem leafFS_presAt_all {i : Nat} {ps : List Str} (hi : spec i = .sub (renderC ps))
    (hps : ∀ c ∈ ps, GoodComp c) :
    (leafFS i).PresAt (OutsideAll spec m0) (BelowC ps) (Ancestor ps) := by
  refine presAt_all (fun j P hj => ?_)
  by_cases hji : j = i
  · subst hji
    rw [hi] at hj
    injection hj with hj
    subst hj
    exact leafFS_presAt_outside j ps hps (m0 j)
  · exact (leafFS_all_preserve i (Outside.ignores (fun h0 => hji h0.symm))).presAt _ _

/-- the invariant holds initially, with `m0` = the files of the world itself -/
def filesOf (w : World) : Nat → FMap := fun i => ((w.leaf? i).map (·.files)).getD []

theorem outsideAll_init {w1 w2 : World} (hr : RSub spec w1 w2) :
    OutsideAll spec (filesOf w1) w1 := by
  intro i P hi
  obtain ⟨m1, a1, _, _⟩ := hr.leafAt hi
  have : filesOf w1 i = m1 := by
    unfold filesOf; unfold MemLeafAt at a1; rw [a1]; rfl
  rw [this]
  exact Outside.init a1

/-! ### the strengthened simulation -/

/-- the sub-map relation, plus: every re-rooted leaf of the left world agrees with `m0` outside
its directory -/
def RFA (spec : Nat → Role) (m0 : Nat → FMap) (w1 w2 : World) : Prop :=
  RSub spec w1 w2 ∧ OutsideAll spec m0 w1

/-- a unary invariant of the left computation is carried along a simulation -/
theorem _root_.Vfs.SimM.strengthen {α β : Type} {R : World → World → Prop}
    {PR : Option Str → Option Str → Prop} {Q : α → β → Prop} {I : World → Prop}
    {m1 : M α} {m2 : M β} (h : SimM R PR Q m1 m2) (hp : ∀ w, I w → I (m1 w).2) :
    SimM (fun a b => R a b ∧ I a) PR Q m1 m2 :=
  fun w1 w2 hr => ⟨(h w1 w2 hr.1).1, (h w1 w2 hr.1).2, hp w1 hr.2⟩

theorem hsub_key {i : Nat} {P : Str} (hi : spec i = .sub P)
    {h1 h2 : WHandle} (h : HSub spec h1 h2) : h1.leaf = i → ∃ q, stripP P h1.key = some q := by
  intro hl
  obtain ⟨_, _, _, _, hk⟩ := h
  rw [hl, hi] at hk
  obtain ⟨hk1, hk2, _⟩ := hk
  exact ⟨h2.key, by rw [hk1]; exact stripP_append _ _ hk2.rooted⟩

theorem hsub_handleOK {h1 h2 : WHandle} (h : HSub spec h1 h2) :
    HandleOK (OutsideAll spec m0) h1 :=
  handleOK_all (fun i P hi => handleOK_outside h1 (hsub_key hi h))

variable (spec m0) in
theorem simHandles_frameAll : SimHandles (RFA spec m0) PRdrop (HSub spec) where
  write h1 h2 bs h :=
    SimM.strengthen ((simHandles_sub spec).write h1 h2 bs h)
      (fun w hw => (((hsub_handleOK h) h1.buf h1.pos).1 bs).pres w hw)
  flush h1 h2 h :=
    SimM.strengthen ((simHandles_sub spec).flush h1 h2 h)
      (fun w hw => (((hsub_handleOK h) h1.buf h1.pos).2).pres w hw)
  seek h1 h2 s h :=
    SimM.strengthen ((simHandles_sub spec).seek h1 h2 s h)
      (fun w hw => by rw [seek_world]; exact hw)

/-- **the altroot is simulated by the sub-leaf AND every re-rooted leaf keeps everything outside
its directory** -/
theorem altroot_sim_frameAll {i : Nat} {P : Str} (hi : spec i = .sub P)
    (hP : Canon P) (id : Nat) :
    SimFS (RFA spec m0) PRdrop (HSub spec)
      (Altroot.fs { fs := leafFS i, fsId := id, path := P }) (leafFS i) := by
  have hS := altroot_sim_leaf hi hP id
  obtain ⟨ps, hps, rfl⟩ := hP
  have hA : (Altroot.fs { fs := leafFS i, fsId := id, path := renderC ps }).PresAt
      (OutsideAll spec m0) Canon (fun _ => False) :=
    Altroot.presAt _ ps rfl hps (leafFS_presAt_all hi hps)
  exact
    { base :=
        { readDir := fun p hp => (hS.base.readDir p hp).strengthen (hA.readDir p hp).pres
          createDir := fun p hp hne =>
            (hS.base.createDir p hp hne).strengthen (hA.createDir p hp).pres
          openFile := fun p hp => (hS.base.openFile p hp).strengthen (hA.openFile p hp).pres
          createFile := fun p hp => (hS.base.createFile p hp).strengthen (hA.createFile p hp).pres
          appendFile := fun p hp => (hS.base.appendFile p hp).strengthen (hA.appendFile p hp).pres
          metadata := fun p hp =>
            (hS.base.metadata p hp).strengthen (hA.metadata p (Or.inl hp)).pres
          setCreationTime := fun p t hp =>
            (hS.base.setCreationTime p t hp).strengthen (hA.setCreationTime p t hp).pres
          setModificationTime := fun p t hp =>
            (hS.base.setModificationTime p t hp).strengthen (hA.setModificationTime p t hp).pres
          setAccessTime := fun p t hp =>
            (hS.base.setAccessTime p t hp).strengthen (hA.setAccessTime p t hp).pres
          exists_ := fun p hp =>
            (hS.base.exists_ p hp).strengthen (hA.exists_ p (Or.inl hp)).pres
          removeFile := fun p hp => (hS.base.removeFile p hp).strengthen (hA.removeFile p hp).pres
          removeDir := fun p hp hne =>
            (hS.base.removeDir p hp hne).strengthen (hA.removeDir p hp).pres
          moveFile := fun s d hs hd =>
            (hS.base.moveFile s d hs hd).strengthen (hA.moveFile s d hs hd).pres
          moveDir := fun s d hs hd =>
            (hS.base.moveDir s d hs hd).strengthen (hA.moveDir s d hs hd).pres }
      copyFileV := fun id' s d hs hd =>
        (hS.copyFileV id' s d hs hd).strengthen
          (Vfs.VPath.presAt_copyFile
            { fs := Altroot.fs { fs := leafFS i, fsId := id, path := renderC ps }, fsId := id',
              path := s }
            { fs := Altroot.fs { fs := leafFS i, fsId := id, path := renderC ps }, fsId := id',
              path := d } rfl hA hs hd (Or.inl (C06.parent_canonical _ hd))).pres }

open Vfs.C07 Vfs.C09 in
theorem altLayers_relF {is idrs ids : List Nat} {Ps : List Str}
    (h : SubSpec spec is idrs ids Ps) :
    ListRel (SimVPath (RFA spec m0) PRdrop (HSub spec)) (altLayers is idrs ids Ps)
      (layersN is ids) := by
  induction h with
  | nil => exact .nil
  | cons hi hP _ ih =>
    exact .cons ⟨altroot_sim_frameAll hi hP _, rfl, rfl, C06.root_canonical⟩ ih

open Vfs.C07 Vfs.C09 in
/-- **overlays over altroot layers, with the frame**: `C07.overlay_over_subtrees` for the
strengthened relation -/
theorem overlay_over_subtrees_frame {is idrs ids : List Nat} {Ps : List Str}
    (h : SubSpec spec is idrs ids Ps) (hne : is ≠ []) (hn : ids.Nodup) :
    SimFS (RFA spec m0) PRdrop (HSub spec) (Overlay.fs (altLayers is idrs ids Ps))
      (Overlay.fs (layersN is ids)) := by
  refine Overlay.sim_fs (altLayers_relF h) ?_ (simHandles_frameAll spec m0) (altLayers_ok hn)
    (layersN_ok hn)
  cases h with
  | nil => exact absurd rfl hne
  | cons _ _ _ => simp [altLayers]

end all

end Vfs.Frm
