/-
  A PLAIN memory filesystem inside the sub-map relation of Proofs/SubtreeSimT.lean: a leaf whose
  role is `.sub ""` (re-rooted at its own root — nothing is cut off when its keys are rooted) is
  `SimFS`-related to itself. This is what lets a `VfsPath` operation with TWO filesystems — an
  altroot over leaf `i` and a plain memory filesystem on leaf `j` — be transferred along the
  simulation (Props/C11Altroot.lean: copy_dir / move_dir from an altroot to another filesystem).

  * `sub_nil_eq`        : `sub "" m = m` when every key of `m` is `""` or begins with '/'.
  * `leafFS_sim_root`   : `spec j = .sub ""` ⟹ `SimFS (RSub spec) PRdrop (HSub spec) (leafFS j)
                          (leafFS j)` (the `leaf_*` lemmas at `P = ""`; `copy_file`, `move_file`,
                          `move_dir` are `NotSupported` on both sides).
  * `ancOK_nil`, `specTwo`, `rsub_two`: the relation for a world with an altroot directory `P`
    on leaf `i` and a plain leaf `j ≠ i` with canonical keys: the right world differs from the
    left one only in leaf `i` (it holds `sub P m`).
  Everything lives in the namespace `Vfs.T` (see Proofs/SimT.lean for why).
-/
import VfsModel.Proofs.AltrootFrameT
set_option linter.unusedVariables false
set_option linter.unusedSectionVars false
set_option linter.unusedSimpArgs false
namespace Vfs.T
open Vfs Vfs.T.C07

theorem sub_nil_eq (m : FMap) (h : ∀ k ∈ m.keys, Rooted k) : sub [] m = m := by
  induction m with
  | nil => rfl
  | cons kv rest ih =>
    obtain ⟨k, v⟩ := kv
    have hk : Rooted k := h k (by simp [FMap.keys])
    have hs : stripP [] k = some k := stripP_append [] k hk
    rw [sub_cons_some v rest hs, ih (fun k' hk' => h k' (by simp [FMap.keys] at hk' ⊢; exact Or.inr hk'))]

theorem ancOK_nil (m : FMap) : AncOK [] m := by
  intro ps hps hP j hj
  have : ps = [] := by
    cases ps with
    | nil => rfl
    | cons c cs => simp at hP
  subst this
  simp at hj

section root
variable {spec : Nat → Role} {j : Nat} (hj : spec j = .sub [])
include hj

theorem leafFS_sim_root0 : SimFS0 (RSub spec) PRdrop (HSub spec) (leafFS j) (leafFS j) where
  readDir q hq := (leaf_readDir hj hq).toDrop
  createDir q hq hne := (leaf_createDir hj hq hne).toDrop
  openFile q hq := (leaf_openFile hj hq).toDrop
  createFile q hq := by
    by_cases hne : q = []
    · subst hne
      intro w1 w2 hr
      obtain ⟨m1, h1, h2, hinv⟩ := hr.leafAt hj
      obtain ⟨e, he, hd⟩ := hinv.1
      have he1 := he
      rw [find?_sub [] m1 [] (Or.inl rfl)] at he1
      rw [run_createFile h1, run_createFile h2, createFile_on_dir m1 [] e he1 hd,
        createFile_on_dir (sub [] m1) [] e he hd]
      exact ⟨.err (Or.inr rfl), hr.set hj _ _ rfl hinv (hr.ancAt hj h1)⟩
    · exact (leaf_createFile hj hq hne).toDrop
  appendFile q hq := (leaf_appendFile hj hq).toDrop
  metadata q hq := (leaf_metadata hj hq).toDrop
  setCreationTime q t hq := (leaf_setCreationTime hj hq t).toDrop
  setModificationTime q t hq := (leaf_setModificationTime hj hq t).toDrop
  setAccessTime q t hq := (leaf_setAccessTime hj hq t).toDrop
  exists_ q hq := (leaf_exists hj hq).toDrop
  removeFile q hq := (leaf_removeFile hj hq).toDrop
  removeDir q hq hne := (leaf_removeDir hj hq hne).toDrop
  moveFile s d _ _ := by
    intro w1 w2 hr
    obtain ⟨m1, h1, h2, hinv⟩ := hr.leafAt hj
    show RelRes _ _ (onLeaf j _ w1).1 (onLeaf j _ w2).1 ∧ RSub spec (onLeaf j _ w1).2 (onLeaf j _ w2).2
    rw [run_onLeaf h1, run_onLeaf h2]
    exact ⟨.err (Or.inl rfl), by rw [h1.same, h2.same]; exact hr⟩
  moveDir s d _ _ := by
    intro w1 w2 hr
    obtain ⟨m1, h1, h2, hinv⟩ := hr.leafAt hj
    show RelRes _ _ (onLeaf j _ w1).1 (onLeaf j _ w2).1 ∧ RSub spec (onLeaf j _ w1).2 (onLeaf j _ w2).2
    rw [run_onLeaf h1, run_onLeaf h2]
    exact ⟨.err (Or.inl rfl), by rw [h1.same, h2.same]; exact hr⟩

/-- **a plain memory filesystem (role `.sub ""`) is related to itself** -/
theorem leafFS_sim_root : SimFS (RSub spec) PRdrop (HSub spec) (leafFS j) (leafFS j) :=
  SimFS.of_strong (simHandles_sub spec) (leafFS_sim_root0 hj) (fun s d _ _ => by
    intro w1 w2 hr
    obtain ⟨m1, h1, h2, hinv⟩ := hr.leafAt hj
    show RelRes _ _ (onLeaf j _ w1).1 (onLeaf j _ w2).1 ∧ RSub spec (onLeaf j _ w1).2 (onLeaf j _ w2).2
    rw [run_onLeaf h1, run_onLeaf h2]
    exact ⟨.err (Or.inl rfl), by rw [h1.same, h2.same]; exact hr⟩)

end root

/-- leaf `i` is re-rooted at `P`, leaf `j` at its own root, the others are free -/
def specTwo (i : Nat) (P : Str) (j : Nat) : Nat → Role :=
  fun l => if l = i then .sub P else if l = j then .sub [] else .free

theorem specTwo_i (i : Nat) (P : Str) (j : Nat) : specTwo i P j i = .sub P := by
  unfold specTwo; rw [if_pos rfl]

theorem specTwo_j {i j : Nat} (P : Str) (h : j ≠ i) : specTwo i P j j = .sub [] := by
  unfold specTwo; rw [if_neg h, if_pos rfl]

theorem specTwo_other {i j l : Nat} (P : Str) (h1 : l ≠ i) (h2 : l ≠ j) :
    specTwo i P j l = .free := by
  unfold specTwo; rw [if_neg h1, if_neg h2]

/-- the relation for the two-filesystem setting: only leaf `i` is replaced (by its sub-map) -/
theorem rsub_two (w : World) (i : Nat) (P : Str) (m : FMap) (h : MemLeafAt w i m)
    (hinv : Inv0 (sub P m)) (hanc : AncOK P m) (j : Nat) (hji : j ≠ i) (md : FMap)
    (hj : MemLeafAt w j md) (hroot : ∃ e, md.find? [] = some e ∧ e.ftype = .dir)
    (hcan : ∀ k ∈ md.keys, Canon k) :
    RSub (specTwo i P j) w (w.setLeafFiles i (sub P m)) := by
  have hsub : sub [] md = md := sub_nil_eq md (fun k hk => (hcan k hk).rootedT)
  refine ⟨rfl, rfl, rfl, fun l => ?_⟩
  by_cases hl : l = i
  · subst hl
    rw [specTwo_i]
    exact ⟨m, h, h.set _, hinv, hanc⟩
  · rw [World.leaf?_setLeafFiles_ne _ _ _ _ (fun e => hl e.symm)]
    by_cases hl2 : l = j
    · subst hl2
      rw [specTwo_j P hji]
      exact ⟨md, hj, by rw [hsub]; exact hj, by rw [hsub]; exact ⟨hroot, hcan⟩, ancOK_nil md⟩
    · rw [specTwo_other P hl hl2]
      rfl

end Vfs.T
