/-
  Leaf backends as pure functions on `FMap`.
  * `Mem.*`  — MemoryFS (src/impls/memory.rs), code-shaped.
  * `Phys.*` — PhysicalFS (src/impls/physical.rs) over a POSIX host: the OS answers are the
               modelling assumption "the host implements this table"; it doubles as the
               reference specification of C01/C02 (DESIGN.md Appendix A).
  * `leafFS i` — the `FS` record of leaf `i` of the world.
-/
import VfsModel.Handle
namespace Vfs

/-- `candidate.starts_with(path + "/")` and the rest contains no '/': the bare child name -/
def childName (path k : Str) : Option Str :=
  let pre := path ++ ['/']
  if pre.isPrefixOf k then
    let rest := k.drop pre.length
    if '/' ∈ rest then none else some rest
  else none

def dirEntryNow : Entry :=
  { ftype := .dir, content := [], created := .now, modified := .now, accessed := .now }

def fileEntryNow : Entry :=
  { ftype := .file, content := [], created := .now, modified := .now, accessed := .now }

def Entry.meta (e : Entry) : Meta :=
  { ftype := e.ftype, len := e.content.length, created := e.created, modified := e.modified,
    accessed := e.accessed }

namespace Mem

def init : FMap := [([], { ftype := .dir, content := [], created := .now, modified := .unset, accessed := .unset })]

def readDir (m : FMap) (path : Str) : Res (List Str) :=
  match m.find? path with
  | none => fail .fileNotFound
  | some e =>
    if e.ftype = .file then fail .other
    else .ok (m.keys.filterMap (childName path))

/-- `ensure_has_parent` (memory.rs): evaluated under the same write lock as the update; the
parent must be an existing directory -/
def ensureHasParent (m : FMap) (path : Str) : Res Unit :=
  if '/' ∈ path then
    match m.find? (parentInternal path) with
    | some e => if e.ftype = .dir then .ok () else fail .other
    | none => fail .other
  else fail .other

def createDir (m : FMap) (path : Str) : Res Unit × FMap :=
  match ensureHasParent m path with
  | .ok _ =>
    match m.find? path with
    | some e => (if e.ftype = .file then fail .fileExists else fail .dirExists, m)
    | none => (.ok (), m.insert path dirEntryNow)
  | .err k p => (.err k p, m)
  | .panic => (.panic, m)

def setAccessed (m : FMap) (path : Str) (t : TS) : Res Unit × FMap :=
  match m.find? path with
  | none => (fail .fileNotFound, m)
  | some e => (.ok (), m.insert path { e with accessed := t })

def setModified (m : FMap) (path : Str) (t : TS) : Res Unit × FMap :=
  match m.find? path with
  | none => (fail .fileNotFound, m)
  | some e => (.ok (), m.insert path { e with modified := t })

def setCreated (m : FMap) (path : Str) (t : TS) : Res Unit × FMap :=
  match m.find? path with
  | none => (fail .fileNotFound, m)
  | some e => (.ok (), m.insert path { e with created := t })

def openFile (m : FMap) (path : Str) : Res RHandle × FMap :=
  match setAccessed m path .now with
  | (.ok _, m') =>
    match m'.find? path with
    | none => (fail .fileNotFound, m')
    | some e =>
      if e.ftype ≠ .file then (fail .other, m')
      else (.ok { content := e.content, pos := 0 }, m')
  | (.err k p, m') => (.err k p, m')
  | (.panic, m') => (.panic, m')

def createFile (m : FMap) (path : Str) : Res Unit × FMap :=
  match ensureHasParent m path with
  | .ok _ =>
    match m.find? path with
    | some e =>
      if e.ftype = .dir then (fail .other, m) else (.ok (), m.insert path fileEntryNow)
    | none => (.ok (), m.insert path fileEntryNow)
  | .err k p => (.err k p, m)
  | .panic => (.panic, m)

/-- returns the initial buffer of the append writer -/
def appendFile (m : FMap) (path : Str) : Res Bytes :=
  match m.find? path with
  | none => fail .fileNotFound
  | some e => if e.ftype ≠ .file then fail .other else .ok e.content

def metadata (m : FMap) (path : Str) : Res Meta :=
  match m.find? path with
  | none => fail .fileNotFound
  | some e => .ok e.meta

def removeFile (m : FMap) (path : Str) : Res Unit × FMap :=
  match m.find? path with
  | none => (fail .fileNotFound, m)
  | some e => if e.ftype ≠ .file then (fail .other, m) else (.ok (), m.erase path)

def removeDir (m : FMap) (path : Str) : Res Unit × FMap :=
  match readDir m path with
  | .ok l =>
    if l ≠ [] then (fail .other, m)
    else if m.contains path then (.ok (), m.erase path) else (fail .fileNotFound, m)
  | .err k p => (.err k p, m)
  | .panic => (.panic, m)

end Mem

namespace Phys

def init : FMap := [([], { ftype := .dir, content := [], created := .now, modified := .now, accessed := .now })]

/-- proper ancestors of a canonical path string, shortest first ("" included) -/
def ancestors (path : Str) : List Str :=
  ((List.range path.length).filter (fun i => path[i]? = some '/')).map (fun i => path.take i)

/-- path resolution of the host: the first ancestor that is not a directory decides
(`ENOENT` → not-found, `ENOTDIR` → other I/O error) -/
def resolveParent (m : FMap) (path : Str) : Res Unit :=
  match (ancestors path).find? (fun a => match m.find? a with
      | some e => e.ftype ≠ .dir
      | none => true) with
  | none => .ok ()
  | some a => match m.find? a with
    | some _ => fail .io          -- ENOTDIR
    | none => fail .fileNotFound  -- ENOENT

def lookup (m : FMap) (path : Str) : Res (Option Entry) :=
  match resolveParent m path with
  | .ok _ => .ok (m.find? path)
  | .err k p => .err k p
  | .panic => .panic

def children (m : FMap) (path : Str) : List Str := m.keys.filterMap (childName path)

def readDir (m : FMap) (path : Str) : Res (List Str) :=
  match lookup m path with
  | .ok none => fail .fileNotFound
  | .ok (some e) => if e.ftype = .file then fail .io else .ok (children m path)
  | .err k p => .err k p
  | .panic => .panic

def createDir (m : FMap) (path : Str) : Res Unit × FMap :=
  match lookup m path with
  | .ok none => (.ok (), m.insert path dirEntryNow)
  | .ok (some e) => (if e.ftype = .file then fail .fileExists else fail .dirExists, m)
  | .err k p => (.err k p, m)
  | .panic => (.panic, m)

/-- `File::open` succeeds on a directory on Linux; the reads then fail -/
def openFile (m : FMap) (path : Str) : Res RHandle :=
  match lookup m path with
  | .ok none => fail .fileNotFound
  | .ok (some e) =>
    if e.ftype = .dir then .ok { content := [], pos := 0, bad := true }
    else .ok { content := e.content, pos := 0 }
  | .err k p => .err k p
  | .panic => .panic

/-- `File::create`: O_CREAT|O_TRUNC -/
def createFile (m : FMap) (path : Str) : Res Unit × FMap :=
  match lookup m path with
  | .ok none => (.ok (), m.insert path fileEntryNow)
  | .ok (some e) =>
    if e.ftype = .dir then (fail .io, m)
    else (.ok (), m.insert path { e with content := [], modified := .now })
  | .err k p => (.err k p, m)
  | .panic => (.panic, m)

def appendFile (m : FMap) (path : Str) : Res Unit :=
  match lookup m path with
  | .ok none => fail .fileNotFound
  | .ok (some e) => if e.ftype = .dir then fail .io else .ok ()
  | .err k p => .err k p
  | .panic => .panic

def metadata (m : FMap) (path : Str) : Res Meta :=
  match lookup m path with
  | .ok none => fail .fileNotFound
  | .ok (some e) => .ok { e.meta with len := if e.ftype = .dir then 0 else e.content.length }
  | .err k p => .err k p
  | .panic => .panic

/-- `Path::exists`: false on every error -/
def exists_ (m : FMap) (path : Str) : Bool :=
  match lookup m path with
  | .ok (some _) => true
  | _ => false

def removeFile (m : FMap) (path : Str) : Res Unit × FMap :=
  match lookup m path with
  | .ok none => (fail .fileNotFound, m)
  | .ok (some e) => if e.ftype = .dir then (fail .io, m) else (.ok (), m.erase path)
  | .err k p => (.err k p, m)
  | .panic => (.panic, m)

def removeDir (m : FMap) (path : Str) : Res Unit × FMap :=
  match lookup m path with
  | .ok none => (fail .fileNotFound, m)
  | .ok (some e) =>
    if e.ftype = .file then (fail .io, m)
    else if children m path ≠ [] then (fail .io, m)
    else (.ok (), m.erase path)
  | .err k p => (.err k p, m)
  | .panic => (.panic, m)

def setTime (upd : Entry → Entry) (m : FMap) (path : Str) : Res Unit × FMap :=
  match lookup m path with
  | .ok none => (fail .fileNotFound, m)
  | .ok (some e) => (.ok (), m.insert path (upd e))
  | .err k p => (.err k p, m)
  | .panic => (.panic, m)

/-- `std::fs::copy` -/
def copyFile (m : FMap) (src dst : Str) : Res Unit × FMap :=
  match lookup m src with
  | .ok none => (fail .fileNotFound, m)
  | .ok (some e) =>
    if e.ftype = .dir then (fail .io, m)
    else match lookup m dst with
      | .ok none => (.ok (), m.insert dst { fileEntryNow with content := e.content })
      | .ok (some d) =>
        if d.ftype = .dir then (fail .io, m)
        else (.ok (), m.insert dst { d with content := e.content, modified := .now })
      | .err k p => (.err k p, m)
      | .panic => (.panic, m)
  | .err k p => (.err k p, m)
  | .panic => (.panic, m)

/-- move every key at or below `src` to the corresponding key at or below `dst` -/
def renameTree (m : FMap) (src dst : Str) : FMap :=
  m.map (fun kv =>
    if kv.1 = src then (dst, kv.2)
    else if (src ++ ['/']).isPrefixOf kv.1 then (dst ++ kv.1.drop src.length, kv.2)
    else kv)

/-- `std::fs::rename` (only the cases the path layer reaches: the destination does not exist) -/
def rename (m : FMap) (src dst : Str) : Res Unit × FMap :=
  -- the host resolves both parent directories before it looks at the last components
  match resolveParent m src, resolveParent m dst with
  | .err k p, _ => (.err k p, m)
  | .panic, _ => (.panic, m)
  | .ok _, .err k p => (.err k p, m)
  | .ok _, .panic => (.panic, m)
  | .ok _, .ok _ =>
  match lookup m src with
  | .ok none => (fail .fileNotFound, m)
  | .ok (some _) =>
    match lookup m dst with
    | .ok none =>
      if (src ++ ['/']).isPrefixOf dst then (fail .io, m)   -- EINVAL: into its own subtree
      else (.ok (), renameTree m src dst)
    | .ok (some _) => (fail .io, m)
    | .err k p => (.err k p, m)
    | .panic => (.panic, m)
  | .err k p => (.err k p, m)
  | .panic => (.panic, m)

end Phys

/-- lift a pure leaf function to the world -/
def onLeaf {α} (i : Nat) (f : Leaf → Res α × FMap) : M α := fun w =>
  match w.leaf? i with
  | none => (.panic, w)
  | some l =>
    let (r, files) := f l
    (r, w.setLeafFiles i files)

def leafFS (i : Nat) : FS where
  readDir p := onLeaf i fun l => match l.kind with
    | .mem => (Mem.readDir l.files p, l.files)
    | .phys => (Phys.readDir l.files p, l.files)
  createDir p := onLeaf i fun l => match l.kind with
    | .mem => Mem.createDir l.files p
    | .phys => Phys.createDir l.files p
  openFile p := onLeaf i fun l => match l.kind with
    | .mem => Mem.openFile l.files p
    | .phys => (Phys.openFile l.files p, l.files)
  createFile p := onLeaf i fun l => match l.kind with
    | .mem =>
      let (r, f) := Mem.createFile l.files p
      (r.map fun _ => { leaf := i, key := p, kind := .memFile, buf := [], pos := 0 }, f)
    | .phys =>
      let (r, f) := Phys.createFile l.files p
      (r.map fun _ => { leaf := i, key := p, kind := .physCreate, buf := [], pos := 0 }, f)
  appendFile p := onLeaf i fun l => match l.kind with
    | .mem =>
      ((Mem.appendFile l.files p).map fun b =>
        { leaf := i, key := p, kind := .memFile, buf := b, pos := b.length }, l.files)
    | .phys =>
      ((Phys.appendFile l.files p).map fun _ =>
        { leaf := i, key := p, kind := .physAppend, buf := [], pos := 0 }, l.files)
  metadata p := onLeaf i fun l => match l.kind with
    | .mem => (Mem.metadata l.files p, l.files)
    | .phys => (Phys.metadata l.files p, l.files)
  setCreationTime p t := onLeaf i fun l => match l.kind with
    | .mem => Mem.setCreated l.files p (.at t)
    | .phys => (fail .notSupported, l.files)
  setModificationTime p t := onLeaf i fun l => match l.kind with
    | .mem => Mem.setModified l.files p (.at t)
    | .phys => Phys.setTime (fun e => { e with modified := .at t }) l.files p
  setAccessTime p t := onLeaf i fun l => match l.kind with
    | .mem => Mem.setAccessed l.files p (.at t)
    | .phys => Phys.setTime (fun e => { e with accessed := .at t }) l.files p
  exists_ p := onLeaf i fun l => match l.kind with
    | .mem => (.ok (l.files.contains p), l.files)
    | .phys => (.ok (Phys.exists_ l.files p), l.files)
  removeFile p := onLeaf i fun l => match l.kind with
    | .mem => Mem.removeFile l.files p
    | .phys => Phys.removeFile l.files p
  removeDir p := onLeaf i fun l => match l.kind with
    | .mem => Mem.removeDir l.files p
    | .phys => Phys.removeDir l.files p
  copyFile s d := onLeaf i fun l => match l.kind with
    | .mem => (fail .notSupported, l.files)
    | .phys => Phys.copyFile l.files s d
  moveFile s d := onLeaf i fun l => match l.kind with
    | .mem => (fail .notSupported, l.files)
    | .phys => Phys.rename l.files s d
  moveDir s d := onLeaf i fun l => match l.kind with
    | .mem => (fail .notSupported, l.files)
    | .phys =>
      match Phys.rename l.files s d with
      | (.ok _, f) => (.ok (), f)
      | (_, f) => (fail .notSupported, f)

end Vfs
