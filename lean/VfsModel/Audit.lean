/-
  `#audit_ns Foo` lists every theorem declared in namespace `Foo` together with the axioms it
  depends on (what `#print axioms` reports), one line per theorem:
    AUDIT <theorem> : <axiom> <axiom> …
  ./check compares the axioms with the allowlist {propext, Classical.choice, Quot.sound}.
-/
import Lean
open Lean Elab Command

elab "#audit_ns " ns:ident : command => do
  let env ← getEnv
  let nsName := ns.getId
  let mut names : Array Name := #[]
  for (n, ci) in env.constants.toList do
    if nsName.isPrefixOf n && !n.isInternal then
      match ci with
      | .thmInfo _ => names := names.push n
      | _ => pure ()
  let sorted := names.qsort (fun a b => a.toString < b.toString)
  for n in sorted do
    let axs ← liftCoreM (collectAxioms n)
    let axs := axs.qsort (fun a b => a.toString < b.toString)
    logInfo m!"AUDIT {n} : {" ".intercalate (axs.toList.map toString)}"
