/-
  The world of filesystem state and the `FileSystem` trait as a record of state transformers.

  * `FMap`    — finite map from path strings to entries (association list; the iteration order
                of the Rust `HashMap` is never observed: listings are compared as sets).
  * `Leaf`    — one leaf backend state: `mem` (MemoryFS, src/impls/memory.rs) or `phys`
                (PhysicalFS: the POSIX behaviour of the host, which doubles as the reference
                specification `Spec`, see Phys.lean).
  * `World`   — all leaf states, plus ghost fields (trait-call log, fault countdown).
  * `M α`     — `World → Res α × World`, with a monad instance mirroring `?`.
  * `FS`      — the trait `FileSystem` (src/filesystem.rs) as a record of functions; adapters
                are functions from `FS` to `FS`, so every stacking is a term.
-/
import VfsModel.Path
namespace Vfs

inductive FType where
  | file | dir
  deriving DecidableEq, Repr, Inhabited

/-- timestamps: `unset` = `None`, `now` = some reading of `SystemTime::now()`, `at t` = a value
passed to a setter -/
inductive TS where
  | unset | now | at (t : Int)
  deriving DecidableEq, Repr, Inhabited

structure Entry where
  ftype : FType
  content : Bytes
  created : TS
  modified : TS
  accessed : TS
  deriving DecidableEq, Repr, Inhabited

abbrev FMap := List (Str × Entry)

namespace FMap
def find? (m : FMap) (k : Str) : Option Entry :=
  match m with
  | [] => none
  | (k', v) :: rest => if k' = k then some v else find? rest k
def erase (m : FMap) (k : Str) : FMap :=
  match m with
  | [] => []
  | (k', v) :: rest => if k' = k then erase rest k else (k', v) :: erase rest k
def insert (m : FMap) (k : Str) (v : Entry) : FMap := (k, v) :: erase m k
def contains (m : FMap) (k : Str) : Bool := (find? m k).isSome
def keys (m : FMap) : List Str := m.map (·.1)
end FMap

inductive LeafKind where
  | mem | phys
  deriving DecidableEq, Repr, Inhabited

structure Leaf where
  kind : LeafKind
  files : FMap
  deriving DecidableEq, Repr, Inhabited

/-- methods of the trait, for the ghost log -/
inductive Method where
  | readDir | createDir | openFile | createFile | appendFile | metadata
  | setCreationTime | setModificationTime | setAccessTime | exists_ | removeFile | removeDir
  | copyFile | moveFile | moveDir | handleWrite
  deriving DecidableEq, Repr, Inhabited

def Method.mutating : Method → Bool
  | .readDir | .openFile | .metadata | .exists_ => false
  | _ => true

structure LogEntry where
  tag : Nat
  method : Method
  path : Str
  path2 : Str := []
  deriving DecidableEq, Repr, Inhabited

structure World where
  leaves : List Leaf
  /-- ghost: calls seen by recording wrappers -/
  log : List LogEntry := []
  /-- ghost: fault plan — `some k`: the (k+1)-th call through a fault wrapper fails -/
  fault : Option Nat := none
  /-- ghost: the planned fault has fired -/
  fired : Bool := false
  deriving Repr, Inhabited

def World.leaf? (w : World) (i : Nat) : Option Leaf := w.leaves[i]?

def World.setLeafFiles (w : World) (i : Nat) (f : FMap) : World :=
  { w with leaves := w.leaves.modify i (fun l => { l with files := f }) }

abbrev M (α : Type) := World → Res α × World

namespace M
@[inline] def pure {α} (a : α) : M α := fun w => (.ok a, w)
@[inline] def bind {α β} (m : M α) (f : α → M β) : M β := fun w =>
  match m w with
  | (.ok a, w') => f a w'
  | (.err k p, w') => (.err k p, w')
  | (.panic, w') => (.panic, w')
instance : Monad M where
  pure := M.pure
  bind := M.bind
/-- lift an outcome -/
@[inline] def ret {α} (r : Res α) : M α := fun w => (r, w)
/-- `.map_err(|e| e.with_path(p))` -/
@[inline] def withPath {α} (p : Str) (m : M α) : M α := fun w =>
  let (r, w') := m w
  (r.withPath p, w')
@[inline] def get : M World := fun w => (.ok w, w)
@[inline] def set (w : World) : M Unit := fun _ => (.ok (), w)
@[inline] def failK {α} (k : ErrKind) : M α := fun w => (fail k, w)
@[inline] def failAt {α} (k : ErrKind) (p : Str) : M α := fun w => (.err k (some p), w)
/-- run and hand the outcome to the continuation (for `match result { … }`) -/
@[inline] def attempt {α} (m : M α) : M (Res α) := fun w =>
  let (r, w') := m w
  (.ok r, w')
end M

/-- read handle: a snapshot of the bytes and a position (`ReadableFile`, `Cursor`, `File`).
`bad` marks a handle whose reads fail (a directory opened through `File::open`). -/
structure RHandle where
  content : Bytes
  pos : Nat
  bad : Bool := false
  deriving DecidableEq, Repr, Inhabited

inductive WKind where
  /-- MemoryFS `WritableFile`: buffer published on flush/drop -/
  | memFile
  /-- `File::create`: writes go straight to the file at the handle's position -/
  | physCreate
  /-- `OpenOptions::append`: every write goes to the current end of the file -/
  | physAppend
  deriving DecidableEq, Repr, Inhabited

structure WHandle where
  leaf : Nat
  key : Str
  kind : WKind
  buf : Bytes
  pos : Nat
  deriving DecidableEq, Repr, Inhabited

structure Meta where
  ftype : FType
  len : Nat
  created : TS
  modified : TS
  accessed : TS
  deriving DecidableEq, Repr, Inhabited

/-- the trait `FileSystem` -/
structure FS where
  readDir : Str → M (List Str)
  createDir : Str → M Unit
  openFile : Str → M RHandle
  createFile : Str → M WHandle
  appendFile : Str → M WHandle
  metadata : Str → M Meta
  setCreationTime : Str → Int → M Unit
  setModificationTime : Str → Int → M Unit
  setAccessTime : Str → Int → M Unit
  exists_ : Str → M Bool
  removeFile : Str → M Unit
  removeDir : Str → M Unit
  copyFile : Str → Str → M Unit
  moveFile : Str → Str → M Unit
  moveDir : Str → Str → M Unit

instance : Inhabited FS := ⟨{
  readDir := fun _ => M.failK .notSupported, createDir := fun _ => M.failK .notSupported,
  openFile := fun _ => M.failK .notSupported, createFile := fun _ => M.failK .notSupported,
  appendFile := fun _ => M.failK .notSupported, metadata := fun _ => M.failK .notSupported,
  setCreationTime := fun _ _ => M.failK .notSupported,
  setModificationTime := fun _ _ => M.failK .notSupported,
  setAccessTime := fun _ _ => M.failK .notSupported, exists_ := fun _ => M.failK .notSupported,
  removeFile := fun _ => M.failK .notSupported, removeDir := fun _ => M.failK .notSupported,
  copyFile := fun _ _ => M.failK .notSupported, moveFile := fun _ _ => M.failK .notSupported,
  moveDir := fun _ _ => M.failK .notSupported }⟩

/-- a `VfsPath`: filesystem (with the identity of its `Arc`) and path string -/
structure VPath where
  fs : FS
  fsId : Nat
  path : Str

end Vfs
