/-
  EmbeddedFS (src/impls/embedded.rs): two maps built once from the list of embedded files.
  `fl` is the list `(relative path, bytes)` that `RustEmbed::iter` / `get` provide.
-/
import VfsModel.Fs
import VfsModel.Handle
namespace Vfs.Embedded

/-- `rsplit_once_cow(path, "/")`: `(prefix, suffix)` around the last '/', if any -/
def rsplitOnce (p : Str) : Option (Str × Str) :=
  if '/' ∈ p then some (beforeLast '/' p, afterLast '/' p) else none

abbrev DirMap := List (Str × List Str)

def DirMap.get? (d : DirMap) (k : Str) : Option (List Str) :=
  match d with
  | [] => none
  | (k', v) :: rest => if k' = k then some v else DirMap.get? rest k

/-- `directory_map.entry(k).or_default().insert(child)` -/
def DirMap.add (d : DirMap) (k child : Str) : DirMap :=
  match d with
  | [] => [(k, [child])]
  | (k', v) :: rest =>
    if k' = k then (k', if child ∈ v then v else v ++ [child]) :: rest
    else (k', v) :: DirMap.add rest k child

/-- the `while let Some((prefix, suffix)) = rsplit_once(path)` loop of `new`; the fuel is the
length of the path (each round strictly shortens it) -/
def climb (fuel : Nat) (d : DirMap) (path : Str) : DirMap :=
  match fuel with
  | 0 => d.add [] path
  | fuel + 1 =>
    match rsplitOnce path with
    | some (pre, suf) => climb fuel (d.add pre suf) pre
    | none => d.add [] path

structure State where
  directoryMap : DirMap
  files : List (Str × Bytes)

/-- `EmbeddedFS::new` -/
def new (fl : List (Str × Bytes)) : State :=
  { directoryMap := fl.foldl (fun d f => climb f.1.length d f.1) [], files := fl }

def fileGet? (fl : List (Str × Bytes)) (k : Str) : Option Bytes :=
  match fl with
  | [] => none
  | (k', v) :: rest => if k' = k then some v else fileGet? rest k

/-- `normalize_path`: "" stays, otherwise the first character is dropped -/
def normalize (p : Str) : Str := p.drop 1

def readDir (s : State) (p : Str) : Res (List Str) :=
  match s.directoryMap.get? (normalize p) with
  | some children => .ok children
  | none => if (fileGet? s.files (normalize p)).isSome then fail .other else fail .fileNotFound

def openFile (s : State) (p : Str) : Res RHandle :=
  match fileGet? s.files (normalize p) with
  | none => fail .fileNotFound
  | some b => .ok { content := b, pos := 0 }

def metadata (s : State) (p : Str) : Res Meta :=
  match fileGet? s.files (normalize p) with
  | some b => .ok { ftype := .file, len := b.length, created := .now, modified := .now, accessed := .unset }
  | none =>
    if (s.directoryMap.get? (normalize p)).isSome then
      .ok { ftype := .dir, len := 0, created := .unset, modified := .unset, accessed := .unset }
    else fail .fileNotFound

def exists_ (s : State) (p : Str) : Bool :=
  (fileGet? s.files (normalize p)).isSome || (s.directoryMap.get? (normalize p)).isSome
    || (normalize p = [])

/-- the trait object: read-only, every mutator is `NotSupported` -/
def fs (s : State) : FS where
  readDir p := M.ret (readDir s p)
  createDir _ := M.failK .notSupported
  openFile p := M.ret (openFile s p)
  createFile _ := M.failK .notSupported
  appendFile _ := M.failK .notSupported
  metadata p := M.ret (metadata s p)
  setCreationTime _ _ := M.failK .notSupported
  setModificationTime _ _ := M.failK .notSupported
  setAccessTime _ _ := M.failK .notSupported
  exists_ p := M.ret (.ok (exists_ s p))
  removeFile _ := M.failK .notSupported
  removeDir _ := M.failK .notSupported
  copyFile _ _ := M.failK .notSupported
  moveFile _ _ := M.failK .notSupported
  moveDir _ _ := M.failK .notSupported

end Vfs.Embedded
